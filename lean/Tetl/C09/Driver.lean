/- C09 line-protocol driver: prints `model <TAB> spec` for each case line.

   new kind=ss|fs|fi cap=N cmp=less|greater|tless|tgreater ctor=range|su init=[..] other=[..]
   insert k=K [via=insert|emplace|hint]      insert_range ks=[..]
   erase_key k=K   erase_at pos=P   erase_range first=F last=L   clear   swap   extract   replace c=[..]
   find|contains|count k=K [het=1]   lower_bound|upper_bound|equal_range k=K [het=1]   riter
   mset cmp=.. c=[..]                          (flat_multiset construction, stateless)
   every answer is followed by the state of the current set: ` n=<size> d=[..]`                     -/
import Tetl.Proto
import Tetl.C09.Model
import Tetl.C09.Spec
namespace Tetl.C09.Driver
open Tetl Tetl.Proto Tetl.C09

structure Live where
  kind : Kind
  lt : Nat → Nat → Bool
  cap : Nat
  model : Except Err (St Nat)
  spec : St Nat

abbrev DState := Option Live

def cmpOf : String → Option (Nat → Nat → Bool)
  | "less" | "tless" => some (fun a b => decide (a < b))
  | "greater" | "tgreater" => some (fun a b => decide (a > b))
  | _ => none

def kindOf : String → Option Kind
  | "ss" => some .ss | "fs" => some .fs | "fi" => some .fi | _ => none

def fmtIns (hint : Bool) : InsRes → String
  | .inserted p => if hint then s!"it({p})" else s!"ins({p},1)"
  | .exists_ p => if hint then s!"it({p})" else s!"ins({p},0)"
  | .full => "full"

def fmtOut (hint : Bool) : Out Nat → String
  | .ins r => fmtIns hint r
  | .unit => "ok"
  | .num n => toString n
  | .flag b => fmtBool b
  | .pair a b => s!"{a}:{b}"
  | .elems l => fmtNatList l

def fmtSt (l : List Nat) : String := s!" n={l.length} d={fmtNatList l}"

def build (kind : Kind) (lt : Nat → Nat → Bool) (cap : Nat) (ctor : String) (init : List Nat) :
    Except Err (List Nat) :=
  if ctor == "su" then
    (if init.length > cap then .error (.pre "container fits") else .ok init)
  else match kind with
    | .ss => ssInsertRange lt cap [] init
    | .fs => fsInsertRange lt cap [] init
    | .fi => fiInsertRange lt cap [] init

def specBuild (lt : Nat → Nat → Bool) (cap : Nat) (ctor : String) (init : List Nat) : List Nat :=
  if ctor == "su" then init else Spec.insertRange lt cap [] init

def parseOp (l : Line) : Option (Op Nat × Bool) :=
  let het := (l.nat? "het").getD 0 == 1
  match l.op with
  | "insert" => (l.nat? "k").map fun k => (.insert k, (l.str? "via").getD "insert" == "hint")
  | "insert_range" => (l.natList? "ks").map fun ks => (.insertRange ks, false)
  | "erase_key" => (l.nat? "k").map fun k => (.eraseKey k, false)
  | "erase_at" => (l.nat? "pos").map fun p => (.eraseAt p, false)
  | "erase_range" =>
    match l.nat? "first", l.nat? "last" with
    | some f, some la => some (.eraseRange f la, false)
    | _, _ => none
  | "clear" => some (.clear, false)
  | "swap" => some (.swap, false)
  | "extract" => some (.extract, false)
  | "replace" => (l.natList? "c").map fun c => (.replace c, false)
  | "find" => (l.nat? "k").map fun k => (.find k het, false)
  | "contains" => (l.nat? "k").map fun k => (.contains k het, false)
  | "count" => (l.nat? "k").map fun k => (.count k het, false)
  | "lower_bound" => (l.nat? "k").map fun k => (.lowerBound k, false)
  | "upper_bound" => (l.nat? "k").map fun k => (.upperBound k, false)
  | "equal_range" => (l.nat? "k").map fun k => (.equalRange k, false)
  | _ => none

def step (st : DState) (l : Line) : DState × String :=
  let bad := (st, "bad-op\tbad-op")
  match l.op with
  | "new" =>
    match (l.str? "kind").bind kindOf, (l.str? "cmp").bind cmpOf, l.nat? "cap" with
    | some kind, some lt, some cap =>
      let ctor := (l.str? "ctor").getD "range"
      let init := (l.natList? "init").getD []
      let other := (l.natList? "other").getD []
      let m : Except Err (St Nat) := do
        let c ← build kind lt cap ctor init
        let o ← build kind lt cap "range" other
        pure { cur := c, other := o }
      let s : St Nat := { cur := specBuild lt cap ctor init, other := specBuild lt cap "range" other }
      let ms := match m with | .ok x => "ok" ++ fmtSt x.cur | .error e => e.fmt
      (some { kind := kind, lt := lt, cap := cap, model := m, spec := s }, ms ++ "\t" ++ "ok" ++ fmtSt s.cur)
    | _, _, _ => bad
  | "mset" =>
    match (l.str? "cmp").bind cmpOf, l.natList? "c" with
    | some lt, some c =>
      let m := match gnomeSort lt c with | .ok x => fmtNatList x | .error e => e.fmt
      (st, m ++ "\t" ++ fmtNatList (Spec.multiset lt c))
    | _, _ => bad
  | "riter" =>
    match st with
    | some lv =>
      let m := match lv.model with | .ok x => fmtNatList x.cur.reverse ++ fmtSt x.cur | .error e => e.fmt
      (st, m ++ "\t" ++ fmtNatList lv.spec.cur.reverse ++ fmtSt lv.spec.cur)
    | none => bad
  | _ =>
    match st, parseOp l with
    | some lv, some (op, hint) =>
      let isSet := lv.kind == .ss
      let (m', ms) : Except Err (St Nat) × String :=
        match lv.model with
        | .error e => (.error e, e.fmt)
        | .ok x =>
          match C09.step lv.kind lv.lt lv.cap x op with
          | .ok (x', o) => (.ok x', fmtOut hint o ++ fmtSt x'.cur)
          | .error e => (.error e, e.fmt)
      let (s', o) := Spec.step isSet lv.lt lv.cap lv.spec op
      (some { lv with model := m', spec := s' }, ms ++ "\t" ++ fmtOut hint o ++ fmtSt s'.cur)
    | _, _ => bad

end Tetl.C09.Driver

def main : IO Unit := Tetl.Proto.runDriver (none : Tetl.C09.Driver.DState) Tetl.C09.Driver.step
