/- C09 line-protocol driver: prints `model <TAB> spec` for each case line.

   new kind=ss|fs|fi|fv cap=N cmp=less|greater|tless|tgreater|hless ctor=range|cont|su|sur init=[..] other=[..]
       (kind=fv: flat_set over etl::inplace_vector — ctor=su only; operations: lookups, clear, extract, cmp, sizes)
   insert k=K [via=insert|move|emplace]   insert k=K via=hint pos=P      insert_range ks=[..] [su=1: insert(sorted_unique, first, last), same model]
   erase_key k=K   erase_at pos=P   erase_range first=F last=L   clear   swap   extract   replace c=[..]
   find|contains|count k=K [het=1]   lower_bound|upper_bound|equal_range k=K [het=1]   riter
   erase_if m=M r=R        (`etl::erase_if(cur, [](int v){ return v % M == R; })`: erased count)
   cmp                     (`cur OP other` for OP in == != < <= > >=, printed as six 0/1 digits)
   sizes                   (`sz(size,empty,full|-,max_size)`)
   mset kind=fs|fi|fv cmp=.. c=[..]            (flat_multiset construction, stateless; containers of capacity 8)
   `het=1` / `het=2` select the `K const&` overload (2: the band key {k, k+1}, equivalent to up to two elements): the key is a value of another type, compared through its integer
   payload (`Het` instance `ek x k = lt x k`, `ke k x = lt k x`).
   every answer is followed by the state of the current set: ` n=<size> d=[..]`                     -/
import Tetl.Proto
import Tetl.C09.Model
import Tetl.C09.Spec
namespace Tetl.C09.Driver
open Tetl Tetl.Proto Tetl.C09

structure Live where
  kind : Kind
  ipv : Bool          -- flat_set over etl::inplace_vector (`kind=fv`): `kind` is `.fs`, the container members are the C01 model's
  lt : Nat → Nat → Bool
  cap : Nat
  model : Except Err (St Nat)
  spec : St Nat

abbrev DState := Option Live

/-- `hless` orders by `k / 2` (a strict weak order whose equivalence is coarser than `==`) -/
def cmpOf : String → Option (Nat → Nat → Bool)
  | "less" | "tless" => some (fun a b => decide (a < b))
  | "greater" | "tgreater" => some (fun a b => decide (a > b))
  | "hless" => some (fun a b => decide (a / 2 < b / 2))
  | _ => none

def kindOf : String → Option Kind
  | "ss" => some .ss | "fs" => some .fs | "fi" => some .fi | "fv" => some .fs | _ => none

/-- element `operator==` / `operator<` of `int` -/
def elemNat : Elem Nat := { eq := fun a b => a == b, lt := fun a b => decide (a < b) }

def ctorOf : String → Option Ctor
  | "range" => some .range | "cont" => some .cont | "su" => some .su | "sur" => some .sur | _ => none

def lkOf : String → Option Lk
  | "find" => some .find | "contains" => some .contains | "count" => some .count
  | "lower_bound" => some .lowerBound | "upper_bound" => some .upperBound | "equal_range" => some .equalRange
  | _ => none

/-- the heterogeneous key of the harness (`HKey{v}`) compares through its payload -/
def hetOf (lt : Nat → Nat → Bool) : Het Nat Nat := { ek := fun x k => lt x k, ke := fun k x => lt k x }

/-- the heterogeneous key type selected by a line -/
def hetSel (l : Line) (lt : Nat → Nat → Bool) : Het Nat Nat :=
  if (l.nat? "het").getD 0 == 2 then bandOf lt else hetOf lt

def fmtIns : InsRes → String
  | .inserted p => s!"ins({p},1)"
  | .exists_ p => s!"ins({p},0)"
  | .full => "full"

/-- `hint`: the operation was `insert(hint, x)`, whose iterator result is printed as `it(p)` / `full` (= `end()`) -/
def fmtOut (hint : Bool) (size : Nat) : Out Nat → String
  | .ins r => fmtIns r
  | .unit => "ok"
  | .num n => if hint then (if n == size then "full" else s!"it({n})") else toString n
  | .flag b => fmtBool b
  | .pair a b => s!"{a}:{b}"
  | .elems l => fmtNatList l

def fmtXOut (hint : Bool) (size : Nat) : XOut Nat → String
  | .base o => fmtOut hint size o
  | .bools bs => String.join (bs.map fun b => if b then "1" else "0")
  | .sizes n e f m =>
    let fs := match f with | some b => fmtBool b | none => "-"
    s!"sz({n},{fmtBool e},{fs},{m})"

def fmtSt (l : List Nat) : String := s!" n={l.length} d={fmtNatList l}"

def parseBase (l : Line) : Option (Op Nat Nat × Bool) :=
  let het := (l.nat? "het").getD 0 == 1 || (l.nat? "het").getD 0 == 2
  match l.op with
  | "insert" =>
    if (l.str? "via").getD "insert" == "hint" then
      match l.nat? "k", l.nat? "pos" with
      | some k, some p => some (.insertHint p k, true)
      | _, _ => none
    else (l.nat? "k").map fun k => (.insert k, false)
  | "insert_range" => (l.natList? "ks").map fun ks => (.insertRange ks, false)
  | "erase_key" => (l.nat? "k").map fun k => (.eraseKey k, false)
  | "erase_at" => (l.nat? "pos").map fun p => (.eraseAt p, false)
  | "erase_range" =>
    match l.nat? "first", l.nat? "last" with
    | some f, some la => some (.eraseRange f la, false)
    | _, _ => none
  | "clear" => some (.clear, false)
  | "swap" => some (.swap, false)
  | "extract" => some (.extract, false)
  | "replace" => (l.natList? "c").map fun c => (.replace c, false)
  | "riter" => some (.riter, false)
  | op =>
    match lkOf op, l.nat? "k" with
    | some w, some k => some (if het then .hlookup w k else .lookup w k, false)
    | _, _ => none

def parseOp (l : Line) : Option (XOp Nat Nat × Bool) :=
  match l.op with
  | "erase_if" =>
    match l.nat? "m", l.nat? "r" with
    | some m, some r => some (.eraseIf (fun v => v % m == r), false)
    | _, _ => none
  | "cmp" => some (.cmp, false)
  | "sizes" => some (.sizes, false)
  | _ => (parseBase l).map fun (op, hint) => (.base op, hint)

def step (st : DState) (l : Line) : DState × String :=
  let bad := (st, "bad-op\tbad-op")
  match l.op with
  | "new" =>
    match (l.str? "kind").bind kindOf, (l.str? "cmp").bind cmpOf, l.nat? "cap", ctorOf ((l.str? "ctor").getD "range") with
    | some kind, some lt, some cap, some ctor =>
      let init := (l.natList? "init").getD []
      let other := (l.natList? "other").getD []
      let ipv := (l.str? "kind").getD "" == "fv"
      if ipv && ctor != .su then bad else
      let m : Except Err (St Nat) := do
        let c ← if ipv then fvCtor cap init else construct kind lt cap ctor init
        let o ← if ipv then fvCtor cap other else construct kind lt cap .range other
        pure { cur := c, other := o }
      let s : St Nat := { cur := Spec.construct lt cap ctor init,
                          other := if ipv then Spec.construct lt cap .su other else Spec.construct lt cap .range other }
      let ms := match m with | .ok x => "ok" ++ fmtSt x.cur | .error e => e.fmt
      (some { kind := kind, ipv := ipv, lt := lt, cap := cap, model := m, spec := s }, ms ++ "\t" ++ "ok" ++ fmtSt s.cur)
    | _, _, _, _ => bad
  | "mset" =>
    match (l.str? "cmp").bind cmpOf, l.natList? "c" with
    | some lt, some c =>
      let k := (l.str? "kind").getD "fs"
      let r := if k == "fi" then fiMsetCtor lt 8 c else if k == "fv" then fvMsetCtor lt 8 c else msetCtor lt 8 c
      let m := match r with | .ok x => fmtNatList x | .error e => e.fmt
      (st, m ++ "\t" ++ fmtNatList (Spec.multiset lt c))
    | _, _ => bad
  | _ =>
    match st, parseOp l with
    | some lv, some (op, hint) =>
      let isSet := lv.kind == .ss
      let (m', ms) : Except Err (St Nat) × String :=
        match lv.model with
        | .error e => (.error e, e.fmt)
        | .ok x =>
          let r : Except Err (St Nat × XOut Nat) :=
            if lv.ipv then
              match op with
              | .base .clear => do .ok ({ x with cur := (← fvClear lv.cap x.cur) }, .base .unit)
              | .base .extract => do
                let (l', c) ← fvExtract lv.cap x.cur
                .ok ({ x with cur := l' }, .base (.elems c))
              | .base (.lookup ..) | .base (.hlookup ..) | .cmp | .sizes => C09.xstep .fs lv.lt (hetSel l lv.lt) elemNat lv.cap x op
              | _ => .error (.pre "flat_set over inplace_vector: the member does not compile")
            else C09.xstep lv.kind lv.lt (hetSel l lv.lt) elemNat lv.cap x op
          match r with
          | .ok (x', o) => (.ok x', fmtXOut hint x'.cur.length o ++ fmtSt x'.cur)
          | .error e => (.error e, e.fmt)
      let (s', o) := Spec.xstep isSet lv.lt (hetSel l lv.lt) elemNat lv.cap lv.spec op
      (some { lv with model := m', spec := s' }, ms ++ "\t" ++ fmtXOut hint s'.cur.length o ++ fmtSt s'.cur)
    | _, _ => bad

end Tetl.C09.Driver

def main : IO Unit := Tetl.Proto.runDriver (none : Tetl.C09.Driver.DState) Tetl.C09.Driver.step
