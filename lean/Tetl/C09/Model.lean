/-
C09 — model of `etl::static_set` (include/etl/_set/static_set.hpp), `etl::flat_set`
(include/etl/_flat_set/flat_set.hpp), the `flat_multiset` container constructor
(include/etl/_flat_set/flat_multiset.hpp) and of the algorithms they are built from
(`_algorithm/lower_bound.hpp`, `upper_bound.hpp`, `equal_range.hpp`, `rotate.hpp`, `move.hpp`,
`gnome_sort.hpp`) and of the `static_vector` members they call
(`push_back`, `emplace(pos, x)` = append + rotate, `erase(first,last)` = move down + shrink).

A set is the list of the elements of its backing vector, in storage order.  Iterators are
offsets from `begin()`.  The comparator is a parameter `lt : α → α → Bool` (`comp(a,b)`).
Every element read goes through `rd`, every element write through `wr` (both checked), so an
access outside `[begin,end)` is `.error .oob`; a violated `TETL_PRECONDITION` of `static_vector`
is `.error (.pre _)`.  Each definition follows the statement structure of the C++ member of the
same name *as it is after the `fix:` commits of branches fix-c09, fix-c09b and fix-c09x* (see known_findings.d/C09.json).
The algorithms that C06 already models (`remove_if`, `equal`, `lexicographical_compare`, `sort`) are used through their C06
models (Tetl/C06/Model/*.lean); the members of `etl::inplace_vector` through their C01 models (Tetl/C01/Model.lean).
-/
import Tetl.Common
import Tetl.C06.Model.Sort
import Tetl.C01.Model
namespace Tetl.C09

variable {α κ : Type}

/-- checked write of one element -/
def wr (l : List α) (i : Nat) (x : α) : Except Err (List α) :=
  if i < l.length then .ok (l.set i x) else .error .oob

/-! ### lower_bound / upper_bound / equal_range -/

/-- The `while (count > 0)` loop shared by `etl::lower_bound` (`p x = comp(x, value)`) and
    `etl::upper_bound` (`p x = not comp(value, x)`): `it = first + count/2`; if `p(*it)` then
    `first = ++it; count -= step + 1` else `count = step`. -/
def boundLoop (l : List α) (p : α → Bool) (first count : Nat) : Except Err Nat :=
  if _h : count > 0 then
    match rd l (first + count / 2) with
    | .error e => .error e
    | .ok x =>
      if p x then boundLoop l p (first + count / 2 + 1) (count - (count / 2 + 1))
      else boundLoop l p first (count / 2)
  else .ok first
termination_by count
decreasing_by all_goals omega

/-- `etl::lower_bound(begin(), end(), value, comp)` -/
def lowerBound (lt : α → α → Bool) (l : List α) (v : α) : Except Err Nat :=
  boundLoop l (fun x => lt x v) 0 l.length

/-- `etl::upper_bound(begin(), end(), value, comp)` -/
def upperBound (lt : α → α → Bool) (l : List α) (v : α) : Except Err Nat :=
  boundLoop l (fun x => !lt v x) 0 l.length

/-- `etl::equal_range` = `make_pair(lower_bound, upper_bound)` -/
def equalRange (lt : α → α → Bool) (l : List α) (v : α) : Except Err (Nat × Nat) := do
  let a ← lowerBound lt l v
  let b ← upperBound lt l v
  .ok (a, b)

/-- `etl::lower_bound(begin(), end(), key, comp)` for a key of ANY type (the `K const&` overloads of a
    transparent comparator): `below x = comp(x, key)`.  `lowerBound lt l v` is the instance
    `below = fun x => lt x v` (definitionally). -/
def lowerBoundP (below : α → Bool) (l : List α) : Except Err Nat := boundLoop l below 0 l.length

/-- `etl::upper_bound(begin(), end(), key, comp)` for a key of any type: `above x = comp(key, x)` -/
def upperBoundP (above : α → Bool) (l : List α) : Except Err Nat := boundLoop l (fun x => !above x) 0 l.length

/-- `etl::equal_range` for a key of any type -/
def equalRangeP (below above : α → Bool) (l : List α) : Except Err (Nat × Nat) := do
  let a ← lowerBoundP below l
  let b ← upperBoundP above l
  .ok (a, b)

/-- A transparent comparator seen from the set: how an element compares with a key of another type
    `κ` (`ek x k = comp(x, k)`, `ke k x = comp(k, x)`).  Two independent functions — nothing in the
    C++ forces them to be consistent; the theorems state the consistency they need (`HetOk`). -/
structure Het (α κ : Type) where
  ek : α → κ → Bool
  ke : κ → α → Bool

/-- `het=2`: the band key of the harness (`BKey{v}`) stands for the two adjacent integers v and v+1 - a key that is
    equivalent to more than one element of a set, as [associative.reqmts] allows for transparent comparators: an element
    is before the key when it is before both, after it when it is after both (`Props.bandOf_ok`: consistent with the
    order for the comparators of the harness). -/
def bandOf (lt : Nat → Nat → Bool) : Het Nat Nat :=
  { ek := fun x k => lt x k && lt x (k + 1), ke := fun k x => lt k x && lt (k + 1) x }

/-! ### rotate (the forward swap cycle of `_algorithm/rotate.hpp`) -/

/-- `iter_swap(a, b)` on offsets -/
def swapAt (l : List α) (i j : Nat) : Except Err (List α) :=
  match l[i]?, l[j]? with
  | some x, some y => .ok ((l.set i y).set j x)
  | _, _ => .error .oob

/-- `while (read != last) { if (write == nextRead) nextRead = read; iter_swap(write++, read++); }`;
    returns the vector, `write` and `nextRead`. -/
def rotLoop (l : List α) (write read nextRead last : Nat) : Except Err (List α × Nat × Nat) :=
  if _h : read < last then
    match swapAt l write read with
    | .error e => .error e
    | .ok l' => rotLoop l' (write + 1) (read + 1) (if write = nextRead then read else nextRead) last
  else .ok (l, write, nextRead)
termination_by last - read
decreasing_by omega

/-- `etl::rotate(first, nFirst, last)`; the first argument bounds the recursion depth
    (`.error .fuel` when exhausted — proved never to happen for `fuel > last - first`).
    Returns the vector and the iterator `rotate` returns. -/
def rotate : Nat → List α → Nat → Nat → Nat → Except Err (List α × Nat)
  | 0, _, _, _, _ => .error .fuel
  | fuel + 1, l, first, nFirst, last =>
    if first = nFirst then .ok (l, last)
    else if nFirst = last then .ok (l, first)
    else
      match rotLoop l first nFirst first last with
      | .error e => .error e
      | .ok (l1, w, nr) =>
        match rotate fuel l1 w nr last with
        | .error e => .error e
        | .ok (l2, _) => .ok (l2, w)

/-! ### static_vector members used by the sets -/

/-- `static_vector::push_back` : `TETL_PRECONDITION(!full())`, then construct at `end()` -/
def svPushBack (cap : Nat) (l : List α) (x : α) : Except Err (List α) :=
  if l.length ≥ cap then .error (.pre "static_vector::push_back: !full()") else .ok (l ++ [x])

/-- `static_vector::emplace(position, x)` → `move_insert(position, &a, &a+1)`:
    `b = end(); emplace_back(a); rotate(begin()+pos, b, end()); return begin()+pos` -/
def svEmplace (cap : Nat) (l : List α) (pos : Nat) (x : α) : Except Err (List α × Nat) :=
  if l.length ≥ cap then .error (.pre "static_vector::emplace: !full()")
  else if pos > l.length then .error (.pre "static_vector::emplace: position in range")
  else
    match rotate (l.length + 2) (l ++ [x]) pos l.length (l.length + 1) with
    | .error e => .error e
    | .ok (l', _) => .ok (l', pos)

/-- `etl::move(first, last, dest)` on one vector: `n` iterations of `*dest++ = move(*first++)` -/
def moveLoop : Nat → List α → Nat → Nat → Except Err (List α)
  | 0, l, _, _ => .ok l
  | n + 1, l, src, dst =>
    match rd l src with
    | .error e => .error e
    | .ok x =>
      match wr l dst x with
      | .error e => .error e
      | .ok l' => moveLoop n l' (src + 1) (dst + 1)

/-- `static_vector::erase(first, last)`: `assert_iterator_pair_in_range`; if `first != last`
    move `[last, end)` down to `first`, destroy the tail, shrink the size.  Returns `first`. -/
def svErase (l : List α) (first last : Nat) : Except Err (List α × Nat) :=
  if first > l.length || last > l.length || first > last then
    .error (.pre "static_vector::erase: iterator pair in range")
  else if first = last then .ok (l, first)
  else
    match moveLoop (l.length - last) l last first with
    | .error e => .error e
    | .ok l' => .ok (l'.take (l.length - (last - first)), first)

/-- `static_vector::clear()`: `unsafe_destroy_all(); unsafe_set_size(0);` -/
def svClear (_l : List α) : List α := []

/-- the loop `for (; first != last; ++first) emplace_back(*first);` of `insert(pos, first, last)` and
    `move_insert(pos, first, last)`; `emplace_back`: `TETL_PRECONDITION(!full())`, construct at `end()` -/
def svAppendLoop (cap : Nat) : List α → List α → Except Err (List α)
  | l, [] => .ok l
  | l, x :: xs =>
    if l.length ≥ cap then .error (.pre "static_vector::emplace_back: !full()")
    else svAppendLoop cap (l ++ [x]) xs

/-- `static_vector::insert(position, first, last)` and `move_insert(position, first, last)` (the same
    statements): `assert_iterator_in_range(position)`; `TETL_PRECONDITION(size() + (last-first) <= capacity())`;
    `b = end()`; the append loop; `rotate(begin()+pos, b, end())`; `return begin()+pos`. -/
def svInsertRange (cap : Nat) (l : List α) (pos : Nat) (src : List α) : Except Err (List α × Nat) :=
  if pos > l.length then .error (.pre "static_vector::insert: position in range")
  else if l.length + src.length > cap then .error (.pre "static_vector::insert: size() + n <= capacity()")
  else
    match svAppendLoop cap l src with
    | .error e => .error e
    | .ok l1 =>
      match rotate (l1.length + 1) l1 pos l.length l1.length with
      | .error e => .error e
      | .ok (l2, _) => .ok (l2, pos)

/-- `static_vector(static_vector&& other)` = `move_insert(begin(), other.begin(), other.end())` into the
    empty vector; `static_vector(first, last)` = capacity precondition + `insert(begin(), first, last)` -/
def svCtor (cap : Nat) (src : List α) : Except Err (List α) :=
  match svInsertRange cap [] 0 src with
  | .error e => .error e
  | .ok (l, _) => .ok l

/-- `static_vector::operator=(static_vector&& other)`: `clear(); move_insert(begin(), other.begin(), other.end());`
    (the source keeps its moved-from elements) -/
def svMoveAssign (cap : Nat) (dst src : List α) : Except Err (List α) :=
  match svInsertRange cap (svClear dst) 0 src with
  | .error e => .error e
  | .ok (l, _) => .ok l

/-- `static_vector::swap(other)`: `static_vector tmp = move(other); other = move(*this); *this = move(tmp);`
    returns (`*this`, `other`) -/
def svSwap (cap : Nat) (self other : List α) : Except Err (List α × List α) :=
  match svCtor cap other with
  | .error e => .error e
  | .ok tmp =>
    match svMoveAssign cap other self with
    | .error e => .error e
    | .ok other' =>
      match svMoveAssign cap self tmp with
      | .error e => .error e
      | .ok self' => .ok (self', other')

/-! ### static_set -/

/-- the test `it != end() && !comp(key, *it)` that follows a `lower_bound` (no read when `it == end()`);
    `gt x = comp(key, x)` -/
def equivAt (gt : α → Bool) (l : List α) (p : Nat) : Except Err Bool :=
  if p = l.length then .ok false
  else
    match rd l p with
    | .error e => .error e
    | .ok x => .ok (!gt x)

/-- result of `insert`/`emplace`: the `(iterator, bool)` pair; `full` is the failure report
    `(nullptr,false)` of `static_set` / `(end(),false)` of `flat_set` for a new key in a full set -/
inductive InsRes where
  | inserted (pos : Nat)
  | exists_ (pos : Nat)
  | full
  deriving Repr, DecidableEq, Inhabited

/-- `static_set::insert(value_type&&)`:
    `p = lower_bound(begin, end, value, cmp)`; `if (p != end && !cmp(value,*p)) return {p,false}`;
    `if (full()) return {nullptr,false}`; `push_back(value)`; `rotate(p, end-1, end)`; `return {p,true}` -/
def ssInsert (lt : α → α → Bool) (cap : Nat) (l : List α) (v : α) : Except Err (List α × InsRes) := do
  let p ← lowerBound lt l v
  let dup ← equivAt (fun x => lt v x) l p
  if dup then .ok (l, .exists_ p)
  else if l.length = cap then .ok (l, .full)
  else
    let l1 ← svPushBack cap l v
    let (l2, _) ← rotate (l1.length + 1) l1 p (l1.length - 1) l1.length
    .ok (l2, .inserted p)

/-- `static_set::insert(first, last)`: `for (; first != last; ++first) insert(*first);` (results dropped) -/
def ssInsertRange (lt : α → α → Bool) (cap : Nat) : List α → List α → Except Err (List α)
  | l, [] => .ok l
  | l, v :: vs => do
    let (l', _) ← ssInsert lt cap l v
    ssInsertRange lt cap l' vs

/-- `static_set::erase(iterator pos)` = `_storage.erase(pos)` = `erase(pos, pos + 1)` -/
def ssEraseAt (l : List α) (pos : Nat) : Except Err (List α × Nat) :=
  if pos > l.length then .error (.pre "static_vector::erase: position in range")
  else svErase l pos (pos + 1)

/-- `static_set::erase(first, last)` = `_storage.erase(first, last)` -/
def ssEraseRange (l : List α) (first last : Nat) : Except Err (List α × Nat) := svErase l first last

/-- `static_set::erase(key)`: `pos = lower_bound(begin,end,key,cmp)`;
    `if (pos != end && !cmp(key,*pos)) { erase(pos); return 1; } return 0;` -/
def ssEraseKey (lt : α → α → Bool) (l : List α) (k : α) : Except Err (List α × Nat) := do
  let p ← lowerBound lt l k
  let hit ← equivAt (fun x => lt k x) l p
  if hit then
    let (l', _) ← ssEraseAt l p
    .ok (l', 1)
  else .ok (l, 0)

/-- every `find` of `static_set` (`key_type const&` — after the `fix:` of F-C09-ss-find-eq — and `K const&`) and of `flat_set`:
    `it = lower_bound(key)`; `if (it == end() or comp(key,*it)) return end(); return it;`
    (`ltKE k x = comp(key, x)`, `ltEK x k = comp(x, key)` — two functions because the key may have
    another type than the elements) -/
def findLB (ltEK : α → Bool) (ltKE : α → Bool) (l : List α) : Except Err Nat := do
  let p ← boundLoop l ltEK 0 l.length
  let hit ← equivAt ltKE l p
  if hit then .ok p else .ok l.length

/-! ### flat_set (over a container with `emplace(pos,x)`, `erase`, `clear`) -/

/-- `flat_set::emplace`: `it = lower_bound(key)`;
    `if (it == end() or comp(key,*it)) { if (size() == max_size()) return {end(),false};
       it = container.emplace(it, key); return {it,true}; }  return {it,false};` -/
def fsEmplace (lt : α → α → Bool) (cap : Nat) (l : List α) (v : α) : Except Err (List α × InsRes) := do
  let p ← lowerBound lt l v
  let hit ← equivAt (fun x => lt v x) l p
  if !hit then
    if l.length = cap then .ok (l, .full)
    else
      let (l', it) ← svEmplace cap l p v
      .ok (l', .inserted it)
  else .ok (l, .exists_ p)

/-- `flat_set::insert(first, last)`: `while (first != last) { insert(*first); ++first; }`; also
    `flat_set::insert(sorted_unique, first, last)` = `insert(first, last)` (defined by the `fix:` of
    F-C09-fs-insert-sorted-unique-undefined; it was declared only) -/
def fsInsertRange (lt : α → α → Bool) (cap : Nat) : List α → List α → Except Err (List α)
  | l, [] => .ok l
  | l, v :: vs => do
    let (l', _) ← fsEmplace lt cap l v
    fsInsertRange lt cap l' vs

/-- `flat_set::erase(key_type const&)` (after the `fix:` of F-C09-fs-erase-key-eq): `it = find(key)`;
    `if (it == end()) return 0; erase(it); return 1;` — `erase(it)` = `_container.erase(position)` -/
def fsEraseKey (lt : α → α → Bool) (l : List α) (k : α) : Except Err (List α × Nat) := do
  let it ← findLB (fun x => lt x k) (fun x => lt k x) l
  if it = l.length then .ok (l, 0)
  else
    let (l', _) ← ssEraseAt l it
    .ok (l', 1)

/-! ### flat_multiset(KeyContainer): `etl::sort` = gnome sort (the C06 model of `_algorithm/gnome_sort.hpp`) -/

/-- `flat_multiset(KeyContainer cont)`: `flat_multiset(sorted_equivalent, move(cont))` (= `_container(move(cont))`,
    the move constructor of the container), then `etl::sort(begin(), end(), _compare)`.
    `etl::sort` is `gnome_sort`; its model is `Tetl.C06.sort` (checked reads inside `[first,last)`, loop bound as fuel). -/
def msetCtor (lt : α → α → Bool) (cap : Nat) (c : List α) : Except Err (List α) :=
  match svCtor cap c with
  | .error e => .error e
  | .ok l => Tetl.C06.sort lt l 0 l.length

/-! ### container contract of the harness' inplace-vector-like container (`mini_vec`, not tetl code) -/

/-- `emplace(pos, x)` = shift right, aborts when full -/
def miniEmplace (cap : Nat) (l : List α) (pos : Nat) (x : α) : Except Err (List α × Nat) :=
  if l.length ≥ cap then .error (.pre "mini_vec::emplace: !full()")
  else if pos > l.length then .error .oob
  else .ok (l.take pos ++ x :: l.drop pos, pos)

/-- erase on the inplace-vector-like container -/
def miniErase (l : List α) (first last : Nat) : Except Err (List α × Nat) :=
  if first > last || last > l.length then .error .oob else .ok (l.take first ++ l.drop last, first)

/-- `mini_vec(first, last)`: `emplace(end(), *first)` per element (aborts past capacity); also its implicit
    copy / move construction and assignment from a container of the same type (memberwise copy) -/
def miniCtor (cap : Nat) (src : List α) : Except Err (List α) :=
  if src.length > cap then .error (.pre "mini_vec::emplace: !full()") else .ok src

def miniClear (_l : List α) : List α := []

/-- `flat_multiset(KeyContainer cont)` over the inplace-vector-like container: memberwise moves of the container, then `etl::sort` -/
def fiMsetCtor (lt : α → α → Bool) (cap : Nat) (c : List α) : Except Err (List α) :=
  match miniCtor cap c with
  | .error e => .error e
  | .ok l => Tetl.C06.sort lt l 0 l.length

/-! ### static_set / flat_set: the members that only forward to the container -/

inductive Kind where | ss | fs | fi
  deriving Repr, DecidableEq, Inhabited

/-- `static_set::clear()` = `_storage.clear()`; `flat_set::clear()` = `_container.clear()` -/
def setClear (kind : Kind) (l : List α) : List α :=
  match kind with
  | .fi => miniClear l
  | _ => svClear l

/-- `static_set::swap(other)` = `etl::swap(_storage, other._storage)` (the `static_vector` overload = `lhs.swap(rhs)`);
    `flat_set::swap(other)` = `swap(_compare, other._compare); swap(_container, other._container);` (comparators are
    stateless; over `mini_vec` the generic three-move `etl::swap` of two memberwise-copied objects: container contract).
    The free `swap(x, y)` of `flat_set` is `x.swap(y)`; for `static_set` the generic `etl::swap` moves the whole sets,
    which moves `_storage` with the same `static_vector` members. -/
def setSwap (kind : Kind) (cap : Nat) (self other : List α) : Except Err (List α × List α) :=
  match kind with
  | .fi =>
    match miniCtor cap other, miniCtor cap self with
    | .ok tmp, .ok o' => .ok (tmp, o')
    | .error e, _ => .error e
    | _, .error e => .error e
  | _ => svSwap cap self other

/-- `flat_set::extract() &&`: `auto container = move(_container); clear(); return container;`
    returns (the set afterwards, the returned container) -/
def fsExtract (kind : Kind) (cap : Nat) (l : List α) : Except Err (List α × List α) :=
  match (match kind with | .fi => miniCtor cap l | _ => svCtor cap l) with
  | .error e => .error e
  | .ok c => .ok (setClear kind l, c)

/-- `flat_set::replace(container_type&& c)`: `_container = move(c);` -/
def fsReplace (kind : Kind) (cap : Nat) (l c : List α) : Except Err (List α) :=
  match kind with
  | .fi => miniCtor cap c
  | _ => svMoveAssign cap l c

/-- first component of the pair `emplace` returns: `end()` for the failure report of a full `flat_set` -/
def InsRes.first (endPos : Nat) : InsRes → Nat
  | .inserted p => p
  | .exists_ p => p
  | .full => endPos

/-- reverse iteration `for (it = rbegin(); it != rend(); ++it) use(*it)`: `*it` of a `reverse_iterator` with
    base `i + 1` reads element `i`; `rbegin().base() = end()`, `rend().base() = begin()` -/
def riterLoop (l : List α) : Nat → List α → Except Err (List α)
  | 0, acc => .ok acc
  | i + 1, acc =>
    match rd l i with
    | .error e => .error e
    | .ok x => riterLoop l i (acc ++ [x])

def riter (l : List α) : Except Err (List α) := riterLoop l l.length []

/-! ### flat_set over the inplace-vector-like container -/

/-- `flat_set::emplace` over the inplace-vector-like container -/
def fiEmplace (lt : α → α → Bool) (cap : Nat) (l : List α) (v : α) : Except Err (List α × InsRes) := do
  let p ← lowerBound lt l v
  let hit ← equivAt (fun x => lt v x) l p
  if !hit then
    if l.length = cap then .ok (l, .full)
    else
      let (l', it) ← miniEmplace cap l p v
      .ok (l', .inserted it)
  else .ok (l, .exists_ p)

def fiInsertRange (lt : α → α → Bool) (cap : Nat) : List α → List α → Except Err (List α)
  | l, [] => .ok l
  | l, v :: vs => do
    let (l', _) ← fiEmplace lt cap l v
    fiInsertRange lt cap l' vs

/-- `emplace` of the set kind -/
def setEmplace (kind : Kind) (lt : α → α → Bool) (cap : Nat) (l : List α) (v : α) : Except Err (List α × InsRes) :=
  match kind with
  | .ss => ssInsert lt cap l v
  | .fs => fsEmplace lt cap l v
  | .fi => fiEmplace lt cap l v

/-- `insert(first, last)` of the set kind -/
def setInsertRange (kind : Kind) (lt : α → α → Bool) (cap : Nat) (l ks : List α) : Except Err (List α) :=
  match kind with
  | .ss => ssInsertRange lt cap l ks
  | .fs => fsInsertRange lt cap l ks
  | .fi => fiInsertRange lt cap l ks

/-- `flat_set::insert(const_iterator hint, x)` = `emplace_hint(hint, x)` = `emplace(x).first` (the hint is not used) -/
def fsInsertHint (kind : Kind) (lt : α → α → Bool) (cap : Nat) (l : List α) (_hint : Nat) (v : α) :
    Except Err (List α × Nat) :=
  match setEmplace kind lt cap l v with
  | .error e => .error e
  | .ok (l', r) => .ok (l', r.first l'.length)

/-! ### constructors -/

/-- `range`: `static_set(first,last)` / `flat_set(first,last)`; `cont`: `flat_set(container const&)`;
    `su`: `flat_set(sorted_unique, container)`; `sur`: `flat_set(sorted_unique, first, last)` -/
inductive Ctor where | range | cont | su | sur
  deriving Repr, DecidableEq, Inhabited

/-- * `static_set(first, last)`: `TETL_PRECONDITION(last - first <= max_size())` (random-access iterators), `insert(first, last)`;
    * `flat_set(first, last, comp)`: `_container{}`, `insert(first, last)`;
    * `flat_set(container const& c)` → `flat_set(begin(c), end(c), Compare())` (the argument container was built first:
      it must fit);
    * `flat_set(sorted_unique, container c)`: `_container{move(c)}` — the container is taken AS IS
      (precondition [flat.set.cons]: sorted w.r.t. the comparator and unique);
    * `flat_set(sorted_unique, first, last)`: `_container(first, last)` — likewise. -/
def construct (kind : Kind) (lt : α → α → Bool) (cap : Nat) (ctor : Ctor) (init : List α) : Except Err (List α) :=
  match kind, ctor with
  | .ss, .range =>
    if init.length > cap then .error (.pre "static_set(first,last): last - first <= max_size()")
    else ssInsertRange lt cap [] init
  | .ss, _ => .error (.pre "static_set has no such constructor")
  | .fs, .range => fsInsertRange lt cap [] init
  | .fi, .range => fiInsertRange lt cap [] init
  | .fs, .cont =>
    match svCtor cap init with
    | .error e => .error e
    | .ok c => fsInsertRange lt cap [] c
  | .fi, .cont =>
    match miniCtor cap init with
    | .error e => .error e
    | .ok c => fiInsertRange lt cap [] c
  | .fs, .su =>
    match svCtor cap init with          -- the argument container
    | .error e => .error e
    | .ok c => svCtor cap c             -- `_container{move(cont)}`
  | .fs, .sur => svCtor cap init
  | .fi, _ => miniCtor cap init

/-! ### one object history step (static_set = `.ss`, flat_set over static_vector = `.fs`,
        flat_set over the harness' inplace-vector-like container = `.fi`) -/

/-- the lookup members -/
inductive Lk where | find | contains | count | lowerBound | upperBound | equalRange
  deriving Repr, DecidableEq, Inhabited

/-- Operations of a history.  Two sets are alive (`cur`, `other`); every operation addresses
    `cur`, `swap` exchanges the two.  `lookup` is the `key_type const&` overload, `hlookup` the
    `K const&` overload of a transparent comparator with a key of another type `κ`. -/
inductive Op (α κ : Type) where
  | insert (k : α)
  | insertHint (pos : Nat) (k : α)
  | insertRange (ks : List α)
  | eraseKey (k : α)
  | eraseAt (pos : Nat)
  | eraseRange (first last : Nat)
  | clear
  | swap
  | extract
  | replace (c : List α)
  | lookup (w : Lk) (k : α)
  | hlookup (w : Lk) (k : κ)
  | riter
  deriving Repr

/-- observable result of one operation -/
inductive Out (α : Type) where
  | ins (r : InsRes)
  | unit
  | num (n : Nat)
  | flag (b : Bool)
  | pair (a b : Nat)
  | elems (l : List α)
  deriving Repr, DecidableEq

structure St (α : Type) where
  cur : List α
  other : List α
  deriving Repr, DecidableEq

/-- The lookup members written through `lower_bound`/`upper_bound` for a key of any type
    (`below x = comp(x, key)`, `above x = comp(key, x)`):
    `find` = `findLB`; `contains` = `find(key) != end()` (static_set) / `count(key) == 1` (flat_set);
    `count` = `contains(key) ? 1 : 0` (static_set) / `find(key) == end() ? 0 : 1` (flat_set). -/
def lookupP (below above : α → Bool) (l : List α) : Lk → Except Err (Out α)
  | .find => do .ok (.num (← findLB below above l))
  | .contains => do .ok (.flag ((← findLB below above l) != l.length))
  | .count => do .ok (.num (if (← findLB below above l) != l.length then 1 else 0))
  | .lowerBound => do .ok (.num (← lowerBoundP below l))
  | .upperBound => do .ok (.num (← upperBoundP above l))
  | .equalRange => do
    let (a, b) ← equalRangeP below above l
    .ok (.pair a b)

/-- The `K const&` overloads: as `lookupP`, except that `count(K const&)` is `distance(equal_range(key))` - a key of
    another type may be equivalent to several elements. -/
def hlookupP (below above : α → Bool) (l : List α) : Lk → Except Err (Out α)
  | .count => do
    let (a, b) ← equalRangeP below above l
    .ok (.num (b - a))
  | w => lookupP below above l w

/-- `erase(key)` of the set kind -/
def setEraseKey (kind : Kind) (lt : α → α → Bool) (l : List α) (k : α) : Except Err (List α × Nat) :=
  match kind with
  | .ss => ssEraseKey lt l k
  | .fs => fsEraseKey lt l k
  | .fi => do
    let it ← findLB (fun x => lt x k) (fun x => lt k x) l
    if it = l.length then .ok (l, 0)
    else
      let (l', _) ← miniErase l it (it + 1)
      .ok (l', 1)

def step (kind : Kind) (lt : α → α → Bool) (h : Het α κ) (cap : Nat) (s : St α) :
    Op α κ → Except Err (St α × Out α)
  | .insert k => do
    let (l, r) ← setEmplace kind lt cap s.cur k
    .ok ({ s with cur := l }, .ins r)
  | .insertHint pos k =>
    match kind with
    | .ss => .error (.pre "static_set has no insert(hint, x)")
    | _ => do
      let (l, r) ← fsInsertHint kind lt cap s.cur pos k
      .ok ({ s with cur := l }, .num r)
  | .insertRange ks => do
    let l ← setInsertRange kind lt cap s.cur ks
    .ok ({ s with cur := l }, .unit)
  | .eraseKey k => do
    let (l, n) ← setEraseKey kind lt s.cur k
    .ok ({ s with cur := l }, .num n)
  | .eraseAt pos => do
    let (l, r) ← (match kind with
      | .fi => miniErase s.cur pos (pos + 1)
      | _ => ssEraseAt s.cur pos)
    .ok ({ s with cur := l }, .num r)
  | .eraseRange f la => do
    let (l, r) ← (match kind with
      | .fi => miniErase s.cur f la
      | _ => ssEraseRange s.cur f la)
    .ok ({ s with cur := l }, .num r)
  | .clear => .ok ({ s with cur := setClear kind s.cur }, .unit)
  | .swap => do
    let (a, b) ← setSwap kind cap s.cur s.other
    .ok ({ cur := a, other := b }, .unit)
  | .extract =>
    match kind with
    | .ss => .error (.pre "static_set has no extract")
    | _ => do
      let (l, c) ← fsExtract kind cap s.cur
      .ok ({ s with cur := l }, .elems c)
  | .replace c =>
    match kind with
    | .ss => .error (.pre "static_set has no replace")
    | _ => do
      let arg ← (match kind with | .fi => miniCtor cap c | _ => svCtor cap c)   -- the argument container
      let l ← fsReplace kind cap s.cur arg
      .ok ({ s with cur := l }, .unit)
  | .lookup w k => do
    let o ← lookupP (fun x => lt x k) (fun x => lt k x) s.cur w
    .ok (s, o)
  | .hlookup w k => do
    let o ← hlookupP (fun x => h.ek x k) (fun x => h.ke k x) s.cur w
    .ok (s, o)
  | .riter => do .ok (s, .elems (← riter s.cur))

/-- a whole history: the outputs in order and the final state -/
def run (kind : Kind) (lt : α → α → Bool) (h : Het α κ) (cap : Nat) :
    St α → List (Op α κ) → Except Err (St α × List (Out α))
  | s, [] => .ok (s, [])
  | s, op :: ops => do
    let (s1, o) ← step kind lt h cap s op
    let (s2, os) ← run kind lt h cap s1 ops
    .ok (s2, o :: os)

/-! ### erase_if, relational operators, size observers — and histories extended by them

The operations and results of `Op` / `Out` / `step` / `run` above are kept as they are (property C02 consumes them); the three
additions are a layer on top: `XOp` = an `Op` or one of `erase_if(pred)` / the six relational operators against the other live
set / the size observers; `xstep` / `xrun` run histories in which all of them are interleaved. -/

inductive XOp (α κ : Type) where
  | base (op : Op α κ)
  | eraseIf (p : α → Bool)      -- `etl::erase_if(cur, pred)`; result `.base (.num erased)`
  | cmp                         -- `cur == other`, `!=`, `<`, `<=`, `>`, `>=`
  | sizes                       -- `size()`, `empty()`, `full()` (static_set), `max_size()`

inductive XOut (α : Type) where
  | base (o : Out α)
  | bools (bs : List Bool)
  | sizes (size : Nat) (empty : Bool) (full : Option Bool) (maxSize : Nat)
  deriving Repr, DecidableEq

/-- `erase_if(set, pred)` — `static_set` (added by the `fix:` of F-C09-ss-erase-if-missing) and `flat_set`, the same statements:
    `it = etl::remove_if(c.begin(), c.end(), pred)` (the C06 model of `_algorithm/remove_if.hpp`);
    `r = distance(it, c.end())`; `c.erase(it, c.end())` (the container's range erase); `return r` -/
def setEraseIf (kind : Kind) (p : α → Bool) (l : List α) : Except Err (List α × Nat) := do
  let (a, it) ← Tetl.C06.removeIf p l 0 l.length
  let r := a.length - it
  let (l', _) ← (match kind with
    | .fi => miniErase a it a.length
    | _ => svErase a it a.length)
  .ok (l', r)

/-- `operator==` and `operator<` of the ELEMENT type: what `etl::equal` / `etl::lexicographical_compare` called without a
    comparator use.  They are unrelated to the comparator of the set ("this comparison ignores the set's ordering"). -/
structure Elem (α : Type) where
  eq : α → α → Bool
  lt : α → α → Bool

/-- `operator==`.  static_set: `lhs.size() == rhs.size() && equal(begin(lhs), end(lhs), begin(rhs))` (3-iterator `etl::equal`);
    flat_set: `etl::equal(lhs.begin(), lhs.end(), rhs.begin(), rhs.end())` (4-iterator, random-access branch: the two
    distances are compared first).  Both through the C06 models of `_algorithm/equal.hpp`. -/
def setEq (kind : Kind) (e : Elem α) (a b : List α) : Except Err Bool :=
  match kind with
  | .ss => if a.length == b.length then Tetl.C06.equal3 e.eq a 0 a.length b 0 b.length else .ok false
  | _ => Tetl.C06.equal4RA e.eq a 0 a.length b 0 b.length

/-- `operator<` = `etl::lexicographical_compare(begin(lhs), end(lhs), begin(rhs), end(rhs))` (C06 model) -/
def setLt (e : Elem α) (a b : List α) : Except Err Bool :=
  Tetl.C06.lexicographicalCompare e.lt a 0 a.length b 0 b.length

/-- the six operators as the code derives them, each evaluated on its own: `==`; `!=` = `!(lhs == rhs)` (static_set: written
    out; flat_set: rewritten from `==` by the language); `<`; `<=` = `!(rhs < lhs)`; `>` = `rhs < lhs`; `>=` = `!(lhs < rhs)` -/
def relOps (kind : Kind) (e : Elem α) (a b : List α) : Except Err (List Bool) := do
  let eq ← setEq kind e a b
  let ne ← setEq kind e a b
  let lt ← setLt e a b
  let le ← setLt e b a
  let gt ← setLt e b a
  let ge ← setLt e a b
  .ok [eq, !ne, lt, !le, gt, !ge]

/-- `size()` = container `size()`; `empty()` = container `empty()` = `size() == 0`; `full()` (static_set only) =
    `static_vector::full()` = `size() == Capacity`; `max_size()` = container `max_size()` = `Capacity` -/
def setSizes (kind : Kind) (cap : Nat) (l : List α) : XOut α :=
  .sizes l.length (l.length == 0) (match kind with | .ss => some (l.length == cap) | _ => none) cap

/-- one step of an extended history: an operation of `Op` (through `step`), or one of the three additions -/
def xstep (kind : Kind) (lt : α → α → Bool) (h : Het α κ) (e : Elem α) (cap : Nat) (s : St α) :
    XOp α κ → Except Err (St α × XOut α)
  | .base op => do
    let (s', o) ← step kind lt h cap s op
    .ok (s', .base o)
  | .eraseIf p => do
    let (l, n) ← setEraseIf kind p s.cur
    .ok ({ s with cur := l }, .base (.num n))
  | .cmp => do .ok (s, .bools (← relOps kind e s.cur s.other))
  | .sizes => .ok (s, setSizes kind cap s.cur)

/-- a whole extended history: the outputs in order and the final state -/
def xrun (kind : Kind) (lt : α → α → Bool) (h : Het α κ) (e : Elem α) (cap : Nat) :
    St α → List (XOp α κ) → Except Err (St α × List (XOut α))
  | s, [] => .ok (s, [])
  | s, op :: ops => do
    let (s1, o) ← xstep kind lt h e cap s op
    let (s2, os) ← xrun kind lt h e cap s1 ops
    .ok (s2, o :: os)



/-! ### flat_set / flat_multiset over `etl::inplace_vector` (elements `Nat`: the C01 model of inplace_vector, Tetl/C01/Model.lean)

`etl::inplace_vector` has no `emplace(pos, x)`, `erase`, range constructor, assignment or `rbegin()`; the members of
`flat_set<Key, inplace_vector<Key, N>>` that need them do not compile.  What compiles: the `sorted_unique` container
constructor, every lookup, `clear()`, `extract()`, `size()/empty()/max_size()`, the relational operators (all of which only
use `begin()/end()/size()/max_size()` of the container and are the `.fs` definitions above), and `flat_multiset(container)`.
The element type of the harness is `int` (trivially copyable: `Tetl.C01.Kind.triv`). -/

/-- `flat_set(sorted_unique, container_type cont)` : `_container{etl::move(cont)}` — the by-value parameter is move-constructed
    from the caller's container, the member from the parameter: two `inplace_vector(inplace_vector&&)` -/
def fvCtor (cap : Nat) (c : List Nat) : Except Err (List Nat) := do
  let (param, _) ← Tetl.C01.ipvMoveCtor cap .triv c
  let (member, _) ← Tetl.C01.ipvMoveCtor cap .triv param
  .ok member

/-- `flat_set::clear()` = `_container.clear()` = `inplace_vector::clear()` -/
def fvClear (cap : Nat) (l : List Nat) : Except Err (List Nat) := Tetl.C01.ipvClear cap l

/-- `flat_set::extract() &&`: `auto container = etl::move(_container); clear(); return container;`
    returns (the set afterwards, the returned container) -/
def fvExtract (cap : Nat) (l : List Nat) : Except Err (List Nat × List Nat) := do
  let (c, l1) ← Tetl.C01.ipvMoveCtor cap .triv l
  let l2 ← Tetl.C01.ipvClear cap l1
  .ok (l2, c)

/-- `flat_multiset(KeyContainer cont)` over `inplace_vector`: the two container moves, then `etl::sort` (gnome sort, C06 model) -/
def fvMsetCtor (lt : Nat → Nat → Bool) (cap : Nat) (c : List Nat) : Except Err (List Nat) := do
  let l ← fvCtor cap c
  Tetl.C06.sort lt l 0 l.length

end Tetl.C09
