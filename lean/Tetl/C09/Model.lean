/-
C09 — model of `etl::static_set` (include/etl/_set/static_set.hpp), `etl::flat_set`
(include/etl/_flat_set/flat_set.hpp), the `flat_multiset` container constructor
(include/etl/_flat_set/flat_multiset.hpp) and of the algorithms they are built from
(`_algorithm/lower_bound.hpp`, `upper_bound.hpp`, `equal_range.hpp`, `rotate.hpp`, `find.hpp`,
`remove_if.hpp`, `move.hpp`, `gnome_sort.hpp`) and of the `static_vector` members they call
(`push_back`, `emplace(pos, x)` = append + rotate, `erase(first,last)` = move down + shrink).

A set is the list of the elements of its backing vector, in storage order.  Iterators are
offsets from `begin()`.  The comparator is a parameter `lt : α → α → Bool` (`comp(a,b)`).
Every element read goes through `rd`, every element write through `wr` (both checked), so an
access outside `[begin,end)` is `.error .oob`; a violated `TETL_PRECONDITION` of `static_vector`
is `.error (.pre _)`.  Each definition follows the statement structure of the C++ member of the
same name *as it is after the `fix:` commits of branch fix-c09* (see known_findings.d/C09.json).
-/
import Tetl.Common
namespace Tetl.C09

variable {α : Type}

/-- checked write of one element -/
def wr (l : List α) (i : Nat) (x : α) : Except Err (List α) :=
  if i < l.length then .ok (l.set i x) else .error .oob

/-! ### lower_bound / upper_bound / equal_range -/

/-- The `while (count > 0)` loop shared by `etl::lower_bound` (`p x = comp(x, value)`) and
    `etl::upper_bound` (`p x = not comp(value, x)`): `it = first + count/2`; if `p(*it)` then
    `first = ++it; count -= step + 1` else `count = step`. -/
def boundLoop (l : List α) (p : α → Bool) (first count : Nat) : Except Err Nat :=
  if _h : count > 0 then
    match rd l (first + count / 2) with
    | .error e => .error e
    | .ok x =>
      if p x then boundLoop l p (first + count / 2 + 1) (count - (count / 2 + 1))
      else boundLoop l p first (count / 2)
  else .ok first
termination_by count
decreasing_by all_goals omega

/-- `etl::lower_bound(begin(), end(), value, comp)` -/
def lowerBound (lt : α → α → Bool) (l : List α) (v : α) : Except Err Nat :=
  boundLoop l (fun x => lt x v) 0 l.length

/-- `etl::upper_bound(begin(), end(), value, comp)` -/
def upperBound (lt : α → α → Bool) (l : List α) (v : α) : Except Err Nat :=
  boundLoop l (fun x => !lt v x) 0 l.length

/-- `etl::equal_range` = `make_pair(lower_bound, upper_bound)` -/
def equalRange (lt : α → α → Bool) (l : List α) (v : α) : Except Err (Nat × Nat) := do
  let a ← lowerBound lt l v
  let b ← upperBound lt l v
  .ok (a, b)

/-! ### rotate (the forward swap cycle of `_algorithm/rotate.hpp`) -/

/-- `iter_swap(a, b)` on offsets -/
def swapAt (l : List α) (i j : Nat) : Except Err (List α) :=
  match l[i]?, l[j]? with
  | some x, some y => .ok ((l.set i y).set j x)
  | _, _ => .error .oob

/-- `while (read != last) { if (write == nextRead) nextRead = read; iter_swap(write++, read++); }`;
    returns the vector, `write` and `nextRead`. -/
def rotLoop (l : List α) (write read nextRead last : Nat) : Except Err (List α × Nat × Nat) :=
  if _h : read < last then
    match swapAt l write read with
    | .error e => .error e
    | .ok l' => rotLoop l' (write + 1) (read + 1) (if write = nextRead then read else nextRead) last
  else .ok (l, write, nextRead)
termination_by last - read
decreasing_by omega

/-- `etl::rotate(first, nFirst, last)`; the first argument bounds the recursion depth
    (`.error .fuel` when exhausted — proved never to happen for `fuel > last - first`).
    Returns the vector and the iterator `rotate` returns. -/
def rotate : Nat → List α → Nat → Nat → Nat → Except Err (List α × Nat)
  | 0, _, _, _, _ => .error .fuel
  | fuel + 1, l, first, nFirst, last =>
    if first = nFirst then .ok (l, last)
    else if nFirst = last then .ok (l, first)
    else
      match rotLoop l first nFirst first last with
      | .error e => .error e
      | .ok (l1, w, nr) =>
        match rotate fuel l1 w nr last with
        | .error e => .error e
        | .ok (l2, _) => .ok (l2, w)

/-! ### static_vector members used by the sets -/

/-- `static_vector::push_back` : `TETL_PRECONDITION(!full())`, then construct at `end()` -/
def svPushBack (cap : Nat) (l : List α) (x : α) : Except Err (List α) :=
  if l.length ≥ cap then .error (.pre "static_vector::push_back: !full()") else .ok (l ++ [x])

/-- `static_vector::emplace(position, x)` → `move_insert(position, &a, &a+1)`:
    `b = end(); emplace_back(a); rotate(begin()+pos, b, end()); return begin()+pos` -/
def svEmplace (cap : Nat) (l : List α) (pos : Nat) (x : α) : Except Err (List α × Nat) :=
  if l.length ≥ cap then .error (.pre "static_vector::emplace: !full()")
  else if pos > l.length then .error (.pre "static_vector::emplace: position in range")
  else
    match rotate (l.length + 2) (l ++ [x]) pos l.length (l.length + 1) with
    | .error e => .error e
    | .ok (l', _) => .ok (l', pos)

/-- `etl::move(first, last, dest)` on one vector: `n` iterations of `*dest++ = move(*first++)` -/
def moveLoop : Nat → List α → Nat → Nat → Except Err (List α)
  | 0, l, _, _ => .ok l
  | n + 1, l, src, dst =>
    match rd l src with
    | .error e => .error e
    | .ok x =>
      match wr l dst x with
      | .error e => .error e
      | .ok l' => moveLoop n l' (src + 1) (dst + 1)

/-- `static_vector::erase(first, last)`: `assert_iterator_pair_in_range`; if `first != last`
    move `[last, end)` down to `first`, destroy the tail, shrink the size.  Returns `first`. -/
def svErase (l : List α) (first last : Nat) : Except Err (List α × Nat) :=
  if first > l.length || last > l.length || first > last then
    .error (.pre "static_vector::erase: iterator pair in range")
  else if first = last then .ok (l, first)
  else
    match moveLoop (l.length - last) l last first with
    | .error e => .error e
    | .ok l' => .ok (l'.take (l.length - (last - first)), first)

/-! ### find / find_if / remove (used by static_set::find(key) and flat_set::erase(key)) -/

/-- `etl::find_if(first, last, pred)` from offset `i` with `n` elements left; returns the offset -/
def findIfLoop (l : List α) (p : α → Bool) : Nat → Nat → Except Err Nat
  | 0, i => .ok i
  | n + 1, i =>
    match rd l i with
    | .error e => .error e
    | .ok x => if p x then .ok i else findIfLoop l p n (i + 1)

/-- the compaction loop of `remove_if`: `for (auto i = first; ++i != last;) if (!pred(*i)) *first++ = move(*i);`
    `n` = iterations left, `i` = the read offset of this iteration; returns vector and `first`. -/
def removeLoop (p : α → Bool) : Nat → List α → Nat → Nat → Except Err (List α × Nat)
  | 0, l, first, _ => .ok (l, first)
  | n + 1, l, first, i =>
    match rd l i with
    | .error e => .error e
    | .ok x =>
      if !p x then
        match wr l first x with
        | .error e => .error e
        | .ok l' => removeLoop p n l' (first + 1) (i + 1)
      else removeLoop p n l first (i + 1)

/-- `etl::remove_if(begin(), end(), pred)` -/
def removeIf (l : List α) (p : α → Bool) : Except Err (List α × Nat) :=
  match findIfLoop l p l.length 0 with
  | .error e => .error e
  | .ok first =>
    if first ≠ l.length then removeLoop p (l.length - first - 1) l first (first + 1)
    else .ok (l, first)

/-! ### static_set -/

/-- the test `it != end() && !comp(key, *it)` that follows a `lower_bound` (no read when `it == end()`);
    `gt x = comp(key, x)` -/
def equivAt (gt : α → Bool) (l : List α) (p : Nat) : Except Err Bool :=
  if p = l.length then .ok false
  else
    match rd l p with
    | .error e => .error e
    | .ok x => .ok (!gt x)

/-- result of `insert`/`emplace`: the `(iterator, bool)` pair; `full` is the failure report
    `(nullptr,false)` of `static_set` / `(end(),false)` of `flat_set` for a new key in a full set -/
inductive InsRes where
  | inserted (pos : Nat)
  | exists_ (pos : Nat)
  | full
  deriving Repr, DecidableEq, Inhabited

/-- `static_set::insert(value_type&&)`:
    `p = lower_bound(begin, end, value, cmp)`; `if (p != end && !cmp(value,*p)) return {p,false}`;
    `if (full()) return {nullptr,false}`; `push_back(value)`; `rotate(p, end-1, end)`; `return {p,true}` -/
def ssInsert (lt : α → α → Bool) (cap : Nat) (l : List α) (v : α) : Except Err (List α × InsRes) := do
  let p ← lowerBound lt l v
  let dup ← equivAt (fun x => lt v x) l p
  if dup then .ok (l, .exists_ p)
  else if l.length = cap then .ok (l, .full)
  else
    let l1 ← svPushBack cap l v
    let (l2, _) ← rotate (l1.length + 1) l1 p (l1.length - 1) l1.length
    .ok (l2, .inserted p)

/-- `static_set::insert(first, last)`: `for (; first != last; ++first) insert(*first);` (results dropped) -/
def ssInsertRange (lt : α → α → Bool) (cap : Nat) : List α → List α → Except Err (List α)
  | l, [] => .ok l
  | l, v :: vs => do
    let (l', _) ← ssInsert lt cap l v
    ssInsertRange lt cap l' vs

/-- `static_set::erase(iterator pos)` = `_storage.erase(pos)` = `erase(pos, pos + 1)` -/
def ssEraseAt (l : List α) (pos : Nat) : Except Err (List α × Nat) :=
  if pos > l.length then .error (.pre "static_vector::erase: position in range")
  else svErase l pos (pos + 1)

/-- `static_set::erase(first, last)` = `_storage.erase(first, last)` -/
def ssEraseRange (l : List α) (first last : Nat) : Except Err (List α × Nat) := svErase l first last

/-- `static_set::erase(key)`: `pos = lower_bound(begin,end,key,cmp)`;
    `if (pos != end && !cmp(key,*pos)) { erase(pos); return 1; } return 0;` -/
def ssEraseKey (lt : α → α → Bool) (l : List α) (k : α) : Except Err (List α × Nat) := do
  let p ← lowerBound lt l k
  let hit ← equivAt (fun x => lt k x) l p
  if hit then
    let (l', _) ← ssEraseAt l p
    .ok (l', 1)
  else .ok (l, 0)

/-- `static_set::find(key_type const&)` = `etl::find(begin(), end(), key)` (linear, `operator==`) -/
def ssFind [DecidableEq α] (l : List α) (k : α) : Except Err Nat :=
  findIfLoop l (fun x => decide (x = k)) l.length 0

/-- the transparent `find(K const&)` of `static_set` and every `find` of `flat_set`:
    `it = lower_bound(key)`; `if (it == end() or comp(key,*it)) return end(); return it;`
    (`ltKE k x = comp(key, x)`, `ltEK x k = comp(x, key)` — two functions because the key may have
    another type than the elements) -/
def findLB (ltEK : α → Bool) (ltKE : α → Bool) (l : List α) : Except Err Nat := do
  let p ← boundLoop l ltEK 0 l.length
  let hit ← equivAt ltKE l p
  if hit then .ok p else .ok l.length

def ssContains [DecidableEq α] (l : List α) (k : α) : Except Err Bool := do
  .ok ((← ssFind l k) != l.length)

/-! ### flat_set (over a container with `emplace(pos,x)`, `erase`, `clear`) -/

/-- `flat_set::emplace`: `it = lower_bound(key)`;
    `if (it == end() or comp(key,*it)) { if (size() == max_size()) return {end(),false};
       it = container.emplace(it, key); return {it,true}; }  return {it,false};` -/
def fsEmplace (lt : α → α → Bool) (cap : Nat) (l : List α) (v : α) : Except Err (List α × InsRes) := do
  let p ← lowerBound lt l v
  let hit ← equivAt (fun x => lt v x) l p
  if !hit then
    if l.length = cap then .ok (l, .full)
    else
      let (l', it) ← svEmplace cap l p v
      .ok (l', .inserted it)
  else .ok (l, .exists_ p)

/-- `flat_set::insert(first, last)`: `while (first != last) { insert(*first); ++first; }` -/
def fsInsertRange (lt : α → α → Bool) (cap : Nat) : List α → List α → Except Err (List α)
  | l, [] => .ok l
  | l, v :: vs => do
    let (l', _) ← fsEmplace lt cap l v
    fsInsertRange lt cap l' vs

/-- `flat_set::erase(key)`: `it = remove(begin,end,key); r = distance(it,end); erase(it,end); return r;` -/
def fsEraseKey [DecidableEq α] (l : List α) (k : α) : Except Err (List α × Nat) := do
  let (l1, it) ← removeIf l (fun x => decide (x = k))
  let r := l1.length - it
  let (l2, _) ← svErase l1 it l1.length
  .ok (l2, r)

/-! ### flat_multiset(KeyContainer): gnome sort -/

/-- `etl::gnome_sort`: `while (i != last) { if (i == first or not comp(*i, *prev(i))) ++i;
    else { iter_swap(i, prev(i)); --i; } }`; the first argument bounds the number of iterations
    (at most `n*n + n` are needed). -/
def gnomeLoop (lt : α → α → Bool) : Nat → List α → Nat → Except Err (List α)
  | 0, _, _ => .error .fuel
  | fuel + 1, l, i =>
    if i = l.length then .ok l
    else if i = 0 then gnomeLoop lt fuel l (i + 1)
    else
      match rd l i, rd l (i - 1) with
      | .ok x, .ok y =>
        if !lt x y then gnomeLoop lt fuel l (i + 1)
        else
          match swapAt l i (i - 1) with
          | .error e => .error e
          | .ok l' => gnomeLoop lt fuel l' (i - 1)
      | .error e, _ => .error e
      | _, .error e => .error e

def gnomeSort (lt : α → α → Bool) (l : List α) : Except Err (List α) :=
  gnomeLoop lt (l.length * l.length + l.length + 1) l 0

/-! ### one object history step (static_set = `.ss`, flat_set over static_vector = `.fs`,
        flat_set over the harness' inplace-vector-like container = `.fi`) -/

inductive Kind where | ss | fs | fi
  deriving Repr, DecidableEq, Inhabited

/-- Operations of a history.  Two sets are alive (`cur`, `other`); every operation addresses
    `cur`, `swap` exchanges the two.  `het` selects the heterogeneous (`K const&`) overload of a lookup. -/
inductive Op (α : Type) where
  | insert (k : α)
  | insertRange (ks : List α)
  | eraseKey (k : α)
  | eraseAt (pos : Nat)
  | eraseRange (first last : Nat)
  | clear
  | swap
  | extract
  | replace (c : List α)
  | find (k : α) (het : Bool)
  | contains (k : α) (het : Bool)
  | count (k : α) (het : Bool)
  | lowerBound (k : α)
  | upperBound (k : α)
  | equalRange (k : α)
  deriving Repr

/-- observable result of one operation -/
inductive Out (α : Type) where
  | ins (r : InsRes)
  | unit
  | num (n : Nat)
  | flag (b : Bool)
  | pair (a b : Nat)
  | elems (l : List α)
  deriving Repr, DecidableEq

structure St (α : Type) where
  cur : List α
  other : List α
  deriving Repr, DecidableEq

/-- insertion into the harness' minimal inplace-vector-like container (not tetl code): the
    container contract `emplace(pos, x)` = shift right, throws/aborts when full -/
def miniEmplace (cap : Nat) (l : List α) (pos : Nat) (x : α) : Except Err (List α × Nat) :=
  if l.length ≥ cap then .error (.pre "mini_vec::emplace: !full()")
  else if pos > l.length then .error .oob
  else .ok (l.take pos ++ x :: l.drop pos, pos)

/-- `flat_set::emplace` over the inplace-vector-like container -/
def fiEmplace (lt : α → α → Bool) (cap : Nat) (l : List α) (v : α) : Except Err (List α × InsRes) := do
  let p ← lowerBound lt l v
  let hit ← equivAt (fun x => lt v x) l p
  if !hit then
    if l.length = cap then .ok (l, .full)
    else
      let (l', it) ← miniEmplace cap l p v
      .ok (l', .inserted it)
  else .ok (l, .exists_ p)

def fiInsertRange (lt : α → α → Bool) (cap : Nat) : List α → List α → Except Err (List α)
  | l, [] => .ok l
  | l, v :: vs => do
    let (l', _) ← fiEmplace lt cap l v
    fiInsertRange lt cap l' vs

/-- erase on the inplace-vector-like container (container contract) -/
def miniErase (l : List α) (first last : Nat) : Except Err (List α × Nat) :=
  if first > last || last > l.length then .error .oob else .ok (l.take first ++ l.drop last, first)

def step [DecidableEq α] (kind : Kind) (lt : α → α → Bool) (cap : Nat) (s : St α) :
    Op α → Except Err (St α × Out α)
  | .insert k => do
    let (l, r) ← (match kind with
      | .ss => ssInsert lt cap s.cur k
      | .fs => fsEmplace lt cap s.cur k
      | .fi => fiEmplace lt cap s.cur k)
    .ok ({ s with cur := l }, .ins r)
  | .insertRange ks => do
    let l ← (match kind with
      | .ss => ssInsertRange lt cap s.cur ks
      | .fs => fsInsertRange lt cap s.cur ks
      | .fi => fiInsertRange lt cap s.cur ks)
    .ok ({ s with cur := l }, .unit)
  | .eraseKey k => do
    let (l, n) ← (match kind with
      | .ss => ssEraseKey lt s.cur k
      | .fs => fsEraseKey s.cur k
      | .fi => do
        let (l1, it) ← removeIf s.cur (fun x => decide (x = k))
        let (l2, _) ← miniErase l1 it l1.length
        pure (l2, l1.length - it))
    .ok ({ s with cur := l }, .num n)
  | .eraseAt pos => do
    let (l, r) ← (match kind with
      | .fi => miniErase s.cur pos (pos + 1)
      | _ => ssEraseAt s.cur pos)
    .ok ({ s with cur := l }, .num r)
  | .eraseRange f la => do
    let (l, r) ← (match kind with
      | .fi => miniErase s.cur f la
      | _ => ssEraseRange s.cur f la)
    .ok ({ s with cur := l }, .num r)
  | .clear => .ok ({ s with cur := [] }, .unit)
  | .swap => .ok ({ cur := s.other, other := s.cur }, .unit)
  | .extract =>
    -- flat_set only: `auto c = move(_container); clear(); return c;`
    match kind with
    | .ss => .error (.pre "static_set has no extract")
    | _ => .ok ({ s with cur := [] }, .elems s.cur)
  | .replace c =>
    match kind with
    | .ss => .error (.pre "static_set has no replace")
    | _ => if c.length > cap then .error (.pre "replace: container fits") else .ok ({ s with cur := c }, .unit)
  | .find k het => do
    let r ← (match kind, het with
      | .ss, false => ssFind s.cur k
      | _, _ => findLB (fun x => lt x k) (fun x => lt k x) s.cur)
    .ok (s, .num r)
  | .contains k het => do
    let r ← (match kind, het with
      | .ss, false => ssFind s.cur k
      | _, _ => findLB (fun x => lt x k) (fun x => lt k x) s.cur)
    .ok (s, .flag (r != s.cur.length))
  | .count k het => do
    let r ← (match kind, het with
      | .ss, false => ssFind s.cur k
      | _, _ => findLB (fun x => lt x k) (fun x => lt k x) s.cur)
    .ok (s, .num (if r != s.cur.length then 1 else 0))
  | .lowerBound k => do .ok (s, .num (← lowerBound lt s.cur k))
  | .upperBound k => do .ok (s, .num (← upperBound lt s.cur k))
  | .equalRange k => do
    let (a, b) ← equalRange lt s.cur k
    .ok (s, .pair a b)

/-- a whole history: the outputs in order and the final state -/
def run [DecidableEq α] (kind : Kind) (lt : α → α → Bool) (cap : Nat) :
    St α → List (Op α) → Except Err (St α × List (Out α))
  | s, [] => .ok (s, [])
  | s, op :: ops => do
    let (s1, o) ← step kind lt cap s op
    let (s2, os) ← run kind lt cap s1 ops
    .ok (s2, o :: os)

end Tetl.C09
