/-
C09 — reference semantics: what `std::set<Key,Compare>` ([associative.reqmts], [set]) prescribes,
stated over the list of the elements in iteration order.  No loops, no index arithmetic: a
position is "the number of elements ordered before the key".

A set is a list that is strictly ascending w.r.t. `lt` (`Sorted`).  A fixed-capacity set adds one
rule: inserting a key that is not yet present into a set that already holds `cap` elements
reports failure (`full`) and changes nothing.
-/
import Tetl.C09.Model
import Tetl.C06.Spec
namespace Tetl.C09.Spec
open Tetl.C09

variable {α κ : Type}

/-- number of elements ordered before `k` = offset of `lower_bound(k)` -/
def lowerBound (lt : α → α → Bool) (l : List α) (k : α) : Nat := l.countP (fun x => lt x k)

/-- number of elements not ordered after `k` = offset of `upper_bound(k)` -/
def upperBound (lt : α → α → Bool) (l : List α) (k : α) : Nat := l.countP (fun x => !lt k x)

/-- `x` and `k` are equivalent: neither is ordered before the other -/
def equiv (lt : α → α → Bool) (k x : α) : Bool := !lt x k && !lt k x

def contains (lt : α → α → Bool) (l : List α) (k : α) : Bool := l.any (equiv lt k)

/-- `find`: the offset of the equivalent element, `end()` (= size) when there is none -/
def find (lt : α → α → Bool) (l : List α) (k : α) : Nat :=
  if contains lt l k then lowerBound lt l k else l.length

/-! #### the same lookups for a key of any type ([associative.reqmts]: `kl`, `ku`, `ke` of a transparent
      comparator): `below x = c(x, key)`, `above x = c(key, x)`.  The homogeneous functions above are the
      instances `below = (lt · k)`, `above = (lt k ·)` (definitionally). -/

def lowerBoundP (below : α → Bool) (l : List α) : Nat := l.countP below
def upperBoundP (above : α → Bool) (l : List α) : Nat := l.countP (fun x => !above x)
def equivP (below above : α → Bool) (x : α) : Bool := !below x && !above x
def containsP (below above : α → Bool) (l : List α) : Bool := l.any (equivP below above)
def findP (below above : α → Bool) (l : List α) : Nat :=
  if containsP below above l then lowerBoundP below l else l.length

/-- answer of each lookup member -/
def lookupP (below above : α → Bool) (l : List α) : Lk → Out α
  | .find => .num (findP below above l)
  | .contains => .flag (containsP below above l)
  | .count => .num (if containsP below above l then 1 else 0)
  | .lowerBound => .num (lowerBoundP below l)
  | .upperBound => .num (upperBoundP above l)
  | .equalRange => .pair (lowerBoundP below l) (upperBoundP above l)

/-- answers for a key of another type ([associative.reqmts] `a_tran.count(ke)`: *the number of* elements with key
    equivalent to `ke`, which may exceed 1 although the keys of the set are unique) -/
def hlookupP (below above : α → Bool) (l : List α) : Lk → Out α
  | .count => .num (l.countP (equivP below above))
  | w => lookupP below above l w

/-- `insert`/`emplace`: an equivalent element exists → `(its position, false)`, set unchanged;
    otherwise, room left → the key is placed after all elements ordered before it and before all
    elements ordered after it, `(its position, true)`; otherwise `full`, set unchanged. -/
def insert (lt : α → α → Bool) (cap : Nat) (l : List α) (k : α) : List α × InsRes :=
  if contains lt l k then (l, .exists_ (lowerBound lt l k))
  else if l.length ≥ cap then (l, .full)
  else (l.filter (fun x => lt x k) ++ k :: l.filter (fun x => lt k x), .inserted (lowerBound lt l k))

def insertRange (lt : α → α → Bool) (cap : Nat) : List α → List α → List α
  | l, [] => l
  | l, k :: ks => insertRange lt cap (insert lt cap l k).1 ks

/-- `erase(key)`: all equivalent elements go; returns how many went -/
def eraseKey (lt : α → α → Bool) (l : List α) (k : α) : List α × Nat :=
  (l.filter (fun x => !equiv lt k x), l.countP (equiv lt k))

/-- `erase(first,last)`: the elements of the range go; returns the position following them -/
def eraseRange (l : List α) (first last : Nat) : List α × Nat := (l.take first ++ l.drop last, first)

/-- `insert(hint, k)`: as `insert(k)`; returns the iterator to the element equivalent to `k` in the
    resulting set (`end()` when a new key met a full set) — the hint has no observable effect -/
def insertHint (lt : α → α → Bool) (cap : Nat) (l : List α) (_hint : Nat) (k : α) : List α × Nat :=
  let l' := (insert lt cap l k).1
  (l', find lt l' k)

/-- `erase_if(c, pred)` ([associative.erasure] / [flat.set.erasure]): the elements satisfying `pred` go; returns how many went -/
def eraseIf (p : α → Bool) (l : List α) : List α × Nat := (l.filter (fun x => !p x), l.countP p)

/-- the relational operators of `std::set` ([container.requirements], [container.opt.reqmts]): `==` is "same length and equal
    element by element" (element `operator==`), `<` is `std::lexicographical_compare` of the two iteration sequences with
    element `operator<` (NOT the comparator of the set); the other four are derived.  Order: `==`, `!=`, `<`, `<=`, `>`, `>=`. -/
def relOps (e : Elem α) (a b : List α) : List Bool :=
  let eq := Tetl.C06.Spec.equal e.eq a b
  let lt := Tetl.C06.Spec.lexLt e.lt a b
  let gt := Tetl.C06.Spec.lexLt e.lt b a
  [eq, !eq, lt, !gt, gt, !lt]

/-- `size()` = number of elements, `empty()` = "no elements", `full()` (fixed-capacity static_set only) = "holds `cap` elements",
    `max_size()` = the capacity -/
def sizes (isSet : Bool) (cap : Nat) (l : List α) : XOut α :=
  .sizes l.length l.isEmpty (if isSet then some (l.length == cap) else none) cap

/-- documented preconditions of the operations of a history (everything else is total) -/
def valid (cap : Nat) (lt : α → α → Bool) (s : St α) : Op α κ → Bool
  | .insertHint pos _ => pos ≤ s.cur.length                 -- a valid iterator of *this
  | .eraseAt pos => pos < s.cur.length                      -- a dereferenceable iterator
  | .eraseRange f la => f ≤ la && la ≤ s.cur.length         -- a valid range in *this
  | .replace c => c.length ≤ cap && c.Pairwise (fun a b => lt a b)   -- sorted, unique, fits
  | _ => true

def step (isSet : Bool) (lt : α → α → Bool) (h : Het α κ) (cap : Nat) (s : St α) : Op α κ → St α × Out α
  | .insert k => let r := insert lt cap s.cur k; ({ s with cur := r.1 }, .ins r.2)
  | .insertHint pos k => if isSet then (s, .unit) else
      let r := insertHint lt cap s.cur pos k; ({ s with cur := r.1 }, .num r.2)
  | .insertRange ks => ({ s with cur := insertRange lt cap s.cur ks }, .unit)
  | .eraseKey k => let r := eraseKey lt s.cur k; ({ s with cur := r.1 }, .num r.2)
  | .eraseAt pos => let r := eraseRange s.cur pos (pos + 1); ({ s with cur := r.1 }, .num r.2)
  | .eraseRange f la => let r := eraseRange s.cur f la; ({ s with cur := r.1 }, .num r.2)
  | .clear => ({ s with cur := [] }, .unit)
  | .swap => ({ cur := s.other, other := s.cur }, .unit)
  | .extract => if isSet then (s, .unit) else ({ s with cur := [] }, .elems s.cur)
  | .replace c => if isSet then (s, .unit) else ({ s with cur := c }, .unit)
  | .lookup w k => (s, lookupP (fun x => lt x k) (fun x => lt k x) s.cur w)
  | .hlookup w k => (s, hlookupP (fun x => h.ek x k) (fun x => h.ke k x) s.cur w)
  | .riter => (s, .elems s.cur.reverse)

def run (isSet : Bool) (lt : α → α → Bool) (h : Het α κ) (cap : Nat) : St α → List (Op α κ) → St α × List (Out α)
  | s, [] => (s, [])
  | s, op :: ops =>
    let r := step isSet lt h cap s op
    let r2 := run isSet lt h cap r.1 ops
    (r2.1, r.2 :: r2.2)

/-- every operation of the history satisfies its documented precondition in the state it meets -/
def validRun (isSet : Bool) (lt : α → α → Bool) (h : Het α κ) (cap : Nat) : St α → List (Op α κ) → Bool
  | _, [] => true
  | s, op :: ops =>
    valid cap lt s op && (match op with | .extract | .replace _ | .insertHint _ _ => !isSet | _ => true)
      && validRun isSet lt h cap (step isSet lt h cap s op).1 ops

/-! #### extended histories (`XOp`): the three additions have no precondition -/

def xvalid (cap : Nat) (lt : α → α → Bool) (s : St α) : XOp α κ → Bool
  | .base op => valid cap lt s op
  | _ => true

def xstep (isSet : Bool) (lt : α → α → Bool) (h : Het α κ) (e : Elem α) (cap : Nat) (s : St α) : XOp α κ → St α × XOut α
  | .base op => let r := step isSet lt h cap s op; (r.1, .base r.2)
  | .eraseIf p => let r := eraseIf p s.cur; ({ s with cur := r.1 }, .base (.num r.2))
  | .cmp => (s, .bools (relOps e s.cur s.other))
  | .sizes => (s, sizes isSet cap s.cur)

def xrun (isSet : Bool) (lt : α → α → Bool) (h : Het α κ) (e : Elem α) (cap : Nat) : St α → List (XOp α κ) → St α × List (XOut α)
  | s, [] => (s, [])
  | s, op :: ops =>
    let r := xstep isSet lt h e cap s op
    let r2 := xrun isSet lt h e cap r.1 ops
    (r2.1, r.2 :: r2.2)

/-- sorted w.r.t. the comparator and unique, as a decidable predicate: strictly ascending -/
def sortedUnique (lt : α → α → Bool) (c : List α) : Bool := decide (c.Pairwise (fun a b => lt a b = true))

/-- documented precondition of a constructor: the range / container fits (static_set range constructor,
    every `static_vector` built from a range); `sorted_unique` input is sorted and unique -/
def validCtor (lt : α → α → Bool) (cap : Nat) (ctor : Ctor) (init : List α) : Bool :=
  match ctor with
  | .range => init.length ≤ cap
  | .cont => init.length ≤ cap
  | .su | .sur => init.length ≤ cap && sortedUnique lt init

/-- what each constructor leaves: the range / container constructors insert element by element, the
    `sorted_unique` constructors adopt the sequence as it is -/
def construct (lt : α → α → Bool) (cap : Nat) (ctor : Ctor) (init : List α) : List α :=
  match ctor with
  | .range | .cont => insertRange lt cap [] init
  | .su | .sur => init

/-- `flat_multiset(container)`: the same elements in weakly ascending order (stable) -/
def multiset (lt : α → α → Bool) (c : List α) : List α := c.mergeSort (fun a b => !lt b a)

end Tetl.C09.Spec
