/- C16 line-protocol driver: prints `model <TAB> spec` for each case line (see harness/c16.cpp for the ops). -/
import Tetl.Proto
import Tetl.C16.Model
import Tetl.C16.Spec
namespace Tetl.C16.Driver
open Tetl Tetl.Proto Tetl.C16

def fmtOf (t : Int) : Option Fmt := if t == 32 then some b32 else if t == 64 then some b64 else none

/-- bit patterns arrive as (possibly negative two's-complement) integers -/
def toBits (F : Fmt) (i : Int) : Nat := (i % (2 ^ F.width : Nat)).toNat

def fb (F : Fmt) (b : Nat) : String := if F.isNaN b then "nan" else toString b
/-- results of the sign-bit operations (fabs, abs, copysign): the sign bit of a NaN result is printed too
    (`nan+` / `nan-`); the payload of a NaN is never observed -/
def fbs (F : Fmt) (b : Nat) : String := if F.isNaN b then (if F.sign b then "nan-" else "nan+") else toString b
def fbool (b : Bool) : String := if b then "1" else "0"
def fopt : Option Int → String
  | some i => toString i
  | none => "*"
def fE {α : Type} (f : α → String) : Except Err α → String
  | .ok a => f a
  | .error _ => "notconst"

def unaryFns : List String :=
  ["floor", "ceil", "trunc", "round", "rint", "lrint", "llrint", "fabs", "abs", "signbit", "isnan", "isinf", "isfinite"]

/-- (model, spec) of a unary exact function; `none` = unknown function -/
def unary (F : Fmt) (p : Model.Path) (f : String) (x : Nat) : Option (String × String) :=
  match f with
  | "floor" => some (fE (fb F) (Model.floor F p x), fb F (F.floor x))
  | "ceil" => some (fE (fb F) (Model.ceil F p x), fb F (F.ceil x))
  | "trunc" => some (fE (fb F) (Model.trunc F p x), fb F (F.trunc x))
  | "round" => some (fE (fb F) (Model.round F p x), fb F (F.round x))
  | "rint" => some (fE (fb F) (Model.rint F p x), fb F (F.rint x))
  | "lrint" => some (fE fopt (Model.lrint F 64 p x), fopt (F.lrint 64 x))
  | "llrint" => some (fE fopt (Model.lrint F 64 p x), fopt (F.lrint 64 x))
  | "fabs" => some (fbs F (Model.absImpl F x), fbs F (F.fabs x))
  | "abs" => some (fbs F (Model.absImpl F x), fbs F (F.fabs x))
  | "signbit" => some (fbool (Model.signbit F p x), fbool (F.signbit x))
  | "isnan" => some (fbool (F.isNaN x), fbool (F.isNaN x))
  | "isinf" => some (fbool (F.isInf x), fbool (F.isInf x))
  | "isfinite" => some (fbool (Model.isfinite F x), fbool (F.isFinite x))
  | _ => none

/-- (model, spec) of a binary exact function -/
def binary (F : Fmt) (p : Model.Path) (f : String) (x y : Nat) : Option (String × String) :=
  match f with
  | "copysign" => some (fbs F (Model.copysign F p x y), fbs F (F.copysign x y))
  | "fmin" => some (fb F (Model.fmin F x y), if F.zerosDiffer x y || F.isSNaN x || F.isSNaN y then "*" else fb F (F.fmin x y))
  | "fmax" => some (fb F (Model.fmax F x y), if F.zerosDiffer x y || F.isSNaN x || F.isSNaN y then "*" else fb F (F.fmax x y))
  | "fdim" => some (fb F (Model.fdim F x y), fb F (F.fdim x y))
  -- run time: the libm builtin; constant evaluation: the NaN / infinite-divisor ladder, then the builtin (Model.fmodCt)
  | "fmod" => some (fb F (Model.fmod F p x y), fb F (F.fmod x y))
  | "remainder" =>
    -- glibc 2.36 returns a zero of the wrong sign for some subnormal divisors (IEC 60559: the sign of x); the sign
    -- of a zero remainder of a non-zero x is therefore not compared
    let pr (r : Nat) : String := if F.isZero r && !F.isZero x then "*" else fb F r
    some (pr (Model.remainder F p x y), pr (F.remainder x y))
  | "nextafter" => some (fb F (Model.nextafter F x y), fb F (F.nextafter x y))
  | _ => none

def joinWith (sep : String) (l : List String) : String := sep.intercalate l

def step (_ : Unit) (l : Line) : Unit × String :=
  let bad := ((), "bad-op\tbad-op")
  let out (m s : String) := ((), m ++ "\t" ++ s)
  match fmtOf ((l.int? "t").getD 32) with
  | none => bad
  | some F =>
    let bits (k : String) : Option Nat := (l.int? k).map (toBits F)
    match l.op with
    | "u" | "cu" =>
      match l.str? "f", bits "x" with
      | some f, some x =>
        match unary F (if l.op == "u" then .rt else .ct) f x with
        | some (m, s) => out m s
        | none => bad
      | _, _ => bad
    | "uv" =>
      match l.list? "xs" with
      | some xs =>
        let xs := xs.map (toBits F)
        let cols := unaryFns.map fun f => (xs.map fun x => (unary F .rt f x).getD ("?", "?"))
        out (joinWith ";" (cols.map fun c => joinWith "," (c.map (·.1))))
            (joinWith ";" (cols.map fun c => joinWith "," (c.map (·.2))))
      | none => bad
    | "b" | "cb" =>
      match l.str? "f", bits "x", bits "y" with
      | some f, some x, some y =>
        match binary F (if l.op == "b" then .rt else .ct) f x y with
        | some (m, s) => out m s
        | none => bad
      | _, _, _ => bad
    | "bv" =>
      match l.str? "f", l.list? "xs", l.list? "ys" with
      | some f, some xs, some ys =>
        if xs.length != ys.length then bad else
        let rs := (xs.zip ys).map fun (x, y) => (binary F .rt f (toBits F x) (toBits F y)).getD ("?", "?")
        out (joinWith "," (rs.map (·.1))) (joinWith "," (rs.map (·.2)))
      | _, _, _ => bad
    -- no Lean model (DESIGN §6): the harness itself judges these against libm / libstdc++
    | "s" | "cs" | "a" | "ca" | "al" | "c" => out "ok" "ok"
    | _ => bad

end Tetl.C16.Driver

def main : IO Unit := Tetl.Proto.runDriver () Tetl.C16.Driver.step
