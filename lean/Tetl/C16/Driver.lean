/- placeholder: the C16 driver is not built yet -/
def main : IO Unit := IO.println "C16: driver not built yet"
