/-
C16 — model of tetl's cmath code (include/etl/_cmath/*.hpp, _math/abs.hpp) on bit patterns, clause by clause.

Every function has two paths (DESIGN §1.2 `Gen/Dispatch`): at run time most of them call a compiler builtin
(`__builtin_floorf`, …), during constant evaluation a fallback (tetl's own, or gcem's).  A builtin is *assumed*
to return what C specifies (DESIGN §3) — it is modelled by the Spec function and observed by the
correspondence run; everything tetl or gcem computes itself is modelled here as the code computes it.
Conversions to an integer type that C leaves undefined (and that are not constant expressions) are
`Except.error`.
-/
import Tetl.Common
import Tetl.C16.Spec
namespace Tetl.C16.Model
open Tetl Tetl.C16

inductive Path where
  | rt   -- run time
  | ct   -- constant evaluation (`is_constant_evaluated()`)
  deriving Repr, DecidableEq

variable (F : Fmt)

/-! ### C operators on patterns -/
def lt (x y : Nat) : Bool := F.lt x y
def eq (x y : Nat) : Bool := !F.isNaN x && !F.isNaN y && decide (F.key x = F.key y)
def neg (x : Nat) : Nat := F.withSign (!F.sign x) (F.abs x)
/-- NaN results are canonicalised (payload and sign of a NaN result are not observed) -/
def canon (x : Nat) : Nat := if F.isNaN x then F.qnan else x

/-- `static_cast<long long>(x)` -/
def toLL (x : Nat) : Except Err Int :=
  if !F.isFinite x then .error (.pre "cast of inf/NaN to long long")
  else
    let n := F.intMag .trunc (F.abs x)
    if n < 2 ^ 63 then .ok (if F.sign x then -(n : Int) else (n : Int))
    else .error (.pre "cast to long long out of range")

/-- `T(n)` for an integer: correctly rounded, `+0` for 0 -/
def ofInt (n : Int) : Nat := F.rne (decide (n < 0)) (n.natAbs * 2 ^ F.K) 1

/-! ### gcem: floor / ceil / trunc / round (gcem_incl/{floor,ceil,trunc,round,find_whole}.hpp) -/
/-- `numeric_limits<T>::epsilon()` = 2^-mbits -/
def epsilon : Nat := (F.bias - F.mbits) * 2 ^ F.mbits

/-- the common prefix of the four `*_check` functions -/
def gcemCheck (x : Nat) (k : Nat → Except Err Nat) : Except Err Nat :=
  if F.isNaN x then .ok F.qnan
  else if !F.isFinite x then .ok x
  else if F.abs x < epsilon F then .ok x            -- "signed-zero cases": epsilon > abs(x) ? x
  else k x

def gcemFloor (x : Nat) : Except Err Nat := gcemCheck F x fun x => do
  let w ← toLL F x
  -- floor_resid: (x < 0) && (x < xWhole)
  let resid : Int := if F.sign x && decide (F.smag x < w * 2 ^ F.K) then 1 else 0
  pure (ofInt F (w - resid))

def gcemCeil (x : Nat) : Except Err Nat := gcemCheck F x fun x => do
  let w ← toLL F x
  let resid : Int := if !F.sign x && decide (w * 2 ^ F.K < F.smag x) then 1 else 0
  pure (ofInt F (w + resid))

def gcemTrunc (x : Nat) : Except Err Nat := gcemCheck F x fun x => do
  let w ← toLL F x
  pure (ofInt F w)

/-- `sgn(x) * T(find_whole(abs(x)))`; find_whole: `abs(a - floor a) >= 0.5 ? floor a + 1 : floor a` -/
def gcemRound (x : Nat) : Except Err Nat := gcemCheck F x fun x => do
  let a := F.abs x
  let w ← toLL F a
  let frac : Int := F.smag a - w * 2 ^ F.K
  let n : Int := if 2 ^ F.K ≤ 2 * frac then w + 1 else w
  if n < 2 ^ 63 then pure (F.withSign (F.sign x) (ofInt F n)) else .error (.pre "cast to long long out of range")

/-! ### tetl's own fallbacks -/
/-- rint.hpp `rint_fallback` -/
def rintFallback (x : Nat) : Except Err Nat :=
  -- limit = 2^(digits-1); `not (arg > -limit and arg < limit)` also catches NaN and infinities
  let limit := (F.bias + F.mbits) * 2 ^ F.mbits
  if F.isNaN x then .ok F.qnan
  else if limit ≤ F.abs x then .ok x
  else do
    let w ← toLL F x
    let frac : Int := (F.mag (F.abs x) : Int) - w.natAbs * 2 ^ F.K
    let odd := w % 2 ≠ 0
    let r : Int := if 2 ^ F.K < 2 * frac ∨ (2 * frac = 2 ^ F.K ∧ odd) then (if F.sign x then w - 1 else w + 1) else w
    if r = 0 then pure (F.withSign (F.sign x) 0) else pure (ofInt F r)

/-- lrint.hpp `lrint_fallback<T>(arg)` = `static_cast<T>(rint_fallback(arg))`, T of `w` bits -/
def lrintFallback (w : Nat) (x : Nat) : Except Err Int := do
  let r ← rintFallback F x
  if !F.isFinite r then .error (.pre "cast of inf/NaN to integer") else
  let n : Int := F.smag r / 2 ^ F.K
  if -(2 ^ (w - 1) : Int) ≤ n ∧ n < (2 ^ (w - 1) : Int) then pure n else .error (.pre "cast out of range")

/-- signbit.hpp `signbit_fallback`: shifts the sign bit down -/
def signbitFallback (x : Nat) : Bool := (x / F.signBit) % 2 == 1

/-- copysign.hpp `copysign_fallback` -/
def copysignFallback (x y : Nat) : Nat :=
  if signbitFallback F x != signbitFallback F y then neg F x else x

/-- _math/abs.hpp `abs_impl`: `n >= 0 ? n : n * -1` -/
def absImpl (x : Nat) : Nat :=
  if !F.isNaN x && decide (0 ≤ F.key x) then x else neg F x

/-- nextafter.hpp `detail::nextafter` -/
def nextafter (x y : Nat) : Nat :=
  if F.isNaN x || F.isNaN y then F.qnan                                   -- from + to
  else if eq F x y then y
  else if eq F x 0 then (if F.sign y then F.signBit else 0) + 1           -- (toBits & signMask) | 1
  else if lt F x y == lt F 0 x then x + 1 else x - 1

def fmin (x y : Nat) : Nat :=
  if F.isNaN x then canon F y else if F.isNaN y then x else if lt F y x then y else x
def fmax (x y : Nat) : Nat :=
  if F.isNaN x then canon F y else if F.isNaN y then x else if lt F x y then y else x

/-- IEEE subtraction of two non-NaN values with `x > y` -/
def fsubPos (x y : Nat) : Nat :=
  if F.isInf x then x else if F.isInf y then F.inf else F.rne false (F.smag x - F.smag y).toNat 1
def fdim (x y : Nat) : Nat :=
  if F.isNaN x || F.isNaN y then F.qnan else if lt F y x then fsubPos F x y else 0

def isfinite (x : Nat) : Bool := !F.isNaN x && !F.isInf x

/-! ### dispatch: which algorithm each path runs -/
def floor : Path → Nat → Except Err Nat
  | .rt, x => .ok (F.floor x)        -- __builtin_floorf / __builtin_floor
  | .ct, x => gcemFloor F x
def ceil : Path → Nat → Except Err Nat
  | .rt, x => .ok (F.ceil x)         -- __builtin_ceilf / __builtin_ceil
  | .ct, x => gcemCeil F x
def trunc : Path → Nat → Except Err Nat
  | .rt, x => .ok (F.trunc x)
  | .ct, x => gcemTrunc F x
def round : Path → Nat → Except Err Nat
  | .rt, x => .ok (F.round x)
  | .ct, x => gcemRound F x
def rint : Path → Nat → Except Err Nat
  | .rt, x => .ok (F.rint x)
  | .ct, x => rintFallback F x
def lrint (w : Nat) : Path → Nat → Except Err (Option Int)
  | .rt, x => .ok (F.lrint w x)
  | .ct, x => (lrintFallback F w x).map some
def signbit : Path → Nat → Bool
  | .rt, x => F.signbit x            -- __builtin_signbit
  | .ct, x => signbitFallback F x
def copysign : Path → Nat → Nat → Nat
  | .rt, x, y => F.copysign x y      -- __builtin_copysign
  | .ct, x, y => copysignFallback F x y

end Tetl.C16.Model
