/-
C16 — model of tetl's cmath code (include/etl/_cmath/*.hpp, _math/abs.hpp) on bit patterns, clause by clause.

Every function has two paths (DESIGN §1.2 `Gen/Dispatch`): at run time most of them call a compiler builtin
(`__builtin_floorf`, …), during constant evaluation a fallback (tetl's own, or gcem's).  A builtin is *assumed*
to return what C specifies (DESIGN §3) — it is modelled by the Spec function and observed by the
correspondence run; everything tetl or gcem computes itself is modelled here as the code computes it.
Conversions to an integer type that C leaves undefined (and that are not constant expressions) are
`Except.error`.
-/
import Tetl.Common
import Tetl.C16.Spec
import Tetl.C13.Model
namespace Tetl.C16.Model
open Tetl Tetl.C16

inductive Path where
  | rt   -- run time
  | ct   -- constant evaluation (`is_constant_evaluated()`)
  deriving Repr, DecidableEq

variable (F : Fmt)

/-! ### C operators on patterns -/
def lt (x y : Nat) : Bool := F.lt x y
def eq (x y : Nat) : Bool := !F.isNaN x && !F.isNaN y && decide (F.key x = F.key y)
def neg (x : Nat) : Nat := F.withSign (!F.sign x) (F.abs x)
/-- NaN results are canonicalised (the payload of a NaN result is never observed; its sign bit is observed for
    fabs / abs / copysign only, which do not go through `canon`) -/
def canon (x : Nat) : Nat := if F.isNaN x then F.qnan else x

/-! ### constant-evaluated rounding: gcem floor / ceil / trunc / round, `rint_fallback`, `lrint_fallback`

The code on these paths (gcem_incl/{floor,ceil,trunc,round,find_whole,abs,sgn}.hpp, _cmath/rint.hpp, _cmath/lrint.hpp)
has ONE model in this framework: `Tetl.C13.Model` (property C13 repaired that code and models it operation by
operation — every comparison, conversion, addition and multiplication with its IEEE rounding).  C16 imports that
model instead of keeping a second one; `Fmt.cv` is the same format `(ebits, mbits)` in C13's structure. -/
/-- the same format as a `Tetl.C13.Fmt` -/
def _root_.Tetl.C16.Fmt.cv (F : Fmt) : Tetl.C13.Fmt := ⟨F.ebits, F.mbits⟩

def gcemFloor (x : Nat) : Except Err Nat := Tetl.C13.Model.gcemFloor F.cv x
def gcemCeil (x : Nat) : Except Err Nat := Tetl.C13.Model.gcemCeil F.cv x
def gcemTrunc (x : Nat) : Except Err Nat := Tetl.C13.Model.gcemTrunc F.cv x
def gcemRound (x : Nat) : Except Err Nat := Tetl.C13.Model.gcemRound F.cv x
/-- rint.hpp `rint_fallback` -/
def rintFallback (x : Nat) : Except Err Nat := Tetl.C13.Model.rintFallback F.cv x
/-- lrint.hpp `lrint_fallback<T>(arg)` = `static_cast<T>(rint_fallback(arg))`, T of `w` bits -/
def lrintFallback (w : Nat) (x : Nat) : Except Err Int := Tetl.C13.Model.lrintFallback F.cv w x

/-! ### tetl's own fallbacks -/
/-- signbit.hpp `signbit_fallback`: shifts the sign bit down (the alternative of `etl::signbit` for compilers
    without a constexpr `__builtin_signbit`; GCC takes the builtin on both paths) -/
def signbitFallback (x : Nat) : Bool := (x / F.signBit) % 2 == 1

/-- copysign.hpp `copysign_fallback`: `etl::signbit(x) != etl::signbit(y) ? -x : x` -/
def copysignFallback (x y : Nat) : Nat :=
  if signbitFallback F x != signbitFallback F y then neg F x else x

/-- _math/abs.hpp `abs_impl` for a floating-point `T` (d9d7c3a): `etl::signbit(n) ? -n : n` on both paths — the sign
    bit is read (`__builtin_signbit`, usable in constant expressions) and, when set, flipped by the unary minus.
    No comparison is involved, so -0.0 and NaNs of either sign lose their sign bit as well. -/
def absImpl (x : Nat) : Nat := if F.signbit x then neg F x else x

/-- nextafter.hpp `detail::nextafter` -/
def nextafter (x y : Nat) : Nat :=
  if F.isNaN x || F.isNaN y then F.qnan                                   -- from + to
  else if eq F x y then y
  else if eq F x 0 then (if F.sign y then F.signBit else 0) + 1           -- (toBits & signMask) | 1
  else if lt F x y == lt F 0 x then x + 1 else x - 1

def fmin (x y : Nat) : Nat :=
  if F.isNaN x then canon F y else if F.isNaN y then x else if lt F y x then y else x
def fmax (x y : Nat) : Nat :=
  if F.isNaN x then canon F y else if F.isNaN y then x else if lt F x y then y else x

/-- IEEE subtraction of two non-NaN values with `x > y` -/
def fsubPos (x y : Nat) : Nat :=
  if F.isInf x then x else if F.isInf y then F.inf else F.rne false (F.smag x - F.smag y).toNat 1
def fdim (x y : Nat) : Nat :=
  if F.isNaN x || F.isNaN y then F.qnan else if lt F y x then fsubPos F x y else 0

def isfinite (x : Nat) : Bool := !F.isNaN x && !F.isInf x

/-! ### fmod / remainder in constant evaluation (67c4687, f0dd916)

`detail::fmod` / `detail::remainder`, branch `is_constant_evaluated()`: the ladder
`x != x or y != y or x == inf or x == -inf or y == T(0)  ->  quiet NaN`, `y == inf or y == -inf  ->  x`
(the arguments for which GCC does not fold the builtin), then `__builtin_fmod` / `__builtin_remainder`, which GCC
folds exactly for a finite `x` and a finite non-zero `y`.  The comparisons are the C operators on patterns (`eq`);
the builtin is assumed to return what C specifies (DESIGN §3), i.e. the Spec function. -/
/-- the pattern of `-inf` -/
def negInf : Nat := F.signBit + F.inf
/-- the guard of the first rung: `x != x or y != y or x == inf or x == -inf or y == T(0)` -/
def divInvalid (x y : Nat) : Bool :=
  F.isNaN x || F.isNaN y || eq F x F.inf || eq F x (negInf F) || eq F y 0
/-- the guard of the second rung: `y == inf or y == -inf` -/
def divisorInf (y : Nat) : Bool := eq F y F.inf || eq F y (negInf F)
def fmodCt (x y : Nat) : Nat :=
  if divInvalid F x y then F.qnan else if divisorInf F y then x else F.fmod x y          -- __builtin_fmod
def remainderCt (x y : Nat) : Nat :=
  if divInvalid F x y then F.qnan else if divisorInf F y then x else F.remainder x y     -- __builtin_remainder

/-! ### dispatch: which algorithm each path runs -/
def floor : Path → Nat → Except Err Nat
  | .rt, x => .ok (F.floor x)        -- __builtin_floorf / __builtin_floor
  | .ct, x => gcemFloor F x
def ceil : Path → Nat → Except Err Nat
  | .rt, x => .ok (F.ceil x)         -- __builtin_ceilf / __builtin_ceil
  | .ct, x => gcemCeil F x
def trunc : Path → Nat → Except Err Nat
  | .rt, x => .ok (F.trunc x)
  | .ct, x => gcemTrunc F x
def round : Path → Nat → Except Err Nat
  | .rt, x => .ok (F.round x)
  | .ct, x => gcemRound F x
def rint : Path → Nat → Except Err Nat
  | .rt, x => .ok (F.rint x)
  | .ct, x => rintFallback F x
def lrint (w : Nat) : Path → Nat → Except Err (Option Int)
  | .rt, x => .ok (F.lrint w x)
  | .ct, x => (lrintFallback F w x).map some
def signbit : Path → Nat → Bool
  | .rt, x => F.signbit x            -- __builtin_signbit
  | .ct, x => F.signbit x            -- __builtin_signbit is usable in constant expressions (324662e)
def copysign : Path → Nat → Nat → Nat
  | .rt, x, y => F.copysign x y      -- __builtin_copysign
  | .ct, x, y => copysignFallback F x y
def fmod : Path → Nat → Nat → Nat
  | .rt, x, y => F.fmod x y          -- __builtin_fmodf / __builtin_fmod
  | .ct, x, y => fmodCt F x y
def remainder : Path → Nat → Nat → Nat
  | .rt, x, y => F.remainder x y     -- __builtin_remainderf / __builtin_remainder
  | .ct, x, y => remainderCt F x y

end Tetl.C16.Model
