/-
C16 — what the C standard (C17 §7.12, Annex F) prescribes for the *exact* <cmath> functions, written as
pure integer arithmetic over IEEE-754 bit patterns.  The format is a parameter `(ebits, mbits)`;
binary32 = ⟨8,23⟩, binary64 = ⟨11,52⟩.  Core Lean only (linked into `drv-c16`).

A pattern is a `Nat` below `2^(1+ebits+mbits)`.  The *value* of a finite pattern is
`(-1)^sign * mag / 2^K` with `mag = sig * 2^(E-1)` (a natural number) and `K = bias + mbits - 1`:
every finite value of the format is an integer multiple of `2^-K`, so all comparisons and the
integer-rounding functions are statements about natural numbers — no reals, no rationals.
-/
namespace Tetl.C16

structure Fmt where
  ebits : Nat
  mbits : Nat
  deriving Repr, DecidableEq

def b32 : Fmt := ⟨8, 23⟩
def b64 : Fmt := ⟨11, 52⟩

namespace Fmt
variable (F : Fmt)

def width : Nat := 1 + F.ebits + F.mbits
def bias : Nat := 2 ^ (F.ebits - 1) - 1
/-- the all-ones exponent field (infinities and NaNs) -/
def emax : Nat := 2 ^ F.ebits - 1
def signBit : Nat := 2 ^ (F.ebits + F.mbits)
/-- scale: every finite value is `± mag / 2^K` -/
def K : Nat := F.bias + F.mbits - 1

/-! ### fields -/
def man (b : Nat) : Nat := b % 2 ^ F.mbits
def exp (b : Nat) : Nat := (b / 2 ^ F.mbits) % 2 ^ F.ebits
def sign (b : Nat) : Bool := (b / F.signBit) % 2 == 1
/-- the pattern without its sign bit -/
def abs (b : Nat) : Nat := b % F.signBit
def withSign (s : Bool) (a : Nat) : Nat := (if s then F.signBit else 0) + a

def inf : Nat := F.emax * 2 ^ F.mbits
def qnan : Nat := F.inf + 2 ^ (F.mbits - 1)
/-- the pattern of 1.0 -/
def one : Nat := F.bias * 2 ^ F.mbits

/-! ### classification -/
def isNaN (b : Nat) : Bool := decide (F.inf < F.abs b)
def isInf (b : Nat) : Bool := F.abs b == F.inf
def isFinite (b : Nat) : Bool := decide (F.abs b < F.inf)
def isZero (b : Nat) : Bool := F.abs b == 0

/-! ### value of a finite pattern -/
/-- significand as an integer -/
def sig (a : Nat) : Nat := if F.exp a = 0 then F.man a else 2 ^ F.mbits + F.man a
/-- `|value| * 2^K` -/
def mag (a : Nat) : Nat := F.sig a * 2 ^ (max (F.exp a) 1 - 1)
/-- order key: `key x < key y ↔ value x < value y` for non-NaN patterns (both zeros have key 0) -/
def key (b : Nat) : Int := if F.sign b then -(F.abs b : Int) else (F.abs b : Int)
/-- signed `value * 2^K` -/
def smag (b : Nat) : Int := if F.sign b then -(F.mag (F.abs b) : Int) else (F.mag (F.abs b) : Int)

/-! ### rounding to an integral value (floor, ceil, trunc, round, rint) -/
inductive Mode where
  | trunc      -- toward zero
  | away       -- away from zero
  | halfAway   -- to nearest, ties away from zero   (round)
  | halfEven   -- to nearest, ties to even          (rint, nearbyint in the default rounding mode)
  deriving Repr, DecidableEq

/-- Bit-level rounding of a finite magnitude pattern `a` to an integral value (the classic mask algorithm):
    `j` = number of fraction bits of the binade; the pattern itself is divided by `2^j`, a carry out of the
    mantissa runs into the exponent field, which is exactly the next binade. -/
def rnd (m : Mode) (a : Nat) : Nat :=
  let e := F.exp a
  if F.bias + F.mbits ≤ e then a                      -- no fraction bits
  else if e < F.bias then                               -- |x| < 1 : the result is 0 or 1
    let up := match m with
      | .trunc => false
      | .away => decide (a ≠ 0)
      | .halfAway => decide (e = F.bias - 1)
      | .halfEven => decide (e = F.bias - 1) && decide (F.man a ≠ 0)
    if up then F.one else 0
  else
    let j := F.bias + F.mbits - e
    let q := a / 2 ^ j
    let r := a % 2 ^ j
    let up := match m with
      | .trunc => false
      | .away => decide (r ≠ 0)
      | .halfAway => decide (2 ^ (j - 1) ≤ r)
      | .halfEven => decide (2 ^ (j - 1) < r) || (decide (r = 2 ^ (j - 1)) && decide ((F.sig a / 2 ^ j) % 2 = 1))
    (q + (if up then 1 else 0)) * 2 ^ j

/-- The same roundings stated on the value: the integer `n` with `mag = n * 2^K + fraction`. -/
def intMag (m : Mode) (a : Nat) : Nat :=
  let M := F.mag a
  let q := M / 2 ^ F.K
  let r := M % 2 ^ F.K
  match m with
  | .trunc => q
  | .away => if r = 0 then q else q + 1
  | .halfAway => if 2 ^ F.K ≤ 2 * r then q + 1 else q
  | .halfEven => if 2 ^ F.K < 2 * r ∨ (2 * r = 2 ^ F.K ∧ q % 2 = 1) then q + 1 else q

def roundWith (pos neg : Mode) (b : Nat) : Nat :=
  if F.isNaN b then F.qnan
  else if F.isInf b then b
  else F.withSign (F.sign b) (F.rnd (if F.sign b then neg else pos) (F.abs b))

def floor := F.roundWith .trunc .away
def ceil := F.roundWith .away .trunc
def trunc := F.roundWith .trunc .trunc
def round := F.roundWith .halfAway .halfAway
def rint := F.roundWith .halfEven .halfEven

/-- lrint / llrint into a signed integer of `w` bits: `none` = unspecified result (NaN, infinity, out of range) -/
def lrint (w : Nat) (b : Nat) : Option Int :=
  if F.isFinite b then
    let n : Int := (F.intMag .halfEven (F.abs b) : Int)
    let v : Int := if F.sign b then -n else n
    if -(2 ^ (w - 1) : Int) ≤ v ∧ v < (2 ^ (w - 1) : Int) then some v else none
  else none

/-! ### sign manipulation -/
def fabs (b : Nat) : Nat := F.abs b
def copysign (x y : Nat) : Nat := F.withSign (F.sign y) (F.abs x)
def signbit (b : Nat) : Bool := F.sign b

/-! ### comparisons, fmin, fmax -/
def lt (x y : Nat) : Bool := !F.isNaN x && !F.isNaN y && decide (F.key x < F.key y)
/-- zeros of opposite sign: C leaves the choice of fmin/fmax open -/
def zerosDiffer (x y : Nat) : Bool := F.isZero x && F.isZero y && (F.sign x != F.sign y)
/-- signaling NaN (quiet bit clear): "this specification does not define the behavior of signaling NaNs" (C17 F.2.1) -/
def isSNaN (b : Nat) : Bool := F.isNaN b && (F.man b / 2 ^ (F.mbits - 1) == 0)
def fmin (x y : Nat) : Nat :=
  if F.isNaN x then (if F.isNaN y then F.qnan else y)
  else if F.isNaN y then x
  else if F.lt y x then y else x
def fmax (x y : Nat) : Nat :=
  if F.isNaN x then (if F.isNaN y then F.qnan else y)
  else if F.isNaN y then x
  else if F.lt x y then y else x

/-! ### correctly rounded result of an exact rational `n / d` (in units of `2^-K`), ties to even -/
def rne (s : Bool) (n d : Nat) : Nat :=
  let t := n / d
  let sh := if t < 2 ^ (F.mbits + 1) then 0 else Nat.log2 t - F.mbits
  let D := d * 2 ^ sh
  let q := n / D
  let r := n % D
  let p := sh * 2 ^ F.mbits + q + (if D < 2 * r ∨ (2 * r = D ∧ q % 2 = 1) then 1 else 0)
  F.withSign s (min p F.inf)

/-- the pattern whose magnitude is exactly `M` (for representable `M`) -/
def ofMag (s : Bool) (M : Nat) : Nat := F.rne s M 1

/-! ### fdim, fmod, remainder, nextafter -/
def fdim (x y : Nat) : Nat :=
  if F.isNaN x || F.isNaN y then F.qnan
  else if !(F.lt y x) then 0
  else if F.isInf x then x                  -- +inf - anything smaller
  else if F.isInf y then F.inf              -- finite - (-inf)
  else F.rne false (F.smag x - F.smag y).toNat 1

def fmod (x y : Nat) : Nat :=
  if F.isNaN x || F.isNaN y || F.isInf x || F.isZero y then F.qnan
  else if F.isInf y then x
  else F.ofMag (F.sign x) (F.mag (F.abs x) % F.mag (F.abs y))

def remainder (x y : Nat) : Nat :=
  if F.isNaN x || F.isNaN y || F.isInf x || F.isZero y then F.qnan
  else if F.isInf y then x
  else
    let mx := F.mag (F.abs x)
    let my := F.mag (F.abs y)
    let q := mx / my
    let r := mx % my
    if my < 2 * r ∨ (2 * r = my ∧ q % 2 = 1) then F.ofMag (!F.sign x) (my - r)
    else F.ofMag (F.sign x) r

def nextafter (x y : Nat) : Nat :=
  if F.isNaN x || F.isNaN y then F.qnan
  else if F.key x = F.key y then y
  else if F.isZero x then F.withSign (F.sign y) 1
  else if (decide (F.key x < F.key y)) == !F.sign x then x + 1 else x - 1

end Fmt
end Tetl.C16
