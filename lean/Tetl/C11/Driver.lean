/- placeholder: the C11 driver is not built yet -/
def main : IO Unit := IO.println "C11: driver not built yet"
