/- C11 line-protocol driver: generated model (Tetl.C11.Gen) <TAB> calendar spec (Tetl.C11.Spec). -/
import Tetl.Proto
import Tetl.C11.Gen
import Tetl.C11.Spec
namespace Tetl.C11.Driver
open Tetl.Proto Tetl.C11

def guardUB (ok : Bool) (s : String) : String := if ok then s else "ub"
def t3 (t : Int × Int × Int) : String := s!"{t.1},{t.2.1},{t.2.2}"
def t2 (t : Int × Int) : String := s!"{t.1},{t.2}"
def b2s (b : Bool) : String := if b then "1" else "0"

def step (_ : Unit) (l : Line) : Unit × String :=
  let bad := ((), "bad-op\tbad-op")
  let out (m s : String) := ((), m ++ "\t" ++ s)
  match l.op with
  | "civil" =>
    match l.int? "z" with
    | some z =>
      let s := Spec.civil z
      out (guardUB (Gen.civil_from_days_ub z) (t3 (Gen.civil_from_days z))) s!"{s.y},{s.m},{s.d}"
    | none => bad
  | "days" =>
    match l.int? "y", l.int? "m", l.int? "d" with
    | some y, some m, some d =>
      out (guardUB (Gen.days_from_civil_ub y m d) (toString (Gen.days_from_civil y m d)))
        (toString (Spec.daysOf ⟨y, m.toNat, d.toNat⟩))
    | _, _, _ => bad
  | "weekday" =>
    match l.int? "z" with
    | some z => out (guardUB (Gen.weekday_from_days_ub z) (toString (Gen.weekday_from_days z))) (toString (Spec.weekday z))
    | none => bad
  | "ok" =>
    match l.int? "y", l.int? "m", l.int? "d" with
    | some y, some m, some d =>
      -- the harness constructs year{y}, month{m}, day{d}: the generated constructors are applied first
      let (yy, mm, dd) := (Gen.mkYear y, Gen.mkMonth m, Gen.mkDay d)
      out (guardUB (Gen.ymd_ok_ub yy mm dd) (b2s (Gen.ymd_ok yy mm dd)))
        (b2s (y != -32768 && (Spec.Date.Valid ⟨y, m.toNat, d.toNat⟩)))
    | _, _, _ => bad
  | "is_leap" =>
    match l.int? "y" with
    | some y => out (guardUB (Gen.year_is_leap_ub y) (b2s (Gen.year_is_leap y))) (b2s (Spec.isLeap y))
    | none => bad
  | "last_day" =>
    match l.int? "y", l.int? "m" with
    | some y, some m =>
      out (guardUB (Gen.last_day_of_month_ub y m) (toString (Gen.last_day_of_month y m))) (toString (Spec.monthLength y m.toNat))
    | _, _ => bad
  | "month_plus" =>
    match l.int? "m", l.int? "k" with
    | some m, some k => out (guardUB (Gen.month_plus_ub m k) (toString (Gen.month_plus m k))) (toString (Spec.monthPlus m k))
    | _, _ => bad
  | "month_diff" =>
    match l.int? "a", l.int? "b" with
    | some a, some b => out (guardUB (Gen.month_diff_ub a b) (toString (Gen.month_diff a b))) (toString ((a - b) % 12))
    | _, _ => bad
  | "ym_plus" =>
    match l.int? "y", l.int? "m", l.int? "k" with
    | some y, some m, some k =>
      out (guardUB (Gen.year_month_plus_ub y m k) (t2 (Gen.year_month_plus y m k))) (t2 (Spec.yearMonthPlus y m k))
    | _, _, _ => bad
  | "year_plus" =>
    match l.int? "y", l.int? "k" with
    | some y, some k => out (guardUB (Gen.year_plus_ub y k) (toString (Gen.year_plus y k))) (toString (y + k))
    | _, _ => bad
  | "wd_plus" =>
    match l.int? "w", l.int? "k" with
    | some w, some k => out (guardUB (Gen.weekday_plus_ub w k) (toString (Gen.weekday_plus w k))) (toString (Spec.weekdayPlus w k))
    | _, _ => bad
  | "wd_minus" =>
    match l.int? "w", l.int? "k" with
    | some w, some k => out (guardUB (Gen.weekday_minus_ub w k) (toString (Gen.weekday_minus w k))) (toString (Spec.weekdayPlus w (-k)))
    | _, _ => bad
  | "wd_add_assign" =>
    match l.int? "w", l.int? "k" with
    | some w, some k => out (guardUB (Gen.weekday_add_assign_ub w k) (toString (Gen.weekday_add_assign w k))) (toString (Spec.weekdayPlus w k))
    | _, _ => bad
  | "wd_sub_assign" =>
    match l.int? "w", l.int? "k" with
    | some w, some k => out (guardUB (Gen.weekday_sub_assign_ub w k) (toString (Gen.weekday_sub_assign w k))) (toString (Spec.weekdayPlus w (-k)))
    | _, _ => bad
  | "year_diff" =>
    match l.int? "a", l.int? "b" with
    | some a, some b => let r := toString (a - b); out r r
    | _, _ => bad
  | "incdec" =>
    -- ++x, x++ (old*K + new), --x, x-- (old*K + new) [, iso_encoding]: wrap 12 -> 1 / 1 -> 12 for months, 6 -> 0 / 0 -> 6 for
    -- weekdays (through the generated month_plus / weekday_plus / weekday_minus), plain ±1 for day and year
    match l.str? "what", l.int? "v" with
    | some "month", some v =>
      let up := Gen.month_plus v 1
      let dn := Gen.month_plus v (-1)
      let m := s!"{up},{v * 1000 + up},{dn},{v * 1000 + dn}"
      let su := Spec.monthPlus v 1
      let sd := Spec.monthPlus v (-1)
      out m s!"{su},{v * 1000 + su},{sd},{v * 1000 + sd}"
    | some "weekday", some v =>
      let up := Gen.weekday_plus v 1
      let dn := Gen.weekday_minus v 1
      let iso : Int := if v == 0 then 7 else v
      let m := s!"{up},{v * 1000 + up},{dn},{v * 1000 + dn},{iso}"
      let su := Spec.weekdayPlus v 1
      let sd := Spec.weekdayPlus v (-1)
      out m s!"{su},{v * 1000 + su},{sd},{v * 1000 + sd},{iso}"
    | some "day", some v =>
      let r := s!"{v + 1},{v * 1000 + (v + 1)},{v - 1},{v * 1000 + (v - 1)}"
      out r r
    | some "year", some v =>
      let r := s!"{v + 1},{v * 100000 + (v + 1)},{v - 1},{v * 100000 + (v - 1)}"
      out r r
    | _, _ => bad
  | "oks" =>
    match l.int? "y", l.int? "m", l.int? "d", l.int? "w", l.int? "i" with
    | some y, some m, some d, some w, some i =>
      let mok := decide (1 ≤ m ∧ m ≤ 12)
      let wok := decide (0 ≤ w ∧ w ≤ 6)        -- weekday{7} is Sunday (the constructor maps 7 to 0)
      let wok := wok || w == 7
      let iok := decide (1 ≤ i ∧ i ≤ 5)
      let yok := y != -32768
      -- month_day: day within the longest possible length of that month (February: 29)
      let mdok := mok && decide (1 ≤ d) && decide (d ≤ (if m == 2 then 29 else (Spec.monthLength 2001 m.toNat : Int)))
      let r := String.join [b2s mdok, b2s (wok && iok), b2s (mok && wok && iok), b2s (mok && wok), b2s (yok && mok), b2s (yok && mok), b2s mok]
      out r r
    | _, _, _, _, _ => bad
  -- weekday-indexed dates: no generated model yet; the implementation is compared with the spec (and the spec with std)
  | "ymw" =>
    match l.int? "z" with
    | some z =>
      let t := Spec.civil z
      let w := Spec.weekday z
      let i : Int := ((t.d : Int) - 1) / 7 + 1
      let r := s!"{t.y},{t.m},{w},{i},{b2s (Spec.ymwOk t.y t.m w i)},{Spec.ymwDays t.y t.m w i}"
      out r r
    | none => bad
  | "ymw_days" =>
    match l.int? "y", l.int? "m", l.int? "w", l.int? "i" with
    | some y, some m, some w, some i =>
      let r := s!"{Spec.ymwDays y m.toNat w i},{b2s (Spec.ymwOk y m.toNat w i)}"
      out r r
    | _, _, _, _ => bad
  | "ymwl_days" =>
    match l.int? "y", l.int? "m", l.int? "w" with
    | some y, some m, some w =>
      let r := s!"{Spec.ymwlDays y m.toNat w},{b2s (y != -32768 && 1 ≤ m && m ≤ 12 && 0 ≤ w && w ≤ 6)},{Spec.daysOf ⟨y, m.toNat, Spec.monthLength y m.toNat⟩}"
      out r r
    | _, _, _ => bad
  | "wd_diff" =>
    match l.int? "a", l.int? "b" with
    | some a, some b => out (guardUB (Gen.weekday_diff_ub a b) (toString (Gen.weekday_diff a b))) (toString ((a - b) % 7))
    | _, _ => bad
  | _ => bad

end Tetl.C11.Driver

def main : IO Unit := Tetl.Proto.runDriver () Tetl.C11.Driver.step
