/- C11 line-protocol driver: generated model (Tetl.C11.Gen) <TAB> calendar spec (Tetl.C11.Spec). -/
import Tetl.Proto
import Tetl.C11.Gen
import Tetl.C11.Spec
namespace Tetl.C11.Driver
open Tetl.Proto Tetl.C11

def guardUB (ok : Bool) (s : String) : String := if ok then s else "ub"
def t3 (t : Int × Int × Int) : String := s!"{t.1},{t.2.1},{t.2.2}"
def t2 (t : Int × Int) : String := s!"{t.1},{t.2}"
def b2s (b : Bool) : String := if b then "1" else "0"

/-- `with_siblings` of harness/c11.cpp: the primary value, followed by `!<other>` for every variant that differs -/
def fold (primary : String) (others : List String) : String :=
  others.foldl (fun acc o => if o == primary then acc else acc ++ "!" ++ o) primary

/-! Every generated `± months` / `± years` operator on one case line, in the order of `five` / `plus_months_all` /
`plus_years_all` of the harness: per type `x + d`, `d + x`, `x - (-d)`, `x += d`, `x -= (-d)`.  A variant is printed as the
harness prints it: "y,m" (months) or "y" (years) followed by a marker when a field that must survive did not.  The third
field of year_month_weekday / year_month_weekday_last is an opaque token chosen here (`w + 8*i` / `w`): the generated
functions only pass it through. -/
def fmtM2 (ub : Bool) (r : Int × Int) : String := guardUB ub (t2 r)
def fmtM3 (tag : String) (f0 : Int) (ub : Bool) (r : Int × Int × Int) : String :=
  guardUB ub (t2 (r.1, r.2.1) ++ (if r.2.2 == f0 then "" else s!",{tag}={r.2.2}"))
def fmtY2 (m0 : Int) (ub : Bool) (r : Int × Int) : String :=
  guardUB ub (toString r.1 ++ (if r.2 == m0 then "" else s!",m={r.2}"))
def fmtY3 (tag : String) (m0 f0 : Int) (ub : Bool) (r : Int × Int × Int) : String :=
  guardUB ub (toString r.1 ++ (if r.2.1 == m0 then "" else s!",m={r.2.1}") ++ (if r.2.2 == f0 then "" else s!",{tag}={r.2.2}"))

def plusMonthsModel (y m d wi wl k : Int) : String :=
  let nk := -k
  let a := fmtM2
  let b := fmtM3 "day" d
  let c := fmtM3 "wdi" wi
  let e := fmtM3 "wdl" wl
  fold (a (Gen.year_month_plus_ub y m k) (Gen.year_month_plus y m k)) [
    a (Gen.months_plus_year_month_ub k y m) (Gen.months_plus_year_month k y m),
    a (Gen.year_month_minus_months_ub y m nk) (Gen.year_month_minus_months y m nk),
    a (Gen.year_month_add_assign_months_ub y m k) (Gen.year_month_add_assign_months y m k),
    a (Gen.year_month_sub_assign_months_ub y m nk) (Gen.year_month_sub_assign_months y m nk),
    b (Gen.ymd_plus_months_ub y m d k) (Gen.ymd_plus_months y m d k),
    b (Gen.months_plus_ymd_ub k y m d) (Gen.months_plus_ymd k y m d),
    b (Gen.ymd_minus_months_ub y m d nk) (Gen.ymd_minus_months y m d nk),
    b (Gen.ymd_add_assign_months_ub y m d k) (Gen.ymd_add_assign_months y m d k),
    b (Gen.ymd_sub_assign_months_ub y m d nk) (Gen.ymd_sub_assign_months y m d nk),
    a (Gen.ymdl_plus_months_ub y m k) (Gen.ymdl_plus_months y m k),
    a (Gen.months_plus_ymdl_ub k y m) (Gen.months_plus_ymdl k y m),
    a (Gen.ymdl_minus_months_ub y m nk) (Gen.ymdl_minus_months y m nk),
    a (Gen.ymdl_add_assign_months_ub y m k) (Gen.ymdl_add_assign_months y m k),
    a (Gen.ymdl_sub_assign_months_ub y m nk) (Gen.ymdl_sub_assign_months y m nk),
    c (Gen.ymw_plus_months_ub y m wi k) (Gen.ymw_plus_months y m wi k),
    c (Gen.months_plus_ymw_ub k y m wi) (Gen.months_plus_ymw k y m wi),
    c (Gen.ymw_minus_months_ub y m wi nk) (Gen.ymw_minus_months y m wi nk),
    c (Gen.ymw_add_assign_months_ub y m wi k) (Gen.ymw_add_assign_months y m wi k),
    c (Gen.ymw_sub_assign_months_ub y m wi nk) (Gen.ymw_sub_assign_months y m wi nk),
    e (Gen.ymwl_plus_months_ub y m wl k) (Gen.ymwl_plus_months y m wl k),
    e (Gen.months_plus_ymwl_ub k y m wl) (Gen.months_plus_ymwl k y m wl),
    e (Gen.ymwl_minus_months_ub y m wl nk) (Gen.ymwl_minus_months y m wl nk),
    e (Gen.ymwl_add_assign_months_ub y m wl k) (Gen.ymwl_add_assign_months y m wl k),
    e (Gen.ymwl_sub_assign_months_ub y m wl nk) (Gen.ymwl_sub_assign_months y m wl nk)]

def plusMonthsSpec (y m d wi wl k : Int) : String :=
  let nk := -k
  let a := fmtM2 true
  let b := fmtM3 "day" d true
  let c := fmtM3 "wdi" wi true
  let e := fmtM3 "wdl" wl true
  let ym := a (Spec.yearMonthPlus y m k)
  let ymn := a (Spec.yearMonthPlus y m (- nk))
  fold ym ([ym, ymn, ym, ymn]
    ++ [b (Spec.datePlusMonths y m d k), b (Spec.datePlusMonths y m d k), b (Spec.datePlusMonths y m d (- nk)),
        b (Spec.datePlusMonths y m d k), b (Spec.datePlusMonths y m d (- nk))]
    ++ [ym, ym, ymn, ym, ymn]
    ++ [c (Spec.datePlusMonths y m wi k), c (Spec.datePlusMonths y m wi k), c (Spec.datePlusMonths y m wi (- nk)),
        c (Spec.datePlusMonths y m wi k), c (Spec.datePlusMonths y m wi (- nk))]
    ++ [e (Spec.datePlusMonths y m wl k), e (Spec.datePlusMonths y m wl k), e (Spec.datePlusMonths y m wl (- nk)),
        e (Spec.datePlusMonths y m wl k), e (Spec.datePlusMonths y m wl (- nk))])

def plusYearsModel (y m d wi wl k : Int) : String :=
  let nk := -k
  let s (ub : Bool) (r : Int) := guardUB ub (toString r)
  let a := fmtY2 m
  let b := fmtY3 "day" m d
  let c := fmtY3 "wdi" m wi
  let e := fmtY3 "wdl" m wl
  fold (s (Gen.year_plus_ub y k) (Gen.year_plus y k)) [
    s (Gen.years_plus_year_ub k y) (Gen.years_plus_year k y),
    s (Gen.year_minus_ub y nk) (Gen.year_minus y nk),
    s (Gen.year_add_assign_ub y k) (Gen.year_add_assign y k),
    s (Gen.year_sub_assign_ub y nk) (Gen.year_sub_assign y nk),
    a (Gen.year_month_plus_years_ub y m k) (Gen.year_month_plus_years y m k),
    a (Gen.years_plus_year_month_ub k y m) (Gen.years_plus_year_month k y m),
    a (Gen.year_month_minus_years_ub y m nk) (Gen.year_month_minus_years y m nk),
    a (Gen.year_month_add_assign_years_ub y m k) (Gen.year_month_add_assign_years y m k),
    a (Gen.year_month_sub_assign_years_ub y m nk) (Gen.year_month_sub_assign_years y m nk),
    b (Gen.ymd_plus_years_ub y m d k) (Gen.ymd_plus_years y m d k),
    b (Gen.years_plus_ymd_ub k y m d) (Gen.years_plus_ymd k y m d),
    b (Gen.ymd_minus_years_ub y m d nk) (Gen.ymd_minus_years y m d nk),
    b (Gen.ymd_add_assign_years_ub y m d k) (Gen.ymd_add_assign_years y m d k),
    b (Gen.ymd_sub_assign_years_ub y m d nk) (Gen.ymd_sub_assign_years y m d nk),
    a (Gen.ymdl_plus_years_ub y m k) (Gen.ymdl_plus_years y m k),
    a (Gen.years_plus_ymdl_ub k y m) (Gen.years_plus_ymdl k y m),
    a (Gen.ymdl_minus_years_ub y m nk) (Gen.ymdl_minus_years y m nk),
    a (Gen.ymdl_add_assign_years_ub y m k) (Gen.ymdl_add_assign_years y m k),
    a (Gen.ymdl_sub_assign_years_ub y m nk) (Gen.ymdl_sub_assign_years y m nk),
    c (Gen.ymw_plus_years_ub y m wi k) (Gen.ymw_plus_years y m wi k),
    c (Gen.years_plus_ymw_ub k y m wi) (Gen.years_plus_ymw k y m wi),
    c (Gen.ymw_minus_years_ub y m wi nk) (Gen.ymw_minus_years y m wi nk),
    c (Gen.ymw_add_assign_years_ub y m wi k) (Gen.ymw_add_assign_years y m wi k),
    c (Gen.ymw_sub_assign_years_ub y m wi nk) (Gen.ymw_sub_assign_years y m wi nk),
    e (Gen.ymwl_plus_years_ub y m wl k) (Gen.ymwl_plus_years y m wl k),
    e (Gen.years_plus_ymwl_ub k y m wl) (Gen.years_plus_ymwl k y m wl),
    e (Gen.ymwl_minus_years_ub y m wl nk) (Gen.ymwl_minus_years y m wl nk),
    e (Gen.ymwl_add_assign_years_ub y m wl k) (Gen.ymwl_add_assign_years y m wl k),
    e (Gen.ymwl_sub_assign_years_ub y m wl nk) (Gen.ymwl_sub_assign_years y m wl nk)]

def plusYearsSpec (y m d wi wl k : Int) : String :=
  let nk := -k
  let a := fmtY2 m true
  let b := fmtY3 "day" m d true
  let c := fmtY3 "wdi" m wi true
  let e := fmtY3 "wdl" m wl true
  let yp := toString (y + k)
  let yn := toString (y - nk)
  let ym := a (Spec.yearMonthPlusYears y m k)
  let ymn := a (Spec.yearMonthPlusYears y m (- nk))
  fold yp ([yp, yn, yp, yn] ++ [ym, ym, ymn, ym, ymn]
    ++ [b (Spec.datePlusYears y m d k), b (Spec.datePlusYears y m d k), b (Spec.datePlusYears y m d (- nk)),
        b (Spec.datePlusYears y m d k), b (Spec.datePlusYears y m d (- nk))]
    ++ [ym, ym, ymn, ym, ymn]
    ++ [c (Spec.datePlusYears y m wi k), c (Spec.datePlusYears y m wi k), c (Spec.datePlusYears y m wi (- nk)),
        c (Spec.datePlusYears y m wi k), c (Spec.datePlusYears y m wi (- nk))]
    ++ [e (Spec.datePlusYears y m wl k), e (Spec.datePlusYears y m wl k), e (Spec.datePlusYears y m wl (- nk)),
        e (Spec.datePlusYears y m wl k), e (Spec.datePlusYears y m wl (- nk))])

def step (_ : Unit) (l : Line) : Unit × String :=
  let bad := ((), "bad-op\tbad-op")
  let out (m s : String) := ((), m ++ "\t" ++ s)
  match l.op with
  | "civil" =>
    match l.int? "z" with
    | some z =>
      let s := Spec.civil z
      out (guardUB (Gen.civil_from_days_ub z) (t3 (Gen.civil_from_days z))) s!"{s.y},{s.m},{s.d}"
    | none => bad
  | "days" =>
    match l.int? "y", l.int? "m", l.int? "d" with
    | some y, some m, some d =>
      out (guardUB (Gen.days_from_civil_ub y m d) (toString (Gen.days_from_civil y m d)))
        (toString (Spec.daysOf ⟨y, m.toNat, d.toNat⟩))
    | _, _, _ => bad
  | "weekday" =>
    match l.int? "z" with
    | some z => out (guardUB (Gen.weekday_from_days_ub z) (toString (Gen.weekday_from_days z))) (toString (Spec.weekday z))
    | none => bad
  | "ok" =>
    match l.int? "y", l.int? "m", l.int? "d" with
    | some y, some m, some d =>
      -- the harness constructs year{y}, month{m}, day{d}: the generated constructors are applied first
      let (yy, mm, dd) := (Gen.mkYear y, Gen.mkMonth m, Gen.mkDay d)
      out (guardUB (Gen.ymd_ok_ub yy mm dd) (b2s (Gen.ymd_ok yy mm dd)))
        (b2s (y != -32768 && (Spec.Date.Valid ⟨y, m.toNat, d.toNat⟩)))
    | _, _, _ => bad
  | "is_leap" =>
    match l.int? "y" with
    | some y => out (guardUB (Gen.year_is_leap_ub y) (b2s (Gen.year_is_leap y))) (b2s (Spec.isLeap y))
    | none => bad
  | "last_day" =>
    match l.int? "y", l.int? "m" with
    | some y, some m =>
      out (guardUB (Gen.last_day_of_month_ub y m) (toString (Gen.last_day_of_month y m))) (toString (Spec.monthLength y m.toNat))
    | _, _ => bad
  | "month_plus" =>
    match l.int? "m", l.int? "k" with
    | some m, some k =>
      -- month + months, months + month, month - (-months), +=, -= (-months): the harness folds them the same way
      let s (ub : Bool) (r : Int) := guardUB ub (toString r)
      out (fold (s (Gen.month_plus_ub m k) (Gen.month_plus m k)) [
            s (Gen.months_plus_month_ub k m) (Gen.months_plus_month k m),
            s (Gen.month_minus_ub m (-k)) (Gen.month_minus m (-k)),
            s (Gen.month_add_assign_ub m k) (Gen.month_add_assign m k),
            s (Gen.month_sub_assign_ub m (-k)) (Gen.month_sub_assign m (-k))])
        (toString (Spec.monthPlus m k))
    | _, _ => bad
  | "month_diff" =>
    match l.int? "a", l.int? "b" with
    | some a, some b => out (guardUB (Gen.month_diff_ub a b) (toString (Gen.month_diff a b))) (toString ((a - b) % 12))
    | _, _ => bad
  | "ym_plus" =>
    match l.int? "y", l.int? "m", l.int? "k" with
    | some y, some m, some k =>
      -- optional keys: day d (28), weekday w (3), index i (3); the harness constructs year{y}, month{m}, day{d}, weekday{w}
      let d := Gen.mkDay ((l.int? "d").getD 28)
      let w := Gen.mkWeekday ((l.int? "w").getD 3)
      let i := (l.int? "i").getD 3
      let (yy, mm) := (Gen.mkYear y, Gen.mkMonth m)
      out (plusMonthsModel yy mm d (w + 8 * i) w k) (plusMonthsSpec yy mm d (w + 8 * i) w k)
    | _, _, _ => bad
  | "year_plus" =>
    match l.int? "y", l.int? "k" with
    | some y, some k =>
      let m := Gen.mkMonth ((l.int? "m").getD 7)
      let d := Gen.mkDay ((l.int? "d").getD 28)
      let w := Gen.mkWeekday ((l.int? "w").getD 3)
      let i := (l.int? "i").getD 3
      let yy := Gen.mkYear y
      out (plusYearsModel yy m d (w + 8 * i) w k) (plusYearsSpec yy m d (w + 8 * i) w k)
    | _, _ => bad
  | "wd_plus" =>
    match l.int? "w", l.int? "k" with
    | some w, some k => out (guardUB (Gen.weekday_plus_ub w k) (toString (Gen.weekday_plus w k))) (toString (Spec.weekdayPlus w k))
    | _, _ => bad
  | "wd_minus" =>
    match l.int? "w", l.int? "k" with
    | some w, some k => out (guardUB (Gen.weekday_minus_ub w k) (toString (Gen.weekday_minus w k))) (toString (Spec.weekdayPlus w (-k)))
    | _, _ => bad
  | "wd_add_assign" =>
    match l.int? "w", l.int? "k" with
    | some w, some k => out (guardUB (Gen.weekday_add_assign_ub w k) (toString (Gen.weekday_add_assign w k))) (toString (Spec.weekdayPlus w k))
    | _, _ => bad
  | "wd_sub_assign" =>
    match l.int? "w", l.int? "k" with
    | some w, some k => out (guardUB (Gen.weekday_sub_assign_ub w k) (toString (Gen.weekday_sub_assign w k))) (toString (Spec.weekdayPlus w (-k)))
    | _, _ => bad
  | "year_diff" =>
    match l.int? "a", l.int? "b" with
    | some a, some b =>
      let (ya, yb) := (Gen.mkYear a, Gen.mkYear b)
      out (guardUB (Gen.year_diff_ub ya yb) (toString (Gen.year_diff ya yb))) (toString (a - b))
    | _, _ => bad
  | "ym_diff" =>
    -- year_month - year_month ([time.cal.ym.nonmembers]); the second value checks ym2 + (ym1 - ym2) == ym1
    match l.int? "y1", l.int? "m1", l.int? "y2", l.int? "m2" with
    | some y1, some m1, some y2, some m2 =>
      let (a, b, c, d) := (Gen.mkYear y1, Gen.mkMonth m1, Gen.mkYear y2, Gen.mkMonth m2)
      let k := Gen.year_month_diff a b c d
      out (guardUB (Gen.year_month_diff_ub a b c d) s!"{k},{t2 (Gen.year_month_plus c d k)}")
        s!"{Spec.yearMonthDiff y1 m1 y2 m2},{y1},{m1}"
    | _, _, _, _ => bad
  | "incdec" =>
    -- ++x, x++ (old*K + new), --x, x-- (old*K + new) [, iso_encoding]: wrap 12 -> 1 / 1 -> 12 for months, 6 -> 0 / 0 -> 6 for
    -- weekdays (through the generated month_plus / weekday_plus / weekday_minus), plain ±1 for day and year
    match l.str? "what", l.int? "v" with
    | some "month", some v =>
      let up := Gen.month_plus v 1
      let dn := Gen.month_plus v (-1)
      let m := s!"{up},{v * 1000 + up},{dn},{v * 1000 + dn}"
      let su := Spec.monthPlus v 1
      let sd := Spec.monthPlus v (-1)
      out m s!"{su},{v * 1000 + su},{sd},{v * 1000 + sd}"
    | some "weekday", some v =>
      let up := Gen.weekday_plus v 1
      let dn := Gen.weekday_minus v 1
      let iso : Int := if v == 0 then 7 else v
      let m := s!"{up},{v * 1000 + up},{dn},{v * 1000 + dn},{Gen.weekday_iso_encoding v}"
      let su := Spec.weekdayPlus v 1
      let sd := Spec.weekdayPlus v (-1)
      out m s!"{su},{v * 1000 + su},{sd},{v * 1000 + sd},{iso}"
    | some "day", some v =>
      let r := s!"{v + 1},{v * 1000 + (v + 1)},{v - 1},{v * 1000 + (v - 1)}"
      out r r
    | some "year", some v =>
      let r := s!"{v + 1},{v * 100000 + (v + 1)},{v - 1},{v * 100000 + (v - 1)}"
      out r r
    | _, _ => bad
  | "oks" =>
    match l.int? "y", l.int? "m", l.int? "d", l.int? "w", l.int? "i" with
    | some y, some m, some d, some w, some i =>
      let mok := decide (1 ≤ m ∧ m ≤ 12)
      let wok := decide (0 ≤ w ∧ w ≤ 6)        -- weekday{7} is Sunday (the constructor maps 7 to 0)
      let wok := wok || w == 7
      let iok := decide (1 ≤ i ∧ i ≤ 5)
      let yok := y != -32768
      -- month_day: day within the longest possible length of that month (February: 29)
      let mdok := mok && decide (1 ≤ d) && decide (d ≤ (if m == 2 then 29 else (Spec.monthLength 2001 m.toNat : Int)))
      let r := String.join [b2s mdok, b2s (wok && iok), b2s (mok && wok && iok), b2s (mok && wok), b2s (yok && mok), b2s (yok && mok), b2s mok]
      -- year_month::ok, year_month_day_last::ok, month_day_last::ok: the generated functions (on year{y}, month{m})
      let (yy, mm) := (Gen.mkYear y, Gen.mkMonth m)
      let g := String.join [b2s mdok, b2s (wok && iok), b2s (mok && wok && iok), b2s (mok && wok),
        guardUB (Gen.year_month_ok_ub yy mm) (b2s (Gen.year_month_ok yy mm)), guardUB (Gen.ymdl_ok_ub yy mm) (b2s (Gen.ymdl_ok yy mm)),
        guardUB (Gen.month_day_last_ok_ub mm) (b2s (Gen.month_day_last_ok mm))]
      out g r
    | _, _, _, _, _ => bad
  -- weekday-indexed dates: no generated model yet; the implementation is compared with the spec (and the spec with std)
  | "ymw" =>
    match l.int? "z" with
    | some z =>
      let t := Spec.civil z
      let w := Spec.weekday z
      let i : Int := ((t.d : Int) - 1) / 7 + 1
      let r := s!"{t.y},{t.m},{w},{i},{b2s (Spec.ymwOk t.y t.m w i)},{Spec.ymwDays t.y t.m w i}"
      out r r
    | none => bad
  | "ymw_days" =>
    match l.int? "y", l.int? "m", l.int? "w", l.int? "i" with
    | some y, some m, some w, some i =>
      let r := s!"{Spec.ymwDays y m.toNat w i},{b2s (Spec.ymwOk y m.toNat w i)}"
      out r r
    | _, _, _, _ => bad
  | "ymwl_days" =>
    match l.int? "y", l.int? "m", l.int? "w" with
    | some y, some m, some w =>
      let r := s!"{Spec.ymwlDays y m.toNat w},{b2s (y != -32768 && 1 ≤ m && m ≤ 12 && 0 ≤ w && w ≤ 6)},{Spec.daysOf ⟨y, m.toNat, Spec.monthLength y m.toNat⟩}"
      out r r
    | _, _, _ => bad
  | "wd_diff" =>
    match l.int? "a", l.int? "b" with
    | some a, some b => out (guardUB (Gen.weekday_diff_ub a b) (toString (Gen.weekday_diff a b))) (toString ((a - b) % 7))
    | _, _ => bad
  | _ => bad

end Tetl.C11.Driver

def main : IO Unit := Tetl.Proto.runDriver () Tetl.C11.Driver.step
