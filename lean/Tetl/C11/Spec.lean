/-
C11 — the proleptic Gregorian calendar, stated without any closed-form trick:
leap rule, month lengths, the successor of a date, and the day number of a date obtained by
*counting* whole years and whole months.  `std::chrono` ([time.cal]) is this calendar with
day 0 = 1970-01-01.
-/
namespace Tetl.C11.Spec

def isLeap (y : Int) : Bool := (y % 4 == 0 && y % 100 != 0) || y % 400 == 0

def monthLength (y : Int) (m : Nat) : Nat :=
  match m with
  | 1 => 31 | 2 => if isLeap y then 29 else 28 | 3 => 31 | 4 => 30 | 5 => 31 | 6 => 30
  | 7 => 31 | 8 => 31 | 9 => 30 | 10 => 31 | 11 => 30 | 12 => 31
  | _ => 0

structure Date where
  y : Int
  m : Nat
  d : Nat
  deriving DecidableEq, Repr

def Date.Valid (t : Date) : Bool := 1 ≤ t.m && t.m ≤ 12 && 1 ≤ t.d && t.d ≤ monthLength t.y t.m

/-- the day after `t` -/
def nextDay (t : Date) : Date :=
  if t.d < monthLength t.y t.m then { t with d := t.d + 1 }
  else if t.m < 12 then { t with m := t.m + 1, d := 1 }
  else { y := t.y + 1, m := 1, d := 1 }

def epoch : Date := ⟨1970, 1, 1⟩

/-- `n`-fold successor -/
def daysAfter : Nat → Date → Date
  | 0, t => t
  | n + 1, t => daysAfter n (nextDay t)

/-- number of leap years in `[1, y]` for `y ≥ 0`, extended to all integers by the same floor formulas:
    the count of multiples of 4, minus multiples of 100, plus multiples of 400 up to `y`. -/
def leapsUpTo (y : Int) : Int := y / 4 - y / 100 + y / 400

/-- days from 0001-01-01 to `y`-01-01 (whole years counted: 365 each plus one per leap year) -/
def daysBeforeYear (y : Int) : Int := 365 * (y - 1) + leapsUpTo (y - 1)

/-- days of the months before month `m` in year `y` (whole months counted) -/
def daysBeforeMonth (y : Int) (m : Nat) : Nat :=
  ((List.range (m - 1)).map (fun k => monthLength y (k + 1))).sum

/-- day number of a date, day 0 = 1970-01-01 -/
def daysOf (t : Date) : Int :=
  daysBeforeYear t.y + daysBeforeMonth t.y t.m + (t.d - 1) - (daysBeforeYear 1970)

/-- the date with a given day number, found by search (year by estimate and correction, then month by scan):
    an executable inverse of `daysOf` that shares no formula with the implementation. -/
def yearOf (z : Int) : Int :=
  let y0 := 1970 + z / 366          -- off by at most ~75 years on the supported range (|z| ≤ 1.27e7); corrected below
  -- correct upward: at most ~ (|z|/366/365 + 2) steps; fuel generous
  let rec up (fuel : Nat) (y : Int) : Int :=
    match fuel with
    | 0 => y
    | f + 1 => if daysBeforeYear (y + 1) - daysBeforeYear 1970 ≤ z then up f (y + 1) else y
  let rec down (fuel : Nat) (y : Int) : Int :=
    match fuel with
    | 0 => y
    | f + 1 => if z < daysBeforeYear y - daysBeforeYear 1970 then down f (y - 1) else y
  up 200 (down 200 y0)

def civil (z : Int) : Date :=
  let y := yearOf z
  let rem := (z - (daysBeforeYear y - daysBeforeYear 1970)).toNat      -- day of year, 0-based
  let rec scan (fuel : Nat) (m : Nat) (rem : Nat) : Nat × Nat :=
    match fuel with
    | 0 => (m, rem)
    | f + 1 => if rem < monthLength y m then (m, rem) else scan f (m + 1) (rem - monthLength y m)
  let (m, r) := scan 12 1 rem
  ⟨y, m, r + 1⟩

/-- weekday (0 = Sunday) of day number `z`: 1970-01-01 was a Thursday -/
def weekday (z : Int) : Int := (z + 4) % 7

/-- month + n months, in 1..12 -/
def monthPlus (m : Int) (k : Int) : Int := (m - 1 + k) % 12 + 1
/-- (year, month) + n months with carry -/
def yearMonthPlus (y m k : Int) : Int × Int := (y + (m - 1 + k) / 12, (m - 1 + k) % 12 + 1)
def weekdayPlus (w k : Int) : Int := (w + k) % 7

/-! ### `± months` / `± years` of the multi-field calendar types
[time.cal.ym.nonmembers], [time.cal.ymd.nonmembers], [time.cal.ymdlast.nonmembers], [time.cal.ymwd.nonmembers],
[time.cal.ymwdlast.nonmembers]: `x + dm` is `(x.year() / x.month() + dm) / <third field of x>`, `x + dy` is
`(x.year() + dy) / x.month() / <third field of x>`; `dm + x`, `x += dm` are `x + dm`; `x - dm`, `x -= dm` are `x + -dm`.
The third field (day, weekday_indexed, weekday_last) is `f`: these operations never look at it. -/

/-- [time.cal.ym.nonmembers] `ym1 - ym2`: the number of months from `ym2` to `ym1` -/
def yearMonthDiff (y1 m1 y2 m2 : Int) : Int := (y1 - y2) * 12 + (m1 - m2)
/-- (year, month) + n years -/
def yearMonthPlusYears (y m k : Int) : Int × Int := (y + k, m)
/-- (year, month, f) + n months: the month is normalised into 1..12, the carry goes into the year, `f` is kept -/
def datePlusMonths (y m f k : Int) : Int × Int × Int := ((yearMonthPlus y m k).1, (yearMonthPlus y m k).2, f)
/-- (year, month, f) + n years -/
def datePlusYears (y m f k : Int) : Int × Int × Int := (y + k, m, f)


/-! ### weekday-indexed dates ([time.cal.ymwd], [time.cal.ymwdlast]) in terms of the calendar above -/

/-- day number of the `i`-th weekday `w` of month (y, m); `i = 0` is the week before the first -/
def ymwDays (y : Int) (m : Nat) (w : Int) (i : Int) : Int :=
  let first := daysOf ⟨y, m, 1⟩
  first + (w - weekday first) % 7 + (i - 1) * 7

/-- day number of the last weekday `w` of month (y, m) -/
def ymwlDays (y : Int) (m : Nat) (w : Int) : Int :=
  let lastD := daysOf ⟨y, m, monthLength y m⟩
  lastD - (weekday lastD - w) % 7

/-- `year_month_weekday::ok()` -/
def ymwOk (y : Int) (m : Nat) (w : Int) (i : Int) : Bool :=
  y != -32768 && 1 ≤ m && m ≤ 12 && 0 ≤ w && w ≤ 6 && 1 ≤ i && i ≤ 5 &&
    (i ≤ 4 || decide ((w - weekday (daysOf ⟨y, m, 1⟩)) % 7 + (i - 1) * 7 + 1 ≤ (monthLength y m : Int)))

end Tetl.C11.Spec
