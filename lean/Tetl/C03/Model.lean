/-
C03 — lifetime model: every element is constructed once and destroyed once.

Storage is an arena of *slots*; a slot is `dead` (raw storage) or `live ty v` (an object of
alternative/callable type `ty`; `v = none` is a moved-from object: valid, value unspecified).
The primitive events are the special member functions of the element type
(`valueC`, `copyC`, `moveC`, `copyA`, `moveA`, `destroyAt`, `useAt`), each an
`Except LErr` transition: constructing over a live object, any use of dead storage, destroying
twice, using an object as another type, and move-assigning an object *that still holds its
value* to itself are errors.  (Self-move-assignment of a moved-from object — what the generic
`swap(a, a)` does between its first and third move — is legal and changes nothing.)

Every owner operation is the sequence of events that the C++ source performs, in the same order
(include/etl/_vector/static_vector.hpp, _inplace_vector/inplace_vector.hpp, _variant/variant.hpp,
_optional/optional.hpp, _expected/expected.hpp, _functional/inplace_function.hpp,
_set/static_set.hpp, _flat_set/flat_set.hpp, _stack/stack.hpp, _algorithm/rotate.hpp,
_algorithm/move.hpp, _algorithm/remove_if.hpp, _utility/swap.hpp, _memory/uninitialized_*.hpp,
_memory/ranges_destroy.hpp), *as they are after the `fix:` commits of branch fix-c03 and of the C07 follow-up (e7501ef, 48efb47)*.

Element kinds: which special members the element type declares (`Members`: `cm` copyable and movable,
`mo` move-only, `co` copy-only — no move members are declared, so every "move" of the library binds to
the copy operation and leaves its source intact) and, per special member, whether it is user-provided
or defaulted (`Traits`).  A user-provided member is a function the element type wrote: it is an event
an observer sees, and the move operations reset their source.  A defaulted member of an element type
whose only data member is an `int` is *trivial*: it copies the object representation, leaves its source
exactly as it is (so `x = move(x)` changes nothing) and no function runs that an observer could see.
The owners test these bits in their `requires` clauses (variant.hpp: `variant_trivially_copy_assignable`,
`variant_trivially_move_assignable`, the trivially-copy/move-constructible clauses of the copy / move
constructors of variant and inplace_vector, `is_trivially_destructible_v` of the destructors) and select
either their own special member or the defaulted, byte-wise one: `Kind.trivCC` … `Kind.trivMA` are those
tests (the same four bits as `Tetl.C07.Cfg`, here derived from the per-member bits of the element type),
and the model follows the path they select.
-/
namespace Tetl.C03

inductive LErr where
  | constructOverLive (i : Nat)   -- a constructor ran on storage that already holds a live object
  | useDead (i : Nat)             -- member function / assignment / copy source on dead storage
  | doubleDestroy (i : Nat)       -- destructor on dead storage
  | typeMismatch (i : Nat)        -- object used as another alternative than the one alive
  | selfMove (i : Nat)            -- `x = move(x)` on an object that holds its value
  | unspecified (i : Nat)         -- the value of a moved-from object decides control flow
  | oob (i : Nat)                 -- outside the arena
  | fuel
  | pre (site : String)           -- documented precondition violated
  | notDestroyed (i : Nat)        -- the storage of an object with a non-trivial destructor is overwritten / released without it
  | notConstructed (i : Nat)      -- an object whose copy / move constructor is not trivial appears by a copy of bytes
  deriving Repr, DecidableEq, Inhabited

def LErr.fmt : LErr → String
  | .constructOverLive _ => "life(construct-over-live)"
  | .useDead _ => "life(use-dead)"
  | .doubleDestroy _ => "life(double-destroy)"
  | .typeMismatch _ => "life(type-mismatch)"
  | .selfMove _ => "life(self-move)"
  | .unspecified _ => "unspecified"
  | .oob _ => "oob"
  | .fuel => "fuel"
  | .pre s => s!"pre({s})"
  | .notDestroyed _ => "life(not-destroyed)"
  | .notConstructed _ => "life(not-constructed)"

inductive Slot where
  | dead
  | live (ty : Nat) (v : Option Nat)
  deriving Repr, DecidableEq, Inhabited

def Slot.isLive : Slot → Bool
  | .dead => false
  | .live _ _ => true

/-- which special members the element type declares -/
inductive Members where | cm | mo | co
  deriving Repr, DecidableEq, Inhabited

/-- one bit per special member: `true` = user-provided (a function of the element type runs; the move operations
    reset their source), `false` = defaulted on its first declaration and therefore trivial (the object
    representation is copied, the source is left as it is, nothing observable runs).  `dt` is the destructor. -/
structure Traits where
  cc : Bool := true
  mc : Bool := true
  ca : Bool := true
  ma : Bool := true
  dt : Bool := true
  deriving Repr, DecidableEq, Inhabited

structure Kind where
  mem : Members
  tr : Traits := {}
  deriving Repr, DecidableEq, Inhabited

/-- the three kinds whose every special member is user-provided -/
def Kind.cm : Kind := { mem := .cm }
def Kind.mo : Kind := { mem := .mo }
def Kind.co : Kind := { mem := .co }

/-- the mixed kinds the harness instantiates (copyable and movable):
    `da` defaulted copy / move *assignment* next to user-provided constructors and destructor,
    `dm` defaulted *move* operations next to user-provided copy operations and destructor,
    `dc` defaulted *copy* operations next to user-provided move operations and destructor -/
def Kind.da : Kind := { mem := .cm, tr := { ca := false, ma := false } }
def Kind.dm : Kind := { mem := .cm, tr := { mc := false, ma := false } }
def Kind.dc : Kind := { mem := .cm, tr := { cc := false, ca := false } }

/-- does a move *construction* reset its source?  (the copy constructor of a copy-only type and a trivial move
    constructor do not) -/
def Kind.mcResets (k : Kind) : Bool := k.mem != .co && k.tr.mc
/-- does a move *assignment* reset its source? -/
def Kind.maResets (k : Kind) : Bool := k.mem != .co && k.tr.ma

/-- `is_trivially_copy_constructible_v<T>`: the copy constructor is trivial *and* so is the destructor (the
    compiler builtin evaluates the variable definition `T t(declval<T const&>())`, which includes the destruction:
    g++ 12 and clang 16 both answer `false` for a defaulted copy constructor next to a user-provided destructor) -/
def Kind.trivCC (k : Kind) : Bool := !k.tr.cc && !k.tr.dt
/-- `is_trivially_move_constructible_v<T>` (construction from an rvalue selects the copy constructor of a copy-only type) -/
def Kind.trivMC (k : Kind) : Bool := (if k.mem = .co then !k.tr.cc else !k.tr.mc) && !k.tr.dt
/-- `detail::variant_trivially_copy_assignable<T>` = trivially copy constructible and trivially copy assignable -/
def Kind.trivCA (k : Kind) : Bool := k.trivCC && !k.tr.ca
/-- `detail::variant_trivially_move_assignable<T>` = trivially move constructible and trivially move assignable -/
def Kind.trivMA (k : Kind) : Bool := k.trivMC && (if k.mem = .co then !k.tr.ca else !k.tr.ma)
/-- `is_trivially_destructible_v<T>` -/
def Kind.trivD (k : Kind) : Bool := !k.tr.dt

/-- event counters: value ctor, copy ctor, move ctor, copy assignment, move assignment, destructor -/
structure Cnt where
  vc : Nat := 0
  cc : Nat := 0
  mc : Nat := 0
  ca : Nat := 0
  ma : Nat := 0
  d : Nat := 0
  deriving Repr, DecidableEq, Inhabited

def Cnt.constructed (c : Cnt) : Nat := c.vc + c.cc + c.mc

structure Mem where
  slots : List Slot
  cnt : Cnt
  deriving Repr, DecidableEq, Inhabited

def Mem.fresh (n : Nat) : Mem := { slots := List.replicate n .dead, cnt := {} }

def Mem.get (m : Mem) (i : Nat) : Except LErr Slot :=
  match m.slots[i]? with
  | some s => .ok s
  | none => .error (.oob i)

def Mem.set (m : Mem) (i : Nat) (s : Slot) : Mem := { m with slots := m.slots.set i s }

def Mem.liveCount (m : Mem) : Nat := (m.slots.filter Slot.isLive).length

/-- where a copy/move takes its value from: a slot of the arena or an object of the caller
    (alive for the whole call, not part of the arena) -/
inductive Src where
  | slot (j : Nat)
  | ext (v : Nat)
  deriving Repr, DecidableEq, Inhabited

/-- the value carried by the source of a copy/move (`none`: the source is moved-from) -/
def srcVal (m : Mem) (ty : Nat) : Src → Except LErr (Option Nat)
  | .ext v => .ok (some v)
  | .slot j =>
    match m.get j with
    | .error e => .error e
    | .ok .dead => .error (.useDead j)
    | .ok (.live t v) => if t = ty then .ok v else .error (.typeMismatch j)

/-- the source of a move is left moved-from -/
def srcMoved (m : Mem) (ty : Nat) : Src → Mem
  | .ext _ => m
  | .slot j => m.set j (.live ty none)

/-- a constructor runs at slot `i`: the storage must be dead -/
def constructAt (m : Mem) (i ty : Nat) (v : Option Nat) : Except LErr Mem :=
  match m.get i with
  | .error e => .error e
  | .ok .dead => .ok (m.set i (.live ty v))
  | .ok (.live _ _) => .error (.constructOverLive i)

/-- an assignment operator runs at slot `i`: the object must be alive and of type `ty` -/
def assignAt (m : Mem) (i ty : Nat) (v : Option Nat) : Except LErr Mem :=
  match m.get i with
  | .error e => .error e
  | .ok .dead => .error (.useDead i)
  | .ok (.live t _) => if t = ty then .ok (m.set i (.live ty v)) else .error (.typeMismatch i)

def bumpVc (m : Mem) : Mem := { m with cnt := { m.cnt with vc := m.cnt.vc + 1 } }
def bumpCc (m : Mem) : Mem := { m with cnt := { m.cnt with cc := m.cnt.cc + 1 } }
def bumpMc (m : Mem) : Mem := { m with cnt := { m.cnt with mc := m.cnt.mc + 1 } }
def bumpCa (m : Mem) : Mem := { m with cnt := { m.cnt with ca := m.cnt.ca + 1 } }
def bumpMa (m : Mem) : Mem := { m with cnt := { m.cnt with ma := m.cnt.ma + 1 } }
def bumpD (m : Mem) : Mem := { m with cnt := { m.cnt with d := m.cnt.d + 1 } }

/-! ### the primitive events -/

/-- `T(args...)` from something that is not a `T` -/
def valueC (m : Mem) (i ty v : Nat) : Except LErr Mem :=
  match constructAt m i ty (some v) with
  | .error e => .error e
  | .ok m1 => .ok (bumpVc m1)

/-- `T(T const&)` -/
def copyC (m : Mem) (i ty : Nat) (s : Src) : Except LErr Mem :=
  match srcVal m ty s with
  | .error e => .error e
  | .ok v =>
    match constructAt m i ty v with
    | .error e => .error e
    | .ok m1 => .ok (bumpCc m1)

/-- `T(T&&)`; for a copy-only type the copy constructor is selected.  A user-provided move constructor resets its
    source; a defaulted (trivial) one copies the bytes and leaves the source as it is. -/
def moveC (k : Kind) (m : Mem) (i ty : Nat) (s : Src) : Except LErr Mem :=
  if k.mem = .co then copyC m i ty s
  else
    match srcVal m ty s with
    | .error e => .error e
    | .ok v =>
      match constructAt m i ty v with
      | .error e => .error e
      | .ok m1 => .ok (bumpMc (if k.tr.mc then srcMoved m1 ty s else m1))

/-- `T::operator=(T const&)` (self-assignment is legal and changes nothing) -/
def copyA (m : Mem) (i ty : Nat) (s : Src) : Except LErr Mem :=
  match srcVal m ty s with
  | .error e => .error e
  | .ok v =>
    match assignAt m i ty v with
    | .error e => .error e
    | .ok m1 => .ok (bumpCa m1)

/-- `T::operator=(T&&)`; for a copy-only type the copy assignment is selected.  Moving an object
    that holds its value onto itself with a user-provided move assignment (which resets its source) is the
    illegal transition `selfMove`; a defaulted (trivial) move assignment copies the bytes, leaves the source
    as it is, and `x = move(x)` changes nothing. -/
def moveA (k : Kind) (m : Mem) (i ty : Nat) (s : Src) : Except LErr Mem :=
  if k.mem = .co then copyA m i ty s
  else
    match srcVal m ty s with
    | .error e => .error e
    | .ok v =>
      if s = .slot i then
        (match v with
         | some _ => if k.tr.ma then .error (.selfMove i) else .ok (bumpMa m)
         | none => .ok (bumpMa m))
      else
        match assignAt m i ty v with
        | .error e => .error e
        | .ok m1 => .ok (bumpMa (if k.tr.ma then srcMoved m1 ty s else m1))

/-- `~T()` -/
def destroyAt (m : Mem) (i ty : Nat) : Except LErr Mem :=
  match m.get i with
  | .error e => .error e
  | .ok .dead => .error (.doubleDestroy i)
  | .ok (.live t _) => if t = ty then .ok (bumpD (m.set i .dead)) else .error (.typeMismatch i)

/-- a member function other than a special member runs on slot `i` and reads its value
    (comparison, predicate, call operator) -/
def useAt (m : Mem) (i ty : Nat) : Except LErr Nat :=
  match m.get i with
  | .error e => .error e
  | .ok .dead => .error (.useDead i)
  | .ok (.live t v) =>
    if t = ty then (match v with | some x => .ok x | none => .error (.unspecified i))
    else .error (.typeMismatch i)

/-- how a new element gets its value -/
inductive How where
  | copy (s : Src)
  | move (s : Src)
  | value (v : Nat)
  deriving Repr, DecidableEq, Inhabited

def emplaceAt (k : Kind) (m : Mem) (i ty : Nat) : How → Except LErr Mem
  | .copy s => copyC m i ty s
  | .move s => moveC k m i ty s
  | .value v => valueC m i ty v

/-! ### loops shared by the containers -/

/-- `for (; first != last; ++first) first->~T();` — `cnt` objects from slot `i` upwards -/
def destroyRange (m : Mem) : Nat → Nat → Except LErr Mem
  | 0, _ => .ok m
  | cnt + 1, i =>
    match destroyAt m i 0 with
    | .error e => .error e
    | .ok m1 => destroyRange m1 cnt (i + 1)

/-- `uninitialized_copy` / `uninitialized_move` / the `emplace_back(*first)` loop of the
    static_vector constructors: `cnt` constructions `dst+t ← src+t`, ascending -/
def constructRange (k : Kind) (mv : Bool) (m : Mem) : Nat → Nat → Nat → Except LErr Mem
  | 0, _, _ => .ok m
  | cnt + 1, dst, src =>
    match (if mv then moveC k m dst 0 (.slot src) else copyC m dst 0 (.slot src)) with
    | .error e => .error e
    | .ok m1 => constructRange k mv m1 cnt (dst + 1) (src + 1)

/-- `etl::move(first, last, dest)`: `cnt` move assignments `dst+t ← src+t`, ascending -/
def moveDown (k : Kind) (m : Mem) : Nat → Nat → Nat → Except LErr Mem
  | 0, _, _ => .ok m
  | cnt + 1, src, dst =>
    match moveA k m dst 0 (.slot src) with
    | .error e => .error e
    | .ok m1 => moveDown k m1 cnt (src + 1) (dst + 1)

/-- `etl::swap(a, b)`: `T temp(move(a)); a = move(b); b = move(temp);` and `~temp` -/
def swapEv (k : Kind) (m : Mem) (i j tmp : Nat) : Except LErr Mem :=
  match moveC k m tmp 0 (.slot i) with
  | .error e => .error e
  | .ok m1 =>
    match moveA k m1 i 0 (.slot j) with
    | .error e => .error e
    | .ok m2 =>
      match moveA k m2 j 0 (.slot tmp) with
      | .error e => .error e
      | .ok m3 => destroyAt m3 tmp 0

/-! ### rotate: the forward swap cycle of `_algorithm/rotate.hpp`.
The control flow of `rotate` does not depend on the elements, so it is modelled in two steps:
`rotSched` computes the sequence of `iter_swap(write, read)` pairs the loops perform,
`applySwaps` performs them (four events each) in that order. -/

/-- `while (read != last) { if (write == nextRead) nextRead = read; iter_swap(write++, read++); }`:
    the swaps, and the final `write` and `nextRead` -/
def rotLoop (write read nextRead last : Nat) : List (Nat × Nat) × Nat × Nat :=
  if _h : read < last then
    let r := rotLoop (write + 1) (read + 1) (if write = nextRead then read else nextRead) last
    ((write, read) :: r.1, r.2.1, r.2.2)
  else ([], write, nextRead)
termination_by last - read
decreasing_by omega

/-- `etl::rotate(first, nFirst, last)`; the first argument bounds the recursion depth
    (`.error .fuel` when exhausted — proved never to happen for `fuel > last - first`). -/
def rotSched : Nat → Nat → Nat → Nat → Except LErr (List (Nat × Nat))
  | 0, _, _, _ => .error .fuel
  | fuel + 1, first, nFirst, last =>
    if first = nFirst then .ok []
    else if nFirst = last then .ok []
    else
      let r := rotLoop first nFirst first last
      match rotSched fuel r.2.1 r.2.2 last with
      | .error e => .error e
      | .ok rest => .ok (r.1 ++ rest)

def applySwaps (k : Kind) (base tmp : Nat) (m : Mem) : List (Nat × Nat) → Except LErr Mem
  | [] => .ok m
  | (a, b) :: rest =>
    match swapEv k m (base + a) (base + b) tmp with
    | .error e => .error e
    | .ok m1 => applySwaps k base tmp m1 rest

/-- `rotate(begin()+first, begin()+nFirst, begin()+last)` on the vector whose storage starts at `base` -/
def rotateEv (k : Kind) (base tmp : Nat) (m : Mem) (first nFirst last : Nat) : Except LErr Mem :=
  match rotSched (last - first + 1) first nFirst last with
  | .error e => .error e
  | .ok sw => applySwaps k base tmp m sw

/-! ### static_vector (non-trivial storage).  A vector is `(base, n)`: storage slots
`[base, base+cap)`, `n = size()`.  `tmp` is the slot of the local `temp` of `etl::swap`. -/

/-- `emplace_back(args...)`: `TETL_PRECONDITION(!full()); new (end()) T(args...); ++size` -/
def svEmplaceBack (k : Kind) (cap base : Nat) (m : Mem) (n : Nat) (h : How) : Except LErr (Mem × Nat) :=
  if n ≥ cap then .error (.pre "static_vector::emplace_back: !full()")
  else
    match emplaceAt k m (base + n) 0 h with
    | .error e => .error e
    | .ok m1 => .ok (m1, n + 1)

/-- `pop_back()`: `TETL_PRECONDITION(!empty()); (end()-1)->~T(); --size` -/
def svPopBack (base : Nat) (m : Mem) (n : Nat) : Except LErr (Mem × Nat) :=
  if n = 0 then .error (.pre "static_vector::pop_back: !empty()")
  else
    match destroyAt m (base + n - 1) 0 with
    | .error e => .error e
    | .ok m1 => .ok (m1, n - 1)

/-- `cnt` times `emplace_back(h)` -/
def svPushN (k : Kind) (cap base : Nat) (h : How) : Nat → Mem → Nat → Except LErr (Mem × Nat)
  | 0, m, n => .ok (m, n)
  | cnt + 1, m, n =>
    match svEmplaceBack k cap base m n h with
    | .error e => .error e
    | .ok (m1, n1) => svPushN k cap base h cnt m1 n1

/-- `emplace_back(*first)` for every element of a caller-owned range (`copy`) -/
def svPushList (k : Kind) (cap base : Nat) : List Nat → Mem → Nat → Except LErr (Mem × Nat)
  | [], m, n => .ok (m, n)
  | x :: xs, m, n =>
    match svEmplaceBack k cap base m n (.copy (.ext x)) with
    | .error e => .error e
    | .ok (m1, n1) => svPushList k cap base xs m1 n1

/-- `emplace_back(x)` (construction from a value) for every value of a list: how a caller fills a local container -/
def svPushValues (k : Kind) (cap base : Nat) : List Nat → Mem → Nat → Except LErr (Mem × Nat)
  | [], m, n => .ok (m, n)
  | x :: xs, m, n =>
    match svEmplaceBack k cap base m n (.value x) with
    | .error e => .error e
    | .ok (m1, n1) => svPushValues k cap base xs m1 n1

/-- `insert(position, n, x)`: preconditions, `b = end()`, `n` × `push_back(x)`, `rotate(position, b, end())` -/
def svInsertN (k : Kind) (cap base tmp : Nat) (m : Mem) (n pos cnt x : Nat) : Except LErr (Mem × Nat) :=
  if pos > n then .error (.pre "static_vector::insert: position in range")
  else if n + cnt > cap then .error (.pre "static_vector::insert: size() + n <= capacity()")
  else
    match svPushN k cap base (.copy (.ext x)) cnt m n with
    | .error e => .error e
    | .ok (m1, n1) =>
      match rotateEv k base tmp m1 pos n n1 with
      | .error e => .error e
      | .ok m2 => .ok (m2, n1)

/-- `insert(position, first, last)` from a caller-owned range -/
def svInsertList (k : Kind) (cap base tmp : Nat) (m : Mem) (n pos : Nat) (xs : List Nat) : Except LErr (Mem × Nat) :=
  if pos > n then .error (.pre "static_vector::insert: position in range")
  else if n + xs.length > cap then .error (.pre "static_vector::insert: size() + n <= capacity()")
  else
    match svPushList k cap base xs m n with
    | .error e => .error e
    | .ok (m1, n1) =>
      match rotateEv k base tmp m1 pos n n1 with
      | .error e => .error e
      | .ok m2 => .ok (m2, n1)

/-- `move_insert(position, &x, &x + 1)`: `emplace_back(move(x))`, `rotate(position, b, end())`;
    this is `insert(position, T&&)` (`s = .ext v`) and the tail of `emplace(position, args...)` -/
def svMoveInsert1 (k : Kind) (cap base tmp : Nat) (m : Mem) (n pos : Nat) (s : Src) : Except LErr (Mem × Nat) :=
  if n ≥ cap then .error (.pre "static_vector::insert: !full()")
  else if pos > n then .error (.pre "static_vector::insert: position in range")
  else
    match svEmplaceBack k cap base m n (.move s) with
    | .error e => .error e
    | .ok (m1, n1) =>
      match rotateEv k base tmp m1 pos n n1 with
      | .error e => .error e
      | .ok m2 => .ok (m2, n1)

/-- `emplace(position, args...)`: `value_type a(args...); move_insert(position, &a, &a + 1);` then `~a`
    (`loc` = the slot of the local `a`) -/
def svEmplace (k : Kind) (cap base tmp loc : Nat) (m : Mem) (n pos : Nat) (h : How) : Except LErr (Mem × Nat) :=
  if n ≥ cap then .error (.pre "static_vector::emplace: !full()")
  else if pos > n then .error (.pre "static_vector::emplace: position in range")
  else
    match emplaceAt k m loc 0 h with
    | .error e => .error e
    | .ok m1 =>
      match svMoveInsert1 k cap base tmp m1 n pos (.slot loc) with
      | .error e => .error e
      | .ok (m2, n2) =>
        match destroyAt m2 loc 0 with
        | .error e => .error e
        | .ok m3 => .ok (m3, n2)

/-- `erase(first, last)`: range check; if `first != last`: `etl::move(last, end(), first)`,
    `unsafe_destroy(newEnd, end())`, shrink -/
def svErase (k : Kind) (base : Nat) (m : Mem) (n first last : Nat) : Except LErr (Mem × Nat) :=
  if first > n || last > n || first > last then .error (.pre "static_vector::erase: iterator pair in range")
  else if first = last then .ok (m, n)
  else
    match moveDown k m (n - last) (base + last) (base + first) with
    | .error e => .error e
    | .ok m1 =>
      match destroyRange m1 (last - first) (base + (n - (last - first))) with
      | .error e => .error e
      | .ok m2 => .ok (m2, n - (last - first))

/-- `erase(position)` = `erase(position, position + 1)` -/
def svEraseAt (k : Kind) (base : Nat) (m : Mem) (n pos : Nat) : Except LErr (Mem × Nat) :=
  if pos ≥ n then .error (.pre "static_vector::erase: position dereferenceable")
  else svErase k base m n pos (pos + 1)

/-- `clear()`: `unsafe_destroy_all(); size = 0` -/
def svClear (base : Nat) (m : Mem) (n : Nat) : Except LErr (Mem × Nat) :=
  match destroyRange m n base with
  | .error e => .error e
  | .ok m1 => .ok (m1, 0)

/-- `emplace_n(sz)`: `while (sz != size()) emplace_back(T{});` — a temporary `T{}` (slot `loc`) per iteration -/
def svEmplaceN (k : Kind) (cap base loc : Nat) : Nat → Mem → Nat → Except LErr (Mem × Nat)
  | 0, m, n => .ok (m, n)
  | cnt + 1, m, n =>
    match valueC m loc 0 0 with
    | .error e => .error e
    | .ok m1 =>
      match svEmplaceBack k cap base m1 n (.move (.slot loc)) with
      | .error e => .error e
      | .ok (m2, n2) =>
        match destroyAt m2 loc 0 with
        | .error e => .error e
        | .ok m3 => svEmplaceN k cap base loc cnt m3 n2

/-- `resize(sz)` -/
def svResize (k : Kind) (cap base loc : Nat) (m : Mem) (n sz : Nat) : Except LErr (Mem × Nat) :=
  if sz = n then .ok (m, n)
  else if sz > n then
    (if sz > cap then .error (.pre "static_vector::resize: n <= capacity()") else svEmplaceN k cap base loc (sz - n) m n)
  else svErase k base m n sz n

/-- `resize(sz, value)` -/
def svResizeV (k : Kind) (cap base tmp : Nat) (m : Mem) (n sz x : Nat) : Except LErr (Mem × Nat) :=
  if sz = n then .ok (m, n)
  else if sz > n then
    (if sz > cap then .error (.pre "static_vector::resize: sz <= capacity()") else svInsertN k cap base tmp m n n (sz - n) x)
  else svErase k base m n sz n

/-- `assign(n, u)`: `clear(); insert(begin(), n, u)` -/
def svAssignN (k : Kind) (cap base tmp : Nat) (m : Mem) (n cnt x : Nat) : Except LErr (Mem × Nat) :=
  if cnt > cap then .error (.pre "static_vector::assign: n <= capacity()")
  else
    match svClear base m n with
    | .error e => .error e
    | .ok (m1, n1) => svInsertN k cap base tmp m1 n1 0 cnt x

/-- `assign(first, last)`: `clear(); insert(begin(), first, last)` -/
def svAssignList (k : Kind) (cap base tmp : Nat) (m : Mem) (n : Nat) (xs : List Nat) : Except LErr (Mem × Nat) :=
  if xs.length > cap then .error (.pre "static_vector::assign: distance <= capacity()")
  else
    match svClear base m n with
    | .error e => .error e
    | .ok (m1, n1) => svInsertList k cap base tmp m1 n1 0 xs

/-- `t.~static_vector(); new (&t) static_vector(sz)`: the destructor (`unsafe_destroy_all`), then the sized
    constructor `TETL_PRECONDITION(n <= capacity()); emplace_n(n)` on the empty storage -/
def svCtorN (k : Kind) (cap base loc : Nat) (m : Mem) (n sz : Nat) : Except LErr (Mem × Nat) :=
  match svClear base m n with
  | .error e => .error e
  | .ok (m1, n1) =>
    if sz > cap then .error (.pre "static_vector(n): n <= capacity()") else svEmplaceN k cap base loc sz m1 n1

/-- `t.~static_vector(); new (&t) static_vector(cnt, value)`: destructor, then
    `TETL_PRECONDITION(n <= capacity()); insert(begin(), n, value)` -/
def svCtorNV (k : Kind) (cap base tmp : Nat) (m : Mem) (n cnt x : Nat) : Except LErr (Mem × Nat) :=
  match svClear base m n with
  | .error e => .error e
  | .ok (m1, n1) =>
    if cnt > cap then .error (.pre "static_vector(n, value): n <= capacity()") else svInsertN k cap base tmp m1 n1 0 cnt x

/-- `t.~static_vector(); new (&t) static_vector(first, last)` from a caller-owned random-access range: destructor, then
    `TETL_PRECONDITION(last - first <= capacity()); insert(begin(), first, last)` -/
def svCtorList (k : Kind) (cap base tmp : Nat) (m : Mem) (n : Nat) (xs : List Nat) : Except LErr (Mem × Nat) :=
  match svClear base m n with
  | .error e => .error e
  | .ok (m1, n1) =>
    if xs.length > cap then .error (.pre "static_vector(first, last): distance <= capacity()")
    else svInsertList k cap base tmp m1 n1 0 xs

/-- the copy / move constructor: `insert(begin(), other.begin(), other.end())` resp. `move_insert(...)`
    into an empty vector at `dst` (the trailing `rotate(begin(), begin(), end())` returns at once).
    The source keeps its size; after a move its elements are moved-from. -/
def svConstructFrom (k : Kind) (mv : Bool) (m : Mem) (dst src ns : Nat) : Except LErr (Mem × Nat) :=
  match constructRange k mv m ns dst src with
  | .error e => .error e
  | .ok m1 => .ok (m1, ns)

/-- copy assignment `t = s` of two different vectors: `clear(); insert(begin(), other.begin(), other.end())`;
    move assignment: `clear(); move_insert(...)` -/
def svAssignFrom (k : Kind) (mv : Bool) (m : Mem) (dst nd src ns : Nat) : Except LErr (Mem × Nat) :=
  match svClear dst m nd with
  | .error e => .error e
  | .ok (m1, _) => svConstructFrom k mv m1 dst src ns

/-- `a.swap(b)` for two different vectors: `static_vector tmp = move(other); other = move(*this);
    *this = move(tmp);` and `~tmp` (`tv` = storage of the local vector `tmp`).  Returns the new sizes of a, b. -/
def svSwap (k : Kind) (m : Mem) (a na b nb tv : Nat) : Except LErr (Mem × Nat × Nat) :=
  match svConstructFrom k true m tv b nb with
  | .error e => .error e
  | .ok (m1, nt) =>
    match svAssignFrom k true m1 b nb a na with
    | .error e => .error e
    | .ok (m2, nb') =>
      match svAssignFrom k true m2 a na tv nt with
      | .error e => .error e
      | .ok (m3, na') =>
        match destroyRange m3 nt tv with
        | .error e => .error e
        | .ok m4 => .ok (m4, na', nb')

/-- `a.swap(a)`: `tmp = move(a)`; `a = move(a)` is `clear()` followed by a `move_insert` of the now
    empty range; `a = move(tmp)`; `~tmp` -/
def svSwapSelf (k : Kind) (m : Mem) (a na tv : Nat) : Except LErr (Mem × Nat) :=
  match svConstructFrom k true m tv a na with
  | .error e => .error e
  | .ok (m1, nt) =>
    match svClear a m1 na with
    | .error e => .error e
    | .ok (m2, n2) =>
      match svAssignFrom k true m2 a n2 tv nt with
      | .error e => .error e
      | .ok (m3, na') =>
        match destroyRange m3 nt tv with
        | .error e => .error e
        | .ok m4 => .ok (m4, na')

/-- `find_if(first, last, pred)` from offset `i` with `cnt` elements left (reads through `useAt`) -/
def findIf (base : Nat) (p : Nat → Bool) (m : Mem) : Nat → Nat → Except LErr Nat
  | 0, i => .ok i
  | cnt + 1, i =>
    match useAt m (base + i) 0 with
    | .error e => .error e
    | .ok x => if p x then .ok i else findIf base p m cnt (i + 1)

/-- `for (auto i = first; ++i != last;) if (!pred(*i)) *first++ = move(*i);` -/
def removeLoop (k : Kind) (base : Nat) (p : Nat → Bool) : Nat → Mem → Nat → Nat → Except LErr (Mem × Nat)
  | 0, m, first, _ => .ok (m, first)
  | cnt + 1, m, first, i =>
    match useAt m (base + i) 0 with
    | .error e => .error e
    | .ok x =>
      if !p x then
        match moveA k m (base + first) 0 (.slot (base + i)) with
        | .error e => .error e
        | .ok m1 => removeLoop k base p cnt m1 (first + 1) (i + 1)
      else removeLoop k base p cnt m first (i + 1)

/-- `etl::remove_if(begin(), end(), pred)` -/
def removeIf (k : Kind) (base : Nat) (p : Nat → Bool) (m : Mem) (n : Nat) : Except LErr (Mem × Nat) :=
  match findIf base p m n 0 with
  | .error e => .error e
  | .ok first =>
    if first ≠ n then removeLoop k base p (n - first - 1) m first (first + 1)
    else .ok (m, first)

/-- `erase_if(c, pred)`: `it = remove_if(...)`; `c.erase(it, c.end())` -/
def svEraseIf (k : Kind) (base : Nat) (p : Nat → Bool) (m : Mem) (n : Nat) : Except LErr (Mem × Nat) :=
  match removeIf k base p m n with
  | .error e => .error e
  | .ok (m1, it) => svErase k base m1 n it n

/-! ### inplace_vector -/

/-- `unchecked_emplace_back` / `unchecked_push_back`: precondition, `construct_at(end(), ...)`, `++size` -/
def ivPush (k : Kind) (cap base : Nat) (m : Mem) (n : Nat) (h : How) : Except LErr (Mem × Nat) :=
  if n ≥ cap then .error (.pre "inplace_vector::unchecked_push_back: size() != max_size()")
  else
    match emplaceAt k m (base + n) 0 h with
    | .error e => .error e
    | .ok m1 => .ok (m1, n + 1)

/-- `try_emplace_back` / `try_push_back`: nothing happens when full -/
def ivTryPush (k : Kind) (cap base : Nat) (m : Mem) (n : Nat) (h : How) : Except LErr (Mem × Nat) :=
  if n = cap then .ok (m, n) else ivPush k cap base m n h

def ivPopBack (base : Nat) (m : Mem) (n : Nat) : Except LErr (Mem × Nat) :=
  if n = 0 then .error (.pre "inplace_vector::pop_back: not empty()")
  else
    match destroyAt m (base + n - 1) 0 with
    | .error e => .error e
    | .ok m1 => .ok (m1, n - 1)

/-- `clear()` and the destructor: `ranges::destroy(*this)` -/
def ivClear (base : Nat) (m : Mem) (n : Nat) : Except LErr (Mem × Nat) := svClear base m n

/-- copy constructor: `uninitialized_copy(other.begin(), other.end(), begin()); _size = other._size`.
    `requires is_trivially_copy_constructible_v<T>`: the defaulted member copies storage and size as bytes, which is
    the same `ns` trivial copy constructions (the bytes beyond `size()` are raw storage on both sides); likewise
    `~inplace_vector() requires is_trivially_destructible_v<T> = default` and `ranges::destroy(*this)` both end the
    lives of `[0, size())`.  (static_vector selects its storage on `is_trivial_v<T>`; an element type with a user-provided
    default constructor — every kind here — has the non-trivial storage that is modelled.) -/
def ivCopyConstruct (k : Kind) (m : Mem) (dst src ns : Nat) : Except LErr (Mem × Nat) :=
  svConstructFrom k false m dst src ns

/-- move constructor (after the fix): `uninitialized_move(other.begin(), other.end(), begin());
    _size = other._size; other.clear()` — the moved-from elements of the source are destroyed and the
    source is left empty.  `requires is_trivially_move_constructible_v<T>`: the defaulted member instead — storage and
    size are copied as bytes (the same `ns` trivial move constructions), and the source *keeps* its size and its
    (trivially destructible) elements.  Returns the size of the new vector and of the source. -/
def ivMoveConstruct (k : Kind) (m : Mem) (dst src ns : Nat) : Except LErr (Mem × Nat × Nat) :=
  match constructRange k true m ns dst src with
  | .error e => .error e
  | .ok m1 =>
    if k.trivMC then .ok (m1, ns, ns)
    else
      match destroyRange m1 ns src with
      | .error e => .error e
      | .ok m2 => .ok (m2, ns, 0)

/-! ### variant<T0, ..., Tn-1>.  A variant is `(s, ix)`: one storage slot `s` (the union) and the
index of the live alternative.  `trk j` says whether alternative `j` is an instrumented type
(`optional<T>` is `variant<nullopt_t, T>`: alternative 0 is trivial and has no observable events). -/

/-- `destroy()`: `visit(destroy_at)` on the live alternative -/
def vDestroy (trk : Nat → Bool) (m : Mem) (s ix : Nat) : Except LErr Mem :=
  if trk ix then destroyAt m s ix else .ok m

/-- `replace(index, args...)`: `construct_at(&_union, index, args...)` -/
def vConstruct (k : Kind) (trk : Nat → Bool) (m : Mem) (s ty : Nat) (h : How) : Except LErr Mem :=
  if trk ty then emplaceAt k m s ty h else .ok m

/-- `emplace<J>(args...)`: `destroy(); replace(J, args...)` -/
def varEmplace (k : Kind) (trk : Nat → Bool) (m : Mem) (s ix j : Nat) (h : How) : Except LErr (Mem × Nat) :=
  match vDestroy trk m s ix with
  | .error e => .error e
  | .ok m1 =>
    match vConstruct k trk m1 s j h with
    | .error e => .error e
    | .ok m2 => .ok (m2, j)

/-- `operator=(T&& t)` where overload resolution selects alternative `j` (the converting assignment,
    as it is after e7501ef): `if (index() == j) (*this)[index_v<j>] = forward<T>(t); else emplace<j>(forward<T>(t));`
    — the held alternative is assigned through (copy assignment for an lvalue / a copy-only type, move
    assignment for an rvalue), any other one is destroyed and the selected one constructed.
    The operand `src` may be the variant's own alternative (`v = v[index_v<j>]`, then `index() == j`). -/
def varAssignValue (k : Kind) (trk : Nat → Bool) (mv : Bool) (m : Mem) (s ix j : Nat) (src : Src) : Except LErr (Mem × Nat) :=
  if ix = j then
    (if trk j then
      match (if mv then moveA k m s j src else copyA m s j src) with
      | .error e => .error e
      | .ok m1 => .ok (m1, j)
     else .ok (m, j))
  else varEmplace k trk m s ix j (if mv then .move src else .copy src)

/-- copy / move constructor: `_union(uninitialized_union())`, then `replace(other.index, move(other.value))`.
    `requires … and not (... and is_trivially_copy_constructible_v<Ts>)` (resp. move): when every alternative is trivially
    copy (move) constructible the defaulted constructor copies index and bytes — which is the one trivial copy (move)
    construction of the live alternative that `copyC` / `moveC` perform for such an element type (no reset of the source,
    nothing observable), so both paths are this definition.  Likewise `~variant() requires (... and
    is_trivially_destructible_v<Ts>) = default` and `destroy()` both end the life of the live alternative (`vDestroy`). -/
def varConstructFrom (k : Kind) (trk : Nat → Bool) (mv : Bool) (m : Mem) (dst src ixs : Nat) : Except LErr (Mem × Nat) :=
  match vConstruct k trk m dst ixs (if mv then .move (.slot src) else .copy (.slot src)) with
  | .error e => .error e
  | .ok m1 => .ok (m1, ixs)

/-- the *defaulted* `operator=(variant const&)` / `operator=(variant&&)`: `_index = other._index; _union = other._union`,
    a copy of the object representation — no special member of any alternative runs.  The alternative held before
    ends its life without a destructor call (`notDestroyed` unless its destructor is trivial) and the new one begins
    its life without a constructor call (`notConstructed` unless the copy / move constructor the assignment stands for
    is trivial); when both are trivial this is what `destroy(); replace(...)` does with trivial members.  Copying an
    object onto itself changes nothing. -/
def varAssignBytes (k : Kind) (trk : Nat → Bool) (mv : Bool) (m : Mem) (dst ixd src ixs : Nat) : Except LErr (Mem × Nat) :=
  if dst = src then .ok (m, ixd)
  else if trk ixd && !k.trivD then .error (.notDestroyed dst)
  else if trk ixs && !(if mv then k.trivMC else k.trivCC) then .error (.notConstructed dst)
  else
    match vDestroy trk m dst ixd with
    | .error e => .error e
    | .ok m1 => varConstructFrom k trk mv m1 dst src ixs

/-- `variant = variant`.  `requires (... and variant_copy_assignable<Ts>) and not (... and variant_trivially_copy_assignable<Ts>)`
    (resp. the move forms): when every alternative is trivially copy (move) constructible and assignable the user-provided
    member is constrained away and the defaulted, byte-wise one is selected (`varAssignBytes`; alternatives that are not
    instrumented — `nullopt_t` — are trivial in every respect, so the bits of the instrumented element type decide).
    Otherwise `assign(other)`: same index → assign through; else `destroy(); replace(rhs.index, move(rhs.value()))`.
    `src` may be `dst` (self-assignment). -/
def varAssignFrom (k : Kind) (trk : Nat → Bool) (mv : Bool) (m : Mem) (dst ixd src ixs : Nat) : Except LErr (Mem × Nat) :=
  if (if mv then k.trivMA else k.trivCA) then varAssignBytes k trk mv m dst ixd src ixs
  else if ixd = ixs then
    (if trk ixd then
      match (if mv then moveA k m dst ixd (.slot src) else copyA m dst ixd (.slot src)) with
      | .error e => .error e
      | .ok m1 => .ok (m1, ixd)
     else .ok (m, ixd))
  else
    match vDestroy trk m dst ixd with
    | .error e => .error e
    | .ok m1 => varConstructFrom k trk mv m1 dst src ixs

/-- `etl::swap(a, b)` on two variants (the generic one): `T temp(move(a)); a = move(b); b = move(temp);`, `~temp`.
    `tv` = slot of the local `temp`.  `b` may be `a` (self-swap).  Returns the new indices of a and b. -/
def varSwap (k : Kind) (trk : Nat → Bool) (m : Mem) (a ixa b ixb tv : Nat) : Except LErr (Mem × Nat × Nat) :=
  match varConstructFrom k trk true m tv a ixa with
  | .error e => .error e
  | .ok (m1, ixt) =>
    match varAssignFrom k trk true m1 a ixa b ixb with
    | .error e => .error e
    | .ok (m2, ixa') =>
      match varAssignFrom k trk true m2 b (if b = a then ixa' else ixb) tv ixt with
      | .error e => .error e
      | .ok (m3, ixb') =>
        match vDestroy trk m3 tv ixt with
        | .error e => .error e
        | .ok m4 => .ok (m4, if b = a then ixb' else ixa', ixb')

/-- `optional<T> = t` / `optional<T> = move(t)` with `t` of type `T`: since the constraint of `operator=(U&&)` reads
    as in [optional.assign] (`not (is_scalar_v<T> and is_same_v<T, decay_t<U>>)`, fix 87be246 of branch fix-c07r) the
    member template is selected for a class type `T`: `if (has_value()) **this = forward<U>(v); else emplace(forward<U>(v));`
    — the variant's converting assignment with alternative 1 selected; no temporary optional any more (`tv` unused) -/
def optAssignValue (k : Kind) (trk : Nat → Bool) (m : Mem) (s ix _tv : Nat) (h : How) : Except LErr (Mem × Nat) :=
  match h with
  | .copy src => varAssignValue k trk false m s ix 1 src
  | .move src => varAssignValue k trk true m s ix 1 src
  | .value v => varEmplace k trk m s ix 1 (.value v)

/-- `visit` / `operator*` / `get`: a member function of the live alternative runs -/
def varUse (trk : Nat → Bool) (m : Mem) (s ix : Nat) : Except LErr (Option Nat) :=
  if trk ix then
    match useAt m s ix with
    | .error e => .error e
    | .ok x => .ok (some x)
  else .ok none

/-! ### inplace_function.  A function object is `(s, c)`: one storage slot and the vtable code
`c` (`0` = `empty_vtable`, `j + 1` = the vtable of callable type `j`). -/

/-- `_vtable->destructor_ptr(&_storage)` -/
def fnDestroyCur (m : Mem) (s c : Nat) : Except LErr Mem :=
  if c = 0 then .ok m else destroyAt m s (c - 1)

/-- `relocate_ptr(dst, src)`: `new (dst) C{move(*src)}; src->~C();` (nothing for the empty vtable) -/
def fnRelocate (k : Kind) (m : Mem) (dst src c : Nat) : Except LErr Mem :=
  if c = 0 then .ok m
  else
    match moveC k m dst (c - 1) (.slot src) with
    | .error e => .error e
    | .ok m1 => destroyAt m1 src (c - 1)

/-- `copy_ptr(dst, src)`: `new (dst) C{*src}` -/
def fnCopy (m : Mem) (dst src c : Nat) : Except LErr Mem :=
  if c = 0 then .ok m else copyC m dst (c - 1) (.slot src)

/-- `inplace_function(T&& closure)`: `new (&_storage) C{forward<T>(closure)}` -/
def fnFromCallable (k : Kind) (m : Mem) (s j : Nat) (h : How) : Except LErr (Mem × Nat) :=
  match emplaceAt k m s j h with
  | .error e => .error e
  | .ok m1 => .ok (m1, j + 1)

/-- copy constructor: `_vtable{other._vtable}; copy_ptr(&_storage, &other._storage)` -/
def fnCopyConstruct (m : Mem) (dst src cs : Nat) : Except LErr (Mem × Nat) :=
  match fnCopy m dst src cs with
  | .error e => .error e
  | .ok m1 => .ok (m1, cs)

/-- move constructor: `_vtable{exchange(other._vtable, empty)}; relocate_ptr(&_storage, &other._storage)`.
    Returns the codes of the new object and of the source. -/
def fnMoveConstruct (k : Kind) (m : Mem) (dst src cs : Nat) : Except LErr (Mem × Nat × Nat) :=
  match fnRelocate k m dst src cs with
  | .error e => .error e
  | .ok m1 => .ok (m1, cs, 0)

/-- `operator=(inplace_function other)` with the by-value parameter already built in slot `p` with code `cp`:
    `destructor_ptr(&_storage); _vtable = exchange(other._vtable, empty); relocate_ptr(&_storage, &other._storage);`
    (the destructor of the emptied parameter does nothing) -/
def fnAssignParam (k : Kind) (m : Mem) (s c p cp : Nat) : Except LErr (Mem × Nat) :=
  match fnDestroyCur m s c with
  | .error e => .error e
  | .ok m1 =>
    match fnRelocate k m1 s p cp with
    | .error e => .error e
    | .ok m2 => .ok (m2, cp)

/-- `dst = src` (copy) / `dst = move(src)`; `src` may be `dst`.  Returns the codes of dst and src. -/
def fnAssignFrom (k : Kind) (mv : Bool) (m : Mem) (dst cd src cs p : Nat) : Except LErr (Mem × Nat × Nat) :=
  if mv then
    match fnMoveConstruct k m p src cs with
    | .error e => .error e
    | .ok (m1, cp, cs') =>
      match fnAssignParam k m1 dst (if dst = src then cs' else cd) p cp with
      | .error e => .error e
      | .ok (m2, cd') => .ok (m2, cd', if dst = src then cd' else cs')
  else
    match fnCopyConstruct m p src cs with
    | .error e => .error e
    | .ok (m1, cp) =>
      match fnAssignParam k m1 dst cd p cp with
      | .error e => .error e
      | .ok (m2, cd') => .ok (m2, cd', if dst = src then cd' else cs)

/-- `f = callable`: the parameter is built from the callable, then `operator=` as above -/
def fnAssignCallable (k : Kind) (m : Mem) (s c p j : Nat) (h : How) : Except LErr (Mem × Nat) :=
  match fnFromCallable k m p j h with
  | .error e => .error e
  | .ok (m1, cp) => fnAssignParam k m1 s c p cp

/-- construction / assignment of the function at `s` from a function object of ANOTHER capacity, a local
    `inplace_function<R(), Small> src(callable)` living in slot `sm` (built first, destroyed last):
    the converting constructors `inplace_function(inplace_function<R(Args...), Cap, Align> const&)` — private
    constructor with `process = copy_ptr` — and `(… &&)` — `process = relocate_ptr`, then
    `other._vtable = &empty_vtable` — perform the events of the same-capacity copy / move constructor.
    `asg = false`: `t.~F(); new (&t) F(src)` resp. `F(move(src))`;
    `asg = true`: `t = src` resp. `t = move(src)`: the by-value parameter of `operator=` (slot `p`) is built by the
    converting constructor, then `operator=` as above.  Finally `~src`. -/
def fnFromOtherCap (k : Kind) (asg mv : Bool) (m : Mem) (s c p sm j : Nat) (h : How) : Except LErr (Mem × Nat) :=
  match fnFromCallable k m sm j h with
  | .error e => .error e
  | .ok (m1, csm) =>
    let built : Except LErr (Mem × Nat × Nat) :=      -- memory, new code of the target, code left in `src`
      if asg then
        (if mv then
          match fnMoveConstruct k m1 p sm csm with
          | .error e => .error e
          | .ok (m2, cp, csm') =>
            match fnAssignParam k m2 s c p cp with
            | .error e => .error e
            | .ok (m3, c') => .ok (m3, c', csm')
         else
          match fnCopyConstruct m1 p sm csm with
          | .error e => .error e
          | .ok (m2, cp) =>
            match fnAssignParam k m2 s c p cp with
            | .error e => .error e
            | .ok (m3, c') => .ok (m3, c', csm))
      else
        match fnDestroyCur m1 s c with
        | .error e => .error e
        | .ok m2 =>
          if mv then fnMoveConstruct k m2 s sm csm
          else
            match fnCopyConstruct m2 s sm csm with
            | .error e => .error e
            | .ok (m3, c') => .ok (m3, c', csm)
    match built with
    | .error e => .error e
    | .ok (m4, c', csm') =>
      match fnDestroyCur m4 sm csm' with
      | .error e => .error e
      | .ok m5 => .ok (m5, c')

/-- `f = nullptr` and the destructor -/
def fnReset (m : Mem) (s c : Nat) : Except LErr (Mem × Nat) :=
  match fnDestroyCur m s c with
  | .error e => .error e
  | .ok m1 => .ok (m1, 0)

/-- `a.swap(b)`: `if (this == &other) return;` then three relocations through the raw buffer `tmp` and
    an exchange of the vtable pointers -/
def fnSwap (k : Kind) (m : Mem) (a ca b cb tmp : Nat) : Except LErr (Mem × Nat × Nat) :=
  if a = b then .ok (m, ca, cb)
  else
    match fnRelocate k m tmp a ca with
    | .error e => .error e
    | .ok m1 =>
      match fnRelocate k m1 a b cb with
      | .error e => .error e
      | .ok m2 =>
        match fnRelocate k m2 b tmp ca with
        | .error e => .error e
        | .ok m3 => .ok (m3, cb, ca)

/-- `operator()`: the empty vtable raises `bad_function_call` -/
def fnInvoke (m : Mem) (s c : Nat) : Except LErr Nat :=
  if c = 0 then .error (.pre "inplace_function::operator(): not empty") else useAt m s (c - 1)

end Tetl.C03
