/-
C03 — specification: what the standard says an owner holds after each operation, with no storage,
no events and no index arithmetic.  An owner is a list of values (sequence and set containers), an
`(index, value)` pair (variant, optional, expected, and the target of a function wrapper), or
`unspec` — the valid-but-unspecified state of an object that was the source of a move
([lib.types.movedfrom]); such an object may only be destroyed or given a new value.

The lifetime half of the specification is the same for every operation and every owner:
no illegal transition, no temporary alive after the call, exactly the elements of the owner alive
(`e=- t=0 x=0`), and at the end of the session nothing alive and #constructed = #destroyed.
-/
import Tetl.C03.Session
namespace Tetl.C03.Spec
open Tetl.C03

inductive AObj where
  | vec (l : List Nat)
  | alt (ix : Nat) (v : Option Nat)   -- `v = none`: the alternative carries no value (nullopt_t, empty function)
  | unspec
  deriving Repr, DecidableEq, Inhabited

structure ASt where
  a : AObj
  b : AObj
  deriving Repr, DecidableEq, Inhabited

def ASt.get (s : ASt) (t : Bool) : AObj := if t then s.b else s.a
def ASt.put (s : ASt) (t : Bool) (o : AObj) : ASt := if t then { s with b := o } else { s with a := o }

/-- apply a list function to a specified container; an unspecified one stays unspecified -/
def onVec (o : AObj) (f : List Nat → List Nat) : AObj :=
  match o with
  | .vec l => .vec (f l)
  | x => x

def insertAt (l : List Nat) (pos : Nat) (xs : List Nat) : List Nat := l.take pos ++ xs ++ l.drop pos
def eraseRange (l : List Nat) (f la : Nat) : List Nat := l.take f ++ l.drop la
def resizeTo (l : List Nat) (sz v : Nat) : List Nat := l.take sz ++ List.replicate (sz - l.length) v

/-- sorted, duplicate-free insertion that refuses a new key when `cap` elements are held -/
def setInsert (cap : Nat) (l : List Nat) (k : Nat) : List Nat :=
  if l.contains k then l
  else if l.length ≥ cap then l
  else l.filter (· < k) ++ [k] ++ l.filter (· > k)

def vstep (cap : Nat) (s : ASt) (t : Bool) : VOp → ASt
  | .pushc v | .pushm v | .emplaceBack v => s.put t (onVec (s.get t) (· ++ [v]))
  | .tryPushc v | .tryPushm v | .tryEmplaceBack v =>
    s.put t (onVec (s.get t) (fun l => if l.length = cap then l else l ++ [v]))
  | .pop => s.put t (onVec (s.get t) List.dropLast)
  | .insc pos v | .insm pos v | .emplace pos v => s.put t (onVec (s.get t) (insertAt · pos [v]))
  | .insn pos cnt v => s.put t (onVec (s.get t) (insertAt · pos (List.replicate cnt v)))
  | .insr pos xs => s.put t (onVec (s.get t) (insertAt · pos xs))
  | .eraseAt pos => s.put t (onVec (s.get t) (eraseRange · pos (pos + 1)))
  | .eraseRange f l => s.put t (onVec (s.get t) (eraseRange · f l))
  | .clear => s.put t (.vec [])
  | .resize sz => s.put t (onVec (s.get t) (resizeTo · sz 0))
  | .resizev sz v => s.put t (onVec (s.get t) (resizeTo · sz v))
  | .assignn cnt v | .ctorNV cnt v => s.put t (.vec (List.replicate cnt v))
  | .assignr xs | .ctorR xs => s.put t (.vec xs)
  | .ctorN sz => s.put t (.vec (List.replicate sz 0))
  | .eraseIf md r => s.put t (onVec (s.get t) (List.filter (fun x => !(x % md == r))))
  | .cctor | .cassign => s.put t (s.get (!t))
  | .mctor | .massign => (s.put t (s.get (!t))).put (!t) .unspec
  | .cassignSelf | .swapSelf => s
  | .swap => (s.put t (s.get (!t))).put (!t) (s.get t)

def sstep (cap : Nat) (s : ASt) (t : Bool) : SOp → ASt
  | .insc v | .insm v | .emplace v => s.put t (onVec (s.get t) (setInsert cap · v))
  | .eraseKey v => s.put t (onVec (s.get t) (List.filter (· != v)))
  | .eraseAt pos => s.put t (onVec (s.get t) (eraseRange · pos (pos + 1)))
  | .eraseRange f l => s.put t (onVec (s.get t) (eraseRange · f l))
  | .clear | .extract => s.put t (.vec [])
  | .replace xs => s.put t (.vec xs)
  | .cctor | .cassign => s.put t (s.get (!t))
  | .mctor | .massign => (s.put t (s.get (!t))).put (!t) .unspec
  | .cassignSelf | .swapSelf => s
  | .swap => (s.put t (s.get (!t))).put (!t) (s.get t)

/-- variant-like owners; `trk j` = alternative `j` carries a value -/
def xstep (trk : Nat → Bool) (s : ASt) (t : Bool) : XOp → ASt
  | .emplace j v | .emplaceCopy j v | .emplaceMove j v | .assignCopy j v | .assignMove j v => s.put t (.alt j (if trk j then some v else none))
  | .optAssignCopy v | .optAssignMove v => s.put t (.alt 1 (some v))
  | .reset => s.put t (.alt 0 none)
  | .cctor | .cassign => s.put t (s.get (!t))
  | .mctor | .massign => (s.put t (s.get (!t))).put (!t) .unspec
  | .cassignSelf | .swapSelf | .use => s
  | .assignOwn => s    -- [variant.assign]: the held alternative is assigned from itself, nothing changes
  | .swap => (s.put t (s.get (!t))).put (!t) (s.get t)

/-- function wrapper: `alt 0 none` = empty, `alt (j+1) (some v)` = holds a callable of type `j` returning `v` -/
def fstep (s : ASt) (t : Bool) : FOp → ASt
  | .ctorCopy j v | .ctorMove j v | .assignCopy j v | .assignMove j v | .conv _ _ j v => s.put t (.alt (j + 1) (some v))
  | .reset => s.put t (.alt 0 none)
  | .cctor | .cassign => s.put t (s.get (!t))
  | .mctor | .massign => (s.put t (s.get (!t))).put (!t) .unspec
  | .cassignSelf | .massignSelf | .swapSelf | .invoke => s
  | .swap => (s.put t (s.get (!t))).put (!t) (s.get t)

end Tetl.C03.Spec
