/- placeholder: the C03 driver is not built yet -/
def main : IO Unit := IO.println "C03: driver not built yet"
