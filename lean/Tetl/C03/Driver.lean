/- C03 line-protocol driver: prints `model <TAB> spec` for each case line.

   new own=sv|iv|st|ss|fs|var|opt|exp|fn kind=cm|mo|co|da|dm|dc cap=N   two default-constructed owners A (t=0), B (t=1)
                                                                  (da / dm / dc: copy+move element types with defaulted assignment /
                                                                   defaulted move operations / defaulted copy operations)
   <op> t=0|1 args...                                             one member call on the target (the other object is the source)
   detail                                                         model only: slot maps and cumulative event counts (spec column `*`)
   end                                                            both owners go out of scope

   every op line answers   e=<-|error> t=<live locals> x=<misplaced slots> A=<owner> B=<owner>
   owner := [v,..] (container; M = moved-from element) | ix:v (variant-like / function; `-` no value) | u (moved-from owner)
   `end` answers           e=<-|error> live=<objects alive> bal=<1 iff #constructed = #destroyed>
   event counts of `detail`: a category whose special member is defaulted in the element kind is invisible to an observer and
   printed `-`; with exactly one defaulted constructor the constructions through it are seen later (when a user-provided member
   first meets the object) and are printed                                                                   -/
import Tetl.Proto
import Tetl.C03.Session
import Tetl.C03.Spec
namespace Tetl.C03.Driver
open Tetl.Proto Tetl.C03

inductive Own where | sv | iv | st | ss | fs | var | opt | exp | fn
  deriving Repr, DecidableEq, Inhabited

def ownOf : String → Option Own
  | "sv" => some .sv | "iv" => some .iv | "st" => some .st | "ss" => some .ss | "fs" => some .fs
  | "var" => some .var | "opt" => some .opt | "exp" => some .exp | "fn" => some .fn | _ => none

def kindOf : String → Option Kind
  | "cm" => some .cm | "mo" => some .mo | "co" => some .co
  | "da" => some .da | "dm" => some .dm | "dc" => some .dc | _ => none

def Own.isVec : Own → Bool
  | .sv | .iv | .st | .ss | .fs => true
  | _ => false

def Own.trk : Own → Nat → Bool
  | .opt => fun j => j == 1
  | _ => fun _ => true

def Own.nalt : Own → Nat
  | .var => 3 | .opt => 2 | .exp => 2 | _ => 0

structure Ses where
  own : Own
  k : Kind
  cap : Nat
  model : Except LErr St
  spec : Spec.ASt
  ended : Bool := false

abbrev DState := Option Ses

def fmtOpt : Option Nat → String
  | some v => toString v
  | none => "M"

def slotAt (m : Mem) (i : Nat) : Slot := match m.slots[i]? with | some s => s | none => .dead

/-- number of live slots among `cnt` slots from `lo` -/
def liveIn (m : Mem) (lo cnt : Nat) : Nat :=
  ((List.range cnt).filter fun i => (slotAt m (lo + i)).isLive).length

/-- slots of a vector that contradict its size: dead inside `[0,n)` or alive in `[n,cap)` -/
def misplacedVec (m : Mem) (base n cap : Nat) : Nat :=
  ((List.range cap).filter fun i => (slotAt m (base + i)).isLive != decide (i < n)).length

def misplacedAlt (trk : Nat → Bool) (m : Mem) (sl ix : Nat) : Nat :=
  match slotAt m sl with
  | .dead => if trk ix then 1 else 0
  | .live ty _ => if trk ix && ty == ix then 0 else 1

def misplacedFn (m : Mem) (sl c : Nat) : Nat :=
  match slotAt m sl with
  | .dead => if c = 0 then 0 else 1
  | .live ty _ => if c = ty + 1 then 0 else 1

def fmtVecObj (m : Mem) (base n : Nat) : String :=
  "[" ++ ",".intercalate ((List.range n).map fun i =>
    match slotAt m (base + i) with
    | .live _ v => fmtOpt v
    | .dead => "D") ++ "]"

def fmtAltObj (trk : Nat → Bool) (m : Mem) (sl ix : Nat) : String :=
  if trk ix then
    match slotAt m sl with
    | .live _ v => s!"{ix}:{fmtOpt v}"
    | .dead => s!"{ix}:D"
  else s!"{ix}:-"

def fmtFnObj (m : Mem) (sl c : Nat) : String :=
  if c = 0 then "0:-"
  else match slotAt m sl with
    | .live _ v => s!"{c}:{fmtOpt v}"
    | .dead => s!"{c}:D"

def fmtAObj : Spec.AObj → String
  | .vec l => fmtNatList l
  | .alt ix (some v) => s!"{ix}:{v}"
  | .alt ix none => s!"{ix}:-"
  | .unspec => "u"

def isU : Spec.AObj → Bool
  | .unspec => true
  | _ => false

def modelLine (ss : Ses) (sp : Spec.ASt) : String :=
  match ss.model with
  | .error e => s!"e={e.fmt}"
  | .ok st =>
    let m := st.mem
    let cap := ss.cap
    let t := liveIn m (2 * cap) (cap + 3)
    let (x, a, b) : Nat × String × String :=
      if ss.own.isVec then
        (misplacedVec m 0 st.a cap + misplacedVec m cap st.b cap, fmtVecObj m 0 st.a, fmtVecObj m cap st.b)
      else if ss.own == .fn then
        (misplacedFn m 0 st.a + misplacedFn m 1 st.b, fmtFnObj m 0 st.a, fmtFnObj m 1 st.b)
      else
        (misplacedAlt ss.own.trk m 0 st.a + misplacedAlt ss.own.trk m 1 st.b,
         fmtAltObj ss.own.trk m 0 st.a, fmtAltObj ss.own.trk m 1 st.b)
    let a := if isU sp.a then "u" else a
    let b := if isU sp.b then "u" else b
    s!"e=- t={t} x={x} A={a} B={b}"

def specLine (sp : Spec.ASt) : String := s!"e=- t=0 x=0 A={fmtAObj sp.a} B={fmtAObj sp.b}"

def fmtSlot : Slot → String
  | .dead => "."
  | .live ty v => s!"{ty}:{fmtOpt v}"

def detailLine (ss : Ses) : String :=
  match ss.model with
  | .error e => s!"e={e.fmt}"
  | .ok st =>
    let m := st.mem
    let cap := ss.cap
    let seg (lo : Nat) := "[" ++ ",".intercalate ((List.range cap).map fun i => fmtSlot (slotAt m (lo + i))) ++ "]"
    let c := m.cnt
    let tr := ss.k.tr
    let vis (b : Bool) (n : Nat) : String := if b then toString n else "-"
    s!"A={seg 0} B={seg cap} c={c.vc},{vis (tr.cc || tr.mc) c.cc},{vis (tr.mc || tr.cc) c.mc},{vis tr.ca c.ca},{vis tr.ma c.ma},{vis tr.dt c.d}"

def tOf (l : Line) : Bool := (l.nat? "t").getD 0 == 1

def parseV (l : Line) : Option VOp :=
  let v := l.nat? "v"
  let pos := l.nat? "pos"
  match l.op with
  | "push_c" => v.map .pushc
  | "push_m" => v.map .pushm
  | "emplace_back" => v.map .emplaceBack
  | "try_push_c" => v.map .tryPushc
  | "try_push_m" => v.map .tryPushm
  | "try_emplace_back" => v.map .tryEmplaceBack
  | "pop" => some .pop
  | "ins_c" => do some (.insc (← pos) (← v))
  | "ins_m" => do some (.insm (← pos) (← v))
  | "ins_n" => do some (.insn (← pos) (← l.nat? "n") (← v))
  | "ins_r" => do some (.insr (← pos) (← l.natList? "xs"))
  | "emplace" => do some (.emplace (← pos) (← v))
  | "erase_at" => pos.map .eraseAt
  | "erase_range" => do some (.eraseRange (← l.nat? "f") (← l.nat? "l"))
  | "clear" => some .clear
  | "resize" => (l.nat? "n").map .resize
  | "resize_v" => do some (.resizev (← l.nat? "n") (← v))
  | "assign_n" => do some (.assignn (← l.nat? "n") (← v))
  | "assign_r" => (l.natList? "xs").map .assignr
  | "ctor_n" => (l.nat? "n").map .ctorN
  | "ctor_nv" => do some (.ctorNV (← l.nat? "n") (← v))
  | "ctor_r" => (l.natList? "xs").map .ctorR
  | "erase_if" => do some (.eraseIf (← l.nat? "md") (← l.nat? "r"))
  | "cctor" => some .cctor
  | "mctor" => some .mctor
  | "cassign" => some .cassign
  | "massign" => some .massign
  | "cassign_self" => some .cassignSelf
  | "swap" => some .swap
  | "swap_self" => some .swapSelf
  | _ => none

def parseS (l : Line) : Option SOp :=
  let v := l.nat? "v"
  match l.op with
  | "sins_c" => v.map .insc
  | "sins_m" => v.map .insm
  | "semplace" => v.map .emplace
  | "erase_key" => v.map .eraseKey
  | "erase_at" => (l.nat? "pos").map .eraseAt
  | "erase_range" => do some (.eraseRange (← l.nat? "f") (← l.nat? "l"))
  | "clear" => some .clear
  | "cctor" => some .cctor
  | "mctor" => some .mctor
  | "cassign" => some .cassign
  | "massign" => some .massign
  | "cassign_self" => some .cassignSelf
  | "swap" => some .swap
  | "swap_self" => some .swapSelf
  | "extract" => some .extract
  | "replace" => (l.natList? "xs").map .replace
  | _ => none

def parseX (l : Line) : Option XOp :=
  let v := l.nat? "v"
  let j := l.nat? "j"
  match l.op with
  | "vemplace" => do some (.emplace (← j) (← v))
  | "vemplace_c" => do some (.emplaceCopy (← j) (← v))
  | "vemplace_m" => do some (.emplaceMove (← j) (← v))
  | "vassign_c" => do some (.assignCopy (← j) (← v))
  | "vassign_m" => do some (.assignMove (← j) (← v))
  | "oassign_c" => v.map .optAssignCopy
  | "oassign_m" => v.map .optAssignMove
  | "reset" => some .reset
  | "cctor" => some .cctor
  | "mctor" => some .mctor
  | "cassign" => some .cassign
  | "massign" => some .massign
  | "cassign_self" => some .cassignSelf
  | "swap" => some .swap
  | "swap_self" => some .swapSelf
  | "use" => some .use
  | "vassign_own" => some .assignOwn
  | _ => none

def parseF (l : Line) : Option FOp :=
  let v := l.nat? "v"
  let j := l.nat? "j"
  match l.op with
  | "fctor_c" => do some (.ctorCopy (← j) (← v))
  | "fctor_m" => do some (.ctorMove (← j) (← v))
  | "fassign_c" => do some (.assignCopy (← j) (← v))
  | "fassign_m" => do some (.assignMove (← j) (← v))
  | "fconv_cc" => do some (.conv false false (← j) (← v))
  | "fconv_mc" => do some (.conv false true (← j) (← v))
  | "fconv_ca" => do some (.conv true false (← j) (← v))
  | "fconv_ma" => do some (.conv true true (← j) (← v))
  | "reset" => some .reset
  | "cctor" => some .cctor
  | "mctor" => some .mctor
  | "cassign" => some .cassign
  | "massign" => some .massign
  | "cassign_self" => some .cassignSelf
  | "massign_self" => some .massignSelf
  | "swap" => some .swap
  | "swap_self" => some .swapSelf
  | "invoke" => some .invoke
  | _ => none

/-- which operations exist for which variant-like owner (mirrors the harness): the converting assignment ops are
    variant's, `optional = T` and `reset` are optional's -/
def xmember (own : Own) : XOp → Bool
  | .assignCopy _ _ | .assignMove _ _ | .assignOwn => own == .var
  | .optAssignCopy _ | .optAssignMove _ | .reset => own == .opt
  | _ => true

def bindSt (m : Except LErr St) (f : St → Except LErr St) : Except LErr St :=
  match m with
  | .error e => .error e
  | .ok s => f s

/-- one operation line on both sides; `none` = the line does not parse for this owner -/
def opStep (ss : Ses) (l : Line) : Option Ses :=
  let t := tOf l
  match ss.own with
  | .sv | .st => (parseV l).map fun op =>
      { ss with model := bindSt ss.model (fun s => vstep .sv ss.k ss.cap s t op), spec := Spec.vstep ss.cap ss.spec t op }
  | .iv => (parseV l).map fun op =>
      { ss with model := bindSt ss.model (fun s => vstep .iv ss.k ss.cap s t op), spec := Spec.vstep ss.cap ss.spec t op }
  | .ss => (parseS l).map fun op =>
      { ss with model := bindSt ss.model (fun s => sstep .ss ss.k ss.cap s t op), spec := Spec.sstep ss.cap ss.spec t op }
  | .fs => (parseS l).map fun op =>
      { ss with model := bindSt ss.model (fun s => sstep .fs ss.k ss.cap s t op), spec := Spec.sstep ss.cap ss.spec t op }
  | .var | .opt | .exp => ((parseX l).filter (xmember ss.own)).map fun op =>
      { ss with model := bindSt ss.model (fun s => xstep ss.k ss.own.trk s t op), spec := Spec.xstep ss.own.trk ss.spec t op }
  | .fn => (parseF l).map fun op =>
      { ss with model := bindSt ss.model (fun s => fstep ss.k s t op), spec := Spec.fstep ss.spec t op }

def step (st : DState) (l : Line) : DState × String :=
  let bad := (st, "bad-op\tbad-op")
  match l.op with
  | "new" =>
    match (l.str? "own").bind ownOf, (l.str? "kind").bind kindOf, l.nat? "cap" with
    | some own, some k, some cap =>
      let cap := if own.isVec then cap else 1
      let (m, sp) : St × Spec.ASt :=
        if own.isVec then (St.init cap 0 0, { a := .vec [], b := .vec [] })
        else if own == .fn then (St.init 1 0 0, { a := .alt 0 none, b := .alt 0 none })
        else
          let o : Spec.AObj := .alt 0 (if own.trk 0 then some 0 else none)
          (xinit own.trk, { a := o, b := o })
      let ss : Ses := { own := own, k := k, cap := cap, model := .ok m, spec := sp }
      (some ss, modelLine ss sp ++ "\t" ++ specLine sp)
    | _, _, _ => bad
  | "detail" =>
    match st with
    | some ss => (st, detailLine ss ++ "\t*")
    | none => bad
  | "end" =>
    match st with
    | some ss =>
      let m' := bindSt ss.model fun s =>
        if ss.own.isVec then vfinish ss.cap s
        else if ss.own == .fn then ffinish s
        else xfinish ss.own.trk s
      let ms := match m' with
        | .error e => s!"e={e.fmt}"
        | .ok s => s!"e=- live={s.mem.liveCount} bal={fmtBool (s.mem.cnt.constructed == s.mem.cnt.d)}"
      (some { ss with model := m', ended := true }, ms ++ "\te=- live=0 bal=1")
    | none => bad
  | _ =>
    match st with
    | some ss =>
      match opStep ss l with
      | some ss' => (some ss', modelLine ss' ss'.spec ++ "\t" ++ specLine ss'.spec)
      | none => bad
    | none => bad

end Tetl.C03.Driver

def main : IO Unit := Tetl.Proto.runDriver (none : Tetl.C03.Driver.DState) Tetl.C03.Driver.step
