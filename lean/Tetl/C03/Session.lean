/-
C03 — sessions: two owner objects A and B of one type over one arena, and the operations of a
history.  Arena layout for capacity `cap` (`cap = 1` for variant-like owners and inplace_function):

  [0, cap)        storage of A          [cap, 2cap)   storage of B
  [2cap, 3cap)    storage of a local owner (`static_vector tmp` of swap, the local of `extract`,
                  the `temp` variant of the generic swap, the by-value parameter of
                  `inplace_function::operator=`)
  3cap, 3cap+1, 3cap+2   local element objects (`temp` of `etl::swap`, `value_type a` of `emplace`,
                  `T{}` of `emplace_n`, `tmp` of `static_set::insert(const&)`, `key` of `flat_set::emplace`)

`St.a` / `St.b` is the size (containers), the index (variant-like) or the vtable code
(inplace_function) of A / B.  Every operation names its target `t` (`false` = A, `true` = B); the
other object is the source of copy/move/swap operations.
-/
import Tetl.C03.Model
namespace Tetl.C03

structure St where
  mem : Mem
  a : Nat
  b : Nat
  deriving Repr, DecidableEq, Inhabited

def arenaSize (cap : Nat) : Nat := 3 * cap + 3
def baseOf (cap : Nat) (t : Bool) : Nat := if t then cap else 0
def tvOf (cap : Nat) : Nat := 2 * cap
def t0Of (cap : Nat) : Nat := 3 * cap
def t1Of (cap : Nat) : Nat := 3 * cap + 1
def t2Of (cap : Nat) : Nat := 3 * cap + 2

def St.init (cap : Nat) (a b : Nat) : St := { mem := Mem.fresh (arenaSize cap), a := a, b := b }
def St.sz (s : St) (t : Bool) : Nat := if t then s.b else s.a
def St.put (s : St) (t : Bool) (m : Mem) (n : Nat) : St :=
  if t then { mem := m, a := s.a, b := n } else { mem := m, a := n, b := s.b }
def St.put2 (_s : St) (t : Bool) (m : Mem) (nt no : Nat) : St :=
  if t then { mem := m, a := no, b := nt } else { mem := m, a := nt, b := no }

/-- lift a single-object operation to the session -/
def St.upd (s : St) (t : Bool) (r : Except LErr (Mem × Nat)) : Except LErr St :=
  match r with
  | .error e => .error e
  | .ok (m, n) => .ok (s.put t m n)

/-! ### static_vector / inplace_vector (and `stack` over static_vector, which forwards) -/

inductive Fam where | sv | iv
  deriving Repr, DecidableEq, Inhabited

inductive VOp where
  | pushc (v : Nat) | pushm (v : Nat) | emplaceBack (v : Nat)
  | tryPushc (v : Nat) | tryPushm (v : Nat) | tryEmplaceBack (v : Nat)
  | pop
  | insc (pos v : Nat) | insm (pos v : Nat) | insn (pos cnt v : Nat) | insr (pos : Nat) (xs : List Nat)
  | emplace (pos v : Nat)
  | eraseAt (pos : Nat) | eraseRange (f l : Nat) | clear
  | resize (sz : Nat) | resizev (sz v : Nat) | assignn (cnt v : Nat) | assignr (xs : List Nat)
  | eraseIf (md r : Nat)
  | cctor | mctor | cassign | massign | cassignSelf | swap | swapSelf
  | ctorN (sz : Nat) | ctorNV (cnt v : Nat) | ctorR (xs : List Nat)   -- `t.~T(); new (&t) T(n)` / `T(n, v)` / `T(first, last)`
  deriving Repr, DecidableEq, Inhabited

def noMember : Except LErr St := .error (.pre "no such member")

def vstep (fam : Fam) (k : Kind) (cap : Nat) (s : St) (t : Bool) (op : VOp) : Except LErr St :=
  let base := baseOf cap t
  let ob := baseOf cap (!t)
  let n := s.sz t
  let no := s.sz (!t)
  let m := s.mem
  let tmp := t0Of cap
  let loc := t1Of cap
  match fam, op with
  | .sv, .pushc v => s.upd t (svEmplaceBack k cap base m n (.copy (.ext v)))
  | .sv, .pushm v => s.upd t (svEmplaceBack k cap base m n (.move (.ext v)))
  | .sv, .emplaceBack v => s.upd t (svEmplaceBack k cap base m n (.value v))
  | .iv, .pushc v => s.upd t (ivPush k cap base m n (.copy (.ext v)))
  | .iv, .pushm v => s.upd t (ivPush k cap base m n (.move (.ext v)))
  | .iv, .emplaceBack v => s.upd t (ivPush k cap base m n (.value v))
  | .iv, .tryPushc v => s.upd t (ivTryPush k cap base m n (.copy (.ext v)))
  | .iv, .tryPushm v => s.upd t (ivTryPush k cap base m n (.move (.ext v)))
  | .iv, .tryEmplaceBack v => s.upd t (ivTryPush k cap base m n (.value v))
  | .sv, .pop => s.upd t (svPopBack base m n)
  | .iv, .pop => s.upd t (ivPopBack base m n)
  | .sv, .insc pos v =>
    if n ≥ cap then .error (.pre "static_vector::insert: !full()") else s.upd t (svInsertN k cap base tmp m n pos 1 v)
  | .sv, .insm pos v => s.upd t (svMoveInsert1 k cap base tmp m n pos (.ext v))
  | .sv, .insn pos cnt v => s.upd t (svInsertN k cap base tmp m n pos cnt v)
  | .sv, .insr pos xs => s.upd t (svInsertList k cap base tmp m n pos xs)
  | .sv, .emplace pos v => s.upd t (svEmplace k cap base tmp loc m n pos (.value v))
  | .sv, .eraseAt pos => s.upd t (svEraseAt k base m n pos)
  | .sv, .eraseRange f l => s.upd t (svErase k base m n f l)
  | _, .clear => s.upd t (svClear base m n)
  | .sv, .resize sz => s.upd t (svResize k cap base loc m n sz)
  | .sv, .resizev sz v => s.upd t (svResizeV k cap base tmp m n sz v)
  | .sv, .assignn cnt v => s.upd t (svAssignN k cap base tmp m n cnt v)
  | .sv, .assignr xs => s.upd t (svAssignList k cap base tmp m n xs)
  | .sv, .eraseIf md r => s.upd t (svEraseIf k base (fun x => x % md == r) m n)
  | .sv, .cctor =>
    -- `t.~T(); new (&t) T(o);`
    match svClear base m n with
    | .error e => .error e
    | .ok (m1, _) => s.upd t (svConstructFrom k false m1 base ob no)
  | .sv, .mctor =>
    match svClear base m n with
    | .error e => .error e
    | .ok (m1, _) => s.upd t (svConstructFrom k true m1 base ob no)
  | .iv, .cctor =>
    match ivClear base m n with
    | .error e => .error e
    | .ok (m1, _) => s.upd t (ivCopyConstruct k m1 base ob no)
  | .iv, .mctor =>
    match ivClear base m n with
    | .error e => .error e
    | .ok (m1, _) =>
      match ivMoveConstruct k m1 base ob no with
      | .error e => .error e
      | .ok (m2, nt, no') => .ok (s.put2 t m2 nt no')
  | .sv, .ctorN sz => s.upd t (svCtorN k cap base loc m n sz)
  | .sv, .ctorNV cnt v => s.upd t (svCtorNV k cap base tmp m n cnt v)
  | .sv, .ctorR xs => s.upd t (svCtorList k cap base tmp m n xs)
  | .sv, .cassign => s.upd t (svAssignFrom k false m base n ob no)
  | .sv, .massign => s.upd t (svAssignFrom k true m base n ob no)
  | .sv, .cassignSelf => .ok s        -- `if (this == &other) return *this;`
  | .sv, .swap =>
    match svSwap k m base n ob no (tvOf cap) with
    | .error e => .error e
    | .ok (m1, nt, no') => .ok (s.put2 t m1 nt no')
  | .sv, .swapSelf => s.upd t (svSwapSelf k m base n (tvOf cap))
  | _, _ => noMember

/-- both owners go out of scope -/
def vfinish (cap : Nat) (s : St) : Except LErr St :=
  match svClear (baseOf cap true) s.mem s.b with
  | .error e => .error e
  | .ok (m1, _) =>
    match svClear (baseOf cap false) m1 s.a with
    | .error e => .error e
    | .ok (m2, _) => .ok { mem := m2, a := 0, b := 0 }

/-! ### static_set / flat_set<static_vector> with `less` -/

/-- the `while (count > 0)` loop of `etl::lower_bound` (`p x = comp(x, value)`); reads through `useAt` -/
def boundLoop (base : Nat) (p : Nat → Bool) (m : Mem) (first count : Nat) : Except LErr Nat :=
  if _h : count > 0 then
    match useAt m (base + first + count / 2) 0 with
    | .error e => .error e
    | .ok x =>
      if p x then boundLoop base p m (first + count / 2 + 1) (count - (count / 2 + 1))
      else boundLoop base p m first (count / 2)
  else .ok first
termination_by count
decreasing_by all_goals omega

/-- `it = lower_bound(key)` and the test `it != end() && !comp(key, *it)`: position and "present" -/
def setFind (base : Nat) (m : Mem) (n key : Nat) : Except LErr (Nat × Bool) :=
  match boundLoop base (fun x => x < key) m 0 n with
  | .error e => .error e
  | .ok p =>
    if p = n then .ok (p, false)
    else
      match useAt m (base + p) 0 with
      | .error e => .error e
      | .ok x => .ok (p, !(key < x))

/-- `static_set::insert(value_type&& value)` where `value` is the object `s` holding `key` -/
def ssInsertMove (k : Kind) (cap base tmp : Nat) (m : Mem) (n key : Nat) (s : Src) : Except LErr (Mem × Nat) :=
  match setFind base m n key with
  | .error e => .error e
  | .ok (p, present) =>
    if present then .ok (m, n)
    else if n ≥ cap then .ok (m, n)
    else
      match svEmplaceBack k cap base m n (.move s) with
      | .error e => .error e
      | .ok (m1, n1) =>
        match rotateEv k base tmp m1 p n n1 with
        | .error e => .error e
        | .ok m2 => .ok (m2, n1)

/-- `insert(value_type const&)`: `value_type tmp = value; return insert(move(tmp));` and
    `emplace(args...)`: `insert(value_type(args...))` — `h` builds the local in slot `loc` -/
def ssInsertLocal (k : Kind) (cap base tmp loc : Nat) (m : Mem) (n key : Nat) (h : How) : Except LErr (Mem × Nat) :=
  match emplaceAt k m loc 0 h with
  | .error e => .error e
  | .ok m1 =>
    match ssInsertMove k cap base tmp m1 n key (.slot loc) with
    | .error e => .error e
    | .ok (m2, n2) =>
      match destroyAt m2 loc 0 with
      | .error e => .error e
      | .ok m3 => .ok (m3, n2)

/-- `static_set::erase(key)` -/
def ssEraseKey (k : Kind) (base : Nat) (m : Mem) (n key : Nat) : Except LErr (Mem × Nat) :=
  match setFind base m n key with
  | .error e => .error e
  | .ok (p, present) => if present then svEraseAt k base m n p else .ok (m, n)

/-- `flat_set::emplace(args...)`: `auto key = Key{args...}` (slot `loc2`); `it = lower_bound(key)`;
    new key and not full: `_container.emplace(it, move(key))`; finally `~key` -/
def fsEmplace (k : Kind) (cap base tmp loc loc2 : Nat) (m : Mem) (n key : Nat) (h : How) : Except LErr (Mem × Nat) :=
  match emplaceAt k m loc2 0 h with
  | .error e => .error e
  | .ok m1 =>
    match setFind base m1 n key with
    | .error e => .error e
    | .ok (p, present) =>
      match (if present || n = cap then .ok (m1, n)
             else svEmplace k cap base tmp loc m1 n p (.move (.slot loc2))) with
      | .error e => .error e
      | .ok (m2, n2) =>
        match destroyAt m2 loc2 0 with
        | .error e => .error e
        | .ok m3 => .ok (m3, n2)

/-- `flat_set::erase(key)`: `it = remove(begin(), end(), key); erase(it, end())` -/
def fsEraseKey (k : Kind) (base : Nat) (m : Mem) (n key : Nat) : Except LErr (Mem × Nat) :=
  svEraseIf k base (fun x => x == key) m n

/-- `container_type c; c.emplace_back(x)…; set.replace(move(c));` and `c` goes out of scope.
    `flat_set::replace(container_type&& container)` is `_container = move(container)`: the move assignment of
    static_vector (`clear(); move_insert(begin(), other.begin(), other.end())`).  `tv` = storage of the local `c`. -/
def fsReplace (k : Kind) (cap base tv : Nat) (m : Mem) (n : Nat) (xs : List Nat) : Except LErr (Mem × Nat) :=
  match svPushValues k cap tv xs m 0 with
  | .error e => .error e
  | .ok (m1, nt) =>
    match svAssignFrom k true m1 base n tv nt with
    | .error e => .error e
    | .ok (m2, n2) =>
      match destroyRange m2 nt tv with
      | .error e => .error e
      | .ok m3 => .ok (m3, n2)

inductive SFam where | ss | fs
  deriving Repr, DecidableEq, Inhabited

inductive SOp where
  | insc (v : Nat) | insm (v : Nat) | emplace (v : Nat)
  | eraseKey (v : Nat) | eraseAt (pos : Nat) | eraseRange (f l : Nat) | clear
  | cctor | mctor | cassign | massign | cassignSelf | swap | swapSelf
  | extract
  | replace (xs : List Nat)
  deriving Repr, DecidableEq, Inhabited

def sstep (fam : SFam) (k : Kind) (cap : Nat) (s : St) (t : Bool) (op : SOp) : Except LErr St :=
  let base := baseOf cap t
  let n := s.sz t
  let m := s.mem
  let tmp := t0Of cap
  let loc := t1Of cap
  let loc2 := t2Of cap
  match fam, op with
  | .ss, .insc v => s.upd t (ssInsertLocal k cap base tmp loc m n v (.copy (.ext v)))
  | .ss, .insm v => s.upd t (ssInsertMove k cap base tmp m n v (.ext v))
  | .ss, .emplace v => s.upd t (ssInsertLocal k cap base tmp loc m n v (.value v))
  | .ss, .eraseKey v => s.upd t (ssEraseKey k base m n v)
  | .fs, .insc v => s.upd t (fsEmplace k cap base tmp loc loc2 m n v (.copy (.ext v)))
  | .fs, .insm v => s.upd t (fsEmplace k cap base tmp loc loc2 m n v (.move (.ext v)))
  | .fs, .emplace v => s.upd t (fsEmplace k cap base tmp loc loc2 m n v (.value v))
  | .fs, .eraseKey v => s.upd t (fsEraseKey k base m n v)
  | _, .eraseAt pos => vstep .sv k cap s t (.eraseAt pos)
  | _, .eraseRange f l => vstep .sv k cap s t (.eraseRange f l)
  | _, .clear => vstep .sv k cap s t .clear
  | _, .cctor => vstep .sv k cap s t .cctor
  | _, .mctor => vstep .sv k cap s t .mctor
  | _, .cassign => vstep .sv k cap s t .cassign
  | _, .massign => vstep .sv k cap s t .massign
  | _, .cassignSelf => vstep .sv k cap s t .cassignSelf
  | _, .swap => vstep .sv k cap s t .swap
  | _, .swapSelf => vstep .sv k cap s t .swapSelf
  | .fs, .extract =>
    -- `auto container = move(_container); clear(); return container;` and the result goes out of scope
    match svConstructFrom k true m (tvOf cap) base n with
    | .error e => .error e
    | .ok (m1, nt) =>
      match svClear base m1 n with
      | .error e => .error e
      | .ok (m2, n2) =>
        match destroyRange m2 nt (tvOf cap) with
        | .error e => .error e
        | .ok m3 => .ok (s.put t m3 n2)
  | .ss, .extract => noMember
  | .fs, .replace xs => s.upd t (fsReplace k cap base (tvOf cap) m n xs)
  | .ss, .replace _ => noMember

/-! ### variant / optional / expected (`cap = 1`) -/

inductive XOp where
  | emplace (j v : Nat)        -- `emplace<J>(int)`
  | emplaceCopy (j v : Nat)    -- `emplace<J>(T const&)`
  | emplaceMove (j v : Nat)    -- `emplace<J>(T&&)`
  | assignCopy (j v : Nat)     -- `v = t` with `t` an lvalue of alternative type `J` (converting assignment)
  | assignMove (j v : Nat)     -- `v = move(t)`
  | optAssignCopy (v : Nat)    -- `optional = t`
  | optAssignMove (v : Nat)    -- `optional = move(t)`
  | reset                      -- `optional::reset()` = `emplace<0>(nullopt)`
  | cctor | mctor | cassign | massign | cassignSelf | swap | swapSelf
  | use
  | assignOwn                  -- `v = get<index()>(v)`: converting assignment from the held alternative itself
  deriving Repr, DecidableEq, Inhabited

def xstep (k : Kind) (trk : Nat → Bool) (s : St) (t : Bool) (op : XOp) : Except LErr St :=
  let sl := baseOf 1 t
  let os := baseOf 1 (!t)
  let ix := s.sz t
  let ox := s.sz (!t)
  let m := s.mem
  let tv := tvOf 1
  match op with
  | .emplace j v => s.upd t (varEmplace k trk m sl ix j (.value v))
  | .emplaceCopy j v => s.upd t (varEmplace k trk m sl ix j (.copy (.ext v)))
  | .emplaceMove j v => s.upd t (varEmplace k trk m sl ix j (.move (.ext v)))
  | .assignCopy j v => s.upd t (varAssignValue k trk false m sl ix j (.ext v))
  | .assignMove j v => s.upd t (varAssignValue k trk true m sl ix j (.ext v))
  | .optAssignCopy v => s.upd t (optAssignValue k trk m sl ix tv (.copy (.ext v)))
  | .optAssignMove v => s.upd t (optAssignValue k trk m sl ix tv (.move (.ext v)))
  | .reset => s.upd t (varEmplace k trk m sl ix 0 (.value 0))
  | .cctor =>
    match vDestroy trk m sl ix with
    | .error e => .error e
    | .ok m1 => s.upd t (varConstructFrom k trk false m1 sl os ox)
  | .mctor =>
    match vDestroy trk m sl ix with
    | .error e => .error e
    | .ok m1 => s.upd t (varConstructFrom k trk true m1 sl os ox)
  | .cassign => s.upd t (varAssignFrom k trk false m sl ix os ox)
  | .massign => s.upd t (varAssignFrom k trk true m sl ix os ox)
  | .cassignSelf => s.upd t (varAssignFrom k trk false m sl ix sl ix)
  | .swap =>
    match varSwap k trk m sl ix os ox tv with
    | .error e => .error e
    | .ok (m1, nt, no) => .ok (s.put2 t m1 nt no)
  | .swapSelf =>
    match varSwap k trk m sl ix sl ix tv with
    | .error e => .error e
    | .ok (m1, nt, _) => .ok (s.put t m1 nt)
  | .assignOwn =>
    -- `operator=(T&& t)` with `t = (*this)[index_v<index()>]`, an lvalue: the selected alternative is the one
    -- held, so the held object is copy-assigned from itself
    s.upd t (varAssignValue k trk false m sl ix ix (.slot sl))
  | .use =>
    match varUse trk m sl ix with
    | .error e => .error e
    | .ok _ => .ok s

/-- two default-constructed variant-like owners: alternative 0 is value-initialised (`T()` = value 0)
    when it is an instrumented type; nothing is observable otherwise (`optional` starts disengaged) -/
def xinit (trk : Nat → Bool) : St :=
  if trk 0 then
    { mem := bumpVc (bumpVc (((Mem.fresh (arenaSize 1)).set 0 (.live 0 (some 0))).set 1 (.live 0 (some 0)))), a := 0, b := 0 }
  else St.init 1 0 0

def xfinish (trk : Nat → Bool) (s : St) : Except LErr St :=
  match vDestroy trk s.mem (baseOf 1 true) s.b with
  | .error e => .error e
  | .ok m1 =>
    match vDestroy trk m1 (baseOf 1 false) s.a with
    | .error e => .error e
    | .ok m2 => .ok { s with mem := m2 }

/-! ### inplace_function (`cap = 1`) -/

inductive FOp where
  | ctorCopy (j v : Nat) | ctorMove (j v : Nat)       -- `t.~F(); new (&t) F(callable)`
  | assignCopy (j v : Nat) | assignMove (j v : Nat)   -- `t = callable`
  | reset                                            -- `t = nullptr`
  | cctor | mctor | cassign | massign | cassignSelf | massignSelf | swap | swapSelf
  | invoke
  | conv (asg mv : Bool) (j v : Nat)                 -- from a local function object of a smaller capacity holding callable `j`
  deriving Repr, DecidableEq, Inhabited

def fstep (k : Kind) (s : St) (t : Bool) (op : FOp) : Except LErr St :=
  let sl := baseOf 1 t
  let os := baseOf 1 (!t)
  let c := s.sz t
  let oc := s.sz (!t)
  let m := s.mem
  let p := tvOf 1
  match op with
  | .ctorCopy j v =>
    match fnDestroyCur m sl c with
    | .error e => .error e
    | .ok m1 => s.upd t (fnFromCallable k m1 sl j (.copy (.ext v)))
  | .ctorMove j v =>
    match fnDestroyCur m sl c with
    | .error e => .error e
    | .ok m1 => s.upd t (fnFromCallable k m1 sl j (.move (.ext v)))
  | .assignCopy j v => s.upd t (fnAssignCallable k m sl c p j (.copy (.ext v)))
  | .assignMove j v => s.upd t (fnAssignCallable k m sl c p j (.move (.ext v)))
  | .reset => s.upd t (fnReset m sl c)
  | .cctor =>
    match fnDestroyCur m sl c with
    | .error e => .error e
    | .ok m1 => s.upd t (fnCopyConstruct m1 sl os oc)
  | .mctor =>
    match fnDestroyCur m sl c with
    | .error e => .error e
    | .ok m1 =>
      match fnMoveConstruct k m1 sl os oc with
      | .error e => .error e
      | .ok (m2, ct, co) => .ok (s.put2 t m2 ct co)
  | .cassign =>
    match fnAssignFrom k false m sl c os oc p with
    | .error e => .error e
    | .ok (m1, ct, co) => .ok (s.put2 t m1 ct co)
  | .massign =>
    match fnAssignFrom k true m sl c os oc p with
    | .error e => .error e
    | .ok (m1, ct, co) => .ok (s.put2 t m1 ct co)
  | .cassignSelf =>
    match fnAssignFrom k false m sl c sl c p with
    | .error e => .error e
    | .ok (m1, ct, _) => .ok (s.put t m1 ct)
  | .massignSelf =>
    match fnAssignFrom k true m sl c sl c p with
    | .error e => .error e
    | .ok (m1, ct, _) => .ok (s.put t m1 ct)
  | .swap =>
    match fnSwap k m sl c os oc (t0Of 1) with
    | .error e => .error e
    | .ok (m1, ct, co) => .ok (s.put2 t m1 ct co)
  | .swapSelf =>
    match fnSwap k m sl c sl c (t0Of 1) with
    | .error e => .error e
    | .ok (m1, ct, _) => .ok (s.put t m1 ct)
  | .invoke =>
    match fnInvoke m sl c with
    | .error e => .error e
    | .ok _ => .ok s
  | .conv asg mv j v => s.upd t (fnFromOtherCap k asg mv m sl c p (t0Of 1) j (.copy (.ext v)))

def ffinish (s : St) : Except LErr St :=
  match fnDestroyCur s.mem (baseOf 1 true) s.b with
  | .error e => .error e
  | .ok m1 =>
    match fnDestroyCur m1 (baseOf 1 false) s.a with
    | .error e => .error e
    | .ok m2 => .ok { mem := m2, a := 0, b := 0 }

/-! ### histories -/

/-- run a history of `(target, op)` pairs with a step function -/
def runOps {Op : Type} (step : St → Bool → Op → Except LErr St) : St → List (Bool × Op) → Except LErr St
  | s, [] => .ok s
  | s, (t, op) :: rest =>
    match step s t op with
    | .error e => .error e
    | .ok s1 => runOps step s1 rest

end Tetl.C03
