/- C07 line-protocol driver: prints `model <TAB> spec` for each case line.

   new kind=var alts=<letters of i f t m> n=N       N default-constructed variants ("slots")
       emplace s=K i=I v=N [via=type]   make s=K i=I v=N (variant(in_place_index<I>, ..))
       assign|ctor s=K from=J mv=0|1   swap s=K with=J   rel s=K with=J
       conv s=K a=<i s l f t m c d a b q x> v=N how=ctor|assign [cat=l|r]
                                       converting constructor / assignment from a named object `a` of that type, as an lvalue
                                       (cat=l) or `std::move(a)` (default); the answer is `ok a=<a afterwards>` or `nc`
       get_if s=K i=I [via=type]   holds s=K i=I   visit s=[K,..] [idx=1]
       visitp s=K pos=0|1|2 v=N [idx=1]   visit with a non-variant int: (n, v) / (v, n) / (n, n+1)
       vcat s=[K,..] q=[Q,..] vis=cat|take     value categories (alts it, qx, id, tif only): variant K visited as Q
   new kind=opt alts=<i|f|t|m> n=N                  optional<T> slots and partner optional<U> slots
       reset s=K   null s=K how=ctor|assign   emplace s=K v=N   val s=K a=.. v=N how=ctor|assign [cat=l|r]   value s=K
       assign|ctor s=K from=J mv=..   swap s=K with=J [via=member]   pset j=J [v=N]
       conv s=K from=J how=ctor|assign mv=..   rel s=K with=J   relm s=K with=J   reln s=K   relv s=K a=own|i v=N
       has s=K   value_or s=K v=N [mv=1]   and_then s=K f=inc|none   or_else s=K [v=N] [mv=1]   ocat s=K q=Q [take=1]
   new kind=oref n=N                                optional<int&> slots over three int cells
       bind s=K c=C how=ctor|assign|emplace   null s=K how=..   reset s=K   assign|ctor   swap   write s=K v=N
       get s=K   rel s=K with=J   reln s=K
       conv s=K how=ctor|implicit|assign src=ref|cref|rref|val|cval [pre=C]
                                       optional<int const&> direct- / copy-initialized from, or (bound to cell C / empty
                                       before) assigned from: slot K as non-const lvalue / const lvalue / rvalue
                                       optional<int&>, or an optional<int> (non-const / const lvalue) holding a copy of
                                       the referent of slot K (empty when the slot is); answer `-` or `<referent> p=1`
                                       (p: the result points at the object the source holds), `nc` = does not compile
   new kind=exp alts=<TE> n=N                       expected<T,E> slots
       ctor_def|ctor_val|ctor_err s=K [v=N]   emplace s=K v=N   assign|ctor   swap   assign_unex s=K v=N
       has s=K   value_or s=K v=N [mv=1]   and_then s=K f=inc|fail [v=N]   or_else s=K f=recover|same [v=N]   ecat s=K q=Q
       rel s=K with=J (== and !=)   value s=K
   new kind=sel                                     converting constructor / assignment: which alternative (no state)
       sel a=<arg kind> alts=<alternative kinds> how=ctor|assign     answer: the index of the alternative held afterwards, or `nc`
       kinds: b bool, h char, s short, i int, l long, u unsigned, f float, d double, p char const*, P int*, v void const*,
       n nullptr_t, L string literal, e unscoped enum (: int), E scoped enum, T Text(char const*), N Num(int), I ToInt (operator int)
   new kind=mv                                      visit over arguments of different variant types (no state)
       mvis k=[K,..] act=[A,..] v=[N,..] q=[Q,..] [idx=1]   one to four arguments; K: 0 a non-variant int, 1..4 a variant with that
                                       many alternatives (long | int,Trk | Trk,float,int | float,int,long,Trk); A the active
                                       index, N the payload, Q the value category (0 T&, 1 T const&, 2 T&&, 3 T const&&);
                                       answer `calls=1 ret=1 [I=]Q:<value>,...`: per argument the reference kind, the static
                                       type and the value the visitor received (idx=1: visit_with_index, with the static index)
   every answer is followed by ` |` and the state of all slots.

   values: i int, l long, s short (payload = value); f float (payload p = p/2, 1000 = NaN); t Trk, m Mo
   (payload = value, -1 after being moved from); c d a b q x = Sm kinds, shown `<letter><value>.<mark>`: the mark
   is the user-provided special member that produced the object last (1 copy ctor, 2 move ctor, 3 copy
   assignment, 4 move assignment); c/d/a/b provide only that one member, q and x all four (x: throwing copy ctor).                                                         -/
import Tetl.Proto
import Tetl.C07.Model
import Tetl.C07.Spec
namespace Tetl.C07.Driver
open Tetl Tetl.Proto Tetl.C07

inductive Ty where
  | int | lng | sht | flt | trk | mo | null
  | kc | kd | ka | kb | kq | kx      -- Sm<Bits> of the harness: which special members are user-provided
  deriving Repr, DecidableEq, Inhabited

/-- `g`: the mark of an `Sm` value = the user-provided special member that produced the object last
    (1 copy ctor, 2 move ctor, 3 copy assignment, 4 move assignment; 0 = constructed from an `int`);
    defaulted members copy the source's mark -/
structure Val where
  ty : Ty
  n : Int
  g : Nat := 0
  deriving Repr, DecidableEq, Inhabited

def tyOf : Char → Option Ty
  | 'i' => some .int | 'l' => some .lng | 's' => some .sht | 'f' => some .flt
  | 't' => some .trk | 'm' => some .mo
  | 'c' => some .kc | 'd' => some .kd | 'a' => some .ka | 'b' => some .kb | 'q' => some .kq | 'x' => some .kx
  | _ => none

def Ty.isSm : Ty → Bool
  | .kc | .kd | .ka | .kb | .kq | .kx => true
  | _ => false
/-- user-provided copy ctor / move ctor / copy assignment / move assignment -/
def Ty.ucc : Ty → Bool
  | .trk | .kc | .kq | .kx => true
  | _ => false
def Ty.umc : Ty → Bool
  | .trk | .mo | .kd | .kq | .kx => true
  | _ => false
def Ty.uca : Ty → Bool
  | .trk | .ka | .kq | .kx => true
  | _ => false
def Ty.uma : Ty → Bool
  | .trk | .mo | .kb | .kq | .kx => true
  | _ => false

def Ty.isInt : Ty → Bool
  | .int | .lng | .sht => true
  | _ => false
def Ty.isArith (t : Ty) : Bool := t.isInt || t == .flt
def Ty.isClass : Ty → Bool
  | .trk | .mo => true
  | t => t.isSm

def showV (v : Val) : String :=
  match v.ty with
  | .int | .sht => s!"i{v.n}"
  | .lng => s!"l{v.n}"
  | .flt => if v.n == 1000 then "fnan" else s!"f{v.n}"
  | .trk => s!"t{v.n}"
  | .mo => s!"m{v.n}"
  | .null => "-"
  | .kc => s!"c{v.n}.{v.g}" | .kd => s!"d{v.n}.{v.g}" | .ka => s!"a{v.n}.{v.g}"
  | .kb => s!"b{v.n}.{v.g}" | .kq => s!"q{v.n}.{v.g}" | .kx => s!"x{v.n}.{v.g}"

/-- `mk<T>(n)` of the harness -/
def mkV (t : Ty) (n : Int) : Val := ⟨t, n, 0⟩
def nullv : Val := ⟨.null, 0, 0⟩

def mark (v : Val) (m : Nat) : Val := if v.ty.isSm then { v with g := m } else v

/-- the special members of the element types of the harness (Trk, Mo: user-provided, unmarked, a moved-from
    object holds -1; Sm kinds: each user-provided member leaves its mark; everything else is the plain copy) -/
def el : Elem Val where
  cc := fun s => if s.ty.ucc then mark s 1 else s
  mc := fun s => if s.ty.umc then (mark s 2, { s with n := -1 }) else (s, s)
  ca := fun _ s => if s.ty.uca then mark s 3 else s
  ma := fun _ s => if s.ty.uma then (mark s 4, { s with n := -1 }) else (s, s)

/-- the object an `emplace(mk<T>(n))` / in-place construction creates: move constructed from the temporary -/
def mkArg (t : Ty) (n : Int) : Val := (el.mc (mkV t n)).1

/-- [variant.assign]/2.4, reinit-expected: potentially-throwing copy constructor, non-throwing move constructor -/
def fb (v : Val) : Bool := v.ty == .kx

/-- `is_trivially_copy_constructible` etc. of an alternative type -/
def Ty.tcc (t : Ty) : Bool := !t.ucc && t != .mo
def Ty.tmc (t : Ty) : Bool := !t.umc
def Ty.tca (t : Ty) : Bool := t.tcc && !t.uca
def Ty.tma (t : Ty) : Bool := t.tmc && !t.uma
def cfgOf (tys : List Ty) : Cfg :=
  ⟨tys.length, tys.all (·.tcc), tys.all (·.tmc), tys.all (·.tca), tys.all (·.tma)⟩

/-- value of `T(x)` -/
def convV (to : Ty) (v : Val) : Val :=
  if to == v.ty then v
  else if v.ty == .flt then
    (if to == .flt then v else ⟨to, Int.tdiv v.n 2, 0⟩)      -- float → integer / Trk(int) / Mo(int): truncation
  else
    (if to == .flt then ⟨.flt, 2 * v.n, 0⟩ else ⟨to, v.n, 0⟩)

def bump (v : Val) : Val :=
  if v.ty == .flt then (if v.n == 1000 then v else { v with n := v.n + 2 }) else { v with n := v.n + 1, g := 0 }

/-- numeric value ×2; `none` = NaN -/
def num (v : Val) : Option Int :=
  if v.ty == .flt then (if v.n == 1000 then none else some v.n) else some (2 * v.n)

def relOps : RelOps Val Val := fun r a b =>
  match num a, num b with
  | some x, some y =>
    (match r with
     | .eq => x == y | .ne => x != y | .lt => decide (x < y) | .le => decide (x ≤ y)
     | .gt => decide (x > y) | .ge => decide (x ≥ y))
  | _, _ => r == .ne

/-- the kind of an element type of the harness (Model.K): Trk, Mo and the Sm kinds are distinct classes with an
    implicit constructor from `int` -/
def kOf : Ty → K
  | .int => .int | .lng => .long | .sht => .short | .flt => .float
  | .trk => .fromInt 0 | .mo => .fromInt 1
  | .kc => .fromInt 2 | .kd => .fromInt 3 | .ka => .fromInt 4 | .kb => .fromInt 5 | .kq => .fromInt 6 | .kx => .fromInt 7
  | .null => .nullp

/-- implicit conversion sequence argument type → alternative type: the candidate table of the model (Model.candK) -/
def convTab (a t : Ty) : Option Cand := candK (kOf a) (kOf t)

/-- `is_constructible_v<T, A>` for the element types of the harness -/
def ctorOK (a t : Ty) : Bool :=
  a == t || (a.isArith && t.isArith) || (a.isArith && t.isClass)

/-- candidate for `forward<A>(a)` with `a` an lvalue (`lv?`) or rvalue: an lvalue of the move-only kind cannot be copied -/
def candOf (a : Ty) (lv? : Bool) (t : Ty) : Option Cand :=
  if a == t && lv? && t == .mo then none else convTab a t

/-- the argument as the selected alternative `t` sees it: of its own type (copied / moved) or converted to it -/
def argOf (a t : Ty) (lv? : Bool) (arg : Val) : Arg × Val :=
  if a == t then (if lv? then .lval else .rval, arg) else (.conv, convV t arg)

structure Live where
  kind : String
  tys : List Ty
  pty : Ty
  cfg : Cfg
  copyable : Bool
  m : Except Err (List (V Val))
  s : List (V Val)
  so : List (Option Val)
  se : List (Spec.E Val)
  part : List (Option Val)
  mr : List (Option Nat)
  sr : List (Option Nat)
  mcells : List Int
  scells : List Int

abbrev DState := Option Live

/-! formatting -/
def fmtVar (st : List (V Val)) : String := String.join (st.map fun v => s!" {v.idx}:{showV v.val}")
def fmtOptM (st : List (V Val)) : String := String.join (st.map fun v => if v.idx == 1 then " " ++ showV v.val else " -")
def fmtOptS (st : List (Option Val)) : String :=
  String.join (st.map fun o => match o with | some v => " " ++ showV v | none => " -")
def fmtExpM (st : List (V Val)) : String :=
  String.join (st.map fun v => (if v.idx == 0 then " v:" else " e:") ++ showV v.val)
def fmtE : Spec.E Val → String
  | .val x => "v:" ++ showV x
  | .err x => "e:" ++ showV x
def fmtExpS (st : List (Spec.E Val)) : String := String.join (st.map fun e => " " ++ fmtE e)
def fmtRef (st : List (Option Nat)) (cells : List Int) : String :=
  String.join (st.map fun o => match o with | some c => s!" c{c}" | none => " -") ++ " |" ++
    String.join (cells.map fun c => s!" {c}")

def stateM (lv : Live) (st : List (V Val)) : String :=
  match lv.kind with
  | "var" => fmtVar st
  | "opt" => fmtOptM st ++ " |" ++ fmtOptS lv.part
  | _ => fmtExpM st
def stateS (lv : Live) : String :=
  match lv.kind with
  | "var" => fmtVar lv.s
  | "opt" => fmtOptS lv.so ++ " |" ++ fmtOptS lv.part
  | _ => fmtExpS lv.se

def bits (f : Rel → Except Err Bool) : Except Err String :=
  Rel.all.foldlM (fun acc r => (f r).map fun b => acc ++ fmtBool b) ""
def bitsP (f : Rel → Bool) : String := String.join (Rel.all.map fun r => fmtBool (f r))

def optV (o : Option Val) : V Val := match o with | some v => ⟨1, v⟩ | none => ⟨0, nullv⟩

/-- finish a line: model result + model state, spec result + spec state -/
def fin (lv : Live) (mres : Except Err (String × List (V Val))) (sres : String) (lv' : Live) : DState × String :=
  match mres with
  | .ok (r, st) => (some { lv' with m := .ok st }, r ++ " |" ++ stateM lv' st ++ "\t" ++ sres ++ " |" ++ stateS lv')
  | .error e => (some { lv' with m := .error e }, e.fmt ++ "\t" ++ sres ++ " |" ++ stateS lv')

def ok (st : List (V Val)) : Except Err (String × List (V Val)) := .ok ("ok", st)

/-- model side of an operation given as a variant `Op` -/
def mop (lv : Live) (st : List (V Val)) (op : Op Val) : Except Err (List (V Val)) := step lv.cfg el st op

def tyAt (lv : Live) (i : Nat) : Option Ty := lv.tys[i]?

def stepVar (lv : Live) (st : List (V Val)) (l : Line) : Option (DState × String) :=
  match l.op with
  | "emplace" =>
    match l.nat? "s", l.nat? "i", l.int? "v" with
    | some k, some i, some n =>
      (tyAt lv i).map fun t =>
        let x := mkArg t n
        -- emplace<T>: ill-formed unless T occurs exactly once in Ts
        if (l.get? "via").isSome && lv.tys.count t != 1 then fin lv (.ok ("nc", st)) "nc" lv else
        fin lv ((mop lv st (.emplace k i x)).map fun st' => ("ret=" ++ showV x, st')) ("ret=" ++ showV x)
          { lv with s := Spec.step el fb lv.s (.emplace k i x) }
    | _, _, _ => none
  | "make" =>
    -- slot k is replaced by `variant(in_place_index<I>, mk<T_I>(n))`
    match l.nat? "s", l.nat? "i", l.int? "v" with
    | some k, some i, some n =>
      (tyAt lv i).map fun t =>
        let x := mkArg t n
        fin lv ((mop lv st (.make k i x)).bind ok) "ok" { lv with s := Spec.step el fb lv.s (.make k i x) }
    | _, _, _ => none
  | "assign" | "ctor" =>
    match l.nat? "s", l.nat? "from", l.nat? "mv" with
    | some k, some j, some mv =>
      if k ≥ st.length || j ≥ st.length then none
      else if mv == 0 && !lv.copyable then some (fin lv (.ok ("nc", st)) "nc" lv)
      else
        let op : Op Val := if l.op == "assign" then .assign k j (mv != 0) else .ctor k j (mv != 0)
        some (fin lv ((mop lv st op).bind ok) "ok" { lv with s := Spec.step el fb lv.s op })
    | _, _, _ => none
  | "swap" =>
    match l.nat? "s", l.nat? "with" with
    | some k, some j =>
      if k ≥ st.length || j ≥ st.length then none
      else some (fin lv ((mop lv st (.swap k j)).bind ok) "ok" { lv with s := Spec.step el fb lv.s (.swap k j) })
    | _, _ => none
  | "rel" =>
    match l.nat? "s", l.nat? "with" with
    | some k, some j =>
      match st[k]?, st[j]?, lv.s[k]?, lv.s[j]? with
      | some a, some b, some sa, some sb =>
        some (fin lv ((bits fun r => varRel lv.cfg relOps r a b).map fun r => (r, st))
          (bitsP fun r => Spec.varRel relOps r sa sb) lv)
      | _, _, _, _ => none
    | _, _ => none
  | "conv" =>
    -- `v = forward<A>(a)` / `variant(forward<A>(a))` for a named object `a` of type A (cat=l: `a`, cat=r: `std::move(a)`);
    -- the answer shows `a` afterwards
    match l.nat? "s", (l.str? "a").bind (fun s => s.toList.head?.bind tyOf), l.int? "v", l.str? "how" with
    | some k, some a, some n, some how =>
      if k ≥ st.length then none else
      let lv? := (l.str? "cat").getD "r" == "l"
      let cands := lv.tys.map (candOf a lv?)
      let arg := mkV a n
      let asg := how == "assign"
      match select cands, Spec.select cands with
      | none, none => some (fin lv (.ok ("nc", st)) "nc" lv)
      | some i, some si =>
        match lv.tys[i]?, lv.tys[si]? with
        | some t, some t' =>
          let (cat, x) := argOf a t lv? arg
          let (cat', x') := argOf a t' lv? arg
          let op : Op Val := .conv k i t.isClass asg cat x
          -- the hypothesis of convAssign_refines_partial / step_refines_partial for the detour through a temporary
          if !(decide (Spec.ConvOK el st op)) then none else
          let after (cat : Arg) (r : Val) : String := " a=" ++ showV (if cat == .conv then arg else r)
          let mres : Except Err (String × List (V Val)) := do
            let d ← rd st k
            let r ← if asg then convAssign lv.cfg el t.isClass cat d i x else convCtor lv.cfg el cat i x
            let st' ← mop lv st op
            .ok ("ok" ++ after cat r.2, st')
          let sarg : Val := match lv.s[k]? with
            | some sd => if asg then (Spec.convAssignV el fb cat' sd si x').2 else (Spec.convCtorV el cat' si x').2
            | none => arg
          some (fin lv mres ("ok" ++ after cat' sarg) { lv with s := Spec.step el fb lv.s (.conv k si t'.isClass asg cat' x') })
        | _, _ => none
      | _, _ => none     -- model and spec selection differ: cannot happen (select_eq); reported as bad-op
    | _, _, _, _ => none
  | "get_if" =>
    match l.nat? "s", l.nat? "i" with
    | some k, some i =>
      match st[k]?, lv.s[k]? with
      | some v, some sv =>
        if i ≥ lv.cfg.n then none else
        let f (o : Option Val) : String := match o with | some x => showV x | none => "null"
        if (l.get? "via").isSome && (lv.tys[i]?).any (fun t => lv.tys.count t != 1) then some (fin lv (.ok ("nc", st)) "nc" lv) else
        some (fin lv ((getIf v i).map fun o => (f o, st)) (f (Spec.getIf sv i)) lv)
      | _, _ => none
    | _, _ => none
  | "holds" =>
    match l.nat? "s", l.nat? "i" with
    | some k, some i =>
      match st[k]?, lv.s[k]? with
      | some v, some sv =>
        if i ≥ lv.cfg.n then none else
        if (lv.tys[i]?).any (fun t => lv.tys.count t != 1) then some (fin lv (.ok ("nc", st)) "nc" lv) else   -- holds_alternative<T>
        some (fin lv (.ok (fmtBool (holds v i), st)) (fmtBool (sv.idx == i)) lv)
      | _, _ => none
    | _, _ => none
  | "visit" =>
    match l.natList? "s" with
    | some ks =>
      let withIdx := (l.nat? "idx").getD 0 != 0
      match ks.mapM (fun k => st[k]?), ks.mapM (fun k => lv.s[k]?) with
      | some vs, some svs =>
        if vs.isEmpty || vs.length > 3 || (vs.length == 3 && lv.cfg.n > 3) then none else
        let item (i : Nat) (x : Val) : String := (if withIdx then s!"{i}=" else "") ++ showV x ++ ","
        let mres : Except Err (String × List (V Val)) := do
          let t ← visitWithIndex (vs.map fun _ => lv.cfg.n) (vs.map (·.idx))
          if t.length ≠ vs.length then .error (.pre "visit: arity")
          let items ← (vs.zip t).mapM fun (v, i) => (getAt v i).map (item i)
          .ok ("calls=1 ret=1 " ++ String.join items, st)
        some (fin lv mres ("calls=1 ret=1 " ++ String.join (svs.map fun v => item v.idx v.val)) lv)
      | _, _ => none
    | none => none
  | "visitp" =>
    -- non-variant arguments in visit: `variant_size` is 1 and `index` 0 for them, `get<0>` hands the argument on;
    -- pos=0: visit(f, n, v)   pos=1: visit(f, v, n)   pos=2: visit(f, n, n+1) (all sizes 1: the single instantiation)
    match l.nat? "s", l.nat? "pos", l.int? "v" with
    | some k, some pos, some n =>
      let withIdx := (l.nat? "idx").getD 0 != 0
      match st[k]?, lv.s[k]? with
      | some v, some sv =>
        if pos > 2 then none else
        let item (i : Nat) (x : Val) : String := (if withIdx then s!"{i}=" else "") ++ showV x ++ ","
        let pl (m : Int) : V Val := ⟨0, mkV .int m⟩
        let args (w : V Val) : List (Nat × V Val) :=
          if pos == 0 then [(1, pl n), (lv.cfg.n, w)] else if pos == 1 then [(lv.cfg.n, w), (1, pl n)] else [(1, pl n), (1, pl (n + 1))]
        let mres : Except Err (String × List (V Val)) := do
          let vs := args v
          let t ← visitWithIndex (vs.map (·.1)) (vs.map (·.2.idx))
          if t.length ≠ vs.length then .error (.pre "visit: arity")
          let items ← (vs.zip t).mapM fun ((_, w), i) => (getAt w i).map (item i)
          .ok ("calls=1 ret=1 " ++ String.join items, st)
        some (fin lv mres ("calls=1 ret=1 " ++ String.join ((args sv).map fun (_, w) => item w.idx w.val)) lv)
      | _, _ => none
    | _, _, _ => none
  | "vcat" =>
    -- value categories (0 T&, 1 T const&, 2 T&&, 3 T const&&): visit, unchecked_get and operator[] hand on the
    -- category of the variant they are given ([variant.visit], [variant.get]); a by-value visitor (`vis=take`)
    -- move constructs its parameter from an rvalue variant's alternative and copy constructs it otherwise.
    -- Observed, not proved: there is no theorem behind this table.
    match l.natList? "s", l.natList? "q", l.str? "vis" with
    | some ks, some qs, some vis =>
      let enabled := [[Ty.int, .trk], [.kq, .kx], [.int, .kd], [.trk, .int, .flt]].contains lv.tys
      if !enabled || ks.length != qs.length || ks.isEmpty || ks.length > 2 || qs.any (· > 3)
         || ks.any (· ≥ st.length) || (vis == "take" && ks.length == 2 && ks[0]? == ks[1]?) then none
      else if vis == "take" then
        let mres : Except Err (String × List (V Val)) := do
          let vs ← ks.mapM (fun k => rd st k)
          let t ← visitWithIndex (vs.map fun _ => lv.cfg.n) (vs.map (·.idx))
          if t.length ≠ vs.length then .error (.pre "visit: arity")
          let xs ← (vs.zip t).mapM fun (v, i) => getAt v i
          let items := (xs.zip qs).map fun (x, q) => showV (if q == 2 then (el.mc x).1 else el.cc x) ++ ","
          let st' ← ((ks.zip qs).zip xs).foldlM (fun acc ((k, q), x) =>
            if q == 2 then (rd acc k).bind fun v => put acc k { v with val := (el.mc x).2 } else .ok acc) st
          .ok ("take=" ++ String.join items, st')
        let svs := ks.filterMap fun k => lv.s[k]?
        let sitems := (svs.zip qs).map fun (v, q) => showV (if q == 2 then (el.mc v.val).1 else el.cc v.val) ++ ","
        let s' := (ks.zip qs).foldl (fun acc (k, q) =>
          match acc[k]? with
          | some v => if q == 2 then acc.set k { v with val := (el.mc v.val).2 } else acc
          | none => acc) lv.s
        some (fin lv mres ("take=" ++ String.join sitems) { lv with s := s' })
      else
        let r := "cat=" ++ String.join (qs.map toString) ++ " ct=0123 get=0123 sub=0123"
        some (fin lv (.ok (r, st)) r lv)
    | _, _, _ => none
  | _ => none

/-- optional: spec-side operation + its implementation on the variant member -/
def optDo (lv : Live) (st : List (V Val)) (op : Spec.OOp Val) (res : String) : DState × String :=
  fin lv ((mop lv st (Spec.optToVar nullv op)).map fun st' => (res, st')) res
    { lv with so := Spec.ostep el lv.so op }

def stepOpt (lv : Live) (st : List (V Val)) (l : Line) : Option (DState × String) :=
  let T := lv.tys.headD .int
  let inR (k : Nat) : Bool := k < st.length
  match l.op with
  | "reset" => (l.nat? "s").bind fun k => if inR k then some (optDo lv st (.reset k) "ok") else none
  | "null" =>
    match l.nat? "s", l.str? "how" with
    | some k, some how =>
      if !inR k then none
      else if how == "assign" then some (optDo lv st (.reset k) "ok")
      else some (fin lv ((mop lv st (.make k 0 nullv)).bind ok) "ok" { lv with so := Spec.ostep el lv.so (.reset k) })
    | _, _ => none
  | "emplace" =>
    match l.nat? "s", l.int? "v" with
    | some k, some n => if inR k then some (optDo lv st (.emplace k (mkArg T n)) ("ret=" ++ showV (mkArg T n))) else none
    | _, _ => none
  | "val" =>
    -- `o = forward<A>(a)` / `optional<T>(forward<A>(a))` for a named object `a` (cat=l|r); the answer shows `a` afterwards
    match l.nat? "s", (l.str? "a").bind (fun s => s.toList.head?.bind tyOf), l.int? "v", l.str? "how" with
    | some k, some a, some n, some how =>
      let lv? := (l.str? "cat").getD "r" == "l"
      if !inR k then none
      else if !ctorOK a T || (a == T && lv? && T == .mo) then some (fin lv (.ok ("nc", st)) "nc" lv)
      else
        let arg := mkV a n
        let (cat, x) := argOf a T lv? arg
        let asg := how == "assign"
        -- operator=(U&&) takes part in overload resolution unless T is scalar and U is T ([optional.assign]); otherwise
        -- the argument is converted to a temporary optional that is move assigned
        let direct := !(T.isArith && a == T)
        let op : Spec.OOp Val := .val k asg direct cat x
        if !(decide (Spec.ConvOK el st (Spec.optToVar nullv op))) then none else
        let after (r : Val) : String := " a=" ++ showV (if cat == .conv then arg else r)
        let mres : Except Err (String × List (V Val)) := do
          let d ← rd st k
          let r ← if asg then convAssign lv.cfg el direct cat d 1 x else convCtor lv.cfg el cat 1 x
          let st' ← mop lv st (Spec.optToVar nullv op)
          .ok ("ok" ++ after r.2, st')
        let sarg : Val := match lv.so[k]? with
          | some (some d) => if asg then (asgArg el cat d x).2 else (consArg el cat x).2
          | _ => (consArg el cat x).2
        some (fin lv mres ("ok" ++ after sarg) { lv with so := Spec.ostep el lv.so op })
    | _, _, _, _ => none
  | "assign" | "ctor" =>
    match l.nat? "s", l.nat? "from", l.nat? "mv" with
    | some k, some j, some mv =>
      if !inR k || !inR j then none
      else if mv == 0 && !lv.copyable then some (fin lv (.ok ("nc", st)) "nc" lv)
      else
        let op : Spec.OOp Val := if l.op == "assign" then .assign k j (mv != 0) else .ctor k j (mv != 0)
        some (optDo lv st op "ok")
    | _, _, _ => none
  | "swap" =>
    match l.nat? "s", l.nat? "with" with
    | some k, some j => if inR k && inR j then some (optDo lv st (.swap k j) "ok") else none
    | _, _ => none
  | "pset" =>
    (l.nat? "j").bind fun j =>
      if j ≥ lv.part.length then none else
      let p := (l.int? "v").map (mkV lv.pty)
      let lv' := { lv with part := lv.part.set j p }
      some (fin lv' (ok st) "ok" lv')
  | "conv" =>
    match l.nat? "s", l.nat? "from", l.str? "how" with
    | some k, some j, some how =>
      match lv.part[j]? with
      | none => none
      | some src =>
        if !inR k then none else
        -- [optional.assign] (optional<U>): source empty: reset; both engaged: `**this = *other`; else construct
        let sop : Spec.OOp Val := match src with
          | some u => .val k (how == "assign") true .conv (convV T u)
          | none => .reset k
        let mres : Except Err (String × List (V Val)) := do
          -- ctor: `_var{nullopt}` then `if (other.has_value()) emplace(*other)`;
          -- assign: reset() / `**this = *other` when engaged / emplace(*other)
          let st0 ← if how == "ctor" then mop lv st (.make k 0 nullv) else .ok st
          let st1 ← match src with
            | some u =>
              if how == "assign" then mop lv st0 (Spec.optToVar nullv sop)     -- the member template: Model.convAssign, direct
              else mop lv st0 (.emplace k 1 (convV T u))
            | none => if how == "ctor" then .ok st0 else mop lv st0 (.emplace k 0 nullv)
          ok st1
        some (fin lv mres "ok" { lv with so := Spec.ostep el lv.so sop })
    | _, _, _ => none
  | "rel" =>
    match l.nat? "s", l.nat? "with" with
    | some k, some j =>
      match st[k]?, st[j]?, lv.so[k]?, lv.so[j]? with
      | some a, some b, some sa, some sb =>
        some (fin lv ((bits fun r => optRel relOps r a b).map fun r => (r, st)) (bitsP fun r => Spec.optRel relOps r sa sb) lv)
      | _, _, _, _ => none
    | _, _ => none
  | "relm" =>
    match l.nat? "s", l.nat? "with" with
    | some k, some j =>
      match st[k]?, lv.part[j]?, lv.so[k]? with
      | some a, some p, some sa =>
        let mres := do
          let x ← bits fun r => optRel relOps r a (optV p)
          let y ← bits fun r => optRel relOps r (optV p) a
          .ok (x ++ y, st)
        some (fin lv mres ((bitsP fun r => Spec.optRel relOps r sa p) ++ (bitsP fun r => Spec.optRel relOps r p sa)) lv)
      | _, _, _ => none
    | _, _ => none
  | "reln" =>
    (l.nat? "s").bind fun k =>
      match st[k]?, lv.so[k]? with
      | some a, some sa =>
        some (fin lv (.ok ((bitsP fun r => optRelNullR r a) ++ (bitsP fun r => optRelNullL r a), st))
          ((bitsP fun r => Spec.optRel relOps r sa (none : Option Val)) ++ (bitsP fun r => Spec.optRel relOps r (none : Option Val) sa)) lv)
      | _, _ => none
  | "relv" =>
    match l.nat? "s", l.str? "a", l.int? "v" with
    | some k, some a, some n =>
      match st[k]?, lv.so[k]? with
      | some o, some so =>
        let y := if a == "own" then mkV T n else mkV lv.pty n
        let mres := do
          let x ← bits fun r => optRelValR relOps r o y
          let z ← bits fun r => optRelValL relOps relOps r y o
          .ok (x ++ z, st)
        some (fin lv mres ((bitsP fun r => Spec.optRel relOps r so (some y)) ++ (bitsP fun r => Spec.optRel relOps r (some y) so)) lv)
      | _, _ => none
    | _, _, _ => none
  | "has" =>
    (l.nat? "s").bind fun k =>
      match st[k]?, lv.so[k]? with
      | some v, some sv =>
        let f (b : Bool) := fmtBool b ++ fmtBool b ++ fmtBool b
        some (fin lv (.ok (f (hasValue v), st)) (f sv.isSome) lv)
      | _, _ => none
  | "value_or" =>
    match l.nat? "s", l.int? "v" with
    | some k, some n =>
      let mv := (l.nat? "mv").getD 0 != 0
      match st[k]?, lv.so[k]? with
      | some v, some sv =>
        if !mv && !lv.copyable then some (fin lv (.ok ("nc", st)) "nc" lv) else
        -- Model.valueOrCat / Spec.valueOrCatO (theorem valueOrCat_eq)
        let mres : Except Err (String × List (V Val)) := do
          let (r, v') ← valueOrCat el mv v (mkV T n)
          let st' ← put st k v'
          .ok (showV r, st')
        let (sr, so') := Spec.valueOrCatO el mv sv (mkV T n)
        some (fin lv mres (showV sr) { lv with so := lv.so.set k so' })
      | _, _ => none
    | _, _ => none
  | "and_then" =>
    match l.nat? "s", l.str? "f" with
    | some k, some f =>
      match st[k]?, lv.so[k]? with
      | some v, some sv =>
        let g (x : Val) : Option Val := if f == "none" then none else some (el.mc (bump x)).1
        let sh (calls : Nat) (o : Option Val) : String := s!"calls={calls} " ++ (match o with | some x => showV x | none => "-")
        let mres : Except Err (String × List (V Val)) := do
          let r ← andThen v g
          .ok ((match r with | some o => sh 1 o | none => sh 0 none), st)
        some (fin lv mres (match sv with | some x => sh 1 (g x) | none => sh 0 none) lv)
      | _, _ => none
    | _, _ => none
  | "or_else" =>
    (l.nat? "s").bind fun k =>
      let mv := (l.nat? "mv").getD 0 != 0
      let alt : Option Val := (l.int? "v").map (mkArg T)
      match st[k]?, lv.so[k]? with
      | some v, some sv =>
        if !mv && !lv.copyable then some (fin lv (.ok ("nc", st)) "nc" lv) else
        let sh (calls : Nat) (o : Option Val) : String := s!"calls={calls} " ++ (match o with | some x => showV x | none => "-")
        -- Model.orElseCat / Spec.orElseCatO (theorem orElseCat_eq)
        let mres : Except Err (String × List (V Val)) := do
          let (r, v') ← orElseCat el mv v
          let st' ← put st k v'
          .ok ((match r with | some x => sh 0 (some x) | none => sh 1 alt), st')
        let (sr, so') := Spec.orElseCatO el mv sv
        some (fin lv mres (match sr with | some x => sh 0 (some x) | none => sh 1 alt) { lv with so := lv.so.set k so' })
      | _, _ => none
  | "value" =>   -- etl::optional has no value(): known finding F-C07-no-checked-value-access
    (l.nat? "s").bind fun k =>
      match lv.so[k]? with
      | some sv => some (fin lv (.ok ("nc", st)) (match sv with | some x => showV x | none => "throw") lv)
      | none => none
  | "ocat" =>
    -- operator* and and_then hand on the value category of the optional ([optional.observe], [optional.monadic]);
    -- `take=1`: `T x = *<category>(o)` move constructs from an rvalue optional, copy constructs otherwise.  Observed.
    match l.nat? "s", l.nat? "q" with
    | some k, some q =>
      match st[k]?, lv.so[k]? with
      | some v, some sv =>
        if q > 3 then none
        else if !lv.copyable then some (fin lv (.ok ("nc", st)) "nc" lv) else
        let take := (l.nat? "take").isSome
        let sh (has : Bool) (t : Option Val) : String :=
          "deref=0123 at=" ++ (if has then toString q else "-1") ++ " take=" ++ (match t with | some x => showV x | none => "-")
        let got (x : Val) : Val := if q == 2 then (el.mc x).1 else el.cc x
        let mres : Except Err (String × List (V Val)) :=
          if hasValue v then do
            let x ← deref v
            let st' ← if take && q == 2 then put st k { v with val := (el.mc x).2 } else .ok st
            .ok (sh true (if take then some (got x) else none), st')
          else .ok (sh false none, st)
        let so' := if take && q == 2 then lv.so.set k (sv.map fun x => (el.mc x).2) else lv.so
        some (fin lv mres (sh sv.isSome (if take then sv.map got else none)) { lv with so := so' })
      | _, _ => none
    | _, _ => none
  | _ => none

def expDo (lv : Live) (st : List (V Val)) (viaEmplace : Bool) (op : Spec.EOp Val) (res : String) : DState × String :=
  fin lv ((mop lv st (Spec.expToVar viaEmplace op)).map fun st' => (res, st')) res
    { lv with se := Spec.estep el fb lv.se op }

def stepExp (lv : Live) (st : List (V Val)) (l : Line) : Option (DState × String) :=
  let T := lv.tys.headD .int
  let E := (lv.tys[1]?).getD .int
  let inR (k : Nat) : Bool := k < st.length
  match l.op with
  | "ctor_def" => (l.nat? "s").bind fun k => if inR k then some (expDo lv st false (.setVal k (mkV T 0)) "ok") else none
  | "ctor_val" =>
    match l.nat? "s", l.int? "v" with
    | some k, some n => if inR k then some (expDo lv st false (.setVal k (mkArg T n)) "ok") else none
    | _, _ => none
  | "ctor_err" =>
    match l.nat? "s", l.int? "v" with
    | some k, some n => if inR k then some (expDo lv st false (.setErr k (mkArg E n)) "ok") else none
    | _, _ => none
  | "emplace" =>
    match l.nat? "s", l.int? "v" with
    | some k, some n => if inR k then some (expDo lv st true (.setVal k (mkArg T n)) ("ret=" ++ showV (mkArg T n))) else none
    | _, _ => none
  | "assign_unex" =>   -- etl::expected has no operator=(unexpected<G>): known finding F-C07-expected-no-unexpected-assign
    match l.nat? "s", l.int? "v" with
    | some k, some n => if inR k then some (fin lv (.ok ("nc", st)) ("ok=e:" ++ showV (el.ma (mkV E 0) (mkArg E n)).1) lv) else none
    | _, _ => none
  | "assign" | "ctor" =>
    match l.nat? "s", l.nat? "from", l.nat? "mv" with
    | some k, some j, some mv =>
      if !inR k || !inR j then none
      else if mv == 0 && !lv.copyable then some (fin lv (.ok ("nc", st)) "nc" lv)
      else
        let op : Spec.EOp Val := if l.op == "assign" then .assign k j (mv != 0) else .ctor k j (mv != 0)
        some (expDo lv st false op "ok")
    | _, _, _ => none
  | "swap" =>
    match l.nat? "s", l.nat? "with" with
    | some k, some j => if inR k && inR j then some (expDo lv st false (.swap k j) "ok") else none
    | _, _ => none
  | "has" =>
    (l.nat? "s").bind fun k =>
      match st[k]?, lv.se[k]? with
      | some v, some sv =>
        let f (b : Bool) := fmtBool b ++ fmtBool b ++ fmtBool b
        some (fin lv (.ok (f (expHas v), st)) (f (match sv with | .val _ => true | .err _ => false)) lv)
      | _, _ => none
  | "value_or" =>
    match l.nat? "s", l.int? "v" with
    | some k, some n =>
      let mv := (l.nat? "mv").getD 0 != 0
      match st[k]?, lv.se[k]? with
      | some v, some sv =>
        if !mv && T == .mo then some (fin lv (.ok ("nc", st)) "nc" lv) else
        -- Model.expValueOrCat / Spec.valueOrCatE (theorem expValueOrCat_eq)
        let mres : Except Err (String × List (V Val)) := do
          let (r, v') ← expValueOrCat el mv v (mkV T n)
          let st' ← put st k v'
          .ok (showV r, st')
        let (sr, se') := Spec.valueOrCatE el mv sv (mkV T n)
        some (fin lv mres (showV sr) { lv with se := lv.se.set k se' })
      | _, _ => none
    | _, _ => none
  | "value" =>   -- etl::expected has no value(): known finding F-C07-no-checked-value-access
    (l.nat? "s").bind fun k =>
      match lv.se[k]? with
      | some sv => some (fin lv (.ok ("nc", st)) (match sv with | .val x => showV x | .err _ => "throw") lv)
      | none => none
  | "rel" =>     -- etl::expected has no operator==: known finding F-C07-expected-no-equality
    match l.nat? "s", l.nat? "with" with
    | some k, some j =>
      match lv.se[k]?, lv.se[j]? with
      | some a, some b =>
        -- [expected.object.eq]: both values: *x == *y; both errors: x.error() == y.error(); otherwise false
        let eq : Bool := match a, b with
          | .val x, .val y => relOps .eq x y
          | .err x, .err y => relOps .eq x y
          | _, _ => false
        some (fin lv (.ok ("nc", st)) (fmtBool eq ++ fmtBool (!eq)) lv)
      | _, _ => none
    | _, _ => none
  | "and_then" =>
    match l.nat? "s", l.str? "f" with
    | some k, some f =>
      let n := (l.int? "v").getD 0
      match st[k]?, lv.se[k]? with
      | some v, some sv =>
        if !lv.copyable then some (fin lv (.ok ("nc", st)) "nc" lv) else
        let g (x : Val) : Spec.E Val := if f == "fail" then .err (mkArg E n) else .val (el.mc (bump x)).1
        let mres : Except Err (String × List (V Val)) :=
          (expAndThen v (fun x => "calls=1 " ++ fmtE (g x)) (fun e => "calls=0 " ++ fmtE (.err (el.cc e)))).map   -- `U(unexpect, error())`
            fun r => (r, st)
        some (fin lv mres (sv.andThen (fun x => "calls=1 " ++ fmtE (g x)) (fun e => "calls=0 " ++ fmtE (.err (el.cc e)))) lv)
      | _, _ => none
    | _, _ => none
  | "or_else" =>
    match l.nat? "s", l.str? "f" with
    | some k, some f =>
      let n := (l.int? "v").getD 0
      match st[k]?, lv.se[k]? with
      | some v, some sv =>
        if !lv.copyable then some (fin lv (.ok ("nc", st)) "nc" lv) else
        let g (e : Val) : Spec.E Val := if f == "recover" then .val (mkArg T n) else .err (el.mc (bump e)).1
        let mres : Except Err (String × List (V Val)) :=
          (expOrElse v (fun x => "calls=0 " ++ fmtE (.val (el.cc x))) (fun e => "calls=1 " ++ fmtE (g e))).map    -- `G(in_place, **this)`
            fun r => (r, st)
        some (fin lv mres (sv.orElse (fun x => "calls=0 " ++ fmtE (.val (el.cc x))) (fun e => "calls=1 " ++ fmtE (g e))) lv)
      | _, _ => none
    | _, _ => none
  | "ecat" =>
    -- operator*, error() and the argument and_then / or_else hand to f carry the value category of the expected
    -- ([expected.object.obs], [expected.object.monadic]).  Observed, not proved.
    match l.nat? "s", l.nat? "q" with
    | some k, some q =>
      match st[k]?, lv.se[k]? with
      | some v, some sv =>
        if q > 3 then none
        else if !lv.copyable then some (fin lv (.ok ("nc", st)) "nc" lv) else
        let sh (has : Bool) : String :=
          "deref=0123 err=0123 at=" ++ (if has then toString q else "-1") ++ " oe=" ++ (if has then "-1" else toString q)
        -- on an rvalue expected (q = 2) or_else moves the value out (`G(in_place, move(**this))`) and and_then moves the
        -- error out (`U(unexpect, move(error()))`)
        let mres : Except Err (String × List (V Val)) := do
          let x ← getAt v v.idx
          let st' ← if q == 2 then put st k { v with val := (el.mc x).2 } else .ok st
          .ok (sh (v.idx == 0), st')
        let se' := if q == 2 then lv.se.set k (match sv with | .val x => .val (el.mc x).2 | .err x => .err (el.mc x).2) else lv.se
        some (fin lv mres (sh (match sv with | .val _ => true | .err _ => false)) { lv with se := se' })
      | _, _ => none
    | _, _ => none
  | _ => none

/-- optional<int&>: the model is the `_ptr` member (a cell number or null); the reference semantics is the same
    nullable reference, compared through the referents -/
def stepRef (lv : Live) (l : Line) : Option (DState × String) :=
  let n := lv.mr.length
  let out (lv' : Live) (mr : String) (sr : String) : DState × String :=
    (some lv', mr ++ " |" ++ fmtRef lv'.mr lv'.mcells ++ "\t" ++ sr ++ " |" ++ fmtRef lv'.sr lv'.scells)
  let refV (cells : List Int) (o : Option Nat) : Option Val := o.bind fun c => (cells[c]?).map (mkV .int)
  match l.op with
  | "bind" =>
    match l.nat? "s", l.nat? "c", l.str? "how" with
    | some k, some c, some how =>
      if k ≥ n || c ≥ lv.mcells.length || !(how == "ctor" || how == "assign" || how == "emplace") then none
      else some (out { lv with mr := lv.mr.set k (some c), sr := lv.sr.set k (some c) } "ok" "ok")
    | _, _, _ => none
  | "null" | "reset" =>
    (l.nat? "s").bind fun k =>
      if k ≥ n then none else some (out { lv with mr := lv.mr.set k none, sr := lv.sr.set k none } "ok" "ok")
  | "assign" | "ctor" =>
    match l.nat? "s", l.nat? "from" with
    | some k, some j =>
      match lv.mr[j]?, lv.sr[j]? with
      | some a, some b => if k ≥ n then none else some (out { lv with mr := lv.mr.set k a, sr := lv.sr.set k b } "ok" "ok")
      | _, _ => none
    | _, _ => none
  | "swap" =>
    match l.nat? "s", l.nat? "with" with
    | some k, some j =>
      match lv.mr[k]?, lv.mr[j]?, lv.sr[k]?, lv.sr[j]? with
      | some a, some b, some sa, some sb =>
        -- etl::swap(_ptr, rhs._ptr): temp = a; a = b; b = temp
        some (out { lv with mr := (lv.mr.set k b).set j a, sr := (lv.sr.set k sb).set j sa } "ok" "ok")
      | _, _, _, _ => none
    | _, _ => none
  | "write" =>
    match l.nat? "s", l.int? "v" with
    | some k, some v =>
      match lv.mr[k]?, lv.sr[k]? with
      | some (some c), some (some d) =>
        some (out { lv with mcells := lv.mcells.set c v, scells := lv.scells.set d v } "ok" "ok")
      | some none, some none => some (out lv "empty" "empty")
      | _, _ => none
    | _, _ => none
  | "get" =>
    (l.nat? "s").bind fun k =>
      match lv.mr[k]?, lv.sr[k]? with
      | some a, some b =>
        let f (o : Option Val) : String := match o with | some x => showV x ++ "1" | none => "-0"
        some (out lv (f (refV lv.mcells a)) (f (refV lv.scells b)))
      | _, _ => none
  | "rel" =>
    match l.nat? "s", l.nat? "with" with
    | some k, some j =>
      match lv.mr[k]?, lv.mr[j]?, lv.sr[k]?, lv.sr[j]? with
      | some a, some b, some sa, some sb =>
        let m := bits fun r => optRel relOps r (optV (refV lv.mcells a)) (optV (refV lv.mcells b))
        some (out lv (match m with | .ok s => s | .error e => e.fmt)
          (bitsP fun r => Spec.optRel relOps r (refV lv.scells sa) (refV lv.scells sb)))
      | _, _, _, _ => none
    | _, _ => none
  | "reln" =>
    (l.nat? "s").bind fun k =>
      match lv.mr[k]?, lv.sr[k]? with
      | some a, some sa =>
        let v := optV (refV lv.mcells a)
        let sv := refV lv.scells sa
        some (out lv ((bitsP fun r => optRelNullR r v) ++ (bitsP fun r => optRelNullL r v))
          ((bitsP fun r => Spec.optRel relOps r sv (none : Option Val)) ++ (bitsP fun r => Spec.optRel relOps r (none : Option Val) sv)))
      | _, _ => none
  | "conv" =>
    -- optional<T&>(optional<U> const&) / operator=(optional<U> const&): Model.orefConv on the address the source holds
    -- (its `_ptr`; for an optional<int> source the address of its storage, placed behind the cells), P2988 wording =
    -- Spec.orefConv.  Which overload the source form selects is the compiler's (validated by R1 on every form).
    match l.nat? "s", l.str? "how", l.str? "src" with
    | some k, some how, some src =>
      let pre := l.nat? "pre"
      if !(["ctor", "implicit", "assign"].contains how) || !(["ref", "cref", "rref", "val", "cval"].contains src) then none
      else if (l.get? "pre").isSome && (how != "assign" || (pre.getD lv.mcells.length) ≥ lv.mcells.length) then none
      else
      match lv.mr[k]?, lv.sr[k]? with
      | some a, some sa =>
        let isVal := src == "val" || src == "cval"
        let side (cells : List Int) (p : Option Nat) : List Int × Option Nat :=
          if isVal then
            match p.bind (cells[·]?) with
            | some v => (cells ++ [v], some cells.length)
            | none => (cells, none)
          else (cells, p)
        let ms := side lv.mcells a
        let ss := side lv.scells sa
        let sh (mem : List Int) (want r : Option Nat) : String :=
          match r with
          | none => "-"
          | some q =>
            if some q == want then (match mem[q]? with | some v => showV (mkV .int v) ++ " p=1" | none => "oob")
            else "engaged p=0"
        let m := match orefConv ms.2 with
          | .ok r => sh ms.1 ms.2 r
          | .error e => e.fmt
        some (out lv m (sh ss.1 ss.2 (Spec.orefConv ss.2)))
      | _, _ => none
    | _, _, _ => none
  | _ => none

/-- kinds of the selector probes (`new kind=sel`) -/
def kindOf : Char → Option K
  | 'b' => some .bool | 'h' => some .char | 's' => some .short | 'i' => some .int | 'l' => some .long | 'u' => some .uint
  | 'f' => some .float | 'd' => some .double | 'p' => some .cptr | 'P' => some .iptr | 'v' => some .vptr
  | 'n' => some .nullp | 'L' => some .lit | 'e' => some .uenum | 'E' => some .senum
  | 'T' => some (.fromPtr 0) | 'N' => some (.fromInt 0) | 'I' => some .toInt
  | _ => none

/-- `variant<alts...>(forward<A>(a)).index()` / after `v = forward<A>(a)`: model = the selector of the library
    (Model.selectK), spec = [variant.ctor]/14 (Spec.selectK, = Spec.selects by Props.selectK_eq); both forms select alike -/
def stepSel (l : Line) : Option String :=
  match l.op with
  | "sel" =>
    match (l.str? "a").bind (fun s => s.toList.head?.bind kindOf), (l.str? "alts").bind (fun s => s.toList.mapM kindOf), l.str? "how" with
    | some a, some alts, some how =>
      if alts.isEmpty || !(how == "ctor" || how == "assign") || [K.lit, .toInt].any alts.contains then none else
      let f (o : Option Nat) : String := match o with | some i => toString i | none => "nc"
      some (f (selectK a alts) ++ " |\t" ++ f (Spec.selectK a alts) ++ " |")
    | _, _, _ => none
  | _ => none

/-! ### `new kind=mv`: visit over arguments of DIFFERENT variant types (no state) -/

/-- alternative types of the argument kinds of `mvis`: 0 = a non-variant `int` (`variant_size` 1, `index` 0, `get<0>` hands
    the argument on), k = 1..4 = `variant<long>`, `variant<int,Trk>`, `variant<Trk,float,int>`, `variant<float,int,long,Trk>` -/
def mvTys : Nat → Option (List Ty)
  | 0 => some [.int]
  | 1 => some [.lng]
  | 2 => some [.int, .trk]
  | 3 => some [.trk, .flt, .int]
  | 4 => some [.flt, .int, .lng, .trk]
  | _ => none

/-- the (kinds, categories) combinations the harness compiles (harness/c07.cpp mv_ok2 / mv_ok3; checks/props/c07.py mv_lines) -/
def mvOK (ks qs : List Nat) : Bool :=
  ks.length == qs.length && ks.all (· ≤ 4) && qs.all (· ≤ 3) &&
  match ks, qs with
  | [_], [_] => true
  | [k0, k1], [q0, q1] =>
    (k0 == 3 && k1 == 2) || (k0 == 2 && k1 == 3) || q0 == q1 || (q0 == 0 && q1 == 2) || (q0 == 3 && q1 == 1)
  | [k0, k1, k2], q =>
    (q == [1, 1, 1] || q == [2, 0, 3]) &&
    (let z := [k0, k1, k2].count 0
     (z == 0 && [k0, k1, k2].all (fun k => 1 ≤ k && k ≤ 3)) || (z == 1 && [k0, k1, k2].all (fun k => k == 0 || k == 2 || k == 3)))
  | k, q => (k == [3, 2, 2, 3] || k == [2, 2, 3, 3]) && q == [0, 1, 2, 3]

/-- model = `Model.visitN` (the `next_seq` recursion over `index_sequence<variant_size<Vs>()...>`, every `get<I>` behind the
    `I == index()` check), spec = [variant.visit] (`Spec.visitN`: the active alternative of every argument); equal by
    `Props.visitN_active`.  The reference kind each argument arrives as is the forwarding table of the standard (category in =
    category out): observed, not proved. -/
def stepMv (l : Line) : Option String :=
  match l.op with
  | "mvis" =>
    match l.natList? "k", l.natList? "act", l.natList? "v", l.natList? "q" with
    | some ks, some acts, some vals, some qs =>
      if !(mvOK ks qs) || acts.length != ks.length || vals.length != ks.length then none else
      let withIdx := (l.nat? "idx").getD 0 != 0
      let mk1 (k : Nat) (a : Nat) (n : Nat) : Option (Nat × V Val) :=
        (mvTys k).bind fun tys => (tys[a]?).map fun t => (tys.length, ⟨a, mkV t (Int.ofNat n)⟩)
      match ((ks.zip acts).zip vals).mapM (fun ((k, a), n) => mk1 k a n) with
      | none => none
      | some vs =>
        let item (q : Nat) (p : Nat × Val) : String := (if withIdx then s!"{p.1}=" else "") ++ s!"{q}:" ++ showV p.2 ++ ","
        let fmt (ps : List (Nat × Val)) : String := "calls=1 ret=1 " ++ String.join ((qs.zip ps).map fun (q, p) => item q p) ++ " |"
        let m := match visitN vs with
          | .ok ps => fmt ps
          | .error e => e.fmt
        some (m ++ "\t" ++ fmt (Spec.visitN (vs.map (·.2))))
    | _, _, _, _ => none
  | _ => none

def newLive (l : Line) : Option Live :=
  match l.str? "kind" with
  | some kind =>
    let n := (l.nat? "n").getD 3
    if n == 0 || n > 4 then none else
    let alts : String := match l.get? "alts" with
      | some (.str s) => s
      | _ => ""
    match alts.toList.mapM tyOf with
    | none => none
    | some tys =>
      let copyable := !tys.contains .mo
      let base : Live := { kind := kind, tys := tys, pty := .int, cfg := cfgOf tys, copyable := copyable,
                           m := .ok [], s := [], so := [], se := [], part := [], mr := [], sr := [], mcells := [], scells := [] }
      match kind with
      | "var" =>
        if !(["if", "fi", "it", "ti", "tif", "ift", "tm", "iftm", "fm", "ic", "id", "ia", "ib", "qx", "cb", "ii",
                  "tit", "qiq", "mm"].contains alts) then none else
        let d : V Val := ⟨0, mkV (tys.headD .int) 0⟩
        some { base with m := .ok (List.replicate n d), s := List.replicate n d }
      | "opt" =>
        if !(["i", "f", "t", "m", "c", "d", "a", "b", "x"].contains alts) then none else
        let d : V Val := ⟨0, nullv⟩
        some { base with cfg := cfgOf (.null :: tys), pty := (if alts == "i" then .lng else .int),
                         m := .ok (List.replicate n d), so := List.replicate n none, part := List.replicate n none }
      | "exp" =>
        if !(["it", "ti", "if", "tm", "ic", "qx", "db"].contains alts) then none else
        let d : V Val := ⟨0, mkV (tys.headD .int) 0⟩
        some { base with m := .ok (List.replicate n d), se := List.replicate n (.val d.val) }
      | "oref" =>
        some { base with mr := List.replicate n none, sr := List.replicate n none,
                         mcells := [10, 20, 30], scells := [10, 20, 30] }
      | "sel" => some base
      | "mv" => some base
      | _ => none
  | none => none

def step (st : DState) (l : Line) : DState × String :=
  let bad := (st, "bad-op\tbad-op")
  if l.op == "new" then
    match newLive l with
    | none => (none, "bad-op\tbad-op")
    | some lv =>
      if lv.kind == "sel" || lv.kind == "mv" then (some lv, "ok |\tok |")
      else if lv.kind == "oref" then
        (some lv, "ok |" ++ fmtRef lv.mr lv.mcells ++ "\tok |" ++ fmtRef lv.sr lv.scells)
      else
        match lv.m with
        | .ok ms => (some lv, "ok |" ++ stateM lv ms ++ "\tok |" ++ stateS lv)
        | .error e => (some lv, e.fmt ++ "\tok |" ++ stateS lv)
  else
    match st with
    | none => bad
    | some lv =>
      if lv.kind == "sel" then (match stepSel l with | some r => (st, r) | none => bad)
      else if lv.kind == "mv" then (match stepMv l with | some r => (st, r) | none => bad)
      else if lv.kind == "oref" then (stepRef lv l).getD bad
      else
        match lv.m with
        | .error e => (st, e.fmt ++ "\t*")
        | .ok ms =>
          let r := match lv.kind with
            | "var" => stepVar lv ms l
            | "opt" => stepOpt lv ms l
            | _ => stepExp lv ms l
          r.getD bad

end Tetl.C07.Driver

def main : IO Unit := Tetl.Proto.runDriver (none : Tetl.C07.Driver.DState) Tetl.C07.Driver.step
