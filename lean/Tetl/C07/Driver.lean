/- placeholder: the C07 driver is not built yet -/
def main : IO Unit := IO.println "C07: driver not built yet"
