/-
C07 — model of `etl::variant` (include/etl/_variant/variant.hpp), `etl::visit` /
`etl::visit_with_index` (include/etl/_variant/visit.hpp), the converting-constructor selector
(include/etl/_variant/variant_alternative_selector.hpp), the generic `etl::swap`
(include/etl/_utility/swap.hpp), and of `etl::optional` (= `variant<nullopt_t,T>`, index 1 = engaged,
include/etl/_optional/optional.hpp), `etl::optional<T&>` (a nullable pointer) and `etl::expected`
(= `variant<T,E>`, index 0 = value, include/etl/_expected/expected.hpp), *as they are after the
`fix:` commits of the branches fix-c07, fix-c07b and fix-c07r* (see known_findings.d/C07.json).

A variant object is its `_index` and the value of the active union member.  Every access to a
union member goes through `getAt` (the `TETL_PRECONDITION(I == index())` of `operator[]` /
`unchecked_get`): reading an inactive member is `.error (.pre _)`.  `visit_with_index` is
modelled with its actual recursion: start at the all-zero index tuple, compare the tuple of
`index()` values with the current instantiation, otherwise continue with `next_seq`, a
mixed-radix increment (least significant digit first) that wraps to all zeros; the instantiation
reached when the increment wraps is called without a test.  All members that the C++ implements
through `visit` (`destroy`, copy/move construction, `assign`, the relational operators) are
implemented through `visitWithIndex` here, so "the model never returns `.error`" says that the
dispatch always lands on the active alternatives.

Element types are abstract: an `Elem` gives what copy construction, move construction, copy assignment and
move assignment of an element do to values (new object and, for the move forms, the moved-from source), so
*which* special member an operation of the variant uses is visible in the stored value.
-/
import Tetl.Common
namespace Tetl.C07

/-! ### visit / visit_with_index -/

/-- `detail::next_seq(index_sequence<I, Is...>, index_sequence<J, Js...>)`:
    `if (I + 1 == J) prepend<0>(next_seq(Is..., Js...)) else index_sequence<I + 1, Is...>` -/
def nextSeq : List Nat → List Nat → List Nat
  | i :: is, j :: js => if i + 1 = j then 0 :: nextSeq is js else (i + 1) :: is
  | _, _ => []

/-- `detail::visit_with_index(i, m, f, vs...)`: returns the index tuple `Is...` the visitor is
    instantiated and called with.  `n = next_seq(i, m)`; `if (sum(n) == 0) call` (last tuple, no test);
    `else if (tuple(index(vs)...) == tuple(Is...)) call; else recurse on n`.
    The first argument bounds the recursion depth (template instantiation depth in the C++). -/
def visitLoop : Nat → List Nat → List Nat → List Nat → Except Err (List Nat)
  | 0, _, _, _ => .error .fuel
  | fuel + 1, cur, sizes, act =>
    if (nextSeq cur sizes).sum = 0 then .ok cur
    else if act = cur then .ok cur
    else visitLoop fuel (nextSeq cur sizes) sizes act

def prod : List Nat → Nat
  | [] => 1
  | j :: js => j * prod js

/-- `etl::visit_with_index(f, vs...)`: all sizes 1 → the single instantiation `0...`;
    otherwise the recursion from `index_sequence<0...>`. `sizes` = `variant_size` of each
    argument, `act` = `index()` of each argument. -/
def visitWithIndex (sizes act : List Nat) : Except Err (List Nat) :=
  if sizes.all (· == 1) then .ok (sizes.map fun _ => 0)
  else visitLoop (prod sizes) (sizes.map fun _ => 0) sizes act

/-! ### variant -/

structure V (α : Type) where
  idx : Nat
  val : α
  deriving Repr, DecidableEq, Inhabited

/-- static configuration of a `variant<Ts...>`: number of alternatives, and which of the variant's four
    special members are the defaulted (bitwise) ones.  `trivCC` = all alternatives trivially copy constructible,
    `trivMC` = all trivially move constructible, `trivCA` = all `detail::variant_trivially_copy_assignable`
    (trivially copy constructible *and* trivially copy assignable), `trivMA` = all
    `detail::variant_trivially_move_assignable` (trivially move constructible and trivially move assignable):
    the `requires` clauses of the four user-provided members in variant.hpp. -/
structure Cfg where
  n : Nat
  trivCC : Bool
  trivMC : Bool
  trivCA : Bool
  trivMA : Bool
  deriving Repr

/-- what the special members of the element types do, as functions on element values:
    `cc s` = the object `T(s)` (copy construction), `mc s` = (`T(move(s))`, `s` afterwards),
    `ca d s` = `d` after `d = s`, `ma d s` = (`d`, `s`) after `d = move(s)` (two distinct objects).
    No laws are assumed: a type whose copy constructor, move constructor, copy assignment and move
    assignment each leave a different mark in the value is an instance. -/
structure Elem (α : Type) where
  cc : α → α
  mc : α → α × α
  ca : α → α → α
  ma : α → α → α × α

variable {α : Type}

/-- `_union[index_v<I>]` behind `TETL_PRECONDITION(I == index())` -/
def getAt (v : V α) (i : Nat) : Except Err α :=
  if v.idx = i then .ok v.val else .error (.pre "variant::operator[]: I == index()")

/-- `etl::visit(f, v)` on one variant: the visitor receives `get<I>(v)` for the `I` the dispatch reaches -/
def visit1 (c : Cfg) (v : V α) : Except Err (Nat × α) :=
  match visitWithIndex [c.n] [v.idx] with
  | .error e => .error e
  | .ok [i] => (getAt v i).map fun x => (i, x)
  | .ok _ => .error (.pre "visit: arity")

/-- `etl::visit(f, a, b)` on two variants of the same type -/
def visit2 (c : Cfg) (a b : V α) : Except Err ((Nat × α) × (Nat × α)) :=
  match visitWithIndex [c.n, c.n] [a.idx, b.idx] with
  | .error e => .error e
  | .ok [i, j] =>
    match getAt a i, getAt b j with
    | .ok x, .ok y => .ok ((i, x), (j, y))
    | .error e, _ => .error e
    | _, .error e => .error e
  | .ok _ => .error (.pre "visit: arity")

/-- `etl::visit(f, vs...)` / `etl::visit_with_index(f, vs...)` over any number of arguments, every argument with its
    OWN number of alternatives: `vs` lists `(variant_size<V_k>(), v_k)` (a non-variant argument has size 1 and index 0).
    The dispatch runs over `index_sequence<variant_size<Vs>()...>` and `tuple(index(vs)...)`; the visitor is called with
    `get<Is>(vs)...` for the tuple `Is...` it stops at, every `get` behind the `I == index()` check.  Result: the
    `(I, value)` the visitor receives for each argument. -/
def visitN (vs : List (Nat × V α)) : Except Err (List (Nat × α)) := do
  let t ← visitWithIndex (vs.map (·.1)) (vs.map (·.2.idx))
  if t.length ≠ vs.length then .error (.pre "visit: arity")
  else (vs.zip t).mapM fun (v, i) => (getAt v.2 i).map fun x => (i, x)

/-- `variant::destroy()`: `visit([](auto& v){ destroy_at(&v); }, *this)` -/
def destroy (c : Cfg) (v : V α) : Except Err Unit := (visit1 c v).map fun _ => ()

/-- `variant::emplace<I>(args...)`: `destroy(); return replace(index_v<I>, args...)`
    (`replace`: `construct_at(&_union, index, args...)`, `_index = I`) -/
def emplace (c : Cfg) (v : V α) (i : Nat) (x : α) : Except Err (V α) :=
  if i < c.n then (destroy c v).map fun _ => ⟨i, x⟩
  else .error (.pre "variant::emplace: I < sizeof...(Ts)")

/-- copy / move construction from `src`; returns the new object and `src` afterwards.
    All alternatives trivially copy (move) constructible: the defaulted member (index and bytes).  Otherwise
    `variant(other, copy_move_tag)`: `visit_with_index([&](auto p){ replace(p.index, move(p).value()); }, other)`:
    the active alternative is copy constructed from a `const&` source, move constructed from an rvalue one. -/
def construct (c : Cfg) (el : Elem α) (mv : Bool) (src : V α) : Except Err (V α × V α) :=
  if (if mv then c.trivMC else c.trivCC) then .ok (src, src)
  else (visit1 c src).map fun (i, x) =>
    if mv then (⟨i, (el.mc x).1⟩, { src with val := (el.mc x).2 }) else (⟨i, el.cc x⟩, src)

/-- `variant::assign(other)` for two distinct objects (copy or move assignment); returns `*this` and
    `other` afterwards.  All alternatives `variant_trivially_copy(move)_assignable`: defaulted.  Otherwise
    `visit_with_index([&](auto lhs, auto rhs){ if constexpr (lhs.index == rhs.index) lhs.value() = move(rhs.value());
     else { destroy(); replace(rhs.index, move(rhs.value())); } }, *this, other)`; `move(rhs.value())` is a
    `T const&&` for a `const&` source (copy assignment / copy construction of the element) and a `T&&` for an
    rvalue source (move assignment / move construction).  No copy-then-move: a different alternative is always
    constructed directly from the source. -/
def assign (c : Cfg) (el : Elem α) (mv : Bool) (dst src : V α) : Except Err (V α × V α) :=
  if (if mv then c.trivMA else c.trivCA) then .ok (src, src)
  else
    match visit2 c dst src with
    | .error e => .error e
    | .ok ((li, l), (ri, r)) =>
      if li = ri then
        .ok (if mv then ({ dst with val := (el.ma l r).1 }, { src with val := (el.ma l r).2 })
             else ({ dst with val := el.ca l r }, src))
      else (destroy c dst).map fun _ =>
        if mv then (⟨ri, (el.mc r).1⟩, { src with val := (el.mc r).2 }) else (⟨ri, el.cc r⟩, src)

/-- `x = x` / `x = move(x)`: both visitor arguments are the same object; with equal indices the
    element is assigned to itself (a no-op for the element types considered). -/
def assignSelf (c : Cfg) (mv : Bool) (v : V α) : Except Err (V α) :=
  if (if mv then c.trivMA else c.trivCA) then .ok v
  else
    match visit2 c v v with
    | .error e => .error e
    | .ok ((li, _), (ri, r)) =>
      if li = ri then .ok v
      else (destroy c v).map fun _ => ⟨ri, r⟩

/-! ### converting construction / assignment from a value: `variant(T&&)`, `operator=(T&&)` -/

/-- what the argument `forward<T>(t)` is to the selected alternative `T_j` -/
inductive Arg where
  | conv   -- of another type: `T_j`'s converting constructor makes a `T_j` from it (the model is given that value)
  | lval   -- an lvalue `T_j`
  | rval   -- an rvalue `T_j`
  deriving Repr, DecidableEq, Inhabited

/-- `T_j(forward<T>(t))`: (the new element, the argument afterwards) -/
def consArg (el : Elem α) : Arg → α → α × α
  | .conv, x => (x, x)
  | .lval, x => (el.cc x, x)
  | .rval, x => el.mc x

/-- `d = forward<T>(t)` for an element `d` of type `T_j`: (`d` afterwards, the argument afterwards).  An argument of
    another type is converted to a temporary `T_j`, which is move assigned. -/
def asgArg (el : Elem α) : Arg → α → α → α × α
  | .conv, d, x => ((el.ma d x).1, x)
  | .lval, d, x => (el.ca d x, x)
  | .rval, d, x => el.ma d x

/-- `variant::operator=(T&&)` with `T_j` the selected alternative.  `direct`: the member template takes part in
    overload resolution (`is_assignable_v<T_j&, T> and is_assignable_v<T_j, T>`: class alternatives) —
    `if (index() == j) (*this)[index_v<j>] = forward<T>(t); else emplace<T_j>(forward<T>(t));`.
    Otherwise (scalar alternatives) the argument is converted by the converting constructor
    (`variant(in_place_type<T_j>, forward<T>(t))`) to a temporary variant that is move assigned.
    Returns (`*this`, the argument afterwards). -/
def convAssign (c : Cfg) (el : Elem α) (direct : Bool) (cat : Arg) (v : V α) (j : Nat) (x : α) : Except Err (V α × α) :=
  if direct then
    if v.idx = j then (getAt v j).map fun cur => ({ v with val := (asgArg el cat cur x).1 }, (asgArg el cat cur x).2)
    else (emplace c v j (consArg el cat x).1).map fun v' => (v', (consArg el cat x).2)
  else
    if j < c.n then (assign c el true v ⟨j, (consArg el cat x).1⟩).map fun r => (r.1, (consArg el cat x).2)
    else .error (.pre "variant(in_place_type<T>): T is one of Ts")

/-- `variant(T&&)`: `variant(in_place_type<T_j>, forward<T>(t))`, i.e. `_index(j), _union(index_v<j>, forward<T>(t))`.
    Returns (the new object, the argument afterwards). -/
def convCtor (c : Cfg) (el : Elem α) (cat : Arg) (j : Nat) (x : α) : Except Err (V α × α) :=
  if j < c.n then .ok (⟨j, (consArg el cat x).1⟩, (consArg el cat x).2)
  else .error (.pre "variant(in_place_type<T>): T is one of Ts")

/-! ### histories over a few live objects ("slots") -/

inductive Op (α : Type) where
  | emplace (k i : Nat) (x : α)        -- slot k: emplace<I>(x)  (also: converting assignment after selection)
  | make (k i : Nat) (x : α)           -- slot k is replaced by a new object constructed in_place_index<I> (old one destroyed)
  | assign (k j : Nat) (mv : Bool)     -- slot k = slot j / = move(slot j)
  | ctor (k j : Nat) (mv : Bool)       -- slot k is replaced by a copy / move construction from slot j
  | swap (k j : Nat)                   -- etl::swap(slot k, slot j)
  | conv (k j : Nat) (direct asg : Bool) (cat : Arg) (x : α)
      -- `asg`: slot k = forward<T>(t) (converting assignment, selected alternative j, see `convAssign`);
      -- otherwise slot k is replaced by `variant(forward<T>(t))` (converting constructor; old object destroyed)
  deriving Repr

def put (st : List (V α)) (k : Nat) (v : V α) : Except Err (List (V α)) :=
  if k < st.length then .ok (st.set k v) else .error .oob

/-- `etl::swap(a, b)` on two distinct objects: `T temp(move(a)); a = move(b); b = move(temp);` then `~temp` -/
def swap2 (c : Cfg) (el : Elem α) (a b : V α) : Except Err (V α × V α) := do
  let (temp, a1) ← construct c el true a
  let (a2, b1) ← assign c el true a1 b
  let (b2, temp') ← assign c el true b1 temp
  destroy c temp'
  .ok (a2, b2)

/-- `etl::swap(a, a)` -/
def swapSelf (c : Cfg) (el : Elem α) (a : V α) : Except Err (V α) := do
  let (temp, a1) ← construct c el true a
  let a2 ← assignSelf c true a1
  let (a3, temp') ← assign c el true a2 temp
  destroy c temp'
  .ok a3

def step (c : Cfg) (el : Elem α) (st : List (V α)) : Op α → Except Err (List (V α))
  | .emplace k i x => do
    let v ← rd st k
    let v' ← emplace c v i x
    put st k v'
  | .make k i x => do
    let old ← rd st k
    if i < c.n then
      destroy c old
      put st k ⟨i, x⟩
    else .error (.pre "variant(in_place_index<I>): I < sizeof...(Ts)")
  | .assign k j mv =>
    if k = j then do
      let v ← rd st k
      let v' ← assignSelf c mv v
      put st k v'
    else do
      let d ← rd st k
      let s ← rd st j
      let (d', s') ← assign c el mv d s
      let st1 ← put st k d'
      put st1 j s'
  | .ctor k j mv => do
    let s ← rd st j
    let (nw, s') ← construct c el mv s
    if k = j then
      destroy c s'
      put st k nw
    else
      let st1 ← put st j s'
      let old ← rd st k
      destroy c old
      put st1 k nw
  | .swap k j =>
    if k = j then do
      let a ← rd st k
      let a' ← swapSelf c el a
      put st k a'
    else do
      let a ← rd st k
      let b ← rd st j
      let (a', b') ← swap2 c el a b
      let st1 ← put st k a'
      put st1 j b'
  | .conv k j direct asg cat x => do
    let v ← rd st k
    if asg then
      let (v', _) ← convAssign c el direct cat v j x
      put st k v'
    else
      let (nw, _) ← convCtor c el cat j x
      destroy c v
      put st k nw

def run (c : Cfg) (el : Elem α) : List (V α) → List (Op α) → Except Err (List (V α))
  | st, [] => .ok st
  | st, op :: ops =>
    match step c el st op with
    | .error e => .error e
    | .ok st' => run c el st' ops

/-- `get_if<I>(&v)`: `pv->index() != I → nullptr`, else `&unchecked_get<I>(*pv)` -/
def getIf (v : V α) (i : Nat) : Except Err (Option α) :=
  if v.idx ≠ i then .ok none else (getAt v i).map some

/-- `holds_alternative<T>(v)`: `v.index() == index_of<T>` -/
def holds (v : V α) (i : Nat) : Bool := v.idx == i

/-! ### relational operators -/

inductive Rel where
  | eq | ne | lt | le | gt | ge
  deriving Repr, DecidableEq, Inhabited

def Rel.all : List Rel := [.eq, .ne, .lt, .le, .gt, .ge]

/-- the six operators of the element types, left operand of type `α`, right operand of type `β`
    (no laws assumed: a `float` with NaN is an instance) -/
abbrev RelOps (α β : Type) := Rel → α → β → Bool

/-- variant's `operator==, <, <=, >, >=` (index first, then `visit(make_variant_compare_op(op), lhs, rhs)`,
    which is `unreachable()` for different alternatives) and the `!=` the compiler rewrites to `!(lhs == rhs)` -/
def varRel (c : Cfg) (o : RelOps α α) (r : Rel) (a b : V α) : Except Err Bool :=
  let vis (r' : Rel) : Except Err Bool :=
    match visit2 c a b with
    | .error e => .error e
    | .ok ((i, x), (j, y)) => if i = j then .ok (o r' x y) else .error (.pre "etl::unreachable()")
  match r with
  | .eq => if a.idx ≠ b.idx then .ok false else vis .eq
  | .ne => (if a.idx ≠ b.idx then .ok false else vis .eq).map (!·)
  | .lt => if a.idx < b.idx then .ok true else if a.idx > b.idx then .ok false else vis .lt
  | .le => if a.idx < b.idx then .ok true else if a.idx > b.idx then .ok false else vis .le
  | .gt => if a.idx > b.idx then .ok true else if a.idx < b.idx then .ok false else vis .gt
  | .ge => if a.idx > b.idx then .ok true else if a.idx < b.idx then .ok false else vis .ge

/-! ### optional = variant<nullopt_t, T> -/

/-- `has_value()`: `_var.index() == 1` -/
def hasValue (v : V α) : Bool := v.idx == 1

/-- `operator*`: `TETL_PRECONDITION(has_value()); unchecked_get<1>(_var)` -/
def deref (v : V α) : Except Err α := getAt v 1

variable {β : Type}

/-- `optional<T>` against `optional<U>` (free operator templates); `!=` is the rewritten `!(lhs == rhs)` -/
def optRel (o : RelOps α β) (r : Rel) (a : V α) (b : V β) : Except Err Bool :=
  let both (r' : Rel) : Except Err Bool :=
    match deref a, deref b with
    | .ok x, .ok y => .ok (o r' x y)
    | .error e, _ => .error e
    | _, .error e => .error e
  let eq : Except Err Bool :=
    if hasValue a != hasValue b then .ok false
    else if !hasValue a && !hasValue b then .ok true
    else both .eq
  match r with
  | .eq => eq
  | .ne => eq.map (!·)
  | .lt => if !hasValue b then .ok false else if !hasValue a then .ok true else both .lt
  | .gt => if !hasValue a then .ok false else if !hasValue b then .ok true else both .gt
  | .le => if !hasValue a then .ok true else if !hasValue b then .ok false else both .le
  | .ge => if !hasValue b then .ok true else if !hasValue a then .ok false else both .ge

/-- `opt OP nullopt` -/
def optRelNullR (r : Rel) (a : V α) : Bool :=
  match r with
  | .eq => !hasValue a
  | .ne => !(!hasValue a)
  | .lt => false
  | .le => !hasValue a
  | .gt => hasValue a
  | .ge => true

/-- `nullopt OP opt` (`==`/`!=` are declared / rewritten from `nullopt == opt`) -/
def optRelNullL (r : Rel) (a : V α) : Bool :=
  match r with
  | .eq => !hasValue a
  | .ne => !(!hasValue a)
  | .lt => hasValue a
  | .le => true
  | .gt => false
  | .ge => !hasValue a

/-- `opt OP value`: `opt ? *opt OP value : <constant>`; `!=` is `!(opt == value)` -/
def optRelValR (o : RelOps α β) (r : Rel) (a : V α) (y : β) : Except Err Bool :=
  let c (r' : Rel) (dflt : Bool) : Except Err Bool :=
    if hasValue a then (deref a).map fun x => o r' x y else .ok dflt
  match r with
  | .eq => c .eq false
  | .ne => (c .eq false).map (!·)
  | .lt => c .lt true
  | .le => c .le true
  | .gt => c .gt false
  | .ge => c .ge false

/-- `value OP opt`: `opt ? value OP *opt : <constant>`; `==` is the reversed `opt == value`, `!=` its negation -/
def optRelValL (o : RelOps α β) (o' : RelOps β α) (r : Rel) (y : β) (a : V α) : Except Err Bool :=
  let c (r' : Rel) (dflt : Bool) : Except Err Bool :=
    if hasValue a then (deref a).map fun x => o' r' y x else .ok dflt
  match r with
  | .eq => optRelValR o .eq a y
  | .ne => (optRelValR o .eq a y).map (!·)
  | .lt => c .lt false
  | .le => c .le false
  | .gt => c .gt true
  | .ge => c .ge true

/-- `value_or(d)`: `has_value() ? **this : d` -/
def valueOr (v : V α) (d : α) : Except Err α := if hasValue v then deref v else .ok d

/-- `and_then(f)`: `if (*this) return invoke(f, **this); return U{};` — returns what `f` returned, or `none` -/
def andThen {ρ : Type} (v : V α) (f : α → ρ) : Except Err (Option ρ) :=
  if hasValue v then (deref v).map fun x => some (f x) else .ok none

/-- `or_else(f)`: `*this ? *this : f()` (`move(*this)` on an rvalue): the contained value that is copied / moved into
    the result, or `none` when `f` is called instead -/
def orElse (v : V α) : Except Err (Option α) := if hasValue v then (deref v).map some else .ok none

/-- `value_or(d) const&` (`mv = false`: `has_value() ? **this : static_cast<T>(forward<U>(d))`) and `value_or(d) &&`
    (`mv = true`: `has_value() ? move(**this) : ...`): the returned prvalue - copy / move constructed from the contained
    value, or move constructed from the argument temporary - and the optional afterwards -/
def valueOrCat (el : Elem α) (mv : Bool) (v : V α) (d : α) : Except Err (α × V α) :=
  if hasValue v then
    (deref v).map fun x => if mv then ((el.mc x).1, { v with val := (el.mc x).2 }) else (el.cc x, v)
  else .ok ((el.mc d).1, v)

/-- `or_else(f) const&` (`*this ? *this : f()`) and `or_else(f) &&` (`*this ? move(*this) : f()`): the contained value
    of the returned optional (copy / move constructed), or `none` when `f` is called instead; and the optional afterwards -/
def orElseCat (el : Elem α) (mv : Bool) (v : V α) : Except Err (Option α × V α) :=
  if hasValue v then
    (deref v).map fun x => if mv then (some (el.mc x).1, { v with val := (el.mc x).2 }) else (some (el.cc x), v)
  else .ok (none, v)

/-! #### optional<T&>: a nullable pointer; conversion from another optional -/

/-- `addressof(*rhs)`: the address of the object the source optional holds (`optional<U&>`: its `_ptr`; `optional<U>`:
    its engaged storage), `none` = disengaged; `operator*` has `TETL_PRECONDITION(has_value())` -/
def orefAddr (src : Option Nat) : Except Err Nat :=
  match src with
  | some a => .ok a
  | none => .error (.pre "optional::operator*: has_value()")

/-- `optional<T&>(optional<U> const& rhs) : _ptr(rhs.has_value() ? addressof(*rhs) : nullptr)` and
    `operator=(optional<U> const& rhs)`: `_ptr = rhs.has_value() ? addressof(*rhs) : nullptr` (the previous binding of
    the target is overwritten): the new `_ptr` -/
def orefConv (src : Option Nat) : Except Err (Option Nat) :=
  if src.isSome then (orefAddr src).map some else .ok none

/-! ### expected = variant<T, E>, index 0 = value -/

/-- `has_value()`: `_u.index() == 0` -/
def expHas (v : V α) : Bool := v.idx == 0

/-- `operator*`: `TETL_PRECONDITION(has_value()); _u[index_v<0>]` -/
def expDeref (v : V α) : Except Err α := if expHas v then getAt v 0 else .error (.pre "expected::operator*: has_value()")

/-- `error()`: `TETL_PRECONDITION(not has_value()); _u[index_v<1>]` -/
def expError (v : V α) : Except Err α := if expHas v then .error (.pre "expected::error(): not has_value()") else getAt v 1

/-- `value_or(d)`: `static_cast<bool>(*this) ? **this : static_cast<T>(forward<U>(d))` -/
def expValueOr (v : V α) (d : α) : Except Err α := if expHas v then expDeref v else .ok d

/-- `value_or(d) const&` / `&&` with the copy / move construction of the returned prvalue, and the expected afterwards -/
def expValueOrCat (el : Elem α) (mv : Bool) (v : V α) (d : α) : Except Err (α × V α) :=
  if expHas v then
    (expDeref v).map fun x => if mv then ((el.mc x).1, { v with val := (el.mc x).2 }) else (el.cc x, v)
  else .ok ((el.mc d).1, v)

/-- `and_then(f)`: `if (has_value()) return invoke(f, **this); return U(unexpect, error());` — `onErr` is what the
    propagated error becomes (a copy / move of it inside the new expected) -/
def expAndThen {ρ : Type} (v : V α) (f : α → ρ) (onErr : α → ρ) : Except Err ρ :=
  if expHas v then (expDeref v).map f else (expError v).map onErr

/-- `or_else(f)`: `if (has_value()) return G(in_place, **this); return invoke(f, error());` -/
def expOrElse {ρ : Type} (v : V α) (onVal : α → ρ) (f : α → ρ) : Except Err ρ :=
  if expHas v then (expDeref v).map onVal else (expError v).map f

/-! ### converting constructor / assignment: which alternative -/

/-- implicit conversion sequence from the argument to one alternative: `rank` 0 exact, 1 promotion,
    2 conversion, 3 user-defined; `narrow` = `T_i x[] = {arg}` is ill-formed (narrowing) -/
structure Cand where
  rank : Nat
  narrow : Bool
  deriving Repr, DecidableEq

/-- overload resolution over `F(T_0) ... F(T_{n-1})` restricted to the candidates (conversion exists and is
    not narrowing), as a left-to-right scan that keeps the best candidate seen and whether it is tied -/
def selectScan : List (Option Cand) → Nat → Option (Nat × Nat) → Bool → Option Nat
  | [], _, best, amb => if amb then none else best.map (·.1)
  | c :: cs, i, best, amb =>
    match c with
    | some ⟨r, false⟩ =>
      match best with
      | none => selectScan cs (i + 1) (some (i, r)) false
      | some (bi, br) =>
        if r < br then selectScan cs (i + 1) (some (i, r)) false
        else if r = br then selectScan cs (i + 1) (some (bi, br)) true
        else selectScan cs (i + 1) (some (bi, br)) amb
    | _ => selectScan cs (i + 1) best amb

def select (cands : List (Option Cand)) : Option Nat := selectScan cands 0 none false

/-! ### converting constructor / assignment: the candidate table over kinds of types

`variant_alternative_selector.hpp`: alternative `Ti` takes part for an argument `T` iff the concept
`variant_alternative_candidate<T, Ti>` holds, i.e. iff `variant_alternative_array<Ti>{{declval<T>()}}`
(`Ti x[] = {forward<T>(t)}`) is well-formed: an implicit conversion exists AND it is not a narrowing conversion -
whatever the kinds of `T` and `Ti` are (the test is not restricted to arithmetic types: pointer -> bool is
narrowing too).  Overload resolution over `operator()(Ti, T&&)` of the remaining alternatives then ranks the
implicit conversion sequences `T -> Ti` of the by-value parameter. -/

/-- kinds of argument / alternative types (LP64, plain `char` signed: x86-64 g++) -/
inductive K where
  | bool | char | short | int | long | uint | float | double
  | cptr              -- `char const*`
  | iptr              -- `int*`
  | vptr              -- `void const*`
  | nullp             -- `std::nullptr_t`
  | lit               -- a string literal: lvalue `char const[N]` (argument only)
  | uenum             -- unscoped enumeration with underlying type `int`
  | senum             -- scoped enumeration
  | fromInt (id : Nat)  -- class #id with an implicit constructor from `int` (Trk, Mo, the Sm kinds, Num)
  | fromPtr (id : Nat)  -- class #id with an implicit constructor from `char const*` (Text)
  | toInt             -- class with `operator int() const` (argument only)
  deriving Repr, DecidableEq, Inhabited

def K.isIntegral : K → Bool
  | .bool | .char | .short | .int | .long | .uint => true
  | _ => false
def K.isFloating : K → Bool
  | .float | .double => true
  | _ => false
def K.isArith (k : K) : Bool := k.isIntegral || k.isFloating
def K.isPtr : K → Bool
  | .cptr | .iptr | .vptr | .lit => true
  | _ => false

/-- standard conversion sequence between two arithmetic types: 0 identity, 1 promotion ([conv.prom], [conv.fpprom]),
    2 conversion -/
def arithRank (a t : K) : Nat :=
  if a == t then 0 else
  match a, t with
  | .bool, .int | .char, .int | .short, .int | .float, .double => 1
  | _, _ => 2

/-- the implicit conversion sequence `a -> t` in a copy-initialization context ([over.best.ics]), as its rank:
    0 exact match (identity, array-to-pointer), 1 promotion, 2 conversion, 3.. user-defined (constructor of `t`;
    conversion function of `a` followed by a standard conversion, which orders two sequences through the same
    function).  `none`: no implicit conversion (`nullptr_t -> bool` is direct-initialization only).  This is the
    compiler's table ([over.ics.rank] restricted to the kinds above): data of the model, validated by the
    correspondence runs on every (argument kind, alternative list) of the harness matrix. -/
def ics (a t : K) : Option Nat :=
  if a == t then some 0 else
  match a, t with
  | .lit, .cptr => some 0
  | .lit, .vptr | .cptr, .vptr | .iptr, .vptr => some 2
  | .nullp, .cptr | .nullp, .iptr | .nullp, .vptr => some 2
  | .cptr, .bool | .iptr, .bool | .vptr, .bool | .lit, .bool => some 2
  | .cptr, .fromPtr _ | .lit, .fromPtr _ | .nullp, .fromPtr _ => some 3
  | .uenum, .fromInt _ => some 3
  | .uenum, t => if t.isArith then some (if t == .int then 1 else 2) else none
  | .toInt, t => if t.isArith then some (3 + arithRank .int t) else none
  | a, .fromInt _ => if a.isArith then some 3 else none
  | a, t => if a.isArith && t.isArith then some (arithRank a t) else none

/-- row `a` of the narrowing table: the alternatives for which `Ti x[] = {forward<T>(t)}` is ill-formed although
    the conversion exists (what the requires-expression of `variant_alternative_candidate` evaluates to) -/
def narrowRow : K → List K
  | .bool => [.float, .double]
  | .char => [.bool, .uint, .float, .double]
  | .short => [.bool, .char, .uint, .float, .double]
  | .int | .uenum | .toInt => [.bool, .char, .short, .uint, .float, .double]
  | .long => [.bool, .char, .short, .int, .uint, .float, .double]
  | .uint => [.bool, .char, .short, .int, .float, .double]
  | .float => [.bool, .char, .short, .int, .long, .uint]
  | .double => [.bool, .char, .short, .int, .long, .uint, .float]
  | .cptr | .iptr | .vptr | .lit => [.bool]
  | _ => []

def narrow (a t : K) : Bool := (narrowRow a).contains t

/-- `variant_alternative_selector_single<I, Ti>::operator()(Ti, T&&)` as a candidate of the overload set -/
def candK (a t : K) : Option Cand := (ics a t).map fun r => ⟨r, narrow a t⟩

/-- `variant_alternative_selector_t<T, Ts...>`: the index of the selected alternative -/
def selectK (a : K) (alts : List K) : Option Nat := select (alts.map (candK a))

end Tetl.C07
