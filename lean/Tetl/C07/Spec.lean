/-
C07 — reference semantics: what [variant], [optional], [expected] prescribe, with no dispatch, no
union access and no intermediate objects.

* a `std::variant` is a pair (active index, value); assignment to the same alternative assigns the element
  through, assignment to a different alternative destroys the old element and constructs the new one from the
  source (copy-then-move where [variant.assign] prescribes it), construction copy / move constructs the
  element, a moved-from source keeps its index and holds the moved-from element; `swap` is [variant.swap]
  (`swapStdV`: same alternative: the elements are swapped; different: the values are exchanged), and the generic
  three-move exchange `swapV` that `etl::swap` performs is proved equal to it under the one element law needed
  (Props.swapV_eq_std); `emplace` and in-place construction set (index, value); the converting assignment
  ([variant.assign]/13) assigns the argument to the held alternative when it is the selected one and constructs
  the selected alternative from it otherwise;
* a `std::optional` is an `Option`, ordered with `none` below every `some`;
* a `std::expected` is a value or an error;
* the converting constructor selects the alternative that overload resolution over the
  non-narrowing candidates picks: the unique candidate that is strictly better than every other one.
-/
import Tetl.C07.Model
namespace Tetl.C07.Spec
open Tetl.C07

variable {α β : Type}

/-- assignment through to an element of the same alternative: copy assignment `d = s` or move assignment
    `d = move(s)`; returns (target element, source element afterwards) -/
def thru (el : Elem α) (mv : Bool) (d s : α) : α × α := if mv then el.ma d s else (el.ca d s, s)

/-- construction of a new element from a source element: move construction, copy construction, or — for a
    copy whose alternative has a potentially-throwing copy constructor and a non-throwing move constructor
    (`fb`) — copy construction of a temporary followed by move construction from it ([variant.assign]/2.4
    `operator=(variant(rhs))`, [expected.object.assign] reinit-expected); returns (new element, source afterwards) -/
def cons (el : Elem α) (fb : α → Bool) (mv : Bool) (s : α) : α × α :=
  if mv then el.mc s else (if fb s then (el.mc (el.cc s)).1 else el.cc s, s)

def noFb : α → Bool := fun _ => false

/-- copy / move construction of a variant ([variant.ctor]): the new object holds the source's alternative,
    copy (move) constructed from the source's value; a moved-from source keeps its index and holds the
    moved-from element.  Returns (new object, source afterwards). -/
def ctorV (el : Elem α) (mv : Bool) (s : V α) : V α × V α :=
  (⟨s.idx, (cons el noFb mv s.val).1⟩, ⟨s.idx, (cons el noFb mv s.val).2⟩)

/-- copy / move assignment of a variant ([variant.assign]).  Same alternative: the element is assigned
    through.  Different alternative: the old element is destroyed and the new one constructed from the source
    (directly, or copy-then-move where the standard prescribes it).  Returns (target, source afterwards). -/
def assignV (el : Elem α) (fb : α → Bool) (mv : Bool) (d s : V α) : V α × V α :=
  if d.idx = s.idx then (⟨s.idx, (thru el mv d.val s.val).1⟩, ⟨s.idx, (thru el mv d.val s.val).2⟩)
  else (⟨s.idx, (cons el fb mv s.val).1⟩, ⟨s.idx, (cons el fb mv s.val).2⟩)

/-- the generic `swap` of [utility.swap] applied to two distinct variant objects: `T t(move(a)); a = move(b);
    b = move(t);` (only moves: no copy-then-move).  This is what `etl::swap` does (etl::variant has no member swap,
    `etl::optional::swap` calls `etl::swap`); it is NOT the standard's definition of `variant::swap`, which is
    `swapStdV` below. -/
def swapV (el : Elem α) (a b : V α) : V α × V α :=
  let r1 := ctorV el true a
  let r2 := assignV el noFb true r1.2 b
  let r3 := assignV el noFb true r2.2 r1.1
  (r2.1, r3.1)

/-- `swap(a, a)`: the middle self move assignment is a no-op -/
def swapSelfV (el : Elem α) (a : V α) : V α :=
  let r1 := ctorV el true a
  (assignV el noFb true r1.2 r1.1).1

/-- the generic `swap` of [utility.swap] on two elements: `T t(move(x)); x = move(y); y = move(t);` -/
def swapElem (el : Elem α) (x y : α) : α × α :=
  let t := el.mc x
  let r2 := el.ma t.2 y
  let r3 := el.ma r2.2 t.1
  (r2.1, r3.1)

/-- [variant.swap] (and [optional.swap] / [expected.object.swap] seen on the variant member): both objects hold the
    same alternative: `swap(get<i>(*this), get<i>(rhs))` on the elements; otherwise "exchanges values of rhs and
    *this": each object ends up holding the other's alternative, move constructed from the other's value (how many
    intermediate moves an implementation uses is not specified; one is the least) -/
def swapStdV (el : Elem α) (a b : V α) : V α × V α :=
  if a.idx = b.idx then (⟨a.idx, (swapElem el a.val b.val).1⟩, ⟨a.idx, (swapElem el a.val b.val).2⟩)
  else (⟨b.idx, (el.mc b.val).1⟩, ⟨a.idx, (el.mc a.val).1⟩)

/-- the element law under which the number of intermediate moves of an exchange cannot be observed: move constructing
    from a move constructed value gives that value again (true for the element kinds of the harness: a
    user-provided move constructor leaves the constant mark 2) -/
def MoveIdem (el : Elem α) (x : α) : Prop := (el.mc (el.mc x).1).1 = (el.mc x).1

/-- [variant.assign]/13.3: the new element of a converting assignment to a different alternative: constructed from
    the argument, or - a `T_j` lvalue whose copy constructor may throw while the move constructor does not (`fb`) -
    `emplace<j>(T_j(forward<T>(t)))`: copy constructed temporary, move constructed from it -/
def consArgFb (el : Elem α) (fb : α → Bool) (cat : Arg) (x : α) : α × α :=
  if cat = .lval && fb x then ((el.mc (el.cc x)).1, x) else consArg el cat x

/-- [variant.assign]/13 `operator=(T&&)` with `T_j` the selected alternative: `T_j` is held: `get<j>(*this) =
    forward<T>(t)`; otherwise `emplace<j>` (13.3).  [optional.assign] `operator=(U&&)` is the same with `j = 1` and no
    fallback.  Returns (`*this`, the argument afterwards). -/
def convAssignV (el : Elem α) (fb : α → Bool) (cat : Arg) (v : V α) (j : Nat) (x : α) : V α × α :=
  if v.idx = j then (⟨j, (asgArg el cat v.val x).1⟩, (asgArg el cat v.val x).2)
  else (⟨j, (consArgFb el fb cat x).1⟩, (consArgFb el fb cat x).2)

/-- [variant.ctor] `variant(T&&)`: direct-non-list-initializes the selected alternative from `forward<T>(t)` -/
def convCtorV (el : Elem α) (cat : Arg) (j : Nat) (x : α) : V α × α := (⟨j, (consArg el cat x).1⟩, (consArg el cat x).2)

/-- one operation on the live objects; operations naming a non-existent object change nothing -/
def step (el : Elem α) (fb : α → Bool) (st : List (V α)) : Op α → List (V α)
  | .emplace k i x => st.set k ⟨i, x⟩
  | .make k i x => st.set k ⟨i, x⟩
  | .assign k j mv =>
    match st[k]?, st[j]? with
    | some d, some s => if k = j then st else ((st.set k (assignV el fb mv d s).1).set j (assignV el fb mv d s).2)
    | _, _ => st
  | .ctor k j mv =>
    match st[j]? with
    | some s => if k = j then st.set k (ctorV el mv s).1 else ((st.set j (ctorV el mv s).2).set k (ctorV el mv s).1)
    | none => st
  | .swap k j =>
    match st[k]?, st[j]? with
    | some a, some b => if k = j then st.set k (swapSelfV el a) else ((st.set k (swapV el a b).1).set j (swapV el a b).2)
    | _, _ => st
  | .conv k j _ asg cat x =>
    match st[k]? with
    | some v => st.set k (if asg then (convAssignV el fb cat v j x).1 else (convCtorV el cat j x).1)
    | none => st

def run (el : Elem α) (fb : α → Bool) : List (V α) → List (Op α) → List (V α)
  | st, [] => st
  | st, op :: ops => run el fb (step el fb st op) ops

/-- documented preconditions of one operation: the objects exist, the alternative index is one of the variant's -/
def valid (n : Nat) (st : List (V α)) : Op α → Bool
  | .emplace k i _ => k < st.length && i < n
  | .make k i _ => k < st.length && i < n
  | .assign k j _ => k < st.length && j < st.length
  | .ctor k j _ => k < st.length && j < st.length
  | .swap k j => k < st.length && j < st.length
  | .conv k j _ _ _ _ => k < st.length && j < n

/-- the operation is in the class of known finding F-C07-copy-assign-no-copy-then-move: a *copy* (assignment from a
    `const&` variant, converting assignment from an lvalue) that changes the alternative, of a value whose type asks
    for copy-then-move (`fb`: potentially-throwing copy constructor, non-throwing move constructor) -/
def fbAssign (fb : α → Bool) (mv : Bool) (d s : V α) : Bool := !mv && decide (d.idx ≠ s.idx) && fb s.val

def fbConv (fb : α → Bool) (cat : Arg) (d : V α) (j : Nat) (x : α) : Bool := decide (cat = .lval) && decide (d.idx ≠ j) && fb x

def fbHit (fb : α → Bool) (st : List (V α)) : Op α → Bool
  | .assign k j mv =>
    match st[k]?, st[j]? with
    | some d, some s => decide (k ≠ j) && fbAssign fb mv d s
    | _, _ => false
  | .conv k j _ asg cat x =>
    match st[k]? with
    | some d => asg && fbConv fb cat d j x
    | none => false
  | _ => false

/-- the detour of a converting assignment through a temporary variant (`convAssign` with `direct = false`) cannot be
    told from the direct route: moving the temporary element into place gives what assigning / constructing from the
    argument gives.  Holds for every scalar alternative (all its special members are the plain copy), and only
    scalar alternatives take the detour. -/
def ViaTempOK (el : Elem α) (cat : Arg) (v : V α) (j : Nat) (x : α) : Prop :=
  (v.idx = j → ((el.ma v.val (consArg el cat x).1).1, (consArg el cat x).2) = asgArg el cat v.val x) ∧
  (v.idx ≠ j → (el.mc (consArg el cat x).1).1 = (consArg el cat x).1)

instance [DecidableEq α] (el : Elem α) (cat : Arg) (v : V α) (j : Nat) (x : α) : Decidable (ViaTempOK el cat v j x) := by
  unfold ViaTempOK; exact inferInstance

def ConvOK (el : Elem α) (st : List (V α)) : Op α → Prop
  | .conv k j false true cat x =>
    match st[k]? with
    | some v => ViaTempOK el cat v j x
    | none => True
  | _ => True

instance [DecidableEq α] (el : Elem α) (st : List (V α)) (op : Op α) : Decidable (ConvOK el st op) := by
  unfold ConvOK
  split
  · split <;> exact inferInstance
  · exact inferInstance

/-- a history whose operations all are valid, outside the known-finding class and (for the detour) `ConvOK` -/
def OkRun (n : Nat) (el : Elem α) (fb : α → Bool) : List (V α) → List (Op α) → Prop
  | _, [] => True
  | st, op :: ops => valid n st op = true ∧ fbHit fb st op = false ∧ ConvOK el st op ∧ OkRun n el fb (step el fb st op) ops

def validRun (n : Nat) (el : Elem α) (fb : α → Bool) : List (V α) → List (Op α) → Bool
  | _, [] => true
  | st, op :: ops => valid n st op && validRun n el fb (step el fb st op) ops

/-- [variant.visit]: `visit(vis, vars...)` is `INVOKE(vis, get<m>(vars)...)` with `m...` = `vars.index()...`: the visitor
    receives, for every variant, its active alternative (index and value), whatever the alternative counts are -/
def visitN (vs : List (V α)) : List (Nat × α) := vs.map fun v => (v.idx, v.val)

/-- `get_if<I>` -/
def getIf (v : V α) (i : Nat) : Option α := if v.idx = i then some v.val else none

/-- [variant.relops]: compare the indices, then the values of the common alternative -/
def varRel (o : RelOps α α) (r : Rel) (a b : V α) : Bool :=
  match r with
  | .eq => a.idx = b.idx && o .eq a.val b.val
  | .ne => a.idx ≠ b.idx || o .ne a.val b.val
  | .lt => a.idx < b.idx || (a.idx = b.idx && o .lt a.val b.val)
  | .le => a.idx < b.idx || (a.idx = b.idx && o .le a.val b.val)
  | .gt => a.idx > b.idx || (a.idx = b.idx && o .gt a.val b.val)
  | .ge => a.idx > b.idx || (a.idx = b.idx && o .ge a.val b.val)

/-! ### optional -/

/-- abstraction of an `etl::optional<T>` object: engaged iff the variant index is 1 -/
def absO (v : V α) : Option α := if v.idx = 1 then some v.val else none

/-- [optional.relops] / [optional.nullops] / [optional.comp.with.t]: an empty optional is below every
    engaged one; two engaged ones compare by the element's own operator -/
def optRel (o : RelOps α β) (r : Rel) : Option α → Option β → Bool
  | some x, some y => o r x y
  | none, none => r == .eq || r == .le || r == .ge
  | none, some _ => r == .ne || r == .lt || r == .le
  | some _, none => r == .ne || r == .gt || r == .ge

inductive OOp (α : Type) where
  | reset (k : Nat)                       -- reset(), = nullopt, optional(nullopt)
  | emplace (k : Nat) (x : α)             -- emplace(x), optional(in_place, x)
  | val (k : Nat) (asg direct : Bool) (cat : Arg) (x : α)
      -- `asg`: operator=(U&&) [optional.assign], also `= optional<U>` from an engaged source (cat = conv);
      -- otherwise optional(U&&) [optional.ctor].  `direct`: how etl reaches it (see Model.convAssign); no effect here
  | assign (k j : Nat) (mv : Bool)
  | ctor (k j : Nat) (mv : Bool)
  | swap (k j : Nat)
  deriving Repr

/-- [optional.ctor]: copy / move construction; returns (new object, source afterwards) -/
def ctorO (el : Elem α) (mv : Bool) (s : Option α) : Option α × Option α :=
  (s.map fun x => (cons el noFb mv x).1, s.map fun x => (cons el noFb mv x).2)

/-- [optional.assign]: both engaged: assign through; only the source engaged: construct from it (directly: no
    copy-then-move in [optional.assign]); source empty: the target is reset.  Returns (target, source afterwards). -/
def assignO (el : Elem α) (mv : Bool) : Option α → Option α → Option α × Option α
  | some d, some s => (some (thru el mv d s).1, some (thru el mv d s).2)
  | none, some s => (some (cons el noFb mv s).1, some (cons el noFb mv s).2)
  | _, none => (none, none)

def swapO (el : Elem α) (a b : Option α) : Option α × Option α :=
  let r1 := ctorO el true a
  let r2 := assignO el true r1.2 b
  let r3 := assignO el true r2.2 r1.1
  (r2.1, r3.1)

def swapSelfO (el : Elem α) (a : Option α) : Option α :=
  let r1 := ctorO el true a
  (assignO el true r1.2 r1.1).1

def ostep (el : Elem α) (st : List (Option α)) : OOp α → List (Option α)
  | .reset k => st.set k none
  | .emplace k x => st.set k (some x)
  | .val k asg _ cat x =>
    -- [optional.assign]: engaged: `**this = forward<U>(v)`; empty (and construction): initialized from `forward<U>(v)`
    match st[k]? with
    | some (some d) => st.set k (some (if asg then (asgArg el cat d x).1 else (consArg el cat x).1))
    | some none => st.set k (some (consArg el cat x).1)
    | none => st
  | .assign k j mv =>
    match st[k]?, st[j]? with
    | some d, some s => if k = j then st else ((st.set k (assignO el mv d s).1).set j (assignO el mv d s).2)
    | _, _ => st
  | .ctor k j mv =>
    match st[j]? with
    | some s => if k = j then st.set k (ctorO el mv s).1 else ((st.set j (ctorO el mv s).2).set k (ctorO el mv s).1)
    | none => st
  | .swap k j =>
    match st[k]?, st[j]? with
    | some a, some b => if k = j then st.set k (swapSelfO el a) else ((st.set k (swapO el a b).1).set j (swapO el a b).2)
    | _, _ => st

/-- how `etl::optional` implements its operations on its `variant<nullopt_t,T>` member
    (`nullv` is the `nullopt_t` payload): `reset() = _var.emplace<0>(nullopt)`, `emplace = _var.emplace<1>`,
    copy/move/swap = the variant's (defaulted members, generic `etl::swap`); value construction / assignment =
    the variant's converting forms with the engaged alternative selected -/
def optToVar (nullv : α) : OOp α → Op α
  | .reset k => .emplace k 0 nullv
  | .emplace k x => .emplace k 1 x
  | .val k asg direct cat x => .conv k 1 direct asg cat x
  | .assign k j mv => .assign k j mv
  | .ctor k j mv => .ctor k j mv
  | .swap k j => .swap k j

/-- [optional.swap]: both engaged: the elements are swapped; one engaged: the empty one is initialized from
    `std::move` of the other's value, which is then destroyed; both empty: nothing -/
def swapStdO (el : Elem α) : Option α → Option α → Option α × Option α
  | some x, some y => (some (swapElem el x y).1, some (swapElem el x y).2)
  | some x, none => (none, some (el.mc x).1)
  | none, some y => (some (el.mc y).1, none)
  | none, none => (none, none)

/-- [optional.observe] value_or on lvalues (`mv = false`) and rvalues: (returned value, the optional afterwards) -/
def valueOrCatO (el : Elem α) (mv : Bool) (o : Option α) (d : α) : α × Option α :=
  match o with
  | some x => if mv then ((el.mc x).1, some (el.mc x).2) else (el.cc x, some x)
  | none => ((el.mc d).1, none)

/-- [optional.monadic] or_else: (contained value of the result, or `none` = `f()` is returned; the optional afterwards) -/
def orElseCatO (el : Elem α) (mv : Bool) (o : Option α) : Option α × Option α :=
  match o with
  | some x => if mv then (some (el.mc x).1, some (el.mc x).2) else (some (el.cc x), some x)
  | none => (none, none)

/-- P2988 [optional.ref.ctor] / converting assignment, `optional<T&>` from `optional<U>`: "if rhs.has_value() is true,
    initializes val with convert-ref-init-val(*rhs); otherwise *this is empty" - on the address of the object held -/
def orefConv : Option Nat → Option Nat
  | some a => some a
  | none => none

/-! ### expected -/

inductive E (α : Type) where
  | val (x : α)
  | err (x : α)
  deriving Repr, DecidableEq

/-- abstraction of an `etl::expected<T,E>` object: a value iff the variant index is 0 -/
def absE (v : V α) : E α := if v.idx = 0 then .val v.val else .err v.val

inductive EOp (α : Type) where
  | setVal (k : Nat) (x : α)              -- expected(in_place, x), emplace(x)
  | setErr (k : Nat) (x : α)              -- expected(unexpect, x)
  | assign (k j : Nat) (mv : Bool)
  | ctor (k j : Nat) (mv : Bool)
  | swap (k j : Nat)
  deriving Repr

def ctorE (el : Elem α) (mv : Bool) : E α → E α × E α
  | .val x => (.val (cons el noFb mv x).1, .val (cons el noFb mv x).2)
  | .err x => (.err (cons el noFb mv x).1, .err (cons el noFb mv x).2)

/-- [expected.object.assign]: value ← value and error ← error assign through; value ← error and error ← value
    destroy the old member and construct the new one (reinit-expected: directly, or copy-then-move, `fb`) -/
def assignE (el : Elem α) (fb : α → Bool) (mv : Bool) : E α → E α → E α × E α
  | .val d, .val s => (.val (thru el mv d s).1, .val (thru el mv d s).2)
  | .err d, .err s => (.err (thru el mv d s).1, .err (thru el mv d s).2)
  | .err _, .val s => (.val (cons el fb mv s).1, .val (cons el fb mv s).2)
  | .val _, .err s => (.err (cons el fb mv s).1, .err (cons el fb mv s).2)

def swapE (el : Elem α) (a b : E α) : E α × E α :=
  let r1 := ctorE el true a
  let r2 := assignE el noFb true r1.2 b
  let r3 := assignE el noFb true r2.2 r1.1
  (r2.1, r3.1)

def swapSelfE (el : Elem α) (a : E α) : E α :=
  let r1 := ctorE el true a
  (assignE el noFb true r1.2 r1.1).1

def estep (el : Elem α) (fb : α → Bool) (st : List (E α)) : EOp α → List (E α)
  | .setVal k x => st.set k (.val x)
  | .setErr k x => st.set k (.err x)
  | .assign k j mv =>
    match st[k]?, st[j]? with
    | some d, some s => if k = j then st else ((st.set k (assignE el fb mv d s).1).set j (assignE el fb mv d s).2)
    | _, _ => st
  | .ctor k j mv =>
    match st[j]? with
    | some s => if k = j then st.set k (ctorE el mv s).1 else ((st.set j (ctorE el mv s).2).set k (ctorE el mv s).1)
    | none => st
  | .swap k j =>
    match st[k]?, st[j]? with
    | some a, some b => if k = j then st.set k (swapSelfE el a) else ((st.set k (swapE el a b).1).set j (swapE el a b).2)
    | _, _ => st

/-- `etl::expected` on its `variant<T,E>` member; `emplace` is `_u.emplace<0>`, construction is in_place_index -/
def expToVar (viaEmplace : Bool) : EOp α → Op α
  | .setVal k x => if viaEmplace then .emplace k 0 x else .make k 0 x
  | .setErr k x => .make k 1 x
  | .assign k j mv => .assign k j mv
  | .ctor k j mv => .ctor k j mv
  | .swap k j => .swap k j

/-- [expected.object.obs] value_or, [expected.object.monadic] and_then / or_else on value-or-error -/
def E.valueOr (d : α) : E α → α
  | .val x => x
  | .err _ => d

/-- [expected.object.obs] value_or on lvalues / rvalues: (returned value, the expected afterwards) -/
def valueOrCatE (el : Elem α) (mv : Bool) (e : E α) (d : α) : α × E α :=
  match e with
  | .val x => if mv then ((el.mc x).1, .val (el.mc x).2) else (el.cc x, .val x)
  | .err y => ((el.mc d).1, .err y)

def E.andThen {ρ : Type} (f : α → ρ) (onErr : α → ρ) : E α → ρ
  | .val x => f x
  | .err e => onErr e

def E.orElse {ρ : Type} (onVal : α → ρ) (f : α → ρ) : E α → ρ
  | .val x => onVal x
  | .err e => f e

/-! ### converting constructor -/

def viable (c : Option Cand) : Option Nat :=
  match c with
  | some ⟨r, false⟩ => some r
  | _ => none

/-- the alternative `i` is selected iff it is viable and strictly better than every other viable alternative -/
def isBest (cands : List (Option Cand)) (i : Nat) : Bool :=
  match cands[i]? with
  | some c =>
    match viable c with
    | some r => (List.range cands.length).all fun j =>
        j == i || (match (cands[j]?).bind viable with | some r' => decide (r < r') | none => true)
    | none => false
  | none => false

def select (cands : List (Option Cand)) : Option Nat :=
  (List.range cands.length).find? (isBest cands)

/-! ### converting constructor: [variant.ctor]/14 over kinds of types -/

/-- the values of an integer type (LP64, plain `char` signed) -/
def range : K → Option (Int × Int)
  | .bool => some (0, 1)
  | .char => some (-128, 127)
  | .short => some (-32768, 32767)
  | .int => some (-2147483648, 2147483647)
  | .long => some (-9223372036854775808, 9223372036854775807)
  | .uint => some (0, 4294967295)
  | _ => none

/-- the type the last standard conversion of the sequence starts from: an unscoped enumeration converts like its
    underlying type, a conversion function hands on its result type, an array decays to a pointer -/
def srcOf : K → K
  | .uenum => .int
  | .toInt => .int
  | .lit => .cptr
  | k => k

/-- [dcl.init.list]/7, clause by clause, for a source that is not a constant expression: a narrowing conversion is
    (7.1) floating-point -> integer; (7.2) double -> float; (7.3) integer or unscoped enumeration -> floating-point;
    (7.4) integer or unscoped enumeration -> an integer type that cannot represent all values of the original type;
    (7.5, P1957R2) pointer -> bool -/
def narrowing (a t : K) : Bool :=
  let s := srcOf a
  (s.isFloating && t.isIntegral) ||
  (s == .double && t == .float) ||
  (s.isIntegral && t.isFloating) ||
  (match range s, range t with
   | some (lo, hi), some (lo', hi') => !(decide (lo' ≤ lo) && decide (hi ≤ hi'))
   | _, _ => false) ||
  (s.isPtr && t == .bool)

/-- [variant.ctor]/14 `variant(T&&)` / [variant.assign]/11: alternative `i` is the one selected for an argument of
    kind `a`: it is among the `Ti` for which `Ti x[] = {std::forward<T>(t)};` is well-formed (an implicit conversion
    exists and is not narrowing) and overload resolution over the imaginary `FUN(Ti)` of those alternatives picks it:
    its conversion sequence is strictly better than that of every other such alternative -/
def selects (a : K) (alts : List K) (i : Nat) : Prop :=
  ∃ t r, alts[i]? = some t ∧ ics a t = some r ∧ narrowing a t = false ∧
    ∀ j t' r', j ≠ i → alts[j]? = some t' → ics a t' = some r' → narrowing a t' = false → r < r'

/-- the same, computed: the candidate table of the well-formed `FUN(Ti)` and the declarative `select` -/
def selectK (a : K) (alts : List K) : Option Nat :=
  select (alts.map fun t => (ics a t).map fun r => ⟨r, narrowing a t⟩)

end Tetl.C07.Spec
