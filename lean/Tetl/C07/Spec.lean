/-
C07 — reference semantics: what [variant], [optional], [expected] prescribe, with no dispatch, no
union access and no intermediate objects.

* a `std::variant` is a pair (active index, value); assignment to the same alternative assigns the element
  through, assignment to a different alternative destroys the old element and constructs the new one from the
  source (copy-then-move where [variant.assign] prescribes it), construction copy / move constructs the
  element, a moved-from source keeps its index and holds the moved-from element; `swap` is the generic
  three-move exchange; `emplace` and in-place construction set (index, value);
* a `std::optional` is an `Option`, ordered with `none` below every `some`;
* a `std::expected` is a value or an error;
* the converting constructor selects the alternative that overload resolution over the
  non-narrowing candidates picks: the unique candidate that is strictly better than every other one.
-/
import Tetl.C07.Model
namespace Tetl.C07.Spec
open Tetl.C07

variable {α β : Type}

/-- assignment through to an element of the same alternative: copy assignment `d = s` or move assignment
    `d = move(s)`; returns (target element, source element afterwards) -/
def thru (el : Elem α) (mv : Bool) (d s : α) : α × α := if mv then el.ma d s else (el.ca d s, s)

/-- construction of a new element from a source element: move construction, copy construction, or — for a
    copy whose alternative has a potentially-throwing copy constructor and a non-throwing move constructor
    (`fb`) — copy construction of a temporary followed by move construction from it ([variant.assign]/2.4
    `operator=(variant(rhs))`, [expected.object.assign] reinit-expected); returns (new element, source afterwards) -/
def cons (el : Elem α) (fb : α → Bool) (mv : Bool) (s : α) : α × α :=
  if mv then el.mc s else (if fb s then (el.mc (el.cc s)).1 else el.cc s, s)

def noFb : α → Bool := fun _ => false

/-- copy / move construction of a variant ([variant.ctor]): the new object holds the source's alternative,
    copy (move) constructed from the source's value; a moved-from source keeps its index and holds the
    moved-from element.  Returns (new object, source afterwards). -/
def ctorV (el : Elem α) (mv : Bool) (s : V α) : V α × V α :=
  (⟨s.idx, (cons el noFb mv s.val).1⟩, ⟨s.idx, (cons el noFb mv s.val).2⟩)

/-- copy / move assignment of a variant ([variant.assign]).  Same alternative: the element is assigned
    through.  Different alternative: the old element is destroyed and the new one constructed from the source
    (directly, or copy-then-move where the standard prescribes it).  Returns (target, source afterwards). -/
def assignV (el : Elem α) (fb : α → Bool) (mv : Bool) (d s : V α) : V α × V α :=
  if d.idx = s.idx then (⟨s.idx, (thru el mv d.val s.val).1⟩, ⟨s.idx, (thru el mv d.val s.val).2⟩)
  else (⟨s.idx, (cons el fb mv s.val).1⟩, ⟨s.idx, (cons el fb mv s.val).2⟩)

/-- the generic `swap` of [utility.swap] on two distinct objects: `T t(move(a)); a = move(b); b = move(t);`
    (only moves: no copy-then-move) -/
def swapV (el : Elem α) (a b : V α) : V α × V α :=
  let r1 := ctorV el true a
  let r2 := assignV el noFb true r1.2 b
  let r3 := assignV el noFb true r2.2 r1.1
  (r2.1, r3.1)

/-- `swap(a, a)`: the middle self move assignment is a no-op -/
def swapSelfV (el : Elem α) (a : V α) : V α :=
  let r1 := ctorV el true a
  (assignV el noFb true r1.2 r1.1).1

/-- one operation on the live objects; operations naming a non-existent object change nothing -/
def step (el : Elem α) (fb : α → Bool) (st : List (V α)) : Op α → List (V α)
  | .emplace k i x => st.set k ⟨i, x⟩
  | .make k i x => st.set k ⟨i, x⟩
  | .assign k j mv =>
    match st[k]?, st[j]? with
    | some d, some s => if k = j then st else ((st.set k (assignV el fb mv d s).1).set j (assignV el fb mv d s).2)
    | _, _ => st
  | .ctor k j mv =>
    match st[j]? with
    | some s => if k = j then st.set k (ctorV el mv s).1 else ((st.set j (ctorV el mv s).2).set k (ctorV el mv s).1)
    | none => st
  | .swap k j =>
    match st[k]?, st[j]? with
    | some a, some b => if k = j then st.set k (swapSelfV el a) else ((st.set k (swapV el a b).1).set j (swapV el a b).2)
    | _, _ => st

def run (el : Elem α) (fb : α → Bool) : List (V α) → List (Op α) → List (V α)
  | st, [] => st
  | st, op :: ops => run el fb (step el fb st op) ops

/-- documented preconditions of one operation: the objects exist, the alternative index is one of the variant's -/
def valid (n : Nat) (st : List (V α)) : Op α → Bool
  | .emplace k i _ => k < st.length && i < n
  | .make k i _ => k < st.length && i < n
  | .assign k j _ => k < st.length && j < st.length
  | .ctor k j _ => k < st.length && j < st.length
  | .swap k j => k < st.length && j < st.length

def validRun (n : Nat) (el : Elem α) (fb : α → Bool) : List (V α) → List (Op α) → Bool
  | _, [] => true
  | st, op :: ops => valid n st op && validRun n el fb (step el fb st op) ops

/-- `get_if<I>` -/
def getIf (v : V α) (i : Nat) : Option α := if v.idx = i then some v.val else none

/-- [variant.relops]: compare the indices, then the values of the common alternative -/
def varRel (o : RelOps α α) (r : Rel) (a b : V α) : Bool :=
  match r with
  | .eq => a.idx = b.idx && o .eq a.val b.val
  | .ne => a.idx ≠ b.idx || o .ne a.val b.val
  | .lt => a.idx < b.idx || (a.idx = b.idx && o .lt a.val b.val)
  | .le => a.idx < b.idx || (a.idx = b.idx && o .le a.val b.val)
  | .gt => a.idx > b.idx || (a.idx = b.idx && o .gt a.val b.val)
  | .ge => a.idx > b.idx || (a.idx = b.idx && o .ge a.val b.val)

/-! ### optional -/

/-- abstraction of an `etl::optional<T>` object: engaged iff the variant index is 1 -/
def absO (v : V α) : Option α := if v.idx = 1 then some v.val else none

/-- [optional.relops] / [optional.nullops] / [optional.comp.with.t]: an empty optional is below every
    engaged one; two engaged ones compare by the element's own operator -/
def optRel (o : RelOps α β) (r : Rel) : Option α → Option β → Bool
  | some x, some y => o r x y
  | none, none => r == .eq || r == .le || r == .ge
  | none, some _ => r == .ne || r == .lt || r == .le
  | some _, none => r == .ne || r == .gt || r == .ge

inductive OOp (α : Type) where
  | reset (k : Nat)                       -- reset(), = nullopt, optional(nullopt)
  | emplace (k : Nat) (x : α)             -- emplace(x), optional(x), = x, converting forms after conversion
  | assign (k j : Nat) (mv : Bool)
  | ctor (k j : Nat) (mv : Bool)
  | swap (k j : Nat)
  deriving Repr

/-- [optional.ctor]: copy / move construction; returns (new object, source afterwards) -/
def ctorO (el : Elem α) (mv : Bool) (s : Option α) : Option α × Option α :=
  (s.map fun x => (cons el noFb mv x).1, s.map fun x => (cons el noFb mv x).2)

/-- [optional.assign]: both engaged: assign through; only the source engaged: construct from it (directly: no
    copy-then-move in [optional.assign]); source empty: the target is reset.  Returns (target, source afterwards). -/
def assignO (el : Elem α) (mv : Bool) : Option α → Option α → Option α × Option α
  | some d, some s => (some (thru el mv d s).1, some (thru el mv d s).2)
  | none, some s => (some (cons el noFb mv s).1, some (cons el noFb mv s).2)
  | _, none => (none, none)

def swapO (el : Elem α) (a b : Option α) : Option α × Option α :=
  let r1 := ctorO el true a
  let r2 := assignO el true r1.2 b
  let r3 := assignO el true r2.2 r1.1
  (r2.1, r3.1)

def swapSelfO (el : Elem α) (a : Option α) : Option α :=
  let r1 := ctorO el true a
  (assignO el true r1.2 r1.1).1

def ostep (el : Elem α) (st : List (Option α)) : OOp α → List (Option α)
  | .reset k => st.set k none
  | .emplace k x => st.set k (some x)
  | .assign k j mv =>
    match st[k]?, st[j]? with
    | some d, some s => if k = j then st else ((st.set k (assignO el mv d s).1).set j (assignO el mv d s).2)
    | _, _ => st
  | .ctor k j mv =>
    match st[j]? with
    | some s => if k = j then st.set k (ctorO el mv s).1 else ((st.set j (ctorO el mv s).2).set k (ctorO el mv s).1)
    | none => st
  | .swap k j =>
    match st[k]?, st[j]? with
    | some a, some b => if k = j then st.set k (swapSelfO el a) else ((st.set k (swapO el a b).1).set j (swapO el a b).2)
    | _, _ => st

/-- how `etl::optional` implements its operations on its `variant<nullopt_t,T>` member
    (`nullv` is the `nullopt_t` payload): `reset() = _var.emplace<0>(nullopt)`, `emplace = _var.emplace<1>`,
    copy/move/swap = the variant's (defaulted members, generic `etl::swap`) -/
def optToVar (nullv : α) : OOp α → Op α
  | .reset k => .emplace k 0 nullv
  | .emplace k x => .emplace k 1 x
  | .assign k j mv => .assign k j mv
  | .ctor k j mv => .ctor k j mv
  | .swap k j => .swap k j

/-! ### expected -/

inductive E (α : Type) where
  | val (x : α)
  | err (x : α)
  deriving Repr, DecidableEq

/-- abstraction of an `etl::expected<T,E>` object: a value iff the variant index is 0 -/
def absE (v : V α) : E α := if v.idx = 0 then .val v.val else .err v.val

inductive EOp (α : Type) where
  | setVal (k : Nat) (x : α)              -- expected(in_place, x), emplace(x)
  | setErr (k : Nat) (x : α)              -- expected(unexpect, x)
  | assign (k j : Nat) (mv : Bool)
  | ctor (k j : Nat) (mv : Bool)
  | swap (k j : Nat)
  deriving Repr

def ctorE (el : Elem α) (mv : Bool) : E α → E α × E α
  | .val x => (.val (cons el noFb mv x).1, .val (cons el noFb mv x).2)
  | .err x => (.err (cons el noFb mv x).1, .err (cons el noFb mv x).2)

/-- [expected.object.assign]: value ← value and error ← error assign through; value ← error and error ← value
    destroy the old member and construct the new one (reinit-expected: directly, or copy-then-move, `fb`) -/
def assignE (el : Elem α) (fb : α → Bool) (mv : Bool) : E α → E α → E α × E α
  | .val d, .val s => (.val (thru el mv d s).1, .val (thru el mv d s).2)
  | .err d, .err s => (.err (thru el mv d s).1, .err (thru el mv d s).2)
  | .err _, .val s => (.val (cons el fb mv s).1, .val (cons el fb mv s).2)
  | .val _, .err s => (.err (cons el fb mv s).1, .err (cons el fb mv s).2)

def swapE (el : Elem α) (a b : E α) : E α × E α :=
  let r1 := ctorE el true a
  let r2 := assignE el noFb true r1.2 b
  let r3 := assignE el noFb true r2.2 r1.1
  (r2.1, r3.1)

def swapSelfE (el : Elem α) (a : E α) : E α :=
  let r1 := ctorE el true a
  (assignE el noFb true r1.2 r1.1).1

def estep (el : Elem α) (fb : α → Bool) (st : List (E α)) : EOp α → List (E α)
  | .setVal k x => st.set k (.val x)
  | .setErr k x => st.set k (.err x)
  | .assign k j mv =>
    match st[k]?, st[j]? with
    | some d, some s => if k = j then st else ((st.set k (assignE el fb mv d s).1).set j (assignE el fb mv d s).2)
    | _, _ => st
  | .ctor k j mv =>
    match st[j]? with
    | some s => if k = j then st.set k (ctorE el mv s).1 else ((st.set j (ctorE el mv s).2).set k (ctorE el mv s).1)
    | none => st
  | .swap k j =>
    match st[k]?, st[j]? with
    | some a, some b => if k = j then st.set k (swapSelfE el a) else ((st.set k (swapE el a b).1).set j (swapE el a b).2)
    | _, _ => st

/-- `etl::expected` on its `variant<T,E>` member; `emplace` is `_u.emplace<0>`, construction is in_place_index -/
def expToVar (viaEmplace : Bool) : EOp α → Op α
  | .setVal k x => if viaEmplace then .emplace k 0 x else .make k 0 x
  | .setErr k x => .make k 1 x
  | .assign k j mv => .assign k j mv
  | .ctor k j mv => .ctor k j mv
  | .swap k j => .swap k j

/-- [expected.object.obs] value_or, [expected.object.monadic] and_then / or_else on value-or-error -/
def E.valueOr (d : α) : E α → α
  | .val x => x
  | .err _ => d

def E.andThen {ρ : Type} (f : α → ρ) (onErr : α → ρ) : E α → ρ
  | .val x => f x
  | .err e => onErr e

def E.orElse {ρ : Type} (onVal : α → ρ) (f : α → ρ) : E α → ρ
  | .val x => onVal x
  | .err e => f e

/-! ### converting constructor -/

def viable (c : Option Cand) : Option Nat :=
  match c with
  | some ⟨r, false⟩ => some r
  | _ => none

/-- the alternative `i` is selected iff it is viable and strictly better than every other viable alternative -/
def isBest (cands : List (Option Cand)) (i : Nat) : Bool :=
  match cands[i]? with
  | some c =>
    match viable c with
    | some r => (List.range cands.length).all fun j =>
        j == i || (match (cands[j]?).bind viable with | some r' => decide (r < r') | none => true)
    | none => false
  | none => false

def select (cands : List (Option Cand)) : Option Nat :=
  (List.range cands.length).find? (isBest cands)

end Tetl.C07.Spec
