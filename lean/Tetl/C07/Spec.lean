/-
C07 — reference semantics: what [variant], [optional], [expected] prescribe, with no dispatch, no
union access and no intermediate objects.

* a `std::variant` is a pair (active index, value); assignment makes the target equal to the source
  (a moved-from source keeps its index and holds a moved-from element), `swap` exchanges, `emplace`
  and in-place construction set (index, value);
* a `std::optional` is an `Option`, ordered with `none` below every `some`;
* a `std::expected` is a value or an error;
* the converting constructor selects the alternative that overload resolution over the
  non-narrowing candidates picks: the unique candidate that is strictly better than every other one.
-/
import Tetl.C07.Model
namespace Tetl.C07.Spec
open Tetl.C07

variable {α β : Type}

def mvdV (mvd : α → α) (v : V α) : V α := { v with val := mvd v.val }

/-- one operation on the live objects; operations naming a non-existent object change nothing -/
def step (mvd : α → α) (st : List (V α)) : Op α → List (V α)
  | .emplace k i x => st.set k ⟨i, x⟩
  | .make k i x => st.set k ⟨i, x⟩
  | .assign k j mv =>
    match st[j]? with
    | some s => if k = j then st else ((st.set k s).set j (if mv then mvdV mvd s else s))
    | none => st
  | .ctor k j mv =>
    match st[j]? with
    | some s => if k = j then st else ((st.set j (if mv then mvdV mvd s else s)).set k s)
    | none => st
  | .swap k j =>
    match st[k]?, st[j]? with
    | some a, some b => (st.set k b).set j a
    | _, _ => st

def run (mvd : α → α) : List (V α) → List (Op α) → List (V α)
  | st, [] => st
  | st, op :: ops => run mvd (step mvd st op) ops

/-- documented preconditions of one operation: the objects exist, the alternative index is one of the variant's -/
def valid (n : Nat) (st : List (V α)) : Op α → Bool
  | .emplace k i _ => k < st.length && i < n
  | .make k i _ => k < st.length && i < n
  | .assign k j _ => k < st.length && j < st.length
  | .ctor k j _ => k < st.length && j < st.length
  | .swap k j => k < st.length && j < st.length

def validRun (n : Nat) (mvd : α → α) : List (V α) → List (Op α) → Bool
  | _, [] => true
  | st, op :: ops => valid n st op && validRun n mvd (step mvd st op) ops

/-- `get_if<I>` -/
def getIf (v : V α) (i : Nat) : Option α := if v.idx = i then some v.val else none

/-- [variant.relops]: compare the indices, then the values of the common alternative -/
def varRel (o : RelOps α α) (r : Rel) (a b : V α) : Bool :=
  match r with
  | .eq => a.idx = b.idx && o .eq a.val b.val
  | .ne => a.idx ≠ b.idx || o .ne a.val b.val
  | .lt => a.idx < b.idx || (a.idx = b.idx && o .lt a.val b.val)
  | .le => a.idx < b.idx || (a.idx = b.idx && o .le a.val b.val)
  | .gt => a.idx > b.idx || (a.idx = b.idx && o .gt a.val b.val)
  | .ge => a.idx > b.idx || (a.idx = b.idx && o .ge a.val b.val)

/-! ### optional -/

/-- abstraction of an `etl::optional<T>` object: engaged iff the variant index is 1 -/
def absO (v : V α) : Option α := if v.idx = 1 then some v.val else none

/-- [optional.relops] / [optional.nullops] / [optional.comp.with.t]: an empty optional is below every
    engaged one; two engaged ones compare by the element's own operator -/
def optRel (o : RelOps α β) (r : Rel) : Option α → Option β → Bool
  | some x, some y => o r x y
  | none, none => r == .eq || r == .le || r == .ge
  | none, some _ => r == .ne || r == .lt || r == .le
  | some _, none => r == .ne || r == .gt || r == .ge

inductive OOp (α : Type) where
  | reset (k : Nat)                       -- reset(), = nullopt, optional(nullopt)
  | emplace (k : Nat) (x : α)             -- emplace(x), optional(x), = x, converting forms after conversion
  | assign (k j : Nat) (mv : Bool)
  | ctor (k j : Nat) (mv : Bool)
  | swap (k j : Nat)
  deriving Repr

def ostep (mvd : α → α) (st : List (Option α)) : OOp α → List (Option α)
  | .reset k => st.set k none
  | .emplace k x => st.set k (some x)
  | .assign k j mv =>
    match st[j]? with
    | some s => if k = j then st else ((st.set k s).set j (if mv then s.map mvd else s))
    | none => st
  | .ctor k j mv =>
    match st[j]? with
    | some s => if k = j then st else ((st.set j (if mv then s.map mvd else s)).set k s)
    | none => st
  | .swap k j =>
    match st[k]?, st[j]? with
    | some a, some b => (st.set k b).set j a
    | _, _ => st

/-- how `etl::optional` implements its operations on its `variant<nullopt_t,T>` member
    (`nullv` is the `nullopt_t` payload): `reset() = _var.emplace<0>(nullopt)`, `emplace = _var.emplace<1>`,
    copy/move/swap = the variant's (defaulted members, generic `etl::swap`) -/
def optToVar (nullv : α) : OOp α → Op α
  | .reset k => .emplace k 0 nullv
  | .emplace k x => .emplace k 1 x
  | .assign k j mv => .assign k j mv
  | .ctor k j mv => .ctor k j mv
  | .swap k j => .swap k j

/-! ### expected -/

inductive E (α : Type) where
  | val (x : α)
  | err (x : α)
  deriving Repr, DecidableEq

/-- abstraction of an `etl::expected<T,E>` object: a value iff the variant index is 0 -/
def absE (v : V α) : E α := if v.idx = 0 then .val v.val else .err v.val

def E.map (f : α → α) : E α → E α
  | .val x => .val (f x)
  | .err x => .err (f x)

inductive EOp (α : Type) where
  | setVal (k : Nat) (x : α)              -- expected(in_place, x), emplace(x)
  | setErr (k : Nat) (x : α)              -- expected(unexpect, x)
  | assign (k j : Nat) (mv : Bool)
  | ctor (k j : Nat) (mv : Bool)
  | swap (k j : Nat)
  deriving Repr

def estep (mvd : α → α) (st : List (E α)) : EOp α → List (E α)
  | .setVal k x => st.set k (.val x)
  | .setErr k x => st.set k (.err x)
  | .assign k j mv =>
    match st[j]? with
    | some s => if k = j then st else ((st.set k s).set j (if mv then s.map mvd else s))
    | none => st
  | .ctor k j mv =>
    match st[j]? with
    | some s => if k = j then st else ((st.set j (if mv then s.map mvd else s)).set k s)
    | none => st
  | .swap k j =>
    match st[k]?, st[j]? with
    | some a, some b => (st.set k b).set j a
    | _, _ => st

/-- `etl::expected` on its `variant<T,E>` member; `emplace` is `_u.emplace<0>`, construction is in_place_index -/
def expToVar (viaEmplace : Bool) : EOp α → Op α
  | .setVal k x => if viaEmplace then .emplace k 0 x else .make k 0 x
  | .setErr k x => .make k 1 x
  | .assign k j mv => .assign k j mv
  | .ctor k j mv => .ctor k j mv
  | .swap k j => .swap k j

/-! ### converting constructor -/

def viable (c : Option Cand) : Option Nat :=
  match c with
  | some ⟨r, false⟩ => some r
  | _ => none

/-- the alternative `i` is selected iff it is viable and strictly better than every other viable alternative -/
def isBest (cands : List (Option Cand)) (i : Nat) : Bool :=
  match cands[i]? with
  | some c =>
    match viable c with
    | some r => (List.range cands.length).all fun j =>
        j == i || (match (cands[j]?).bind viable with | some r' => decide (r < r') | none => true)
    | none => false
  | none => false

def select (cands : List (Option Cand)) : Option Nat :=
  (List.range cands.length).find? (isBest cands)

end Tetl.C07.Spec
