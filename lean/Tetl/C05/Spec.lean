/-
C05 — specification: for every operation the DOCUMENTED precondition, clause by clause in the order
the clauses are reported, each with the check site that reports it, and the result / object after a
valid call in `List` terms (no index arithmetic, no casts, no wrap-around).

`expect op cfg s` is what the property demands of a build with contract checks:
  * some clause violated  -> the handler runs at the site of the first violated clause and sees the
    object unchanged (`.assert site s`);
  * all clauses hold      -> the call returns (`.ok result post`), no handler, no out-of-range access.
-/
import Tetl.C05.Model
namespace Tetl.C05.Spec
open Tetl.C05

structure Doc where
  clauses : List (Key × Bool)
  result : Unit → Out     -- lazily: a violating count can be 2^64 - 1
  post : Unit → St

def eraseRange (l : List Int) (f t : Nat) : List Int := l.take f ++ l.drop t
def insertAt (l : List Int) (p : Nat) (xs : List Int) : List Int := l.take p ++ xs ++ l.drop p
def overwriteAt (l : List Int) (p : Nat) (xs : List Int) : List Int := l.take p ++ xs ++ l.drop (p + xs.length)
def setAt (l : List Int) (i : Nat) (v : Int) : List Int := l.set i v
def elemAt (l : List Int) (i : Nat) : Out := match l[i]? with | some x => [x] | none => []
def lastOf (l : List Int) : Out := elemAt l (l.length - 1)

/-- position clauses of `assert_iterator_in_range` -/
def posClauses (s : St) (p : Int) : List (Key × Bool) := [(kItLo, 0 ≤ p), (kItHi, p ≤ s.size)]


def withElems (s : St) (l : List Int) : St := { s with elems := l }

def bbKey : Nat → Key | 0 => BS.kBBAt 0 | 1 => BS.kBBAt 1 | 2 => BS.kBBTest | 3 => BS.kBBSet | 4 => BS.kBBReset | _ => BS.kBBFlip
def bbResult (s : St) : Nat → Nat → Out | 0, pos => elemAt s.elems pos | 2, pos => elemAt s.elems pos | _, _ => []
def flipAt (s : St) (pos : Nat) : St := withElems s (setAt s.elems pos (1 - (s.elems[pos]?).getD 0))
def bbPost (s : St) : Nat → Nat → Int → St
  | 0, _, _ => s | 1, _, _ => s | 2, _, _ => s
  | 3, pos, v => withElems s (setAt s.elems pos v)
  | 4, pos, _ => withElems s (setAt s.elems pos 0)
  | _, pos, _ => flipAt s pos
def bsKey : Nat → Key | 0 => BS.kSet | 1 => BS.kReset | 2 => BS.kFlip | 3 => BS.kAt 0 | 4 => BS.kAt 1 | _ => BS.kTest
def bsResult (s : St) : Nat → Nat → Out | 0, _ => [] | 1, _ => [] | 2, _ => [] | 3, _ => [] | _, pos => elemAt s.elems pos
def bsPost (s : St) : Nat → Nat → Int → St
  | 0, pos, v => withElems s (setAt s.elems pos v)
  | 1, pos, _ => withElems s (setAt s.elems pos 0)
  | 2, pos, _ => flipAt s pos
  | _, _, _ => s

/-- the integral value of a bitset, bit 0 first ([bitset.members] to_ulong / to_ullong: "the integral value corresponding
    to the bits in `*this`") -/
def bitsVal : List Int → Nat
  | [] => 0
  | b :: bs => (if b ≠ 0 then 1 else 0) + 2 * bitsVal bs

/-- documented precondition of the storage's `unsafe_set_size(newSize)`: zero storage "can only be changed to 0" -/
def setSizeOk (st : Stor) (s : St) (n : Nat) : Bool := match st with | .zero => decide (n = 0) | _ => decide (n ≤ s.cap)

def doc (cfg : Cfg) (s : St) : Op → Doc
  | .svAt i => ⟨[(kIndex, i < s.size)], fun _ => elemAt s.elems i, fun _ => s⟩
  | .svFront => ⟨[(kIndex, 0 < s.size)], fun _ => elemAt s.elems 0, fun _ => s⟩
  | .svBack k => ⟨[(kBack k, s.size ≠ 0)], fun _ => lastOf s.elems, fun _ => s⟩
  | .svPush _ v => ⟨[(kPush, s.size < s.cap)], fun _ => [], fun _ => withElems s (s.elems ++ [v])⟩
  | .svEmplaceBack st v => ⟨[(kStEmplace st, s.size < s.cap)], fun _ => [], fun _ => withElems s (s.elems ++ [v])⟩
  | .svPop st => ⟨[(kStPop st, s.size ≠ 0)], fun _ => [], fun _ => withElems s s.elems.dropLast⟩
  | .svInsertN _ p n v =>
    ⟨posClauses s p ++ [(kInsN, decide (s.size + n ≤ s.cap))], fun _ => [p], fun _ => withElems s (insertAt s.elems p.toNat (List.replicate n v))⟩
  | .svInsertCr _ p v => ⟨(kInsCr, s.size < s.cap) :: posClauses s p, fun _ => [p], fun _ => withElems s (insertAt s.elems p.toNat [v])⟩
  | .svInsertMv _ p v => ⟨(kInsMv, s.size < s.cap) :: posClauses s p, fun _ => [p], fun _ => withElems s (insertAt s.elems p.toNat [v])⟩
  | .svEmplace _ p v => ⟨(kEmplace, s.size < s.cap) :: posClauses s p, fun _ => [p], fun _ => withElems s (insertAt s.elems p.toNat [v])⟩
  | .svInsertRng _ p xs o =>
    ⟨posClauses s p ++ [(kPair, o), (kInsRng, decide (s.size + xs.length ≤ s.cap))], fun _ => [p], fun _ => withElems s (insertAt s.elems p.toNat xs)⟩
  | .svErase _ p => ⟨[(kItLo, 0 ≤ p), (kItHi, p < s.size)], fun _ => [p], fun _ => withElems s (eraseRange s.elems p.toNat (p.toNat + 1))⟩
  | .svEraseRng _ f l =>
    ⟨posClauses s f ++ posClauses s l ++ [(kPair, decide (f ≤ l))], fun _ => [f], fun _ => withElems s (eraseRange s.elems f.toNat l.toNat)⟩
  | .svResize _ n => ⟨[(kEmplaceN, n ≤ s.cap)], fun _ => [], fun _ => withElems s (s.elems.take n ++ List.replicate (n - s.size) 0)⟩
  | .svResizeV _ n v => ⟨[(kResize, n ≤ s.cap)], fun _ => [], fun _ => withElems s (s.elems.take n ++ List.replicate (n - s.size) v)⟩
  | .svAssignN _ n v => ⟨[(kAsgN, n ≤ s.cap)], fun _ => [], fun _ => withElems s (List.replicate n v)⟩
  | .svAssignRng _ xs o => ⟨[(kAsgOrd, o), (kAsgFit, xs.length ≤ s.cap)], fun _ => [], fun _ => withElems s xs⟩
  | .svCtorN _ n => ⟨[(kCtorN 0, n ≤ s.cap)], fun _ => [], fun _ => withElems s (List.replicate n 0)⟩
  | .svCtorNV _ n v => ⟨[(kCtorN 1, n ≤ s.cap)], fun _ => [], fun _ => withElems s (List.replicate n v)⟩
  | .svCtorRng _ xs o => ⟨[(kCtorOrd, o), (kCtorFit, xs.length ≤ s.cap)], fun _ => [], fun _ => withElems s xs⟩
  | .svClear _ => ⟨[], fun _ => [], fun _ => withElems s []⟩
  -- inplace_vector<T, 0> is always empty and always full: every such call violates the precondition; its members are those
  -- of a separate specialisation, so the reporting site is the `false` check there
  | .ivFront k => ⟨if s.cap = 0 then [(IV.kFrontZ k, false)] else [(IV.kFront k, s.size ≠ 0)], fun _ => elemAt s.elems 0, fun _ => s⟩
  | .ivBack k => ⟨if s.cap = 0 then [(IV.kBackZ k, false)] else [(IV.kBack k, s.size ≠ 0)], fun _ => lastOf s.elems, fun _ => s⟩
  | .ivAt k i => ⟨if s.cap = 0 then [(IV.kAtZ k, false)] else [(IV.kAt k, i < s.size)], fun _ => elemAt s.elems i, fun _ => s⟩
  | .ivEmplaceBack v =>
    ⟨if s.cap = 0 then [(IV.kEmplaceZ, false)] else [(IV.kEmplace, s.size < s.cap)], fun _ => [v], fun _ => withElems s (s.elems ++ [v])⟩
  | .ivPush k v =>
    ⟨if s.cap = 0 then [(IV.kPushZ k, false)] else [(IV.kPush k, s.size < s.cap)], fun _ => [v], fun _ => withElems s (s.elems ++ [v])⟩
  | .ivPop => ⟨if s.cap = 0 then [(IV.kPopZ, false)] else [(IV.kPop, s.size ≠ 0)], fun _ => [], fun _ => withElems s s.elems.dropLast⟩
  | .vwAt i => ⟨[(VW.kAt, i < s.size)], fun _ => elemAt s.elems i, fun _ => s⟩
  | .vwFront => ⟨[(VW.kFront, s.size ≠ 0)], fun _ => elemAt s.elems 0, fun _ => s⟩
  | .vwBack => ⟨[(VW.kBack, s.size ≠ 0)], fun _ => lastOf s.elems, fun _ => s⟩
  | .vwRemovePrefix n => ⟨[(VW.kPrefix, n ≤ s.size)], fun _ => [], fun _ => { s with cap := s.size - n, elems := s.elems.drop n }⟩
  | .vwRemoveSuffix n => ⟨[(VW.kSuffix, n ≤ s.size)], fun _ => [], fun _ => { s with cap := s.size - n, elems := s.elems.take (s.size - n) }⟩
  | .vwCopy count pos => ⟨[(VW.kCopy, pos ≤ s.size)], fun _ => (s.elems.drop pos).take count, fun _ => s⟩
  | .vwSubstr pos count => ⟨[(VW.kSubstr, pos ≤ s.size)], fun _ => (s.elems.drop pos).take count, fun _ => s⟩
  | .spAt i => ⟨[(SP.kAt, i < s.size)], fun _ => elemAt s.elems i, fun _ => s⟩
  | .spFront => ⟨[(SP.kFront, s.size ≠ 0)], fun _ => elemAt s.elems 0, fun _ => s⟩
  | .spBack => ⟨[(SP.kBack, s.size ≠ 0)], fun _ => lastOf s.elems, fun _ => s⟩
  | .spFirst n => ⟨[(SP.kFirst, n ≤ s.size)], fun _ => s.elems.take n, fun _ => s⟩
  | .spLast n => ⟨[(SP.kLast, n ≤ s.size)], fun _ => s.elems.drop (s.size - n), fun _ => s⟩
  | .spSubspan off count =>
    ⟨[(SP.kSubOff, off ≤ s.size), (SP.kSubCnt, count = SP.dyn ∨ off + count ≤ s.size)], fun _ =>
     if count = SP.dyn then s.elems.drop off else (s.elems.drop off).take count, fun _ => s⟩
  | .spFirstT n => ⟨[(SP.kFirstT, n ≤ s.size)], fun _ => s.elems.take n, fun _ => s⟩
  | .spLastT n => ⟨[(SP.kLastT, n ≤ s.size)], fun _ => s.elems.drop (s.size - n), fun _ => s⟩
  | .spSubspanT off count =>
    ⟨[(SP.kSubOffT, off ≤ s.size), (SP.kSubCntT, count = SP.dyn ∨ off + count ≤ s.size)], fun _ =>
     if count = SP.dyn then s.elems.drop off else (s.elems.drop off).take count, fun _ => s⟩
  -- [span.cons]: a span of static extent is constructed over exactly `extent` elements
  | .spCtorExt k ext => ⟨[(SP.kCtorExt k, ext = SP.dyn ∨ s.size = ext)], fun _ => s.elems, fun _ => s⟩
  | .arAt k i => ⟨if s.size = 0 then [(AR.kAtZ k, false)] else if cfg.safe then [(AR.kAt k, i < s.size)] else [],
      fun _ => elemAt s.elems i, fun _ => s⟩
  | .arFront k => ⟨[(AR.kFront k, s.size ≠ 0)], fun _ => elemAt s.elems 0, fun _ => s⟩
  | .arBack k => ⟨[(AR.kBack k, s.size ≠ 0)], fun _ => lastOf s.elems, fun _ => s⟩
  | .strCtorPtr xs len => ⟨[(STR.kCtorPtr, len ≤ s.cap)], fun _ => [], fun _ => withElems s (xs.take len)⟩
  | .strCtorFill n ch => ⟨[(STR.kCtorFill, n ≤ s.cap)], fun _ => [], fun _ => withElems s (List.replicate n ch)⟩
  | .strOpAssign xs => ⟨[(STR.kOpAsg, xs.length ≤ s.cap)], fun _ => [], fun _ => withElems s xs⟩
  | .strAssignFill n ch => ⟨[(STR.kAssign 0, n ≤ s.cap)], fun _ => [], fun _ => withElems s (List.replicate n ch)⟩
  | .strAssignPtr xs n => ⟨[(STR.kAssign 1, n ≤ s.cap)], fun _ => [], fun _ => withElems s (xs.take n)⟩
  | .strFront k => ⟨[(STR.kFront k, s.size ≠ 0)], fun _ => elemAt s.elems 0, fun _ => s⟩
  | .strBack k => ⟨[(STR.kBack k, s.size ≠ 0)], fun _ => lastOf s.elems, fun _ => s⟩
  | .strAt k i => ⟨[(STR.kAt k, i ≤ s.size)], fun _ => if i = s.size then [0] else elemAt s.elems i, fun _ => s⟩
  | .strPush ch => ⟨[(STR.kPush, s.size < s.cap)], fun _ => [], fun _ => withElems s (s.elems ++ [ch])⟩
  | .strPop => ⟨[(STR.kPop, s.size ≠ 0)], fun _ => [], fun _ => withElems s s.elems.dropLast⟩
  | .strEraseRng a d =>
    ⟨[(STR.kEraseS, a ≤ s.size), (STR.kEraseD, a + d ≤ s.size)], fun _ => [a], fun _ => withElems s (eraseRange s.elems a (a + d))⟩
  -- std::basic_string::replace: `pos <= size()` is the whole precondition, `count` is clamped.  The object after
  -- the call follows tetl's in-place overwrite (a known finding of C04, not a subject of this property).
  | .strReplace k pos count src =>
    ⟨[(STR.kReplPos (if k == 0 then 0 else k + 1), pos ≤ s.size)], fun _ => [], fun _ =>
     withElems s (overwriteAt s.elems pos (src.take (min (min count (s.size - pos)) src.length)))⟩
  | .strReplaceSub pos count src pos2 count2 =>
    ⟨[(STR.kReplPos 1, pos ≤ s.size), (STR.kReplPos2, pos2 ≤ src.length)], fun _ => [], fun _ =>
     withElems s (overwriteAt s.elems pos (((src.drop pos2).take count2).take (min count (s.size - pos))))⟩
  -- insert(index, ...): `index <= size()` (std: out_of_range otherwise); the inserted units fit (see `WF`)
  | .strInsert k index xs => ⟨[(STR.kInsert k, index ≤ s.size)], fun _ => [], fun _ => withElems s (insertAt s.elems index xs)⟩
  | .strInsertFill index count ch =>
    ⟨[(STR.kInsert 0, index ≤ s.size)], fun _ => [], fun _ => withElems s (insertAt s.elems index (List.replicate count ch))⟩
  | .strEraseIdx index count =>
    ⟨[(STR.kEraseIdx, index ≤ s.size)], fun _ => [], fun _ => withElems s (eraseRange s.elems index (index + min count (s.size - index)))⟩
  | .optDeref k => ⟨[(OEV.kOpt k, s.size ≠ 0)], fun _ => elemAt s.elems 0, fun _ => s⟩
  | .expDeref k => ⟨[(OEV.kExp k, s.alt = 0)], fun _ => elemAt s.elems 0, fun _ => s⟩
  | .expError k => ⟨[(OEV.kErr k, s.alt ≠ 0)], fun _ => elemAt s.elems 0, fun _ => s⟩
  | .varIdx k i => ⟨[(OEV.kVarIdx k, i = s.alt)], fun _ => elemAt s.elems 0, fun _ => s⟩
  | .varGet k i => ⟨[(OEV.kVarGet k, i = s.alt)], fun _ => elemAt s.elems 0, fun _ => s⟩
  | .bb which pos v => ⟨[(bbKey which, pos < s.size)], fun _ => bbResult s which pos, fun _ => bbPost s which pos v⟩
  | .bs which pos v => ⟨[(bsKey which, pos < s.size)], fun _ => bsResult s which pos, fun _ => bsPost s which pos v⟩
  | .bsCtor pos n bits => ⟨[(BS.kCtor, pos ≤ s.size)], fun _ => ((s.elems.drop pos).take n).take bits, fun _ => s⟩
  -- [bitset.members]: to_ulong / to_ullong throw overflow_error exactly when the value cannot be represented in the result type
  | .bsToU digits => ⟨[(BS.kToU, decide (bitsVal s.elems < 2 ^ digits))], fun _ =>
     [((bitsVal s.elems % 4294967296 : Nat) : Int), ((bitsVal s.elems / 4294967296 : Nat) : Int)], fun _ => s⟩
  -- the public member move_insert(position, first, last): a valid position, a valid pointer pair, room for the range
  | .svMoveInsert _ p xs o =>
    ⟨posClauses s p ++ [(kPair, o), (kMoveIns, decide (s.size + xs.length ≤ s.cap))], fun _ => [p], fun _ => withElems s (insertAt s.elems p.toNat xs)⟩
  -- the "unsafe" members behind the public ones ("\warning No elements are constructed or destroyed"): the new size is at most the capacity
  | .svUnsafeSetSize st n => ⟨[(kStSet st, setSizeOk st s n)], fun _ => [], fun _ => withElems s (s.elems.take n)⟩
  | .svUnsafeDestroy f l =>
    ⟨[(kNtDestroyF, decide (0 ≤ f ∧ f ≤ s.size)), (kNtDestroyL, decide (0 ≤ l ∧ l ≤ s.size))], fun _ => [], fun _ => s⟩
  | .ivUnsafeSetSize n => ⟨[(IV.kSet, n ≤ s.cap)], fun _ => [], fun _ => withElems s (s.elems.take n)⟩
  | .strUnsafeSetSize n => ⟨[(STR.kSet, n ≤ s.cap)], fun _ => [], fun _ => withElems s (s.elems.take n)⟩
  | .bit which w pos => ⟨[(SC.kBit (SC.bitFns.getD which "test_bit") (if which == 3 then 1 else 0), pos < w)], fun _ => [], fun _ => s⟩
  -- [numeric.sat]: `y != 0`; the mathematical quotient (truncated), saturated to the range of `int`
  | .divSat x y => ⟨[(SC.kDiv, y ≠ 0)], fun _ => [max SC.I32min (min SC.I32max (Int.tdiv x y))], fun _ => s⟩
  -- day.hpp / month.hpp: "may hold any number in [0, 255]" ([time.cal.day] / [time.cal.month]: the value is unspecified beyond)
  | .dayCtor d => ⟨[(SC.kDay, d ≤ 255)], fun _ => [], fun _ => withElems s [(d : Int)]⟩
  | .monthCtor m => ⟨[(SC.kMonth, m ≤ 255)], fun _ => [], fun _ => withElems s [(m : Int)]⟩
  | .stride l r => ⟨[(SC.kStride l, r < s.size)], fun _ => elemAt s.elems r, fun _ => s⟩
  | .nullChecks ks => ⟨ks, fun _ => [], fun _ => s⟩
  | .setCtor n o => ⟨[(SC.kSetOrd, o), (SC.kSetFit, n ≤ s.cap)], fun _ => [], fun _ => s⟩

/-- the documented precondition -/
def pre (cfg : Cfg) (s : St) (op : Op) : Bool := (doc cfg s op).clauses.all (·.2)

/-- the site that has to report a violation: that of the first violated clause -/
def firstViolated : List (Key × Bool) → Option Key
  | [] => none
  | (k, ok) :: rest => if ok then firstViolated rest else some k

/-- constructors of one-member value classes initialise the member before the check: the object the handler
    sees is the one under construction, there is no pre-state to preserve -/
def ctorState (s : St) : Op → St
  | .dayCtor d => { s with elems := [((d % 256 : Nat) : Int)] }
  | .monthCtor m => { s with elems := [((m % 256 : Nat) : Int)] }
  | _ => s

def expect (op : Op) (cfg : Cfg) (s : St) : Res Out :=
  let d := doc cfg s op
  match firstViolated d.clauses with
  | some k => .assert k (ctorState s op)
  | none => .ok (d.result ()) (d.post ())

end Tetl.C05.Spec
