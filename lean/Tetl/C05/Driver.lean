/- placeholder: the C05 driver is not built yet -/
def main : IO Unit := IO.println "C05: driver not built yet"
