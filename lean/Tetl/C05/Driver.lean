/- C05 line-protocol driver: prints `model <TAB> spec` for each case line (see harness/c05.cpp for the line format). -/
import Tetl.Proto
import Tetl.C05.Sites
import Tetl.C05.Model
import Tetl.C05.Spec
namespace Tetl.C05.Driver
open Tetl.Proto Tetl.C05

def keyText (k : Key) : String := s!"?{k.file}:{k.func}:{k.cond}#{k.k}"

/-- `file:line` of a key in the regenerated inventory; a key that is no longer there is printed as `?…` -/
def siteOf (k : Key) : String :=
  match Sites.sites.find? (fun s => s.key == k) with
  | some s => s!"{k.file}:{s.line}"
  | none => keyText k

def fmtOk (r : Out) (s : St) : String := s!"ok r={fmtList r} e={fmtList s.elems}"

def fmtModel (noPre : Bool) (s0 : St) : Res Out → String
  | .ok r s => fmtOk r s
  | .assert k s => s!"assert({siteOf k}) same={if noPre || s == s0 then "1" else "0"}"
  | .oob _ => "oob"

def fmtSpec : Res Out → String
  | .ok r s => fmtOk r s
  | .assert k _ => s!"assert({siteOf k})"     -- the site of the first violated documented clause
  | .oob _ => "unchecked"

def sizeArg (l : Line) (k : String) : Option Nat :=
  match l.pos? k with
  | some none => some (U64 - 1)
  | some (some n) => some n
  | none => none

def stor (l : Line) : Stor :=
  match l.str? "T" with
  | some "zero" => .zero
  | some "nontriv" => .nontriv
  | _ => .triv

def nullKeys (fn : String) (d s : Bool) : Option (List (Key × Bool)) :=
  let two (file f : String) := some [(SC.kNull file f "dest", d), (SC.kNull file f "src", s)]
  match fn with
  | "memmove" => two "_cstring/memmove.hpp" "memmove"
  | "strcpy" => two "_cstring/strcpy.hpp" "strcpy"
  | "strncpy" => two "_cstring/strncpy.hpp" "strncpy"
  | "wcscpy" => two "_cwchar/wcscpy.hpp" "wcscpy"
  | "wcsncpy" => two "_cwchar/wcsncpy.hpp" "wcsncpy"
  | "strchr0" => some [(SC.kNull "_cstring/strchr.hpp" "strchr" "str" 0, s)]
  | "strchr1" => some [(SC.kNull "_cstring/strchr.hpp" "strchr" "str" 1, s)]
  | _ => none

def parseOp (l : Line) : Option Op :=
  let st := stor l
  let k := (l.nat? "k").getD 0
  let v := (l.int? "v").getD 0
  let p := (l.int? "p").getD 0
  let xs := (l.list? "xs").getD []
  let ord := (l.int? "ord").getD 1 != 0
  let a := (sizeArg l "a").getD 0
  let b := (sizeArg l "b").getD 0
  match l.op with
  | "sv.at" => (sizeArg l "i").map .svAt
  | "sv.front" => some .svFront
  | "sv.back" => some (.svBack k)
  | "sv.push" => some (.svPush st v)
  | "sv.emplace_back" => some (.svEmplaceBack st v)
  | "sv.pop" => some (.svPop st)
  | "sv.insert_n" => (sizeArg l "n").map fun n => .svInsertN st p n v
  | "sv.insert_cr" => some (.svInsertCr st p v)
  | "sv.insert_mv" => some (.svInsertMv st p v)
  | "sv.emplace" => some (.svEmplace st p v)
  | "sv.insert_rng" => some (.svInsertRng st p xs ord)
  | "sv.move_insert" => some (.svMoveInsert st p xs ord)
  | "sv.unsafe_set_size" => (sizeArg l "n").map fun n => .svUnsafeSetSize st n
  | "sv.unsafe_destroy" => match l.int? "f", l.int? "l" with | some f, some t => some (.svUnsafeDestroy f t) | _, _ => none
  | "iv.unsafe_set_size" => (sizeArg l "n").map .ivUnsafeSetSize
  | "str.unsafe_set_size" => some (.strUnsafeSetSize a)
  | "bs.to_u" => (l.nat? "d").map .bsToU
  | "sv.erase" => some (.svErase st p)
  | "sv.erase_rng" => match l.int? "f", l.int? "l" with | some f, some t => some (.svEraseRng st f t) | _, _ => none
  | "sv.resize" => (sizeArg l "n").map fun n => .svResize st n
  | "sv.resize_v" => (sizeArg l "n").map fun n => .svResizeV st n v
  | "sv.assign_n" => (sizeArg l "n").map fun n => .svAssignN st n v
  | "sv.assign_rng" => some (.svAssignRng st xs ord)
  | "sv.ctor_n" => (sizeArg l "n").map fun n => .svCtorN st n
  | "sv.ctor_nv" => (sizeArg l "n").map fun n => .svCtorNV st n v
  | "sv.ctor_rng" => some (.svCtorRng st xs ord)
  | "sv.clear" => some (.svClear st)
  | "iv.at" => (sizeArg l "i").map fun i => .ivAt k i
  | "iv.front" => some (.ivFront k)
  | "iv.back" => some (.ivBack k)
  | "iv.emplace_back" => some (.ivEmplaceBack v)
  | "iv.push" => some (.ivPush k v)
  | "iv.pop" => some .ivPop
  | "vw.at" => some (.vwAt a) | "vw.front" => some .vwFront | "vw.back" => some .vwBack
  | "vw.remove_prefix" => some (.vwRemovePrefix a) | "vw.remove_suffix" => some (.vwRemoveSuffix a)
  | "vw.substr" => some (.vwSubstr a b) | "vw.copy" => some (.vwCopy a b)
  | "sp.at" => some (.spAt a) | "sp.front" => some .spFront | "sp.back" => some .spBack
  | "sp.first" => some (.spFirst a) | "sp.last" => some (.spLast a) | "sp.subspan" => some (.spSubspan a b)
  | "sp.first_t" => some (.spFirstT a) | "sp.last_t" => some (.spLastT a) | "sp.subspan_t" => some (.spSubspanT a b)
  | "sp.ctor_ext" => (sizeArg l "ext").map fun e => .spCtorExt k e
  | "ar.at" => (sizeArg l "i").map fun i => .arAt k i
  | "ar.front" => some (.arFront k) | "ar.back" => some (.arBack k)
  | "str.insert" => some (.strInsert k a xs)
  | "str.insert_fill" => some (.strInsertFill a b ((l.int? "v").getD 120))
  | "str.erase_idx" => some (.strEraseIdx a b)
  | "linalg" => match l.str? "fn" with
    | some fn => some (.nullChecks (SC.linalgChecks fn ((sizeArg l "nx").getD 0) ((sizeArg l "ny").getD 0) ((sizeArg l "nz").getD 0)
        ((sizeArg l "r").getD 0) ((sizeArg l "c").getD 0)))
    | none => none
  | "to_string" => match l.int? "x", l.nat? "cap" with
    | some x, some cap => some (.nullChecks (SC.toStringChecks cap x))
    | _, _ => none
  | "str.ctor_ptr" => some (.strCtorPtr xs a)
  | "str.ctor_fill" => some (.strCtorFill a ((l.int? "v").getD 120))
  | "str.op_assign" => some (.strOpAssign xs)
  | "str.assign_fill" => some (.strAssignFill a ((l.int? "v").getD 120))
  | "str.assign_ptr" => some (.strAssignPtr xs a)
  | "str.front" => some (.strFront k) | "str.back" => some (.strBack k) | "str.at" => some (.strAt k a)
  | "str.push" => some (.strPush ((l.int? "v").getD 120)) | "str.pop" => some .strPop
  | "str.erase_rng" => some (.strEraseRng a b)
  | "str.replace" => some (.strReplace k a b xs)
  | "str.replace_sub" => match sizeArg l "c", sizeArg l "d" with | some c, some d => some (.strReplaceSub a b xs c d) | _, _ => none
  | "opt.deref" => some (.optDeref k) | "exp.deref" => some (.expDeref k) | "exp.error" => some (.expError k)
  | "var.idx" => (l.nat? "i").map fun i => .varIdx k i
  | "var.get" => (l.nat? "i").map fun i => .varGet k i
  | "bb.op" => match l.nat? "w", sizeArg l "pos" with | some w, some q => some (.bb w q ((l.int? "v").getD 1)) | _, _ => none
  | "bs.op" => match l.nat? "w", sizeArg l "pos" with | some w, some q => some (.bs w q ((l.int? "v").getD 1)) | _, _ => none
  | "bs.ctor" => match sizeArg l "pos", sizeArg l "n" with | some q, some n => some (.bsCtor q n 5) | _, _ => none
  | "bit" => match l.nat? "which", l.nat? "w", sizeArg l "pos" with | some wh, some w, some q => some (.bit wh w q) | _, _, _ => none
  | "div_sat" => match l.int? "x", l.int? "y" with | some x, some y => some (.divSat x y) | _, _ => none
  | "day" => (l.nat? "d").map .dayCtor
  | "month" => (l.nat? "d").map .monthCtor
  | "stride" => match l.str? "l", sizeArg l "r" with | some lay, some r => some (.stride lay r) | _, _ => none
  | "null" => match l.str? "fn" with
    | some fn => (nullKeys fn ((l.int? "d").getD 1 != 0) ((l.int? "s").getD 1 != 0)).map .nullChecks
    | none => none
  | "set.ctor" => some (.setCtor xs.length ord)
  | _ => none

def initSt (l : Line) : St :=
  let e := (l.list? "e").getD []
  let fam := (l.op.splitOn ".").headD ""
  let cap :=
    if fam == "sv" || fam == "iv" || fam == "str" || fam == "ar" then (l.nat? "cap").getD 0
    else if l.op == "linalg" || l.op == "to_string" then 0
    else if l.op == "set.ctor" then 3
    else if l.op == "day" || l.op == "month" then 1
    else e.length
  { cap := cap, elems := e, alt := (l.nat? "alt").getD 0 }

def step (_ : Unit) (l : Line) : Unit × String :=
  match parseOp l with
  | none => ((), "bad-op\tbad-op")
  | some op =>
    let s := initSt l
    let cfg : Cfg := { safe := (l.int? "safe").getD 0 != 0 }
    let noPre := l.op == "day" || l.op == "month"
    ((), fmtModel noPre s (run op cfg s) ++ "\t" ++ fmtSpec (Spec.expect op cfg s))

end Tetl.C05.Driver

def main : IO Unit := Tetl.Proto.runDriver () Tetl.C05.Driver.step
