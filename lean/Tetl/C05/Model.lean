/-
C05 — models of the operations that carry a contract check, written from the source clause by clause.
Each TETL_PRECONDITION of the source is a `guard key cond` at the position it has in the function
body; nested calls carry the guards of the callee.  `Model.run op cfg s` is what the C++ does on the
object `s` in a build with contract checks enabled.

The models follow the code AFTER the repairs of branch fix-c05 (see known_findings.d/C05.json):
  * detail::index compares as size_t (a `size_t` index ≥ 2^63 no longer passes as a negative ptrdiff_t),
  * static_vector::insert(pos, n, x) checks `n <= capacity() - size()` (no wrap of `size() + n`),
  * set_bit/reset_bit/flip_bit/test_bit compare `pos` unsigned (no `static_cast<int>` wrap),
  * basic_inplace_string::erase(first, last) checks `start <= size()` and `distance <= size() - start`.
and of branch fix-c05b:
  * span::first<Count>() / last<Count>() / subspan<Offset, Count>() and the static-extent constructors check their
    run-time preconditions,
  * chrono::day / month accept 255 (`<=` instead of `<`),
  * array<T, 0>::front() / back() check `Size != 0`, array<T, 0>::operator[] checks `false` (both configurations),
  * basic_inplace_string::insert(index, ...) (7 overloads) and erase(index, count) check `index <= size()`.
and of branch fix-c05c:
  * the members of the specialisation inplace_vector<T, 0> that have a precondition check `false` before `unreachable()`.
and of branch fix-c17x:
  * bitset::to_ulong / to_ullong exist for every width; `to_unsigned_type` checks `not test(i)` for every position at or
    beyond the digits of the result type (`BS.toUnsigned`).
-/
import Tetl.C05.Basic
namespace Tetl.C05
open Tetl.C05

abbrev Out := List Int

/-! ## keys of the sites carried by the models -/
def fSV := "_vector/static_vector.hpp"
def fIV := "_inplace_vector/inplace_vector.hpp"
def fVW := "_string_view/basic_string_view.hpp"
def fSP := "_span/span.hpp"
def fAR := "_array/array.hpp"
def fST := "_string/basic_inplace_string.hpp"
def fOP := "_optional/optional.hpp"
def fEX := "_expected/expected.hpp"
def fVA := "_variant/variant.hpp"
def fBB := "_bitset/basic_bitset.hpp"
def fBS := "_bitset/bitset.hpp"

def K (file func cond : String) (k : Nat := 0) : Key := { file := file, func := func, cond := cond, k := k }

def kIndex := K "_container/index.hpp" "index" "static_cast<etl::size_t>(i) < static_cast<etl::size_t>(end(rng) - begin(rng))"

/-- which storage base a static_vector uses -/
inductive Stor where | zero | triv | nontriv
  deriving DecidableEq, Repr, Inhabited

def Stor.cls : Stor → String
  | .zero => "static_vector_zero_storage" | .triv => "static_vector_trivial_storage" | .nontriv => "static_vector_non_trivial_storage"

def kStEmplace (st : Stor) := K fSV (st.cls ++ "::emplace_back") (match st with | .zero => "false" | _ => "!full()")
def kStPop (st : Stor) := K fSV (st.cls ++ "::pop_back") (match st with | .zero => "false" | _ => "!empty()")
def kStSet (st : Stor) := K fSV (st.cls ++ "::unsafe_set_size") (match st with | .zero => "newSize == 0" | _ => "newSize <= Capacity")
def kNtDestroyF := K fSV "static_vector_non_trivial_storage::unsafe_destroy" "first >= data() and first <= end()"
def kNtDestroyL := K fSV "static_vector_non_trivial_storage::unsafe_destroy" "last >= data() and last <= end()"
def kEmplaceN := K fSV "static_vector::emplace_n" "n <= capacity()"
def kPush := K fSV "static_vector::push_back" "!full()"
def kMoveIns := K fSV "static_vector::move_insert" "size() + static_cast<size_type>(last - first) <= capacity()"
def kEmplace := K fSV "static_vector::emplace" "!full()"
def kInsMv := K fSV "static_vector::insert" "!full()" 0
def kInsN := K fSV "static_vector::insert" "n <= capacity() - size()"
def kInsCr := K fSV "static_vector::insert" "!full()" 1
def kInsRng := K fSV "static_vector::insert" "size() + static_cast<size_type>(last - first) <= capacity()"
def kCtorN (k : Nat) := K fSV "static_vector::static_vector" "n <= capacity()" k
def kCtorOrd := K fSV "static_vector::static_vector" "last - first >= 0"
def kCtorFit := K fSV "static_vector::static_vector" "static_cast<size_type>(last - first) <= capacity()"
def kAsgOrd := K fSV "static_vector::assign" "last - first >= 0"
def kAsgFit := K fSV "static_vector::assign" "static_cast<size_type>(last - first) <= capacity()"
def kAsgN := K fSV "static_vector::assign" "n <= capacity()"
def kBack (k : Nat) := K fSV "static_vector::back" "!empty()" k
def kResize := K fSV "static_vector::resize" "sz <= capacity()"
def kItLo := K fSV "static_vector::assert_iterator_in_range" "begin() <= it"
def kItHi := K fSV "static_vector::assert_iterator_in_range" "it <= end()"
def kPair := K fSV "static_vector::assert_valid_iterator_pair" "first <= last"

/-! ## static_vector -/
namespace SV

/-- `detail::index(rng, i)` over a range of `n` elements (the guard only; the access follows) -/
def indexGuard (i n : Nat) : M Unit := guard kIndex (fun _ => i % U64 < n)

/-- `base_type::unsafe_set_size(newSize)`; the size itself is carried by `elems` -/
def setSizeGuard (st : Stor) (newSize : Nat) : M Unit :=
  guard (kStSet st) (fun s => match st with | .zero => newSize == 0 | _ => newSize ≤ s.cap)

/-- `base_type::emplace_back(v)` -/
def emplaceBack (st : Stor) (v : Int) : M Unit := do
  match st with
  | .zero => guard (kStEmplace .zero) (fun _ => false)
  | .triv =>
    guard (kStEmplace .triv) (fun s => s.size != s.cap)
    let n ← getSize
    let c ← getCap
    indexGuard n c                       -- index(_data, size()) over the whole array
    constructEnd v
    setSizeGuard .triv (n + 1)
  | .nontriv =>
    guard (kStEmplace .nontriv) (fun s => s.size != s.cap)
    let n ← getSize
    constructEnd v
    setSizeGuard .nontriv (n + 1)

/-- `base_type::pop_back()` -/
def popBack (st : Stor) : M Unit := do
  match st with
  | .zero => guard (kStPop .zero) (fun _ => false)
  | _ =>
    guard (kStPop st) (fun s => s.size != 0)
    let n ← getSize
    shrinkTo (n - 1)
    setSizeGuard st (n - 1)

def pushBack (st : Stor) (v : Int) : M Unit := do
  guard kPush (fun s => s.size != s.cap)
  emplaceBack st v

/-- `operator[](pos)` (both overloads go through detail::index over [begin(), end())) -/
def at_ (i : Nat) : M Out := do
  let n ← getSize
  indexGuard i n
  let x ← rdAt (i % U64)
  pure [x]

def front : M Out := at_ 0

def back (k : Nat) : M Out := do
  guard (kBack k) (fun s => s.size != 0)
  let n ← getSize
  at_ (n - 1)

/-- `assert_iterator_in_range(it)`, `it = begin() + p` -/
def itInRange (p : Int) : M Unit := do
  guard kItLo (fun _ => 0 ≤ p)
  guard kItHi (fun s => p ≤ s.size)

def pairInRange (f l : Int) : M Unit := do
  itInRange f
  itInRange l
  guard kPair (fun _ => f ≤ l)

/-- `rotate(begin()+p, begin()+b, end())` on the live range -/
def rotateAt (p b : Nat) : M Unit := fun _ s =>
  if p ≤ b ∧ b ≤ s.elems.length then
    .ok () { s with elems := s.elems.take p ++ s.elems.drop b ++ (s.elems.take b).drop p }
  else .oob s

def pushN (st : Stor) (v : Int) : Nat → M Unit
  | 0 => pure ()
  | n + 1 => do pushBack st v; pushN st v n

def emplaceEach (st : Stor) : List Int → M Unit
  | [] => pure ()
  | x :: xs => do emplaceBack st x; emplaceEach st xs

/-- `insert(position, n, x)` -/
def insertN (st : Stor) (p : Int) (n : Nat) (v : Int) : M Out := do
  itInRange p
  guard kInsN (fun s => n ≤ s.cap - s.size)
  let b ← getSize
  pushN st v n
  rotateAt p.toNat b
  pure [p]

/-- `insert(position, const_reference x)` -/
def insertCr (st : Stor) (p : Int) (v : Int) : M Out := do
  guard kInsCr (fun s => s.size != s.cap)
  itInRange p
  insertN st p 1 v

/-- `move_insert(position, first, last)` over a sized range `xs` -/
def moveInsert (st : Stor) (p : Int) (xs : List Int) : M Out := do
  itInRange p
  guard kPair (fun _ => true)            -- first <= last of the caller's array
  guard kMoveIns (fun s => s.size + xs.length ≤ s.cap)
  let b ← getSize
  emplaceEach st xs
  rotateAt p.toNat b
  pure [p]

/-- the public member `move_insert(position, first, last)` called directly with a pointer range of `xs.length`
    elements (`ordered = false`: last < first) -/
def moveInsertRng (st : Stor) (p : Int) (xs : List Int) (ordered : Bool) : M Out := do
  itInRange p
  guard kPair (fun _ => ordered)
  guard kMoveIns (fun s => s.size + xs.length ≤ s.cap)
  let b ← getSize
  emplaceEach st xs
  rotateAt p.toNat b
  pure [p]

/-- `insert(position, value_type&& x)` -/
def insertMv (st : Stor) (p : Int) (v : Int) : M Out := do
  guard kInsMv (fun s => s.size != s.cap)
  itInRange p
  moveInsert st p [v]

/-- `emplace(position, args...)` -/
def emplace (st : Stor) (p : Int) (v : Int) : M Out := do
  guard kEmplace (fun s => s.size != s.cap)
  itInRange p
  moveInsert st p [v]

/-- `insert(position, first, last)`, random-access range; `ordered = false`: last < first -/
def insertRng (st : Stor) (p : Int) (xs : List Int) (ordered : Bool) : M Out := do
  itInRange p
  guard kPair (fun _ => ordered)
  guard kInsRng (fun s => s.size + xs.length ≤ s.cap)
  let b ← getSize
  emplaceEach st xs
  rotateAt p.toNat b
  pure [p]

/-- `unsafe_destroy(first, last)`: checks only in the non-trivial storage -/
def destroyGuard (st : Stor) (f l : Nat) : M Unit :=
  match st with
  | .nontriv => do
    guard kNtDestroyF (fun s => f ≤ s.size)
    guard kNtDestroyL (fun s => l ≤ s.size)
  | _ => pure ()

/-- the protected member `unsafe_set_size(newSize)` of the storage base called directly: the check, then `_size = newSize`
    (no element is constructed or destroyed; a size beyond the constructed elements is reported as damage) -/
def unsafeSetSize (st : Stor) (n : Nat) : M Out := do
  setSizeGuard st n
  shrinkTo n
  pure []

/-- the protected member `unsafe_destroy(first, last)` of the non-trivial storage called directly with
    `first = data() + f`, `last = data() + l`: the two checks, then the destructor loop `for (; first != last; ++first)`
    (which runs off the storage when `last < first`) -/
def unsafeDestroy (f l : Int) : M Out := do
  guard kNtDestroyF (fun s => 0 ≤ f ∧ f ≤ s.size)
  guard kNtDestroyL (fun s => 0 ≤ l ∧ l ≤ s.size)
  if f ≤ l then pure [] else (fun _ s => .oob s)

/-- `erase(first, last)` -/
def eraseRng (st : Stor) (f l : Int) : M Out := do
  pairInRange f l
  if f != l then
    let n ← getSize
    let s ← getSt
    -- etl::move(p + (last - first), end(), p): the tail moves down; then destroy [new end, end)
    destroyGuard st (n - (l - f).toNat) n
    putElems (s.elems.take f.toNat ++ s.elems.drop l.toNat)
    setSizeGuard st (n - (l - f).toNat)
    pure [f]
  else pure [f]

/-- `erase(position)` -/
def erase (st : Stor) (p : Int) : M Out := do
  itInRange p
  eraseRng st p (p + 1)

/-- `clear()` -/
def clear (st : Stor) : M Unit := do
  let n ← getSize
  destroyGuard st 0 n
  setSizeGuard st 0
  shrinkTo 0

def emplaceDefault (st : Stor) : Nat → M Unit
  | 0 => pure ()
  | k + 1 => do emplaceBack st 0; emplaceDefault st k

/-- `emplace_n(n)`: `while (n != size()) emplace_back(T{})` -/
def emplaceNTo (st : Stor) (n : Nat) : M Unit := do
  guard kEmplaceN (fun s => n ≤ s.cap)
  let sz ← getSize
  emplaceDefault st (n - sz)

/-- `resize(sz)` -/
def resize (st : Stor) (n : Nat) : M Out := do
  let sz ← getSize
  if n == sz then pure []
  else if n > sz then do emplaceNTo st n; pure []
  else do let _ ← eraseRng st n sz; pure []

/-- `resize(sz, value)` -/
def resizeV (st : Stor) (n : Nat) (v : Int) : M Out := do
  let sz ← getSize
  if n == sz then pure []
  else if n > sz then do
    guard kResize (fun s => n ≤ s.cap)
    let _ ← insertN st sz (n - sz) v
    pure []
  else do let _ ← eraseRng st n sz; pure []

/-- `assign(n, u)` -/
def assignN (st : Stor) (n : Nat) (v : Int) : M Out := do
  guard kAsgN (fun s => n ≤ s.cap)
  clear st
  let _ ← insertN st 0 n v
  pure []

/-- `assign(first, last)`, random-access range -/
def assignRng (st : Stor) (xs : List Int) (ordered : Bool) : M Out := do
  guard kAsgOrd (fun _ => ordered)
  guard kAsgFit (fun s => xs.length ≤ s.cap)
  clear st
  let _ ← insertRng st 0 xs ordered
  pure []

/-- `static_vector(n)` on a fresh object -/
def ctorN (st : Stor) (n : Nat) : M Out := do
  guard (kCtorN 0) (fun s => n ≤ s.cap)
  emplaceNTo st n
  pure []

/-- `static_vector(n, value)` -/
def ctorNV (st : Stor) (n : Nat) (v : Int) : M Out := do
  guard (kCtorN 1) (fun s => n ≤ s.cap)
  let _ ← insertN st 0 n v
  pure []

/-- `static_vector(first, last)` -/
def ctorRng (st : Stor) (xs : List Int) (ordered : Bool) : M Out := do
  guard kCtorOrd (fun _ => ordered)
  guard kCtorFit (fun s => xs.length ≤ s.cap)
  let _ ← insertRng st 0 xs ordered
  pure []

end SV

/-! ## inplace_vector -/
namespace IV
def cls := "inplace_vector"
def kFront (k : Nat) := K fIV "inplace_vector::front" "not empty()" k
def kBack (k : Nat) := K fIV "inplace_vector::back" "not empty()" k
def kAt (k : Nat) := K fIV "inplace_vector::operator[]" "n < size()" k
def kEmplace := K fIV "inplace_vector::unchecked_emplace_back" "size() != max_size()"
def kPush (k : Nat) := K fIV "inplace_vector::unchecked_push_back" "size() != max_size()" k
def kPop := K fIV "inplace_vector::pop_back" "not empty()"
def kSet := K fIV "inplace_vector::unsafe_set_size" "newSize <= max_size()"

/-- the keys of the specialisation `inplace_vector<T, 0>` (every member with a precondition checks `false`) -/
def kFrontZ (k : Nat) := K fIV "inplace_vector::front" "false" k
def kBackZ (k : Nat) := K fIV "inplace_vector::back" "false" k
def kAtZ (k : Nat) := K fIV "inplace_vector::operator[]" "false" k
def kEmplaceZ := K fIV "inplace_vector::unchecked_emplace_back" "false"
def kPushZ (k : Nat) := K fIV "inplace_vector::unchecked_push_back" "false" k
def kPopZ := K fIV "inplace_vector::pop_back" "false"

/-- a member of `inplace_vector<T, 0>`: `TETL_PRECONDITION(false); etl::unreachable();` -/
def zeroMember (key : Key) : M Out := do
  guard key (fun _ => false)
  fun _ s => .oob s

/-- `back()` of the primary template -/
def backP (k : Nat) : M Out := do
  guard (kBack k) (fun s => s.size != 0)
  let n ← getSize
  let x ← rdAt (n - 1)
  pure [x]

def front (k : Nat) : M Out := do
  let c ← getCap
  if c == 0 then zeroMember (kFrontZ k) else do
    guard (kFront k) (fun s => s.size != 0)
    let x ← rdAt 0
    pure [x]
def back (k : Nat) : M Out := do
  let c ← getCap
  if c == 0 then zeroMember (kBackZ k) else backP k
def at_ (k : Nat) (i : Nat) : M Out := do
  let c ← getCap
  if c == 0 then zeroMember (kAtZ k) else do
    guard (kAt k) (fun s => i < s.size)
    let x ← rdAt i
    pure [x]
/-- `unchecked_emplace_back` (keys `kEmplace` / `kEmplaceZ`) / `unchecked_push_back` (keys `kPush 0/1` / `kPushZ 0/1`) -/
def append (key keyZ : Key) (v : Int) : M Out := do
  let c ← getCap
  if c == 0 then zeroMember keyZ else do
    guard key (fun s => s.size != s.cap)
    let n ← getSize
    constructEnd v
    guard kSet (fun s => n + 1 ≤ s.cap)
    backP 0
def popBack : M Out := do
  let c ← getCap
  if c == 0 then zeroMember kPopZ else do
    guard kPop (fun s => s.size != 0)
    let _ ← backP 0
    let n ← getSize
    guard kSet (fun s => n - 1 ≤ s.cap)
    shrinkTo (n - 1)
    pure []
/-- the private member `unsafe_set_size(newSize)` called directly -/
def unsafeSetSize (n : Nat) : M Out := do
  guard kSet (fun s => n ≤ s.cap)
  shrinkTo n
  pure []
end IV

/-! ## views: basic_string_view, span, array -/
namespace VW
def kAt := K fVW "basic_string_view::operator[]" "pos < size()"
def kFront := K fVW "basic_string_view::front" "not empty()"
def kBack := K fVW "basic_string_view::back" "not empty()"
def kPrefix := K fVW "basic_string_view::remove_prefix" "n <= size()"
def kSuffix := K fVW "basic_string_view::remove_suffix" "n <= size()"
def kCopy := K fVW "basic_string_view::copy" "pos <= size()"
def kSubstr := K fVW "basic_string_view::substr" "pos <= size()"

/-- the view moves: the object (pointer, size) now denotes the sub-range -/
def narrow (off cnt : Nat) : M Unit := fun _ s =>
  if off + cnt ≤ s.elems.length then .ok () { s with cap := cnt, elems := (s.elems.drop off).take cnt } else .oob s
/-- a new view / a copy of the sub-range is returned; every element is read -/
def sub (off cnt : Nat) : M Out := fun _ s =>
  if off + cnt ≤ s.elems.length then .ok ((s.elems.drop off).take cnt) s else .oob s

def at_ (i : Nat) : M Out := do guard kAt (fun s => i < s.size); let x ← rdAt i; pure [x]
def front : M Out := do guard kFront (fun s => s.size != 0); let x ← rdAt 0; pure [x]
def back : M Out := do guard kBack (fun s => s.size != 0); let n ← getSize; let x ← rdAt (n - 1); pure [x]
def removePrefix (n : Nat) : M Out := do
  guard kPrefix (fun s => n ≤ s.size); let sz ← getSize; narrow n (sz - n); pure []
def removeSuffix (n : Nat) : M Out := do
  guard kSuffix (fun s => n ≤ s.size); let sz ← getSize; narrow 0 (sz - n); pure []
def copy (count pos : Nat) : M Out := do
  guard kCopy (fun s => pos ≤ s.size); let sz ← getSize; sub pos (min count (sz - pos))
def substr (pos count : Nat) : M Out := do
  guard kSubstr (fun s => pos ≤ s.size); let sz ← getSize; sub pos (min count (sz - pos))
end VW

namespace SP
def kFront := K fSP "span::front" "not empty()"
def kBack := K fSP "span::back" "not empty()"
def kAt := K fSP "span::operator[]" "idx < size()"
def kFirst := K fSP "span::first" "count <= size()"
def kLast := K fSP "span::last" "count <= size()"
def kSubOff := K fSP "span::subspan" "offset <= size()"
def kSubCnt := K fSP "span::subspan" "count != dynamic_extent ? (count <= size() - offset) : true"
abbrev dyn : Nat := U64 - 1
def kFirstT := K fSP "span::first" "Count <= size()"
def kLastT := K fSP "span::last" "Count <= size()"
def kSubOffT := K fSP "span::subspan" "Offset <= size()"
def kSubCntT := K fSP "span::subspan" "Count == dynamic_extent or Count <= size() - Offset"
/-- the static-extent constructors: 0 `(It, count)`, 1 `(R&&)`, 2 `(span<U, N> const&)` -/
def kCtorExt (k : Nat) := K fSP "span::span" (match k with
  | 0 => "extent == dynamic_extent or count == extent"
  | 1 => "extent == dynamic_extent or ranges::size(r) == extent"
  | _ => "extent == dynamic_extent or source.size() == extent")

def at_ (i : Nat) : M Out := do guard kAt (fun s => i < s.size); let x ← rdAt i; pure [x]
def front : M Out := do guard kFront (fun s => s.size != 0); let x ← rdAt 0; pure [x]
def back : M Out := do guard kBack (fun s => s.size != 0); let n ← getSize; let x ← rdAt (n - 1); pure [x]
def first (count : Nat) : M Out := do guard kFirst (fun s => count ≤ s.size); VW.sub 0 count
def last (count : Nat) : M Out := do
  guard kLast (fun s => count ≤ s.size); let n ← getSize; VW.sub (n - count) count
def subspan (off count : Nat) : M Out := do
  guard kSubOff (fun s => off ≤ s.size)
  guard kSubCnt (fun s => if count != dyn then count ≤ s.size - off else true)
  let n ← getSize
  VW.sub off (if count == dyn then n - off else count)
/-- `first<Count>()`, `last<Count>()`, `subspan<Offset, Count>()` on a span of dynamic extent -/
def firstT (count : Nat) : M Out := do guard kFirstT (fun s => count ≤ s.size); VW.sub 0 count
def lastT (count : Nat) : M Out := do
  guard kLastT (fun s => count ≤ s.size); let n ← getSize; VW.sub (n - count) count
def subspanT (off count : Nat) : M Out := do
  guard kSubOffT (fun s => off ≤ s.size)
  guard kSubCntT (fun s => if count != dyn then count ≤ s.size - off else true)
  let n ← getSize
  VW.sub off (if count == dyn then n - off else count)
/-- `span<T, ext>(first, count)` / `(range)` / `(span<U, dynamic_extent>)` over the `size()` elements of the object -/
def ctorExt (k ext : Nat) : M Out := do
  guard (kCtorExt k) (fun s => ext == dyn || s.size == ext)
  let n ← getSize
  VW.sub 0 n
end SP

namespace AR
def kAt (k : Nat) := K fAR "array::operator[]" "pos < Size" k
def kAtZ (k : Nat) := K fAR "array::operator[]" "false" k
def kFront (k : Nat) := K fAR "array::front" "Size != 0" k
def kBack (k : Nat) := K fAR "array::back" "Size != 0" k
/-- `array<T, Size>::operator[]`: `if constexpr (Size == 0)` the check `false` (then `unreachable()`), else the index
    check, which is compiled in only in the SAFE configuration -/
def at_ (k : Nat) (i : Nat) : M Out := do
  let n ← getSize
  if n == 0 then do
    guard (kAtZ k) (fun _ => false)
    fun _ s => .oob s
  else do
    guardSafe (kAt k) (fun s => i < s.size)
    let x ← rdAt i
    pure [x]
/-- `front()`: `*begin()` -/
def front (k : Nat) : M Out := do guard (kFront k) (fun s => s.size != 0); let x ← rdAt 0; pure [x]
/-- `back()`: `*prev(end())` -/
def back (k : Nat) : M Out := do
  guard (kBack k) (fun s => s.size != 0); let n ← getSize; let x ← rdAt (n - 1); pure [x]
end AR

/-! ## basic_inplace_string -/
namespace STR
def c := "basic_inplace_string::"
def kCtorPtr := K fST (c ++ "basic_inplace_string") "len <= Capacity"
def kCtorFill := K fST (c ++ "basic_inplace_string") "count <= Capacity"
def kOpAsg := K fST (c ++ "operator=") "len <= capacity()"
def kAssign (k : Nat) := K fST (c ++ "assign") "count <= capacity()" k
def kFront (k : Nat) := K fST (c ++ "front") "not empty()" k
def kBack (k : Nat) := K fST (c ++ "back") "not empty()" k
def kEraseS := K fST (c ++ "erase") "start <= size()"
def kEraseD := K fST (c ++ "erase") "distance <= size() - start"
def kPush := K fST (c ++ "push_back") "size() < capacity()"
def kPop := K fST (c ++ "pop_back") "not empty()"
def kReplPos (k : Nat) := K fST (c ++ "replace") "pos < size()" k
def kReplCnt (k : Nat) := K fST (c ++ "replace") "pos + count < size()" k
def kReplPos2 := K fST (c ++ "replace") "pos2 < str.size()"
def kAt (k : Nat) := K fST (c ++ "unsafe_at") "index < size() + 1" k
def kSet := K fST (c ++ "unsafe_set_size") "newSize <= Capacity"
def kInsert (k : Nat) := if k == 5 then K fST (c ++ "insert") "pos <= size()" 0 else K fST (c ++ "insert") "index <= size()" (if k == 6 then 5 else k)
def kEraseIdx := K fST (c ++ "erase") "index <= size()"

/-- `unsafe_set_size(newSize)`: check, store the size, write the terminator through `unsafe_at(newSize)`.
    The terminator slot `buf[size]` always exists (the buffer has Capacity + 1 units). -/
def setSizeGuard (newSize : Nat) : M Unit := do
  guard kSet (fun s => newSize ≤ s.cap)
  guard (kAt 0) (fun _ => newSize < newSize + 1)

/-- the private member `unsafe_set_size(newSize)` called directly (the terminator is written at `newSize`) -/
def unsafeSetSize (n : Nat) : M Out := do
  setSizeGuard n
  shrinkTo n
  pure []

/-- the contents become `l` (the size check is `setSizeGuard`) -/
def ctorPtr (xs : List Int) (len : Nat) : M Out := do
  guard kCtorPtr (fun s => len ≤ s.cap)
  setSizeGuard len
  putElems (xs.take len)
  pure []
def ctorFill (count : Nat) (ch : Int) : M Out := do
  guard kCtorFill (fun s => count ≤ s.cap)
  setSizeGuard count
  putElems (List.replicate count ch)
  pure []
/-- `assign(s, count)` -/
def assignPtr (xs : List Int) (count : Nat) : M Out := do
  guard (kAssign 1) (fun s => count ≤ s.cap)
  ctorPtr xs count
/-- `operator=(const_pointer s)` -/
def opAssign (xs : List Int) : M Out := do
  guard kOpAsg (fun s => xs.length ≤ s.cap)
  assignPtr xs xs.length
/-- `assign(count, ch)` -/
def assignFill (count : Nat) (ch : Int) : M Out := do
  guard (kAssign 0) (fun s => count ≤ s.cap)
  ctorFill count ch
def front (k : Nat) : M Out := do guard (kFront k) (fun s => s.size != 0); let x ← rdAt 0; pure [x]
def back (k : Nat) : M Out := do
  guard (kBack k) (fun s => s.size != 0); let n ← getSize; let x ← rdAt (n - 1); pure [x]
/-- `operator[](index)`; `index == size()` reads the terminator (0) -/
def at_ (k : Nat) (i : Nat) : M Out := do
  guard (kAt k) (fun s => i < s.size + 1)
  let n ← getSize
  if i == n then pure [0] else do let x ← rdAt i; pure [x]
def pushBack (ch : Int) : M Out := do
  guard kPush (fun s => s.size < s.cap)
  -- append(1, ch): safeCount = min(1, capacity() - size())
  let n ← getSize
  let cp ← getCap
  let safe := min 1 (cp - n)
  let s ← getSt
  setSizeGuard (n + safe)
  putElems (s.elems ++ List.replicate safe ch)
  pure []
def popBack : M Out := do
  guard kPop (fun s => s.size != 0)
  let n ← getSize
  setSizeGuard (n - 1)
  shrinkTo (n - 1)
  pure []
/-- `erase(first, last)` with `start = first - begin()`, `distance = last - first` -/
def eraseRng (start distance : Nat) : M Out := do
  guard kEraseS (fun s => start ≤ s.size)
  guard kEraseD (fun s => distance ≤ s.size - start)
  let n ← getSize
  SV.rotateAt start (start + distance)
  setSizeGuard (n - distance)
  shrinkTo (n - distance)
  pure [start]
/-- `erase(index, count)`: the index check, `safeCount = min(count, size() - index)`, then `erase(first, last)` -/
def eraseIdx (index count : Nat) : M Out := do
  guard kEraseIdx (fun s => index ≤ s.size)
  let n ← getSize
  let _ ← eraseRng index (min count (n - index))
  pure []
/-- `append(str, count)`: `safeCount = min(count, capacity() - size())`, copy, `unsafe_set_size(size() + safeCount)` -/
def appendClamped (xs : List Int) : M Unit := do
  let n ← getSize
  let cp ← getCap
  let safe := min xs.length (cp - n)
  let s ← getSt
  setSizeGuard (n + safe)
  putElems (s.elems ++ xs.take safe)
/-- `insert_impl(begin() + index, text, count)`: append at the end, rotate into place -/
def insertImpl (index : Nat) (xs : List Int) : M Unit := do
  let n ← getSize
  appendClamped xs
  SV.rotateAt index n
/-- `insert(index, s)` (k = 1), `(index, s, count)` (2), `(index, str)` (3), `(index, str, indexStr, count)` (4),
    `(pos, view)` (5), `(index, view, indexStr, count)` (6): the index check, then one `insert_impl` of the units `xs` -/
def insert (k index : Nat) (xs : List Int) : M Out := do
  guard (kInsert k) (fun s => index ≤ s.size)
  insertImpl index xs
  pure []
def insertEach (index : Nat) (ch : Int) : Nat → M Unit
  | 0 => pure ()
  | n + 1 => do insertImpl index [ch]; insertEach index ch n
/-- `insert(index, count, ch)`: the index check, then `count` times `insert_impl(begin() + index, &ch, 1)` -/
def insertFill (index count : Nat) (ch : Int) : M Out := do
  guard (kInsert 0) (fun s => index ≤ s.size)
  insertEach index ch count
  pure []
/-- overwrite `[pos, pos + m)` with the first `m` units of `src` -/
def overwrite (pos : Nat) (src : List Int) : M Unit := fun _ s =>
  if pos + src.length ≤ s.elems.length then
    .ok () { s with elems := s.elems.take pos ++ src ++ s.elems.drop (pos + src.length) }
  else .oob s
/-- `replace(pos, count, str)` (k = 0), `replace(pos, count, s, count2)` (k = 1), `replace(pos, count, s)` (k = 2):
    `pos + count` is computed in size_t -/
def replace (k : Nat) (pos count : Nat) (src : List Int) : M Out := do
  guard (kReplPos (if k == 0 then 0 else k + 1)) (fun s => pos < s.size)
  guard (kReplCnt k) (fun s => (pos + count) % U64 < s.size)
  overwrite pos (src.take (min count src.length))
  pure []
/-- `replace(pos, count, str, pos2, count2)` -/
def replaceSub (pos count : Nat) (src : List Int) (pos2 count2 : Nat) : M Out := do
  guard (kReplPos 1) (fun s => pos < s.size)
  guard kReplPos2 (fun _ => pos2 < src.length)
  let n ← getSize
  let l := min ((pos + count) % U64) n
  let sub := (src.drop (min pos2 src.length)).take (min ((pos2 + count2) % U64) src.length - min pos2 src.length)
  overwrite pos (sub.take (min (l - pos) sub.length))
  pure []
end STR

/-! ## optional, expected, variant -/
namespace OEV
def kOpt (k : Nat) := K fOP "optional::operator*" "has_value()" k
def kExp (k : Nat) := K fEX "expected::operator*" "has_value()" k
def kErr (k : Nat) := K fEX "expected::error" "not has_value()" k
def kVarIdx (k : Nat) := K fVA "variant::operator[]" "I == this->index()" k
def kVarGet (k : Nat) := K fVA "unchecked_get" "I == v.index()" k

/-- `optional::operator*` (k = 0..3 the overloads `const&`, `&`, `const&&`, `&&`: the check, then
    `unchecked_get<1>(_var)` with its own checks; k = 4: `optional<T&>`) -/
def optDeref (k : Nat) : M Out := do
  guard (kOpt k) (fun s => s.size != 0)
  if k < 4 then do
    -- `_var` is an lvalue inside the member: the const overloads reach unchecked_get(variant const&) (k = 1),
    -- the others unchecked_get(variant&) (k = 0); unchecked_get then goes through variant::operator[]
    guard (kVarGet (if k % 2 == 0 then 1 else 0)) (fun s => s.size != 0)
    guard (kVarIdx (if k % 2 == 0 then 1 else 0)) (fun s => s.size != 0)
  let x ← rdAt 0
  pure [x]
/-- `expected::operator*`: alt 0 = value; the body goes through `get_if<0>` (no further check) -/
def expDeref (k : Nat) : M Out := do
  guard (kExp k) (fun s => s.alt == 0); let x ← rdAt 0; pure [x]
def expError (k : Nat) : M Out := do
  guard (kErr k) (fun s => s.alt != 0); let x ← rdAt 0; pure [x]
/-- `variant::operator[](index_c<I>)` -/
def varIdx (k : Nat) (i : Nat) : M Out := do
  guard (kVarIdx k) (fun s => i == s.alt); let x ← rdAt 0; pure [x]
/-- `unchecked_get<I>(v)`: the check, then `v[index_c<I>]` with the check of `operator[]` -/
def varGet (k : Nat) (i : Nat) : M Out := do
  guard (kVarGet k) (fun s => i == s.alt)
  varIdx k i
end OEV

/-! ## bitset -/
namespace BS
def kBBAt (k : Nat) := K fBB "basic_bitset::operator[]" "pos < size()" k
def kBBTest := K fBB "basic_bitset::unchecked_test" "pos < size()"
def kBBSet := K fBB "basic_bitset::unchecked_set" "pos < size()"
def kBBReset := K fBB "basic_bitset::unchecked_reset" "pos < size()"
def kBBFlip := K fBB "basic_bitset::unchecked_flip" "pos < size()"
def kCtor := K fBS "bitset::bitset" "pos <= str.size()"
def kSet := K fBS "bitset::set" "pos < size()"
def kReset := K fBS "bitset::reset" "pos < size()"
def kFlip := K fBS "bitset::flip" "pos < size()"
def kAt (k : Nat) := K fBS "bitset::operator[]" "pos < size()" k
def kTest := K fBS "bitset::test" "pos < size()"
def kToU := K fBS "bitset::to_unsigned_type" "not test(i)"
/-- the check of `etl::set_bit(word, pos)` (= `SC.kBit "set_bit"`), reached from `to_unsigned_type` -/
def kSetBit := K "_bit/set_bit.hpp" "set_bit" "pos < static_cast<UInt>(etl::numeric_limits<UInt>::digits)"

def inSize (pos : Nat) : St → Bool := fun s => pos < s.size

/-- basic_bitset members: `which` 0 `operator[] const`, 1 `operator[]` (reference: no access yet),
    2 unchecked_test, 3 unchecked_set(pos, v), 4 unchecked_reset, 5 unchecked_flip -/
def bb (which pos : Nat) (v : Int) : M Out := do
  match which with
  | 0 => do guard (kBBAt 0) (inSize pos); guard kBBTest (inSize pos); let x ← rdAt pos; pure [x]
  | 1 => do guard (kBBAt 1) (inSize pos); pure []
  | 2 => do guard kBBTest (inSize pos); let x ← rdAt pos; pure [x]
  | 3 => do guard kBBSet (inSize pos); wrAt pos v; pure []
  | 4 => do guard kBBReset (inSize pos); wrAt pos 0; pure []
  | _ => do guard kBBFlip (inSize pos); let x ← rdAt pos; wrAt pos (1 - x); pure []

/-- bitset members: 0 set(pos, v), 1 reset(pos), 2 flip(pos), 3 `operator[]` (reference), 4 `operator[] const`, 5 test -/
def bs (which pos : Nat) (v : Int) : M Out := do
  match which with
  | 0 => do guard kSet (inSize pos); bb 3 pos v
  | 1 => do guard kReset (inSize pos); bb 4 pos 0
  | 2 => do guard kFlip (inSize pos); bb 5 pos 0
  | 3 => do guard (kAt 0) (inSize pos); bb 1 pos 0
  | 4 => do guard (kAt 1) (inSize pos); bb 0 pos 0
  | _ => do guard kTest (inSize pos); bb 2 pos 0

/-- `bitset(string_view str, pos, n)`: the object is `str`; only the check and the sub-range read -/
def ctor (pos n bits : Nat) : M Out := do
  guard kCtor (fun s => pos ≤ s.size)
  let sz ← getSize
  VW.sub pos (min (min n (sz - pos)) bits)

/-- `bitset::test(i)` as a callee: its check, `basic_bitset::unchecked_test(i)` with its check, the read -/
def testBit (i : Nat) : M Int := do
  guard kTest (inSize i)
  guard kBBTest (inSize i)
  rdAt i

/-- `for (auto i = idx; i < size(); ++i) { TETL_PRECONDITION(not test(i)); }` for `n` more rounds from position `i` -/
def fitsLoop : Nat → Nat → M Unit
  | 0, _ => pure ()
  | n + 1, i => do
    let b ← testBit i
    guard kToU (fun _ => b == 0)
    fitsLoop n (i + 1)

/-- `for (UInt i{0}; i != idx; ++i) { if (test(i)) { result = set_bit(result, i); } }` for `n` more rounds from position `i`;
    `set_bit(word, pos)` carries its own check `pos < digits` and computes `word | (UInt(1) << pos)` -/
def sumLoop (digits : Nat) : Nat → Nat → Nat → M Nat
  | 0, _, r => pure r
  | n + 1, i, r => do
    let b ← testBit i
    if b != 0 then do
      guard kSetBit (fun _ => i < digits)
      sumLoop digits n (i + 1) ((r ||| 2 ^ i) % 2 ^ digits)
    else sumLoop digits n (i + 1) r

/-- `to_ulong()` / `to_ullong()` = `to_unsigned_type<UInt>()` with `digits` the width of `UInt`: the "value fits" loop over
    the positions at or beyond `digits`, then the accumulation of the low bits.  The result is printed as its two
    32-bit halves (low, high). -/
def toUnsigned (digits : Nat) : M Out := do
  let n ← getSize
  let idx := min n digits
  fitsLoop (n - idx) idx
  let r ← sumLoop digits idx 0 0
  pure [((r % 4294967296 : Nat) : Int), ((r / 4294967296 : Nat) : Int)]
end BS

/-! ## scalar operations -/
namespace SC
def kBit (fn : String) (k : Nat := 0) := K ("_bit/" ++ fn ++ ".hpp") fn "pos < static_cast<UInt>(etl::numeric_limits<UInt>::digits)" k
def kDiv := K "_numeric/div_sat.hpp" "div_sat" "y != 0"
def kDay := K "_chrono/day.hpp" "day::day" "d <= etl::numeric_limits<etl::uint8_t>::max()"
def kMonth := K "_chrono/month.hpp" "month::month" "m <= etl::numeric_limits<unsigned char>::max()"
def kStride (l : String) := K ("_mdspan/" ++ l ++ ".hpp") (l ++ "::stride") (if l == "layout_stride" then "i < extents_type::rank()" else "r < extents_type::rank()")
def kNull (file fn what : String) (k : Nat := 0) := K file fn (what ++ " != nullptr") k
def kSetOrd := K "_set/static_set.hpp" "static_set::static_set" "last - first >= 0"
def kSetFit := K "_set/static_set.hpp" "static_set::static_set" "static_cast<size_type>(last - first) <= max_size()"

def kAddXY := K "_linalg/blas1_add.hpp" "add" "x.extents() == y.extents()"
def kAddXZ := K "_linalg/blas1_add.hpp" "add" "x.extents() == z.extents()"
def kCopyExt := K "_linalg/blas1_copy.hpp" "copy" "x.extents() == y.extents()"
def kSwapExt := K "_linalg/blas1_swap_elements.hpp" "swap_elements" "x.extents() == y.extents()"
def kMvpX := K "_linalg/blas2_matrix_vector_product.hpp" "matrix_vector_product" "a.extent(1) == x.extent(0)"
def kMvpY := K "_linalg/blas2_matrix_vector_product.hpp" "matrix_vector_product" "a.extent(0) == y.extent(0)"
def kToString := K "_string/to_string.hpp" "to_string" "res.error == etl::strings::from_integer_error::none"

/-- the extents checks of `linalg::add(x, y, z)`, `copy(x, y)`, `swap_elements(x, y)` on rank-1 objects of `nx`, `ny`,
    `nz` elements and of `matrix_vector_product(a, x, y)` with an `r x c` matrix, in source order (run by `nullChecks`:
    the element loops follow only when every check passed) -/
def linalgChecks (fn : String) (nx ny nz r c : Nat) : List (Key × Bool) :=
  match fn with
  | "add" => [(kAddXY, nx == ny), (kAddXZ, nx == nz)]
  | "copy" => [(kCopyExt, nx == ny)]
  | "swap" => [(kSwapExt, nx == ny)]
  | _ => [(kMvpX, c == nx), (kMvpY, r == ny)]
/-- `to_string<Capacity>(x)`: `from_integer` reports `overflow` unless the decimal text and its terminator fit -/
def toStringChecks (cap : Nat) (x : Int) : List (Key × Bool) := [(kToString, (toString x).length + 1 ≤ cap)]

def bitFns : List String := ["flip_bit", "reset_bit", "set_bit", "set_bit", "test_bit"]
/-- the bit functions on a `w`-bit word `UInt` (`which` 0 flip, 1 reset, 2 set, 3 set(value), 4 test), `pos` a `UInt` value.
    The check compares two `UInt` values (`pos < static_cast<UInt>(digits)`); the damage is the shift `UInt(1) << pos`:
    the left operand is promoted to `int` for 8/16-bit words, the shift is undefined for a count >= the width of the
    promoted type. -/
def bit (which w pos : Nat) : M Out := do
  let fn := bitFns.getD which "test_bit"
  guard (kBit fn (if which == 3 then 1 else 0)) (fun _ => pos % 2 ^ w < w % 2 ^ w)
  if pos % 2 ^ w < max w 32 then pure [] else (fun _ s => .oob s)
abbrev I32min : Int := -2147483648
abbrev I32max : Int := 2147483647
/-- `div_sat(x, y)` on `int`: the check, the saturation branch, then `x / y`; the damage is the division itself
    (by zero, or a quotient that is not representable) -/
def divSat (x y : Int) : M Out := do
  guard kDiv (fun _ => y != 0)
  if x == I32min && y == -1 then pure [I32max]
  else if y == 0 then (fun _ s => .oob s)
  else
    let q := Int.tdiv x y
    if q < I32min || I32max < q then (fun _ s => .oob s) else pure [q]
/-- `day(d)` / `month(m)`: the member is initialised (truncated) first, then the check runs -/
def dayCtor (d : Nat) : M Out := do
  putElems [(d % 256 : Nat)]
  guard kDay (fun _ => d ≤ 255)
  pure []
def monthCtor (m : Nat) : M Out := do
  putElems [(m % 256 : Nat)]
  guard kMonth (fun _ => m ≤ 255)
  pure []
/-- `mapping::stride(r)` for a mapping of rank `size` -/
def stride (l : String) (r : Nat) : M Out := do
  guard (kStride l) (fun s => r < s.size)
  let x ← rdAt r
  pure [x]
/-- a function of the C string family: the null checks in source order, then the accesses -/
def nullChecks (ks : List (Key × Bool)) : M Out := do
  match ks with
  | [] => pure []
  | (k, nonnull) :: rest => do
    guard k (fun _ => nonnull)
    if nonnull then nullChecks rest else (fun _ s => .oob s)
/-- `static_set(first, last)` with a random-access range -/
def setCtor (n : Nat) (ordered : Bool) : M Out := do
  guard kSetOrd (fun _ => ordered)
  guard kSetFit (fun s => n ≤ s.cap)
  pure []
end SC

/-! ## the operation language of the driver / the theorems -/
inductive Op where
  | svAt (i : Nat) | svFront | svBack (k : Nat)
  | svPush (st : Stor) (v : Int) | svEmplaceBack (st : Stor) (v : Int) | svPop (st : Stor)
  | svInsertN (st : Stor) (p : Int) (n : Nat) (v : Int) | svInsertCr (st : Stor) (p : Int) (v : Int)
  | svInsertMv (st : Stor) (p : Int) (v : Int) | svEmplace (st : Stor) (p : Int) (v : Int)
  | svInsertRng (st : Stor) (p : Int) (xs : List Int) (ordered : Bool)
  | svErase (st : Stor) (p : Int) | svEraseRng (st : Stor) (f l : Int)
  | svResize (st : Stor) (n : Nat) | svResizeV (st : Stor) (n : Nat) (v : Int)
  | svAssignN (st : Stor) (n : Nat) (v : Int) | svAssignRng (st : Stor) (xs : List Int) (ordered : Bool)
  | svCtorN (st : Stor) (n : Nat) | svCtorNV (st : Stor) (n : Nat) (v : Int) | svCtorRng (st : Stor) (xs : List Int) (ordered : Bool)
  | svClear (st : Stor)
  | ivFront (k : Nat) | ivBack (k : Nat) | ivAt (k i : Nat) | ivEmplaceBack (v : Int) | ivPush (k : Nat) (v : Int) | ivPop
  | vwAt (i : Nat) | vwFront | vwBack | vwRemovePrefix (n : Nat) | vwRemoveSuffix (n : Nat)
  | vwCopy (count pos : Nat) | vwSubstr (pos count : Nat)
  | spAt (i : Nat) | spFront | spBack | spFirst (n : Nat) | spLast (n : Nat) | spSubspan (off count : Nat)
  | spFirstT (n : Nat) | spLastT (n : Nat) | spSubspanT (off count : Nat) | spCtorExt (k ext : Nat)
  | arAt (k i : Nat) | arFront (k : Nat) | arBack (k : Nat)
  | strCtorPtr (xs : List Int) (len : Nat) | strCtorFill (n : Nat) (ch : Int) | strOpAssign (xs : List Int)
  | strAssignFill (n : Nat) (ch : Int) | strAssignPtr (xs : List Int) (n : Nat)
  | strFront (k : Nat) | strBack (k : Nat) | strAt (k i : Nat) | strPush (ch : Int) | strPop
  | strEraseRng (start dist : Nat) | strReplace (k pos count : Nat) (src : List Int)
  | strReplaceSub (pos count : Nat) (src : List Int) (pos2 count2 : Nat)
  | strInsert (k index : Nat) (xs : List Int) | strInsertFill (index count : Nat) (ch : Int) | strEraseIdx (index count : Nat)
  | optDeref (k : Nat) | expDeref (k : Nat) | expError (k : Nat) | varIdx (k i : Nat) | varGet (k i : Nat)
  | bb (which pos : Nat) (v : Int) | bs (which pos : Nat) (v : Int) | bsCtor (pos n bits : Nat) | bsToU (digits : Nat)
  | svMoveInsert (st : Stor) (p : Int) (xs : List Int) (ordered : Bool)
  | svUnsafeSetSize (st : Stor) (n : Nat) | svUnsafeDestroy (f l : Int) | ivUnsafeSetSize (n : Nat) | strUnsafeSetSize (n : Nat)
  | bit (which w pos : Nat) | divSat (x y : Int) | dayCtor (d : Nat) | monthCtor (m : Nat) | stride (l : String) (r : Nat)
  | nullChecks (ks : List (Key × Bool)) | setCtor (n : Nat) (ordered : Bool)
  deriving Repr, Inhabited

def run : Op → M Out
  | .svAt i => SV.at_ i | .svFront => SV.front | .svBack k => SV.back k
  | .svPush st v => do SV.pushBack st v; pure []
  | .svEmplaceBack st v => do SV.emplaceBack st v; pure []
  | .svPop st => do SV.popBack st; pure []
  | .svInsertN st p n v => SV.insertN st p n v | .svInsertCr st p v => SV.insertCr st p v
  | .svInsertMv st p v => SV.insertMv st p v | .svEmplace st p v => SV.emplace st p v
  | .svInsertRng st p xs o => SV.insertRng st p xs o
  | .svErase st p => SV.erase st p | .svEraseRng st f l => SV.eraseRng st f l
  | .svResize st n => SV.resize st n | .svResizeV st n v => SV.resizeV st n v
  | .svAssignN st n v => SV.assignN st n v | .svAssignRng st xs o => SV.assignRng st xs o
  | .svCtorN st n => SV.ctorN st n | .svCtorNV st n v => SV.ctorNV st n v | .svCtorRng st xs o => SV.ctorRng st xs o
  | .svClear st => do SV.clear st; pure []
  | .ivFront k => IV.front k | .ivBack k => IV.back k | .ivAt k i => IV.at_ k i
  | .ivEmplaceBack v => IV.append IV.kEmplace IV.kEmplaceZ v | .ivPush k v => IV.append (IV.kPush k) (IV.kPushZ k) v | .ivPop => IV.popBack
  | .vwAt i => VW.at_ i | .vwFront => VW.front | .vwBack => VW.back
  | .vwRemovePrefix n => VW.removePrefix n | .vwRemoveSuffix n => VW.removeSuffix n
  | .vwCopy c p => VW.copy c p | .vwSubstr p c => VW.substr p c
  | .spAt i => SP.at_ i | .spFront => SP.front | .spBack => SP.back
  | .spFirst n => SP.first n | .spLast n => SP.last n | .spSubspan o c => SP.subspan o c
  | .spFirstT n => SP.firstT n | .spLastT n => SP.lastT n | .spSubspanT o c => SP.subspanT o c | .spCtorExt k e => SP.ctorExt k e
  | .arAt k i => AR.at_ k i | .arFront k => AR.front k | .arBack k => AR.back k
  | .strCtorPtr xs n => STR.ctorPtr xs n | .strCtorFill n ch => STR.ctorFill n ch | .strOpAssign xs => STR.opAssign xs
  | .strAssignFill n ch => STR.assignFill n ch | .strAssignPtr xs n => STR.assignPtr xs n
  | .strFront k => STR.front k | .strBack k => STR.back k | .strAt k i => STR.at_ k i
  | .strPush ch => STR.pushBack ch | .strPop => STR.popBack
  | .strEraseRng a d => STR.eraseRng a d | .strReplace k p c src => STR.replace k p c src
  | .strReplaceSub p c src p2 c2 => STR.replaceSub p c src p2 c2
  | .strInsert k i xs => STR.insert k i xs | .strInsertFill i n ch => STR.insertFill i n ch | .strEraseIdx i n => STR.eraseIdx i n
  | .optDeref k => OEV.optDeref k | .expDeref k => OEV.expDeref k | .expError k => OEV.expError k
  | .varIdx k i => OEV.varIdx k i | .varGet k i => OEV.varGet k i
  | .bb w p v => BS.bb w p v | .bs w p v => BS.bs w p v | .bsCtor p n b => BS.ctor p n b | .bsToU d => BS.toUnsigned d
  | .svMoveInsert st p xs o => SV.moveInsertRng st p xs o
  | .svUnsafeSetSize st n => SV.unsafeSetSize st n | .svUnsafeDestroy f l => SV.unsafeDestroy f l
  | .ivUnsafeSetSize n => IV.unsafeSetSize n | .strUnsafeSetSize n => STR.unsafeSetSize n
  | .bit wh w p => SC.bit wh w p | .divSat x y => SC.divSat x y | .dayCtor d => SC.dayCtor d | .monthCtor m => SC.monthCtor m
  | .stride l r => SC.stride l r | .nullChecks ks => SC.nullChecks ks | .setCtor n o => SC.setCtor n o

end Tetl.C05
