/-
C integer semantics used by the generated models (gen/translate.py): explicit wrap-around,
truncating division, range predicates for the undefined-behaviour obligations, checked table access.
-/
namespace Tetl.CSem

/-- conversion to an unsigned type of width `w` -/
def wrapU (w : Nat) (x : Int) : Int := x % (2 ^ w : Nat)
/-- conversion to a signed type of width `w` (two's complement, C++20) -/
def wrapS (w : Nat) (x : Int) : Int := (x + (2 ^ (w - 1) : Nat)) % (2 ^ w : Nat) - (2 ^ (w - 1) : Nat)
/-- the value is representable in the signed type of width `w` (no signed overflow) -/
def inRangeS (w : Nat) (x : Int) : Bool := decide (-(2 ^ (w - 1) : Nat) ≤ x) && decide (x < (2 ^ (w - 1) : Nat))
/-- C `/` and `%` on signed operands: truncation toward zero -/
def cdiv (a b : Int) : Int := Int.tdiv a b
def cmod (a b : Int) : Int := Int.tmod a b
/-- `duration<int_least32_t, P>(r)`: stores `static_cast<rep>(r)` (duration.hpp); trusted, exercised by the correspondence run -/
def mkDur (x : Int) : Int := wrapS 32 x
/-- constexpr table access; index validity is a separate `_ub` obligation, `0` is never used by a proved theorem -/
def tableGet (t : List Int) (i : Int) : Int := if i < 0 then 0 else t.getD i.toNat 0

end Tetl.CSem
