/-
C18 — model of the C-library reimplementations of tetl.

* `include/etl/_strings/cstr.hpp` (the generic templates shared by the `char` front ends in
  `_cstring/*.hpp` and the `wchar_t` front ends in `_cwchar/*.hpp`);
* `include/etl/_cctype/*.hpp`, `include/etl/_cwctype/*.hpp` (range tests on the character code);
* `include/etl/_cstdlib/{div,labs,llabs}.hpp`.

Memory.  One heap allocation is a `Buf = List Nat` of code units held as *unsigned* values
(`0 ≤ u < 2^bits`).  A pointer is an index into its allocation.  Every read goes through `rd`,
every write through `wr`; both are checked, so touching anything outside the allocation is
`.error .oob` (what ASan reports on the exact-size heap buffers of the harness).  Source and
destination of `strcpy`/`strncpy`/`strcat`/`strncat`/`memcpy` are different allocations (C requires
them not to overlap; `memcpy1` is `memcpy` with two disjoint extents of one allocation); `memmove` works
inside one allocation with two offsets (`memmove2`: across two allocations).

Loops.  A counted loop (`while (n-- != 0)`, `counter != count`, `i < len`) recurses structurally on
the number of iterations left.  A sentinel loop (`while (*s != 0)`) recurses on fuel; the front end
passes `length + 1`, one more than the number of in-bounds reads there can be, and `.error .fuel`
is proved unreachable.  Each definition mirrors the loop of the C++ function of the same name.
-/
import Tetl.Common
namespace Tetl.C18

abbrev Buf := List Nat

/-- checked write of one code unit -/
def wr (b : Buf) (i v : Nat) : Except Err Buf :=
  if i < b.length then .ok (b.set i v) else .error .oob

/-- The template parameter `CharT`: its width and whether `compare_units` orders it as a signed
    value (`wchar_t` is a signed 32-bit `int` on this platform; one-byte types are compared as
    `unsigned char`). -/
structure CT where
  bits : Nat
  signedCmp : Bool
  deriving Repr, DecidableEq

def CT.char : CT := ⟨8, false⟩
def CT.wchar : CT := ⟨32, true⟩

/-- the value `compare_units` sees for a stored unit -/
def CT.key (ct : CT) (u : Nat) : Int :=
  if ct.signedCmp && decide (u ≥ 2 ^ (ct.bits - 1)) then (u : Int) - (2 ^ ct.bits : Nat) else (u : Int)

/-- `detail::compare_units(lhs, rhs)` -/
def compareUnits (ct : CT) (l r : Nat) : Int :=
  if ct.key l < ct.key r then -1 else if ct.key r < ct.key l then 1 else 0

/-- `static_cast<CharT>(ch)` for an `int ch`, as an unsigned unit -/
def CT.cast (ct : CT) (ch : Int) : Nat := (ch % ((2 ^ ct.bits : Nat) : Int)).toNat

/-! ### strlen -/

/-- `for (s = str; *s != CharT(0); ++s) {}`; returns the final `s` -/
def strlenLoop (b : Buf) : Nat → Nat → Except Err Nat
  | 0, _ => .error .fuel
  | f + 1, s => do
    let c ← rd b s
    if c = 0 then .ok s else strlenLoop b f (s + 1)

def strlen (b : Buf) (p : Nat) : Except Err Nat := do
  let s ← strlenLoop b (b.length + 1) p
  .ok (s - p)

/-! ### strcpy / strncpy -/

/-- `while ((*dest++ = *src++) != CharT(0)) {}` -/
def strcpyLoop (src : Buf) : Nat → Buf → Nat → Nat → Except Err Buf
  | 0, _, _, _ => .error .fuel
  | f + 1, dst, d, s => do
    let c ← rd src s
    let dst ← wr dst d c
    if c = 0 then .ok dst else strcpyLoop src f dst (d + 1) (s + 1)

/-- returns (returned pointer, destination allocation afterwards) -/
def strcpy (dst : Buf) (d : Nat) (src : Buf) (s : Nat) : Except Err (Nat × Buf) := do
  let r ← strcpyLoop src (src.length + 1) dst d s
  .ok (d, r)

/-- `for (counter = 0; counter != count and *src != CharT(0);) { *dest = *src; ++src; ++dest; ++counter; }`
    first argument: `count - counter`.  Returns the allocation, `dest` and `count - counter` at exit. -/
def strncpyCopy (src : Buf) : Nat → Buf → Nat → Nat → Except Err (Buf × Nat × Nat)
  | 0, dst, d, _ => .ok (dst, d, 0)
  | r + 1, dst, d, s => do
    let c ← rd src s
    if c = 0 then .ok (dst, d, r + 1)
    else do
      let dst ← wr dst d c
      strncpyCopy src r dst (d + 1) (s + 1)

/-- `for (; n != 0; --n) *p++ = v` : the zero padding of `strncpy` and the loop of `memset` -/
def fillLoop (v : Nat) : Nat → Buf → Nat → Except Err Buf
  | 0, dst, _ => .ok dst
  | r + 1, dst, d => do
    let dst ← wr dst d v
    fillLoop v r dst (d + 1)

def strncpy (dst : Buf) (d : Nat) (src : Buf) (s count : Nat) : Except Err (Nat × Buf) := do
  let (dst1, d1, rest) ← strncpyCopy src count dst d s
  let dst2 ← fillLoop 0 rest dst1 d1
  .ok (d, dst2)

/-! ### strcat / strncat -/

/-- `while (*src != CharT(0)) { *ptr++ = *src++; }` ; returns allocation and `ptr` -/
def strcatLoop (src : Buf) : Nat → Buf → Nat → Nat → Except Err (Buf × Nat)
  | 0, _, _, _ => .error .fuel
  | f + 1, dst, p, s => do
    let c ← rd src s
    if c = 0 then .ok (dst, p)
    else do
      let dst ← wr dst p c
      strcatLoop src f dst (p + 1) (s + 1)

def strcat (dst : Buf) (d : Nat) (src : Buf) (s : Nat) : Except Err (Nat × Buf) := do
  let n ← strlen dst d
  let (dst1, p) ← strcatLoop src (src.length + 1) dst (d + n) s
  let dst2 ← wr dst1 p 0
  .ok (d, dst2)

/-- `while (localCounter != count && *src != CharT(0)) { *ptr++ = *src++; ++localCounter; }`
    first argument: `count - localCounter` -/
def strncatLoop (src : Buf) : Nat → Buf → Nat → Nat → Except Err (Buf × Nat)
  | 0, dst, p, _ => .ok (dst, p)
  | r + 1, dst, p, s => do
    let c ← rd src s
    if c = 0 then .ok (dst, p)
    else do
      let dst ← wr dst p c
      strncatLoop src r dst (p + 1) (s + 1)

def strncat (dst : Buf) (d : Nat) (src : Buf) (s count : Nat) : Except Err (Nat × Buf) := do
  let n ← strlen dst d
  let (dst1, p) ← strncatLoop src count dst (d + n) s
  let dst2 ← wr dst1 p 0
  .ok (d, dst2)

/-! ### strcmp / strncmp / memcmp -/

/-- `for (; *lhs != CharT(0); ++lhs, ++rhs) { if (*lhs != *rhs) break; } return compare_units(*lhs, *rhs);` -/
def strcmpLoop (ct : CT) (a b : Buf) : Nat → Nat → Nat → Except Err Int
  | 0, _, _ => .error .fuel
  | f + 1, i, j => do
    let x ← rd a i
    if x = 0 then do
      let y ← rd b j
      .ok (compareUnits ct x y)
    else do
      let y ← rd b j
      if x ≠ y then .ok (compareUnits ct x y) else strcmpLoop ct a b f (i + 1) (j + 1)

def strcmp (ct : CT) (a : Buf) (i : Nat) (b : Buf) (j : Nat) : Except Err Int :=
  strcmpLoop ct a b (a.length + 1) i j

/-- `while (localCount-- > 0) { u1 = *lhs++; u2 = *rhs++; if (u1 != u2) return compare_units(u1, u2);
     if (u1 == CharT(0)) return 0; } return 0;` -/
def strncmpLoop (ct : CT) (a b : Buf) : Nat → Nat → Nat → Except Err Int
  | 0, _, _ => .ok 0
  | r + 1, i, j => do
    let u1 ← rd a i
    let u2 ← rd b j
    if u1 ≠ u2 then .ok (compareUnits ct u1 u2)
    else if u1 = 0 then .ok 0
    else strncmpLoop ct a b r (i + 1) (j + 1)

def strncmp (ct : CT) (a : Buf) (i : Nat) (b : Buf) (j count : Nat) : Except Err Int :=
  strncmpLoop ct a b count i j

/-- `for (i = 0; i != count; ++i) { if (lhs[i] != rhs[i]) return compare_units(lhs[i], rhs[i]); } return 0;` -/
def memcmpLoop (ct : CT) (a b : Buf) : Nat → Nat → Nat → Except Err Int
  | 0, _, _ => .ok 0
  | r + 1, i, j => do
    let x ← rd a i
    let y ← rd b j
    if x ≠ y then .ok (compareUnits ct x y) else memcmpLoop ct a b r (i + 1) (j + 1)

def memcmp (ct : CT) (a : Buf) (i : Nat) (b : Buf) (j count : Nat) : Except Err Int :=
  memcmpLoop ct a b count i j

/-! ### strchr / strrchr / memchr -/

/-- `while (*str != 0) { if (*str == c) return str; ++str; } if (c == 0) return str; return nullptr;` -/
def strchrLoop (b : Buf) (c : Nat) : Nat → Nat → Except Err (Option Nat)
  | 0, _ => .error .fuel
  | f + 1, s => do
    let x ← rd b s
    if x = 0 then (if c = 0 then .ok (some s) else .ok none)
    else if x = c then .ok (some s)
    else strchrLoop b c f (s + 1)

def strchr (ct : CT) (b : Buf) (p : Nat) (ch : Int) : Except Err (Option Nat) :=
  strchrLoop b (ct.cast ch) (b.length + 1) p

/-- `while (len-- != 0) { if (str[len] == c) return str + len; } return nullptr;` -/
def strrchrLoop (b : Buf) (p c : Nat) : Nat → Except Err (Option Nat)
  | 0 => .ok none
  | l + 1 => do
    let x ← rd b (p + l)
    if x = c then .ok (some (p + l)) else strrchrLoop b p c l

/-- `detail::strrchr` for a non-null `str` (a pointer is an index into an allocation) -/
def strrchr (ct : CT) (b : Buf) (p : Nat) (ch : Int) : Except Err (Option Nat) := do
  let len ← strlen b p
  if ct.cast ch = 0 then .ok (some (p + len)) else strrchrLoop b p (ct.cast ch) len

/-- `detail::strrchr` as written, with its first statement `if (str == nullptr) { return nullptr; }`: the pointer
    argument is `none` (null) or `some (allocation, index)`.  The null case is a tetl extension — ISO C leaves
    `strrchr(NULL, c)` undefined — so the spec has nothing to say about it (`Props.strrchr_null`). -/
def strrchrP (ct : CT) (str : Option (Buf × Nat)) (ch : Int) : Except Err (Option Nat) :=
  match str with
  | none => .ok none
  | some (b, p) => strrchr ct b p ch

/-- `for (i = 0; i != n; ++i) { if (ptr[i] == ch) return ptr + i; } return nullptr;` -/
def memchrLoop (b : Buf) (p c : Nat) : Nat → Nat → Except Err (Option Nat)
  | 0, _ => .ok none
  | r + 1, i => do
    let x ← rd b (p + i)
    if x = c then .ok (some (p + i)) else memchrLoop b p c r (i + 1)

def memchr (ct : CT) (b : Buf) (p : Nat) (ch : Int) (n : Nat) : Except Err (Option Nat) :=
  memchrLoop b p (ct.cast ch) n 0

/-! ### strspn / strcspn / strpbrk -/

/-- `is_legal_char<Inclusive>(options, len, ch)`; first argument `len - i` -/
def isLegalChar (incl : Bool) (t : Buf) (q ch : Nat) : Nat → Nat → Except Err Bool
  | 0, _ => .ok (!incl)
  | r + 1, i => do
    let x ← rd t (q + i)
    if x = ch then .ok incl else isLegalChar incl t q ch r (i + 1)

/-- `for (i = 0; i < length; ++i) { if (!is_legal_char(src, srcLen, dest[i])) break; ++result; }` -/
def strspnLoop (incl : Bool) (b : Buf) (p : Nat) (t : Buf) (q srcLen : Nat) : Nat → Nat → Except Err Nat
  | 0, i => .ok i
  | r + 1, i => do
    let x ← rd b (p + i)
    let legal ← isLegalChar incl t q x srcLen 0
    if !legal then .ok i else strspnLoop incl b p t q srcLen r (i + 1)

/-- `strspn<CharT, SizeT, InclusiveSearch>`: `incl = true` is `strspn`, `false` is `strcspn` -/
def strspn (incl : Bool) (b : Buf) (p : Nat) (t : Buf) (q : Nat) : Except Err Nat := do
  let length ← strlen b p
  let srcLen ← strlen t q
  strspnLoop incl b p t q srcLen length 0

/-- `strpbrk_impl`: `i = strspn<false>(s, del); if (s[i] != 0) return s + i; return nullptr;` -/
def strpbrk (b : Buf) (p : Nat) (t : Buf) (q : Nat) : Except Err (Option Nat) := do
  let i ← strspn false b p t q
  let x ← rd b (p + i)
  if x ≠ 0 then .ok (some (p + i)) else .ok none

/-! ### strstr -/

/-- `while (*n != 0 && *h == *n) { ++h; ++n; }` followed by the test `*n == 0` -/
def strstrInner (h n : Buf) : Nat → Nat → Nat → Except Err Bool
  | 0, _, _ => .error .fuel
  | f + 1, hi, ni => do
    let y ← rd n ni
    if y = 0 then .ok true
    else do
      let x ← rd h hi
      if x = y then strstrInner h n f (hi + 1) (ni + 1) else .ok false

/-- `for (; *haystack != 0; ++haystack) { ...inner...; if (*n == 0) return haystack; } return nullptr;` -/
def strstrOuter (h n : Buf) (q : Nat) : Nat → Nat → Except Err (Option Nat)
  | 0, _ => .error .fuel
  | f + 1, hi => do
    let x ← rd h hi
    if x = 0 then .ok none
    else do
      let m ← strstrInner h n (n.length + 1) hi q
      if m then .ok (some hi) else strstrOuter h n q f (hi + 1)

def strstr (h : Buf) (p : Nat) (n : Buf) (q : Nat) : Except Err (Option Nat) := do
  let y ← rd n q
  if y = 0 then .ok (some p) else strstrOuter h n q (h.length + 1) p

/-! ### memcpy / memset / memmove -/

/-- `while (n-- != 0) { *dp++ = *sp++; }` (also the loop of `wmemcpy`) -/
def memcpyLoop (src : Buf) : Nat → Buf → Nat → Nat → Except Err Buf
  | 0, dst, _, _ => .ok dst
  | r + 1, dst, d, s => do
    let c ← rd src s
    let dst ← wr dst d c
    memcpyLoop src r dst (d + 1) (s + 1)

def memcpy (dst : Buf) (d : Nat) (src : Buf) (s n : Nat) : Except Err (Nat × Buf) := do
  let r ← memcpyLoop src n dst d s
  .ok (d, r)

def memset (ct : CT) (dst : Buf) (d : Nat) (ch : Int) (n : Nat) : Except Err (Nat × Buf) := do
  let r ← fillLoop (ct.cast ch) n dst d
  .ok (d, r)

/-- `for (pd += n, ps += n; n-- != 0;) { *--pd = *--ps; }` inside one allocation; with `r + 1`
    iterations left the pointers are `pd = d + r + 1`, `ps = s + r + 1` before the decrement -/
def memmoveBack (d s : Nat) : Nat → Buf → Except Err Buf
  | 0, b => .ok b
  | r + 1, b => do
    let c ← rd b (s + r)
    let b ← wr b (d + r) c
    memmoveBack d s r b

/-- `while (n-- != 0) { *pd++ = *ps++; }` inside one allocation -/
def memmoveFwd : Nat → Buf → Nat → Nat → Except Err Buf
  | 0, b, _, _ => .ok b
  | r + 1, b, d, s => do
    let c ← rd b s
    let b ← wr b d c
    memmoveFwd r b (d + 1) (s + 1)

/-- `if (ps < pd) backward else forward` -/
def memmove (b : Buf) (d s n : Nat) : Except Err (Nat × Buf) := do
  let r ← if s < d then memmoveBack d s n b else memmoveFwd n b d s
  .ok (d, r)

/-- the backward loop of `memmove` when source and destination are different allocations -/
def memmoveBack2 (src : Buf) (d s : Nat) : Nat → Buf → Except Err Buf
  | 0, dst => .ok dst
  | r + 1, dst => do
    let c ← rd src (s + r)
    let dst ← wr dst (d + r) c
    memmoveBack2 src d s r dst

/-- `memmove` with source and destination in two different allocations: `ps < pd` then compares unrelated
    pointers and `back` is its (unspecified) outcome; the forward loop is the loop of `memcpy` -/
def memmove2 (back : Bool) (dst : Buf) (d : Nat) (src : Buf) (s n : Nat) : Except Err (Nat × Buf) := do
  let r ← if back then memmoveBack2 src d s n dst else memcpyLoop src n dst d s
  .ok (d, r)

/-- `memcpy` when both extents lie in ONE allocation (C requires them to be disjoint): the same forward loop,
    reading from the allocation it writes to -/
def memcpy1 (b : Buf) (d s n : Nat) : Except Err (Nat × Buf) := do
  let r ← memmoveFwd n b d s
  .ok (d, r)

/-! ### cctype: `int` argument, result as truth value -/

def isdigit (ch : Int) : Bool := decide (ch ≥ 48) && decide (ch ≤ 57)            -- '0'..'9'
def islower (ch : Int) : Bool := decide (ch ≥ 97) && decide (ch ≤ 122)           -- 'a'..'z'
def isupper (ch : Int) : Bool := decide (ch ≥ 65) && decide (ch ≤ 90)            -- 'A'..'Z'
def isalpha (ch : Int) : Bool :=
  let isLower := decide (ch ≥ 97) && decide (ch ≤ 122)
  let isUpper := decide (ch ≥ 65) && decide (ch ≤ 90)
  isLower || isUpper
def isalnum (ch : Int) : Bool :=
  let isDigit := decide (ch ≥ 48) && decide (ch ≤ 57)
  let isLower := decide (ch ≥ 97) && decide (ch ≤ 122)
  let isUpper := decide (ch ≥ 65) && decide (ch ≤ 90)
  isDigit || isLower || isUpper
def isblank (ch : Int) : Bool := decide (ch = 32) || decide (ch = 9)
def iscntrl (ch : Int) : Bool := (decide (ch ≥ 0) && decide (ch ≤ 31)) || decide (ch = 127)
def ispunct (ch : Int) : Bool :=
  let sec1 := decide (ch ≥ 33) && decide (ch ≤ 47)      -- '!'..'/'
  let sec2 := decide (ch ≥ 58) && decide (ch ≤ 64)      -- ':'..'@'
  let sec3 := decide (ch ≥ 91) && decide (ch ≤ 96)      -- '['..'`'
  let sec4 := decide (ch ≥ 123) && decide (ch ≤ 126)    -- '{'..'~'
  sec1 || sec2 || sec3 || sec4
def isgraph (ch : Int) : Bool := isdigit ch || islower ch || isupper ch || ispunct ch
def isprint (ch : Int) : Bool := isgraph ch || decide (ch = 32)
def isspace (ch : Int) : Bool :=
  decide (ch = 32) || decide (ch = 12) || decide (ch = 10) || decide (ch = 13) || decide (ch = 9) || decide (ch = 11)
def isxdigit (ch : Int) : Bool :=
  let isDigit := decide (ch ≥ 48) && decide (ch ≤ 57)
  let isHexLower := decide (ch ≥ 97) && decide (ch ≤ 102)
  let isHexUpper := decide (ch ≥ 65) && decide (ch ≤ 70)
  isDigit || isHexLower || isHexUpper
def tolower (ch : Int) : Int := if isupper ch then ch + 32 else ch
def toupper (ch : Int) : Int := if islower ch then ch - 32 else ch

/-! ### cwctype: `wint_t` (= `unsigned int`) argument; arithmetic modulo 2^32 -/

def W : Nat := 2 ^ 32
def iswdigit (ch : Nat) : Bool := decide (ch ≥ 48) && decide (ch ≤ 57)
def iswlower (ch : Nat) : Bool := decide (ch ≥ 97) && decide (ch ≤ 122)
def iswupper (ch : Nat) : Bool := decide (ch ≥ 65) && decide (ch ≤ 90)
def iswalpha (ch : Nat) : Bool :=
  let isLower := decide (ch ≥ 97) && decide (ch ≤ 122)
  let isUpper := decide (ch ≥ 65) && decide (ch ≤ 90)
  isLower || isUpper
def iswalnum (ch : Nat) : Bool :=
  let isDigit := decide (ch ≥ 48) && decide (ch ≤ 57)
  let isLower := decide (ch ≥ 97) && decide (ch ≤ 122)
  let isUpper := decide (ch ≥ 65) && decide (ch ≤ 90)
  isDigit || isLower || isUpper
def iswblank (ch : Nat) : Bool := decide (ch = 32) || decide (ch = 9)
def iswcntrl (ch : Nat) : Bool := decide (ch ≤ 31) || decide (ch = 127)
def iswpunct (ch : Nat) : Bool :=
  let sec1 := decide (ch ≥ 33) && decide (ch ≤ 47)
  let sec2 := decide (ch ≥ 58) && decide (ch ≤ 64)
  let sec3 := decide (ch ≥ 91) && decide (ch ≤ 96)
  let sec4 := decide (ch ≥ 123) && decide (ch ≤ 126)
  sec1 || sec2 || sec3 || sec4
def iswgraph (ch : Nat) : Bool := iswdigit ch || iswlower ch || iswupper ch || iswpunct ch
def iswprint (ch : Nat) : Bool := iswgraph ch || decide (ch = 32)
def iswspace (ch : Nat) : Bool :=
  decide (ch = 32) || decide (ch = 12) || decide (ch = 10) || decide (ch = 13) || decide (ch = 9) || decide (ch = 11)
def iswxdigit (ch : Nat) : Bool :=
  let isDigit := decide (ch ≥ 48) && decide (ch ≤ 57)
  let isHexLower := decide (ch ≥ 97) && decide (ch ≤ 102)
  let isHexUpper := decide (ch ≥ 65) && decide (ch ≤ 70)
  isDigit || isHexLower || isHexUpper
/-- `ch + wint_t(32)` wraps modulo 2^32 -/
def towlower (ch : Nat) : Nat := if iswupper ch then (ch + 32) % W else ch
/-- `ch - wint_t(32)` wraps modulo 2^32 -/
def towupper (ch : Nat) : Nat := if iswlower ch then (ch + W - 32) % W else ch

/-! ### cstdlib: div / labs / llabs on a `bits`-wide signed type -/

def inRangeS (bits : Nat) (x : Int) : Bool :=
  decide (-(2 ^ (bits - 1) : Nat) ≤ x) && decide (x < (2 ^ (bits - 1) : Nat))

/-- `{ .quot = x / y, .rem = x % y }`: C++ truncating division; division by zero and the
    unrepresentable quotient `MIN / -1` are undefined behaviour (`.pre`) -/
def div (bits : Nat) (x y : Int) : Except Err (Int × Int) :=
  if y = 0 then .error (.pre "div: y != 0")
  else if !inRangeS bits (Int.tdiv x y) then .error (.pre "div: quotient representable")
  else .ok (Int.tdiv x y, Int.tmod x y)

/-- `etl::detail::abs_impl` (`_math/abs.hpp`, called by `labs`/`llabs`): `if (n >= 0) { return n; } return n * T(-1);`
    — the product overflows for `MIN` -/
def absImpl (bits : Nat) (n : Int) : Except Err Int :=
  if n ≥ 0 then .ok n
  else if !inRangeS bits (n * (-1)) then .error (.pre "abs: -n representable")
  else .ok (n * (-1))

end Tetl.C18
