/- C18 line-protocol driver: prints `model <TAB> spec` for each case line. -/
import Tetl.Proto
import Tetl.C18.Model
import Tetl.C18.Spec
import Tetl.C18.Gen
import Tetl.C18.GenW
namespace Tetl.C18.Driver
open Tetl Tetl.Proto

def fmtE {α : Type} (f : α → String) : Except Err α → String
  | .ok a => f a
  | .error e => e.fmt

/-- pointer result relative to the pointer argument `p` -/
def fmtPtr (p : Nat) : Option Nat → String
  | none => "null"
  | some a => toString ((a : Int) - (p : Int))

def fmtRel : Option Nat → String
  | none => "null"
  | some a => toString a

/-- writer result: returned pointer relative to `dest`, then the whole destination allocation -/
def fmtW (d : Nat) (r : Nat × Buf) : String := s!"{(r.1 : Int) - (d : Int)}:{fmtNatList r.2}"
def fmtWS (b : List Nat) : String := s!"0:{fmtNatList b}"

def ctypeM (f : String) (c : Int) : Option String :=
  match f with
  | "isalnum" => some (fmtBool (isalnum c)) | "isalpha" => some (fmtBool (isalpha c))
  | "isblank" => some (fmtBool (isblank c)) | "iscntrl" => some (fmtBool (iscntrl c))
  | "isdigit" => some (fmtBool (isdigit c)) | "isgraph" => some (fmtBool (isgraph c))
  | "islower" => some (fmtBool (islower c)) | "isprint" => some (fmtBool (isprint c))
  | "ispunct" => some (fmtBool (ispunct c)) | "isspace" => some (fmtBool (isspace c))
  | "isupper" => some (fmtBool (isupper c)) | "isxdigit" => some (fmtBool (isxdigit c))
  | "tolower" => some (toString (tolower c)) | "toupper" => some (toString (toupper c))
  | _ => none

/-- the model GENERATED from the current headers by gen/translate.py (tie T); it must agree with the hand model -/
def ctypeG (f : String) (c : Int) : Option String :=
  let b (x : Int) : String := fmtBool (x != 0)
  match f with
  | "isalnum" => some (b (Gen.isalnum c)) | "isalpha" => some (b (Gen.isalpha c))
  | "isblank" => some (b (Gen.isblank c)) | "iscntrl" => some (b (Gen.iscntrl c))
  | "isdigit" => some (b (Gen.isdigit c)) | "isgraph" => some (b (Gen.isgraph c))
  | "islower" => some (b (Gen.islower c)) | "isprint" => some (b (Gen.isprint c))
  | "ispunct" => some (b (Gen.ispunct c)) | "isspace" => some (b (Gen.isspace c))
  | "isupper" => some (b (Gen.isupper c)) | "isxdigit" => some (b (Gen.isxdigit c))
  | "tolower" => some (toString (Gen.tolower c)) | "toupper" => some (toString (Gen.toupper c))
  | _ => none

def wctypeG (f : String) (c : Nat) : Option String :=
  let b (x : Int) : String := fmtBool (x != 0)
  let ci : Int := c
  match f with
  | "iswalnum" => some (b (GenW.iswalnum ci)) | "iswalpha" => some (b (GenW.iswalpha ci))
  | "iswblank" => some (b (GenW.iswblank ci)) | "iswcntrl" => some (b (GenW.iswcntrl ci))
  | "iswdigit" => some (b (GenW.iswdigit ci)) | "iswgraph" => some (b (GenW.iswgraph ci))
  | "iswlower" => some (b (GenW.iswlower ci)) | "iswprint" => some (b (GenW.iswprint ci))
  | "iswpunct" => some (b (GenW.iswpunct ci)) | "iswspace" => some (b (GenW.iswspace ci))
  | "iswupper" => some (b (GenW.iswupper ci)) | "iswxdigit" => some (b (GenW.iswxdigit ci))
  | "towlower" => some (toString (GenW.towlower ci)) | "towupper" => some (toString (GenW.towupper ci))
  | _ => none

def ctypeS (f : String) (c : Int) : Option String :=
  match f with
  | "isalnum" => some (fmtBool (Spec.isalnum c)) | "isalpha" => some (fmtBool (Spec.isalpha c))
  | "isblank" => some (fmtBool (Spec.isblank c)) | "iscntrl" => some (fmtBool (Spec.iscntrl c))
  | "isdigit" => some (fmtBool (Spec.isdigit c)) | "isgraph" => some (fmtBool (Spec.isgraph c))
  | "islower" => some (fmtBool (Spec.islower c)) | "isprint" => some (fmtBool (Spec.isprint c))
  | "ispunct" => some (fmtBool (Spec.ispunct c)) | "isspace" => some (fmtBool (Spec.isspace c))
  | "isupper" => some (fmtBool (Spec.isupper c)) | "isxdigit" => some (fmtBool (Spec.isxdigit c))
  | "tolower" => some (toString (Spec.tolower c)) | "toupper" => some (toString (Spec.toupper c))
  | _ => none

def wctypeM (f : String) (c : Nat) : Option String :=
  match f with
  | "iswalnum" => some (fmtBool (iswalnum c)) | "iswalpha" => some (fmtBool (iswalpha c))
  | "iswblank" => some (fmtBool (iswblank c)) | "iswcntrl" => some (fmtBool (iswcntrl c))
  | "iswdigit" => some (fmtBool (iswdigit c)) | "iswgraph" => some (fmtBool (iswgraph c))
  | "iswlower" => some (fmtBool (iswlower c)) | "iswprint" => some (fmtBool (iswprint c))
  | "iswpunct" => some (fmtBool (iswpunct c)) | "iswspace" => some (fmtBool (iswspace c))
  | "iswupper" => some (fmtBool (iswupper c)) | "iswxdigit" => some (fmtBool (iswxdigit c))
  | "towlower" => some (toString (towlower c)) | "towupper" => some (toString (towupper c))
  | _ => none

def wctypeS (f : String) (c : Nat) : Option String :=
  match f with
  | "iswalnum" => some (fmtBool (Spec.iswalnum c)) | "iswalpha" => some (fmtBool (Spec.iswalpha c))
  | "iswblank" => some (fmtBool (Spec.iswblank c)) | "iswcntrl" => some (fmtBool (Spec.iswcntrl c))
  | "iswdigit" => some (fmtBool (Spec.iswdigit c)) | "iswgraph" => some (fmtBool (Spec.iswgraph c))
  | "iswlower" => some (fmtBool (Spec.iswlower c)) | "iswprint" => some (fmtBool (Spec.iswprint c))
  | "iswpunct" => some (fmtBool (Spec.iswpunct c)) | "iswspace" => some (fmtBool (Spec.iswspace c))
  | "iswupper" => some (fmtBool (Spec.iswupper c)) | "iswxdigit" => some (fmtBool (Spec.iswxdigit c))
  | "towlower" => some (toString (Spec.towlower c)) | "towupper" => some (toString (Spec.towupper c))
  | _ => none

def step (_ : Unit) (l : Line) : Unit × String :=
  let bad := ((), "bad-op\tbad-op")
  let out (m s : String) := ((), m ++ "\t" ++ s)
  let wide := (l.str? "ct").getD "char" == "wchar"
  let ct : CT := if wide then CT.wchar else CT.char
  let k : Nat → Int := Spec.key ct.bits ct.signedCmp
  match l.op with
  | "ctype" =>
    match l.str? "f", l.int? "c" with
    | some f, some c =>
      match ctypeM f c, ctypeS f c, ctypeG f c with
      | some m, some s, some g => if g == m then out m s else out s!"{m}!gen={g}" s
      | _, _, _ => bad
    | _, _ => bad
  | "wctype" =>
    match l.str? "f", l.nat? "c" with
    | some f, some c =>
      match wctypeM f c, wctypeS f c, wctypeG f c with
      | some m, some s, some g => if g == m then out m s else out s!"{m}!gen={g}" s
      | _, _, _ => bad
    | _, _ => bad
  | "strlen" =>
    match l.natList? "s", l.nat? "off" with
    | some s, some p => out (fmtE toString (strlen s p)) (toString (Spec.strlen s p))
    | _, _ => bad
  | "strcmp" =>
    match l.natList? "a", l.nat? "aoff", l.natList? "b", l.nat? "boff" with
    | some a, some i, some b, some j => out (fmtE toString (strcmp ct a i b j)) (toString (Spec.strcmp k a i b j))
    | _, _, _, _ => bad
  | "strncmp" =>
    match l.natList? "a", l.nat? "aoff", l.natList? "b", l.nat? "boff", l.nat? "n" with
    | some a, some i, some b, some j, some n =>
      out (fmtE toString (strncmp ct a i b j n)) (toString (Spec.strncmp k a i b j n))
    | _, _, _, _, _ => bad
  | "memcmp" =>
    match l.natList? "a", l.nat? "aoff", l.natList? "b", l.nat? "boff", l.nat? "n" with
    | some a, some i, some b, some j, some n =>
      out (fmtE toString (memcmp ct a i b j n)) (toString (Spec.memcmp k a i b j n))
    | _, _, _, _, _ => bad
  | "strchr" =>
    match l.natList? "s", l.nat? "off", l.int? "ch" with
    | some s, some p, some ch =>
      out (fmtE (fmtPtr p) (strchr ct s p ch)) (fmtRel (Spec.strchr s p (Spec.toUnit ct.bits ch)))
    | _, _, _ => bad
  | "strrchr" =>
    match l.natList? "s", l.nat? "off", l.int? "ch" with
    | some s, some p, some ch =>
      out (fmtE (fmtPtr p) (strrchr ct s p ch)) (fmtRel (Spec.strrchr s p (Spec.toUnit ct.bits ch)))
    | _, _, _ => bad
  | "strrchr0" =>
    -- null `str`: tetl returns null; ISO C leaves the call undefined, so the spec column is the mask `*`
    match l.int? "ch" with
    | some ch => out (fmtE (fun r => if r.isNone then "null" else "nonnull") (strrchrP ct none ch)) "*"
    | _ => bad
  | "memchr" =>
    match l.natList? "s", l.nat? "off", l.int? "ch", l.nat? "n" with
    | some s, some p, some ch, some n =>
      out (fmtE (fmtPtr p) (memchr ct s p ch n)) (fmtRel (Spec.memchr s p (Spec.toUnit ct.bits ch) n))
    | _, _, _, _ => bad
  | "strspn" =>
    match l.natList? "s", l.nat? "off", l.natList? "t", l.nat? "toff" with
    | some s, some p, some t, some q => out (fmtE toString (strspn true s p t q)) (toString (Spec.strspn s p t q))
    | _, _, _, _ => bad
  | "strcspn" =>
    match l.natList? "s", l.nat? "off", l.natList? "t", l.nat? "toff" with
    | some s, some p, some t, some q => out (fmtE toString (strspn false s p t q)) (toString (Spec.strcspn s p t q))
    | _, _, _, _ => bad
  | "strpbrk" =>
    match l.natList? "s", l.nat? "off", l.natList? "t", l.nat? "toff" with
    | some s, some p, some t, some q => out (fmtE (fmtPtr p) (strpbrk s p t q)) (fmtRel (Spec.strpbrk s p t q))
    | _, _, _, _ => bad
  | "strstr" =>
    match l.natList? "s", l.nat? "off", l.natList? "t", l.nat? "toff" with
    | some s, some p, some t, some q => out (fmtE (fmtPtr p) (strstr s p t q)) (fmtRel (Spec.strstr s p t q))
    | _, _, _, _ => bad
  | "strcpy" =>
    match l.natList? "dst", l.nat? "doff", l.natList? "src", l.nat? "soff" with
    | some dst, some d, some src, some s => out (fmtE (fmtW d) (strcpy dst d src s)) (fmtWS (Spec.strcpy dst d src s))
    | _, _, _, _ => bad
  | "strncpy" =>
    match l.natList? "dst", l.nat? "doff", l.natList? "src", l.nat? "soff", l.nat? "n" with
    | some dst, some d, some src, some s, some n =>
      out (fmtE (fmtW d) (strncpy dst d src s n)) (fmtWS (Spec.strncpy dst d src s n))
    | _, _, _, _, _ => bad
  | "strcat" =>
    match l.natList? "dst", l.nat? "doff", l.natList? "src", l.nat? "soff" with
    | some dst, some d, some src, some s => out (fmtE (fmtW d) (strcat dst d src s)) (fmtWS (Spec.strcat dst d src s))
    | _, _, _, _ => bad
  | "strncat" =>
    match l.natList? "dst", l.nat? "doff", l.natList? "src", l.nat? "soff", l.nat? "n" with
    | some dst, some d, some src, some s, some n =>
      out (fmtE (fmtW d) (strncat dst d src s n)) (fmtWS (Spec.strncat dst d src s n))
    | _, _, _, _, _ => bad
  | "memcpy" =>
    match l.natList? "dst", l.nat? "doff", l.natList? "src", l.nat? "soff", l.nat? "n" with
    | some dst, some d, some src, some s, some n =>
      out (fmtE (fmtW d) (memcpy dst d src s n)) (fmtWS (Spec.memcpy dst d src s n))
    | _, _, _, _, _ => bad
  | "memset" =>
    match l.natList? "dst", l.nat? "doff", l.int? "ch", l.nat? "n" with
    | some dst, some d, some ch, some n =>
      out (fmtE (fmtW d) (memset ct dst d ch n)) (fmtWS (Spec.memset dst d (Spec.toUnit ct.bits ch) n))
    | _, _, _, _ => bad
  | "memmove" =>
    match l.natList? "buf", l.nat? "doff", l.nat? "soff", l.nat? "n" with
    | some b, some d, some s, some n => out (fmtE (fmtW d) (memmove b d s n)) (fmtWS (Spec.memmove b d s n))
    | _, _, _, _ => bad
  | "memmove2" =>
    -- two allocations: the direction `ps < pd` picks is unspecified; both must give the same result
    match l.natList? "dst", l.nat? "doff", l.natList? "src", l.nat? "soff", l.nat? "n" with
    | some dst, some d, some src, some s, some n =>
      let fw := fmtE (fmtW d) (memmove2 false dst d src s n)
      let bk := fmtE (fmtW d) (memmove2 true dst d src s n)
      out (if fw == bk then fw else s!"direction-dependent(fwd={fw},back={bk})") (fmtWS (Spec.memcpy dst d src s n))
    | _, _, _, _, _ => bad
  | "memcpy1" =>
    match l.natList? "buf", l.nat? "doff", l.nat? "soff", l.nat? "n" with
    | some b, some d, some s, some n => out (fmtE (fmtW d) (memcpy1 b d s n)) (fmtWS (Spec.memmove b d s n))
    | _, _, _, _ => bad
  | "div" =>
    match l.nat? "bits", l.int? "x", l.int? "y" with
    | some bits, some x, some y =>
      out (fmtE (fun r => s!"{r.1},{r.2}") (div bits x y)) s!"{Spec.divQuot x y},{Spec.divRem x y}"
    | _, _, _ => bad
  | "abs" =>
    match l.nat? "bits", l.int? "x" with
    | some bits, some x => out (fmtE toString (absImpl bits x)) (toString (Spec.abs x))
    | _, _ => bad
  | f =>
    -- `<function> c=<arg>`: a <cctype> / <cwctype> line named by its function
    match ctypeM f (l.int? "c" |>.getD 0), wctypeM f (l.nat? "c" |>.getD 0) with
    | some _, _ =>
      match l.int? "c" with
      | some c =>
        match ctypeM f c, ctypeS f c, ctypeG f c with
        | some m, some s, some g => if g == m then out m s else out s!"{m}!gen={g}" s
        | _, _, _ => bad
      | _ => bad
    | _, some _ =>
      match l.nat? "c" with
      | some c =>
        match wctypeM f c, wctypeS f c, wctypeG f c with
        | some m, some s, some g => if g == m then out m s else out s!"{m}!gen={g}" s
        | _, _, _ => bad
      | _ => bad
    | _, _ => bad

end Tetl.C18.Driver

def main : IO Unit := Tetl.Proto.runDriver () Tetl.C18.Driver.step
