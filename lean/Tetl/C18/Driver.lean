/- placeholder: the C18 driver is not built yet -/
def main : IO Unit := IO.println "C18: driver not built yet"
