/-
C18 — reference semantics: ISO C 7.24 (`<string.h>`), 7.29.4 (`<wchar.h>`), 7.4 / 7.30 (`<ctype.h>`,
`<wctype.h>` in the "C" locale), 7.22.6 (`div`, `labs`) stated over lists.  No loops, no index
stepping: a C string is "the units before the first zero", a copy is a splice.

An allocation is a list of code units held as unsigned values; a pointer is an offset into it.
Pointer results are offsets *relative to the pointer argument*; `none` is the null pointer.
-/
namespace Tetl.C18.Spec

abbrev Buf := List Nat

/-- the string that starts at offset `p`: the units before the first zero (7.1.1) -/
def cstr (b : Buf) (p : Nat) : List Nat := (b.drop p).takeWhile (· ≠ 0)

/-- `p` points to a string: there is a terminator inside the allocation -/
def Terminated (b : Buf) (p : Nat) : Prop := 0 ∈ b.drop p
instance (b : Buf) (p : Nat) : Decidable (Terminated b p) := by unfold Terminated; infer_instance

/-- the initial part of an array that the `n`-functions look at: at most `n` units, and nothing
    after a zero ("characters that follow a null character are not copied / compared") -/
def cstrN (b : Buf) (p n : Nat) : List Nat := ((b.drop p).take n).takeWhile (· ≠ 0)

/-- `p` points to an array the `n`-functions may read: `n` units, or fewer ended by a zero -/
def ReadableN (b : Buf) (p n : Nat) : Prop := p + n ≤ b.length ∨ Terminated b p
instance (b : Buf) (p n : Nat) : Decidable (ReadableN b p n) := by unfold ReadableN; infer_instance

/-- every unit of the allocation is a value of the `bits`-wide character type (representation
    invariant of an allocation; the comparison functions order units through it) -/
def Units (bits : Nat) (b : Buf) : Prop := ∀ x ∈ b, x < 2 ^ bits
instance (bits : Nat) (b : Buf) : Decidable (Units bits b) := by unfold Units; infer_instance

/-- `dst` with the extent `[d, d + |w|)` replaced by `w`; everything else untouched -/
def splice (dst : Buf) (d : Nat) (w : List Nat) : Buf := dst.take d ++ w ++ dst.drop (d + w.length)

def strlen (b : Buf) (p : Nat) : Nat := (cstr b p).length

/-- 7.24.2.3: copies the string including the terminator -/
def strcpy (dst : Buf) (d : Nat) (src : Buf) (s : Nat) : Buf := splice dst d (cstr src s ++ [0])

/-- 7.24.2.4: copies not more than `n` units, then appends zeros until `n` in all were written -/
def strncpy (dst : Buf) (d : Nat) (src : Buf) (s n : Nat) : Buf :=
  let t := cstrN src s n
  splice dst d (t ++ List.replicate (n - t.length) 0)

/-- 7.24.3.1: appends a copy of the string (with terminator) over the terminator of `dst` -/
def strcat (dst : Buf) (d : Nat) (src : Buf) (s : Nat) : Buf :=
  splice dst (d + strlen dst d) (cstr src s ++ [0])

/-- 7.24.3.2: appends not more than `n` units and always a terminator -/
def strncat (dst : Buf) (d : Nat) (src : Buf) (s n : Nat) : Buf :=
  splice dst (d + strlen dst d) (cstrN src s n ++ [0])

def memcpy (dst : Buf) (d : Nat) (src : Buf) (s n : Nat) : Buf := splice dst d ((src.drop s).take n)
def memmove (b : Buf) (d s n : Nat) : Buf := splice b d ((b.drop s).take n)
def memset (dst : Buf) (d c n : Nat) : Buf := splice dst d (List.replicate n c)

/-- conversion of the `int` argument to the character type (`bits` wide), as an unsigned unit -/
def toUnit (bits : Nat) (ch : Int) : Nat := (ch % ((2 ^ bits : Nat) : Int)).toNat

/-- value by which units are ordered: the unit itself — units are held as unsigned values, and the byte
    functions compare as `unsigned char` (7.24.4) — or, for the wide functions, the value of `wchar_t` (a signed
    32-bit `int` here): the number congruent to the stored pattern modulo 2^bits that lies in
    [-2^(bits-1), 2^(bits-1)), i.e. the balanced remainder -/
def key (bits : Nat) (signed : Bool) (u : Nat) : Int := if signed then Int.bmod u (2 ^ bits) else u

/-- sign of the difference of the first pair of units that differ (7.24.4) -/
def cmp (k : Nat → Int) : List Nat → List Nat → Int
  | [], [] => 0
  | [], _ :: _ => -1
  | _ :: _, [] => 1
  | x :: xs, y :: ys => if k x < k y then -1 else if k y < k x then 1 else cmp k xs ys

/-- the units up to and including the first zero, or all of them -/
def upto0 : List Nat → List Nat
  | [] => []
  | x :: xs => if x = 0 then [0] else x :: upto0 xs

def strcmp (k : Nat → Int) (a : Buf) (i : Nat) (b : Buf) (j : Nat) : Int :=
  cmp k (upto0 (a.drop i)) (upto0 (b.drop j))
def strncmp (k : Nat → Int) (a : Buf) (i : Nat) (b : Buf) (j n : Nat) : Int :=
  cmp k (upto0 ((a.drop i).take n)) (upto0 ((b.drop j).take n))
def memcmp (k : Nat → Int) (a : Buf) (i : Nat) (b : Buf) (j n : Nat) : Int :=
  cmp k ((a.drop i).take n) ((b.drop j).take n)

/-- joint precondition of `strncmp` (weaker than `ReadableN` of each array): every pair of units the
    function has to look at — it stops after `n` pairs, at the first pair that differs and after a
    pair of zeros — lies inside both arrays -/
def cmpReadableN : List Nat → List Nat → Nat → Bool
  | _, _, 0 => true
  | x :: xs, y :: ys, n + 1 => x != y || x == 0 || cmpReadableN xs ys n
  | _, _, _ + 1 => false

/-! ### exact allocations

What C lets a function touch, cut out of the allocation as an allocation of its own (nothing before
the pointer, nothing after the last unit): the harness passes exactly these. -/

/-- the string at `(b, p)` with its terminator -/
def exactStr (b : Buf) (p : Nat) : Buf := upto0 (b.drop p)
/-- the part of the array at `(b, p)` an `n`-function may read: `n` units, or fewer up to and including a zero -/
def exactN (b : Buf) (p n : Nat) : Buf := upto0 ((b.drop p).take n)
/-- exactly `n` units from `p` (source of the `mem` functions, destination extents) -/
def exactArr (b : Buf) (p n : Nat) : Buf := (b.drop p).take n

/-- 7.24.5.2: first occurrence of `c` in the string; the terminator is part of the string -/
def strchr (b : Buf) (p c : Nat) : Option Nat := (cstr b p ++ [0]).findIdx? (· == c)

/-- highest index `i < |l|` with `l[i] = c` -/
def lastIdx (l : List Nat) (c : Nat) : Option Nat :=
  ((List.range l.length).reverse).find? (fun i => l[i]? == some c)

/-- 7.24.5.5: last occurrence, terminator included -/
def strrchr (b : Buf) (p c : Nat) : Option Nat := lastIdx (cstr b p ++ [0]) c

/-- 7.24.5.1: first occurrence of `c` in the first `n` units -/
def memchr (b : Buf) (p c n : Nat) : Option Nat := ((b.drop p).take n).findIdx? (· == c)

/-- 7.24.5.6 / .3: length of the maximal initial segment made of units (not) in the set -/
def strspn (b : Buf) (p : Nat) (t : Buf) (q : Nat) : Nat :=
  ((cstr b p).takeWhile (fun x => (cstr t q).contains x)).length
def strcspn (b : Buf) (p : Nat) (t : Buf) (q : Nat) : Nat :=
  ((cstr b p).takeWhile (fun x => !(cstr t q).contains x)).length

/-- 7.24.5.4: first unit of the string that is in the set -/
def strpbrk (b : Buf) (p : Nat) (t : Buf) (q : Nat) : Option Nat :=
  (cstr b p).findIdx? (fun x => (cstr t q).contains x)

/-- 7.24.5.7: first occurrence of the needle (without terminator); an empty needle matches at 0 -/
def strstr (h : Buf) (p : Nat) (n : Buf) (q : Nat) : Option Nat :=
  (List.range ((cstr h p).length + 1)).find? (fun i => (cstr n q).isPrefixOf ((cstr h p).drop i))

/-! ### "C" locale character classes (7.4): explicit tables of code points -/

def upperTbl : List Nat :=  -- ABCDEFGHIJKLMNOPQRSTUVWXYZ
  [65, 66, 67, 68, 69, 70, 71, 72, 73, 74, 75, 76, 77, 78, 79, 80, 81, 82, 83, 84, 85, 86, 87, 88, 89, 90]
def lowerTbl : List Nat :=  -- abcdefghijklmnopqrstuvwxyz
  [97, 98, 99, 100, 101, 102, 103, 104, 105, 106, 107, 108, 109, 110, 111, 112, 113, 114, 115, 116, 117, 118,
   119, 120, 121, 122]
def digitTbl : List Nat := [48, 49, 50, 51, 52, 53, 54, 55, 56, 57]  -- 0123456789
def punctTbl : List Nat :=  -- !"#$%&'()*+,-./:;<=>?@[\]^_`{|}~
  [33, 34, 35, 36, 37, 38, 39, 40, 41, 42, 43, 44, 45, 46, 47, 58, 59, 60, 61, 62, 63, 64, 91, 92, 93, 94, 95, 96,
   123, 124, 125, 126]
def spaceTbl : List Nat := [32, 9, 10, 11, 12, 13]  -- space \t \n \v \f \r
def blankTbl : List Nat := [32, 9]
def cntrlTbl : List Nat :=
  [0, 1, 2, 3, 4, 5, 6, 7, 8, 9, 10, 11, 12, 13, 14, 15, 16, 17, 18, 19, 20, 21, 22, 23, 24, 25, 26, 27, 28, 29, 30,
   31, 127]
def hexLetterTbl : List Nat := [65, 66, 67, 68, 69, 70, 97, 98, 99, 100, 101, 102]  -- ABCDEFabcdef

/-- the narrow classification functions take `EOF = -1` or an `unsigned char` value -/
def inTbl (t : List Nat) (c : Int) : Bool := decide (c ≥ 0) && t.contains c.toNat

def isupper (c : Int) : Bool := inTbl upperTbl c
def islower (c : Int) : Bool := inTbl lowerTbl c
def isdigit (c : Int) : Bool := inTbl digitTbl c
def isalpha (c : Int) : Bool := isupper c || islower c
def isalnum (c : Int) : Bool := isalpha c || isdigit c
def ispunct (c : Int) : Bool := inTbl punctTbl c
def isgraph (c : Int) : Bool := isalnum c || ispunct c
def isprint (c : Int) : Bool := isgraph c || c == 32
def isspace (c : Int) : Bool := inTbl spaceTbl c
def isblank (c : Int) : Bool := inTbl blankTbl c
def iscntrl (c : Int) : Bool := inTbl cntrlTbl c
def isxdigit (c : Int) : Bool := isdigit c || inTbl hexLetterTbl c

/-- the letter at the same place of the other alphabet, or the argument unchanged -/
def mapTbl (src dst : List Nat) (c : Nat) : Nat :=
  match (src.zip dst).find? (fun pr => pr.1 == c) with
  | some pr => pr.2
  | none => c
def tolower (c : Int) : Int := if c ≥ 0 then (mapTbl upperTbl lowerTbl c.toNat : Nat) else c
def toupper (c : Int) : Int := if c ≥ 0 then (mapTbl lowerTbl upperTbl c.toNat : Nat) else c

/-- wide versions: a `wint_t` value (any `unsigned int`); only the basic characters are classified
    in the "C" locale -/
def iswupper (c : Nat) : Bool := upperTbl.contains c
def iswlower (c : Nat) : Bool := lowerTbl.contains c
def iswdigit (c : Nat) : Bool := digitTbl.contains c
def iswalpha (c : Nat) : Bool := iswupper c || iswlower c
def iswalnum (c : Nat) : Bool := iswalpha c || iswdigit c
def iswpunct (c : Nat) : Bool := punctTbl.contains c
def iswgraph (c : Nat) : Bool := iswalnum c || iswpunct c
def iswprint (c : Nat) : Bool := iswgraph c || c == 32
def iswspace (c : Nat) : Bool := spaceTbl.contains c
def iswblank (c : Nat) : Bool := blankTbl.contains c
def iswcntrl (c : Nat) : Bool := cntrlTbl.contains c
def iswxdigit (c : Nat) : Bool := iswdigit c || hexLetterTbl.contains c
def towlower (c : Nat) : Nat := mapTbl upperTbl lowerTbl c
def towupper (c : Nat) : Nat := mapTbl lowerTbl upperTbl c

/-! ### div / labs (7.22.6): quotient truncated toward zero, `quot * y + rem = x` -/

def sgn (x : Int) : Int := if x < 0 then -1 else if x > 0 then 1 else 0
def divQuot (x y : Int) : Int := sgn x * sgn y * ((x.natAbs / y.natAbs : Nat) : Int)
def divRem (x y : Int) : Int := x - divQuot x y * y
def abs (x : Int) : Int := (x.natAbs : Int)

end Tetl.C18.Spec
