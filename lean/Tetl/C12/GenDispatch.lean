/-
C12, tie T — access to the GENERATED `duration_cast_impl<…>::cast` bodies (Tetl/C12/Gen.lean, regenerated from
include/etl/_chrono/duration_cast.hpp on every run) by (to_rep, from rep, CF), for the `!gen=` cross-check of the driver.
The specialization is selected as `duration_cast` does: `CF::num == 1`, `CF::den == 1`.  Job names: gen/translate.py DURCAST_JOBS.
"ub" = the generated undefined-behaviour obligation is false; `none` = no generated counterpart (other representations).
-/
import Tetl.C12.Gen
import Tetl.C14.Model
namespace Tetl.C12.GenDispatch
open Tetl.C14 (ITy)

@[noinline] def g (ok : Bool) (v : Unit → Int) : String := if ok then toString (v ()) else "ub"

def cast (toRep frm : ITy) (num den c : Int) : Option String :=
  let n1 := num == 1
  let d1 := den == 1
  if toRep == ⟨16, true⟩ && frm == ⟨16, true⟩ then
    some (if n1 && d1 then g (Gen.cast_id_i16_i16_ub c) (fun _ => Gen.cast_id_i16_i16 c)
      else if n1 then g (Gen.cast_d_i16_i16_ub c den) (fun _ => Gen.cast_d_i16_i16 c den)
      else if d1 then g (Gen.cast_n_i16_i16_ub c num) (fun _ => Gen.cast_n_i16_i16 c num)
      else g (Gen.cast_nd_i16_i16_ub c num den) (fun _ => Gen.cast_nd_i16_i16 c num den))
  else if toRep == ⟨16, true⟩ && frm == ⟨32, true⟩ then
    some (if n1 && d1 then g (Gen.cast_id_i16_i32_ub c) (fun _ => Gen.cast_id_i16_i32 c)
      else if n1 then g (Gen.cast_d_i16_i32_ub c den) (fun _ => Gen.cast_d_i16_i32 c den)
      else if d1 then g (Gen.cast_n_i16_i32_ub c num) (fun _ => Gen.cast_n_i16_i32 c num)
      else g (Gen.cast_nd_i16_i32_ub c num den) (fun _ => Gen.cast_nd_i16_i32 c num den))
  else if toRep == ⟨16, true⟩ && frm == ⟨64, true⟩ then
    some (if n1 && d1 then g (Gen.cast_id_i16_i64_ub c) (fun _ => Gen.cast_id_i16_i64 c)
      else if n1 then g (Gen.cast_d_i16_i64_ub c den) (fun _ => Gen.cast_d_i16_i64 c den)
      else if d1 then g (Gen.cast_n_i16_i64_ub c num) (fun _ => Gen.cast_n_i16_i64 c num)
      else g (Gen.cast_nd_i16_i64_ub c num den) (fun _ => Gen.cast_nd_i16_i64 c num den))
  else if toRep == ⟨16, true⟩ && frm == ⟨32, false⟩ then
    some (if n1 && d1 then g (Gen.cast_id_i16_u32_ub c) (fun _ => Gen.cast_id_i16_u32 c)
      else if n1 then g (Gen.cast_d_i16_u32_ub c den) (fun _ => Gen.cast_d_i16_u32 c den)
      else if d1 then g (Gen.cast_n_i16_u32_ub c num) (fun _ => Gen.cast_n_i16_u32 c num)
      else g (Gen.cast_nd_i16_u32_ub c num den) (fun _ => Gen.cast_nd_i16_u32 c num den))
  else if toRep == ⟨32, true⟩ && frm == ⟨16, true⟩ then
    some (if n1 && d1 then g (Gen.cast_id_i32_i16_ub c) (fun _ => Gen.cast_id_i32_i16 c)
      else if n1 then g (Gen.cast_d_i32_i16_ub c den) (fun _ => Gen.cast_d_i32_i16 c den)
      else if d1 then g (Gen.cast_n_i32_i16_ub c num) (fun _ => Gen.cast_n_i32_i16 c num)
      else g (Gen.cast_nd_i32_i16_ub c num den) (fun _ => Gen.cast_nd_i32_i16 c num den))
  else if toRep == ⟨32, true⟩ && frm == ⟨32, true⟩ then
    some (if n1 && d1 then g (Gen.cast_id_i32_i32_ub c) (fun _ => Gen.cast_id_i32_i32 c)
      else if n1 then g (Gen.cast_d_i32_i32_ub c den) (fun _ => Gen.cast_d_i32_i32 c den)
      else if d1 then g (Gen.cast_n_i32_i32_ub c num) (fun _ => Gen.cast_n_i32_i32 c num)
      else g (Gen.cast_nd_i32_i32_ub c num den) (fun _ => Gen.cast_nd_i32_i32 c num den))
  else if toRep == ⟨32, true⟩ && frm == ⟨64, true⟩ then
    some (if n1 && d1 then g (Gen.cast_id_i32_i64_ub c) (fun _ => Gen.cast_id_i32_i64 c)
      else if n1 then g (Gen.cast_d_i32_i64_ub c den) (fun _ => Gen.cast_d_i32_i64 c den)
      else if d1 then g (Gen.cast_n_i32_i64_ub c num) (fun _ => Gen.cast_n_i32_i64 c num)
      else g (Gen.cast_nd_i32_i64_ub c num den) (fun _ => Gen.cast_nd_i32_i64 c num den))
  else if toRep == ⟨32, true⟩ && frm == ⟨32, false⟩ then
    some (if n1 && d1 then g (Gen.cast_id_i32_u32_ub c) (fun _ => Gen.cast_id_i32_u32 c)
      else if n1 then g (Gen.cast_d_i32_u32_ub c den) (fun _ => Gen.cast_d_i32_u32 c den)
      else if d1 then g (Gen.cast_n_i32_u32_ub c num) (fun _ => Gen.cast_n_i32_u32 c num)
      else g (Gen.cast_nd_i32_u32_ub c num den) (fun _ => Gen.cast_nd_i32_u32 c num den))
  else if toRep == ⟨64, true⟩ && frm == ⟨16, true⟩ then
    some (if n1 && d1 then g (Gen.cast_id_i64_i16_ub c) (fun _ => Gen.cast_id_i64_i16 c)
      else if n1 then g (Gen.cast_d_i64_i16_ub c den) (fun _ => Gen.cast_d_i64_i16 c den)
      else if d1 then g (Gen.cast_n_i64_i16_ub c num) (fun _ => Gen.cast_n_i64_i16 c num)
      else g (Gen.cast_nd_i64_i16_ub c num den) (fun _ => Gen.cast_nd_i64_i16 c num den))
  else if toRep == ⟨64, true⟩ && frm == ⟨32, true⟩ then
    some (if n1 && d1 then g (Gen.cast_id_i64_i32_ub c) (fun _ => Gen.cast_id_i64_i32 c)
      else if n1 then g (Gen.cast_d_i64_i32_ub c den) (fun _ => Gen.cast_d_i64_i32 c den)
      else if d1 then g (Gen.cast_n_i64_i32_ub c num) (fun _ => Gen.cast_n_i64_i32 c num)
      else g (Gen.cast_nd_i64_i32_ub c num den) (fun _ => Gen.cast_nd_i64_i32 c num den))
  else if toRep == ⟨64, true⟩ && frm == ⟨64, true⟩ then
    some (if n1 && d1 then g (Gen.cast_id_i64_i64_ub c) (fun _ => Gen.cast_id_i64_i64 c)
      else if n1 then g (Gen.cast_d_i64_i64_ub c den) (fun _ => Gen.cast_d_i64_i64 c den)
      else if d1 then g (Gen.cast_n_i64_i64_ub c num) (fun _ => Gen.cast_n_i64_i64 c num)
      else g (Gen.cast_nd_i64_i64_ub c num den) (fun _ => Gen.cast_nd_i64_i64 c num den))
  else if toRep == ⟨64, true⟩ && frm == ⟨32, false⟩ then
    some (if n1 && d1 then g (Gen.cast_id_i64_u32_ub c) (fun _ => Gen.cast_id_i64_u32 c)
      else if n1 then g (Gen.cast_d_i64_u32_ub c den) (fun _ => Gen.cast_d_i64_u32 c den)
      else if d1 then g (Gen.cast_n_i64_u32_ub c num) (fun _ => Gen.cast_n_i64_u32 c num)
      else g (Gen.cast_nd_i64_u32_ub c num den) (fun _ => Gen.cast_nd_i64_u32 c num den))
  else if toRep == ⟨32, false⟩ && frm == ⟨16, true⟩ then
    some (if n1 && d1 then g (Gen.cast_id_u32_i16_ub c) (fun _ => Gen.cast_id_u32_i16 c)
      else if n1 then g (Gen.cast_d_u32_i16_ub c den) (fun _ => Gen.cast_d_u32_i16 c den)
      else if d1 then g (Gen.cast_n_u32_i16_ub c num) (fun _ => Gen.cast_n_u32_i16 c num)
      else g (Gen.cast_nd_u32_i16_ub c num den) (fun _ => Gen.cast_nd_u32_i16 c num den))
  else if toRep == ⟨32, false⟩ && frm == ⟨32, true⟩ then
    some (if n1 && d1 then g (Gen.cast_id_u32_i32_ub c) (fun _ => Gen.cast_id_u32_i32 c)
      else if n1 then g (Gen.cast_d_u32_i32_ub c den) (fun _ => Gen.cast_d_u32_i32 c den)
      else if d1 then g (Gen.cast_n_u32_i32_ub c num) (fun _ => Gen.cast_n_u32_i32 c num)
      else g (Gen.cast_nd_u32_i32_ub c num den) (fun _ => Gen.cast_nd_u32_i32 c num den))
  else if toRep == ⟨32, false⟩ && frm == ⟨64, true⟩ then
    some (if n1 && d1 then g (Gen.cast_id_u32_i64_ub c) (fun _ => Gen.cast_id_u32_i64 c)
      else if n1 then g (Gen.cast_d_u32_i64_ub c den) (fun _ => Gen.cast_d_u32_i64 c den)
      else if d1 then g (Gen.cast_n_u32_i64_ub c num) (fun _ => Gen.cast_n_u32_i64 c num)
      else g (Gen.cast_nd_u32_i64_ub c num den) (fun _ => Gen.cast_nd_u32_i64 c num den))
  else if toRep == ⟨32, false⟩ && frm == ⟨32, false⟩ then
    some (if n1 && d1 then g (Gen.cast_id_u32_u32_ub c) (fun _ => Gen.cast_id_u32_u32 c)
      else if n1 then g (Gen.cast_d_u32_u32_ub c den) (fun _ => Gen.cast_d_u32_u32 c den)
      else if d1 then g (Gen.cast_n_u32_u32_ub c num) (fun _ => Gen.cast_n_u32_u32 c num)
      else g (Gen.cast_nd_u32_u32_ub c num den) (fun _ => Gen.cast_nd_u32_u32 c num den))
  else none

end Tetl.C12.GenDispatch
