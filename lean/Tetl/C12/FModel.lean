/-
C12 — executable model of the same C++ bodies for durations with a floating-point (`double`)
representation on at least one side.  There is NO theorem about this file (Lean's `Float` is opaque to
the kernel): it exists so that the floating-point half of the property's quantifier is compared, value
by value and bit by bit, against the implementation and against libstdc++ (DESIGN §4 C12:
"floating: comparison against std only").  IEEE-754 binary64 arithmetic on both sides.

Whenever one representation is `double`, `common_type_t<to_rep, Rep, intmax_t>` and the representation
of the common duration type are `double`, so all arithmetic below is `Float` arithmetic; integers occur
only as the source count (converted by `static_cast<double>`) and as the target of a final
`static_cast<to_rep>` (truncation).
-/
import Tetl.C12.Model
namespace Tetl.C12.F
open Tetl Tetl.C12
open Tetl.C14 (ITy)

/-- representation kind -/
inductive RK where
  | i (t : ITy)
  | f
  deriving BEq, Inhabited

/-- a tick count of either kind -/
inductive V where
  | i (x : Int)
  | f (x : Float)
  deriving Inhabited

def V.toF : V → Float
  | .i x => Float.ofInt x
  | .f x => x

/-- `static_cast<long long>(double)`: truncation (the generator keeps the value in range) -/
def truncF (x : Float) : Int := x.toInt64.toInt

/-- `static_cast<r>(v)` -/
def castTo : RK → V → V
  | .f, v => .f v.toF
  | .i t, .i x => .i (t.conv x)
  | .i t, .f x => .i (t.conv (truncF x))

def one (r : RK) : V := castTo r (.i 1)

/-- `duration_cast<To>(d)` with `CR = double` -/
def durationCast (to : RK) (cf : Ratio) (v : V) : V :=
  let x := v.toF
  if cf.num == 1 && cf.den == 1 then castTo to v
  else if cf.num == 1 then castTo to (.f (x / Float.ofInt cf.den))
  else if cf.den == 1 then castTo to (.f (x * Float.ofInt cf.num))
  else castTo to (.f (x * Float.ofInt cf.num / Float.ofInt cf.den))

/-- the converting constructor into a `double` duration:
    `static_cast<Rep>(CR(other.count()) * CR(cf::num) / CR(cf::den))` -/
def convertF (cf : Ratio) (v : V) : Float := v.toF * Float.ofInt cf.num / Float.ofInt cf.den

/-- static context of a binary operator: the conversion factors of `CD(lhs)`, `CD(rhs)` -/
def pairCf (p1 p2 : Ratio) : Except Err (Ratio × Ratio) := do
  let cd ← commonTy ⟨imax, p1⟩ ⟨imax, p2⟩
  let c1 ← ratioDivide p1 cd.per
  let c2 ← ratioDivide p2 cd.per
  .ok (c1, c2)

/-- both operands in the common type (representation `double`) -/
def toCommon (k : Ratio × Ratio) (x y : V) : Float × Float := (convertF k.1 x, convertF k.2 y)

def lt (k : Ratio × Ratio) (x y : V) : Bool :=
  let (l, r) := toCommon k x y
  decide (l < r)

/-- `t.count() ± static_cast<To::rep>(1)` -/
def step1 (to : RK) (t : V) (up : Bool) : V :=
  match to, t with
  | .i ty, .i x => .i (ty.conv (if up then x + 1 else x - 1))
  | _, t => .f (if up then t.toF + 1.0 else t.toF - 1.0)

/-- `floor<To>`: `cf` = factor of the cast, `k` = `pairCf pFrm pTo` -/
def floorTo (to : RK) (cf : Ratio) (k : Ratio × Ratio) (v : V) : V :=
  let t := durationCast to cf v
  if lt k v t then step1 to t false else t

/-- `ceil<To>`: `k` = `pairCf pTo pFrm` -/
def ceilTo (to : RK) (cf : Ratio) (k : Ratio × Ratio) (v : V) : V :=
  let t := durationCast to cf v
  if lt k t v then step1 to t true else t

/-- `round<To>` for an integer `To::rep` and a `double` source; `kft` = `pairCf pFrm pTo`, `ktf` = `pairCf pTo pFrm` -/
def roundTo (ty : ITy) (cf : Ratio) (kft ktf : Ratio × Ratio) (v : V) : Except Err V :=
  match floorTo (.i ty) cf kft v with
  | .f _ => .error (.pre "round: integer target expected")
  | .i lo =>
    let low : V := .i lo
    let high : V := .i (ty.conv (lo + 1))
    let (d, l) := toCommon kft v low
    let lowDiff := d - l
    let (h, d') := toCommon ktf high v
    let highDiff := h - d'
    if lowDiff < highDiff then .ok low
    else if highDiff < lowDiff then .ok high
    else .ok (if lo % 2 != 0 then high else low)

def hexDigit (n : Nat) : Char := if n < 10 then Char.ofNat (48 + n) else Char.ofNat (87 + n)

/-- `x<16 hex digits>`: the IEEE-754 bit pattern -/
def fmtF (x : Float) : String :=
  let b := x.toBits.toNat
  let ds := (List.range 16).map fun k => hexDigit ((b / 16 ^ (15 - k)) % 16)
  "x" ++ String.ofList ds

def V.fmt : V → String
  | .i x => toString x
  | .f x => fmtF x

end Tetl.C12.F
