/- C12 line-protocol driver: prints `model <TAB> spec` for each case line.

   `<op> r1=<i8|i16|i32|i64|u8|u16|u32|f64> p1=<k> [r2=<..> p2=<k>] [rs=<i32|i64>] a=<int>|as=[..] [b=<int>] [ns=1]`
   (`ns=1` is read by the harness only: the std:: column is `*` for that line)
   p1/p2 index the period table `periods` (same table as harness/c12.cpp and checks/props/c12.py).
   For an f64 representation the count is `a / 8`.  With a list argument the op is evaluated for every element
   and the results are printed as `[r1,r2,...]`; several values of one evaluation are joined with `;`.
   For a floating-point representation both columns are produced by `FModel` (no independent spec). -/
import Tetl.Proto
import Tetl.C12.Model
import Tetl.C12.Spec
import Tetl.C12.FModel
import Tetl.C12.GenDispatch
namespace Tetl.C12.Driver
open Tetl Tetl.Proto Tetl.C12
open Tetl.C14 (ITy)

/-- the template arguments `ratio<N, D>` of the period table -/
def periods : List (Int × Int) :=
  [(1, 1000000000), (1, 1000000), (1, 1000), (1, 1), (60, 1), (3600, 1), (86400, 1), (1, 3), (5, 7), (1001, 30000),
   (10, 14), (-1001, -30000)]

def repOf : String → Option F.RK
  | "i8" => some (.i ⟨8, true⟩)
  | "i16" => some (.i ⟨16, true⟩)
  | "i32" => some (.i ⟨32, true⟩)
  | "i64" => some (.i ⟨64, true⟩)
  | "u8" => some (.i ⟨8, false⟩)
  | "u16" => some (.i ⟨16, false⟩)
  | "u32" => some (.i ⟨32, false⟩)
  | "f64" => some .f
  | _ => none

def ratOf (nd : Int × Int) : Rat := (nd.1 : Rat) / (nd.2 : Rat)

def fmtE {α : Type} (f : α → String) : Except Err α → String
  | .ok a => f a
  | .error e => e.fmt

def sI (i : Int) : String := toString i
def join (xs : List String) : String := ";".intercalate xs

def sixFlags (eq lt gt : Bool) : String :=
  String.join [fmtBool eq, fmtBool (!eq), fmtBool lt, fmtBool (!gt), fmtBool gt, fmtBool (!lt)]

/-- the six comparison operators of the model, in the order `== != < <= > >=` -/
def sixModel (a b : DurTy) (x y : Int) : Except Err String := do
  let e ← C12.eq a b x y
  let n ← C12.ne a b x y
  let l ← C12.lt a b x y
  let le ← C12.le a b x y
  let g ← C12.gt a b x y
  let ge ← C12.ge a b x y
  .ok (String.join [fmtBool e, fmtBool n, fmtBool l, fmtBool le, fmtBool g, fmtBool ge])

def notConvertible (e : Err) : Bool :=
  match e with
  | .pre s => s.startsWith "duration(duration const&)"
  | _ => false

/-- run-time stage of an operation whose static context `k` was computed once for the line -/
def withCtx {κ : Type} (k : Except Err κ) (core : κ → Int → Except Err Int) (a : Int) : Except Err Int :=
  match k with
  | .ok k => core k a
  | .error e => .error e

def convStr (k : Except Err CastCtx) (a : Int) : String :=
  match withCtx k convertCore a with
  | .ok r => sI r
  | .error e => if notConvertible e then "n/a" else e.fmt

/-- integer representations: the evaluation of one count `a`, `(model, spec)`; everything that depends only on the line
    (types, contexts) is computed before the closure is returned -/
def evalInt (op : String) (t1 t2 : ITy) (nd1 nd2 : Int × Int) (b : Int) : Option (Int → String × String) :=
  let p := ratOf nd1
  let q := ratOf nd2
  let tys : Except Err (DurTy × DurTy) := do
    let r1 ← mkRatio nd1.1 nd1.2
    let r2 ← mkRatio nd2.1 nd2.2
    .ok (⟨t1, r1⟩, ⟨t2, r2⟩)
  match tys with
  | .error e => some fun _ => (e.fmt, "?")
  | .ok (d1, d2) =>
  let one (m : Int → Except Err Int) (s : Int → Int) : Option (Int → String × String) :=
    some fun a => (fmtE sI (m a), sI (s a))
  match op with
  -- the `tp_…` operations: `tpCast`, `tpFloor`, `tpCeil`, `tpRound`, `tpConvert`, `tpEq … tpGe` of the model are by definition the
  -- duration functions on `time_since_epoch()`; the driver evaluates their run-time bodies on the context computed once per line
  | "conv" | "tp_conv" =>
    let k := castCtx d2 d1
    let conv := (p / q).den == 1
    some fun a => (convStr k a, if conv then sI (Spec.floor p q a) else "n/a")
  | "cast" | "tp_cast" =>
    let k := castCtx d2 d1
    -- tie T: the GENERATED cast body for (to_rep, rep, CF) on the same count; a value of the hand model that the generated
    -- function does not reproduce (or whose generated UB obligation is false) is printed as `<model>!gen=<generated>`
    let gen : Int → Option String := match k with
      | .ok kk => if kk.cr == imax then fun a => GenDispatch.cast kk.toRep t1 kk.cf.num kk.cf.den a else fun _ => none
      | .error _ => fun _ => none
    some fun a =>
      let m := withCtx k castCore a
      let ms := fmtE sI m
      match m, gen a with
      | .ok _, some gv => (if gv == ms then ms else s!"{ms}!gen={gv}", sI (Spec.cast p q a))
      | _, _ => (ms, sI (Spec.cast p q a))
  | "floor" | "tp_floor" => let k := floorCtx d2 d1; one (withCtx k floorCore) (Spec.floor p q)
  | "ceil" | "tp_ceil" => let k := ceilCtx d2 d1; one (withCtx k ceilCore) (Spec.ceil p q)
  | "round" | "tp_round" => let k := roundCtx d2 d1; one (withCtx k roundCore) (Spec.round p q)
  | "add" => let k := pairCtx d1 d2; one (withCtx k (addCore · · b)) (Spec.add p q · b)
  | "sub" => let k := pairCtx d1 d2; one (withCtx k (subCore · · b)) (Spec.sub p q · b)
  | "div" => let k := pairCtx d1 d2; one (withCtx k (divCore · · b)) (Spec.div p q · b)
  | "mod" => let k := pairCtx d1 d2; one (withCtx k (modCore · · b)) (Spec.mod p q · b)
  | "cmp" | "tp_cmp" =>
    let k12 := pairCtx d1 d2
    let k21 := pairCtx d2 d1
    some fun a =>
      -- == != < <= > >=   with  != : !(==),  <= : !(rhs < lhs),  > : rhs < lhs,  >= : !(lhs < rhs)
      let m : Except Err String := do
        let k12 ← k12
        let k21 ← k21
        let e ← eqCore k12 a b
        let l ← ltCore k12 a b
        let g ← ltCore k21 b a
        .ok (String.join [fmtBool e, fmtBool (!e), fmtBool l, fmtBool (!g), fmtBool g, fmtBool (!l)])
      (fmtE id m, sixFlags (Spec.eq p q a b) (Spec.lt p q a b) (Spec.lt q p b a))
  | "common" =>
    let k := pairCtx d1 d2
    some fun a =>
      let m : Except Err String := do
        let k ← k
        let l ← convertCore k.ka a
        let r ← convertCore k.kb b
        .ok (join [sI l, sI r])
      (fmtE id m, join [sI (Spec.toCommon p q a), sI (Spec.toCommon q p b)])
  | "ctype" =>
    let m : Except Err String := do
      let cd ← commonTy d1 d2
      .ok (join [sI cd.per.num, sI cd.per.den, toString cd.rep.w])
    let cp := Spec.commonPeriod p q
    some fun _ => (fmtE id m, join [sI cp.num, toString cp.den, toString (max t1.w t2.w)])
  -- [time.point.nonmember]: `tp + d ; d + tp`, `tp - d`, `tp - tp`
  | "tp_plus" =>
    let k := pairCtx d1 d2
    some fun a =>
      let m : Except Err String := do
        let k ← k
        let r ← tpPlusCore k a b         -- time_point<D1>{a} + D2{b}; D2{b} + time_point<D1>{a} is `return rhs + lhs;` (`durPlusTp`)
        .ok (join [sI r, sI r])
      (fmtE id m, join [sI (Spec.tpPlus p q a b), sI (Spec.tpPlus p q a b)])
  | "tp_minus" => let k := pairCtx d1 d2; one (withCtx k (tpMinusCore · · b)) (Spec.tpMinus p q · b)
  | "tp_diff" => let k := pairCtx d1 d2; one (withCtx k (tpDiffCore · · b)) (Spec.tpDiff p q · b)
  -- compound assignment with a duration of another type: `D1 x{a}; x += D2{b}` ; `x -= D2{b}` (`tp_adda2`: the same members of
  -- `time_point<Clock, D1>`); `n/a` when `D2` does not convert implicitly to `D1`
  | "adda2" | "tp_adda2" =>
    let k := assign2Ctx d1 d2
    let conv := (q / p).den == 1
    let e := Spec.floor q p b            -- exact: `b` ticks of `q` are `b * (q / p)` ticks of `p`
    some fun a =>
      let m : Except Err String := do
        let k ← k
        let x ← addAssign2Core k d1 a b
        let y ← subAssign2Core k d1 a b
        .ok (join [sI x, sI y])
      let ms := match m with
        | .ok r => r
        | .error er => if notConvertible er then "n/a" else er.fmt
      (ms, if conv then join [sI (a + e), sI (a - e)] else "n/a")
  | "moda2" =>
    let k := assign2Ctx d1 d2
    let conv := (q / p).den == 1
    let e := Spec.floor q p b
    some fun a =>
      let ms := match withCtx k (modAssign2Core · d1 · b) a with
        | .ok r => sI r
        | .error er => if notConvertible er then "n/a" else er.fmt
      (ms, if conv then sI (Spec.modRep p a e) else "n/a")
  | _ => none

/-- one-type operations, integer representation -/
def evalInt1 (op : String) (t rs : ITy) (nd : Int × Int) (b : Int) : Option (Int → String × String) :=
  match mkRatio nd.1 nd.2 with
  | .error e => some fun _ => (e.fmt, "?")
  | .ok r =>
  let d : DurTy := ⟨t, r⟩
  let p := ratOf nd
  let one (m : Int → Except Err Int) (s : Int → Int) : Option (Int → String × String) :=
    some fun a => (fmtE sI (m a), sI (s a))
  match op with
  | "abs" => let k := absCtx d; one (withCtx k absCore) Spec.abs
  | "neg" => one (neg d) (fun a => -a)
  | "pos" => let k := posCtx d; one (withCtx k convertCore) id
  | "inc" => some fun a =>
    let m : Except Err String := do
      let x ← addAssign d a 1
      let y ← addAssign d x 1
      .ok (join [sI a, sI y, sI y])
    (fmtE id m, join [sI a, sI (a + 2), sI (a + 2)])
  | "dec" => some fun a =>
    let m : Except Err String := do
      let x ← subAssign d a 1
      let y ← subAssign d x 1
      .ok (join [sI a, sI y, sI y])
    (fmtE id m, join [sI a, sI (a - 2), sI (a - 2)])
  | "tp_inc" => some fun a =>
    let m : Except Err String := do
      let x ← tpInc d a
      let y ← tpInc d x
      let z ← tpDec d y
      let w ← tpDec d z
      .ok (join [sI a, sI y, sI w])
    (fmtE id m, join [sI a, sI (a + 2), sI a])
  | "adda" => one (addAssign d · b) (· + b)
  | "tp_adda" => one (tpAddAssign d · b) (· + b)
  | "suba" => one (subAssign d · b) (· - b)
  | "tp_suba" => one (tpSubAssign d · b) (· - b)
  | "mula" => one (mulAssign d · b) (· * b)
  | "diva" => one (divAssign d · b) (Spec.divRep p · b)
  | "moda" | "modad" => one (modAssign d · b) (Spec.modRep p · b)
  -- [time.duration.nonmember], scalar of type `rs`: `d * s ; s * d`, `d / s`, `d % s`
  | "mul" =>
    let k := scalarCtx d rs
    some fun a =>
      let m : Except Err String := do
        let k ← k
        let r ← mulRepCore k a b         -- d * s; s * d is `return d * s;` (`repMul`)
        .ok (join [sI r, sI r])
      (fmtE id m, join [sI (Spec.mulRep p a b), sI (Spec.mulRep p a b)])
  | "divr" => let k := scalarCtx d rs; one (withCtx k (divRepCore · · b)) (Spec.divRep p · b)
  | "modr" => let k := scalarCtx d rs; one (withCtx k (modRepCore · · b)) (Spec.modRep p · b)
  | "limits" =>
    -- model: the members as written (duration_values / numeric_limits); spec: zero, the least and the greatest value of the representation
    let m := join [sI (durZero d), sI (durMin d), sI (durMax d), sI (tpMin d), sI (tpMax d)]
    let lo : Int := if t.sg then -(2 ^ (t.w - 1)) else 0
    let hi : Int := if t.sg then 2 ^ (t.w - 1) - 1 else 2 ^ t.w - 1
    let s := join [sI 0, sI lo, sI hi, sI lo, sI hi]
    some fun _ => (m, s)
  | _ => none

def mkV (r : F.RK) (a : Int) : F.V :=
  match r with
  | .f => .f (Float.ofInt a / 8.0)
  | .i _ => .i a

/-- at least one `double` representation: both columns from `FModel` -/
def evalF (op : String) (r1 r2 : F.RK) (nd1 nd2 : Int × Int) (b : Int) : Option (Int → String) :=
  let y := mkV r2 b
  let ctx : Except Err (Ratio × (Ratio × Ratio) × (Ratio × Ratio) × DurTy) := do
    let p1 ← mkRatio nd1.1 nd1.2
    let p2 ← mkRatio nd2.1 nd2.2
    let cf ← ratioDivide p1 p2
    let k12 ← F.pairCf p1 p2
    let k21 ← F.pairCf p2 p1
    let cd ← commonTy ⟨imax, p1⟩ ⟨imax, p2⟩
    .ok (cf, k12, k21, cd)
  match ctx with
  | .error e => some fun _ => e.fmt
  | .ok (cf, k12, k21, cd) =>
  match op with
  | "cast" | "tp_cast" => some fun a => (F.durationCast r2 cf (mkV r1 a)).fmt
  | "floor" | "tp_floor" => some fun a => (F.floorTo r2 cf k12 (mkV r1 a)).fmt
  | "ceil" | "tp_ceil" => some fun a => (F.ceilTo r2 cf k21 (mkV r1 a)).fmt
  | "round" | "tp_round" =>
    match r2 with
    | .f => some fun _ => "n/a"
    | .i ty => some fun a => fmtE F.V.fmt (F.roundTo ty cf k12 k21 (mkV r1 a))
  | "add" => some fun a => let (l, r) := F.toCommon k12 (mkV r1 a) y; F.fmtF (l + r)
  | "sub" => some fun a => let (l, r) := F.toCommon k12 (mkV r1 a) y; F.fmtF (l - r)
  | "div" => some fun a => let (l, r) := F.toCommon k12 (mkV r1 a) y; F.fmtF (l / r)
  | "mod" => some fun _ => "n/a"
  | "cmp" | "tp_cmp" => some fun a =>
    let (l, r) := F.toCommon k12 (mkV r1 a) y
    let (r', l') := F.toCommon k21 y (mkV r1 a)
    String.join [fmtBool (l == r), fmtBool (!(l == r)), fmtBool (l < r), fmtBool (!(r' < l')), fmtBool (r' < l'),
                 fmtBool (!(l < r))]
  | "common" => some fun a => let (l, r) := F.toCommon k12 (mkV r1 a) y; join [F.fmtF l, F.fmtF r]
  | "tp_plus" => some fun a => let (l, r) := F.toCommon k12 (mkV r1 a) y; join [F.fmtF (l + r), F.fmtF (l + r)]
  | "tp_minus" | "tp_diff" => some fun a => let (l, r) := F.toCommon k12 (mkV r1 a) y; F.fmtF (l - r)
  | "ctype" => some fun _ => join [sI cd.per.num, sI cd.per.den, "0"]
  | "conv" | "tp_conv" =>
    match r2 with
    | .i _ => some fun _ => "n/a"          -- an integer duration is not constructible from a floating-point one
    | .f => some fun a => F.fmtF (F.convertF cf (mkV r1 a))
  | _ => none

def evalF1 (op : String) (b : Int) : Option (Int → String) :=
  let e := Float.ofInt b / 8.0
  let rb := Float.ofInt b
  let f := F.fmtF
  let c (a : Int) : Float := Float.ofInt a / 8.0
  match op with
  | "abs" => some fun a => f (if c a < 0.0 then 0.0 - c a else c a)
  | "neg" => some fun a => f (-(c a))
  | "pos" => some fun a => f (c a * 1.0 / 1.0)
  | "inc" => some fun a => join [f (c a), f (c a + 1.0 + 1.0), f (c a + 1.0 + 1.0)]
  | "dec" => some fun a => join [f (c a), f (c a - 1.0 - 1.0), f (c a - 1.0 - 1.0)]
  | "tp_inc" => some fun a => join [f (c a), f (c a + 1.0 + 1.0), f (c a + 1.0 + 1.0 - 1.0 - 1.0)]
  | "adda" | "tp_adda" => some fun a => f (c a + e)
  | "suba" | "tp_suba" => some fun a => f (c a - e)
  | "mula" => some fun a => f (c a * rb)
  | "diva" => some fun a => f (c a / rb)
  | "mul" => some fun a => join [f (c a * rb), f (c a * rb)]
  | "divr" => some fun a => f (c a / rb)
  | "moda" | "modad" | "modr" => some fun _ => "n/a"
  | "limits" => some fun _ => "x0000000000000000;xffefffffffffffff;x7fefffffffffffff;xffefffffffffffff;x7fefffffffffffff"
  | _ => none

/-- the named duration types: the period of the model's alias (`Model.namedTypes`) against [time.syn] (`Spec.namedPeriods`) -/
def evalNamed (k : Nat) : Option (String × String) := do
  let nd ← namedTypes[k]?
  let sp ← Spec.namedPeriods[k]?
  let m := match mkRatio nd.2.1 nd.2.2 with
    | .ok r => join [sI r.num, sI r.den]
    | .error e => e.fmt
  some (m, join [sI sp.num, toString sp.den])

/-- the evaluator of a line: a function of the count -/
def evalLine (l : Line) : Option (Int → String × String) := do
  let r1 ← (l.str? "r1").bind repOf
  let k1 ← l.nat? "p1"
  let nd1 ← periods[k1]?
  let b := (l.int? "b").getD 0
  match l.get? "r2" with
  | none =>
    match r1 with
    | .i t =>
      -- the type of the scalar operand of `d * s`, `d / s`, `d % s` (default: the representation of `d`)
      let rs : ITy := match (l.str? "rs").bind repOf with
        | some (.i u) => u
        | _ => t
      evalInt1 l.op t rs nd1 b
    | .f => (evalF1 l.op b).map fun f a => (f a, f a)
  | some _ =>
    let r2 ← (l.str? "r2").bind repOf
    let k2 ← l.nat? "p2"
    let nd2 ← periods[k2]?
    match r1, r2 with
    | .i t1, .i t2 => evalInt l.op t1 t2 nd1 nd2 b
    | _, _ => (evalF l.op r1 r2 nd1 nd2 b).map fun f a => let s := f a; (s, s)

def joinRes (rs : List (String × String)) : String × String :=
  ("[" ++ ",".intercalate (rs.map (·.1)) ++ "]", "[" ++ ",".intercalate (rs.map (·.2)) ++ "]")

def step (_ : Unit) (l : Line) : Unit × String :=
  let bad := ((), "bad-op\tbad-op")
  let out (r : String × String) := ((), r.1 ++ "\t" ++ r.2)
  if l.op == "named" then
    match (l.nat? "k").bind evalNamed with | some r => out r | none => bad
  else
  match evalLine l with
  | none => bad
  | some f =>
    match l.int? "a", l.list? "as" with
    | some a, none => out (f a)
    | none, some as => out (joinRes (as.map f))
    | none, none => out (f 0)
    | _, _ => bad

end Tetl.C12.Driver

def main : IO Unit := Tetl.Proto.runDriver () Tetl.C12.Driver.step
