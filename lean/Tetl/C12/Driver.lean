/- placeholder: the C12 driver is not built yet -/
def main : IO Unit := IO.println "C12: driver not built yet"
