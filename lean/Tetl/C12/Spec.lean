/-
C12 — reference semantics ([time.duration], [time.point] of the C++ standard): a duration is an exact
rational number of seconds, `count * period`.  Core `Rat` only; no machine types, no overflow, no
ratio normalisation, no case split on the conversion factor.
-/
namespace Tetl.C12.Spec

/-- the value in seconds of `c` ticks of period `p` -/
def val (p : Rat) (c : Int) : Rat := c * p

/-- truncation toward zero -/
def trunc (x : Rat) : Int := if 0 ≤ x then x.floor else x.ceil

/-- round to nearest, ties to even -/
def roundEven (x : Rat) : Int :=
  let f := x.floor
  let d := x - f
  if d < 1 / 2 then f else if 1 / 2 < d then f + 1 else if f % 2 = 0 then f else f + 1

/-- `duration_cast<To>`: the value expressed in ticks of `q`, truncated toward zero -/
def cast (p q : Rat) (c : Int) : Int := trunc (val p c / q)
/-- `floor<To>`: the greatest `t` with `t * q ≤ value` -/
def floor (p q : Rat) (c : Int) : Int := (val p c / q).floor
/-- `ceil<To>`: the least `t` with `value ≤ t * q` -/
def ceil (p q : Rat) (c : Int) : Int := (val p c / q).ceil
/-- `round<To>` -/
def round (p q : Rat) (c : Int) : Int := roundEven (val p c / q)

/-- the period of `common_type_t<duration<_, p>, duration<_, q>>`: the greatest rational of which both
    periods are integer multiples, `gcd(p.num, q.num) / lcm(p.den, q.den)` -/
def commonPeriod (p q : Rat) : Rat := (Int.gcd p.num q.num : Int) / (Nat.lcm p.den q.den : Int)

/-- the tick count of the value `x` in the period `cp` (exact for the values that occur: see `…_exact`).
    `inPeriod` is total (it would floor a non-multiple of `cp`); it is used by the driver for the R2 comparison with
    libstdc++ only - the theorems `add_exact`, `sub_exact`, `mod_exact`, … do not go through it: they state
    `result * cp = value` directly, so nothing is proved "because of the floor". -/
def inPeriod (cp x : Rat) : Int := (x / cp).floor

def add (p q : Rat) (a b : Int) : Int := inPeriod (commonPeriod p q) (val p a + val q b)
def sub (p q : Rat) (a b : Int) : Int := inPeriod (commonPeriod p q) (val p a - val q b)
/-- `d1 / d2`: how many whole `d2` fit in `d1` (truncated quotient of the two values) -/
def div (p q : Rat) (a b : Int) : Int := trunc (val p a / val q b)
/-- `d1 % d2`: `d1 - (d1 / d2) * d2` -/
def mod (p q : Rat) (a b : Int) : Int :=
  inPeriod (commonPeriod p q) (val p a - (div p q a b : Int) * val q b)
/-- `d * s`, `s * d` ([time.duration.nonmember]): the value `s` times as long, in ticks of the period of `d` -/
def mulRep (p : Rat) (c s : Int) : Int := inPeriod p (val p c * s)
/-- `d / s`: the value divided by `s`, in whole ticks of the period of `d`, truncated toward zero -/
def divRep (p : Rat) (c s : Int) : Int := trunc (val p c / s / p)
/-- `d % s`: what `d / s` leaves over, `d - (d / s) * s` -/
def modRep (p : Rat) (c s : Int) : Int := inPeriod p (val p c - val p (divRep p c s) * s)
/-- `time_point + duration`, `duration + time_point` ([time.point.nonmember]): the point whose distance from the epoch is the
    sum of the two values, in ticks of the common period -/
def tpPlus (p q : Rat) (a b : Int) : Int := inPeriod (commonPeriod p q) (val p a + val q b)
/-- `time_point - duration` -/
def tpMinus (p q : Rat) (a b : Int) : Int := inPeriod (commonPeriod p q) (val p a - val q b)
/-- `time_point - time_point`: the duration between the two points, in ticks of the common period -/
def tpDiff (p q : Rat) (a b : Int) : Int := inPeriod (commonPeriod p q) (val p a - val q b)
def eq (p q : Rat) (a b : Int) : Bool := decide (val p a = val q b)
def lt (p q : Rat) (a b : Int) : Bool := decide (val p a < val q b)
/-- conversion to the common type keeps the value -/
def toCommon (p q : Rat) (a : Int) : Int := inPeriod (commonPeriod p q) (val p a)
def abs (c : Int) : Int := (c.natAbs : Int)

/-- [time.syn]: the periods of `nanoseconds … years` in seconds: `weeks` = 7 days, `years` = 146097 days / 400,
    `months` = `years` / 12 -/
def namedPeriods : List Rat :=
  [1 / 1000000000, 1 / 1000000, 1 / 1000, 1, 60, 3600, 86400, 7 * 86400, (146097 * 86400 : Rat) / 400 / 12, (146097 * 86400 : Rat) / 400]
/-- [time.syn]: "a signed integer type of at least" 64, 55, 45, 35, 29, 23, 25, 22, 20, 17 bits -/
def namedMinBits : List Nat := [64, 55, 45, 35, 29, 23, 25, 22, 20, 17]

end Tetl.C12.Spec
