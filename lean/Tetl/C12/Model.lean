/-
C12 — model of tetl's duration / time_point arithmetic and rounding casts
(include/etl/_ratio/{ratio,ratio_multiply,ratio_divide}.hpp, _chrono/{duration,duration_cast,floor,ceil,round,abs,
 time_point,time_point_cast}.hpp), integer representations.

Conventions (those of the C14 model, which is reused for `gcd`, `lcm` and the integer types):

* a representation `Rep` is a builtin integer type `ITy` = (width, signedness); a duration value is its
  tick count, a mathematical `Int`; a duration *type* is `DurTy` = (rep, period);
* a period is a `Ratio` (`num`, `den` of type `intmax_t`), obtained from the template arguments by
  `mkRatio`, which mirrors the member initialisers of `etl::ratio` (`sign`, `abs`, `gcd`);
* every arithmetic operator is evaluated in the C++ type it has in the source (`arith T e`): for a
  signed type a result outside the range is undefined behaviour and the model returns
  `.error (.pre "ub: …")`; a division by zero and `min / -1` likewise;
* `static_cast<T>(e)`, and the `_rep(r)` of the `duration(Rep2 const&)` constructor, are `T.conv e`
  (modular: a cast to a narrower representation never traps, it wraps);
* a `requires` clause that removes a constructor from overload resolution is
  `.error (.pre "<constraint>")`: the program would not compile; the theorems show that the conversions
  to the common type that the operators perform never hit it;
* expressions that the compiler evaluates at compile time (`ratio<…>::num`, `ratio_divide`,
  `common_type`) are evaluated in `intmax_t` with the same overflow rule: an overflow there is a
  compile-time error of the real program.

The free functions of [time.duration.nonmember] (`d * s`, `s * d`, `d / s`, `d % s`) and [time.point.nonmember]
(`tp + d`, `d + tp`, `tp - d`, `tp - tp`) are modelled as declared in duration.hpp / time_point.hpp; a `time_point` is its
`time_since_epoch()`.

"The model never returns `.error`" on the documented domain is the statement that no result depends
on overflow (the C02 face of the property).  The four `duration_cast_impl::cast` bodies are modelled
by hand (the translator gen/translate.py handles non-template functions only).
-/
import Tetl.Common
import Tetl.C14.Model
namespace Tetl.C12
open Tetl
open Tetl.C14 (ITy arith ub)

/-- `intmax_t` -/
def imax : ITy := ⟨64, true⟩

/-- `a / b` on operands of the signed type `t` -/
def cdiv (t : ITy) (a b : Int) : Except Err Int :=
  if b == 0 then ub "division by zero"
  else if t.sg && a == t.min && b == -1 then ub "signed overflow in division"
  else .ok (Int.tdiv a b)

/-- `a % b` on operands of the signed type `t` -/
def cmod (t : ITy) (a b : Int) : Except Err Int :=
  if b == 0 then ub "remainder by zero"
  else if t.sg && a == t.min && b == -1 then ub "signed overflow in remainder"
  else .ok (Int.tmod a b)

/-- the static members `num`, `den` of an `etl::ratio` specialisation -/
structure Ratio where
  num : Int
  den : Int
  deriving Repr, BEq, DecidableEq, Inhabited

/-- `detail::sign(val)`: `val < 0 ? T(-1) : T(1)` -/
def sign (v : Int) : Int := if v < 0 then -1 else 1

/-- `etl::abs(long n)` = `detail::abs_impl`: `n >= 0 ? n : n * T(-1)` -/
def absImpl (v : Int) : Except Err Int :=
  if v ≥ 0 then .ok v else arith imax (v * -1)

/-- `ratio<Num, Denom>`: `static_assert(Denom != 0)`;
    `num = sign(Num) * sign(Denom) * abs(Num) / gcd(Num, Denom)`, `den = abs(Denom) / gcd(Num, Denom)` -/
def mkRatio (n d : Int) : Except Err Ratio :=
  if d == 0 then .error (.pre "ratio: static_assert(Denom != 0)")
  else do
    let g ← C14.gcd imax imax n d
    let an ← absImpl n
    let s ← arith imax (sign n * sign d)
    let p ← arith imax (s * an)
    let num ← cdiv imax p g
    let ad ← absImpl d
    let den ← cdiv imax ad g
    .ok ⟨num, den⟩

/-- `ratio<N, D>::type` = `ratio<num, den>`: the specialisation named by the reduced members, whose own members are
    computed again by the same expressions -/
def ratioType (n d : Int) : Except Err Ratio := do
  let r ← mkRatio n d
  mkRatio r.num r.den

/-- `detail::ratio_multiply_impl<R1, R2>::type`:
    `gcd1 = gcd(R1::num, R2::den)`, `gcd2 = gcd(R2::num, R1::den)`,
    `ratio<(R1::num / gcd1) * (R2::num / gcd2), (R1::den / gcd2) * (R2::den / gcd1)>::type` -/
def ratioMultiply (r1 r2 : Ratio) : Except Err Ratio := do
  let gcd1 ← C14.gcd imax imax r1.num r2.den
  let gcd2 ← C14.gcd imax imax r2.num r1.den
  let a ← cdiv imax r1.num gcd1
  let b ← cdiv imax r2.num gcd2
  let n ← arith imax (a * b)
  let c ← cdiv imax r1.den gcd2
  let e ← cdiv imax r2.den gcd1
  let d ← arith imax (c * e)
  ratioType n d

/-- `ratio_divide<R1, R2>` = `detail::ratio_divide_impl<R1, R2>::type`: `static_assert(R2::num != 0)`;
    `ratio_multiply_impl<R1, ratio<R2::den, R2::num>>::type` -/
def ratioDivide (r1 r2 : Ratio) : Except Err Ratio :=
  if r2.num == 0 then .error (.pre "ratio_divide: static_assert(R2::num != 0)")
  else do
    let inv ← mkRatio r2.den r2.num
    ratioMultiply r1 inv

/-- a duration type: `duration<Rep, Period>`; `per` is `Period::type`, already normalised -/
structure DurTy where
  rep : ITy
  per : Ratio
  deriving Repr, BEq, DecidableEq, Inhabited

/-! ### Two stages

In the C++ code everything that depends only on the *types* (`ratio_divide`, `common_type`, the choice of
the `duration_cast_impl` specialisation, `CR`) is computed by the compiler; only the tick counts are run-time
values.  The model keeps the two stages apart: `…Ctx` computes the static context of an operation from the
duration types (and fails where the program would not compile), `…Core` is the run-time body.  The
operation itself is the composition (`durationCast`, `add`, `floorTo`, …); the driver evaluates the
context once per case line. -/

/-- static context of `duration_cast<To>(From)` and of the converting constructor `To(From)`:
    `to_rep`, `CR = common_type_t<to_rep, Rep, intmax_t>`, `CF = ratio_divide<Period, To::period>` -/
structure CastCtx where
  toRep : ITy
  cr : ITy
  cf : Ratio
  deriving Repr, BEq, DecidableEq, Inhabited

def castCtx (to frm : DurTy) : Except Err CastCtx := do
  let cf ← ratioDivide frm.per to.per
  .ok ⟨to.rep, ITy.common (ITy.common to.rep frm.rep) imax, cf⟩

/-- the four `duration_cast_impl<To, CF, CR, CF::num == 1, CF::den == 1>::cast` bodies -/
def castCore (k : CastCtx) (c : Int) : Except Err Int :=
  if k.cf.num == 1 && k.cf.den == 1 then
    -- static_cast<to_rep>(duration.count())
    .ok (k.toRep.conv c)
  else if k.cf.num == 1 then do
    -- static_cast<to_rep>(static_cast<CR>(duration.count()) / static_cast<CR>(CF::den))
    let q ← cdiv k.cr (k.cr.conv c) (k.cr.conv k.cf.den)
    .ok (k.toRep.conv q)
  else if k.cf.den == 1 then do
    -- static_cast<to_rep>(static_cast<CR>(duration.count()) * static_cast<CR>(CF::num))
    let p ← arith k.cr (k.cr.conv c * k.cr.conv k.cf.num)
    .ok (k.toRep.conv p)
  else do
    -- static_cast<to_rep>(static_cast<CR>(duration.count()) * static_cast<CR>(CF::num) / static_cast<CR>(CF::den))
    let p ← arith k.cr (k.cr.conv c * k.cr.conv k.cf.num)
    let q ← cdiv k.cr p (k.cr.conv k.cf.den)
    .ok (k.toRep.conv q)

/-- `duration_cast<To>(d)` -/
def durationCast (to frm : DurTy) (c : Int) : Except Err Int := do
  let k ← castCtx to frm
  castCore k c

/-- the converting constructor `duration(duration<Rep2, Period2> const& other)`:
    participates only if `ratio_divide<Period2, period>::den == 1` (integer representations);
    `_rep(static_cast<Rep>(static_cast<CR>(other.count()) * static_cast<CR>(cf::num) / static_cast<CR>(cf::den)))`
    with `CR = common_type_t<Rep, Rep2, intmax_t>` -/
def convertCore (k : CastCtx) (c : Int) : Except Err Int :=
  if k.cf.den != 1 then .error (.pre "duration(duration const&): ratio_divide<Period2, period>::den == 1")
  else do
    let p ← arith k.cr (k.cr.conv c * k.cr.conv k.cf.num)
    let q ← cdiv k.cr p (k.cr.conv k.cf.den)
    .ok (k.toRep.conv q)

def convert (to frm : DurTy) (c : Int) : Except Err Int := do
  let k ← castCtx to frm
  convertCore k c

/-- `common_type<duration<Rep1, Period1>, duration<Rep2, Period2>>`:
    `duration<common_type_t<Rep1, Rep2>, ratio<gcd(Period1::num, Period2::num), lcm(Period1::den, Period2::den)>>` -/
def commonTy (a b : DurTy) : Except Err DurTy := do
  let n ← C14.gcd imax imax a.per.num b.per.num
  let d ← C14.lcm imax imax a.per.den b.per.den
  let r ← mkRatio n d
  .ok ⟨ITy.common a.rep b.rep, r⟩

/-- static context of a binary operator on `duration<…> a`, `duration<…> b`: the common type `CD` and the two
    converting constructors `CD(lhs)`, `CD(rhs)` -/
structure PairCtx where
  cd : DurTy
  ka : CastCtx
  kb : CastCtx
  deriving Repr, BEq, DecidableEq, Inhabited

def pairCtx (a b : DurTy) : Except Err PairCtx := do
  let cd ← commonTy a b
  let ka ← castCtx cd a
  let kb ← castCtx cd b
  .ok ⟨cd, ka, kb⟩

/-- `CD(static_cast<CR>(x))` where `x` has the promoted type of `CR op CR` -/
def mkCD (cd : DurTy) (x : Int) : Int := cd.rep.conv (cd.rep.conv x)

/-- `operator+`: `CD(static_cast<CR>(CD(lhs).count() + CD(rhs).count()))` -/
def addCore (k : PairCtx) (x y : Int) : Except Err Int := do
  let l ← convertCore k.ka x
  let r ← convertCore k.kb y
  let s ← arith k.cd.rep.promote (l + r)
  .ok (mkCD k.cd s)
def add (a b : DurTy) (x y : Int) : Except Err Int := do let k ← pairCtx a b; addCore k x y

/-- `operator-` -/
def subCore (k : PairCtx) (x y : Int) : Except Err Int := do
  let l ← convertCore k.ka x
  let r ← convertCore k.kb y
  let s ← arith k.cd.rep.promote (l - r)
  .ok (mkCD k.cd s)
def sub (a b : DurTy) (x y : Int) : Except Err Int := do let k ← pairCtx a b; subCore k x y

/-- `operator/ (duration, duration) -> common_type_t<Rep1, Rep2>`: `CD(lhs).count() / CD(rhs).count()` -/
def divCore (k : PairCtx) (x y : Int) : Except Err Int := do
  let l ← convertCore k.ka x
  let r ← convertCore k.kb y
  let q ← cdiv k.cd.rep.promote l r
  .ok (k.cd.rep.conv q)
def div (a b : DurTy) (x y : Int) : Except Err Int := do let k ← pairCtx a b; divCore k x y

/-- `operator% (duration, duration)`: `CD(static_cast<CR>(CD(lhs).count() % CD(rhs).count()))` -/
def modCore (k : PairCtx) (x y : Int) : Except Err Int := do
  let l ← convertCore k.ka x
  let r ← convertCore k.kb y
  let q ← cmod k.cd.rep.promote l r
  .ok (mkCD k.cd q)
def mod (a b : DurTy) (x y : Int) : Except Err Int := do let k ← pairCtx a b; modCore k x y

/-! ### duration and a tick count ([time.duration.nonmember]) -/

/-- static context of `duration<Rep1, Period> op Rep2`: `CD = duration<common_type_t<Rep1, Rep2>, Period>`, the converting
    constructor `CD(d)`, the scalar type `Rep2`.  (The constraint `is_convertible_v<Rep2 const&, common_type_t<Rep1, Rep2>>`
    holds for every pair of builtin integer types; `Rep2` is not a specialisation of `duration`.) -/
structure ScalarCtx where
  cd : DurTy
  k : CastCtx
  rs : ITy
  deriving Repr, BEq, DecidableEq, Inhabited

def scalarCtx (d : DurTy) (rs : ITy) : Except Err ScalarCtx := do
  let cd : DurTy := ⟨ITy.common d.rep rs, d.per⟩
  let k ← castCtx cd d
  .ok ⟨cd, k, rs⟩

/-- `operator*(duration<Rep1, Period> const& d, Rep2 const& s)`: `CD(CD(d).count() * s)`; the product is evaluated in the
    type of `CR * Rep2` (usual arithmetic conversions), `CD(x)` converts it to `CR` -/
def mulRepCore (k : ScalarCtx) (c s : Int) : Except Err Int := do
  let l ← convertCore k.k c
  let t := ITy.usual k.cd.rep k.rs
  let p ← arith t (t.conv l * t.conv s)
  .ok (k.cd.rep.conv p)
def mulRep (d : DurTy) (rs : ITy) (c s : Int) : Except Err Int := do let k ← scalarCtx d rs; mulRepCore k c s

/-- `operator*(Rep1 const& s, duration<Rep2, Period> const& d)`: `return d * s;` (the declared return type
    `duration<common_type_t<Rep1, Rep2>, Period>` is the type of `d * s`: a copy) -/
def repMul (rs : ITy) (d : DurTy) (s c : Int) : Except Err Int := mulRep d rs c s

/-- `operator/(duration<Rep1, Period> const& d, Rep2 const& s)`: `CD(CD(d).count() / s)` -/
def divRepCore (k : ScalarCtx) (c s : Int) : Except Err Int := do
  let l ← convertCore k.k c
  let t := ITy.usual k.cd.rep k.rs
  let q ← cdiv t (t.conv l) (t.conv s)
  .ok (k.cd.rep.conv q)
def divRep (d : DurTy) (rs : ITy) (c s : Int) : Except Err Int := do let k ← scalarCtx d rs; divRepCore k c s

/-- `operator%(duration<Rep1, Period> const& d, Rep2 const& s)`: `CD(CD(d).count() % s)` -/
def modRepCore (k : ScalarCtx) (c s : Int) : Except Err Int := do
  let l ← convertCore k.k c
  let t := ITy.usual k.cd.rep k.rs
  let q ← cmod t (t.conv l) (t.conv s)
  .ok (k.cd.rep.conv q)
def modRep (d : DurTy) (rs : ITy) (c s : Int) : Except Err Int := do let k ← scalarCtx d rs; modRepCore k c s

/-! ### time_point and duration ([time.point.nonmember])

A `time_point<Clock, Duration>` is its `time_since_epoch()`, a `Duration`; `CT(x)` is the constructor
`time_point(duration const& d) : _d{d}` applied to a value that already has the type `CT::duration`
(`common_type_t<Dur1, duration<Rep2, Period2>>` is the return type of the duration operator): a copy. -/

/-- `operator+(time_point<Clock, Dur1> const& lhs, duration<Rep2, Period2> const& rhs)`: `CT(lhs.time_since_epoch() + rhs)` -/
def tpPlusCore (k : PairCtx) (x y : Int) : Except Err Int := addCore k x y
def tpPlus (a b : DurTy) (x y : Int) : Except Err Int := do let k ← pairCtx a b; tpPlusCore k x y

/-- `operator+(duration<Rep1, Period1> const& lhs, time_point<Clock, Dur2> const& rhs)`: `return rhs + lhs;` -/
def durPlusTp (a b : DurTy) (x y : Int) : Except Err Int := tpPlus b a y x

/-- `operator-(time_point<Clock, Dur1> const& lhs, duration<Rep2, Period2> const& rhs)`: `CT(lhs.time_since_epoch() - rhs)` -/
def tpMinusCore (k : PairCtx) (x y : Int) : Except Err Int := subCore k x y
def tpMinus (a b : DurTy) (x y : Int) : Except Err Int := do let k ← pairCtx a b; tpMinusCore k x y

/-- `operator-(time_point<Clock, Dur1> const& lhs, time_point<Clock, Dur2> const& rhs) -> common_type_t<Dur1, Dur2>`:
    `lhs.time_since_epoch() - rhs.time_since_epoch()` -/
def tpDiffCore (k : PairCtx) (x y : Int) : Except Err Int := subCore k x y
def tpDiff (a b : DurTy) (x y : Int) : Except Err Int := do let k ← pairCtx a b; tpDiffCore k x y

/-- `operator==`: `common_t(lhs).count() == common_t(rhs).count()` -/
def eqCore (k : PairCtx) (x y : Int) : Except Err Bool := do
  let l ← convertCore k.ka x
  let r ← convertCore k.kb y
  .ok (l == r)
def eq (a b : DurTy) (x y : Int) : Except Err Bool := do let k ← pairCtx a b; eqCore k x y

/-- `operator<`: `common_t(lhs).count() < common_t(rhs).count()` -/
def ltCore (k : PairCtx) (x y : Int) : Except Err Bool := do
  let l ← convertCore k.ka x
  let r ← convertCore k.kb y
  .ok (decide (l < r))
def lt (a b : DurTy) (x y : Int) : Except Err Bool := do let k ← pairCtx a b; ltCore k x y

/-- `!=`: `!(lhs == rhs)`; `<=`: `!(rhs < lhs)`; `>`: `rhs < lhs`; `>=`: `!(lhs < rhs)` -/
def ne (a b : DurTy) (x y : Int) : Except Err Bool := do let r ← eq a b x y; .ok (!r)
def le (a b : DurTy) (x y : Int) : Except Err Bool := do let r ← lt b a y x; .ok (!r)
def gt (a b : DurTy) (x y : Int) : Except Err Bool := lt b a y x
def ge (a b : DurTy) (x y : Int) : Except Err Bool := do let r ← lt a b x y; .ok (!r)

/-- `To(t.count() ± static_cast<To::rep>(1))` -/
def step1 (to : DurTy) (t : Int) (d : Int) : Except Err Int := do
  let r ← arith to.rep.promote (t + d * to.rep.conv 1)
  .ok (to.rep.conv r)

/-- static context of `floor<To>(From)` / `ceil<To>(From)`: the cast and the comparison `t > d` (= `d < t`, common type of
    `(From, To)`) resp. `t < d` (common type of `(To, From)`) -/
structure RoundingCtx where
  to : DurTy
  kc : CastCtx
  kcmp : PairCtx
  deriving Repr, BEq, DecidableEq, Inhabited

def floorCtx (to frm : DurTy) : Except Err RoundingCtx := do
  let kc ← castCtx to frm
  let kp ← pairCtx frm to
  .ok ⟨to, kc, kp⟩

/-- `floor<To>(d)`: `t = duration_cast<To>(d); if (t > d) return To(t.count() - 1); return t;` -/
def floorCore (k : RoundingCtx) (c : Int) : Except Err Int := do
  let t ← castCore k.kc c
  if ← ltCore k.kcmp c t then step1 k.to t (-1) else .ok t
def floorTo (to frm : DurTy) (c : Int) : Except Err Int := do let k ← floorCtx to frm; floorCore k c

def ceilCtx (to frm : DurTy) : Except Err RoundingCtx := do
  let kc ← castCtx to frm
  let kp ← pairCtx to frm
  .ok ⟨to, kc, kp⟩

/-- `ceil<To>(d)`: `t = duration_cast<To>(d); if (t < d) return To{t.count() + 1}; return t;` -/
def ceilCore (k : RoundingCtx) (c : Int) : Except Err Int := do
  let t ← castCore k.kc c
  if ← ltCore k.kcmp t c then step1 k.to t 1 else .ok t
def ceilTo (to frm : DurTy) (c : Int) : Except Err Int := do let k ← ceilCtx to frm; ceilCore k c

/-- static context of `round<To>(From)` -/
structure RoundCtx where
  fl : RoundingCtx      -- floor<To>(dur)
  tt : PairCtx          -- low + To{1}
  back : CastCtx        -- To const high = (that sum)
  lo : PairCtx          -- dur - low
  hi : PairCtx          -- high - dur
  lh : PairCtx          -- lowDiff < highDiff
  hl : PairCtx          -- lowDiff > highDiff, i.e. highDiff < lowDiff
  deriving Repr, BEq, DecidableEq, Inhabited

def roundCtx (to frm : DurTy) : Except Err RoundCtx := do
  let fl ← floorCtx to frm
  let tt ← pairCtx to to
  let back ← castCtx to tt.cd
  let lo ← pairCtx frm to
  let hi ← pairCtx to frm
  let lh ← pairCtx lo.cd hi.cd
  let hl ← pairCtx hi.cd lo.cd
  .ok ⟨fl, tt, back, lo, hi, lh, hl⟩

/-- `round<To>(dur)`:
    `low = floor<To>(dur); To high = low + To{1}; lowDiff = dur - low; highDiff = high - dur;`
    `if (lowDiff < highDiff) return low; if (lowDiff > highDiff) return high; return low.count() & 1 ? high : low;`
    (`low.count() & 1` on a two's complement value is `low mod 2`) -/
def roundCore (k : RoundCtx) (c : Int) : Except Err Int := do
  let low ← floorCore k.fl c
  let h ← addCore k.tt low (k.fl.to.rep.conv 1)
  let high ← convertCore k.back h
  let lowDiff ← subCore k.lo c low
  let highDiff ← subCore k.hi high c
  if ← ltCore k.lh lowDiff highDiff then .ok low
  else if ← ltCore k.hl highDiff lowDiff then .ok high
  else .ok (if low % 2 != 0 then high else low)
def roundTo (to frm : DurTy) (c : Int) : Except Err Int := do let k ← roundCtx to frm; roundCore k c

/-- static context of `abs(duration<R, P>)` -/
structure AbsCtx where
  t : DurTy
  tt : PairCtx          -- d < zero(), zero() - d
  back : CastCtx        -- duration<R, P>(zero() - d)
  deriving Repr, BEq, DecidableEq, Inhabited

def absCtx (t : DurTy) : Except Err AbsCtx := do
  let tt ← pairCtx t t
  let back ← castCtx t tt.cd
  .ok ⟨t, tt, back⟩

/-- `abs(d)`: `d < zero() ? duration(zero() - d) : d` -/
def absCore (k : AbsCtx) (c : Int) : Except Err Int := do
  let z := k.t.rep.conv 0
  if ← ltCore k.tt c z then
    let r ← subCore k.tt z c
    convertCore k.back r
  else .ok c
def absD (t : DurTy) (c : Int) : Except Err Int := do let k ← absCtx t; absCore k c

/-- unary `operator-`: `common_type_t<duration>(-_rep)` -/
def neg (t : DurTy) (c : Int) : Except Err Int := do
  let r ← arith t.rep.promote (-c)
  .ok (t.rep.conv r)

/-- unary `operator+`: `common_type_t<duration>(*this)` (the converting constructor to the normalised type) -/
def posCtx (t : DurTy) : Except Err CastCtx := do
  let tt ← commonTy t t
  castCtx tt t
def pos (t : DurTy) (c : Int) : Except Err Int := do let k ← posCtx t; convertCore k c

/-- `++_rep` / `--_rep` / `_rep += d.count()` / `_rep -= d.count()` -/
def addAssign (t : DurTy) (c d : Int) : Except Err Int := do
  let r ← arith t.rep.promote (c + d)
  .ok (t.rep.conv r)
def subAssign (t : DurTy) (c d : Int) : Except Err Int := do
  let r ← arith t.rep.promote (c - d)
  .ok (t.rep.conv r)
/-- `_rep *= rhs` -/
def mulAssign (t : DurTy) (c d : Int) : Except Err Int := do
  let r ← arith t.rep.promote (c * d)
  .ok (t.rep.conv r)
/-- `_rep /= rhs` -/
def divAssign (t : DurTy) (c d : Int) : Except Err Int := do
  let r ← cdiv t.rep.promote c d
  .ok (t.rep.conv r)
/-- `_rep %= rhs` (tick count or duration of the same type) -/
def modAssign (t : DurTy) (c d : Int) : Except Err Int := do
  let r ← cmod t.rep.promote c d
  .ok (t.rep.conv r)

/-! ### compound assignment with a duration of ANOTHER type

`x += d2`, `x -= d2`, `x %= d2` on `duration<Rep1, Period1> x` with `d2 : duration<Rep2, Period2>`: the parameter of the member
is `duration const&`, so the argument is first converted by the implicit converting constructor `duration(duration<Rep2,
Period2> const&)` (which takes part in overload resolution only when `ratio_divide<Period2, period>::den == 1`); the member
then works on the two counts in `Rep1`.  `operator+=` and `operator-=` of `time_point` take `duration const&` as well: the same conversion. -/

/-- static context: the converting constructor `D1(D2)` -/
def assign2Ctx (t frm : DurTy) : Except Err CastCtx := castCtx t frm

def addAssign2Core (k : CastCtx) (t : DurTy) (c d : Int) : Except Err Int := do
  let e ← convertCore k d
  let r ← arith t.rep.promote (c + e)
  .ok (t.rep.conv r)
def addAssign2 (t frm : DurTy) (c d : Int) : Except Err Int := do let k ← assign2Ctx t frm; addAssign2Core k t c d

def subAssign2Core (k : CastCtx) (t : DurTy) (c d : Int) : Except Err Int := do
  let e ← convertCore k d
  let r ← arith t.rep.promote (c - e)
  .ok (t.rep.conv r)
def subAssign2 (t frm : DurTy) (c d : Int) : Except Err Int := do let k ← assign2Ctx t frm; subAssign2Core k t c d

/-- `_rep %= rhs.count()` after the conversion of `rhs` -/
def modAssign2Core (k : CastCtx) (t : DurTy) (c d : Int) : Except Err Int := do
  let e ← convertCore k d
  let r ← cmod t.rep.promote c e
  .ok (t.rep.conv r)
def modAssign2 (t frm : DurTy) (c d : Int) : Except Err Int := do let k ← assign2Ctx t frm; modAssign2Core k t c d

/-- `time_point<Clock, D1>::operator+=(duration const&)` / `-=` called with a `duration<Rep2, Period2>`: `_d += d` / `_d -= d` -/
def tpAddAssign2 (t frm : DurTy) (c d : Int) : Except Err Int := addAssign2 t frm c d
def tpSubAssign2 (t frm : DurTy) (c d : Int) : Except Err Int := subAssign2 t frm c d

/-! ### time_point members, casts and comparisons: each forwards to the duration function on `time_since_epoch()`

A `time_point<Clock, Duration>` is modelled by the tick count of its `_d`; the functions below are the bodies of
time_point.hpp / time_point_cast.hpp / floor.hpp / ceil.hpp / round.hpp written with the duration functions of this model. -/

/-- `time_point_cast<To>(tp)`: `time_point_t(duration_cast<ToDuration>(tp.time_since_epoch()))` -/
def tpCast (to frm : DurTy) (c : Int) : Except Err Int := durationCast to frm c
/-- `floor<To>(tp)`: `time_point<Clock, To>(floor<To>(tp.time_since_epoch()))` -/
def tpFloor (to frm : DurTy) (c : Int) : Except Err Int := floorTo to frm c
/-- `ceil<To>(tp)`: `time_point<Clock, To>{ceil<To>(tp.time_since_epoch())}` -/
def tpCeil (to frm : DurTy) (c : Int) : Except Err Int := ceilTo to frm c
/-- `round<To>(tp)`: `time_point<Clock, To>{round<To>(tp.time_since_epoch())}` -/
def tpRound (to frm : DurTy) (c : Int) : Except Err Int := roundTo to frm c
/-- `time_point(time_point<clock, Dur2> const& t) : _d{t.time_since_epoch()}` (`requires is_convertible_v<Dur2, duration>`):
    the converting constructor of `duration` -/
def tpConvert (to frm : DurTy) (c : Int) : Except Err Int := convert to frm c
/-- `operator+=(duration const& d)`: `_d += d` -/
def tpAddAssign (t : DurTy) (c d : Int) : Except Err Int := addAssign t c d
/-- `operator-=(duration const& d)`: `_d -= d` -/
def tpSubAssign (t : DurTy) (c d : Int) : Except Err Int := subAssign t c d
/-- `operator++()` / `operator++(int)`: `++_d` / `time_point(_d++)` (the new value of `_d`) -/
def tpInc (t : DurTy) (c : Int) : Except Err Int := addAssign t c 1
/-- `operator--()` / `operator--(int)` -/
def tpDec (t : DurTy) (c : Int) : Except Err Int := subAssign t c 1
/-- `lhs.time_since_epoch() == rhs.time_since_epoch()` and the five others, each on the duration operator of the same name -/
def tpEq (a b : DurTy) (x y : Int) : Except Err Bool := eq a b x y
def tpNe (a b : DurTy) (x y : Int) : Except Err Bool := ne a b x y
def tpLt (a b : DurTy) (x y : Int) : Except Err Bool := lt a b x y
def tpLe (a b : DurTy) (x y : Int) : Except Err Bool := le a b x y
def tpGt (a b : DurTy) (x y : Int) : Except Err Bool := gt a b x y
def tpGe (a b : DurTy) (x y : Int) : Except Err Bool := ge a b x y

/-! ### `zero`, `min`, `max` (duration_values.hpp) -/

/-- `duration::zero()`: `duration(duration_values<rep>::zero())`, `Rep{}` -/
def durZero (t : DurTy) : Int := t.rep.conv 0
/-- `duration::min()`: `numeric_limits<Rep>::lowest()` -/
def durMin (t : DurTy) : Int := t.rep.min
/-- `duration::max()`: `numeric_limits<Rep>::max()` -/
def durMax (t : DurTy) : Int := t.rep.max
/-- `time_point::min()` / `max()`: `time_point(duration::min())` / `time_point(duration::max())` -/
def tpMin (t : DurTy) : Int := durMin t
def tpMax (t : DurTy) : Int := durMax t

/-! ### the named duration types of duration.hpp -/

/-- `nanoseconds … years`: representation (`int_least64_t` / `int_least32_t`) and the `ratio` template arguments as written -/
def namedTypes : List (ITy × Int × Int) :=
  [(⟨64, true⟩, 1, 1000000000), (⟨64, true⟩, 1, 1000000), (⟨64, true⟩, 1, 1000), (⟨64, true⟩, 1, 1),
   (⟨32, true⟩, 60, 1), (⟨32, true⟩, 3600, 1), (⟨32, true⟩, 86400, 1), (⟨32, true⟩, 604800, 1),
   (⟨32, true⟩, 2629746, 1), (⟨32, true⟩, 31556952, 1)]

end Tetl.C12
