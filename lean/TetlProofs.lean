import TetlProofs.AuditLib
