/-
C18 — property theorems, part 3: `div`/`ldiv`/`lldiv`/`imaxdiv` and `labs`/`llabs`.
-/
import TetlProofs.C18.Lemmas
namespace Tetl.C18.Props
open Tetl Tetl.C18

/-- `div`/`ldiv`/`lldiv`/`imaxdiv` on a `bits`-wide type: defined whenever C defines it (non-zero divisor,
    representable quotient), and then equal to the truncated quotient and its remainder -/
theorem div_eq (bits : Nat) (x y : Int) (hy : y ≠ 0) (hq : inRangeS bits (Int.tdiv x y) = true) :
    div bits x y = .ok (Spec.divQuot x y, Spec.divRem x y) := by
  unfold div
  rw [if_neg hy, hq]
  simp only [Bool.not_true, Bool.false_eq_true, if_false, divRem_eq_tmod, ← tdiv_eq_divQuot]

/-- the specified pair is the one ISO C 7.22.6.2 asks for: `quot * y + rem = x`, `|rem| < |y|`, and the
    remainder has the sign of the dividend (truncation toward zero) -/
theorem div_law (x y : Int) (hy : y ≠ 0) :
    Spec.divQuot x y * y + Spec.divRem x y = x ∧ (Spec.divRem x y).natAbs < y.natAbs ∧
      (0 ≤ x → 0 ≤ Spec.divRem x y) ∧ (x ≤ 0 → Spec.divRem x y ≤ 0) := by
  refine ⟨by rw [Spec.divRem]; omega, ?_, ?_, ?_⟩
  · rw [divRem_eq_tmod, Int.natAbs_tmod]
    exact Nat.mod_lt _ (by omega)
  · intro h; rw [divRem_eq_tmod]; exact Int.tmod_nonneg y h
  · intro h
    rw [divRem_eq_tmod]
    have := Int.tmod_nonneg y (show 0 ≤ -x by omega)
    rw [Int.neg_tmod] at this
    omega

/-- `labs`/`llabs`: defined for every argument whose negation is representable -/
theorem abs_eq (bits : Nat) (n : Int) (hn : 0 ≤ n ∨ inRangeS bits (-n) = true) :
    absImpl bits n = .ok (Spec.abs n) := by
  unfold absImpl Spec.abs
  by_cases h : n ≥ 0
  · rw [if_pos h]; congr 1; omega
  · rw [if_neg h]
    have : inRangeS bits (n * -1) = true := by
      rcases hn with hn | hn
      · omega
      · simpa using hn
    rw [this]
    simp only [Bool.not_true, Bool.false_eq_true, if_false]
    congr 1; omega

/-- non-vacuity (test on a sample): the hypotheses of `div_eq` / `abs_eq` hold for ordinary operands -/
example : ((2 : Int) ≠ 0) ∧ inRangeS 32 (Int.tdiv (-7) 2) = true ∧ div 32 (-7) 2 = .ok (-3, -1) :=
  ⟨by decide, by decide, div_eq 32 (-7) 2 (by decide) (by decide)⟩
example : inRangeS 64 (-(-5 : Int)) = true ∧ absImpl 64 (-5) = .ok 5 := ⟨by decide, abs_eq 64 (-5) (Or.inr (by decide))⟩

end Tetl.C18.Props
