/-
C18 — property theorems, part 4: the footprint clause ("touching nothing outside the source string /
count and the destination extent C defines").

All reads and writes of the model are checked (`rd` / `wr` fail outside the allocation) and no model
function can recover from a failed access.  So "the function touches only X" is stated as: on the
allocation that consists of X and nothing else — nothing before the pointer, nothing after the last
unit (`Spec.exactStr`: the string with its terminator; `Spec.exactN`: the `n` units or the units up
to and including a zero; `Spec.exactArr`: exactly `n` units) — the call still succeeds, and returns
what ISO C prescribes for the call on the ORIGINAL allocation.  For the writers the destination is
cut down to exactly the extent C defines and the result is the complete new content of that extent
(the `w` of `Spec.splice dst d w` in `Props.lean`).  These are the allocations the harness passes.
Pointer results are offsets from the pointer argument (which is index 0 here).
-/
import TetlProofs.C18.Props
import TetlProofs.C18.LemmasFootprint
namespace Tetl.C18.Props
open Tetl Tetl.C18

/-! ## readers of one string -/

theorem strlen_footprint_exact (b : Buf) (p : Nat) (h : Spec.Terminated b p) :
    strlen (Spec.exactStr b p) 0 = .ok (Spec.strlen b p) := by
  rw [strlen_eq _ 0 (terminated_exactStr h), strlen_exactStr]

theorem strchr_footprint (ct : CT) (b : Buf) (p : Nat) (ch : Int) (h : Spec.Terminated b p) :
    strchr ct (Spec.exactStr b p) 0 ch = .ok (Spec.strchr b p (Spec.toUnit ct.bits ch)) := by
  rw [strchr_eq ct _ 0 ch (terminated_exactStr h), map_zero_add]
  simp only [Spec.strchr, cstr_exactStr]

theorem strrchr_footprint (ct : CT) (b : Buf) (p : Nat) (ch : Int) (h : Spec.Terminated b p) :
    strrchr ct (Spec.exactStr b p) 0 ch = .ok (Spec.strrchr b p (Spec.toUnit ct.bits ch)) := by
  rw [strrchr_eq ct _ 0 ch (terminated_exactStr h), map_zero_add]
  simp only [Spec.strrchr, cstr_exactStr]

/-! ## readers of two strings -/

theorem strcmp_footprint (ct : CT) (hb : 0 < ct.bits) (a : Buf) (i : Nat) (b : Buf) (j : Nat) (ha : Spec.Terminated a i)
    (hbt : Spec.Terminated b j) (hua : Spec.Units ct.bits a) (hub : Spec.Units ct.bits b) :
    strcmp ct (Spec.exactStr a i) 0 (Spec.exactStr b j) 0 = .ok (Spec.strcmp (Spec.key ct.bits ct.signedCmp) a i b j) := by
  rw [strcmp_eq ct hb _ 0 _ 0 (terminated_exactStr ha) (terminated_exactStr hbt) (units_exactStr hua i) (units_exactStr hub j)]
  simp only [Spec.strcmp, upto0_drop_exactStr]

theorem strspn_footprint (b : Buf) (p : Nat) (t : Buf) (q : Nat) (hb : Spec.Terminated b p) (ht : Spec.Terminated t q) :
    strspn true (Spec.exactStr b p) 0 (Spec.exactStr t q) 0 = .ok (Spec.strspn b p t q) := by
  rw [strspn_eq _ 0 _ 0 (terminated_exactStr hb) (terminated_exactStr ht)]
  simp only [Spec.strspn, cstr_exactStr]

theorem strcspn_footprint (b : Buf) (p : Nat) (t : Buf) (q : Nat) (hb : Spec.Terminated b p) (ht : Spec.Terminated t q) :
    strspn false (Spec.exactStr b p) 0 (Spec.exactStr t q) 0 = .ok (Spec.strcspn b p t q) := by
  rw [strcspn_eq _ 0 _ 0 (terminated_exactStr hb) (terminated_exactStr ht)]
  simp only [Spec.strcspn, cstr_exactStr]

theorem strpbrk_footprint (b : Buf) (p : Nat) (t : Buf) (q : Nat) (hb : Spec.Terminated b p) (ht : Spec.Terminated t q) :
    strpbrk (Spec.exactStr b p) 0 (Spec.exactStr t q) 0 = .ok (Spec.strpbrk b p t q) := by
  rw [strpbrk_eq _ 0 _ 0 (terminated_exactStr hb) (terminated_exactStr ht), map_zero_add]
  simp only [Spec.strpbrk, cstr_exactStr]

theorem strstr_footprint (h : Buf) (p : Nat) (n : Buf) (q : Nat) (hh : Spec.Terminated h p) (hn : Spec.Terminated n q) :
    strstr (Spec.exactStr h p) 0 (Spec.exactStr n q) 0 = .ok (Spec.strstr h p n q) := by
  rw [strstr_eq _ 0 _ 0 (terminated_exactStr hh) (terminated_exactStr hn), map_zero_add]
  simp only [Spec.strstr, cstr_exactStr]

/-! ## readers of counted arrays -/

theorem strncmp_footprint (ct : CT) (hb : 0 < ct.bits) (a : Buf) (i : Nat) (b : Buf) (j n : Nat) (ha : Spec.ReadableN a i n)
    (hbt : Spec.ReadableN b j n) (hua : Spec.Units ct.bits a) (hub : Spec.Units ct.bits b) :
    strncmp ct (Spec.exactN a i n) 0 (Spec.exactN b j n) 0 n =
      .ok (Spec.strncmp (Spec.key ct.bits ct.signedCmp) a i b j n) := by
  rw [strncmp_eq ct hb _ 0 _ 0 n (readableN_exactN ha) (readableN_exactN hbt) (units_exactN hua i n) (units_exactN hub j n)]
  simp only [Spec.strncmp, upto0_take_exactN]

theorem memcmp_footprint (ct : CT) (hb : 0 < ct.bits) (a : Buf) (i : Nat) (b : Buf) (j n : Nat) (ha : i + n ≤ a.length)
    (hbt : j + n ≤ b.length) (hua : Spec.Units ct.bits a) (hub : Spec.Units ct.bits b) :
    memcmp ct (Spec.exactArr a i n) 0 (Spec.exactArr b j n) 0 n =
      .ok (Spec.memcmp (Spec.key ct.bits ct.signedCmp) a i b j n) := by
  rw [memcmp_eq ct hb _ 0 _ 0 n (by rw [length_exactArr ha]; omega) (by rw [length_exactArr hbt]; omega)
    (units_exactArr hua i n) (units_exactArr hub j n)]
  simp only [Spec.memcmp, take_exactArr]

/-- `memchr` on the first `n` units only (or on all units of the allocation from `p`, when the count reaches
    beyond the allocation and the unit is found before its end) -/
theorem memchr_footprint (ct : CT) (b : Buf) (p : Nat) (ch : Int) (n : Nat)
    (h : p + n ≤ b.length ∨ Spec.toUnit ct.bits ch ∈ b.drop p) :
    memchr ct (Spec.exactArr b p n) 0 ch n = .ok (Spec.memchr b p (Spec.toUnit ct.bits ch) n) := by
  rw [memchr_eq ct _ 0 ch n (by
    by_cases hn : p + n ≤ b.length
    · left; rw [length_exactArr hn]; omega
    · right
      rcases h with h | h
      · exact absurd h hn
      · simpa [Spec.exactArr, List.take_of_length_le (show (b.drop p).length ≤ n by simp; omega)] using h), map_zero_add]
  simp only [Spec.memchr, take_exactArr]

/-! ## writers: the destination is cut down to exactly the extent C defines -/

theorem strcpy_footprint (dst : Buf) (d : Nat) (src : Buf) (s : Nat) (hs : Spec.Terminated src s)
    (hroom : d + (Spec.strlen src s + 1) ≤ dst.length) :
    strcpy (Spec.exactArr dst d (Spec.strlen src s + 1)) 0 (Spec.exactStr src s) 0 = .ok (0, Spec.cstr src s ++ [0]) := by
  have hl := length_exactArr hroom
  rw [strcpy_eq _ 0 _ 0 (terminated_exactStr hs) (by rw [strlen_exactStr, hl]; omega)]
  simp only [Spec.strcpy, cstr_exactStr]
  rw [splice_exact _ _ (by rw [hl]; simp [Spec.strlen])]

theorem strncpy_footprint (dst : Buf) (d : Nat) (src : Buf) (s n : Nat) (hs : Spec.ReadableN src s n)
    (hroom : d + n ≤ dst.length) :
    strncpy (Spec.exactArr dst d n) 0 (Spec.exactN src s n) 0 n =
      .ok (0, Spec.cstrN src s n ++ List.replicate (n - (Spec.cstrN src s n).length) 0) := by
  have hl := length_exactArr hroom
  have hle := length_cstrN_le src s n
  rw [strncpy_eq _ 0 _ 0 n (readableN_exactN hs) (by rw [hl]; omega)]
  simp only [Spec.strncpy, cstrN_exactN]
  rw [splice_exact _ _ (by simp [hl]; omega)]

theorem strcat_footprint (dst : Buf) (d : Nat) (src : Buf) (s : Nat) (hd : Spec.Terminated dst d) (hs : Spec.Terminated src s)
    (hroom : d + Spec.strlen dst d + (Spec.strlen src s + 1) ≤ dst.length) :
    strcat (Spec.exactArr dst d (Spec.strlen dst d + (Spec.strlen src s + 1))) 0 (Spec.exactStr src s) 0 =
      .ok (0, Spec.cstr dst d ++ (Spec.cstr src s ++ [0])) := by
  obtain ⟨ht, hc⟩ := exactArr_string (k := Spec.strlen dst d + (Spec.strlen src s + 1)) hd (by omega)
  have hl := length_exactArr (b := dst) (p := d) (n := Spec.strlen dst d + (Spec.strlen src s + 1)) (by omega)
  have hsl : Spec.strlen (Spec.exactArr dst d (Spec.strlen dst d + (Spec.strlen src s + 1))) 0 = Spec.strlen dst d := by
    exact congrArg List.length hc
  rw [strcat_eq _ 0 _ 0 ht (terminated_exactStr hs) (by rw [hsl, strlen_exactStr, hl]; omega)]
  simp only [Spec.strcat, cstr_exactStr, hsl, Nat.zero_add]
  have hw : Spec.strlen src s + 1 = (Spec.cstr src s ++ [0]).length := by simp [Spec.strlen]
  rw [hw, splice_append_exact _ (by rw [← hw]; omega)]

theorem strncat_footprint (dst : Buf) (d : Nat) (src : Buf) (s n : Nat) (hd : Spec.Terminated dst d) (hs : Spec.ReadableN src s n)
    (hroom : d + Spec.strlen dst d + ((Spec.cstrN src s n).length + 1) ≤ dst.length) :
    strncat (Spec.exactArr dst d (Spec.strlen dst d + ((Spec.cstrN src s n).length + 1))) 0 (Spec.exactN src s n) 0 n =
      .ok (0, Spec.cstr dst d ++ (Spec.cstrN src s n ++ [0])) := by
  obtain ⟨ht, hc⟩ := exactArr_string (k := Spec.strlen dst d + ((Spec.cstrN src s n).length + 1)) hd (by omega)
  have hl := length_exactArr (b := dst) (p := d) (n := Spec.strlen dst d + ((Spec.cstrN src s n).length + 1)) (by omega)
  have hsl : Spec.strlen (Spec.exactArr dst d (Spec.strlen dst d + ((Spec.cstrN src s n).length + 1))) 0 = Spec.strlen dst d := by
    exact congrArg List.length hc
  rw [strncat_eq _ 0 _ 0 n ht (readableN_exactN hs) (by rw [hsl, cstrN_exactN, hl]; omega)]
  simp only [Spec.strncat, cstrN_exactN, hsl, Nat.zero_add]
  have hw : (Spec.cstrN src s n).length + 1 = (Spec.cstrN src s n ++ [0]).length := by simp
  rw [hw, splice_append_exact _ (by rw [← hw]; omega)]

theorem memcpy_footprint (dst : Buf) (d : Nat) (src : Buf) (s n : Nat) (hs : s + n ≤ src.length) (hroom : d + n ≤ dst.length) :
    memcpy (Spec.exactArr dst d n) 0 (Spec.exactArr src s n) 0 n = .ok (0, (src.drop s).take n) := by
  have hl := length_exactArr hroom
  rw [memcpy_eq _ 0 _ 0 n (by rw [length_exactArr hs]; omega) (by rw [hl]; omega)]
  simp only [Spec.memcpy, take_exactArr]
  rw [splice_exact _ _ (by simp [hl]; omega)]

theorem memset_footprint (ct : CT) (dst : Buf) (d : Nat) (ch : Int) (n : Nat) (hroom : d + n ≤ dst.length) :
    memset ct (Spec.exactArr dst d n) 0 ch n = .ok (0, List.replicate n (Spec.toUnit ct.bits ch)) := by
  have hl := length_exactArr hroom
  rw [memset_eq ct _ 0 ch n (by rw [hl]; omega)]
  simp only [Spec.memset]
  rw [splice_exact _ _ (by simp [hl])]

/-- `memmove` inside one allocation: on the window that holds just the two extents (from the lower of the two
    pointers to the end of the higher extent) the call succeeds and leaves in it what ISO C prescribes for the
    original allocation -/
theorem memmove_footprint (b : Buf) (d s n : Nat) (hs : s + n ≤ b.length) (hd : d + n ≤ b.length) :
    memmove (Spec.exactArr b (min d s) (max d s + n - min d s)) (d - min d s) (s - min d s) n =
      .ok (d - min d s, Spec.exactArr (Spec.memmove b d s n) (min d s) (max d s + n - min d s)) := by
  generalize hm : min d s = m
  generalize hk : max d s + n - m = k
  have hl : (Spec.exactArr b m k).length = k := length_exactArr (by omega)
  rw [memmove_eq _ _ _ n (by rw [hl]; omega) (by rw [hl]; omega)]
  unfold Spec.memmove Spec.exactArr
  have h1 : m + (s - m) = s := by omega
  have h2 : min n (k - (s - m)) = n := by omega
  have e : (((b.drop m).take k).drop (s - m)).take n = (b.drop s).take n := by
    rw [List.drop_take, List.drop_drop, List.take_take, h1, h2]
  rw [e, splice_window b m k d _ (by omega) (by simp; omega) (by omega)]

/-! ## non-vacuity (tests on samples) -/

example : Spec.exactStr [98, 97, 98, 0, 7, 7] 1 = [97, 98, 0] ∧ Spec.exactN [97, 98, 99, 0] 0 2 = [97, 98] ∧
    Spec.exactN [97, 0, 99, 0] 0 3 = [97, 0] ∧ Spec.exactArr [1, 2, 3, 4, 5] 1 3 = [2, 3, 4] := by decide
example : strrchr CT.char [97, 98, 97, 0] 0 97 = .ok (some 2) :=
  strrchr_footprint CT.char [7, 97, 98, 97, 0, 7] 1 97 (by decide)
example : memmove [2, 3, 4, 5] 1 0 3 = .ok (1, [2, 2, 3, 4]) := memmove_footprint [1, 2, 3, 4, 5, 6] 2 1 3 (by decide) (by decide)
example : strcat [97, 0, 239] 0 [98, 0] 0 = .ok (0, [97, 98, 0]) :=
  strcat_footprint [238, 97, 0, 239, 238] 1 [98, 0] 0 (by decide) (by decide) (by decide)

end Tetl.C18.Props
