/-
C18 — helper lemmas for the character-class theorems: finite-domain transfer and "not in an ASCII table".
-/
import Tetl.C18.Model
import Tetl.C18.Spec
namespace Tetl.C18
open Tetl

/-! ### finite-domain transfer for cctype / cwctype -/

/-- a Boolean statement that evaluates to `true` at every point of `-1, 0, …, 255` holds for every
    `Int` in `[-1, 255]` -/
theorem forall_ctype_range {p : Int → Bool} (h : (List.range 257).all (fun n => p ((n : Int) - 1)) = true) :
    ∀ c : Int, -1 ≤ c → c ≤ 255 → p c = true := by
  intro c h1 h2
  rw [List.all_eq_true] at h
  have := h (c + 1).toNat (by simp; omega)
  have e : (((c + 1).toNat : Nat) : Int) - 1 = c := by omega
  rwa [e] at this

theorem forall_lt_of_all {p : Nat → Bool} (N : Nat) (h : (List.range N).all p = true) :
    ∀ c, c < N → p c = true := by
  intro c hc
  rw [List.all_eq_true] at h
  exact h c (by simpa using hc)

theorem contains_high (t : List Nat) (ht : t.all (· < 128) = true) (c : Nat) (hc : 128 ≤ c) :
    t.contains c = false := by
  rw [List.all_eq_true] at ht
  cases h : t.contains c with
  | false => rfl
  | true =>
    have hm : c ∈ t := by simpa using h
    have := ht c hm
    simp at this; omega

theorem mapTbl_high (src dst : List Nat) (ht : src.all (· < 128) = true) (c : Nat) (hc : 128 ≤ c) :
    Spec.mapTbl src dst c = c := by
  rw [List.all_eq_true] at ht
  have : (src.zip dst).find? (fun pr => pr.1 == c) = none := by
    rw [List.find?_eq_none]
    intro pr hpr
    have h1 := ht pr.1 (List.of_mem_zip hpr).1
    simp at h1 ⊢; omega
  simp [Spec.mapTbl, this]

end Tetl.C18
