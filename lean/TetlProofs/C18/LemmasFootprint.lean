/-
C18 — helper lemmas for the footprint theorems (`PropsFootprint.lean`): `Spec.upto0`, the exact
allocations `Spec.exactStr` / `Spec.exactN` / `Spec.exactArr`, and the preconditions / spec values
on them.
-/
import TetlProofs.C18.Lemmas
namespace Tetl.C18
open Tetl

/-! ### `upto0` -/

theorem takeWhile_upto0 : ∀ l : List Nat, (Spec.upto0 l).takeWhile (· ≠ 0) = l.takeWhile (· ≠ 0)
  | [] => rfl
  | x :: l => by
    by_cases hx : x = 0
    · simp [Spec.upto0, hx]
    · simpa [Spec.upto0, hx] using takeWhile_upto0 l

theorem upto0_idem : ∀ l : List Nat, Spec.upto0 (Spec.upto0 l) = Spec.upto0 l
  | [] => rfl
  | x :: l => by
    by_cases hx : x = 0
    · simp [Spec.upto0, hx]
    · simp [Spec.upto0, hx, upto0_idem l]

theorem mem_upto0_zero : ∀ {l : List Nat}, 0 ∈ l → 0 ∈ Spec.upto0 l
  | [], h => by simp at h
  | x :: l, h => by
    by_cases hx : x = 0
    · simp [Spec.upto0, hx]
    · simp [Spec.upto0, hx, mem_upto0_zero (mem_tail_of_ne h hx)]

theorem length_upto0_le : ∀ l : List Nat, (Spec.upto0 l).length ≤ l.length
  | [] => by simp [Spec.upto0]
  | x :: l => by
    by_cases hx : x = 0
    · simp [Spec.upto0, hx]
    · simp [Spec.upto0, hx, length_upto0_le l]

theorem upto0_of_not_mem : ∀ {l : List Nat}, 0 ∉ l → Spec.upto0 l = l
  | [], _ => rfl
  | x :: l, h => by
    have hx : ¬ x = 0 := fun e => h (by simp [e])
    have hl : 0 ∉ l := fun e => h (List.mem_cons_of_mem _ e)
    simp [Spec.upto0, hx, upto0_of_not_mem hl]

theorem map_zero_add (o : Option Nat) : o.map (0 + ·) = o := by cases o <;> simp

/-! ### the exact string -/

theorem cstr_exactStr (b : Buf) (p : Nat) : Spec.cstr (Spec.exactStr b p) 0 = Spec.cstr b p := by
  unfold Spec.cstr Spec.exactStr
  rw [List.drop_zero, takeWhile_upto0]

theorem strlen_exactStr (b : Buf) (p : Nat) : Spec.strlen (Spec.exactStr b p) 0 = Spec.strlen b p := by
  simp [Spec.strlen, cstr_exactStr]

theorem terminated_exactStr {b : Buf} {p : Nat} (h : Spec.Terminated b p) : Spec.Terminated (Spec.exactStr b p) 0 := by
  unfold Spec.Terminated Spec.exactStr at *
  simpa using mem_upto0_zero h

/-- with a terminator inside the allocation the exact string is "the string, then the terminator" -/
theorem exactStr_eq : ∀ {l : List Nat}, 0 ∈ l → Spec.upto0 l = l.takeWhile (· ≠ 0) ++ [0]
  | [], h => by simp at h
  | x :: l, h => by
    by_cases hx : x = 0
    · simp [Spec.upto0, hx]
    · simp [Spec.upto0, hx, exactStr_eq (mem_tail_of_ne h hx)]

theorem upto0_drop_exactStr (b : Buf) (p : Nat) : Spec.upto0 ((Spec.exactStr b p).drop 0) = Spec.upto0 (b.drop p) := by
  simp [Spec.exactStr, upto0_idem]

theorem units_exactStr {bits : Nat} {b : Buf} (h : Spec.Units bits b) (p : Nat) : Spec.Units bits (Spec.exactStr b p) :=
  fun x hx => h x (List.mem_of_mem_drop (mem_of_mem_upto0 hx))

/-! ### the exact `n`-array -/

theorem take_exactN (b : Buf) (p n : Nat) : (Spec.exactN b p n).take n = Spec.exactN b p n := by
  apply List.take_of_length_le
  unfold Spec.exactN
  exact Nat.le_trans (length_upto0_le _) (by simp; omega)

theorem cstrN_exactN (b : Buf) (p n : Nat) : Spec.cstrN (Spec.exactN b p n) 0 n = Spec.cstrN b p n := by
  unfold Spec.cstrN
  rw [List.drop_zero, take_exactN]
  unfold Spec.exactN
  rw [takeWhile_upto0]

theorem upto0_take_exactN (b : Buf) (p n : Nat) :
    Spec.upto0 (((Spec.exactN b p n).drop 0).take n) = Spec.upto0 ((b.drop p).take n) := by
  rw [List.drop_zero, take_exactN]
  unfold Spec.exactN
  rw [upto0_idem]

theorem readableN_exactN {b : Buf} {p n : Nat} (h : Spec.ReadableN b p n) : Spec.ReadableN (Spec.exactN b p n) 0 n := by
  unfold Spec.ReadableN Spec.Terminated Spec.exactN at *
  by_cases h0 : 0 ∈ (b.drop p).take n
  · right; simpa using mem_upto0_zero h0
  · left
    rw [upto0_of_not_mem h0]
    simp only [List.length_take, List.length_drop, Nat.zero_add]
    rcases h with h | h
    · omega
    · by_cases hn : n ≤ b.length - p
      · omega
      · exfalso; apply h0
        rw [List.take_of_length_le (by simp; omega)]
        exact h

theorem units_exactN {bits : Nat} {b : Buf} (h : Spec.Units bits b) (p n : Nat) : Spec.Units bits (Spec.exactN b p n) :=
  fun x hx => h x (List.mem_of_mem_drop (List.mem_of_mem_take (mem_of_mem_upto0 hx)))

/-! ### exactly `n` units -/

theorem length_exactArr {b : Buf} {p n : Nat} (h : p + n ≤ b.length) : (Spec.exactArr b p n).length = n := by
  simp [Spec.exactArr]; omega

theorem take_exactArr (b : Buf) (p n : Nat) : ((Spec.exactArr b p n).drop 0).take n = (b.drop p).take n := by
  simp [Spec.exactArr, List.take_take]

theorem units_exactArr {bits : Nat} {b : Buf} (h : Spec.Units bits b) (p n : Nat) : Spec.Units bits (Spec.exactArr b p n) :=
  fun x hx => h x (List.mem_of_mem_drop (List.mem_of_mem_take hx))

/-- a write of exactly `|E|` units at offset 0 replaces the whole allocation -/
theorem splice_exact (E w : Buf) (h : E.length = w.length) : Spec.splice E 0 w = w := by
  simp [Spec.splice, ← h]

/-- a destination extent that holds the destination string and its terminator -/
theorem exactArr_string {dst : Buf} {d k : Nat} (hd : Spec.Terminated dst d) (hk : Spec.strlen dst d + 1 ≤ k) :
    Spec.Terminated (Spec.exactArr dst d k) 0 ∧ Spec.cstr (Spec.exactArr dst d k) 0 = Spec.cstr dst d := by
  obtain ⟨h1, h2⟩ := takeWhile_take_of_mem (dst.drop d) k hd hk
  exact ⟨by simpa [Spec.Terminated, Spec.exactArr] using h2, by simpa [Spec.cstr, Spec.exactArr] using h1⟩

/-- appending `w` right after the string of an extent that has exactly the room for it -/
theorem splice_append_exact {dst : Buf} {d : Nat} (w : Buf) (_hroom : d + (Spec.strlen dst d + w.length) ≤ dst.length) :
    Spec.splice (Spec.exactArr dst d (Spec.strlen dst d + w.length)) (Spec.strlen dst d) w = Spec.cstr dst d ++ w := by
  unfold Spec.splice Spec.exactArr
  rw [List.take_take, Nat.min_eq_left (by omega), take_strlen_eq_cstr, List.drop_of_length_le (by simp; omega)]
  simp

/-! ### the window of `memmove` -/

/-- replacing an extent that lies inside the window `[m, m + k)` commutes with cutting the window out -/
theorem splice_window (b : Buf) (m k d : Nat) (w : Buf) (hmd : m ≤ d) (hdk : d + w.length ≤ m + k) (hb : m + k ≤ b.length) :
    Spec.splice ((b.drop m).take k) (d - m) w = ((Spec.splice b d w).drop m).take k := by
  obtain ⟨P, W, Q, rfl, hP, hW⟩ := exists_decomp b m k hb
  obtain ⟨A, M, B, rfl, hA, hM⟩ := exists_decomp W (d - m) w.length (by omega)
  have e1 : ((P ++ (A ++ (M ++ B) ++ Q)).drop m).take k = A ++ (M ++ B) := by
    rw [List.drop_left' hP, List.take_left' hW]
  have e2 : P ++ (A ++ (M ++ B) ++ Q) = (P ++ A) ++ (M ++ (B ++ Q)) := by simp [List.append_assoc]
  have hPA : (P ++ A).length = d := by simp; omega
  rw [e1, ← hA, splice_zip A M B w hM, e2]
  have e3 : Spec.splice ((P ++ A) ++ (M ++ (B ++ Q))) d w = (P ++ A) ++ (w ++ (B ++ Q)) := by
    rw [← hPA]; exact splice_zip (P ++ A) M (B ++ Q) w hM
  rw [e3, List.append_assoc, List.drop_left' hP]
  have e4 : A ++ (w ++ (B ++ Q)) = (A ++ (w ++ B)) ++ Q := by simp
  rw [e4, List.take_left' (by simp at hW ⊢; omega)]

end Tetl.C18
