/-
C18 — tie T for <cctype>: theorems about the model GENERATED from the current headers
(`Tetl/C18/Gen.lean`, rewritten by gen/translate.py on every run of the C18 check).
Each predicate has the truth value of the "C"-locale table, each conversion its value, on the complete
argument range [-1, 255] (kernel `decide` over all 257 arguments: a finite complete domain), and no
generated undefined-behaviour obligation (signed overflow in `ch - 32` / `ch + 32`) fails there.
-/
import Tetl.C18.Gen
import TetlProofs.C18.LemmasCtype
namespace Tetl.C18.PropsGen
open Tetl Tetl.C18
set_option linter.unusedSimpArgs false

macro "ctype_pred " g:ident s:ident : term =>
  `(fun c => (($g c != 0) == $s c))

theorem gen_isalnum_eq (c : Int) (h1 : -1 ≤ c) (h2 : c ≤ 255) : (Gen.isalnum c != 0) = Spec.isalnum c := by
  have := forall_ctype_range (p := fun c => (Gen.isalnum c != 0) == Spec.isalnum c) (by decide +kernel) c h1 h2
  simpa using this
theorem gen_isalpha_eq (c : Int) (h1 : -1 ≤ c) (h2 : c ≤ 255) : (Gen.isalpha c != 0) = Spec.isalpha c := by
  have := forall_ctype_range (p := fun c => (Gen.isalpha c != 0) == Spec.isalpha c) (by decide +kernel) c h1 h2
  simpa using this
theorem gen_isblank_eq (c : Int) (h1 : -1 ≤ c) (h2 : c ≤ 255) : (Gen.isblank c != 0) = Spec.isblank c := by
  have := forall_ctype_range (p := fun c => (Gen.isblank c != 0) == Spec.isblank c) (by decide +kernel) c h1 h2
  simpa using this
theorem gen_iscntrl_eq (c : Int) (h1 : -1 ≤ c) (h2 : c ≤ 255) : (Gen.iscntrl c != 0) = Spec.iscntrl c := by
  have := forall_ctype_range (p := fun c => (Gen.iscntrl c != 0) == Spec.iscntrl c) (by decide +kernel) c h1 h2
  simpa using this
theorem gen_isdigit_eq (c : Int) (h1 : -1 ≤ c) (h2 : c ≤ 255) : (Gen.isdigit c != 0) = Spec.isdigit c := by
  have := forall_ctype_range (p := fun c => (Gen.isdigit c != 0) == Spec.isdigit c) (by decide +kernel) c h1 h2
  simpa using this
theorem gen_isgraph_eq (c : Int) (h1 : -1 ≤ c) (h2 : c ≤ 255) : (Gen.isgraph c != 0) = Spec.isgraph c := by
  have := forall_ctype_range (p := fun c => (Gen.isgraph c != 0) == Spec.isgraph c) (by decide +kernel) c h1 h2
  simpa using this
theorem gen_islower_eq (c : Int) (h1 : -1 ≤ c) (h2 : c ≤ 255) : (Gen.islower c != 0) = Spec.islower c := by
  have := forall_ctype_range (p := fun c => (Gen.islower c != 0) == Spec.islower c) (by decide +kernel) c h1 h2
  simpa using this
theorem gen_isprint_eq (c : Int) (h1 : -1 ≤ c) (h2 : c ≤ 255) : (Gen.isprint c != 0) = Spec.isprint c := by
  have := forall_ctype_range (p := fun c => (Gen.isprint c != 0) == Spec.isprint c) (by decide +kernel) c h1 h2
  simpa using this
theorem gen_ispunct_eq (c : Int) (h1 : -1 ≤ c) (h2 : c ≤ 255) : (Gen.ispunct c != 0) = Spec.ispunct c := by
  have := forall_ctype_range (p := fun c => (Gen.ispunct c != 0) == Spec.ispunct c) (by decide +kernel) c h1 h2
  simpa using this
theorem gen_isspace_eq (c : Int) (h1 : -1 ≤ c) (h2 : c ≤ 255) : (Gen.isspace c != 0) = Spec.isspace c := by
  have := forall_ctype_range (p := fun c => (Gen.isspace c != 0) == Spec.isspace c) (by decide +kernel) c h1 h2
  simpa using this
theorem gen_isupper_eq (c : Int) (h1 : -1 ≤ c) (h2 : c ≤ 255) : (Gen.isupper c != 0) = Spec.isupper c := by
  have := forall_ctype_range (p := fun c => (Gen.isupper c != 0) == Spec.isupper c) (by decide +kernel) c h1 h2
  simpa using this
theorem gen_isxdigit_eq (c : Int) (h1 : -1 ≤ c) (h2 : c ≤ 255) : (Gen.isxdigit c != 0) = Spec.isxdigit c := by
  have := forall_ctype_range (p := fun c => (Gen.isxdigit c != 0) == Spec.isxdigit c) (by decide +kernel) c h1 h2
  simpa using this
theorem gen_tolower_eq (c : Int) (h1 : -1 ≤ c) (h2 : c ≤ 255) : Gen.tolower c = Spec.tolower c := by
  have := forall_ctype_range (p := fun c => Gen.tolower c == Spec.tolower c) (by decide +kernel) c h1 h2
  simpa using this
theorem gen_toupper_eq (c : Int) (h1 : -1 ≤ c) (h2 : c ≤ 255) : Gen.toupper c = Spec.toupper c := by
  have := forall_ctype_range (p := fun c => Gen.toupper c == Spec.toupper c) (by decide +kernel) c h1 h2
  simpa using this

/-- none of the generated undefined-behaviour obligations fails on the argument range -/
theorem gen_no_ub (c : Int) (h1 : -1 ≤ c) (h2 : c ≤ 255) :
    (Gen.isalnum_ub c && Gen.isalpha_ub c && Gen.isblank_ub c && Gen.iscntrl_ub c && Gen.isdigit_ub c && Gen.isgraph_ub c &&
     Gen.islower_ub c && Gen.isprint_ub c && Gen.ispunct_ub c && Gen.isspace_ub c && Gen.isupper_ub c && Gen.isxdigit_ub c &&
     Gen.tolower_ub c && Gen.toupper_ub c) = true := by
  exact forall_ctype_range (p := fun c =>
    (Gen.isalnum_ub c && Gen.isalpha_ub c && Gen.isblank_ub c && Gen.iscntrl_ub c && Gen.isdigit_ub c && Gen.isgraph_ub c &&
     Gen.islower_ub c && Gen.isprint_ub c && Gen.ispunct_ub c && Gen.isspace_ub c && Gen.isupper_ub c && Gen.isxdigit_ub c &&
     Gen.tolower_ub c && Gen.toupper_ub c)) (by decide +kernel) c h1 h2

end Tetl.C18.PropsGen
