/-
C18 — helper lemmas: the `Except` monad, checked reads/writes on a suffix (`b.drop i = x :: l`) and
on a zipper (`A ++ y :: B`), splitting a destination into prefix / extent / rest, and one lemma per
loop of the model.  Property theorems are in `Props.lean`.
-/
import Tetl.C18.Model
import Tetl.C18.Spec
namespace Tetl.C18
open Tetl

@[simp] theorem ok_bind {ε α β} (a : α) (f : α → Except ε β) : (Except.ok a >>= f) = f a := rfl
@[simp] theorem error_bind {ε α β} (e : ε) (f : α → Except ε β) : (Except.error e >>= f) = Except.error e := rfl
@[simp] theorem pure_eq_ok {ε α} (a : α) : (pure a : Except ε α) = Except.ok a := rfl

/-! ### checked reads and writes -/

theorem rd_of_drop_cons {α} {b : List α} {i : Nat} {x : α} {l : List α} (h : b.drop i = x :: l) : rd b i = .ok x := by
  have hi : i < b.length := by
    by_cases hi : i < b.length
    · exact hi
    · rw [List.drop_eq_nil_of_le (by omega)] at h; cases h
  rw [List.drop_eq_getElem_cons hi] at h
  injection h with h1 _
  simp [rd, hi, h1]

theorem drop_succ_of_drop_cons {α} {b : List α} {i : Nat} {x : α} {l : List α} (h : b.drop i = x :: l) :
    b.drop (i + 1) = l := by
  have : b.drop (i + 1) = (b.drop i).drop 1 := by rw [List.drop_drop]
  rw [this, h]; rfl

theorem rd_of_drop_nil {α} {b : List α} {i : Nat} (h : b.drop i = []) : rd b i = .error .oob := by
  have : b.length ≤ i := by simpa using h
  simp [rd, this]

theorem wr_zip (A : Buf) (y : Nat) (B : Buf) (v : Nat) : wr (A ++ y :: B) A.length v = .ok (A ++ v :: B) := by
  simp [wr]

theorem wr_zip' (A : Buf) (y : Nat) (B : Buf) (v : Nat) (d : Nat) (hd : d = A.length) :
    wr (A ++ y :: B) d v = .ok (A ++ v :: B) := by subst hd; exact wr_zip A y B v

/-- a destination with room for `k` units at offset `d` is prefix ++ extent ++ rest -/
theorem dst_decomp (dst : Buf) (d k : Nat) (h : d + k ≤ dst.length) :
    dst = dst.take d ++ ((dst.drop d).take k ++ dst.drop (d + k)) ∧ (dst.take d).length = d ∧
      ((dst.drop d).take k).length = k := by
  refine ⟨?_, ?_, ?_⟩
  · rw [← List.drop_drop, List.take_append_drop, List.take_append_drop]
  · simp; omega
  · simp; omega

theorem splice_zip (A M B w : Buf) (h : M.length = w.length) :
    Spec.splice (A ++ (M ++ B)) A.length w = A ++ (w ++ B) := by
  simp [Spec.splice, ← h, List.append_assoc]

/-! ### strings inside an allocation -/

theorem cstr_of_drop {b : Buf} {p : Nat} {l : List Nat} (h : b.drop p = l) : Spec.cstr b p = l.takeWhile (· ≠ 0) := by
  simp [Spec.cstr, h]

/-! ### one lemma per loop -/

theorem mem_tail_of_ne {x : Nat} {l : List Nat} (h0 : 0 ∈ x :: l) (hx : ¬ x = 0) : 0 ∈ l := by
  rcases List.mem_cons.mp h0 with h | h
  · exact absurd h.symm hx
  · exact h

theorem exists_decomp (dst : Buf) (d k : Nat) (h : d + k ≤ dst.length) :
    ∃ A M B : Buf, dst = A ++ (M ++ B) ∧ A.length = d ∧ M.length = k :=
  ⟨_, _, _, (dst_decomp dst d k h).1, (dst_decomp dst d k h).2.1, (dst_decomp dst d k h).2.2⟩

theorem exists_snoc (M : Buf) (k : Nat) (h : M.length = k + 1) : ∃ M1 y, M = M1 ++ [y] ∧ M1.length = k := by
  have hne : M ≠ [] := by intro e; simp [e] at h
  refine ⟨M.dropLast, M.getLast hne, (List.dropLast_concat_getLast hne).symm, ?_⟩
  simp [h]

/-- the counted copy loop of `strncpy` -/
theorem strncpyCopy_spec (src : Buf) : ∀ (r : Nat) (l : List Nat) (s : Nat) (A M1 R : Buf) (d : Nat), src.drop s = l →
    (r ≤ l.length ∨ 0 ∈ l) → d = A.length → M1.length = ((l.take r).takeWhile (· ≠ 0)).length →
    strncpyCopy src r (A ++ (M1 ++ R)) d s =
      .ok (A ++ ((l.take r).takeWhile (· ≠ 0) ++ R), d + ((l.take r).takeWhile (· ≠ 0)).length,
           r - ((l.take r).takeWhile (· ≠ 0)).length) := by
  intro r
  induction r with
  | zero =>
    intro l s A M1 R d _ _ _ hM
    simp at hM
    simp [strncpyCopy, hM]
  | succ r ih =>
    intro l s A M1 R d hd hr hA hM
    cases l with
    | nil => rcases hr with h | h <;> simp at h
    | cons x l =>
      simp only [strncpyCopy, rd_of_drop_cons hd, ok_bind]
      by_cases hx : x = 0
      · subst hx
        simp at hM
        simp [hM]
      · cases M1 with
        | nil => simp [hx] at hM
        | cons y M1 =>
          have hr' : r ≤ l.length ∨ 0 ∈ l := by
            rcases hr with h | h
            · left; simpa using h
            · right; exact mem_tail_of_ne h hx
          have hM' : M1.length = ((l.take r).takeWhile (· ≠ 0)).length := by simpa [hx] using hM
          have := ih l (s + 1) (A ++ [x]) M1 R (d + 1) (drop_succ_of_drop_cons hd) hr' (by simp [hA]) hM'
          simp only [List.append_assoc, List.singleton_append] at this
          rw [if_neg hx]
          simp only [List.cons_append, wr_zip' A y (M1 ++ R) x d hA, ok_bind]
          rw [this]
          simp [hx]
          omega

theorem fillLoop_spec (v : Nat) : ∀ (r : Nat) (A M B : Buf) (d : Nat), d = A.length → M.length = r →
    fillLoop v r (A ++ (M ++ B)) d = .ok (A ++ (List.replicate r v ++ B)) := by
  intro r
  induction r with
  | zero => intro A M B d _ hM; simp at hM; simp [fillLoop, hM]
  | succ r ih =>
    intro A M B d hA hM
    cases M with
    | nil => simp at hM
    | cons y M =>
      have := ih (A ++ [v]) M B (d + 1) (by simp [hA]) (by simpa using hM)
      simp only [List.append_assoc, List.singleton_append] at this
      simp only [fillLoop, List.cons_append, wr_zip' A y (M ++ B) v d hA, ok_bind, this, List.replicate_succ]

theorem memcpyLoop_spec (src : Buf) : ∀ (r : Nat) (l : List Nat) (s : Nat) (A M B : Buf) (d : Nat), src.drop s = l →
    r ≤ l.length → d = A.length → M.length = r →
    memcpyLoop src r (A ++ (M ++ B)) d s = .ok (A ++ (l.take r ++ B)) := by
  intro r
  induction r with
  | zero => intro l s A M B d _ _ _ hM; simp at hM; simp [memcpyLoop, hM]
  | succ r ih =>
    intro l s A M B d hd hr hA hM
    cases l with
    | nil => simp at hr
    | cons x l =>
      cases M with
      | nil => simp at hM
      | cons y M =>
        have := ih l (s + 1) (A ++ [x]) M B (d + 1) (drop_succ_of_drop_cons hd) (by simpa using hr) (by simp [hA])
          (by simpa using hM)
        simp only [List.append_assoc, List.singleton_append] at this
        simp only [memcpyLoop, rd_of_drop_cons hd, ok_bind, List.cons_append, wr_zip' A y (M ++ B) x d hA, this,
          List.take_succ_cons]

theorem strcatLoop_spec (src : Buf) : ∀ (l : List Nat) (s f : Nat) (A M1 R : Buf) (d : Nat), src.drop s = l → 0 ∈ l →
    l.length < f → d = A.length → M1.length = (l.takeWhile (· ≠ 0)).length →
    strcatLoop src f (A ++ (M1 ++ R)) d s = .ok (A ++ (l.takeWhile (· ≠ 0) ++ R), d + (l.takeWhile (· ≠ 0)).length) := by
  intro l
  induction l with
  | nil => intro s f A M1 R d _ h0; simp at h0
  | cons x l ih =>
    intro s f A M1 R d hd h0 hf hA hM
    cases f with
    | zero => simp at hf
    | succ f =>
      simp only [strcatLoop, rd_of_drop_cons hd, ok_bind]
      by_cases hx : x = 0
      · subst hx
        simp at hM
        simp [hM]
      · cases M1 with
        | nil => simp [hx] at hM
        | cons y M1 =>
          have hM' : M1.length = (l.takeWhile (· ≠ 0)).length := by simpa [hx] using hM
          have := ih (s + 1) f (A ++ [x]) M1 R (d + 1) (drop_succ_of_drop_cons hd) (mem_tail_of_ne h0 hx)
            (by simpa using hf) (by simp [hA]) hM'
          simp only [List.append_assoc, List.singleton_append] at this
          rw [if_neg hx]
          simp only [List.cons_append, wr_zip' A y (M1 ++ R) x d hA, ok_bind]
          rw [this]
          simp [hx]
          omega

theorem strncatLoop_spec (src : Buf) : ∀ (r : Nat) (l : List Nat) (s : Nat) (A M1 R : Buf) (d : Nat), src.drop s = l →
    (r ≤ l.length ∨ 0 ∈ l) → d = A.length → M1.length = ((l.take r).takeWhile (· ≠ 0)).length →
    strncatLoop src r (A ++ (M1 ++ R)) d s =
      .ok (A ++ ((l.take r).takeWhile (· ≠ 0) ++ R), d + ((l.take r).takeWhile (· ≠ 0)).length) := by
  intro r
  induction r with
  | zero =>
    intro l s A M1 R d _ _ _ hM
    simp at hM
    simp [strncatLoop, hM]
  | succ r ih =>
    intro l s A M1 R d hd hr hA hM
    cases l with
    | nil => rcases hr with h | h <;> simp at h
    | cons x l =>
      simp only [strncatLoop, rd_of_drop_cons hd, ok_bind]
      by_cases hx : x = 0
      · subst hx
        simp at hM
        simp [hM]
      · cases M1 with
        | nil => simp [hx] at hM
        | cons y M1 =>
          have hr' : r ≤ l.length ∨ 0 ∈ l := by
            rcases hr with h | h
            · left; simpa using h
            · right; exact mem_tail_of_ne h hx
          have hM' : M1.length = ((l.take r).takeWhile (· ≠ 0)).length := by simpa [hx] using hM
          have := ih l (s + 1) (A ++ [x]) M1 R (d + 1) (drop_succ_of_drop_cons hd) hr' (by simp [hA]) hM'
          simp only [List.append_assoc, List.singleton_append] at this
          rw [if_neg hx]
          simp only [List.cons_append, wr_zip' A y (M1 ++ R) x d hA, ok_bind]
          rw [this]
          simp [hx]
          omega

theorem strlenLoop_spec (b : Buf) : ∀ (l : List Nat) (i f : Nat), b.drop i = l → 0 ∈ l → l.length < f →
    strlenLoop b f i = .ok (i + (l.takeWhile (· ≠ 0)).length) := by
  intro l
  induction l with
  | nil => intro i f _ h0; simp at h0
  | cons x l ih =>
    intro i f hd h0 hf
    cases f with
    | zero => simp at hf
    | succ f =>
      simp only [strlenLoop, rd_of_drop_cons hd, ok_bind]
      by_cases hx : x = 0
      · simp [hx]
      · have h0' : 0 ∈ l := by
          rcases List.mem_cons.mp h0 with h | h
          · exact absurd h.symm hx
          · exact h
        rw [if_neg hx, ih (i+1) f (drop_succ_of_drop_cons hd) h0' (by simpa using hf)]
        simp [hx]; omega

theorem strcpyLoop_spec (src : Buf) : ∀ (l : List Nat) (s f : Nat) (A M B : Buf) (d : Nat), src.drop s = l → 0 ∈ l →
    l.length < f → d = A.length → M.length = (l.takeWhile (· ≠ 0)).length + 1 →
    strcpyLoop src f (A ++ (M ++ B)) d s = .ok (A ++ ((l.takeWhile (· ≠ 0) ++ [0]) ++ B)) := by
  intro l
  induction l with
  | nil => intro s f A M B d _ h0; simp at h0
  | cons x l ih =>
    intro s f A M B d hd h0 hf hA hM
    cases f with
    | zero => simp at hf
    | succ f =>
      cases M with
      | nil => simp at hM
      | cons y M =>
        simp only [strcpyLoop, rd_of_drop_cons hd, ok_bind, List.cons_append, wr_zip' A y (M ++ B) x d hA]
        by_cases hx : x = 0
        · subst hx
          simp at hM
          simp [hM]
        · have h0' : 0 ∈ l := by
            rcases List.mem_cons.mp h0 with h | h
            · exact absurd h.symm hx
            · exact h
          have hM' : M.length = (l.takeWhile (· ≠ 0)).length + 1 := by simpa [hx] using hM
          have := ih (s + 1) f (A ++ [x]) M B (d + 1) (drop_succ_of_drop_cons hd) h0' (by simpa using hf) (by simp [hA]) hM'
          rw [if_neg hx]
          simp only [List.append_assoc, List.singleton_append] at this
          rw [this]
          simp [hx]


/-! ### small facts used by the property theorems -/

theorem drop_length_lt (b : Buf) (p : Nat) : (b.drop p).length < b.length + 1 := by simp; omega

theorem length_takeWhile_le {α} (p : α → Bool) (l : List α) : (l.takeWhile p).length ≤ l.length :=
  (List.takeWhile_sublist p).length_le

theorem length_cstrN_le (b : Buf) (p n : Nat) : (Spec.cstrN b p n).length ≤ n := by
  unfold Spec.cstrN
  exact Nat.le_trans (length_takeWhile_le _ _) (by simp; omega)

theorem readableN_drop {b : Buf} {p n : Nat} (h : Spec.ReadableN b p n) : n ≤ (b.drop p).length ∨ 0 ∈ b.drop p := by
  unfold Spec.ReadableN Spec.Terminated at h
  simp only [List.length_drop]
  rcases h with h | h
  · left; omega
  · right; exact h

theorem exists_split (M : Buf) (a b : Nat) (h : M.length = a + b) :
    ∃ M1 M2 : Buf, M = M1 ++ M2 ∧ M1.length = a ∧ M2.length = b :=
  ⟨M.take a, M.drop a, (List.take_append_drop a M).symm, by simp; omega, by simp; omega⟩

/-! ### memmove inside one allocation -/

theorem rd_ok' {b : Buf} {i : Nat} (h : i < b.length) : rd b i = .ok b[i] := by simp [rd, h]
theorem wr_ok' {b : Buf} {i : Nat} (v : Nat) (h : i < b.length) : wr b i v = .ok (b.set i v) := by simp [wr, h]

theorem take_succ_set_self (b : Buf) (d x : Nat) (h : d < b.length) : (b.set d x).take (d + 1) = b.take d ++ [x] := by
  rw [List.take_succ_eq_append_getElem (by simpa using h), List.take_set_of_le (Nat.le_refl d)]
  simp

theorem drop_set_self (b : Buf) (j x : Nat) (h : j < b.length) : (b.set j x).drop j = x :: b.drop (j + 1) := by
  rw [List.drop_eq_getElem_cons (by simpa using h), List.drop_set_of_lt (Nat.lt_succ_self j)]
  simp

theorem memmoveFwd_spec : ∀ (n : Nat) (b : Buf) (d s : Nat), d ≤ s → s + n ≤ b.length →
    memmoveFwd n b d s = .ok (Spec.splice b d ((b.drop s).take n)) := by
  intro n
  induction n with
  | zero => intro b d s _ _; simp [memmoveFwd, Spec.splice]
  | succ n ih =>
    intro b d s hds hs
    have hs' : s < b.length := by omega
    have hd' : d < b.length := by omega
    simp only [memmoveFwd, rd_ok' hs', wr_ok' _ hd', ok_bind]
    rw [ih (b.set d b[s]) (d + 1) (s + 1) (by omega) (by simp; omega)]
    congr 1
    have hw : ((b.drop (s + 1)).take n).length = n := by simp; omega
    have e2 : (b.drop s).take (n + 1) = b[s] :: (b.drop (s + 1)).take n := by
      rw [List.drop_eq_getElem_cons hs', List.take_succ_cons]
    rw [List.drop_set_of_lt (by omega : d < s + 1), e2]
    simp only [Spec.splice, List.length_cons, hw]
    rw [take_succ_set_self b d _ hd', List.drop_set_of_lt (by omega : d < d + 1 + n)]
    have e3 : d + 1 + n = d + (n + 1) := by omega
    rw [e3]
    simp [List.append_assoc]

theorem memmoveBack_spec (d s : Nat) (hsd : s ≤ d) : ∀ (n : Nat) (b : Buf), d + n ≤ b.length →
    memmoveBack d s n b = .ok (Spec.splice b d ((b.drop s).take n)) := by
  intro n
  induction n with
  | zero => intro b _; simp [memmoveBack, Spec.splice]
  | succ r ih =>
    intro b hd
    have hs' : s + r < b.length := by omega
    have hd' : d + r < b.length := by omega
    simp only [memmoveBack, rd_ok' hs', wr_ok' _ hd', ok_bind]
    rw [ih (b.set (d + r) b[s + r]) (by simp; omega)]
    congr 1
    have e1 : ((b.set (d + r) b[s + r]).drop s).take r = (b.drop s).take r := by
      rw [List.drop_set, if_neg (by omega), List.take_set_of_le (by omega)]
    have hw : ((b.drop s).take r).length = r := by simp; omega
    have e2 : (b.drop s).take (r + 1) = (b.drop s).take r ++ [b[s + r]] := by
      rw [List.take_succ_eq_append_getElem (by simp; omega)]
      simp
    rw [e1, e2]
    simp only [Spec.splice, hw, List.length_append, List.length_singleton]
    rw [List.take_set_of_le (by omega : d ≤ d + r), drop_set_self b (d + r) _ hd']
    have e3 : d + (r + 1) = d + r + 1 := by omega
    rw [e3]
    simp [List.append_assoc]

/-! ### comparisons -/

/-- the order the spec states (`Spec.key`: identity / balanced remainder) is the one `compare_units` computes
    (`CT.key`: cast to `unsigned char` / subtract 2^bits from the upper half) on every value of the character type -/
theorem key_eq (ct : CT) (hb : 0 < ct.bits) {u : Nat} (hu : u < 2 ^ ct.bits) : Spec.key ct.bits ct.signedCmp u = ct.key u := by
  have hp : 2 ^ ct.bits = 2 * 2 ^ (ct.bits - 1) := by
    have : ct.bits = (ct.bits - 1) + 1 := by omega
    rw [this, Nat.pow_succ]; simp; omega
  unfold Spec.key CT.key
  generalize 2 ^ (ct.bits - 1) = H at *
  cases ct.signedCmp
  · simp
  · simp only [if_true, Bool.true_and, decide_eq_true_eq]
    rw [Int.bmod_def, hp]
    have : ((u : Int) % ((2 * H : Nat) : Int)) = u := Int.emod_eq_of_lt (by omega) (by omega)
    rw [this]
    split <;> split <;> omega

theorem cmp_congr {k k' : Nat → Int} : ∀ (l1 l2 : List Nat), (∀ x ∈ l1, k x = k' x) → (∀ y ∈ l2, k y = k' y) →
    Spec.cmp k l1 l2 = Spec.cmp k' l1 l2
  | [], [], _, _ => rfl
  | [], _ :: _, _, _ => rfl
  | _ :: _, [], _, _ => rfl
  | x :: xs, y :: ys, h1, h2 => by
    simp only [Spec.cmp, h1 x (by simp), h2 y (by simp)]
    rw [cmp_congr xs ys (fun z hz => h1 z (List.mem_cons_of_mem _ hz)) (fun z hz => h2 z (List.mem_cons_of_mem _ hz))]

theorem mem_of_mem_upto0 : ∀ {l : List Nat} {y : Nat}, y ∈ Spec.upto0 l → y ∈ l
  | [], y, h => by simp [Spec.upto0] at h
  | x :: l, y, h => by
    by_cases hx : x = 0
    · simp [Spec.upto0, hx] at h; simp [h, hx]
    · simp only [Spec.upto0, hx, if_false, List.mem_cons] at h
      rcases h with h | h
      · simp [h]
      · exact List.mem_cons_of_mem _ (mem_of_mem_upto0 h)

/-- `Spec.cmp` under the spec's key = `Spec.cmp` under the model's key, on lists cut out of allocations of units -/
theorem cmp_key_eq (ct : CT) (hb : 0 < ct.bits) {a b : Buf} (hua : Spec.Units ct.bits a) (hub : Spec.Units ct.bits b)
    (l1 l2 : List Nat) (h1 : ∀ x ∈ l1, x ∈ a) (h2 : ∀ y ∈ l2, y ∈ b) :
    Spec.cmp (Spec.key ct.bits ct.signedCmp) l1 l2 = Spec.cmp ct.key l1 l2 :=
  cmp_congr l1 l2 (fun x hx => key_eq ct hb (hua x (h1 x hx))) (fun y hy => key_eq ct hb (hub y (h2 y hy)))


theorem key_inj (ct : CT) (hb : 0 < ct.bits) {x y : Nat} (hx : x < 2 ^ ct.bits) (hy : y < 2 ^ ct.bits)
    (h : ct.key x = ct.key y) : x = y := by
  have hp : 2 ^ ct.bits = 2 * 2 ^ (ct.bits - 1) := by
    have : ct.bits = (ct.bits - 1) + 1 := by omega
    rw [this, Nat.pow_succ]; simp; omega
  unfold CT.key at h
  generalize 2 ^ (ct.bits - 1) = H at *
  rw [hp] at h hx hy
  cases ct.signedCmp <;> simp at h
  · omega
  · split at h <;> split at h <;> omega

theorem units_inj (ct : CT) (hb : 0 < ct.bits) {a b : Buf} (ha : Spec.Units ct.bits a) (hbb : Spec.Units ct.bits b) (i j : Nat) :
    ∀ x ∈ a.drop i, ∀ y ∈ b.drop j, ct.key x = ct.key y → x = y :=
  fun x hx y hy h => key_inj ct hb (ha x (List.mem_of_mem_drop hx)) (hbb y (List.mem_of_mem_drop hy)) h

theorem compareUnits_self (ct : CT) (x : Nat) : compareUnits ct x x = 0 := by simp [compareUnits]

theorem cmp_cons_ne (ct : CT) (x y : Nat) (xs ys : List Nat) (h : ct.key x ≠ ct.key y) :
    Spec.cmp ct.key (x :: xs) (y :: ys) = compareUnits ct x y := by
  simp only [Spec.cmp, compareUnits]
  split
  · rfl
  · split
    · rfl
    · omega

theorem cmp_cons_self (k : Nat → Int) (x : Nat) (xs ys : List Nat) :
    Spec.cmp k (x :: xs) (x :: ys) = Spec.cmp k xs ys := by simp [Spec.cmp]

theorem upto0_cons (x : Nat) (l : List Nat) : Spec.upto0 (x :: l) = x :: (if x = 0 then [] else Spec.upto0 l) := by
  by_cases h : x = 0 <;> simp [Spec.upto0, h]

theorem memcmpLoop_spec (ct : CT) (a b : Buf) : ∀ (r : Nat) (la lb : List Nat) (i j : Nat), a.drop i = la → b.drop j = lb →
    r ≤ la.length → r ≤ lb.length → (∀ x ∈ la, ∀ y ∈ lb, ct.key x = ct.key y → x = y) →
    memcmpLoop ct a b r i j = .ok (Spec.cmp ct.key (la.take r) (lb.take r)) := by
  intro r
  induction r with
  | zero => intro la lb i j _ _ _ _ _; simp [memcmpLoop, Spec.cmp]
  | succ r ih =>
    intro la lb i j ha hb hra hrb hinj
    cases la with
    | nil => simp at hra
    | cons x la =>
      cases lb with
      | nil => simp at hrb
      | cons y lb =>
        simp only [memcmpLoop, rd_of_drop_cons ha, rd_of_drop_cons hb, ok_bind, List.take_succ_cons]
        by_cases hxy : x = y
        · subst hxy
          simp only [ne_eq, not_true_eq_false, if_false, cmp_cons_self]
          exact ih la lb (i + 1) (j + 1) (drop_succ_of_drop_cons ha) (drop_succ_of_drop_cons hb) (by simpa using hra)
            (by simpa using hrb) (fun u hu v hv => hinj u (List.mem_cons_of_mem _ hu) v (List.mem_cons_of_mem _ hv))
        · have hk : ct.key x ≠ ct.key y := fun e => hxy (hinj x (by simp) y (by simp) e)
          simp only [ne_eq, hxy, not_false_eq_true, if_true, cmp_cons_ne ct x y _ _ hk]

theorem strncmpLoop_spec (ct : CT) (a b : Buf) : ∀ (r : Nat) (la lb : List Nat) (i j : Nat), a.drop i = la → b.drop j = lb →
    (r ≤ la.length ∨ 0 ∈ la) → (r ≤ lb.length ∨ 0 ∈ lb) → (∀ x ∈ la, ∀ y ∈ lb, ct.key x = ct.key y → x = y) →
    strncmpLoop ct a b r i j = .ok (Spec.cmp ct.key (Spec.upto0 (la.take r)) (Spec.upto0 (lb.take r))) := by
  intro r
  induction r with
  | zero => intro la lb i j _ _ _ _ _; simp [strncmpLoop, Spec.cmp, Spec.upto0]
  | succ r ih =>
    intro la lb i j ha hb hra hrb hinj
    cases la with
    | nil => rcases hra with h | h <;> simp at h
    | cons x la =>
      cases lb with
      | nil => rcases hrb with h | h <;> simp at h
      | cons y lb =>
        simp only [strncmpLoop, rd_of_drop_cons ha, rd_of_drop_cons hb, ok_bind, List.take_succ_cons, upto0_cons]
        by_cases hxy : x = y
        · subst hxy
          simp only [ne_eq, not_true_eq_false, if_false, cmp_cons_self]
          by_cases hx : x = 0
          · simp [hx, Spec.cmp]
          · simp only [hx, if_false]
            refine ih la lb (i + 1) (j + 1) (drop_succ_of_drop_cons ha) (drop_succ_of_drop_cons hb) ?_ ?_
              (fun u hu v hv => hinj u (List.mem_cons_of_mem _ hu) v (List.mem_cons_of_mem _ hv))
            · rcases hra with h | h
              · left; simpa using h
              · right; exact mem_tail_of_ne h hx
            · rcases hrb with h | h
              · left; simpa using h
              · right; exact mem_tail_of_ne h hx
        · have hk : ct.key x ≠ ct.key y := fun e => hxy (hinj x (by simp) y (by simp) e)
          simp only [ne_eq, hxy, not_false_eq_true, if_true, cmp_cons_ne ct x y _ _ hk]

theorem strcmpLoop_spec (ct : CT) (a b : Buf) : ∀ (la lb : List Nat) (i j f : Nat), a.drop i = la → b.drop j = lb →
    0 ∈ la → 0 ∈ lb → la.length < f → (∀ x ∈ la, ∀ y ∈ lb, ct.key x = ct.key y → x = y) →
    strcmpLoop ct a b f i j = .ok (Spec.cmp ct.key (Spec.upto0 la) (Spec.upto0 lb)) := by
  intro la
  induction la with
  | nil => intro lb i j f _ _ h0; simp at h0
  | cons x la ih =>
    intro lb i j f ha hb h0a h0b hf hinj
    cases f with
    | zero => simp at hf
    | succ f =>
      cases lb with
      | nil => simp at h0b
      | cons y lb =>
        simp only [strcmpLoop, rd_of_drop_cons ha, rd_of_drop_cons hb, ok_bind, upto0_cons]
        by_cases hxy : x = y
        · subst hxy
          by_cases hx : x = 0
          · simp [hx, Spec.cmp, compareUnits_self]
          · simp only [hx, if_false, ne_eq, not_true_eq_false, cmp_cons_self]
            exact ih lb (i + 1) (j + 1) f (drop_succ_of_drop_cons ha) (drop_succ_of_drop_cons hb) (mem_tail_of_ne h0a hx)
              (mem_tail_of_ne h0b hx) (by simpa using hf)
              (fun u hu v hv => hinj u (List.mem_cons_of_mem _ hu) v (List.mem_cons_of_mem _ hv))
        · have hk : ct.key x ≠ ct.key y := fun e => hxy (hinj x (by simp) y (by simp) e)
          rw [cmp_cons_ne ct x y _ _ hk]
          by_cases hx : x = 0
          · simp [hx]
          · simp [hx, hxy]


/-! ### searches for one unit -/
set_option linter.unusedSimpArgs false

theorem memchrLoop_spec (b : Buf) (p c : Nat) : ∀ (r : Nat) (l : List Nat) (i : Nat), b.drop (p + i) = l →
    (r ≤ l.length ∨ c ∈ l) →
    memchrLoop b p c r i = .ok (((l.take r).findIdx? (· == c)).map (fun k => p + (i + k))) := by
  intro r
  induction r with
  | zero => intro l i _ _; simp [memchrLoop]
  | succ r ih =>
    intro l i hd hp
    cases l with
    | nil => rcases hp with h | h <;> simp at h
    | cons x l =>
      simp only [memchrLoop, rd_of_drop_cons hd, ok_bind, List.take_succ_cons, List.findIdx?_cons]
      by_cases hx : x = c
      · simp [hx]
      · have hp' : r ≤ l.length ∨ c ∈ l := by
          rcases hp with h | h
          · left; simpa using h
          · right
            rcases List.mem_cons.mp h with h | h
            · exact absurd h.symm hx
            · exact h
        have hd' : b.drop (p + (i + 1)) = l := by
          have := drop_succ_of_drop_cons hd
          rwa [Nat.add_assoc] at this
        rw [if_neg hx, ih l (i + 1) hd' hp']
        simp only [beq_iff_eq, hx, if_false, Bool.false_eq_true, Option.map_map]
        congr 2
        funext k
        simp only [Function.comp]
        omega

theorem strchrLoop_spec (b : Buf) (c : Nat) : ∀ (l : List Nat) (s f : Nat), b.drop s = l → 0 ∈ l → l.length < f →
    strchrLoop b c f s = .ok (((l.takeWhile (· ≠ 0) ++ [0]).findIdx? (· == c)).map (fun k => s + k)) := by
  intro l
  induction l with
  | nil => intro s f _ h0; simp at h0
  | cons x l ih =>
    intro s f hd h0 hf
    cases f with
    | zero => simp at hf
    | succ f =>
      simp only [strchrLoop, rd_of_drop_cons hd, ok_bind]
      by_cases hx : x = 0
      · subst hx
        by_cases hc : c = 0
        · simp [hc, List.findIdx?_cons]
        · have : ¬ (0 = c) := fun e => hc e.symm
          simp [hc, this, List.findIdx?_cons]
      · simp only [hx, if_false]
        by_cases hxc : x = c
        · subst hxc
          simp [List.takeWhile_cons, hx, List.findIdx?_cons]
        · rw [if_neg hxc, ih (s + 1) f (drop_succ_of_drop_cons hd) (mem_tail_of_ne h0 hx) (by simpa using hf)]
          simp only [List.takeWhile_cons, ne_eq, hx, not_false_eq_true, decide_true, if_true, List.cons_append,
            List.findIdx?_cons, beq_iff_eq, hxc, if_false, Bool.false_eq_true, Option.map_map]
          congr 2
          funext k
          simp only [Function.comp]
          omega


/-! ### truncating division -/

theorem sgn_natCast (a : Nat) : Spec.sgn (a : Int) = if a = 0 then 0 else 1 := by
  unfold Spec.sgn; split <;> split <;> omega
theorem sgn_neg_natCast (a : Nat) : Spec.sgn (-(a : Int)) = if a = 0 then 0 else -1 := by
  unfold Spec.sgn; split <;> split <;> omega

theorem tdiv_eq_divQuot (x y : Int) : Int.tdiv x y = Spec.divQuot x y := by
  obtain ⟨a, rfl | rfl⟩ : ∃ a : Nat, x = a ∨ x = -a := ⟨x.natAbs, Int.natAbs_eq x⟩ <;>
  obtain ⟨b, rfl | rfl⟩ : ∃ b : Nat, y = b ∨ y = -b := ⟨y.natAbs, Int.natAbs_eq y⟩ <;>
  simp only [Spec.divQuot, sgn_natCast, sgn_neg_natCast, Int.natAbs_natCast, Int.natAbs_neg, Int.neg_tdiv, Int.tdiv_neg,
    Int.natCast_tdiv_eq_ediv, Int.neg_neg] <;>
  rcases Nat.eq_zero_or_pos a with rfl | ha <;> rcases Nat.eq_zero_or_pos b with rfl | hb <;>
  simp [Nat.pos_iff_ne_zero.mp, *] <;> (try (have := Nat.pos_iff_ne_zero.mp ha; have := Nat.pos_iff_ne_zero.mp hb; simp [*]))


theorem divRem_eq_tmod (x y : Int) : Spec.divRem x y = Int.tmod x y := by
  rw [Spec.divRem, ← tdiv_eq_divQuot, Int.tmod_def, Int.mul_comm]

/-! ### spans, sets, reverse and substring searches -/

theorem take_length_takeWhile {α} (p : α → Bool) : ∀ l : List α, l.take (l.takeWhile p).length = l.takeWhile p
  | [] => by simp
  | x :: l => by
    by_cases h : p x
    · simp [List.takeWhile_cons, h, take_length_takeWhile p l]
    · simp [List.takeWhile_cons, h]

theorem take_strlen_eq_cstr (b : Buf) (p : Nat) : (b.drop p).take (Spec.strlen b p) = Spec.cstr b p := by
  unfold Spec.strlen Spec.cstr
  exact take_length_takeWhile _ _

theorem isLegalChar_spec (incl : Bool) (t : Buf) (q ch : Nat) : ∀ (r : Nat) (lt : List Nat) (i : Nat), t.drop (q + i) = lt →
    r ≤ lt.length → isLegalChar incl t q ch r i = .ok (if (lt.take r).contains ch then incl else !incl) := by
  intro r
  induction r with
  | zero => intro lt i _ _; simp [isLegalChar]
  | succ r ih =>
    intro lt i hd hr
    cases lt with
    | nil => simp at hr
    | cons x lt =>
      simp only [isLegalChar, rd_of_drop_cons hd, ok_bind, List.take_succ_cons, List.contains_cons]
      by_cases hx : x = ch
      · simp [hx]
      · have hd' : t.drop (q + (i + 1)) = lt := by
          have := drop_succ_of_drop_cons hd
          rwa [Nat.add_assoc] at this
        have hne : (ch == x) = false := by simp; exact fun e => hx e.symm
        rw [if_neg hx, ih lt (i + 1) hd' (by simpa using hr), hne]
        simp

theorem strspnLoop_spec (incl : Bool) (b : Buf) (p : Nat) (t : Buf) (q srcLen : Nat) (hlen : srcLen ≤ (t.drop q).length) :
    ∀ (r : Nat) (l : List Nat) (i : Nat), b.drop (p + i) = l → r ≤ l.length →
    strspnLoop incl b p t q srcLen r i =
      .ok (i + ((l.take r).takeWhile (fun x => if ((t.drop q).take srcLen).contains x then incl else !incl)).length) := by
  intro r
  induction r with
  | zero => intro l i _ _; simp [strspnLoop]
  | succ r ih =>
    intro l i hd hr
    cases l with
    | nil => simp at hr
    | cons x l =>
      have hd' : b.drop (p + (i + 1)) = l := by
        have := drop_succ_of_drop_cons hd
        rwa [Nat.add_assoc] at this
      simp only [strspnLoop, rd_of_drop_cons hd, ok_bind, isLegalChar_spec incl t q x srcLen (t.drop q) 0 rfl hlen,
        List.take_succ_cons, List.takeWhile_cons]
      by_cases hl : (if ((t.drop q).take srcLen).contains x then incl else !incl) = true
      · rw [hl, ih l (i + 1) hd' (by simpa using hr)]
        simp; omega
      · have hl' : (if ((t.drop q).take srcLen).contains x then incl else !incl) = false := by simpa using hl
        rw [hl']
        simp


theorem strlen_le_drop (b : Buf) (p : Nat) : Spec.strlen b p ≤ (b.drop p).length := by
  unfold Spec.strlen Spec.cstr; exact length_takeWhile_le _ _

theorem rd_add_eq {b : Buf} {p k : Nat} : rd b (p + k) = rd (b.drop p) k := by
  simp [rd, List.getElem?_drop]

/-- inside the string every unit is non-zero -/
theorem rd_takeWhile_lt : ∀ (l : List Nat) (k : Nat), k < (l.takeWhile (· ≠ 0)).length →
    ∃ x, rd l k = .ok x ∧ x ≠ 0 ∧ (l.takeWhile (· ≠ 0))[k]? = some x
  | [], k, h => by simp at h
  | y :: l, k, h => by
    by_cases hy : y = 0
    · simp [List.takeWhile_cons, hy] at h
    · cases k with
      | zero => exact ⟨y, by simp [rd], hy, by simp [List.takeWhile_cons, hy]⟩
      | succ k =>
        have h' : k < (l.takeWhile (· ≠ 0)).length := by simpa [List.takeWhile_cons, hy] using h
        obtain ⟨x, h1, h2, h3⟩ := rd_takeWhile_lt l k h'
        exact ⟨x, by simpa [rd] using h1, h2, by simpa [List.takeWhile_cons, hy] using h3⟩

/-- the unit at the end of the string is the terminator -/
theorem rd_takeWhile_end : ∀ (l : List Nat), 0 ∈ l → rd l (l.takeWhile (· ≠ 0)).length = .ok 0
  | [], h => by simp at h
  | y :: l, h => by
    by_cases hy : y = 0
    · simp [List.takeWhile_cons, hy, rd]
    · have := rd_takeWhile_end l (mem_tail_of_ne h hy)
      simpa [List.takeWhile_cons, hy, rd] using this

theorem findIdx?_eq_takeWhile {α} (P : α → Bool) : ∀ l : List α,
    l.findIdx? P = if (l.takeWhile (fun x => !P x)).length < l.length then some (l.takeWhile (fun x => !P x)).length else none
  | [] => by simp
  | x :: l => by
    by_cases h : P x
    · simp [List.findIdx?_cons, List.takeWhile_cons, h]
    · simp only [List.findIdx?_cons, List.takeWhile_cons, h, findIdx?_eq_takeWhile P l]
      simp


theorem find?_congr' {α} {p q : α → Bool} : ∀ {l : List α}, (∀ x ∈ l, p x = q x) → l.find? p = l.find? q
  | [], _ => rfl
  | x :: l, h => by
    simp only [List.find?_cons, h x (by simp)]
    rw [find?_congr' (fun y hy => h y (List.mem_cons_of_mem _ hy))]

theorem strrchrLoop_spec (b : Buf) (p c : Nat) : ∀ l : Nat, l ≤ (Spec.cstr b p).length →
    strrchrLoop b p c l =
      .ok ((((List.range l).reverse).find? (fun i => (Spec.cstr b p)[i]? == some c)).map (p + ·)) := by
  intro l
  induction l with
  | zero => intro _; simp [strrchrLoop]
  | succ l ih =>
    intro hl
    obtain ⟨x, h1, _, h3⟩ := rd_takeWhile_lt (b.drop p) l (by unfold Spec.cstr at hl; omega)
    have h3' : (Spec.cstr b p)[l]? = some x := h3
    simp only [strrchrLoop, rd_add_eq, h1, ok_bind, List.range_succ, List.reverse_append, List.reverse_cons,
      List.reverse_nil, List.nil_append, List.singleton_append, List.find?_cons, h3']
    by_cases hx : x = c
    · simp [hx]
    · rw [if_neg hx, ih (by omega)]
      have : (some x == some c) = false := by simpa using hx
      rw [this]


theorem strstrInner_spec (h n : Buf) : ∀ (nl hl : List Nat) (hi ni f : Nat), h.drop hi = hl → n.drop ni = nl →
    0 ∈ nl → 0 ∈ hl → nl.length < f →
    strstrInner h n f hi ni = .ok ((nl.takeWhile (· ≠ 0)).isPrefixOf (hl.takeWhile (· ≠ 0))) := by
  intro nl
  induction nl with
  | nil => intro hl hi ni f _ _ h0; simp at h0
  | cons y nl ih =>
    intro hl hi ni f hh hn h0n h0h hf
    cases f with
    | zero => simp at hf
    | succ f =>
      simp only [strstrInner, rd_of_drop_cons hn, ok_bind]
      by_cases hy : y = 0
      · simp [hy]
      · cases hl with
        | nil => simp at h0h
        | cons x hl =>
          simp only [hy, if_false, rd_of_drop_cons hh, ok_bind]
          by_cases hxy : x = y
          · subst hxy
            simp only [if_true]
            rw [ih hl (hi + 1) (ni + 1) f (drop_succ_of_drop_cons hh) (drop_succ_of_drop_cons hn) (mem_tail_of_ne h0n hy)
              (mem_tail_of_ne h0h hy) (by simpa using hf)]
            simp [List.takeWhile_cons, hy]
          · rw [if_neg hxy]
            by_cases hx : x = 0
            · simp [List.takeWhile_cons, hy, hx]
            · have : (y == x) = false := by simpa using fun e : y = x => hxy e.symm
              simp [List.takeWhile_cons, hy, hx, List.isPrefixOf_cons_cons, this]

theorem strstrOuter_spec (h n : Buf) (q : Nat) (h0n : 0 ∈ n.drop q) (hne : (n.drop q).takeWhile (· ≠ 0) ≠ []) :
    ∀ (hl : List Nat) (hi f : Nat), h.drop hi = hl → 0 ∈ hl → hl.length < f →
    strstrOuter h n q f hi =
      .ok (((List.range ((hl.takeWhile (· ≠ 0)).length + 1)).find?
        (fun i => ((n.drop q).takeWhile (· ≠ 0)).isPrefixOf ((hl.takeWhile (· ≠ 0)).drop i))).map (hi + ·)) := by
  intro hl
  induction hl with
  | nil => intro hi f _ h0; simp at h0
  | cons x hl ih =>
    intro hi f hh h0h hf
    cases f with
    | zero => simp at hf
    | succ f =>
      simp only [strstrOuter, rd_of_drop_cons hh, ok_bind]
      by_cases hx : x = 0
      · obtain ⟨y, ys, hys⟩ := List.exists_cons_of_ne_nil hne
        have e : (x :: hl).takeWhile (· ≠ 0) = [] := by simp [List.takeWhile_cons, hx]
        rw [if_pos hx, e, hys]
        simp
      · simp only [hx, if_false]
        rw [strstrInner_spec h n (n.drop q) (x :: hl) hi q (n.length + 1) hh rfl h0n h0h (drop_length_lt n q)]
        simp only [ok_bind]
        have htw : (x :: hl).takeWhile (· ≠ 0) = x :: hl.takeWhile (· ≠ 0) := by simp [List.takeWhile_cons, hx]
        rw [htw, List.length_cons, List.range_succ_eq_map, List.find?_cons]
        simp only [List.drop_zero]
        cases hm : ((n.drop q).takeWhile (· ≠ 0)).isPrefixOf (x :: hl.takeWhile (· ≠ 0)) with
        | true => simp
        | false =>
          simp only [Bool.false_eq_true, if_false]
          rw [ih (hi + 1) f (drop_succ_of_drop_cons hh) (mem_tail_of_ne h0h hx) (by simpa using hf), List.find?_map]
          simp only [Option.map_map]
          have hf : ((fun x => hi + x) ∘ Nat.succ) = (fun x => hi + 1 + x) := by
            funext k; simp only [Function.comp]; omega
          have hP : ((fun i => ((n.drop q).takeWhile (· ≠ 0)).isPrefixOf ((x :: hl.takeWhile (· ≠ 0)).drop i)) ∘ Nat.succ)
              = (fun i => ((n.drop q).takeWhile (· ≠ 0)).isPrefixOf ((hl.takeWhile (· ≠ 0)).drop i)) := by
            funext i; simp [Function.comp]
          rw [hf, hP]


/-! ### `strncmp` under the joint precondition, `memmove` across two allocations, `memcpy` inside one -/

theorem cmpReadableN_of_readable : ∀ (r : Nat) (la lb : List Nat), (r ≤ la.length ∨ 0 ∈ la) → (r ≤ lb.length ∨ 0 ∈ lb) →
    Spec.cmpReadableN la lb r = true := by
  intro r
  induction r with
  | zero => intro la lb _ _; cases la <;> cases lb <;> rfl
  | succ r ih =>
    intro la lb ha hb
    cases la with
    | nil => rcases ha with h | h <;> simp at h
    | cons x la =>
      cases lb with
      | nil => rcases hb with h | h <;> simp at h
      | cons y lb =>
        simp only [Spec.cmpReadableN, Bool.or_eq_true, bne_iff_ne, ne_eq, beq_iff_eq]
        by_cases hxy : x = y
        · by_cases hx : x = 0
          · exact Or.inl (Or.inr hx)
          · right
            subst hxy
            apply ih
            · rcases ha with h | h
              · left; simpa using h
              · right; exact mem_tail_of_ne h hx
            · rcases hb with h | h
              · left; simpa using h
              · right; exact mem_tail_of_ne h hx
        · exact Or.inl (Or.inl hxy)

theorem strncmpLoop_joint_spec (ct : CT) (a b : Buf) : ∀ (r : Nat) (la lb : List Nat) (i j : Nat), a.drop i = la → b.drop j = lb →
    Spec.cmpReadableN la lb r = true → (∀ x ∈ la, ∀ y ∈ lb, ct.key x = ct.key y → x = y) →
    strncmpLoop ct a b r i j = .ok (Spec.cmp ct.key (Spec.upto0 (la.take r)) (Spec.upto0 (lb.take r))) := by
  intro r
  induction r with
  | zero => intro la lb i j _ _ _ _; simp [strncmpLoop, Spec.cmp, Spec.upto0]
  | succ r ih =>
    intro la lb i j ha hb hr hinj
    cases la with
    | nil => cases lb <;> simp [Spec.cmpReadableN] at hr
    | cons x la =>
      cases lb with
      | nil => simp [Spec.cmpReadableN] at hr
      | cons y lb =>
        simp only [strncmpLoop, rd_of_drop_cons ha, rd_of_drop_cons hb, ok_bind, List.take_succ_cons, upto0_cons]
        by_cases hxy : x = y
        · subst hxy
          simp only [ne_eq, not_true_eq_false, if_false, cmp_cons_self]
          by_cases hx : x = 0
          · simp [hx, Spec.cmp]
          · simp only [hx, if_false]
            refine ih la lb (i + 1) (j + 1) (drop_succ_of_drop_cons ha) (drop_succ_of_drop_cons hb) ?_
              (fun u hu v hv => hinj u (List.mem_cons_of_mem _ hu) v (List.mem_cons_of_mem _ hv))
            simpa [Spec.cmpReadableN, hx] using hr
        · have hk : ct.key x ≠ ct.key y := fun e => hxy (hinj x (by simp) y (by simp) e)
          simp only [ne_eq, hxy, not_false_eq_true, if_true, cmp_cons_ne ct x y _ _ hk]

theorem memmoveBack2_spec (src : Buf) (d s : Nat) : ∀ (n : Nat) (dst : Buf), s + n ≤ src.length → d + n ≤ dst.length →
    memmoveBack2 src d s n dst = .ok (Spec.splice dst d ((src.drop s).take n)) := by
  intro n
  induction n with
  | zero => intro dst _ _; simp [memmoveBack2, Spec.splice]
  | succ r ih =>
    intro dst hs hd
    have hs' : s + r < src.length := by omega
    have hd' : d + r < dst.length := by omega
    simp only [memmoveBack2, rd_ok' hs', wr_ok' _ hd', ok_bind]
    rw [ih (dst.set (d + r) src[s + r]) (by omega) (by simp; omega)]
    congr 1
    have hw : ((src.drop s).take r).length = r := by simp; omega
    have e2 : (src.drop s).take (r + 1) = (src.drop s).take r ++ [src[s + r]] := by
      rw [List.take_succ_eq_append_getElem (by simp; omega)]
      simp
    rw [e2]
    simp only [Spec.splice, hw, List.length_append, List.length_singleton]
    rw [List.take_set_of_le (by omega : d ≤ d + r), drop_set_self dst (d + r) _ hd']
    have e3 : d + (r + 1) = d + r + 1 := by omega
    rw [e3]
    simp [List.append_assoc]

/-- the forward loop inside one allocation when the source lies wholly below the destination -/
theorem memmoveFwd_below_spec : ∀ (n : Nat) (b : Buf) (d s : Nat), s + n ≤ d → d + n ≤ b.length →
    memmoveFwd n b d s = .ok (Spec.splice b d ((b.drop s).take n)) := by
  intro n
  induction n with
  | zero => intro b d s _ _; simp [memmoveFwd, Spec.splice]
  | succ n ih =>
    intro b d s hsd hd
    have hs' : s < b.length := by omega
    have hd' : d < b.length := by omega
    simp only [memmoveFwd, rd_ok' hs', wr_ok' _ hd', ok_bind]
    rw [ih (b.set d b[s]) (d + 1) (s + 1) (by omega) (by simp; omega)]
    congr 1
    have hw : ((b.drop (s + 1)).take n).length = n := by simp; omega
    have e1 : ((b.set d b[s]).drop (s + 1)).take n = (b.drop (s + 1)).take n := by
      rw [List.drop_set, if_neg (by omega), List.take_set_of_le (by omega)]
    have e2 : (b.drop s).take (n + 1) = b[s] :: (b.drop (s + 1)).take n := by
      rw [List.drop_eq_getElem_cons hs', List.take_succ_cons]
    rw [e1, e2]
    simp only [Spec.splice, List.length_cons, hw]
    rw [take_succ_set_self b d _ hd', List.drop_set_of_lt (by omega : d < d + 1 + n)]
    have e3 : d + 1 + n = d + (n + 1) := by omega
    rw [e3]
    simp [List.append_assoc]

/-! ### cutting an allocation after the terminator -/

theorem takeWhile_take_of_mem : ∀ (l : List Nat) (k : Nat), 0 ∈ l → (l.takeWhile (· ≠ 0)).length + 1 ≤ k →
    (l.take k).takeWhile (· ≠ 0) = l.takeWhile (· ≠ 0) ∧ 0 ∈ l.take k
  | [], _, h, _ => by simp at h
  | x :: l, k, h, hk => by
    cases k with
    | zero => omega
    | succ k =>
      by_cases hx : x = 0
      · simp [List.takeWhile_cons, hx]
      · have hk' : (l.takeWhile (· ≠ 0)).length + 1 ≤ k := by simpa [List.takeWhile_cons, hx] using hk
        obtain ⟨h1, h2⟩ := takeWhile_take_of_mem l k (mem_tail_of_ne h hx) hk'
        refine ⟨?_, by simp [h2]⟩
        rw [List.take_succ_cons, List.takeWhile_cons, List.takeWhile_cons, h1]


end Tetl.C18
