import Tetl.C18.Model
import Tetl.C18.Spec
namespace Tetl.C18
open Tetl

/-- finite-domain transfer: a Boolean statement that evaluates to `true` at every point of
    `-1, 0, …, 255` holds for every `Int` in `[-1, 255]` -/
theorem forall_ctype_range {p : Int → Bool} (h : (List.range 257).all (fun n => p ((n : Int) - 1)) = true) :
    ∀ c : Int, -1 ≤ c → c ≤ 255 → p c = true := by
  intro c h1 h2
  rw [List.all_eq_true] at h
  have := h (c + 1).toNat (by simp; omega)
  have e : (((c + 1).toNat : Nat) : Int) - 1 = c := by omega
  rwa [e] at this

end Tetl.C18
