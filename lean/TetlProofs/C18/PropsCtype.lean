/-
C18 — property theorems, part 1: <cctype> and <cwctype> over the hand model (part 2, strings: `Props.lean`;
part 3, div/labs/llabs: `PropsDiv.lean`; part 4, footprints: `PropsFootprint.lean`; the same statements over
the model generated from the headers: `PropsGen.lean`, `PropsGenW.lean`).

* `<cctype>`: each function equals the "C"-locale table on the complete domain [-1, 255]
  (kernel `decide` over all 257 arguments: a finite complete domain, hence a proof).
* `<cwctype>`: each function equals the table for *every* `wint_t` (all naturals): finite check
  below 128, range reasoning above.
-/
import TetlProofs.C18.LemmasCtype
namespace Tetl.C18.Props
open Tetl Tetl.C18
set_option linter.unusedSimpArgs false

/-! ## cctype: the complete domain [-1, 255] -/

theorem isalnum_eq (c : Int) (h1 : -1 ≤ c) (h2 : c ≤ 255) : isalnum c = Spec.isalnum c := by
  have := forall_ctype_range (p := fun c => isalnum c == Spec.isalnum c) (by decide +kernel) c h1 h2
  simpa using this

theorem isalpha_eq (c : Int) (h1 : -1 ≤ c) (h2 : c ≤ 255) : isalpha c = Spec.isalpha c := by
  have := forall_ctype_range (p := fun c => isalpha c == Spec.isalpha c) (by decide +kernel) c h1 h2
  simpa using this

theorem isblank_eq (c : Int) (h1 : -1 ≤ c) (h2 : c ≤ 255) : isblank c = Spec.isblank c := by
  have := forall_ctype_range (p := fun c => isblank c == Spec.isblank c) (by decide +kernel) c h1 h2
  simpa using this

theorem iscntrl_eq (c : Int) (h1 : -1 ≤ c) (h2 : c ≤ 255) : iscntrl c = Spec.iscntrl c := by
  have := forall_ctype_range (p := fun c => iscntrl c == Spec.iscntrl c) (by decide +kernel) c h1 h2
  simpa using this

theorem isdigit_eq (c : Int) (h1 : -1 ≤ c) (h2 : c ≤ 255) : isdigit c = Spec.isdigit c := by
  have := forall_ctype_range (p := fun c => isdigit c == Spec.isdigit c) (by decide +kernel) c h1 h2
  simpa using this

theorem isgraph_eq (c : Int) (h1 : -1 ≤ c) (h2 : c ≤ 255) : isgraph c = Spec.isgraph c := by
  have := forall_ctype_range (p := fun c => isgraph c == Spec.isgraph c) (by decide +kernel) c h1 h2
  simpa using this

theorem islower_eq (c : Int) (h1 : -1 ≤ c) (h2 : c ≤ 255) : islower c = Spec.islower c := by
  have := forall_ctype_range (p := fun c => islower c == Spec.islower c) (by decide +kernel) c h1 h2
  simpa using this

theorem isprint_eq (c : Int) (h1 : -1 ≤ c) (h2 : c ≤ 255) : isprint c = Spec.isprint c := by
  have := forall_ctype_range (p := fun c => isprint c == Spec.isprint c) (by decide +kernel) c h1 h2
  simpa using this

theorem ispunct_eq (c : Int) (h1 : -1 ≤ c) (h2 : c ≤ 255) : ispunct c = Spec.ispunct c := by
  have := forall_ctype_range (p := fun c => ispunct c == Spec.ispunct c) (by decide +kernel) c h1 h2
  simpa using this

theorem isspace_eq (c : Int) (h1 : -1 ≤ c) (h2 : c ≤ 255) : isspace c = Spec.isspace c := by
  have := forall_ctype_range (p := fun c => isspace c == Spec.isspace c) (by decide +kernel) c h1 h2
  simpa using this

theorem isupper_eq (c : Int) (h1 : -1 ≤ c) (h2 : c ≤ 255) : isupper c = Spec.isupper c := by
  have := forall_ctype_range (p := fun c => isupper c == Spec.isupper c) (by decide +kernel) c h1 h2
  simpa using this

theorem isxdigit_eq (c : Int) (h1 : -1 ≤ c) (h2 : c ≤ 255) : isxdigit c = Spec.isxdigit c := by
  have := forall_ctype_range (p := fun c => isxdigit c == Spec.isxdigit c) (by decide +kernel) c h1 h2
  simpa using this

theorem tolower_eq (c : Int) (h1 : -1 ≤ c) (h2 : c ≤ 255) : tolower c = Spec.tolower c := by
  have := forall_ctype_range (p := fun c => tolower c == Spec.tolower c) (by decide +kernel) c h1 h2
  simpa using this

theorem toupper_eq (c : Int) (h1 : -1 ≤ c) (h2 : c ≤ 255) : toupper c = Spec.toupper c := by
  have := forall_ctype_range (p := fun c => toupper c == Spec.toupper c) (by decide +kernel) c h1 h2
  simpa using this

/-! ## cwctype: every `wint_t` -/

theorem iswalnum_eq (c : Nat) : iswalnum c = Spec.iswalnum c := by
  by_cases hc : c < 128
  · have := forall_lt_of_all (p := fun c => iswalnum c == Spec.iswalnum c) 128 (by decide +kernel) c hc
    simpa using this
  · have h1 : iswalnum c = false := by simp [iswalnum]; omega
    have h2 : Spec.iswalnum c = false := by
      have hh : ∀ t : List Nat, t.all (· < 128) = true → t.contains c = false :=
        fun t ht => contains_high t ht c (by omega)
      simp only [Spec.iswalnum, Spec.iswalpha, Spec.iswupper, Spec.iswlower, Spec.iswdigit, hh _ (by decide : Spec.upperTbl.all (· < 128) = true),
        hh _ (by decide : Spec.lowerTbl.all (· < 128) = true), hh _ (by decide : Spec.digitTbl.all (· < 128) = true),
        hh _ (by decide : Spec.punctTbl.all (· < 128) = true), hh _ (by decide : Spec.spaceTbl.all (· < 128) = true),
        hh _ (by decide : Spec.blankTbl.all (· < 128) = true), hh _ (by decide : Spec.cntrlTbl.all (· < 128) = true),
        hh _ (by decide : Spec.hexLetterTbl.all (· < 128) = true)] <;> (try simp) <;> (try omega)
    rw [h1, h2]

theorem iswalpha_eq (c : Nat) : iswalpha c = Spec.iswalpha c := by
  by_cases hc : c < 128
  · have := forall_lt_of_all (p := fun c => iswalpha c == Spec.iswalpha c) 128 (by decide +kernel) c hc
    simpa using this
  · have h1 : iswalpha c = false := by simp [iswalpha]; omega
    have h2 : Spec.iswalpha c = false := by
      have hh : ∀ t : List Nat, t.all (· < 128) = true → t.contains c = false :=
        fun t ht => contains_high t ht c (by omega)
      simp only [Spec.iswalpha, Spec.iswupper, Spec.iswlower, hh _ (by decide : Spec.upperTbl.all (· < 128) = true),
        hh _ (by decide : Spec.lowerTbl.all (· < 128) = true), hh _ (by decide : Spec.digitTbl.all (· < 128) = true),
        hh _ (by decide : Spec.punctTbl.all (· < 128) = true), hh _ (by decide : Spec.spaceTbl.all (· < 128) = true),
        hh _ (by decide : Spec.blankTbl.all (· < 128) = true), hh _ (by decide : Spec.cntrlTbl.all (· < 128) = true),
        hh _ (by decide : Spec.hexLetterTbl.all (· < 128) = true)] <;> (try simp) <;> (try omega)
    rw [h1, h2]

theorem iswblank_eq (c : Nat) : iswblank c = Spec.iswblank c := by
  by_cases hc : c < 128
  · have := forall_lt_of_all (p := fun c => iswblank c == Spec.iswblank c) 128 (by decide +kernel) c hc
    simpa using this
  · have h1 : iswblank c = false := by simp [iswblank]; omega
    have h2 : Spec.iswblank c = false := by
      have hh : ∀ t : List Nat, t.all (· < 128) = true → t.contains c = false :=
        fun t ht => contains_high t ht c (by omega)
      simp only [Spec.iswblank, hh _ (by decide : Spec.upperTbl.all (· < 128) = true),
        hh _ (by decide : Spec.lowerTbl.all (· < 128) = true), hh _ (by decide : Spec.digitTbl.all (· < 128) = true),
        hh _ (by decide : Spec.punctTbl.all (· < 128) = true), hh _ (by decide : Spec.spaceTbl.all (· < 128) = true),
        hh _ (by decide : Spec.blankTbl.all (· < 128) = true), hh _ (by decide : Spec.cntrlTbl.all (· < 128) = true),
        hh _ (by decide : Spec.hexLetterTbl.all (· < 128) = true)] <;> (try simp) <;> (try omega)
    rw [h1, h2]

theorem iswcntrl_eq (c : Nat) : iswcntrl c = Spec.iswcntrl c := by
  by_cases hc : c < 128
  · have := forall_lt_of_all (p := fun c => iswcntrl c == Spec.iswcntrl c) 128 (by decide +kernel) c hc
    simpa using this
  · have h1 : iswcntrl c = false := by simp [iswcntrl]; omega
    have h2 : Spec.iswcntrl c = false := by
      have hh : ∀ t : List Nat, t.all (· < 128) = true → t.contains c = false :=
        fun t ht => contains_high t ht c (by omega)
      simp only [Spec.iswcntrl, hh _ (by decide : Spec.upperTbl.all (· < 128) = true),
        hh _ (by decide : Spec.lowerTbl.all (· < 128) = true), hh _ (by decide : Spec.digitTbl.all (· < 128) = true),
        hh _ (by decide : Spec.punctTbl.all (· < 128) = true), hh _ (by decide : Spec.spaceTbl.all (· < 128) = true),
        hh _ (by decide : Spec.blankTbl.all (· < 128) = true), hh _ (by decide : Spec.cntrlTbl.all (· < 128) = true),
        hh _ (by decide : Spec.hexLetterTbl.all (· < 128) = true)] <;> (try simp) <;> (try omega)
    rw [h1, h2]

theorem iswdigit_eq (c : Nat) : iswdigit c = Spec.iswdigit c := by
  by_cases hc : c < 128
  · have := forall_lt_of_all (p := fun c => iswdigit c == Spec.iswdigit c) 128 (by decide +kernel) c hc
    simpa using this
  · have h1 : iswdigit c = false := by simp [iswdigit]; omega
    have h2 : Spec.iswdigit c = false := by
      have hh : ∀ t : List Nat, t.all (· < 128) = true → t.contains c = false :=
        fun t ht => contains_high t ht c (by omega)
      simp only [Spec.iswdigit, hh _ (by decide : Spec.upperTbl.all (· < 128) = true),
        hh _ (by decide : Spec.lowerTbl.all (· < 128) = true), hh _ (by decide : Spec.digitTbl.all (· < 128) = true),
        hh _ (by decide : Spec.punctTbl.all (· < 128) = true), hh _ (by decide : Spec.spaceTbl.all (· < 128) = true),
        hh _ (by decide : Spec.blankTbl.all (· < 128) = true), hh _ (by decide : Spec.cntrlTbl.all (· < 128) = true),
        hh _ (by decide : Spec.hexLetterTbl.all (· < 128) = true)] <;> (try simp) <;> (try omega)
    rw [h1, h2]

theorem iswgraph_eq (c : Nat) : iswgraph c = Spec.iswgraph c := by
  by_cases hc : c < 128
  · have := forall_lt_of_all (p := fun c => iswgraph c == Spec.iswgraph c) 128 (by decide +kernel) c hc
    simpa using this
  · have h1 : iswgraph c = false := by simp [iswgraph, iswdigit, iswlower, iswupper, iswpunct]; omega
    have h2 : Spec.iswgraph c = false := by
      have hh : ∀ t : List Nat, t.all (· < 128) = true → t.contains c = false :=
        fun t ht => contains_high t ht c (by omega)
      simp only [Spec.iswgraph, Spec.iswalnum, Spec.iswalpha, Spec.iswupper, Spec.iswlower, Spec.iswdigit, Spec.iswpunct, hh _ (by decide : Spec.upperTbl.all (· < 128) = true),
        hh _ (by decide : Spec.lowerTbl.all (· < 128) = true), hh _ (by decide : Spec.digitTbl.all (· < 128) = true),
        hh _ (by decide : Spec.punctTbl.all (· < 128) = true), hh _ (by decide : Spec.spaceTbl.all (· < 128) = true),
        hh _ (by decide : Spec.blankTbl.all (· < 128) = true), hh _ (by decide : Spec.cntrlTbl.all (· < 128) = true),
        hh _ (by decide : Spec.hexLetterTbl.all (· < 128) = true)] <;> (try simp) <;> (try omega)
    rw [h1, h2]

theorem iswlower_eq (c : Nat) : iswlower c = Spec.iswlower c := by
  by_cases hc : c < 128
  · have := forall_lt_of_all (p := fun c => iswlower c == Spec.iswlower c) 128 (by decide +kernel) c hc
    simpa using this
  · have h1 : iswlower c = false := by simp [iswlower]; omega
    have h2 : Spec.iswlower c = false := by
      have hh : ∀ t : List Nat, t.all (· < 128) = true → t.contains c = false :=
        fun t ht => contains_high t ht c (by omega)
      simp only [Spec.iswlower, hh _ (by decide : Spec.upperTbl.all (· < 128) = true),
        hh _ (by decide : Spec.lowerTbl.all (· < 128) = true), hh _ (by decide : Spec.digitTbl.all (· < 128) = true),
        hh _ (by decide : Spec.punctTbl.all (· < 128) = true), hh _ (by decide : Spec.spaceTbl.all (· < 128) = true),
        hh _ (by decide : Spec.blankTbl.all (· < 128) = true), hh _ (by decide : Spec.cntrlTbl.all (· < 128) = true),
        hh _ (by decide : Spec.hexLetterTbl.all (· < 128) = true)] <;> (try simp) <;> (try omega)
    rw [h1, h2]

theorem iswprint_eq (c : Nat) : iswprint c = Spec.iswprint c := by
  by_cases hc : c < 128
  · have := forall_lt_of_all (p := fun c => iswprint c == Spec.iswprint c) 128 (by decide +kernel) c hc
    simpa using this
  · have h1 : iswprint c = false := by simp [iswprint, iswgraph, iswdigit, iswlower, iswupper, iswpunct]; omega
    have h2 : Spec.iswprint c = false := by
      have hh : ∀ t : List Nat, t.all (· < 128) = true → t.contains c = false :=
        fun t ht => contains_high t ht c (by omega)
      simp only [Spec.iswprint, Spec.iswgraph, Spec.iswalnum, Spec.iswalpha, Spec.iswupper, Spec.iswlower, Spec.iswdigit, Spec.iswpunct, hh _ (by decide : Spec.upperTbl.all (· < 128) = true),
        hh _ (by decide : Spec.lowerTbl.all (· < 128) = true), hh _ (by decide : Spec.digitTbl.all (· < 128) = true),
        hh _ (by decide : Spec.punctTbl.all (· < 128) = true), hh _ (by decide : Spec.spaceTbl.all (· < 128) = true),
        hh _ (by decide : Spec.blankTbl.all (· < 128) = true), hh _ (by decide : Spec.cntrlTbl.all (· < 128) = true),
        hh _ (by decide : Spec.hexLetterTbl.all (· < 128) = true)] <;> (try simp) <;> (try omega)
    rw [h1, h2]

theorem iswpunct_eq (c : Nat) : iswpunct c = Spec.iswpunct c := by
  by_cases hc : c < 128
  · have := forall_lt_of_all (p := fun c => iswpunct c == Spec.iswpunct c) 128 (by decide +kernel) c hc
    simpa using this
  · have h1 : iswpunct c = false := by simp [iswpunct]; omega
    have h2 : Spec.iswpunct c = false := by
      have hh : ∀ t : List Nat, t.all (· < 128) = true → t.contains c = false :=
        fun t ht => contains_high t ht c (by omega)
      simp only [Spec.iswpunct, hh _ (by decide : Spec.upperTbl.all (· < 128) = true),
        hh _ (by decide : Spec.lowerTbl.all (· < 128) = true), hh _ (by decide : Spec.digitTbl.all (· < 128) = true),
        hh _ (by decide : Spec.punctTbl.all (· < 128) = true), hh _ (by decide : Spec.spaceTbl.all (· < 128) = true),
        hh _ (by decide : Spec.blankTbl.all (· < 128) = true), hh _ (by decide : Spec.cntrlTbl.all (· < 128) = true),
        hh _ (by decide : Spec.hexLetterTbl.all (· < 128) = true)] <;> (try simp) <;> (try omega)
    rw [h1, h2]

theorem iswspace_eq (c : Nat) : iswspace c = Spec.iswspace c := by
  by_cases hc : c < 128
  · have := forall_lt_of_all (p := fun c => iswspace c == Spec.iswspace c) 128 (by decide +kernel) c hc
    simpa using this
  · have h1 : iswspace c = false := by simp [iswspace]; omega
    have h2 : Spec.iswspace c = false := by
      have hh : ∀ t : List Nat, t.all (· < 128) = true → t.contains c = false :=
        fun t ht => contains_high t ht c (by omega)
      simp only [Spec.iswspace, hh _ (by decide : Spec.upperTbl.all (· < 128) = true),
        hh _ (by decide : Spec.lowerTbl.all (· < 128) = true), hh _ (by decide : Spec.digitTbl.all (· < 128) = true),
        hh _ (by decide : Spec.punctTbl.all (· < 128) = true), hh _ (by decide : Spec.spaceTbl.all (· < 128) = true),
        hh _ (by decide : Spec.blankTbl.all (· < 128) = true), hh _ (by decide : Spec.cntrlTbl.all (· < 128) = true),
        hh _ (by decide : Spec.hexLetterTbl.all (· < 128) = true)] <;> (try simp) <;> (try omega)
    rw [h1, h2]

theorem iswupper_eq (c : Nat) : iswupper c = Spec.iswupper c := by
  by_cases hc : c < 128
  · have := forall_lt_of_all (p := fun c => iswupper c == Spec.iswupper c) 128 (by decide +kernel) c hc
    simpa using this
  · have h1 : iswupper c = false := by simp [iswupper]; omega
    have h2 : Spec.iswupper c = false := by
      have hh : ∀ t : List Nat, t.all (· < 128) = true → t.contains c = false :=
        fun t ht => contains_high t ht c (by omega)
      simp only [Spec.iswupper, hh _ (by decide : Spec.upperTbl.all (· < 128) = true),
        hh _ (by decide : Spec.lowerTbl.all (· < 128) = true), hh _ (by decide : Spec.digitTbl.all (· < 128) = true),
        hh _ (by decide : Spec.punctTbl.all (· < 128) = true), hh _ (by decide : Spec.spaceTbl.all (· < 128) = true),
        hh _ (by decide : Spec.blankTbl.all (· < 128) = true), hh _ (by decide : Spec.cntrlTbl.all (· < 128) = true),
        hh _ (by decide : Spec.hexLetterTbl.all (· < 128) = true)] <;> (try simp) <;> (try omega)
    rw [h1, h2]

theorem iswxdigit_eq (c : Nat) : iswxdigit c = Spec.iswxdigit c := by
  by_cases hc : c < 128
  · have := forall_lt_of_all (p := fun c => iswxdigit c == Spec.iswxdigit c) 128 (by decide +kernel) c hc
    simpa using this
  · have h1 : iswxdigit c = false := by simp [iswxdigit]; omega
    have h2 : Spec.iswxdigit c = false := by
      have hh : ∀ t : List Nat, t.all (· < 128) = true → t.contains c = false :=
        fun t ht => contains_high t ht c (by omega)
      simp only [Spec.iswxdigit, Spec.iswdigit, hh _ (by decide : Spec.upperTbl.all (· < 128) = true),
        hh _ (by decide : Spec.lowerTbl.all (· < 128) = true), hh _ (by decide : Spec.digitTbl.all (· < 128) = true),
        hh _ (by decide : Spec.punctTbl.all (· < 128) = true), hh _ (by decide : Spec.spaceTbl.all (· < 128) = true),
        hh _ (by decide : Spec.blankTbl.all (· < 128) = true), hh _ (by decide : Spec.cntrlTbl.all (· < 128) = true),
        hh _ (by decide : Spec.hexLetterTbl.all (· < 128) = true)] <;> (try simp) <;> (try omega)
    rw [h1, h2]

theorem towlower_eq (c : Nat) : towlower c = Spec.towlower c := by
  by_cases hc : c < 128
  · have := forall_lt_of_all (p := fun c => towlower c == Spec.towlower c) 128 (by decide +kernel) c hc
    simpa using this
  · have h1 : iswupper c = false := by simp [iswupper]; omega
    rw [towlower, h1, Spec.towlower, mapTbl_high _ _ (by decide) c (by omega)]
    simp

theorem towupper_eq (c : Nat) : towupper c = Spec.towupper c := by
  by_cases hc : c < 128
  · have := forall_lt_of_all (p := fun c => towupper c == Spec.towupper c) 128 (by decide +kernel) c hc
    simpa using this
  · have h1 : iswlower c = false := by simp [iswlower]; omega
    rw [towupper, h1, Spec.towupper, mapTbl_high _ _ (by decide) c (by omega)]
    simp

end Tetl.C18.Props
