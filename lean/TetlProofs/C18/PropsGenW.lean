/-
C18 — tie T for <cwctype>: the model GENERATED from the current headers (`Tetl/C18/GenW.lean`, rewritten by
gen/translate.py on every run of the C18 check) agrees with the hand model of `Tetl/C18/Model.lean` for EVERY
`wint_t` argument (all naturals for the predicates; all values below 2^32 for the two conversions, whose
`ch ± wint_t(32)` wraps modulo 2^32).  Together with `PropsCtype.isw*_eq` (hand model = "C"-locale table for every
argument) this gives: what the headers say now = the C-locale table.
-/
import Tetl.C18.GenW
import Tetl.C18.Model
import TetlProofs.CSemLemmas
namespace Tetl.C18.PropsGenW
open Tetl.CSem Tetl.C18
set_option linter.unusedSimpArgs false

theorem b01 (b : Bool) : (wrapS 32 (if b then 1 else 0) != 0) = b := by
  cases b <;> decide

/-- turn a Boolean equation of range tests over ℤ / ℕ into linear arithmetic -/
macro "range_tests" : tactic =>
  `(tactic| (simp only [b01]; rw [Bool.eq_iff_iff];
             simp only [Bool.or_eq_true, Bool.and_eq_true, decide_eq_true_eq, beq_iff_eq, bne_iff_ne, ne_eq]; omega))

theorem gen_iswdigit_eq (c : Nat) : (GenW.iswdigit (c : Int) != 0) = iswdigit c := by
  unfold GenW.iswdigit iswdigit; range_tests
theorem gen_iswlower_eq (c : Nat) : (GenW.iswlower (c : Int) != 0) = iswlower c := by
  unfold GenW.iswlower iswlower; range_tests
theorem gen_iswupper_eq (c : Nat) : (GenW.iswupper (c : Int) != 0) = iswupper c := by
  unfold GenW.iswupper iswupper; range_tests
theorem gen_iswalpha_eq (c : Nat) : (GenW.iswalpha (c : Int) != 0) = iswalpha c := by
  unfold GenW.iswalpha GenW.iswalpha_isLower GenW.iswalpha_isUpper iswalpha; range_tests
theorem gen_iswalnum_eq (c : Nat) : (GenW.iswalnum (c : Int) != 0) = iswalnum c := by
  unfold GenW.iswalnum GenW.iswalnum_isDigit GenW.iswalnum_isLower GenW.iswalnum_isUpper iswalnum; range_tests
theorem gen_iswblank_eq (c : Nat) : (GenW.iswblank (c : Int) != 0) = iswblank c := by
  unfold GenW.iswblank iswblank; range_tests
theorem gen_iswcntrl_eq (c : Nat) : (GenW.iswcntrl (c : Int) != 0) = iswcntrl c := by
  unfold GenW.iswcntrl iswcntrl; range_tests
theorem gen_iswpunct_eq (c : Nat) : (GenW.iswpunct (c : Int) != 0) = iswpunct c := by
  unfold GenW.iswpunct GenW.iswpunct_sec1 GenW.iswpunct_sec2 GenW.iswpunct_sec3 GenW.iswpunct_sec4 iswpunct; range_tests
theorem gen_iswspace_eq (c : Nat) : (GenW.iswspace (c : Int) != 0) = iswspace c := by
  unfold GenW.iswspace GenW.iswspace_sp GenW.iswspace_form GenW.iswspace_line GenW.iswspace_carriage GenW.iswspace_hTab
    GenW.iswspace_vTab iswspace; range_tests
theorem gen_iswxdigit_eq (c : Nat) : (GenW.iswxdigit (c : Int) != 0) = iswxdigit c := by
  unfold GenW.iswxdigit GenW.iswxdigit_isDigit GenW.iswxdigit_isHexLower GenW.iswxdigit_isHexUpper iswxdigit; range_tests
theorem gen_iswgraph_eq (c : Nat) : (GenW.iswgraph (c : Int) != 0) = iswgraph c := by
  unfold GenW.iswgraph GenW.iswgraph_isDigit GenW.iswgraph_isUpper GenW.iswgraph_isLower GenW.iswgraph_isPunct iswgraph
  simp only [b01, gen_iswdigit_eq, gen_iswlower_eq, gen_iswupper_eq, gen_iswpunct_eq]
theorem gen_iswprint_eq (c : Nat) : (GenW.iswprint (c : Int) != 0) = iswprint c := by
  unfold GenW.iswprint iswprint
  simp only [b01, gen_iswgraph_eq]
  congr 1
  rw [Bool.eq_iff_iff]; simp only [beq_iff_eq, decide_eq_true_eq]; omega
theorem gen_towlower_eq (c : Nat) (hc : c < 2 ^ 32) : GenW.towlower (c : Int) = (towlower c : Int) := by
  unfold GenW.towlower towlower W
  simp only [gen_iswupper_eq, wrapU32]
  split <;> omega
theorem gen_towupper_eq (c : Nat) (hc : c < 2 ^ 32) : GenW.towupper (c : Int) = (towupper c : Int) := by
  unfold GenW.towupper towupper W
  simp only [gen_iswlower_eq, wrapU32]
  split <;> omega

example : (GenW.iswalpha 97 != 0) = true ∧ GenW.towupper 97 = 65 ∧ GenW.towupper 5 = 5 := by decide

end Tetl.C18.PropsGenW
