import TetlProofs.C18.Lemmas
namespace Tetl.C18.Props
open Tetl Tetl.C18

theorem isalpha_eq (c : Int) (h1 : -1 ≤ c) (h2 : c ≤ 255) : isalpha c = Spec.isalpha c := by
  have := forall_ctype_range (p := fun c => isalpha c == Spec.isalpha c) (by decide +kernel) c h1 h2
  simpa using this

theorem tolower_eq (c : Int) (h1 : -1 ≤ c) (h2 : c ≤ 255) : tolower c = Spec.tolower c := by
  have := forall_ctype_range (p := fun c => tolower c == Spec.tolower c) (by decide +kernel) c h1 h2
  simpa using this

end Tetl.C18.Props
