/-
C18 — property theorems, part 2: `<cstring>` / `<cwchar>` (part 1, character classes: `PropsCtype.lean`).

For every allocation, offset and count satisfying the C preconditions — written as the decidable
predicates `Spec.Terminated`, `Spec.ReadableN` and a room inequality, the same ones the generator
of `checks/props/c18.py` uses — the model returns `.ok` (no read or write outside an allocation,
no fuel exhaustion: the memory-safety face, C02) of exactly the ISO C result (pointer results: the model
returns the absolute index, the spec the offset from the pointer argument).  For the writers the
*whole* destination allocation equals `Spec.splice …`: every unit outside the extent C defines is
unchanged.
-/
import TetlProofs.C18.Lemmas
namespace Tetl.C18.Props
open Tetl Tetl.C18

/-! ## strlen, copies, concatenations, fills -/


theorem strlen_eq (b : Buf) (p : Nat) (h : Spec.Terminated b p) : strlen b p = .ok (Spec.strlen b p) := by
  unfold strlen
  rw [strlenLoop_spec b (b.drop p) p (b.length + 1) rfl h (drop_length_lt b p)]
  simp [Spec.strlen, Spec.cstr]

theorem strcpy_eq (dst : Buf) (d : Nat) (src : Buf) (s : Nat) (hs : Spec.Terminated src s)
    (hroom : d + (Spec.strlen src s + 1) ≤ dst.length) :
    strcpy dst d src s = .ok (d, Spec.strcpy dst d src s) := by
  obtain ⟨A, M, B, rfl, hA, hM⟩ := exists_decomp dst d _ hroom
  unfold strcpy
  rw [strcpyLoop_spec src (src.drop s) s (src.length + 1) A M B d rfl hs (drop_length_lt src s) hA.symm
    (by simpa [Spec.strlen, Spec.cstr] using hM)]
  simp only [ok_bind, Spec.strcpy, Spec.cstr]
  rw [← hA, splice_zip A M B _ (by simpa [Spec.strlen, Spec.cstr] using hM)]


theorem strncpy_eq (dst : Buf) (d : Nat) (src : Buf) (s n : Nat) (hs : Spec.ReadableN src s n)
    (hroom : d + n ≤ dst.length) :
    strncpy dst d src s n = .ok (d, Spec.strncpy dst d src s n) := by
  obtain ⟨A, M, B, rfl, hA, hM⟩ := exists_decomp dst d n hroom
  have hle := length_cstrN_le src s n
  have ht : ((src.drop s).take n).takeWhile (· ≠ 0) = Spec.cstrN src s n := rfl
  obtain ⟨M1, M2, rfl, hM1, hM2⟩ := exists_split M (Spec.cstrN src s n).length (n - (Spec.cstrN src s n).length) (by omega)
  have h1 := strncpyCopy_spec src n (src.drop s) s A M1 (M2 ++ B) d rfl (readableN_drop hs) hA.symm (by rw [ht]; exact hM1)
  rw [ht] at h1
  have h2 := fillLoop_spec 0 (n - (Spec.cstrN src s n).length) (A ++ Spec.cstrN src s n) M2 B
    (d + (Spec.cstrN src s n).length) (by simp [hA]) hM2
  rw [List.append_assoc] at h2
  unfold strncpy
  rw [List.append_assoc M1 M2 B, h1]
  simp only [ok_bind]
  rw [h2]
  simp only [ok_bind, Spec.strncpy]
  rw [← hA, ← List.append_assoc M1 M2 B, splice_zip A (M1 ++ M2) B _ (by simp; omega)]
  simp [List.append_assoc]


theorem memcpy_eq (dst : Buf) (d : Nat) (src : Buf) (s n : Nat) (hs : s + n ≤ src.length) (hroom : d + n ≤ dst.length) :
    memcpy dst d src s n = .ok (d, Spec.memcpy dst d src s n) := by
  obtain ⟨A, M, B, rfl, hA, hM⟩ := exists_decomp dst d n hroom
  unfold memcpy
  rw [memcpyLoop_spec src n (src.drop s) s A M B d rfl (by simp; omega) hA.symm hM]
  simp only [ok_bind, Spec.memcpy]
  rw [← hA, splice_zip A M B _ (by simp; omega)]

theorem memset_eq (ct : CT) (dst : Buf) (d : Nat) (ch : Int) (n : Nat) (hroom : d + n ≤ dst.length) :
    memset ct dst d ch n = .ok (d, Spec.memset dst d (Spec.toUnit ct.bits ch) n) := by
  obtain ⟨A, M, B, rfl, hA, hM⟩ := exists_decomp dst d n hroom
  unfold memset
  rw [fillLoop_spec (ct.cast ch) n A M B d hA.symm hM]
  simp only [ok_bind, Spec.memset]
  rw [← hA, splice_zip A M B _ (by simp [hM])]
  rfl

theorem strcat_eq (dst : Buf) (d : Nat) (src : Buf) (s : Nat) (hd : Spec.Terminated dst d) (hs : Spec.Terminated src s)
    (hroom : d + Spec.strlen dst d + (Spec.strlen src s + 1) ≤ dst.length) :
    strcat dst d src s = .ok (d, Spec.strcat dst d src s) := by
  unfold strcat
  rw [strlen_eq dst d hd]
  simp only [ok_bind, Spec.strcat]
  generalize Spec.strlen dst d = n at *
  obtain ⟨A, M, B, rfl, hA, hM⟩ := exists_decomp dst (d + n) _ hroom
  obtain ⟨M1, y, rfl, hM1⟩ := exists_snoc M _ hM
  have ht : (src.drop s).takeWhile (· ≠ 0) = Spec.cstr src s := rfl
  have h1 := strcatLoop_spec src (src.drop s) s (src.length + 1) A M1 ([y] ++ B) (d + n) rfl hs (drop_length_lt src s) hA.symm
    (by rw [ht]; exact hM1)
  rw [ht] at h1
  rw [List.append_assoc M1 [y] B, h1]
  simp only [ok_bind]
  have h2 := wr_zip' (A ++ Spec.cstr src s) y B 0 (d + n + (Spec.cstr src s).length) (by simp [hA])
  rw [List.append_assoc] at h2
  simp only [List.singleton_append]
  rw [h2]
  simp only [ok_bind]
  have e : A ++ (M1 ++ y :: B) = A ++ ((M1 ++ [y]) ++ B) := by simp
  rw [← hA, e, splice_zip A (M1 ++ [y]) B _ (by simp [hM1, Spec.strlen])]
  simp [List.append_assoc]

theorem strncat_eq (dst : Buf) (d : Nat) (src : Buf) (s n : Nat) (hd : Spec.Terminated dst d) (hs : Spec.ReadableN src s n)
    (hroom : d + Spec.strlen dst d + ((Spec.cstrN src s n).length + 1) ≤ dst.length) :
    strncat dst d src s n = .ok (d, Spec.strncat dst d src s n) := by
  unfold strncat
  rw [strlen_eq dst d hd]
  simp only [ok_bind, Spec.strncat]
  generalize Spec.strlen dst d = k at *
  obtain ⟨A, M, B, rfl, hA, hM⟩ := exists_decomp dst (d + k) _ hroom
  obtain ⟨M1, y, rfl, hM1⟩ := exists_snoc M _ hM
  have ht : ((src.drop s).take n).takeWhile (· ≠ 0) = Spec.cstrN src s n := rfl
  have h1 := strncatLoop_spec src n (src.drop s) s A M1 ([y] ++ B) (d + k) rfl (readableN_drop hs) hA.symm
    (by rw [ht]; exact hM1)
  rw [ht] at h1
  rw [List.append_assoc M1 [y] B, h1]
  simp only [ok_bind]
  have h2 := wr_zip' (A ++ Spec.cstrN src s n) y B 0 (d + k + (Spec.cstrN src s n).length) (by simp [hA])
  rw [List.append_assoc] at h2
  simp only [List.singleton_append]
  rw [h2]
  simp only [ok_bind]
  have e : A ++ (M1 ++ y :: B) = A ++ ((M1 ++ [y]) ++ B) := by simp
  rw [← hA, e, splice_zip A (M1 ++ [y]) B _ (by simp [hM1])]
  simp [List.append_assoc]


/-! ## memmove: overlapping source and destination inside one allocation -/

theorem memmove_eq (b : Buf) (d s n : Nat) (hs : s + n ≤ b.length) (hd : d + n ≤ b.length) :
    memmove b d s n = .ok (d, Spec.memmove b d s n) := by
  unfold memmove Spec.memmove
  by_cases h : s < d
  · simp only [if_pos h, memmoveBack_spec d s (by omega) n b hd, ok_bind]
  · simp only [if_neg h, memmoveFwd_spec n b d s (by omega) hs, ok_bind]

/-- `memmove` with source and destination in two different allocations: whatever the comparison `ps < pd` of
    the unrelated pointers yields (`back`), the result is that of `memcpy` -/
theorem memmove2_eq (back : Bool) (dst : Buf) (d : Nat) (src : Buf) (s n : Nat) (hs : s + n ≤ src.length)
    (hroom : d + n ≤ dst.length) : memmove2 back dst d src s n = .ok (d, Spec.memcpy dst d src s n) := by
  cases back
  · exact memcpy_eq dst d src s n hs hroom
  · simp only [memmove2, if_true, memmoveBack2_spec src d s n dst hs hroom, ok_bind, Spec.memcpy]

/-- `memcpy` between two disjoint extents of one allocation (either order) -/
theorem memcpy1_eq (b : Buf) (d s n : Nat) (hs : s + n ≤ b.length) (hd : d + n ≤ b.length)
    (hdis : s + n ≤ d ∨ d + n ≤ s) : memcpy1 b d s n = .ok (d, Spec.memmove b d s n) := by
  unfold memcpy1 Spec.memmove
  rcases hdis with h | h
  · simp only [memmoveFwd_below_spec n b d s h hd, ok_bind]
  · simp only [memmoveFwd_spec n b d s (by omega) hs, ok_bind]

/-! ## comparisons: sign of the first differing pair, `unsigned char` / `wchar_t` order -/

theorem strcmp_eq (ct : CT) (hb : 0 < ct.bits) (a : Buf) (i : Nat) (b : Buf) (j : Nat) (ha : Spec.Terminated a i)
    (hbt : Spec.Terminated b j) (hua : Spec.Units ct.bits a) (hub : Spec.Units ct.bits b) :
    strcmp ct a i b j = .ok (Spec.strcmp (Spec.key ct.bits ct.signedCmp) a i b j) := by
  unfold strcmp Spec.strcmp
  rw [cmp_key_eq ct hb hua hub _ _ (fun x hx => List.mem_of_mem_drop (mem_of_mem_upto0 hx))
    (fun y hy => List.mem_of_mem_drop (mem_of_mem_upto0 hy))]
  exact strcmpLoop_spec ct a b (a.drop i) (b.drop j) i j (a.length + 1) rfl rfl ha hbt (drop_length_lt a i)
    (units_inj ct hb hua hub i j)

theorem strncmp_eq (ct : CT) (hb : 0 < ct.bits) (a : Buf) (i : Nat) (b : Buf) (j n : Nat) (ha : Spec.ReadableN a i n)
    (hbt : Spec.ReadableN b j n) (hua : Spec.Units ct.bits a) (hub : Spec.Units ct.bits b) :
    strncmp ct a i b j n = .ok (Spec.strncmp (Spec.key ct.bits ct.signedCmp) a i b j n) := by
  unfold strncmp Spec.strncmp
  rw [cmp_key_eq ct hb hua hub _ _ (fun x hx => List.mem_of_mem_drop (List.mem_of_mem_take (mem_of_mem_upto0 hx)))
    (fun y hy => List.mem_of_mem_drop (List.mem_of_mem_take (mem_of_mem_upto0 hy)))]
  exact strncmpLoop_spec ct a b n (a.drop i) (b.drop j) i j rfl rfl (readableN_drop ha) (readableN_drop hbt)
    (units_inj ct hb hua hub i j)

/-- `strncmp` under the weaker joint precondition `Spec.cmpReadableN`: the arrays need only contain the pairs
    the comparison reaches (it stops at the first difference and after a pair of zeros), so e.g. a short
    unterminated array compared with a string that differs from it early is covered.  `strncmp_eq` is the
    special case in which each array is readable on its own (`cmpReadableN_of_readable`). -/
theorem strncmp_joint_eq (ct : CT) (hb : 0 < ct.bits) (a : Buf) (i : Nat) (b : Buf) (j n : Nat)
    (h : Spec.cmpReadableN (a.drop i) (b.drop j) n = true) (hua : Spec.Units ct.bits a) (hub : Spec.Units ct.bits b) :
    strncmp ct a i b j n = .ok (Spec.strncmp (Spec.key ct.bits ct.signedCmp) a i b j n) := by
  unfold strncmp Spec.strncmp
  rw [cmp_key_eq ct hb hua hub _ _ (fun x hx => List.mem_of_mem_drop (List.mem_of_mem_take (mem_of_mem_upto0 hx)))
    (fun y hy => List.mem_of_mem_drop (List.mem_of_mem_take (mem_of_mem_upto0 hy)))]
  exact strncmpLoop_joint_spec ct a b n (a.drop i) (b.drop j) i j rfl rfl h (units_inj ct hb hua hub i j)

theorem memcmp_eq (ct : CT) (hb : 0 < ct.bits) (a : Buf) (i : Nat) (b : Buf) (j n : Nat) (ha : i + n ≤ a.length)
    (hbt : j + n ≤ b.length) (hua : Spec.Units ct.bits a) (hub : Spec.Units ct.bits b) :
    memcmp ct a i b j n = .ok (Spec.memcmp (Spec.key ct.bits ct.signedCmp) a i b j n) := by
  unfold memcmp Spec.memcmp
  rw [cmp_key_eq ct hb hua hub _ _ (fun x hx => List.mem_of_mem_drop (List.mem_of_mem_take hx))
    (fun y hy => List.mem_of_mem_drop (List.mem_of_mem_take hy))]
  exact memcmpLoop_spec ct a b n (a.drop i) (b.drop j) i j rfl rfl (by simp; omega) (by simp; omega)
    (units_inj ct hb hua hub i j)

/-! ## searches: pointer results are offsets; the model returns the absolute index `p + offset` -/

/-- `memchr` reads sequentially and stops at the first match: the count may exceed the allocation
    when the unit occurs inside it. -/
theorem memchr_eq (ct : CT) (b : Buf) (p : Nat) (ch : Int) (n : Nat)
    (h : p + n ≤ b.length ∨ Spec.toUnit ct.bits ch ∈ b.drop p) :
    memchr ct b p ch n = .ok ((Spec.memchr b p (Spec.toUnit ct.bits ch) n).map (p + ·)) := by
  unfold memchr Spec.memchr
  have hc : ct.cast ch = Spec.toUnit ct.bits ch := rfl
  rw [hc, memchrLoop_spec b p _ n (b.drop p) 0 rfl (by
    rcases h with h | h
    · left; simp; omega
    · right; exact h)]
  simp

theorem strchr_eq (ct : CT) (b : Buf) (p : Nat) (ch : Int) (h : Spec.Terminated b p) :
    strchr ct b p ch = .ok ((Spec.strchr b p (Spec.toUnit ct.bits ch)).map (p + ·)) := by
  unfold strchr Spec.strchr Spec.cstr
  have hc : ct.cast ch = Spec.toUnit ct.bits ch := rfl
  rw [hc, strchrLoop_spec b _ (b.drop p) p (b.length + 1) rfl h (drop_length_lt b p)]

/-! ## strrchr, spans, strpbrk, strstr -/

theorem strrchr_eq (ct : CT) (b : Buf) (p : Nat) (ch : Int) (h : Spec.Terminated b p) :
    strrchr ct b p ch = .ok ((Spec.strrchr b p (Spec.toUnit ct.bits ch)).map (p + ·)) := by
  unfold strrchr
  have hc : ct.cast ch = Spec.toUnit ct.bits ch := rfl
  rw [strlen_eq b p h, hc]
  generalize Spec.toUnit ct.bits ch = c
  simp only [ok_bind, Spec.strrchr, Spec.lastIdx, Spec.strlen, List.length_append, List.length_singleton,
    List.range_succ, List.reverse_append, List.reverse_cons, List.reverse_nil, List.nil_append, List.singleton_append,
    List.find?_cons]
  have hend : (Spec.cstr b p ++ [0])[(Spec.cstr b p).length]? = some 0 := by simp
  rw [hend]
  by_cases hc0 : c = 0
  · simp [hc0]
  · have : (some 0 == some c) = false := by simpa using fun e : 0 = c => hc0 e.symm
    rw [if_neg hc0, this, strrchrLoop_spec b p c _ (Nat.le_refl _)]
    congr 2
    apply find?_congr'
    intro i hi
    have : i < (Spec.cstr b p).length := by simpa using hi
    rw [List.getElem?_append_left this]


/-- `detail::strrchr` as written, null pointer included: a null `str` gives null (a tetl extension; ISO C leaves
    it undefined), any other pointer to a string gives the ISO C result -/
theorem strrchrP_eq (ct : CT) (str : Option (Buf × Nat)) (ch : Int) (h : ∀ b p, str = some (b, p) → Spec.Terminated b p) :
    strrchrP ct str ch = .ok (match str with
      | none => none
      | some (b, p) => (Spec.strrchr b p (Spec.toUnit ct.bits ch)).map (p + ·)) := by
  cases str with
  | none => rfl
  | some bp => obtain ⟨b, p⟩ := bp; exact strrchr_eq ct b p ch (h b p rfl)

theorem strspn_eq (b : Buf) (p : Nat) (t : Buf) (q : Nat) (hb : Spec.Terminated b p) (ht : Spec.Terminated t q) :
    strspn true b p t q = .ok (Spec.strspn b p t q) := by
  unfold strspn
  rw [strlen_eq b p hb, strlen_eq t q ht]
  simp only [ok_bind]
  rw [strspnLoop_spec true b p t q _ (strlen_le_drop t q) (Spec.strlen b p) (b.drop p) 0 rfl (strlen_le_drop b p),
    take_strlen_eq_cstr, take_strlen_eq_cstr]
  simp [Spec.strspn]

theorem strcspn_eq (b : Buf) (p : Nat) (t : Buf) (q : Nat) (hb : Spec.Terminated b p) (ht : Spec.Terminated t q) :
    strspn false b p t q = .ok (Spec.strcspn b p t q) := by
  unfold strspn
  rw [strlen_eq b p hb, strlen_eq t q ht]
  simp only [ok_bind]
  rw [strspnLoop_spec false b p t q _ (strlen_le_drop t q) (Spec.strlen b p) (b.drop p) 0 rfl (strlen_le_drop b p),
    take_strlen_eq_cstr, take_strlen_eq_cstr]
  simp [Spec.strcspn]

theorem strpbrk_eq (b : Buf) (p : Nat) (t : Buf) (q : Nat) (hb : Spec.Terminated b p) (ht : Spec.Terminated t q) :
    strpbrk b p t q = .ok ((Spec.strpbrk b p t q).map (p + ·)) := by
  unfold strpbrk
  rw [strcspn_eq b p t q hb ht]
  simp only [ok_bind, Spec.strpbrk, Spec.strcspn, findIdx?_eq_takeWhile]
  generalize hk : ((Spec.cstr b p).takeWhile (fun x => !(Spec.cstr t q).contains x)).length = k
  have hkle : k ≤ (Spec.cstr b p).length := by rw [← hk]; exact length_takeWhile_le _ _
  rw [rd_add_eq]
  by_cases hlt : k < (Spec.cstr b p).length
  · obtain ⟨x, h1, h2, _⟩ := rd_takeWhile_lt (b.drop p) k hlt
    rw [h1]
    simp [h2, hlt]
  · have hke : k = (Spec.cstr b p).length := by omega
    rw [hke]
    have := rd_takeWhile_end (b.drop p) hb
    unfold Spec.cstr
    rw [this]
    simp


theorem strstr_eq (h : Buf) (p : Nat) (n : Buf) (q : Nat) (hh : Spec.Terminated h p) (hn : Spec.Terminated n q) :
    strstr h p n q = .ok ((Spec.strstr h p n q).map (p + ·)) := by
  unfold strstr Spec.strstr
  obtain ⟨y, nl, hnl⟩ : ∃ y nl, n.drop q = y :: nl := by
    cases e : n.drop q with
    | nil => unfold Spec.Terminated at hn; rw [e] at hn; simp at hn
    | cons y nl => exact ⟨y, nl, rfl⟩
  simp only [rd_of_drop_cons hnl, ok_bind]
  by_cases hy : y = 0
  · simp [hy, Spec.cstr, hnl, List.range_succ_eq_map]
  · rw [if_neg hy]
    have hne : (n.drop q).takeWhile (· ≠ 0) ≠ [] := by rw [hnl]; simp [hy]
    rw [strstrOuter_spec h n q hn hne (h.drop p) p (h.length + 1) rfl hh (drop_length_lt h p)]
    rfl


/-! ## footprint

Every theorem above holds in particular for the *exact-size* allocations: a source that ends with its
terminator (or has exactly `n` units), a destination of exactly the extent C defines.  Since all
accesses of the model are checked, `.ok` on such an allocation means that nothing outside the source
string / count and nothing outside the destination extent is touched.  Spelled out for `strlen`: -/

/-- footprint of a source string: the call succeeds, with the same result, on the allocation cut right
    after the terminator — so nothing beyond the terminator is ever read (reads are checked). -/
theorem strlen_footprint (b : Buf) (p : Nat) (h : Spec.Terminated b p) :
    strlen (b.take (p + Spec.strlen b p + 1)) p = .ok (Spec.strlen b p) := by
  have hd : (b.take (p + Spec.strlen b p + 1)).drop p = (b.drop p).take (Spec.strlen b p + 1) := by
    rw [List.drop_take]; congr 1; omega
  obtain ⟨h1, h2⟩ := takeWhile_take_of_mem (b.drop p) (Spec.strlen b p + 1) h (by simp [Spec.strlen, Spec.cstr])
  have ht : Spec.Terminated (b.take (p + Spec.strlen b p + 1)) p := by
    unfold Spec.Terminated; rw [hd]; exact h2
  rw [strlen_eq _ p ht]
  congr 1
  show ((List.drop p (b.take (p + Spec.strlen b p + 1))).takeWhile (· ≠ 0)).length = _
  rw [hd, h1]
  rfl

/-! ## non-vacuity: the hypotheses hold on ordinary inputs (tests on samples, not proofs of anything general) -/

example : Spec.Terminated [97, 98, 0, 5] 1 := by decide
example : Spec.Terminated [97, 98, 0] 0 ∧ 1 + (Spec.strlen [97, 98, 0] 0 + 1) ≤ [238, 239, 239, 239, 238].length := by decide
example : Spec.ReadableN [97, 98] 0 2 ∧ Spec.ReadableN [97, 0] 0 5 ∧ ¬ Spec.ReadableN [97, 98] 0 3 := by decide
example : Spec.Terminated [238, 97, 0, 239, 239, 238] 1 ∧ Spec.Terminated [98, 0] 0 ∧
    1 + Spec.strlen [238, 97, 0, 239, 239, 238] 1 + (Spec.strlen [98, 0] 0 + 1) ≤ [238, 97, 0, 239, 239, 238].length := by decide
example : Spec.Units 8 [97, 200, 0] ∧ Spec.Units 32 [97, 2147483664, 0] ∧ ¬ Spec.Units 8 [256] := by decide
example : strcmp CT.char [0] 0 [200, 0] 0 = .ok (-1) :=
  strcmp_eq CT.char (by decide) [0] 0 [200, 0] 0 (by decide) (by decide) (by decide) (by decide)
example : memmove [1, 2, 3, 4, 5] 1 0 3 = .ok (1, [1, 1, 2, 3, 5]) := memmove_eq [1, 2, 3, 4, 5] 1 0 3 (by decide) (by decide)
example : (0 + 5 ≤ [97, 98].length ∨ Spec.toUnit 8 98 ∈ [97, 98].drop 0) := by decide
example : strstr [97, 98, 97, 0] 0 [98, 97, 0] 0 = .ok (some 1) :=
  strstr_eq [97, 98, 97, 0] 0 [98, 97, 0] 0 (by decide) (by decide)
example : strpbrk [97, 98, 0] 0 [99, 0] 0 = .ok none := strpbrk_eq [97, 98, 0] 0 [99, 0] 0 (by decide) (by decide)
example : Spec.cmpReadableN [97, 0] [98] 5 = true ∧ ¬ Spec.ReadableN [98] 0 5 ∧ Spec.cmpReadableN [97] [97] 2 = false := by decide
example : strncmp CT.char [97, 0] 0 [98] 0 5 = .ok (-1) :=
  strncmp_joint_eq CT.char (by decide) [97, 0] 0 [98] 0 5 (by decide) (by decide) (by decide)
example : memmove2 true [9, 9, 9, 9] 1 [1, 2, 3] 1 2 = .ok (1, [9, 2, 3, 9]) :=
  memmove2_eq true [9, 9, 9, 9] 1 [1, 2, 3] 1 2 (by decide) (by decide)
example : memcpy1 [1, 2, 3, 4, 5] 3 0 2 = .ok (3, [1, 2, 3, 1, 2]) := memcpy1_eq [1, 2, 3, 4, 5] 3 0 2 (by decide) (by decide) (by decide)
example : strrchrP CT.wchar none 97 = .ok none := strrchrP_eq CT.wchar none 97 (fun _ _ h => by cases h)
example : strrchr CT.char [98, 97, 98, 97, 0] 1 97 = .ok (some 3) := strrchr_eq CT.char [98, 97, 98, 97, 0] 1 97 (by decide)

end Tetl.C18.Props
