/-
C06 — the single-pass (Cpp17InputIterator) models of Model/SinglePass.lean equal the plain models:
the cursor check never fires, every position of an input range is visited in one forward pass.
The seeded "distance of both ranges first" 4-iterator `equal` is rejected on every pair of non-empty
ranges of equal length.
-/
import Tetl.C06.Model.SinglePass
import TetlProofs.C06.Lemmas
namespace Tetl.C06.SP
open Tetl Tetl.C06
variable {α β : Type}

@[simp] theorem rdS_self (a : List α) (f l i : Nat) : rdS a f l i i = rdR a f l i := by
  simp [rdS]

@[simp] theorem incS_self (i : Nat) : incS i i = .ok (i + 1) := by
  simp [incS]

/-! ### loop lemmas -/

theorem findLoopS_eq (q : α → Bool) (a : List α) (f l n i : Nat) :
    findLoopS q a f l n i i = (findLoop q a f l n i).map (fun r => (r, r)) := by
  induction n generalizing i with
  | zero => simp [findLoopS, findLoop, Except.map]
  | succ n ih =>
    unfold findLoopS findLoop
    simp only [rdS_self, incS_self]
    cases hx : rdR a f l i with
    | error e => simp [Except.map]
    | ok x =>
      simp only [ok_bind]
      cases hq : q x with
      | true => simp [Except.map]
      | false => simp [ih]

theorem countLoopS_eq (q : α → Bool) (a : List α) (f l n i r : Nat) :
    countLoopS q a f l n i i r = countLoop q a f l n i r := by
  induction n generalizing i r with
  | zero => simp [countLoopS, countLoop]
  | succ n ih =>
    unfold countLoopS countLoop
    simp only [rdS_self, incS_self]
    cases hx : rdR a f l i with
    | error e => simp
    | ok x => simp only [ok_bind, ih]

theorem visitLoopS_eq (a : List α) (f l n i : Nat) : visitLoopS a f l n i i = visitLoop a f l n i := by
  induction n generalizing i with
  | zero => simp [visitLoopS, visitLoop]
  | succ n ih =>
    unfold visitLoopS visitLoop
    simp only [rdS_self, incS_self]
    cases hx : rdR a f l i with
    | error e => simp
    | ok x => simp only [ok_bind, ih]

theorem accLoopS_eq (op : β → α → β) (a : List α) (f l n i : Nat) (acc : β) :
    accLoopS op a f l n i i acc = accLoop op a f l n i acc := by
  induction n generalizing i acc with
  | zero => simp [accLoopS, accLoop]
  | succ n ih =>
    unfold accLoopS accLoop
    simp only [rdS_self, incS_self]
    cases hx : rdR a f l i with
    | error e => simp
    | ok x => simp only [ok_bind, ih]

theorem mismatch3LoopS_eq (pred : α → α → Bool) (a : List α) (f l : Nat) (b : List α) (g h n i j : Nat) :
    mismatch3LoopS pred a f l b g h n i i j j = mismatch3Loop pred a f l b g h n i j := by
  induction n generalizing i j with
  | zero => simp [mismatch3LoopS, mismatch3Loop]
  | succ n ih =>
    unfold mismatch3LoopS mismatch3Loop
    simp only [rdS_self, incS_self]
    cases hx : rdR a f l i with
    | error e => simp
    | ok x =>
      simp only [ok_bind]
      cases hy : rdR b g h j with
      | error e => simp
      | ok y => simp only [ok_bind, ih]

theorem equal3LoopS_eq (pred : α → α → Bool) (a : List α) (f l : Nat) (b : List α) (g h n i j : Nat) :
    equal3LoopS pred a f l b g h n i i j j = equal3Loop pred a f l b g h n i j := by
  induction n generalizing i j with
  | zero => simp [equal3LoopS, equal3Loop]
  | succ n ih =>
    unfold equal3LoopS equal3Loop
    simp only [rdS_self, incS_self]
    cases hx : rdR a f l i with
    | error e => simp
    | ok x =>
      simp only [ok_bind]
      cases hy : rdR b g h j with
      | error e => simp
      | ok y => simp only [ok_bind, ih]

theorem lexLoopS_eq (lt : α → α → Bool) (a : List α) (f l : Nat) (b : List α) (g h n i j : Nat) :
    lexLoopS lt a f l b g h n i i j j = lexLoop lt a f l b g h n i j := by
  induction n generalizing i j with
  | zero => simp [lexLoopS, lexLoop]
  | succ n ih =>
    unfold lexLoopS lexLoop
    simp only [rdS_self, incS_self]
    cases hx : rdR a f l i with
    | error e => simp
    | ok x =>
      simp only [ok_bind]
      cases hy : rdR b g h j with
      | error e => simp
      | ok y => simp only [ok_bind, ih]

theorem includesLoopS_eq (lt : α → α → Bool) (a : List α) (f l : Nat) (b : List α) (g h n i j : Nat) :
    includesLoopS lt a f l b g h n i i j j = includesLoop lt a f l b g h n i j := by
  induction n generalizing i j with
  | zero => simp [includesLoopS, includesLoop]
  | succ n ih =>
    unfold includesLoopS includesLoop
    simp only [rdS_self, incS_self]
    cases hy : rdR b g h j with
    | error e => simp
    | ok y =>
      simp only [ok_bind]
      cases hx : rdR a f l i with
      | error e => simp
      | ok x => simp only [ok_bind, ih]

theorem innerLoopS_eq (op1 : β → β → β) (op2 : α → α → β) (a : List α) (f l : Nat) (b : List α)
    (g h n i j : Nat) (acc : β) :
    innerLoopS op1 op2 a f l b g h n i i j j acc = innerLoop op1 op2 a f l b g h n i j acc := by
  induction n generalizing i j acc with
  | zero => simp [innerLoopS, innerLoop]
  | succ n ih =>
    unfold innerLoopS innerLoop
    simp only [rdS_self, incS_self]
    cases hx : rdR a f l i with
    | error e => simp
    | ok x =>
      simp only [ok_bind]
      cases hy : rdR b g h j with
      | error e => simp
      | ok y => simp only [ok_bind, ih]

/-! ### the algorithms -/

/-- projecting the iterator out of the (iterator, cursor) pair of `findLoopS` -/
theorem findLoopS_fst (q : α → Bool) (a : List α) (f l n i : Nat) :
    (do let r ← findLoopS q a f l n i i; Except.ok r.1 : Except Err Nat) = findLoop q a f l n i := by
  rw [findLoopS_eq]
  cases findLoop q a f l n i <;> simp [Except.map]

theorem findIfS_eq (p : α → Bool) (a : List α) (f l : Nat) : findIfS p a f l = findIf p a f l := by
  unfold findIfS findIf
  exact findLoopS_fst p a f l (l - f) f

theorem findIfNotS_eq (p : α → Bool) (a : List α) (f l : Nat) : findIfNotS p a f l = findIfNot p a f l := by
  unfold findIfNotS findIfNot
  exact findLoopS_fst (fun x => !p x) a f l (l - f) f

theorem findS_eq (eq : α → α → Bool) (v : α) (a : List α) (f l : Nat) : findS eq v a f l = find eq v a f l := by
  unfold findS find
  exact findLoopS_fst (fun x => eq x v) a f l (l - f) f

theorem allOfS_eq (p : α → Bool) (a : List α) (f l : Nat) : allOfS p a f l = allOf p a f l := by
  unfold allOfS allOf
  rw [findIfNotS_eq]

theorem anyOfS_eq (p : α → Bool) (a : List α) (f l : Nat) : anyOfS p a f l = anyOf p a f l := by
  unfold anyOfS anyOf
  rw [findIfS_eq]

theorem noneOfS_eq (p : α → Bool) (a : List α) (f l : Nat) : noneOfS p a f l = noneOf p a f l := by
  unfold noneOfS noneOf
  rw [findIfS_eq]

theorem isPartitionedS_eq (p : α → Bool) (a : List α) (f l : Nat) :
    isPartitionedS p a f l = isPartitioned p a f l := by
  unfold isPartitionedS isPartitioned
  rw [findLoopS_eq]
  cases h1 : findLoop (fun x => !p x) a f l (l - f) f with
  | error e => simp [Except.map]
  | ok first =>
    simp only [Except.map, ok_bind]
    rw [findLoopS_eq]
    cases h2 : findLoop p a f l (l - first) first with
    | error e => simp [Except.map]
    | ok r => simp [Except.map]

theorem countIfS_eq (p : α → Bool) (a : List α) (f l : Nat) : countIfS p a f l = countIf p a f l := by
  unfold countIfS countIf
  exact countLoopS_eq p a f l (l - f) f 0

theorem countS_eq (eq : α → α → Bool) (v : α) (a : List α) (f l : Nat) : countS eq v a f l = count eq v a f l := by
  unfold countS count
  exact countLoopS_eq (fun x => eq x v) a f l (l - f) f 0

theorem forEachS_eq (a : List α) (f l : Nat) : forEachS a f l = forEach a f l := by
  unfold forEachS forEach
  exact visitLoopS_eq a f l (l - f) f

theorem forEachNS_eq (a : List α) (f l : Nat) (n : Int) : forEachNS a f l n = forEachN a f l n := by
  unfold forEachNS forEachN
  rw [visitLoopS_eq]

theorem accumulateS_eq (op : β → α → β) (init : β) (a : List α) (f l : Nat) :
    accumulateS op init a f l = accumulate op init a f l := by
  unfold accumulateS accumulate
  exact accLoopS_eq op a f l (l - f) f init

theorem mismatch3S_eq (pred : α → α → Bool) (a : List α) (f l : Nat) (b : List α) (g h : Nat) :
    mismatch3S pred a f l b g h = mismatch3 pred a f l b g h := by
  unfold mismatch3S mismatch3
  exact mismatch3LoopS_eq pred a f l b g h (l - f) f g

theorem mismatch4S_eq (pred : α → α → Bool) (a : List α) (f l : Nat) (b : List α) (g h : Nat) :
    mismatch4S pred a f l b g h = mismatch4 pred a f l b g h := by
  unfold mismatch4S mismatch4
  exact mismatch3LoopS_eq pred a f l b g h (min (l - f) (h - g)) f g

theorem equal3S_eq (pred : α → α → Bool) (a : List α) (f l : Nat) (b : List α) (g h : Nat) :
    equal3S pred a f l b g h = equal3 pred a f l b g h := by
  unfold equal3S equal3
  exact equal3LoopS_eq pred a f l b g h (l - f) f g

theorem equal4S_eq (pred : α → α → Bool) (a : List α) (f l : Nat) (b : List α) (g h : Nat) :
    equal4S pred a f l b g h = equal4Fwd pred a f l b g h := by
  unfold equal4S equal4Fwd
  rw [equal3LoopS_eq]

theorem lexicographicalCompareS_eq (lt : α → α → Bool) (a : List α) (f l : Nat) (b : List α) (g h : Nat) :
    lexicographicalCompareS lt a f l b g h = lexicographicalCompare lt a f l b g h := by
  unfold lexicographicalCompareS lexicographicalCompare
  exact lexLoopS_eq lt a f l b g h (min (l - f) (h - g)) f g

theorem includesS_eq (lt : α → α → Bool) (a : List α) (f l : Nat) (b : List α) (g h : Nat) :
    includesS lt a f l b g h = includes lt a f l b g h := by
  unfold includesS includes
  exact includesLoopS_eq lt a f l b g h (l - f + 1) f g

theorem innerProductS_eq (op1 : β → β → β) (op2 : α → α → β) (init : β) (a : List α) (f l : Nat)
    (b : List α) (g h : Nat) :
    innerProductS op1 op2 init a f l b g h = innerProduct op1 op2 init a f l b g h := by
  unfold innerProductS innerProduct
  exact innerLoopS_eq op1 op2 a f l b g h (l - f) f g init

/-! ### the seeded defect: `distance` of both input ranges before the loop -/

theorem distanceS_eq (n i : Nat) : distanceS n i i = .ok (n, i + n) := by
  induction n generalizing i with
  | zero => simp [distanceS]
  | succ n ih =>
    unfold distanceS
    simp only [incS_self, ok_bind, ih]
    have : i + 1 + n = i + (n + 1) := by omega
    rw [this]

/-- the 3-iterator loop started with a stale copy of `first1` (the stream has moved on) fails at once -/
theorem equal3LoopS_stale (pred : α → α → Bool) (a : List α) (f l : Nat) (b : List α) (g h n c i e j : Nat)
    (hc : i ≠ c) : equal3LoopS pred a f l b g h (n + 1) c i e j = .error (.pre "multipass") := by
  unfold equal3LoopS
  simp [rdS, hc]

/-- on every pair of non-empty ranges of equal length the distance-first code uses a stale copy -/
theorem equal4DistFirstS_multipass (pred : α → α → Bool) (a : List α) (f l : Nat) (b : List α) (g h : Nat)
    (hne : f < l) (hlen : l - f = h - g) :
    equal4DistFirstS pred a f l b g h = .error (.pre "multipass") := by
  unfold equal4DistFirstS
  rw [distanceS_eq, distanceS_eq]
  simp only [ok_bind]
  have hd : ((l - f) != (h - g)) = false := by simp [hlen]
  rw [hd]
  obtain ⟨n, hn⟩ : ∃ n, l - f = n + 1 := ⟨l - f - 1, by omega⟩
  simp only [Bool.false_eq_true, if_false]
  rw [hn]
  exact equal3LoopS_stale pred a f l b g h n _ f _ g (by omega)

/-- the witness of seeded/C06-r3-equal-length-every-category: {0,0} vs {0,1} -/
theorem equal4DistFirstS_witness :
    equal4DistFirstS (fun (x y : Nat) => x == y) [0, 0] 0 2 [0, 1] 0 2 = .error (.pre "multipass") :=
  equal4DistFirstS_multipass _ _ _ _ _ _ _ (by decide) (by decide)

end Tetl.C06.SP
