/-
C06 — bubble_sort / exchange_sort (tetl extensions): for every strict weak order and every input the model
returns `.ok`, leaves the context untouched and the range holds a sorted permutation.
exchange_sort: outer invariant `P ++ (D ++ W) ++ S` with `D` sorted and `D ≤ W`; the inner scan keeps the
key at position `i` ≤ everything scanned.  bubble_sort: outer invariant "prefix `A` sorted"; the inner pass
over `E ++ G ++ [c]` keeps `E`, `G` sorted, `E ≤ c`, `E ≤ G`.
-/
import TetlProofs.C06.Reverse
import TetlProofs.C06.Remove
import TetlProofs.C06.Order
namespace Tetl.C06
open Tetl
variable {α : Type}

theorem bubble_get_fst (X Y Z : List α) (x y : α) :
    (X ++ x :: (Y ++ y :: Z))[X.length]? = some x := by simp

theorem bubble_get_snd (X Y Z : List α) (x y : α) :
    (X ++ x :: (Y ++ y :: Z))[X.length + Y.length + 1]? = some y := by
  rw [List.getElem?_append_right (by omega)]
  have : X.length + Y.length + 1 - X.length = Y.length + 1 := by omega
  rw [this, List.getElem?_cons_succ, List.getElem?_append_right (by omega)]
  simp

theorem bubble_swap_fwd (X Y Z : List α) (x y : α) (f0 l0 : Nat) (hf : f0 ≤ X.length)
    (hl : X.length + Y.length + 1 < l0) :
    swapR (X ++ x :: (Y ++ y :: Z)) f0 l0 X.length (X.length + Y.length + 1)
      = .ok (X ++ y :: (Y ++ x :: Z)) := by
  have := swapR_append X Y Z [] x y f0 l0 hf hl
  simpa [List.append_assoc] using this

theorem bubble_swap_bwd (X Y Z : List α) (x y : α) (f0 l0 : Nat) (hf : f0 ≤ X.length)
    (hl : X.length + Y.length + 1 < l0) :
    swapR (X ++ x :: (Y ++ y :: Z)) f0 l0 (X.length + Y.length + 1) X.length
      = .ok (X ++ y :: (Y ++ x :: Z)) := by
  have e1 : (X ++ x :: (Y ++ y :: Z)).set (X.length + Y.length + 1) x = X ++ x :: (Y ++ x :: Z) := by
    rw [List.set_append_right _ _ (by omega)]
    have : X.length + Y.length + 1 - X.length = Y.length + 1 := by omega
    rw [this, List.set_cons_succ, List.set_append_right _ _ (by omega)]
    simp
  have e2 : (X ++ x :: (Y ++ x :: Z)).set X.length y = X ++ y :: (Y ++ x :: Z) := by
    simp
  unfold swapR
  rw [rdR_at (by omega) hl (bubble_get_snd X Y Z x y), ok_bind,
    rdR_at hf (by omega) (bubble_get_fst X Y Z x y), ok_bind,
    wrR_at x (by omega) hl (by simp; omega), ok_bind, e1,
    wrR_at y hf (by omega) (by simp), e2]

theorem bubble_perm_swap (B T : List α) (c y : α) :
    (y :: (B ++ [c] ++ T)).Perm (c :: (B ++ y :: T)) := by
  have h1 : (y :: (B ++ [c] ++ T)).Perm (y :: c :: (B ++ T)) := by
    refine List.Perm.cons y ?_
    simp only [List.append_assoc, List.cons_append, List.nil_append]
    exact List.perm_middle
  have h2 : (c :: (B ++ y :: T)).Perm (c :: y :: (B ++ T)) := List.Perm.cons c List.perm_middle
  exact h1.trans ((List.Perm.swap c y _).trans h2.symm)

theorem bubble_exchInner (lt : α → α → Bool) (hlt : StrictWeak lt) (X S : List α) (f0 l0 : Nat)
    (hf : f0 ≤ X.length) :
    ∀ (T B : List α) (c : α) (j : Nat), j = X.length + B.length + 1 → j + T.length ≤ l0 →
      (∀ b ∈ B, lt b c = false) →
      ∃ c' U, exchangeInner lt f0 l0 X.length T.length (X ++ c :: (B ++ (T ++ S))) j
          = .ok (X ++ c' :: (U ++ S))
        ∧ (c' :: U).Perm (c :: (B ++ T)) ∧ ∀ u ∈ U, lt u c' = false := by
  intro T
  induction T with
  | nil =>
    intro B c j _ _ hB
    exact ⟨c, B, by simp [exchangeInner], by simp, hB⟩
  | cons y T ih =>
    intro B c j hj hl hB
    simp only [List.length_cons] at hl
    subst hj
    simp only [List.length_cons, List.cons_append]
    unfold exchangeInner
    rw [rdR_at (by omega) (by omega) (bubble_get_snd X B (T ++ S) c y), ok_bind,
      rdR_at hf (by omega) (bubble_get_fst X B (T ++ S) c y), ok_bind]
    cases hyc : lt y c with
    | true =>
      simp only [if_true]
      rw [bubble_swap_fwd X B (T ++ S) c y f0 l0 hf (by omega), ok_bind]
      have e : B ++ c :: (T ++ S) = (B ++ [c]) ++ (T ++ S) := by simp
      rw [e]
      have hB' : ∀ b ∈ B ++ [c], lt b y = false := by
        intro b hb
        rcases List.mem_append.mp hb with h | h
        · exact hlt.le_trans (hlt.asymm hyc) (hB b h)
        · simp only [List.mem_singleton] at h
          subst h
          exact hlt.asymm hyc
      obtain ⟨c', U, h1, h2, h3⟩ := ih (B ++ [c]) y (X.length + B.length + 1 + 1)
        (by simp only [List.length_append, List.length_cons, List.length_nil]; omega) (by omega) hB'
      exact ⟨c', U, h1, h2.trans (bubble_perm_swap B T c y), h3⟩
    | false =>
      simp only [Bool.false_eq_true, if_false]
      have e : B ++ y :: (T ++ S) = (B ++ [y]) ++ (T ++ S) := by simp
      rw [e]
      have hB' : ∀ b ∈ B ++ [y], lt b c = false := by
        intro b hb
        rcases List.mem_append.mp hb with h | h
        · exact hB b h
        · simp only [List.mem_singleton] at h
          subst h
          exact hyc
      obtain ⟨c', U, h1, h2, h3⟩ := ih (B ++ [y]) c (X.length + B.length + 1 + 1)
        (by simp only [List.length_append, List.length_cons, List.length_nil]; omega) (by omega) hB'
      refine ⟨c', U, h1, ?_, h3⟩
      have e2 : c :: (B ++ [y] ++ T) = c :: (B ++ y :: T) := by simp
      rw [← e2]
      exact h2

theorem bubble_sorted_snoc (lt : α → α → Bool) (D : List α) (c : α) (hD : Sorted lt D)
    (h : ∀ d ∈ D, lt c d = false) : Sorted lt (D ++ [c]) := by
  unfold Sorted at *
  rw [List.pairwise_append]
  refine ⟨hD, List.pairwise_singleton _ _, ?_⟩
  intro d hd y hy
  simp only [List.mem_singleton] at hy
  subst hy
  exact h d hd

theorem bubble_exchOuter (lt : α → α → Bool) (hlt : StrictWeak lt) (P S : List α) :
    ∀ (n : Nat) (D W : List α) (i l : Nat), W.length = n + 1 → i = P.length + D.length →
      l = P.length + D.length + W.length → Sorted lt D → (∀ d ∈ D, ∀ w ∈ W, lt w d = false) →
      ∃ R', exchangeOuter lt P.length l n (P ++ (D ++ W) ++ S) i = .ok (P ++ R' ++ S)
        ∧ R'.Perm (D ++ W) ∧ Sorted lt R' := by
  intro n
  induction n with
  | zero =>
    intro D W i l hW _ _ hD hDW
    match W, hW with
    | [w], _ =>
      refine ⟨D ++ [w], by unfold exchangeOuter; rfl, List.Perm.refl _, ?_⟩
      exact bubble_sorted_snoc lt D w hD (fun d hd => hDW d hd w (by simp))
  | succ n ih =>
    intro D W i l hW hi hl hD hDW
    match W, hW with
    | c :: T, hW =>
      simp only [List.length_cons] at hW hl
      unfold exchangeOuter
      have ht : l - (i + 1) = T.length := by omega
      have hi' : i = (P ++ D).length := by simp only [List.length_append]; exact hi
      have e : P ++ (D ++ c :: T) ++ S = (P ++ D) ++ c :: ([] ++ (T ++ S)) := by simp
      rw [ht, e, hi']
      obtain ⟨c', U, h1, h2, h3⟩ := bubble_exchInner lt hlt (P ++ D) S P.length l
        (by simp only [List.length_append]; omega) T [] c ((P ++ D).length + 1) (by simp)
        (by simp only [List.length_append]; omega) (by simp)
      rw [h1, ok_bind]
      have hlen : U.length = n + 1 := by
        have := h2.length_eq
        simp only [List.length_cons, List.nil_append] at this
        omega
      have hc'mem : c' ∈ c :: T := by
        have := h2.subset (List.mem_cons_self)
        simpa using this
      have hUmem : ∀ u ∈ U, u ∈ c :: T := by
        intro u hu
        have := h2.subset (List.mem_cons_of_mem _ hu)
        simpa using this
      have e2 : (P ++ D) ++ c' :: (U ++ S) = P ++ ((D ++ [c']) ++ U) ++ S := by simp
      rw [e2]
      obtain ⟨R', g1, g2, g3⟩ := ih (D ++ [c']) U ((P ++ D).length + 1) l hlen
        (by simp only [List.length_append, List.length_cons, List.length_nil]; omega)
        (by simp only [List.length_append, List.length_cons, List.length_nil]; omega)
        (bubble_sorted_snoc lt D c' hD (fun d hd => hDW d hd c' hc'mem))
        (by
          intro d hd w hw
          rcases List.mem_append.mp hd with h | h
          · exact hDW d h w (hUmem w hw)
          · simp only [List.mem_singleton] at h
            subst h
            exact h3 w hw)
      refine ⟨R', g1, ?_, g3⟩
      refine g2.trans ?_
      rw [List.append_assoc]
      refine List.Perm.append_left D ?_
      simpa using h2

theorem exchangeSort_spec (lt : α → α → Bool) (hlt : StrictWeak lt) (P R S : List α) :
    ∃ R', exchangeSort lt (P ++ R ++ S) P.length (P.length + R.length) = .ok (P ++ R' ++ S)
        ∧ R'.Perm R ∧ Sorted lt R' := by
  unfold exchangeSort
  match R with
  | [] =>
    refine ⟨[], ?_, List.Perm.refl _, List.Pairwise.nil⟩
    simp
  | c :: T =>
    have hne : (P.length == P.length + (c :: T).length) = false := by simp
    have hp : prevR P.length (P.length + (c :: T).length) (P.length + (c :: T).length)
        = .ok (P.length + T.length) := by
      unfold prevR
      rw [if_pos (by simp)]
      simp only [List.length_cons]
      rfl
    rw [hne, hp]
    simp only [Bool.false_eq_true, if_false, ok_bind]
    have : P.length + T.length - P.length = T.length := by omega
    rw [this]
    have := bubble_exchOuter lt hlt P S T.length [] (c :: T) P.length (P.length + (c :: T).length)
      (by simp) (by simp) (by simp) List.Pairwise.nil (by simp)
    simpa using this

example : StrictWeak (fun x y : Nat => decide (x < y)) := strictWeak_nat

theorem bubble_inner (lt : α → α → Bool) (hlt : StrictWeak lt) (X Z : List α) (f0 l0 : Nat)
    (hf : f0 ≤ X.length) :
    ∀ (G E : List α) (c : α) (i j : Nat), i = X.length + E.length + G.length → j = X.length + E.length →
      i < l0 → Sorted lt E → Sorted lt G → (∀ e ∈ E, lt c e = false) →
      (∀ e ∈ E, ∀ g ∈ G, lt g e = false) →
      ∃ E' c', bubbleInner lt f0 l0 i G.length (X ++ (E ++ (G ++ c :: Z))) j
          = .ok (X ++ (E' ++ c' :: Z))
        ∧ (E' ++ [c']).Perm (E ++ G ++ [c]) ∧ Sorted lt (E' ++ [c']) := by
  intro G
  induction G with
  | nil =>
    intro E c i j _ _ _ hE _ hEc _
    exact ⟨E, c, by simp [bubbleInner], by simp, bubble_sorted_snoc lt E c hE hEc⟩
  | cons y G ih =>
    intro E c i j hi hj hl hE hG hEc hEG
    simp only [List.length_cons] at hi
    have hG' := List.pairwise_cons.mp hG
    have e0 : X ++ (E ++ (y :: G ++ c :: Z)) = (X ++ E) ++ y :: (G ++ c :: Z) := by simp
    have hi' : i = (X ++ E).length + G.length + 1 := by simp only [List.length_append]; omega
    have hj' : j = (X ++ E).length := by simp only [List.length_append]; omega
    have hf' : f0 ≤ (X ++ E).length := by simp only [List.length_append]; omega
    simp only [List.length_cons]
    unfold bubbleInner
    rw [e0, hi', hj']
    rw [rdR_at (by omega) (by omega) (bubble_get_snd (X ++ E) G Z y c), ok_bind,
      rdR_at hf' (by omega) (bubble_get_fst (X ++ E) G Z y c), ok_bind]
    cases hcy : lt c y with
    | true =>
      simp only [if_true]
      rw [bubble_swap_bwd (X ++ E) G Z y c f0 l0 hf' (by omega), ok_bind]
      have e : (X ++ E) ++ c :: (G ++ y :: Z) = X ++ ((E ++ [c]) ++ (G ++ y :: Z)) := by simp
      rw [e]
      obtain ⟨E', c', h1, h2, h3⟩ := ih (E ++ [c]) y ((X ++ E).length + G.length + 1) ((X ++ E).length + 1)
        (by simp only [List.length_append, List.length_cons, List.length_nil]; omega)
        (by simp only [List.length_append, List.length_cons, List.length_nil]; omega)
        (by omega) (bubble_sorted_snoc lt E c hE hEc) hG'.2
        (by
          intro e he
          rcases List.mem_append.mp he with h | h
          · exact hEG e h y (by simp)
          · simp only [List.mem_singleton] at h
            subst h
            exact hlt.asymm hcy)
        (by
          intro e he g hg
          rcases List.mem_append.mp he with h | h
          · exact hEG e h g (by simp [hg])
          · simp only [List.mem_singleton] at h
            subst h
            exact hlt.le_trans (hlt.asymm hcy) (hG'.1 g hg))
      refine ⟨E', c', h1, h2.trans ?_, h3⟩
      -- E ++ [c] ++ G ++ [y] ~ E ++ y :: G ++ [c]
      simp only [List.append_assoc, List.cons_append, List.nil_append]
      refine List.Perm.append_left E ?_
      have := bubble_perm_swap G [] y c
      simp only [List.append_assoc, List.cons_append, List.nil_append] at this
      exact this
    | false =>
      simp only [Bool.false_eq_true, if_false]
      have e : (X ++ E) ++ y :: (G ++ c :: Z) = X ++ ((E ++ [y]) ++ (G ++ c :: Z)) := by simp
      rw [e]
      obtain ⟨E', c', h1, h2, h3⟩ := ih (E ++ [y]) c ((X ++ E).length + G.length + 1) ((X ++ E).length + 1)
        (by simp only [List.length_append, List.length_cons, List.length_nil]; omega)
        (by simp only [List.length_append, List.length_cons, List.length_nil]; omega)
        (by omega) (bubble_sorted_snoc lt E y hE (fun e he => hEG e he y (by simp))) hG'.2
        (by
          intro e he
          rcases List.mem_append.mp he with h | h
          · exact hEc e h
          · simp only [List.mem_singleton] at h
            subst h
            exact hcy)
        (by
          intro e he g hg
          rcases List.mem_append.mp he with h | h
          · exact hEG e h g (by simp [hg])
          · simp only [List.mem_singleton] at h
            subst h
            exact hG'.1 g hg)
      refine ⟨E', c', h1, h2.trans ?_, h3⟩
      simp

theorem bubble_outer (lt : α → α → Bool) (hlt : StrictWeak lt) (P S : List α) :
    ∀ (W A : List α) (i l : Nat), i = P.length + A.length → l = P.length + A.length + W.length →
      Sorted lt A →
      ∃ R', bubbleOuter lt P.length l W.length (P ++ (A ++ W) ++ S) i = .ok (P ++ R' ++ S)
        ∧ R'.Perm (A ++ W) ∧ Sorted lt R' := by
  intro W
  induction W with
  | nil =>
    intro A i l _ _ hA
    exact ⟨A, by simp [bubbleOuter], by simp, hA⟩
  | cons c W ih =>
    intro A i l hi hl hA
    simp only [List.length_cons] at hl ⊢
    unfold bubbleOuter
    have ht : i - P.length = A.length := by omega
    have e : P ++ (A ++ c :: W) ++ S = P ++ ([] ++ (A ++ c :: (W ++ S))) := by simp
    rw [ht, e]
    obtain ⟨E', c', h1, h2, h3⟩ := bubble_inner lt hlt P (W ++ S) P.length l (Nat.le_refl _) A [] c i
      P.length (by simp only [List.length_nil]; omega) (by simp) (by omega) List.Pairwise.nil hA
      (by simp) (by simp)
    rw [h1, ok_bind]
    have hlen : E'.length = A.length := by
      have := h2.length_eq
      simp only [List.length_append, List.length_cons, List.length_nil] at this
      omega
    have e2 : P ++ (E' ++ c' :: (W ++ S)) = P ++ ((E' ++ [c']) ++ W) ++ S := by simp
    rw [e2]
    obtain ⟨R', g1, g2, g3⟩ := ih (E' ++ [c']) (i + 1) l
      (by simp only [List.length_append, List.length_cons, List.length_nil]; omega)
      (by simp only [List.length_append, List.length_cons, List.length_nil]; omega) h3
    refine ⟨R', g1, g2.trans ?_, g3⟩
    have : (E' ++ [c'] ++ W).Perm (A ++ [c] ++ W) := by
      refine List.Perm.append_right W ?_
      simpa using h2
    simpa using this

theorem bubbleSort_spec (lt : α → α → Bool) (hlt : StrictWeak lt) (P R S : List α) :
    ∃ R', bubbleSort lt (P ++ R ++ S) P.length (P.length + R.length) = .ok (P ++ R' ++ S)
        ∧ R'.Perm R ∧ Sorted lt R' := by
  unfold bubbleSort
  rw [Nat.add_sub_cancel_left]
  have := bubble_outer lt hlt P S R [] P.length (P.length + R.length) (by simp) (by simp)
    List.Pairwise.nil
  simpa using this

example : StrictWeak (fun x y : Nat => decide (x < y)) := strictWeak_nat
end Tetl.C06
