/-
C06 — in-place element-wise loops (fill / generate / replace_if / iota) and swap_ranges.
Invariant: the storage is `P ++ D ++ T ++ S` with `D` the positions already rewritten.
-/
import TetlProofs.C06.Remove
namespace Tetl.C06
open Tetl
variable {α : Type}

theorem fillLoop_spec (v : α) (P S : List α) (f0 l0 : Nat) (hf : f0 ≤ P.length) :
    ∀ (T D : List α), P.length + D.length + T.length ≤ l0 →
    fillLoop f0 l0 v T.length (P ++ D ++ T ++ S) (P.length + D.length)
      = .ok (P ++ D ++ List.replicate T.length v ++ S, P.length + D.length + T.length) := by
  intro T
  induction T with
  | nil => intro D _; simp [fillLoop]
  | cons t T ih =>
    intro D hl
    simp only [List.length_cons] at hl ⊢
    unfold fillLoop
    rw [show P ++ D ++ (t :: T) ++ S = (P ++ D) ++ t :: (T ++ S) from by simp,
      show P.length + D.length = (P ++ D).length from by simp,
      wrR_mid _ _ t v f0 l0 (by simp; omega) (by simp; omega), ok_bind,
      show (P ++ D) ++ v :: (T ++ S) = P ++ (D ++ [v]) ++ T ++ S from by simp,
      show (P ++ D).length + 1 = P.length + (D ++ [v]).length from by simp; omega,
      ih (D ++ [v]) (by simp; omega)]
    simp [List.replicate_succ, List.append_assoc]
    omega

theorem genLoop_spec (g : Nat → α) (P S : List α) (f0 l0 : Nat) (hf : f0 ≤ P.length) :
    ∀ (T D : List α) (k : Nat), P.length + D.length + T.length ≤ l0 →
    genLoop f0 l0 g T.length (P ++ D ++ T ++ S) (P.length + D.length) k
      = .ok (P ++ D ++ (List.range' k T.length).map g ++ S, P.length + D.length + T.length) := by
  intro T
  induction T with
  | nil => intro D k _; simp [genLoop]
  | cons t T ih =>
    intro D k hl
    simp only [List.length_cons] at hl ⊢
    unfold genLoop
    rw [show P ++ D ++ (t :: T) ++ S = (P ++ D) ++ t :: (T ++ S) from by simp,
      show P.length + D.length = (P ++ D).length from by simp,
      wrR_mid _ _ t (g k) f0 l0 (by simp; omega) (by simp; omega), ok_bind,
      show (P ++ D) ++ g k :: (T ++ S) = P ++ (D ++ [g k]) ++ T ++ S from by simp,
      show (P ++ D).length + 1 = P.length + (D ++ [g k]).length from by simp; omega,
      ih (D ++ [g k]) (k + 1) (by simp; omega)]
    simp [List.range'_succ, List.append_assoc]
    omega

theorem replaceIfLoop_spec (p : α → Bool) (w : α) (P S : List α) (f0 l0 : Nat) (hf : f0 ≤ P.length) :
    ∀ (T D : List α), P.length + D.length + T.length ≤ l0 →
    replaceIfLoop p w f0 l0 T.length (P ++ D ++ T ++ S) (P.length + D.length)
      = .ok (P ++ D ++ Spec.replace p w T ++ S) := by
  intro T
  induction T with
  | nil => intro D _; simp [replaceIfLoop, Spec.replace]
  | cons t T ih =>
    intro D hl
    simp only [List.length_cons] at hl ⊢
    unfold replaceIfLoop
    rw [show P ++ D ++ (t :: T) ++ S = (P ++ D) ++ t :: (T ++ S) from by simp,
      show P.length + D.length = (P ++ D).length from by simp,
      rdR_mid _ _ t f0 l0 (by simp; omega) (by simp; omega), ok_bind]
    by_cases hp : p t
    · rw [if_pos hp, wrR_mid _ _ t w f0 l0 (by simp; omega) (by simp; omega), ok_bind,
        show (P ++ D) ++ w :: (T ++ S) = P ++ (D ++ [w]) ++ T ++ S from by simp,
        show (P ++ D).length + 1 = P.length + (D ++ [w]).length from by simp; omega,
        ih (D ++ [w]) (by simp; omega)]
      simp [Spec.replace, hp, List.append_assoc]
    · rw [if_neg hp,
        show (P ++ D) ++ t :: (T ++ S) = P ++ (D ++ [t]) ++ T ++ S from by simp,
        show (P ++ D).length + 1 = P.length + (D ++ [t]).length from by simp; omega,
        ih (D ++ [t]) (by simp; omega)]
      simp [Spec.replace, hp, List.append_assoc]

theorem swapRangesLoop_spec (S U : List α) (f0 l0 g0 h0 : Nat) :
    ∀ (R T P Q : List α), R.length = T.length → f0 ≤ P.length → P.length + R.length ≤ l0 →
      g0 ≤ Q.length → Q.length + T.length ≤ h0 →
    swapRangesLoop f0 l0 g0 h0 R.length (P ++ R ++ S) (Q ++ T ++ U) P.length Q.length
      = .ok (P ++ T ++ S, Q ++ R ++ U, Q.length + R.length) := by
  intro R
  induction R with
  | nil =>
    intro T P Q hlen _ _ _ _
    have : T = [] := List.eq_nil_of_length_eq_zero (by simpa using hlen.symm)
    subst this
    simp [swapRangesLoop]
  | cons x R ih =>
    intro T P Q hlen hf hl hg hh
    match T, hlen with
    | y :: T, hlen =>
      simp only [List.length_cons] at hlen hl hh ⊢
      unfold swapRangesLoop
      rw [show P ++ (x :: R) ++ S = P ++ x :: (R ++ S) from by simp,
        show Q ++ (y :: T) ++ U = Q ++ y :: (T ++ U) from by simp,
        rdR_mid P _ x f0 l0 hf (by omega), ok_bind, rdR_mid Q _ y g0 h0 hg (by omega), ok_bind,
        wrR_mid P _ x y f0 l0 hf (by omega), ok_bind, wrR_mid Q _ y x g0 h0 hg (by omega), ok_bind,
        show P ++ y :: (R ++ S) = (P ++ [y]) ++ R ++ S from by simp,
        show Q ++ x :: (T ++ U) = (Q ++ [x]) ++ T ++ U from by simp,
        show P.length + 1 = (P ++ [y]).length from by simp,
        show Q.length + 1 = (Q ++ [x]).length from by simp,
        ih T (P ++ [y]) (Q ++ [x]) (by omega) (by simp; omega) (by simp; omega) (by simp; omega) (by simp; omega)]
      simp [List.append_assoc]
      omega

end Tetl.C06
