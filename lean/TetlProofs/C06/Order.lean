/-
C06 — the standard's requirements on comparators and binary predicates, as hypotheses of the
order-related theorems: `StrictWeak lt` ([alg.sorting]/3-4: Compare induces a strict weak ordering),
`EquivB eq` (BinaryPredicate of is_permutation etc. is an equivalence relation), `Sorted lt R`
([alg.sorting]/5: no element is less than an earlier one).  Plus: a sorted permutation that keeps every
class of equivalent elements in its original order is unique, and it is `List.mergeSort` (= the spec of
the stable sorts).
-/
import TetlProofs.C06.Lemmas
namespace Tetl.C06
open Tetl
variable {α : Type}

/-- `comp` induces a strict weak ordering: irreflexive, transitive, and incomparability is transitive -/
structure StrictWeak (lt : α → α → Bool) : Prop where
  irrefl : ∀ x, lt x x = false
  trans : ∀ x y z, lt x y = true → lt y z = true → lt x z = true
  incomp_trans : ∀ x y z, lt x y = false → lt y x = false → lt y z = false → lt z y = false →
    lt x z = false ∧ lt z x = false

/-- a binary predicate that is an equivalence relation -/
structure EquivB (eq : α → α → Bool) : Prop where
  refl : ∀ x, eq x x = true
  symm : ∀ x y, eq x y = true → eq y x = true
  trans : ∀ x y z, eq x y = true → eq y z = true → eq x z = true

/-- sorted with respect to `lt`: no element is less than an earlier one -/
def Sorted (lt : α → α → Bool) (R : List α) : Prop := R.Pairwise (fun x y => lt y x = false)

namespace StrictWeak
variable {lt : α → α → Bool}

theorem asymm (h : StrictWeak lt) {x y : α} (hxy : lt x y = true) : lt y x = false := by
  cases hyx : lt y x with
  | false => rfl
  | true => have := h.trans x y x hxy hyx; rw [h.irrefl] at this; cases this

/-- negative transitivity: `x < z → x < y ∨ y < z` -/
theorem neg_trans (h : StrictWeak lt) {x y z : α} (hxz : lt x z = true) : lt x y = true ∨ lt y z = true := by
  cases hxy : lt x y with
  | true => exact Or.inl rfl
  | false =>
    cases hyz : lt y z with
    | true => exact Or.inr rfl
    | false =>
      exfalso
      cases hyx : lt y x with
      | true => have := h.trans y x z hyx hxz; rw [hyz] at this; cases this
      | false =>
        cases hzy : lt z y with
        | true => have := h.trans x z y hxz hzy; rw [hxy] at this; cases this
        | false => have := (h.incomp_trans x y z hxy hyx hyz hzy).1; rw [hxz] at this; cases this

/-- `x ≤ y ≤ z → x ≤ z` where `a ≤ b := !(b < a)` -/
theorem le_trans (h : StrictWeak lt) {x y z : α} (hxy : lt y x = false) (hyz : lt z y = false) : lt z x = false := by
  cases hzx : lt z x with
  | false => rfl
  | true => rcases h.neg_trans (y := y) hzx with h1 | h1 <;> simp_all

theorem le_total (h : StrictWeak lt) (x y : α) : lt y x = false ∨ lt x y = false := by
  cases hyx : lt y x with
  | false => exact Or.inl rfl
  | true => exact Or.inr (h.asymm hyx)

/-- `x < y ≤ z → x < z` -/
theorem lt_of_lt_of_le (h : StrictWeak lt) {x y z : α} (hxy : lt x y = true) (hyz : lt z y = false) : lt x z = true := by
  rcases h.neg_trans (y := z) hxy with h1 | h1
  · exact h1
  · rw [hyz] at h1; cases h1

/-- `x ≤ y < z → x < z` -/
theorem lt_of_le_of_lt (h : StrictWeak lt) {x y z : α} (hxy : lt y x = false) (hyz : lt y z = true) : lt x z = true := by
  rcases h.neg_trans (y := x) hyz with h1 | h1
  · rw [hxy] at h1; cases h1
  · exact h1

/-- the comparator the spec hands to `List.mergeSort` / `List.merge` -/
theorem le_trans' (h : StrictWeak lt) (a b c : α) :
    (!lt b a) = true → (!lt c b) = true → (!lt c a) = true := by
  intro h1 h2
  simp only [Bool.not_eq_true'] at *
  exact h.le_trans h1 h2

theorem le_total' (h : StrictWeak lt) (a b : α) : ((!lt b a) || (!lt a b)) = true := by
  rcases h.le_total a b with h1 | h1 <;> simp [h1]

theorem equiv_refl (h : StrictWeak lt) (x : α) : Spec.equiv lt x x = true := by simp [Spec.equiv, h.irrefl]
theorem equiv_symm (_h : StrictWeak lt) {x y : α} (hxy : Spec.equiv lt x y = true) : Spec.equiv lt y x = true := by
  simp only [Spec.equiv, Bool.and_eq_true, Bool.not_eq_true'] at *; exact ⟨hxy.2, hxy.1⟩
theorem equiv_trans (h : StrictWeak lt) {x y z : α} (hxy : Spec.equiv lt x y = true) (hyz : Spec.equiv lt y z = true) :
    Spec.equiv lt x z = true := by
  simp only [Spec.equiv, Bool.and_eq_true, Bool.not_eq_true'] at *
  exact h.incomp_trans x y z hxy.1 hxy.2 hyz.1 hyz.2

end StrictWeak

/-- the usual `<` on `Nat` is a strict weak order (used by the non-vacuity examples) -/
theorem strictWeak_nat : StrictWeak (fun x y : Nat => decide (x < y)) where
  irrefl := by intro x; simp
  trans := by intro x y z; simp; omega
  incomp_trans := by intro x y z; simp; omega

theorem equivB_nat : EquivB (fun x y : Nat => x == y) where
  refl := by intro x; simp
  symm := by intro x y; simp; omega
  trans := by intro x y z; simp; omega

/-! ### uniqueness of the stable sorted permutation -/

/-- two sorted lists that are permutations of each other and list every class of equivalent elements in the
    same order are equal -/
theorem sorted_stable_unique {lt : α → α → Bool} (hlt : StrictWeak lt) : ∀ (L M : List α), L.Perm M → Sorted lt L → Sorted lt M →
    (∀ x, L.filter (Spec.equiv lt x) = M.filter (Spec.equiv lt x)) → L = M := by
  intro L
  induction L with
  | nil => intro M hp _ _ _; exact hp.symm.eq_nil.symm
  | cons a t ih =>
    intro M hp hL hM hf
    match M, hp with
    | [], hp => exact absurd hp.eq_nil (by simp)
    | b :: u, hp =>
      have haM : a ∈ b :: u := hp.subset (List.mem_cons_self)
      have hbL : b ∈ a :: t := hp.symm.subset (List.mem_cons_self)
      have hL' := List.pairwise_cons.mp hL
      have hM' := List.pairwise_cons.mp hM
      have hab : a = b := by
        by_cases he : a = b
        · exact he
        · have h1 : lt b a = false := by
            rcases List.mem_cons.mp hbL with h | h
            · exact absurd h.symm he
            · exact hL'.1 b h
          have h2 : lt a b = false := by
            rcases List.mem_cons.mp haM with h | h
            · exact absurd h he
            · exact hM'.1 a h
          have hfa := hf a
          have e1 : Spec.equiv lt a a = true := hlt.equiv_refl a
          have e2 : Spec.equiv lt a b = true := by simp [Spec.equiv, h1, h2]
          rw [List.filter_cons_of_pos e1, List.filter_cons_of_pos e2] at hfa
          exact (List.cons.inj hfa).1
      subst hab
      congr 1
      refine ih u (List.Perm.cons_inv hp) hL'.2 hM'.2 ?_
      intro x
      have := hf x
      by_cases hx : Spec.equiv lt x a = true
      · rw [List.filter_cons_of_pos hx, List.filter_cons_of_pos hx] at this
        exact (List.cons.inj this).2
      · rw [List.filter_cons_of_neg hx, List.filter_cons_of_neg hx] at this
        exact this

theorem stableSort_perm (lt : α → α → Bool) (R : List α) : (Spec.stableSort lt R).Perm R :=
  List.mergeSort_perm R _

theorem stableSort_sorted {lt : α → α → Bool} (hlt : StrictWeak lt) (R : List α) : Sorted lt (Spec.stableSort lt R) := by
  have := List.pairwise_mergeSort (le := fun x y => !lt y x) hlt.le_trans' hlt.le_total' R
  unfold Sorted Spec.stableSort
  exact this.imp (by intro a b h; simpa using h)

/-- stability of the spec: every class of equivalent elements keeps its original order -/
theorem stableSort_filter {lt : α → α → Bool} (hlt : StrictWeak lt) (R : List α) (x : α) :
    (Spec.stableSort lt R).filter (Spec.equiv lt x) = R.filter (Spec.equiv lt x) := by
  have hsub : (R.filter (Spec.equiv lt x)).Sublist (Spec.stableSort lt R) := by
    refine List.sublist_mergeSort (le := fun x y => !lt y x) hlt.le_trans' hlt.le_total' ?_ List.filter_sublist
    have hall : ∀ a ∈ R.filter (Spec.equiv lt x), ∀ b ∈ R.filter (Spec.equiv lt x), (!lt b a) = true := by
      intro a ha b hb
      have := hlt.equiv_trans (hlt.equiv_symm (List.mem_filter.mp ha).2) (List.mem_filter.mp hb).2
      simp only [Spec.equiv, Bool.and_eq_true, Bool.not_eq_true'] at this
      simp [this.2]
    exact List.pairwise_of_forall_mem_list hall
  have h2 := hsub.filter (Spec.equiv lt x)
  rw [List.filter_filter] at h2
  simp only [Bool.and_self] at h2
  refine (h2.eq_of_length ?_).symm
  rw [← List.countP_eq_length_filter, ← List.countP_eq_length_filter]
  exact ((stableSort_perm lt R).countP_eq _).symm

/-- the stable sorted permutation is unique: it is the spec of stable_sort -/
theorem stableSort_unique {lt : α → α → Bool} (hlt : StrictWeak lt) (L R : List α) (hp : L.Perm R) (hs : Sorted lt L)
    (hf : ∀ x, L.filter (Spec.equiv lt x) = R.filter (Spec.equiv lt x)) : L = Spec.stableSort lt R :=
  sorted_stable_unique hlt L _ (hp.trans (stableSort_perm lt R).symm) hs (stableSort_sorted hlt R)
    (fun x => (hf x).trans (stableSort_filter hlt R x).symm)

end Tetl.C06
