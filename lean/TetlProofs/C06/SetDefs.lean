/-
C06 — the two-cursor loops of includes / set_difference / set_intersection / set_symmetric_difference /
set_union as recursive functions on the two remaining ranges (the bridge between the index loops of the
model and the rank-based declarative specs).
-/
import TetlProofs.C06.Order
namespace Tetl.C06
open Tetl
variable {α : Type}

def diffL (lt : α → α → Bool) : List α → List α → List α
  | [], _ => []
  | x :: xs, [] => x :: xs
  | x :: xs, y :: ys =>
    if lt x y then x :: diffL lt xs (y :: ys)
    else if !lt y x then diffL lt xs ys
    else diffL lt (x :: xs) ys
termination_by xs ys => xs.length + ys.length

def interL (lt : α → α → Bool) : List α → List α → List α
  | [], _ => []
  | _ :: _, [] => []
  | x :: xs, y :: ys =>
    if lt x y then interL lt xs (y :: ys)
    else if !lt y x then x :: interL lt xs ys
    else interL lt (x :: xs) ys
termination_by xs ys => xs.length + ys.length

def symL (lt : α → α → Bool) : List α → List α → List α
  | [], ys => ys
  | x :: xs, [] => x :: xs
  | x :: xs, y :: ys =>
    if lt x y then x :: symL lt xs (y :: ys)
    else if lt y x then y :: symL lt (x :: xs) ys
    else symL lt xs ys
termination_by xs ys => xs.length + ys.length

def unionL (lt : α → α → Bool) : List α → List α → List α
  | [], ys => ys
  | x :: xs, [] => x :: xs
  | x :: xs, y :: ys =>
    if lt y x then y :: unionL lt (x :: xs) ys
    else if !lt x y then x :: unionL lt xs ys
    else x :: unionL lt xs (y :: ys)
termination_by xs ys => xs.length + ys.length

/-- `includes(r, s)`: `r` the containing range, `s` the candidate subsequence -/
def inclL (lt : α → α → Bool) : List α → List α → Bool
  | _, [] => true
  | [], _ :: _ => false
  | x :: xs, y :: ys =>
    if lt y x then false
    else if !lt x y then inclL lt xs ys
    else inclL lt xs (y :: ys)
termination_by xs ys => xs.length + ys.length

end Tetl.C06
