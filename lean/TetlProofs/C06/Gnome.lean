/-
C06 — gnome_sort (= sort, nth_element, partial_sort).  Invariant: the storage is `P ++ A ++ B ++ S` with the
cursor at `|P| + |A|` and `A` sorted (after a swap the cursor steps back and the rest is re-walked).
Termination inside the model's fuel: the measure `2 * inversions (A ++ B) + |B|` drops by one per iteration
and is at most `n * n`.
-/
import TetlProofs.C06.Reverse
import TetlProofs.C06.Remove
import TetlProofs.C06.Order
namespace Tetl.C06
open Tetl
variable {α : Type}

/-- number of inversions: pairs `a < b` of positions with `lt M[b] M[a]` -/
def gnome_inv (lt : α → α → Bool) : List α → Nat
  | [] => 0
  | x :: t => t.countP (fun y => lt y x) + gnome_inv lt t

theorem gnome_inv_swap (lt : α → α → Bool) (x y : α) (hxy : lt x y = true) (hyx : lt y x = false) (Y : List α) :
    ∀ X : List α, gnome_inv lt (X ++ y :: x :: Y) = gnome_inv lt (X ++ x :: y :: Y) + 1 := by
  intro X
  induction X with
  | nil =>
    simp only [List.nil_append, gnome_inv, List.countP_cons, hxy, hyx]
    simp
    omega
  | cons h X ih =>
    simp only [List.cons_append, gnome_inv, ih, List.countP_append, List.countP_cons]
    omega

theorem gnome_inv_bound (lt : α → α → Bool) : ∀ M : List α, 2 * gnome_inv lt M + M.length ≤ M.length * M.length := by
  intro M
  induction M with
  | nil => simp [gnome_inv]
  | cons x t ih =>
    have h1 : t.countP (fun y => lt y x) ≤ t.length := List.countP_le_length
    have h2 : (t.length + 1) * (t.length + 1) = t.length * t.length + 2 * t.length + 1 := by
      rw [Nat.add_mul, Nat.mul_add]; omega
    simp only [gnome_inv, List.length_cons]
    rw [h2]
    omega

/-- `iter_swap(i, prev(i))` on two adjacent elements -/
theorem gnome_swap_adj (X Y : List α) (x y : α) (f0 l0 : Nat) (hf : f0 ≤ X.length) (hl : X.length + 1 < l0) :
    swapR (X ++ y :: x :: Y) f0 l0 (X.length + 1) X.length = .ok (X ++ x :: y :: Y) := by
  have h1 : (X ++ y :: x :: Y)[X.length + 1]? = some x := by
    rw [List.getElem?_append_right (by omega)]
    have : X.length + 1 - X.length = 1 := by omega
    rw [this]; rfl
  have h2 : (X ++ y :: x :: Y)[X.length]? = some y := by simp
  have e1 : (X ++ y :: x :: Y).set (X.length + 1) y = X ++ y :: y :: Y := by
    rw [List.set_append_right _ _ (by omega)]
    have : X.length + 1 - X.length = 1 := by omega
    rw [this]; rfl
  have e2 : (X ++ y :: y :: Y).set X.length x = X ++ x :: y :: Y := by simp
  unfold swapR
  rw [rdR_at (by omega) hl h1, ok_bind, rdR_at hf (by omega) h2, ok_bind,
    wrR_at y (by omega) hl (by simp), ok_bind, e1,
    wrR_at x hf (by omega) (by simp), e2]

theorem gnome_sorted_snoc {lt : α → α → Bool} (hlt : StrictWeak lt) (A : List α) (y x : α)
    (hs : Sorted lt (A ++ [y])) (hxy : lt x y = false) : Sorted lt ((A ++ [y]) ++ [x]) := by
  unfold Sorted at *
  rw [List.pairwise_append]
  refine ⟨hs, List.pairwise_singleton _ _, ?_⟩
  intro a ha b hb
  have hb' : b = x := by simpa using hb
  subst hb'
  rcases List.mem_append.mp ha with h | h
  · have := (List.pairwise_append.mp hs).2.2 a h y (by simp)
    exact hlt.le_trans this hxy
  · have : a = y := by simpa using h
    subst this; exact hxy

theorem gnome_loop_spec (lt : α → α → Bool) (hlt : StrictWeak lt) (P S : List α) :
    ∀ (fuel : Nat) (A B : List α) (l i : Nat) (a : List α), l = P.length + A.length + B.length →
      i = P.length + A.length → a = P ++ (A ++ B) ++ S → Sorted lt A →
      2 * gnome_inv lt (A ++ B) + B.length < fuel →
      ∃ M', gnomeLoop lt P.length l fuel a i = .ok (P ++ M' ++ S) ∧ M'.Perm (A ++ B) ∧ Sorted lt M' := by
  intro fuel
  induction fuel with
  | zero => intro A B l i a _ _ _ _ h; omega
  | succ fuel ih =>
    intro A B l i a hl hi ha hs hμ
    rw [gnomeLoop]
    match B, hl, ha, hμ with
    | [], hl, ha, _ =>
      have : (i != l) = false := by simp at hl ⊢; omega
      rw [this]
      refine ⟨A, ?_, by simp, hs⟩
      simp [ha]
    | x :: B', hl, ha, hμ =>
      have hne : (i != l) = true := by simp at hl ⊢; omega
      rw [if_pos hne]
      rcases List.eq_nil_or_concat A with hA | ⟨A', y, hA⟩
      · subst hA
        have hif : (i == P.length) = true := by simp [hi]
        rw [if_pos hif]
        obtain ⟨M', h1, h2, h3⟩ := ih [x] B' l (i + 1) a (by simp at hl ⊢; omega) (by simp at hi ⊢; omega)
          (by simp [ha]) (List.pairwise_singleton _ _) (by simp at hμ ⊢; omega)
        exact ⟨M', h1, by simpa using h2, h3⟩
      · rw [List.concat_eq_append] at hA
        subst hA
        have hif : (i == P.length) = false := by simp [hi]
        rw [hif]
        simp only [Bool.false_eq_true, if_false]
        simp only [List.length_append, List.length_cons, List.length_nil] at hl hi
        have ea : a = (P ++ A' ++ [y]) ++ x :: (B' ++ S) := by simp [ha]
        have ea2 : a = (P ++ A') ++ y :: (x :: B' ++ S) := by simp [ha]
        have r1 : rdR a P.length l i = .ok x := by
          rw [ea]
          have : i = (P ++ A' ++ [y]).length := by simp; omega
          rw [this]
          exact rdR_mid _ _ _ _ _ (by simp) (by simp; omega)
        have r2 : rdR a P.length l (i - 1) = .ok y := by
          rw [ea2]
          have : i - 1 = (P ++ A').length := by simp; omega
          rw [this]
          exact rdR_mid _ _ _ _ _ (by simp) (by simp; omega)
        rw [r1, ok_bind, r2, ok_bind]
        cases hxy : lt x y with
        | false =>
          simp only [Bool.not_false, if_true]
          obtain ⟨M', h1, h2, h3⟩ := ih ((A' ++ [y]) ++ [x]) B' l (i + 1) a (by simp; omega) (by simp; omega)
            (by simp [ha]) (gnome_sorted_snoc hlt A' y x hs hxy) (by simp at hμ ⊢; omega)
          exact ⟨M', h1, by simpa using h2, h3⟩
        | true =>
          simp only [Bool.not_true, Bool.false_eq_true, if_false]
          have hyx := hlt.asymm hxy
          have sw : swapR a P.length l i (i - 1) = .ok (P ++ (A' ++ x :: y :: B') ++ S) := by
            have h0 := gnome_swap_adj (P ++ A') (B' ++ S) x y P.length l (by simp) (by simp; omega)
            have e1 : i = (P ++ A').length + 1 := by simp; omega
            have e2 : i - 1 = (P ++ A').length := by simp; omega
            rw [e2, e1, ea2]
            simp only [List.append_assoc, List.cons_append] at h0 ⊢
            exact h0
          rw [sw, ok_bind]
          have hinv := gnome_inv_swap lt x y hxy hyx B' A'
          obtain ⟨M', h1, h2, h3⟩ := ih A' (x :: y :: B') l (i - 1) _ (by simp; omega) (by omega) rfl
            (List.pairwise_append.mp hs).1
            (by
              have e : (A' ++ [y]) ++ x :: B' = A' ++ y :: x :: B' := by simp
              rw [e, hinv] at hμ
              simp only [List.length_cons] at hμ ⊢
              omega)
          refine ⟨M', h1, h2.trans ?_, h3⟩
          have e : (A' ++ [y]) ++ x :: B' = A' ++ y :: x :: B' := by simp
          rw [e]
          exact List.Perm.append_left _ (List.Perm.swap _ _ _)

/-- gnome_sort terminates within the model's fuel and leaves a sorted permutation; context untouched -/
theorem gnomeSort_spec (lt : α → α → Bool) (hlt : StrictWeak lt) (P R S : List α) :
    ∃ R', gnomeSort lt (P ++ R ++ S) P.length (P.length + R.length) = .ok (P ++ R' ++ S)
        ∧ R'.Perm R ∧ Sorted lt R' := by
  unfold gnomeSort
  rw [Nat.add_sub_cancel_left]
  have hb := gnome_inv_bound lt R
  obtain ⟨M', h1, h2, h3⟩ := gnome_loop_spec lt hlt P S (R.length * R.length + R.length + 1) [] R
    (P.length + R.length) P.length (P ++ R ++ S) (by simp) (by simp) (by simp) List.Pairwise.nil
    (by simp only [List.nil_append]; omega)
  exact ⟨M', h1, by simpa using h2, h3⟩

theorem nthElement_spec (lt : α → α → Bool) (hlt : StrictWeak lt) (P R S : List α) (nth : Nat) :
    ∃ R', nthElement lt (P ++ R ++ S) P.length nth (P.length + R.length) = .ok (P ++ R' ++ S)
        ∧ R'.Perm R ∧ Sorted lt R' :=
  gnomeSort_spec lt hlt P R S

theorem partialSort_spec (lt : α → α → Bool) (hlt : StrictWeak lt) (P R S : List α) (mid : Nat) :
    ∃ R', partialSort lt (P ++ R ++ S) P.length mid (P.length + R.length) = .ok (P ++ R' ++ S)
        ∧ R'.Perm R ∧ Sorted lt R' :=
  gnomeSort_spec lt hlt P R S

example : StrictWeak (fun x y : Nat => decide (x < y)) := strictWeak_nat

end Tetl.C06
