/-
C06 — reverse.hpp, both branches: the two-pointer swap loop on `P ++ M ++ S` reverses `M`.
-/
import TetlProofs.C06.Rotate
namespace Tetl.C06
open Tetl
variable {α : Type}

theorem swapR_ends (P M S : List α) (x y : α) (f0 l0 : Nat) (hf : f0 ≤ P.length)
    (hl : P.length + M.length + 1 < l0) :
    swapR (P ++ (x :: (M ++ [y])) ++ S) f0 l0 P.length (P.length + M.length + 1)
      = .ok ((P ++ [y]) ++ M ++ (x :: S)) := by
  have := swapR_append P M [] S x y f0 l0 hf hl
  simp only [List.append_assoc, List.cons_append, List.nil_append] at this ⊢
  exact this

theorem reverseRALoop_spec : ∀ (fuel : Nat) (M P S : List α) (f0 l0 : Nat), f0 ≤ P.length →
    P.length + M.length ≤ l0 → M.length ≤ fuel →
    reverseRALoop f0 l0 fuel (P ++ M ++ S) P.length (P.length + M.length - 1) = .ok (P ++ M.reverse ++ S) := by
  intro fuel
  induction fuel with
  | zero =>
    intro M P S f0 l0 _ _ hM
    have : M = [] := List.eq_nil_of_length_eq_zero (by omega)
    subst this
    simp [reverseRALoop]
  | succ fuel ih =>
    intro M P S f0 l0 hf hl hM
    match M with
    | [] =>
      unfold reverseRALoop
      rw [if_neg (by simp)]
      simp
    | [x] => simp [reverseRALoop]
    | x :: y0 :: M0 =>
      obtain ⟨M', y, hM'⟩ : ∃ M' y, y0 :: M0 = M' ++ [y] := by
        rcases List.eq_nil_or_concat (y0 :: M0) with h | ⟨L, b, h⟩
        · exact absurd h (by simp)
        · exact ⟨L, b, by simpa using h⟩
      rw [hM'] at hl hM ⊢
      simp only [List.length_cons, List.length_append, List.length_nil] at hl hM
      have hlast : P.length + (x :: (M' ++ [y])).length - 1 = P.length + M'.length + 1 := by
        simp only [List.length_cons, List.length_append, List.length_nil]; omega
      unfold reverseRALoop
      rw [hlast, if_pos (by omega), swapR_ends P M' S x y f0 l0 hf (by omega), ok_bind]
      have e1 : P.length + 1 = (P ++ [y]).length := by simp
      have e2 : P.length + M'.length + 1 - 1 = (P ++ [y]).length + M'.length - 1 := by simp
      rw [e1, e2, ih M' (P ++ [y]) (x :: S) f0 l0 (by simp; omega) (by simp; omega) (by omega)]
      simp [List.append_assoc]

theorem reverseBidiLoop_spec : ∀ (fuel : Nat) (M P S : List α) (f0 l0 : Nat), f0 ≤ P.length →
    P.length + M.length ≤ l0 → M.length ≤ fuel →
    reverseBidiLoop f0 l0 fuel (P ++ M ++ S) P.length (P.length + M.length) = .ok (P ++ M.reverse ++ S) := by
  intro fuel
  induction fuel with
  | zero =>
    intro M P S f0 l0 _ _ hM
    have : M = [] := List.eq_nil_of_length_eq_zero (by omega)
    subst this
    simp [reverseBidiLoop]
  | succ fuel ih =>
    intro M P S f0 l0 hf hl hM
    match M with
    | [] => simp [reverseBidiLoop]
    | [x] => simp [reverseBidiLoop]
    | x :: y0 :: M0 =>
      obtain ⟨M', y, hM'⟩ : ∃ M' y, y0 :: M0 = M' ++ [y] := by
        rcases List.eq_nil_or_concat (y0 :: M0) with h | ⟨L, b, h⟩
        · exact absurd h (by simp)
        · exact ⟨L, b, by simpa using h⟩
      rw [hM'] at hl hM ⊢
      simp only [List.length_cons, List.length_append, List.length_nil] at hl hM
      have hlast : P.length + (x :: (M' ++ [y])).length = P.length + M'.length + 2 := by
        simp; omega
      unfold reverseBidiLoop
      have hne1 : (P.length != P.length + M'.length + 2) = true := by
        rw [bne_iff_ne]; omega
      have hne2 : (P.length != P.length + M'.length + 2 - 1) = true := by
        rw [bne_iff_ne]; omega
      simp only [hlast, hne1, hne2, if_true]
      rw [show P.length + M'.length + 2 - 1 = P.length + M'.length + 1 from by omega,
        swapR_ends P M' S x y f0 l0 hf (by omega), ok_bind]
      have e1 : P.length + 1 = (P ++ [y]).length := by simp
      have e2 : P.length + M'.length + 1 = (P ++ [y]).length + M'.length := by simp; omega
      rw [e1, e2, ih M' (P ++ [y]) (x :: S) f0 l0 (by simp; omega) (by simp; omega) (by omega)]
      simp [List.append_assoc]

end Tetl.C06
