/-
C06 — property theorems.  Every theorem is about the range `R` in an arbitrary context
`P ++ R ++ S` (first = |P|, last = |P|+|R|) and says: the model returns `.ok` (it never
dereferences anything outside `[first,last)`: the "touches nothing outside the range" clause)
of exactly the value the declarative spec prescribes, with `P` and `S` unchanged.
No theorem has a size bound; hypotheses are the standard's preconditions.

Algorithms that write through an output iterator have two theorems: `X_eq` (the value stream: WHICH values are
written, in which order) and `X_out` (section "output iterators" at the end): the destination model `Out.X` of
Model/Out.lean, run on a destination `Dp ++ W ++ Ds` with the window `W` the caller provides, returns `.ok` of
`(Dp ++ (result ++ W.drop |result|) ++ Ds, |Dp| + |result|)` — every value at its position, nothing outside the
first `|result|` window positions written, and the RETURNED output iterator.  Hypothesis `|result| ≤ |W|` is the
standard's "the destination range has room" precondition.
-/
import TetlProofs.C06.Fold
import TetlProofs.C06.Reverse
import TetlProofs.C06.Bound
import TetlProofs.C06.TwoRange
import TetlProofs.C06.Fill
import TetlProofs.C06.Merge
import TetlProofs.C06.StablePartition
import TetlProofs.C06.Numeric
import TetlProofs.C06.Copy
import TetlProofs.C06.Unique
import TetlProofs.C06.Partition
import TetlProofs.C06.Search
import TetlProofs.C06.Gnome
import TetlProofs.C06.Bubble
import TetlProofs.C06.Insertion
import TetlProofs.C06.MinMax
import TetlProofs.C06.SetLoops
import TetlProofs.C06.SetSpec
import TetlProofs.C06.IsPerm
import TetlProofs.C06.MergeSort
import TetlProofs.C06.OutCopy
import TetlProofs.C06.OutMerge
import TetlProofs.C06.OutMisc
import TetlProofs.C06.Needle
import TetlProofs.C06.Regress
import TetlProofs.C06.SinglePass
namespace Tetl.C06.Props
open Tetl Tetl.C06
variable {α : Type}

/-! ## find / find_if / find_if_not, all_of / any_of / none_of, count / count_if -/

/-- `find_if` returns the first position satisfying `p` (or `last`) and reads only inside the range -/
theorem findIf_eq (p : α → Bool) (P R S : List α) :
    findIf p (P ++ R ++ S) P.length (P.length + R.length) = .ok (P.length + Spec.findIdx p R) := by
  have := findLoop_spec p P R S R.length 0 (by simp)
  simpa [findIf] using this

theorem findIfNot_eq (p : α → Bool) (P R S : List α) :
    findIfNot p (P ++ R ++ S) P.length (P.length + R.length)
      = .ok (P.length + Spec.findIdx (fun x => !p x) R) := by
  have := findLoop_spec (fun x => !p x) P R S R.length 0 (by simp)
  simpa [findIfNot] using this

theorem find_eq (eq : α → α → Bool) (v : α) (P R S : List α) :
    find eq v (P ++ R ++ S) P.length (P.length + R.length)
      = .ok (P.length + Spec.findIdx (fun x => eq x v) R) := by
  have := findLoop_spec (fun x => eq x v) P R S R.length 0 (by simp)
  simpa [find] using this

theorem allOf_eq (p : α → Bool) (P R S : List α) :
    allOf p (P ++ R ++ S) P.length (P.length + R.length) = .ok (R.all p) := by
  simp only [allOf, findIfNot_eq, ok_bind, pure_eq_ok, Spec.findIdx]
  congr 1
  rw [Bool.eq_iff_iff]
  simp only [beq_iff_eq, Nat.add_left_cancel_iff, findIdx_eq_length_iff, List.all_eq_true]
  constructor <;> intro h x hx <;> simpa using h x hx

theorem anyOf_eq (p : α → Bool) (P R S : List α) :
    anyOf p (P ++ R ++ S) P.length (P.length + R.length) = .ok (R.any p) := by
  simp only [anyOf, findIf_eq, ok_bind, pure_eq_ok, Spec.findIdx]
  congr 1
  rw [Bool.eq_iff_iff]
  simp only [bne_iff_ne, ne_eq, Nat.add_left_cancel_iff, findIdx_eq_length_iff, List.any_eq_true]
  constructor
  · intro h
    refine Classical.byContradiction fun hc => h fun x hx => ?_
    cases hq : p x
    · rfl
    · exact absurd ⟨x, hx, hq⟩ hc
  · rintro ⟨x, hx, hq⟩ h
    simp [h x hx] at hq

theorem noneOf_eq (p : α → Bool) (P R S : List α) :
    noneOf p (P ++ R ++ S) P.length (P.length + R.length) = .ok (!R.any p) := by
  simp only [noneOf, findIf_eq, ok_bind, pure_eq_ok, Spec.findIdx]
  congr 1
  rw [Bool.eq_iff_iff]
  simp only [beq_iff_eq, Nat.add_left_cancel_iff, findIdx_eq_length_iff, Bool.not_eq_true', List.any_eq_false]
  constructor <;> intro h x hx <;> simpa using h x hx

theorem countIf_eq (p : α → Bool) (P R S : List α) :
    countIf p (P ++ R ++ S) P.length (P.length + R.length) = .ok (Spec.count p R) := by
  have := countLoop_spec p P R S R.length 0 0 (by simp)
  simpa [countIf] using this

theorem count_eq (eq : α → α → Bool) (v : α) (P R S : List α) :
    count eq v (P ++ R ++ S) P.length (P.length + R.length) = .ok (Spec.count (fun x => eq x v) R) := by
  have := countLoop_spec (fun x => eq x v) P R S R.length 0 0 (by simp)
  simpa [count] using this

/-! ## for_each / for_each_n / transform / copy_if / copy_n / remove_copy(_if) / partition_copy / reverse_copy / rotate_copy -/

/-- `for_each` applies `f` to exactly the elements of the range, in order -/
theorem forEach_eq (P R S : List α) :
    forEach (P ++ R ++ S) P.length (P.length + R.length) = .ok R := by
  have := visitLoop_spec P R S R.length 0 (by simp)
  simpa [forEach] using this

/-- precondition of for_each_n / copy_n: the source has at least `n` elements -/
theorem forEachN_eq (P R S : List α) (n : Int) (hn : n.toNat ≤ R.length) :
    forEachN (P ++ R ++ S) P.length (P.length + R.length) n = .ok (P.length + n.toNat, R.take n.toNat) := by
  have := visitLoop_spec P R S n.toNat 0 (by simpa using hn)
  simp only [Nat.add_zero, List.drop_zero] at this
  unfold forEachN
  rw [this]
  rfl
example : (2 : Int).toNat ≤ [1, 2, 3].length := by decide

theorem copyN_eq (P R S : List α) (n : Int) (hn : n.toNat ≤ R.length) :
    copyN (P ++ R ++ S) P.length (P.length + R.length) n = .ok (Spec.copyN R n) := by
  unfold copyN Spec.copyN
  by_cases h : n > 0
  · have := visitLoop_spec P R S n.toNat 0 (by simpa using hn)
    simp only [Nat.add_zero, List.drop_zero] at this
    rw [if_pos h]
    exact this
  · have : n.toNat = 0 := by omega
    rw [if_neg h, this]
    rfl
example : (2 : Int).toNat ≤ [1, 2, 3].length := by decide

theorem transform1_eq (op : α → α) (P R S : List α) :
    transform1 op (P ++ R ++ S) P.length (P.length + R.length) = .ok (R.map op) := by
  have := visitLoop_spec P R S R.length 0 (by simp)
  simp only [Nat.add_zero, List.drop_zero, List.take_length] at this
  unfold transform1
  rw [Nat.add_sub_cancel_left, this]
  rfl

theorem copyIf_eq (p : α → Bool) (P R S : List α) :
    copyIf p (P ++ R ++ S) P.length (P.length + R.length) = .ok (R.filter p) := by
  have := copyIfLoop_spec p P R S R.length 0 (by simp)
  simpa [copyIf] using this

theorem removeCopyIf_eq (p : α → Bool) (P R S : List α) :
    removeCopyIf p (P ++ R ++ S) P.length (P.length + R.length) = .ok (Spec.remove p R) := by
  have := copyIfLoop_spec (fun x => !p x) P R S R.length 0 (by simp)
  simpa [removeCopyIf, Spec.remove] using this

theorem removeCopy_eq (eq : α → α → Bool) (v : α) (P R S : List α) :
    removeCopy eq v (P ++ R ++ S) P.length (P.length + R.length) = .ok (Spec.remove (fun x => eq x v) R) := by
  unfold removeCopy
  exact removeCopyIf_eq _ P R S

theorem partitionCopy_eq (p : α → Bool) (P R S : List α) :
    partitionCopy p (P ++ R ++ S) P.length (P.length + R.length)
      = .ok (R.filter p, R.filter (fun x => !p x)) := by
  have := partitionCopyLoop_spec p P R S R.length 0 (by simp)
  simpa [partitionCopy] using this

theorem reverseCopy_eq (P R S : List α) :
    reverseCopy (P ++ R ++ S) P.length (P.length + R.length) = .ok R.reverse := by
  have := reverseCopyLoop_spec P R S R.length (Nat.le_refl _)
  simpa [reverseCopy] using this

/-! ## is_partitioned / partition_point / find_first_of -/

theorem partitionPoint_eq (p : α → Bool) (P R S : List α) :
    partitionPoint p (P ++ R ++ S) P.length (P.length + R.length) = .ok (P.length + Spec.partitionPoint p R) := by
  have := findLoop_spec (fun x => !p x) P R S R.length 0 (by simp)
  simp only [Nat.add_zero, List.drop_zero, Spec.findIdx, findIdx_not_eq_takeWhile] at this
  simpa [partitionPoint, Spec.partitionPoint] using this

theorem isPartitioned_eq (p : α → Bool) (P R S : List α) :
    isPartitioned p (P ++ R ++ S) P.length (P.length + R.length) = .ok (Spec.isPartitioned p R) := by
  have h1 := findLoop_spec (fun x => !p x) P R S R.length 0 (by simp)
  simp only [Nat.add_zero, List.drop_zero, Spec.findIdx] at h1
  have hk : R.findIdx (fun x => !p x) ≤ R.length := List.findIdx_le_length
  have h2 := findLoop_spec p P R S (R.length - R.findIdx (fun x => !p x)) (R.findIdx (fun x => !p x)) (by omega)
  unfold isPartitioned
  simp only [Nat.add_sub_cancel_left, h1, ok_bind,
    show P.length + R.length - (P.length + R.findIdx (fun x => !p x)) = R.length - R.findIdx (fun x => !p x) from by omega,
    h2, pure_eq_ok, Spec.isPartitioned, Spec.findIdx, drop_findIdx_not]
  congr 1
  rw [Bool.eq_iff_iff]
  have hl : (R.dropWhile p).length = R.length - R.findIdx (fun x => !p x) := by
    rw [← drop_findIdx_not]; simp
  simp only [beq_iff_eq, List.all_eq_true, Bool.not_eq_true']
  rw [← findIdx_eq_length_iff, hl]
  omega

theorem findFirstOf_eq (pred : α → α → Bool) (P R S s : List α) :
    findFirstOf pred (P ++ R ++ S) P.length (P.length + R.length) s
      = .ok (P.length + Spec.findFirstOf pred R s) := by
  have := findLoop_spec (fun x => s.any (fun y => pred x y)) P R S R.length 0 (by simp)
  simpa [findFirstOf, Spec.findFirstOf, Spec.findIdx] using this

/-! ## rotate / rotate_copy / reverse -/

/-- `rotate(first, first+k, last)`: the forward swap cycle leaves `R.drop k ++ R.take k` in the range, the
    context untouched, returns `first + (last - middle)`, never swaps anything outside `[first,last)` and
    its recursion never runs out of fuel (terminates) -/
theorem rotate_eq (P R S : List α) (k : Nat) (hk : k ≤ R.length) :
    rotate (P ++ R ++ S) P.length (P.length + k) (P.length + R.length)
      = .ok (P ++ (Spec.rotate R k).1 ++ S, P.length + (Spec.rotate R k).2) := by
  have h := rotateF_spec (R.length + 1) P (R.take k) (R.drop k) S (by simp; omega)
  have e1 : P ++ R.take k ++ R.drop k ++ S = P ++ R ++ S := by
    rw [List.append_assoc P, List.take_append_drop]
  have e2 : (R.take k).length = k := by simp; omega
  have e3 : P.length + k + (R.drop k).length = P.length + R.length := by simp; omega
  rw [e1, e2, e3] at h
  unfold rotate
  rw [show P.length + R.length - P.length + 1 = R.length + 1 from by omega, h]
  simp [Spec.rotate]
example : (2 : Nat) ≤ [1, 2, 3].length := by decide

theorem rotateCopy_eq (P R S : List α) (k : Nat) (hk : k ≤ R.length) :
    rotateCopy (P ++ R ++ S) P.length (P.length + k) (P.length + R.length) = .ok (Spec.rotate R k).1 := by
  have h1 := visitLoop_spec (P ++ R.take k) (R.drop k) S (R.length - k) 0 (by simp)
  have h2 := visitLoop_spec P (R.take k) (R.drop k ++ S) k 0 (by simp; omega)
  have e1 : P ++ R.take k ++ R.drop k ++ S = P ++ R ++ S := by
    rw [List.append_assoc P, List.take_append_drop]
  have e2 : P ++ R.take k ++ (R.drop k ++ S) = P ++ R ++ S := by
    rw [← List.append_assoc, e1]
  have l1 : (P ++ R.take k).length = P.length + k := by simp; omega
  have l2 : (R.take k).length = k := by simp; omega
  have l3 : (R.drop k).length = R.length - k := by simp
  rw [e1, l1, l3, show P.length + k + (R.length - k) = P.length + R.length from by omega] at h1
  rw [e2, l2] at h2
  simp only [Nat.add_zero, List.drop_zero] at h1 h2
  unfold rotateCopy
  rw [show P.length + R.length - (P.length + k) = R.length - k from by omega,
    show P.length + k - P.length = k from by omega, h1, ok_bind, h2]
  have t1 : List.take (R.length - k) (List.drop k R) = List.drop k R := by
    rw [← l3]; exact List.take_length
  have t2 : List.take k (List.take k R) = List.take k R := by
    rw [List.take_take]; simp
  simp [Spec.rotate, t1, t2]
example : (2 : Nat) ≤ [1, 2, 3].length := by decide

/-- `reverse`, random-access branch -/
theorem reverseRA_eq (P R S : List α) :
    reverseRA (P ++ R ++ S) P.length (P.length + R.length) = .ok (P ++ R.reverse ++ S) := by
  unfold reverseRA
  by_cases h : R = []
  · subst h; simp
  · have hl : 0 < R.length := List.length_pos_of_ne_nil h
    rw [if_neg (by rw [beq_iff_eq]; omega)]
    have := reverseRALoop_spec R.length R P S P.length (P.length + R.length) (Nat.le_refl _) (Nat.le_refl _) (Nat.le_refl _)
    rw [show P.length + R.length - P.length = R.length from by omega]
    exact this

/-- `reverse`, bidirectional branch -/
theorem reverseBidi_eq (P R S : List α) :
    reverseBidi (P ++ R ++ S) P.length (P.length + R.length) = .ok (P ++ R.reverse ++ S) := by
  unfold reverseBidi
  rw [show P.length + R.length - P.length = R.length from by omega]
  exact reverseBidiLoop_spec R.length R P S P.length (P.length + R.length) (Nat.le_refl _) (Nat.le_refl _) (Nat.le_refl _)

/-! ## lower_bound / upper_bound / equal_range (precondition: the range is partitioned by the comparison with `v`) -/

theorem lowerBound_eq (lt : α → α → Bool) (v : α) (P R S : List α)
    (hp : Spec.isPartitioned (fun x => lt x v) R = true) :
    lowerBound lt v (P ++ R ++ S) P.length (P.length + R.length) = .ok (P.length + Spec.lowerBound lt v R) := by
  have := boundLoop_spec (fun x => lt x v) P R S hp R.length 0 R.length (by omega) (Nat.zero_le _)
    (by simpa using length_takeWhile_le' _ R) (Nat.le_refl _)
  unfold lowerBound
  rw [Nat.add_sub_cancel_left]
  simpa [Spec.lowerBound] using this
example : Spec.isPartitioned (fun x => decide (x < 2)) [1, 1, 2, 3] = true := by decide

theorem upperBound_eq (lt : α → α → Bool) (v : α) (P R S : List α)
    (hp : Spec.isPartitioned (fun x => !lt v x) R = true) :
    upperBound lt v (P ++ R ++ S) P.length (P.length + R.length) = .ok (P.length + Spec.upperBound lt v R) := by
  have := boundLoop_spec (fun x => !lt v x) P R S hp R.length 0 R.length (by omega) (Nat.zero_le _)
    (by simpa using length_takeWhile_le' _ R) (Nat.le_refl _)
  unfold upperBound
  rw [Nat.add_sub_cancel_left]
  simpa [Spec.upperBound] using this
example : Spec.isPartitioned (fun x => !decide (2 < x)) [1, 1, 2, 3] = true := by decide

theorem equalRange_eq (lt : α → α → Bool) (v : α) (P R S : List α)
    (hp1 : Spec.isPartitioned (fun x => lt x v) R = true) (hp2 : Spec.isPartitioned (fun x => !lt v x) R = true) :
    equalRange lt v (P ++ R ++ S) P.length (P.length + R.length)
      = .ok (P.length + Spec.lowerBound lt v R, P.length + Spec.upperBound lt v R) := by
  unfold equalRange
  rw [lowerBound_eq lt v P R S hp1, upperBound_eq lt v P R S hp2]
  rfl
example : Spec.isPartitioned (fun x => decide (x < 2)) [1, 1, 2, 3] = true ∧
    Spec.isPartitioned (fun x => !decide (2 < x)) [1, 1, 2, 3] = true := by decide

/-! ## mismatch / equal / lexicographical_compare (second range `Q ++ T ++ U`) -/

/-- 3-iterator overloads: precondition `last1 - first1 ≤` the length of the second range -/
theorem mismatch3_eq (pred : α → α → Bool) (P R S Q T U : List α) (h : R.length ≤ T.length) :
    mismatch3 pred (P ++ R ++ S) P.length (P.length + R.length) (Q ++ T ++ U) Q.length (Q.length + T.length)
      = .ok (P.length + Spec.mismatch pred R T, Q.length + Spec.mismatch pred R T) := by
  have := mismatchLoop_spec pred P R S Q T U R.length 0 (by simp; omega) (Nat.zero_le _) (Nat.zero_le _)
  unfold mismatch3
  rw [Nat.add_sub_cancel_left]
  simpa using this
example : [1, 2].length ≤ [1, 3, 4].length := by decide

theorem mismatch4_eq (pred : α → α → Bool) (P R S Q T U : List α) :
    mismatch4 pred (P ++ R ++ S) P.length (P.length + R.length) (Q ++ T ++ U) Q.length (Q.length + T.length)
      = .ok (P.length + Spec.mismatch pred R T, Q.length + Spec.mismatch pred R T) := by
  have := mismatchLoop_spec pred P R S Q T U (min R.length T.length) 0 (by simp) (Nat.zero_le _) (Nat.zero_le _)
  unfold mismatch4
  rw [Nat.add_sub_cancel_left, Nat.add_sub_cancel_left]
  simpa using this

theorem equal3_eq (pred : α → α → Bool) (P R S Q T U : List α) (h : R.length ≤ T.length) :
    equal3 pred (P ++ R ++ S) P.length (P.length + R.length) (Q ++ T ++ U) Q.length (Q.length + T.length)
      = .ok ((R.zip T).all (fun xy => pred xy.1 xy.2)) := by
  have := equalLoop_spec pred P R S Q T U R.length 0 (by simp; omega) (Nat.zero_le _) (Nat.zero_le _)
  unfold equal3
  rw [Nat.add_sub_cancel_left]
  simpa using this
example : [1, 2].length ≤ [1, 3, 4].length := by decide

/-- 4-iterator `equal`, random-access branch -/
theorem equal4RA_eq (pred : α → α → Bool) (P R S Q T U : List α) :
    equal4RA pred (P ++ R ++ S) P.length (P.length + R.length) (Q ++ T ++ U) Q.length (Q.length + T.length)
      = .ok (Spec.equal pred R T) := by
  unfold equal4RA Spec.equal
  rw [Nat.add_sub_cancel_left, Nat.add_sub_cancel_left]
  by_cases h : R.length = T.length
  · rw [if_neg (by simp [h]), equal3_eq pred P R S Q T U (by omega)]
    simp [h]
  · rw [if_pos (by simpa using h)]
    simp [h]

/-- 4-iterator `equal`, input/forward-iterator branch (as repaired) -/
theorem equal4Fwd_eq (pred : α → α → Bool) (P R S Q T U : List α) :
    equal4Fwd pred (P ++ R ++ S) P.length (P.length + R.length) (Q ++ T ++ U) Q.length (Q.length + T.length)
      = .ok (Spec.equal pred R T) := by
  have := equalLoop_spec pred P R S Q T U (min R.length T.length) 0 (by simp) (Nat.zero_le _) (Nat.zero_le _)
  unfold equal4Fwd Spec.equal
  rw [Nat.add_sub_cancel_left, Nat.add_sub_cancel_left]
  simp only [Nat.add_zero, List.drop_zero] at this
  rw [this]
  simp [Bool.and_comm]

theorem lexicographicalCompare_eq (lt : α → α → Bool) (P R S Q T U : List α) :
    lexicographicalCompare lt (P ++ R ++ S) P.length (P.length + R.length) (Q ++ T ++ U) Q.length (Q.length + T.length)
      = .ok (Spec.lexLt lt R T) := by
  have := lexLoop_spec lt P R S Q T U (min R.length T.length) 0 (by simp) (Nat.zero_le _) (Nat.zero_le _)
  unfold lexicographicalCompare
  rw [Nat.add_sub_cancel_left, Nat.add_sub_cancel_left]
  simpa using this

/-! ## accumulate / reduce / transform_reduce (unary); min / max / minmax / clamp -/

theorem accumulate_eq {β : Type} (op : β → α → β) (init : β) (P R S : List α) :
    accumulate op init (P ++ R ++ S) P.length (P.length + R.length) = .ok (Spec.accumulate op init R) := by
  have := accLoop_spec op P R S R.length 0 init (by simp)
  unfold accumulate
  rw [Nat.add_sub_cancel_left]
  simpa [Spec.accumulate] using this

theorem reduce_eq {β : Type} (op : β → α → β) (init : β) (P R S : List α) :
    reduce op init (P ++ R ++ S) P.length (P.length + R.length) = .ok (Spec.accumulate op init R) :=
  accumulate_eq op init P R S

theorem transformReduce1_eq {β : Type} (red : β → β → β) (tr : α → β) (init : β) (P R S : List α) :
    transformReduce1 red tr init (P ++ R ++ S) P.length (P.length + R.length)
      = .ok (Spec.accumulate red init (R.map tr)) := by
  have := accLoop_spec (fun acc x => red acc (tr x)) P R S R.length 0 init (by simp)
  unfold transformReduce1
  rw [Nat.add_sub_cancel_left]
  simpa [Spec.accumulate, List.foldl_map] using this

/-- min / max / minmax / clamp are the standard's formulas verbatim (first argument on ties) -/
theorem min2_eq (lt : α → α → Bool) (x y : α) : min2 lt x y = Spec.min2 lt x y := rfl
theorem max2_eq (lt : α → α → Bool) (x y : α) : max2 lt x y = Spec.max2 lt x y := rfl
theorem minmax2_eq (lt : α → α → Bool) (x y : α) : minmax2 lt x y = (Spec.min2 lt x y, Spec.max2 lt y x) := by
  unfold minmax2 Spec.min2 Spec.max2
  split <;> rfl
theorem clamp_eq (lt : α → α → Bool) (v lo hi : α) : clamp lt v lo hi = Spec.clamp lt v lo hi := rfl

/-! ## remove_if / remove (the tail behind the returned iterator is unspecified: `Z`) -/

theorem removeIf_eq (p : α → Bool) (P R S : List α) :
    ∃ Z, removeIf p (P ++ R ++ S) P.length (P.length + R.length)
          = .ok (P ++ (Spec.remove p R ++ Z) ++ S, P.length + (Spec.remove p R).length)
        ∧ (Spec.remove p R ++ Z).length = R.length :=
  removeIf_spec p P R S

theorem remove_eq (eq : α → α → Bool) (v : α) (P R S : List α) :
    ∃ Z, remove eq v (P ++ R ++ S) P.length (P.length + R.length)
          = .ok (P ++ (Spec.remove (fun x => eq x v) R ++ Z) ++ S, P.length + (Spec.remove (fun x => eq x v) R).length)
        ∧ (Spec.remove (fun x => eq x v) R ++ Z).length = R.length :=
  removeIf_spec (fun x => eq x v) P R S

/-! ## fill / fill_n / generate / generate_n / iota / replace_if / replace / swap_ranges -/

theorem fill_eq (v : α) (P R S : List α) :
    fill (P ++ R ++ S) P.length (P.length + R.length) v = .ok (P ++ List.replicate R.length v ++ S) := by
  have := fillLoop_spec v P S P.length (P.length + R.length) (Nat.le_refl _) R [] (by simp)
  simp only [List.append_nil, List.length_nil, Nat.add_zero] at this
  unfold fill
  rw [Nat.add_sub_cancel_left, this]
  rfl

/-- precondition of fill_n / generate_n: the output range has room for `n` elements -/
theorem fillN_eq (v : α) (P R S : List α) (n : Int) (hn : n.toNat ≤ R.length) :
    fillN (P ++ R ++ S) P.length (P.length + R.length) n v
      = .ok (P ++ (List.replicate n.toNat v ++ R.drop n.toNat) ++ S, P.length + n.toNat) := by
  have := fillLoop_spec v P (R.drop n.toNat ++ S) P.length (P.length + R.length) (Nat.le_refl _) (R.take n.toNat) []
    (by simp; omega)
  have hl : (R.take n.toNat).length = n.toNat := by simp; omega
  have e : P ++ [] ++ R.take n.toNat ++ (R.drop n.toNat ++ S) = P ++ R ++ S := by
    simp [← List.append_assoc (R.take n.toNat)]
  rw [e, hl] at this
  simp only [List.length_nil, Nat.add_zero] at this
  unfold fillN
  rw [this]
  simp [List.append_assoc]
example : (2 : Int).toNat ≤ [1, 2, 3].length := by decide

theorem generate_eq (g : Nat → α) (P R S : List α) :
    generate (P ++ R ++ S) P.length (P.length + R.length) g = .ok (P ++ (List.range R.length).map g ++ S) := by
  have := genLoop_spec g P S P.length (P.length + R.length) (Nat.le_refl _) R [] 0 (by simp)
  simp only [List.append_nil, List.length_nil, Nat.add_zero] at this
  unfold generate
  rw [Nat.add_sub_cancel_left, this]
  simp [List.range_eq_range']

theorem generateN_eq (g : Nat → α) (P R S : List α) (n : Int) (hn : n.toNat ≤ R.length) :
    generateN (P ++ R ++ S) P.length (P.length + R.length) n g
      = .ok (P ++ ((List.range n.toNat).map g ++ R.drop n.toNat) ++ S, P.length + n.toNat) := by
  have := genLoop_spec g P (R.drop n.toNat ++ S) P.length (P.length + R.length) (Nat.le_refl _) (R.take n.toNat) [] 0
    (by simp; omega)
  have hl : (R.take n.toNat).length = n.toNat := by simp; omega
  have e : P ++ [] ++ R.take n.toNat ++ (R.drop n.toNat ++ S) = P ++ R ++ S := by
    simp [← List.append_assoc (R.take n.toNat)]
  rw [e, hl] at this
  simp only [List.length_nil, Nat.add_zero] at this
  unfold generateN
  rw [this]
  simp [List.append_assoc, List.range_eq_range']
example : (2 : Int).toNat ≤ [1, 2, 3].length := by decide

theorem iota_eq (P R S : List Int) (v : Int) :
    iota (P ++ R ++ S) P.length (P.length + R.length) v = .ok (P ++ Spec.iota R.length v ++ S) := by
  have := genLoop_spec (fun k => v + (k : Int)) P S P.length (P.length + R.length) (Nat.le_refl _) R [] 0 (by simp)
  simp only [List.append_nil, List.length_nil, Nat.add_zero] at this
  unfold iota
  rw [Nat.add_sub_cancel_left, this]
  simp [Spec.iota, List.range_eq_range']

theorem replaceIf_eq (p : α → Bool) (w : α) (P R S : List α) :
    replaceIf p w (P ++ R ++ S) P.length (P.length + R.length) = .ok (P ++ Spec.replace p w R ++ S) := by
  have := replaceIfLoop_spec p w P S P.length (P.length + R.length) (Nat.le_refl _) R [] (by simp)
  simp only [List.append_nil, List.length_nil, Nat.add_zero] at this
  unfold replaceIf
  rw [Nat.add_sub_cancel_left, this]

theorem replace_eq (eq : α → α → Bool) (v w : α) (P R S : List α) :
    replace eq v w (P ++ R ++ S) P.length (P.length + R.length)
      = .ok (P ++ Spec.replace (fun x => eq x v) w R ++ S) :=
  replaceIf_eq _ w P R S

/-- swap_ranges: the second range `T` (in `Q ++ T ++ U`) has the same length (precondition: room for `last - first`) -/
theorem swapRanges_eq (P R S Q T U : List α) (h : R.length = T.length) :
    swapRanges (P ++ R ++ S) P.length (P.length + R.length) (Q ++ T ++ U) Q.length (Q.length + T.length)
      = .ok (P ++ T ++ S, Q ++ R ++ U, Q.length + R.length) := by
  unfold swapRanges
  rw [Nat.add_sub_cancel_left]
  exact swapRangesLoop_spec S U _ _ _ _ R T P Q h (Nat.le_refl _) (Nat.le_refl _) (Nat.le_refl _) (Nat.le_refl _)
example : [1, 2].length = [3, 4].length := by decide

/-! ## merge / stable_partition -/

/-- `merge` writes the stable merge of the two ranges (ties: first range first) and reads only inside them -/
theorem merge_eq (lt : α → α → Bool) (P R S Q T U : List α) :
    merge lt (P ++ R ++ S) P.length (P.length + R.length) (Q ++ T ++ U) Q.length (Q.length + T.length)
      = .ok (Spec.merge lt R T) := by
  have := mergeLoop_spec lt P R S Q T U (R.length + T.length + 1) 0 0 (Nat.zero_le _) (Nat.zero_le _) (by omega)
  unfold merge
  rw [Nat.add_sub_cancel_left, Nat.add_sub_cancel_left]
  simpa using this

/-- `stable_partition` (recursive halves + rotate): `filter p ++ filter ¬p`, returns the partition point,
    terminates, touches nothing outside the range -/
theorem stablePartition_eq (p : α → Bool) (P R S : List α) :
    stablePartition p (P ++ R ++ S) P.length (P.length + R.length)
      = .ok (P ++ (Spec.stablePartition p R).1 ++ S, P.length + (Spec.stablePartition p R).2) := by
  unfold stablePartition
  rw [Nat.add_sub_cancel_left, stablePartitionF_spec p (R.length + 1) R P S (by omega)]
  simp [Spec.stablePartition, List.countP_eq_length_filter]

/-! ## inner_product / transform_reduce (binary) / adjacent_difference -/

/-- precondition: the second range has at least `last1 - first1` elements -/
theorem innerProduct_eq {β : Type} (op1 : β → β → β) (op2 : α → α → β) (init : β) (P R S Q T U : List α)
    (h : R.length ≤ T.length) :
    innerProduct op1 op2 init (P ++ R ++ S) P.length (P.length + R.length) (Q ++ T ++ U) Q.length (Q.length + T.length)
      = .ok (Spec.innerProduct op1 op2 init R T) := by
  have := innerLoop_spec op1 op2 P R S Q T U R.length 0 init (by simp) h
  unfold innerProduct
  rw [Nat.add_sub_cancel_left]
  simpa [Spec.innerProduct] using this
example : [1, 2].length ≤ [1, 3, 4].length := by decide

theorem transformReduce2_eq {β : Type} (op1 : β → β → β) (op2 : α → α → β) (init : β) (P R S Q T U : List α)
    (h : R.length ≤ T.length) :
    transformReduce2 op1 op2 init (P ++ R ++ S) P.length (P.length + R.length) (Q ++ T ++ U) Q.length (Q.length + T.length)
      = .ok (Spec.innerProduct op1 op2 init R T) :=
  innerProduct_eq op1 op2 init P R S Q T U h
example : [1, 2].length ≤ [1, 3, 4].length := by decide

theorem adjacentDifference_eq (op : α → α → α) (P R S : List α) :
    adjacentDifference op (P ++ R ++ S) P.length (P.length + R.length) = .ok (Spec.adjacentDifference op R) := by
  unfold adjacentDifference
  match R with
  | [] => simp [Spec.adjacentDifference]
  | x :: xs =>
    have h0 : (P.length == P.length + (x :: xs).length) = false := by
      rw [beq_eq_false_iff_ne]; simp
    have hrd := rdR_ctx P (x :: xs) S 0 (by simp)
    have hloop := adjDiffLoop_spec op P (x :: xs) S xs.length 0 (by simp) (by simp; omega)
    simp only [Nat.add_zero, List.getElem_cons_zero, Nat.zero_add, List.drop_zero, List.drop_succ_cons] at hrd hloop
    rw [h0]
    simp only [Bool.false_eq_true, if_false]
    rw [hrd, ok_bind, show P.length + (x :: xs).length - P.length - 1 = xs.length from by simp, hloop]
    rfl

/-! ## copy / move / copy_backward / move_backward inside one storage (overlap allowed where the standard defines it) -/

/-- `copy` / `move` (moving an int-like element is a copy): the destination `[d, d+(l-f))` receives the ORIGINAL
    source elements, everything else is unchanged, returns the end of the destination.  Precondition
    [alg.copy]: `d ∉ [f,l)` — the destination may overlap the source from the left. -/
theorem copy_eq (a : List α) (f l d : Nat) (hfl : f ≤ l) (hl : l ≤ a.length) (hd : d + (l - f) ≤ a.length)
    (hov : d ≤ f ∨ l ≤ d) :
    copy a f l d = .ok (splice a d (d + (l - f)) (slice a f l), d + (l - f)) :=
  copy_spec a f l d hfl hl hd hov
example : (1 ≤ 3 ∧ 3 ≤ [1, 2, 3, 4].length ∧ 0 + (3 - 1) ≤ [1, 2, 3, 4].length ∧ (0 ≤ 1 ∨ 3 ≤ 0)) := by decide

/-- `copy_backward` / `move_backward`; precondition [alg.copy]: `dLast ∉ (f,l]` — the destination may overlap the
    source from the right -/
theorem copyBackward_eq (a : List α) (f l dLast : Nat) (hfl : f ≤ l) (hl : l ≤ a.length) (hk : l - f ≤ dLast)
    (hd : dLast ≤ a.length) (hov : dLast ≤ f ∨ l ≤ dLast) :
    copyBackward a f l dLast = .ok (splice a (dLast - (l - f)) dLast (slice a f l), dLast - (l - f)) :=
  copyBackward_spec a f l dLast hfl hl hk hd hov
example : (0 ≤ 2 ∧ 2 ≤ [1, 2, 3, 4].length ∧ 2 - 0 ≤ 3 ∧ 3 ≤ [1, 2, 3, 4].length ∧ (3 ≤ 0 ∨ 2 ≤ 3)) := by decide

/-! ## shift_left (both iterator branches) / shift_right (`Z`: the moved-from / vacated positions, unspecified) -/

theorem shiftLeftRA_eq (P R S : List α) (n : Int) :
    ∃ Z, shiftLeftRA (P ++ R ++ S) P.length (P.length + R.length) n
          = .ok (P ++ ((Spec.shiftLeft R n).1 ++ Z) ++ S, P.length + (Spec.shiftLeft R n).2)
        ∧ ((Spec.shiftLeft R n).1 ++ Z).length = R.length :=
  shiftLeftRA_spec P R S n

theorem shiftLeftFwd_eq (P R S : List α) (n : Int) :
    ∃ Z, shiftLeftFwd (P ++ R ++ S) P.length (P.length + R.length) n
          = .ok (P ++ ((Spec.shiftLeft R n).1 ++ Z) ++ S, P.length + (Spec.shiftLeft R n).2)
        ∧ ((Spec.shiftLeft R n).1 ++ Z).length = R.length :=
  shiftLeftFwd_spec P R S n

/-- shift_right (as repaired): `[ret, last)` holds the kept elements, `ret = first + n`; no effect for `n ≤ 0`, `n ≥ len` -/
theorem shiftRight_eq (dflt : α) (P R S : List α) (n : Int) :
    ∃ Z, shiftRight dflt (P ++ R ++ S) P.length (P.length + R.length) n
          = .ok (P ++ (Z ++ (Spec.shiftRight R n).1) ++ S, P.length + (Spec.shiftRight R n).2)
        ∧ Z.length = (Spec.shiftRight R n).2
        ∧ ((n ≤ 0 ∨ n ≥ (R.length : Int)) → Z ++ (Spec.shiftRight R n).1 = R) :=
  shiftRight_spec dflt P R S n

/-- shift_right on a value type without default constructor (no clean-up of the vacated slots): same contract -/
theorem shiftRightNoFill_eq (P R S : List α) (n : Int) :
    ∃ Z, shiftRightNoFill (P ++ R ++ S) P.length (P.length + R.length) n
          = .ok (P ++ (Z ++ (Spec.shiftRight R n).1) ++ S, P.length + (Spec.shiftRight R n).2)
        ∧ Z.length = (Spec.shiftRight R n).2
        ∧ ((n ≤ 0 ∨ n ≥ (R.length : Int)) → Z ++ (Spec.shiftRight R n).1 = R) :=
  shiftRightNoFill_spec P R S n

/-! ## unique_copy / unique / adjacent_find / is_sorted_until / is_sorted -/

theorem uniqueCopy_eq (pred : α → α → Bool) (P R S : List α) :
    uniqueCopy pred (P ++ R ++ S) P.length (P.length + R.length) = .ok (Spec.unique pred R) :=
  uniqueCopy_spec pred P R S

/-- `unique`: the first element of every group of consecutive equivalents, compacted to the front (tail `Z` unspecified) -/
theorem unique_eq (pred : α → α → Bool) (P R S : List α) :
    ∃ Z, unique pred (P ++ R ++ S) P.length (P.length + R.length)
          = .ok (P ++ (Spec.unique pred R ++ Z) ++ S, P.length + (Spec.unique pred R).length)
        ∧ (Spec.unique pred R ++ Z).length = R.length :=
  unique_spec pred P R S

theorem adjacentFind_eq (pred : α → α → Bool) (P R S : List α) :
    adjacentFind pred (P ++ R ++ S) P.length (P.length + R.length) = .ok (P.length + Spec.adjacentFind pred R) :=
  adjacentFind_spec pred P R S

theorem isSortedUntil_eq (lt : α → α → Bool) (P R S : List α) :
    isSortedUntil lt (P ++ R ++ S) P.length (P.length + R.length) = .ok (P.length + Spec.isSortedUntil lt R) :=
  isSortedUntil_spec lt P R S

/-- `is_sorted` is true exactly when no adjacent pair is out of order -/
theorem isSorted_eq (lt : α → α → Bool) (P R S : List α) :
    isSorted lt (P ++ R ++ S) P.length (P.length + R.length) = .ok (Spec.isSortedUntil lt R == R.length)
    ∧ (Spec.isSortedUntil lt R = R.length ↔ ∀ i (h : i + 1 < R.length), lt R[i + 1] R[i] = false) :=
  ⟨isSorted_spec lt P R S, isSortedUntil_eq_length_iff lt R⟩

/-! ## partition / transform (binary) / binary_search / partial_sum -/

/-- `partition`: a permutation of the range, every element satisfying `p` before every element that does not,
    returns the partition point, context untouched -/
theorem partition_eq (p : α → Bool) (P R S : List α) :
    ∃ R', partition p (P ++ R ++ S) P.length (P.length + R.length) = .ok (P ++ R' ++ S, P.length + R.countP p)
        ∧ R'.Perm R ∧ (∀ x ∈ R'.take (R.countP p), p x = true) ∧ (∀ x ∈ R'.drop (R.countP p), p x = false) :=
  partition_spec p P R S

theorem transform2_eq (op : α → α → α) (P R S Q T U : List α) (h : R.length ≤ T.length) :
    transform2 op (P ++ R ++ S) P.length (P.length + R.length) (Q ++ T ++ U) Q.length (Q.length + T.length)
      = .ok ((R.zip T).map (fun xy => op xy.1 xy.2)) :=
  transform2_spec op P R S Q T U h
example : [1, 2].length ≤ [1, 3, 4].length := by decide

theorem binarySearch_eq (lt : α → α → Bool) (v : α) (P R S : List α)
    (hp1 : Spec.isPartitioned (fun x => lt x v) R = true) (hp2 : Spec.isPartitioned (fun x => !lt v x) R = true) :
    binarySearch lt v (P ++ R ++ S) P.length (P.length + R.length) = .ok (Spec.binarySearch lt v R) :=
  binarySearch_spec lt v P R S hp1 hp2
example : Spec.isPartitioned (fun x => decide (x < 2)) [1, 1, 2, 3] = true ∧
    Spec.isPartitioned (fun x => !decide (2 < x)) [1, 1, 2, 3] = true := by decide

theorem partialSum_eq (op : α → α → α) (P R S : List α) :
    partialSum op (P ++ R ++ S) P.length (P.length + R.length) = .ok (Spec.partialSum op R) :=
  partialSum_spec op P R S

/-! ## search / find_end / search_n (any needle, any count; reads only inside the range, terminates) -/

theorem search_eq (pred : α → α → Bool) (P R S s : List α) :
    search pred (P ++ R ++ S) P.length (P.length + R.length) s = .ok (P.length + Spec.search pred R s) :=
  search_spec pred P R S s

theorem findEnd_eq (pred : α → α → Bool) (P R S s : List α) :
    findEnd pred (P ++ R ++ S) P.length (P.length + R.length) s = .ok (P.length + Spec.findEnd pred R s) :=
  findEnd_spec pred P R S s

theorem searchN_eq (pred : α → α → Bool) (P R S : List α) (count : Int) (v : α) :
    searchN pred (P ++ R ++ S) P.length (P.length + R.length) count v = .ok (P.length + Spec.searchN pred R count v) :=
  searchN_spec pred P R S count v

/-! ## sorting: sort = gnome_sort, nth_element, partial_sort, bubble_sort, exchange_sort
    (hypothesis: `comp` induces a strict weak ordering, [alg.sorting]/3) -/

/-- gnome_sort: the back-and-forth loop terminates within the model's fuel (measure: 2·inversions + distance to
    `last`), never touches anything outside the range and leaves a sorted permutation of the input -/
theorem gnomeSort_eq (lt : α → α → Bool) (hlt : StrictWeak lt) (P R S : List α) :
    ∃ R', gnomeSort lt (P ++ R ++ S) P.length (P.length + R.length) = .ok (P ++ R' ++ S)
        ∧ R'.Perm R ∧ Sorted lt R' :=
  gnomeSort_spec lt hlt P R S
example : StrictWeak (fun x y : Nat => decide (x < y)) := strictWeak_nat

/-- `sort` is gnome_sort -/
theorem sort_eq (lt : α → α → Bool) (hlt : StrictWeak lt) (P R S : List α) :
    ∃ R', sort lt (P ++ R ++ S) P.length (P.length + R.length) = .ok (P ++ R' ++ S)
        ∧ R'.Perm R ∧ Sorted lt R' :=
  gnomeSort_spec lt hlt P R S
example : StrictWeak (fun x y : Nat => decide (x < y)) := strictWeak_nat

/-- nth_element sorts the whole range here: a sorted permutation satisfies [alg.nth.element] for every `nth` -/
theorem nthElement_eq (lt : α → α → Bool) (hlt : StrictWeak lt) (P R S : List α) (nth : Nat) :
    ∃ R', nthElement lt (P ++ R ++ S) P.length nth (P.length + R.length) = .ok (P ++ R' ++ S)
        ∧ R'.Perm R ∧ Sorted lt R' :=
  nthElement_spec lt hlt P R S nth
example : StrictWeak (fun x y : Nat => decide (x < y)) := strictWeak_nat

/-- partial_sort sorts the whole range here: a sorted permutation satisfies [partial.sort] for every `middle` -/
theorem partialSort_eq (lt : α → α → Bool) (hlt : StrictWeak lt) (P R S : List α) (mid : Nat) :
    ∃ R', partialSort lt (P ++ R ++ S) P.length mid (P.length + R.length) = .ok (P ++ R' ++ S)
        ∧ R'.Perm R ∧ Sorted lt R' :=
  partialSort_spec lt hlt P R S mid
example : StrictWeak (fun x y : Nat => decide (x < y)) := strictWeak_nat

theorem bubbleSort_eq (lt : α → α → Bool) (hlt : StrictWeak lt) (P R S : List α) :
    ∃ R', bubbleSort lt (P ++ R ++ S) P.length (P.length + R.length) = .ok (P ++ R' ++ S)
        ∧ R'.Perm R ∧ Sorted lt R' :=
  bubbleSort_spec lt hlt P R S
example : StrictWeak (fun x y : Nat => decide (x < y)) := strictWeak_nat

theorem exchangeSort_eq (lt : α → α → Bool) (hlt : StrictWeak lt) (P R S : List α) :
    ∃ R', exchangeSort lt (P ++ R ++ S) P.length (P.length + R.length) = .ok (P ++ R' ++ S)
        ∧ R'.Perm R ∧ Sorted lt R' :=
  exchangeSort_spec lt hlt P R S
example : StrictWeak (fun x y : Nat => decide (x < y)) := strictWeak_nat

/-! ## stable sorting: stable_sort = insertion_sort -/

/-- insertion_sort: exactly the stable sorted permutation (`List.mergeSort`, the unique sorted permutation that keeps
    equivalent elements in their original order), context untouched -/
theorem insertionSort_eq (lt : α → α → Bool) (hlt : StrictWeak lt) (P R S : List α) :
    insertionSort lt (P ++ R ++ S) P.length (P.length + R.length) = .ok (P ++ Spec.stableSort lt R ++ S) :=
  insertionSort_spec lt hlt P R S
example : StrictWeak (fun x y : Nat => decide (x < y)) := strictWeak_nat

theorem stableSort_eq (lt : α → α → Bool) (hlt : StrictWeak lt) (P R S : List α) :
    stableSort lt (P ++ R ++ S) P.length (P.length + R.length) = .ok (P ++ Spec.stableSort lt R ++ S) :=
  insertionSort_spec lt hlt P R S
example : StrictWeak (fun x y : Nat => decide (x < y)) := strictWeak_nat

/-- what the spec of the stable sorts means: a sorted permutation in which every class of equivalent elements
    appears in its original order — and it is the only such list -/
theorem stableSort_characterisation (lt : α → α → Bool) (hlt : StrictWeak lt) (R : List α) :
    (Spec.stableSort lt R).Perm R ∧ Sorted lt (Spec.stableSort lt R)
    ∧ (∀ x, (Spec.stableSort lt R).filter (Spec.equiv lt x) = R.filter (Spec.equiv lt x))
    ∧ (∀ L : List α, L.Perm R → Sorted lt L → (∀ x, L.filter (Spec.equiv lt x) = R.filter (Spec.equiv lt x)) →
        L = Spec.stableSort lt R) :=
  ⟨stableSort_perm lt R, stableSort_sorted hlt R, stableSort_filter hlt R, fun L hp hs hf => stableSort_unique hlt L R hp hs hf⟩
example : StrictWeak (fun x y : Nat => decide (x < y)) := strictWeak_nat

/-! ## min_element / max_element / minmax_element (first smallest, first largest; minmax: first smallest, LAST largest) -/

theorem minElement_eq (lt : α → α → Bool) (hlt : StrictWeak lt) (P R S : List α) :
    minElement lt (P ++ R ++ S) P.length (P.length + R.length) = .ok (P.length + Spec.minElement lt R) :=
  minElement_spec lt hlt P R S
example : StrictWeak (fun x y : Nat => decide (x < y)) := strictWeak_nat

theorem maxElement_eq (lt : α → α → Bool) (hlt : StrictWeak lt) (P R S : List α) :
    maxElement lt (P ++ R ++ S) P.length (P.length + R.length) = .ok (P.length + Spec.maxElement lt R) :=
  maxElement_spec lt hlt P R S
example : StrictWeak (fun x y : Nat => decide (x < y)) := strictWeak_nat

theorem minmaxElement_eq (lt : α → α → Bool) (hlt : StrictWeak lt) (P R S : List α) :
    minmaxElement lt (P ++ R ++ S) P.length (P.length + R.length)
      = .ok (P.length + Spec.minElement lt R, P.length + Spec.maxElementLast lt R) :=
  minmaxElement_spec lt hlt P R S
example : StrictWeak (fun x y : Nat => decide (x < y)) := strictWeak_nat

/-! ## includes / set_difference / set_intersection / set_symmetric_difference / set_union
    (preconditions [alg.set.operations]: strict weak order, both ranges sorted; the specs are the standard's
    multiplicity rules: of `m` equivalents in the first and `n` in the second range …) -/

theorem setDifference_eq (lt : α → α → Bool) (hlt : StrictWeak lt) (P R S Q T U : List α)
    (hR : Sorted lt R) (hT : Sorted lt T) :
    setDifference lt (P ++ R ++ S) P.length (P.length + R.length) (Q ++ T ++ U) Q.length (Q.length + T.length)
      = .ok (Spec.setDifference lt R T) := by
  rw [setDifference_loop, diffL_eq lt hlt R T hR hT]
example : StrictWeak (fun x y : Nat => decide (x < y)) ∧ Sorted (fun x y : Nat => decide (x < y)) [1, 2, 2] ∧
    Sorted (fun x y : Nat => decide (x < y)) [2, 3] := ⟨strictWeak_nat, by simp [Sorted], by simp [Sorted]⟩

theorem setIntersection_eq (lt : α → α → Bool) (hlt : StrictWeak lt) (P R S Q T U : List α)
    (hR : Sorted lt R) (hT : Sorted lt T) :
    setIntersection lt (P ++ R ++ S) P.length (P.length + R.length) (Q ++ T ++ U) Q.length (Q.length + T.length)
      = .ok (Spec.setIntersection lt R T) := by
  rw [setIntersection_loop, interL_eq lt hlt R T hR hT]
example : StrictWeak (fun x y : Nat => decide (x < y)) ∧ Sorted (fun x y : Nat => decide (x < y)) [1, 2, 2] ∧
    Sorted (fun x y : Nat => decide (x < y)) [2, 3] := ⟨strictWeak_nat, by simp [Sorted], by simp [Sorted]⟩

theorem setSymmetricDifference_eq (lt : α → α → Bool) (hlt : StrictWeak lt) (P R S Q T U : List α)
    (hR : Sorted lt R) (hT : Sorted lt T) :
    setSymmetricDifference lt (P ++ R ++ S) P.length (P.length + R.length) (Q ++ T ++ U) Q.length (Q.length + T.length)
      = .ok (Spec.setSymmetricDifference lt R T) := by
  rw [setSymmetricDifference_loop, symL_eq lt hlt R T hR hT]
example : StrictWeak (fun x y : Nat => decide (x < y)) ∧ Sorted (fun x y : Nat => decide (x < y)) [1, 2, 2] ∧
    Sorted (fun x y : Nat => decide (x < y)) [2, 3] := ⟨strictWeak_nat, by simp [Sorted], by simp [Sorted]⟩

theorem setUnion_eq (lt : α → α → Bool) (hlt : StrictWeak lt) (P R S Q T U : List α)
    (hR : Sorted lt R) (hT : Sorted lt T) :
    setUnion lt (P ++ R ++ S) P.length (P.length + R.length) (Q ++ T ++ U) Q.length (Q.length + T.length)
      = .ok (Spec.setUnion lt R T) := by
  rw [setUnion_loop, unionL_eq lt hlt R T hR hT]
example : StrictWeak (fun x y : Nat => decide (x < y)) ∧ Sorted (fun x y : Nat => decide (x < y)) [1, 2, 2] ∧
    Sorted (fun x y : Nat => decide (x < y)) [2, 3] := ⟨strictWeak_nat, by simp [Sorted], by simp [Sorted]⟩

/-- `includes(first1,last1,first2,last2)`: every element of the second range, with multiplicity, is in the first -/
theorem includes_eq (lt : α → α → Bool) (hlt : StrictWeak lt) (P R S Q T U : List α)
    (hR : Sorted lt R) (hT : Sorted lt T) :
    includes lt (P ++ R ++ S) P.length (P.length + R.length) (Q ++ T ++ U) Q.length (Q.length + T.length)
      = .ok (Spec.includes lt R T) := by
  rw [includes_loop, inclL_eq lt hlt R T hR hT]
example : StrictWeak (fun x y : Nat => decide (x < y)) ∧ Sorted (fun x y : Nat => decide (x < y)) [1, 2, 2] ∧
    Sorted (fun x y : Nat => decide (x < y)) [2, 3] := ⟨strictWeak_nat, by simp [Sorted], by simp [Sorted]⟩

/-! ## is_permutation (hypothesis: the binary predicate is an equivalence relation, [alg.is.permutation]) -/

/-- 4-iterator overload (as repaired: lengths compared for every iterator category) -/
theorem isPermutation4_eq (eq : α → α → Bool) (heq : EquivB eq) (P R S Q T U : List α) :
    isPermutation4 eq (P ++ R ++ S) P.length (P.length + R.length) (Q ++ T ++ U) Q.length (Q.length + T.length)
      = .ok (Spec.isPermutation eq R T) :=
  isPermutation4_spec eq heq P R S Q T U
example : EquivB (fun x y : Nat => x == y) := equivB_nat

/-- 3-iterator overload: the second range is taken to have the length of the first (precondition: it has at least
    that many elements) -/
theorem isPermutation3_eq (eq : α → α → Bool) (heq : EquivB eq) (P R S Q T U : List α) (h : R.length ≤ T.length) :
    isPermutation3 eq (P ++ R ++ S) P.length (P.length + R.length) (Q ++ T ++ U) Q.length (Q.length + T.length)
      = .ok (Spec.isPermutation eq R (T.take R.length)) :=
  isPermutation3_spec eq heq P R S Q T U h
example : EquivB (fun x y : Nat => x == y) ∧ [1, 2].length ≤ [2, 1, 3].length := ⟨equivB_nat, by decide⟩

/-- for `==` on a type with lawful equality the spec of is_permutation is `List.Perm` -/
theorem isPermutation_spec_iff_perm [BEq α] [LawfulBEq α] (R T : List α) :
    Spec.isPermutation (fun x y => x == y) R T = true ↔ R.Perm T :=
  isPermutation_iff_perm R T

/-! ## inplace_merge / merge_sort -/

/-- inplace_merge on `[first, middle) = A`, `[middle, last) = B`: the stable merge (`List.merge`, ties: `A` first),
    context untouched, terminates within the model's fuel.  The standard requires both runs to be sorted; the
    equation with `List.merge` only needs the second one to be. -/
theorem inplaceMerge_eq (lt : α → α → Bool) (P A B S : List α) (hB : Sorted lt B) :
    inplaceMerge lt (P ++ (A ++ B) ++ S) P.length (P.length + A.length) (P.length + (A ++ B).length)
      = .ok (P ++ Spec.merge lt A B ++ S) := by
  unfold inplaceMerge
  have e : P ++ (A ++ B) ++ S = P ++ A ++ B ++ S := by simp
  rw [e, Nat.add_sub_cancel_left]
  exact mergeSort_loop lt S P.length (P.length + (A ++ B).length) _ P A B (Nat.le_refl _)
    (by simp only [List.length_append]; omega) hB (by simp only [List.length_append]; omega)
example : Sorted (fun x y : Nat => decide (x < y)) [1, 2, 2] := by simp [Sorted]

/-- inplace_merge of two sorted runs of a strict weak order yields a sorted permutation that keeps equivalent
    elements in their original order (first run before second): it is the stable sort of the whole range -/
theorem inplaceMerge_stable (lt : α → α → Bool) (hlt : StrictWeak lt) (P A B S : List α)
    (hA : Sorted lt A) (hB : Sorted lt B) :
    inplaceMerge lt (P ++ (A ++ B) ++ S) P.length (P.length + A.length) (P.length + (A ++ B).length)
      = .ok (P ++ Spec.stableSort lt (A ++ B) ++ S) := by
  rw [inplaceMerge_eq lt P A B S hB]
  congr 3
  refine stableSort_unique hlt _ _ (List.merge_perm_append _) (mergeSort_merge_sorted lt hlt A B hA hB) ?_
  intro x
  rw [show Spec.merge lt A B = List.merge A B (fun x y => !lt y x) from rfl,
    mergeSort_merge_filter lt hlt x A B hA hB, List.filter_append]
example : StrictWeak (fun x y : Nat => decide (x < y)) ∧ Sorted (fun x y : Nat => decide (x < y)) [1, 2, 2] ∧
    Sorted (fun x y : Nat => decide (x < y)) [2, 3] := ⟨strictWeak_nat, by simp [Sorted], by simp [Sorted]⟩

/-- merge_sort (recursive halves + inplace_merge): exactly the stable sorted permutation, the recursion never runs
    out of fuel, context untouched -/
theorem mergeSort_eq (lt : α → α → Bool) (hlt : StrictWeak lt) (P R S : List α) :
    mergeSort lt (P ++ R ++ S) P.length (P.length + R.length) = .ok (P ++ Spec.stableSort lt R ++ S) :=
  mergeSort_spec lt hlt P R S
example : StrictWeak (fun x y : Nat => decide (x < y)) := strictWeak_nat

/-- what a sorted range gives for nth_element / partial_sort at any split point `k`: both parts are sorted and no
    element behind the split is less than one before it ([alg.nth.element], [partial.sort] postconditions) -/
theorem sorted_split (lt : α → α → Bool) (R' : List α) (hs : Sorted lt R') (k : Nat) :
    Sorted lt (R'.take k) ∧ Sorted lt (R'.drop k) ∧ ∀ x ∈ R'.take k, ∀ y ∈ R'.drop k, lt y x = false := by
  unfold Sorted at *
  rw [← List.take_append_drop k R', List.pairwise_append] at hs
  exact hs
example : Sorted (fun x y : Nat => decide (x < y)) [1, 2, 2] := by simp [Sorted]


/-! ## search / find_end / find_first_of with the needle as a checked range `T` of `Q ++ T ++ U`
    (no predicate is applied to, nothing is read from, anything outside the second range either) -/

theorem searchB_eq (pred : α → α → Bool) (P R S Q T U : List α) :
    searchB pred (P ++ R ++ S) P.length (P.length + R.length) (Q ++ T ++ U) Q.length (Q.length + T.length)
      = .ok (P.length + Spec.search pred R T) := by
  rw [searchB_eq_search]; exact search_eq pred P R S T

theorem findEndB_eq (pred : α → α → Bool) (P R S Q T U : List α) :
    findEndB pred (P ++ R ++ S) P.length (P.length + R.length) (Q ++ T ++ U) Q.length (Q.length + T.length)
      = .ok (P.length + Spec.findEnd pred R T) := by
  rw [findEndB_eq_findEnd]; exact findEnd_eq pred P R S T

theorem findFirstOfB_eq (pred : α → α → Bool) (P R S Q T U : List α) :
    findFirstOfB pred (P ++ R ++ S) P.length (P.length + R.length) (Q ++ T ++ U) Q.length (Q.length + T.length)
      = .ok (P.length + Spec.findFirstOf pred R T) := by
  rw [findFirstOfB_eq_findFirstOf]; exact findFirstOf_eq pred P R S T

/-! ## min / max / clamp stated independently of the model text (`min2_eq` … are `rfl`): the result is one of the
    arguments, nothing is smaller (larger), and on equivalent arguments it is the FIRST ([alg.min.max]) -/

theorem min2_char (lt : α → α → Bool) (hlt : StrictWeak lt) (x y : α) :
    (min2 lt x y = x ∨ min2 lt x y = y) ∧ lt x (min2 lt x y) = false ∧ lt y (min2 lt x y) = false
      ∧ (lt y x = false → min2 lt x y = x) := by
  unfold min2
  cases h : lt y x
  · simp [h, hlt.irrefl]
  · have hasym : lt x y = false := by
      cases h' : lt x y
      · rfl
      · have := hlt.trans x y x h' h
        rw [hlt.irrefl] at this
        cases this
    simp [hasym, hlt.irrefl]
example : StrictWeak (fun x y : Nat => decide (x < y)) := strictWeak_nat

theorem max2_char (lt : α → α → Bool) (hlt : StrictWeak lt) (x y : α) :
    (max2 lt x y = x ∨ max2 lt x y = y) ∧ lt (max2 lt x y) x = false ∧ lt (max2 lt x y) y = false
      ∧ (lt x y = false → max2 lt x y = x) := by
  unfold max2
  cases h : lt x y
  · simp [h, hlt.irrefl]
  · have hasym : lt y x = false := by
      cases h' : lt y x
      · rfl
      · have := hlt.trans x y x h h'
        rw [hlt.irrefl] at this
        cases this
    simp [hasym, hlt.irrefl]
example : StrictWeak (fun x y : Nat => decide (x < y)) := strictWeak_nat

/-- clamp under its precondition `!(hi < lo)`: `lo` if `v < lo`, `hi` if `hi < v`, else `v` — and the result lies in `[lo,hi]` -/
theorem clamp_char (lt : α → α → Bool) (hlt : StrictWeak lt) (v lo hi : α) (hpre : lt hi lo = false) :
    (lt v lo = true → clamp lt v lo hi = lo) ∧ (lt hi v = true → clamp lt v lo hi = hi)
      ∧ (lt v lo = false → lt hi v = false → clamp lt v lo hi = v)
      ∧ lt (clamp lt v lo hi) lo = false ∧ lt hi (clamp lt v lo hi) = false := by
  unfold clamp
  cases h1 : lt v lo <;> cases h2 : lt hi v
  · simp [h1, h2]
  · simp [hpre, hlt.irrefl]
  · simp [hpre, hlt.irrefl]
  · -- v < lo and hi < v together contradict !(hi < lo) by transitivity
    have := hlt.trans hi v lo h2 h1
    rw [hpre] at this
    cases this
example : StrictWeak (fun x y : Nat => decide (x < y)) ∧ (decide ((3 : Nat) < 1)) = false := ⟨strictWeak_nat, by decide⟩

/-! ## output iterators: returned iterator and write positions (see the header) -/

theorem copyOut_out (P R S Dp W Ds : List α) (hroom : R.length ≤ W.length) :
    Out.copy (P ++ R ++ S) P.length (P.length + R.length) (Dp ++ W ++ Ds) Dp.length (Dp.length + W.length)
      = .ok (Dp ++ (R ++ W.drop R.length) ++ Ds, Dp.length + R.length) := by
  rw [outCopy_bridge _ _ _ _ _ _ _ (by simpa [forEach] using forEach_eq P R S)]
  exact writeAll_ctx Dp W Ds _ hroom
example : [1, 2].length ≤ [0, 0, 0].length := by decide

theorem copyIf_out (p : α → Bool) (P R S Dp W Ds : List α) (hroom : (R.filter p).length ≤ W.length) :
    Out.copyIf p (P ++ R ++ S) P.length (P.length + R.length) (Dp ++ W ++ Ds) Dp.length (Dp.length + W.length)
      = .ok (Dp ++ (R.filter p ++ W.drop (R.filter p).length) ++ Ds, Dp.length + (R.filter p).length) := by
  rw [outCopyIf_bridge _ _ _ _ _ _ _ _ (copyIf_eq p P R S)]
  exact writeAll_ctx Dp W Ds _ hroom
example : ([1, 2, 3].filter (fun x => decide (x < 3))).length ≤ [0, 0].length := by decide

theorem removeCopyIf_out (p : α → Bool) (P R S Dp W Ds : List α) (hroom : (Spec.remove p R).length ≤ W.length) :
    Out.removeCopyIf p (P ++ R ++ S) P.length (P.length + R.length) (Dp ++ W ++ Ds) Dp.length (Dp.length + W.length)
      = .ok (Dp ++ (Spec.remove p R ++ W.drop (Spec.remove p R).length) ++ Ds, Dp.length + (Spec.remove p R).length) := by
  rw [outRemoveCopyIf_bridge _ _ _ _ _ _ _ _ (removeCopyIf_eq p P R S)]
  exact writeAll_ctx Dp W Ds _ hroom
example : (Spec.remove (fun x => decide (x < 2)) [1, 2, 3]).length ≤ [0, 0].length := by decide

/-- the code before `fix: remove_copy_if …` (`removeCopyIfPre`) does NOT satisfy `removeCopyIf_out` -/
theorem removeCopyIf_out_excludes_prefix_code :
    ¬ ∀ (p : Nat → Bool) (P R S Dp W Ds : List Nat), (Spec.remove p R).length ≤ W.length →
      removeCopyIfPre p (P ++ R ++ S) P.length (P.length + R.length) (Dp ++ W ++ Ds) Dp.length (Dp.length + W.length)
        = .ok (Dp ++ (Spec.remove p R ++ W.drop (Spec.remove p R).length) ++ Ds, Dp.length + (Spec.remove p R).length) := by
  intro h
  have := h (fun x => x == 1) [] [1, 2] [] [] [0] [] (by decide)
  rw [show ([] : List Nat) ++ [1, 2] ++ [] = [1, 2] from rfl, show ([] : List Nat) ++ [0] ++ [] = [0] from rfl] at this
  have w := removeCopyIfPre_witness_exact
  simp only [List.length_nil, List.length_cons, Nat.zero_add] at this
  rw [w] at this
  cases this

theorem removeCopy_out (eq : α → α → Bool) (v : α) (P R S Dp W Ds : List α)
    (hroom : (Spec.remove (fun x => eq x v) R).length ≤ W.length) :
    Out.removeCopy eq v (P ++ R ++ S) P.length (P.length + R.length) (Dp ++ W ++ Ds) Dp.length (Dp.length + W.length)
      = .ok (Dp ++ (Spec.remove (fun x => eq x v) R ++ W.drop (Spec.remove (fun x => eq x v) R).length) ++ Ds,
             Dp.length + (Spec.remove (fun x => eq x v) R).length) := by
  rw [outRemoveCopy_bridge _ _ _ _ _ _ _ _ _ (removeCopy_eq eq v P R S)]
  exact writeAll_ctx Dp W Ds _ hroom
example : (Spec.remove (fun x => x == 2) [1, 2, 3]).length ≤ [0, 0].length := by decide

theorem copyN_out (P R S Dp W Ds : List α) (n : Int) (hn : n.toNat ≤ R.length) (hroom : (Spec.copyN R n).length ≤ W.length) :
    Out.copyN (P ++ R ++ S) P.length (P.length + R.length) n (Dp ++ W ++ Ds) Dp.length (Dp.length + W.length)
      = .ok (Dp ++ (Spec.copyN R n ++ W.drop (Spec.copyN R n).length) ++ Ds, Dp.length + (Spec.copyN R n).length) := by
  rw [outCopyN_bridge _ _ _ _ _ _ _ _ (copyN_eq P R S n hn)]
  exact writeAll_ctx Dp W Ds _ hroom
example : (2 : Int).toNat ≤ [1, 2, 3].length ∧ (Spec.copyN [1, 2, 3] 2).length ≤ [0, 0].length := by decide

/-- the code before `fix: copy_n …` (`copyNPre`) does NOT satisfy `copyN_out`: it returns one short -/
theorem copyN_out_excludes_prefix_code :
    ¬ ∀ (P R S Dp W Ds : List Nat) (n : Int), n.toNat ≤ R.length → (Spec.copyN R n).length ≤ W.length →
      copyNPre (P ++ R ++ S) P.length (P.length + R.length) n (Dp ++ W ++ Ds) Dp.length (Dp.length + W.length)
        = .ok (Dp ++ (Spec.copyN R n ++ W.drop (Spec.copyN R n).length) ++ Ds, Dp.length + (Spec.copyN R n).length) := by
  intro h
  have := h [] [5] [] [] [0] [] 1 (by decide) (by decide)
  rw [show ([] : List Nat) ++ [5] ++ [] = [5] from rfl, show ([] : List Nat) ++ [0] ++ [] = [0] from rfl] at this
  simp only [List.length_nil, List.length_cons, Nat.zero_add] at this
  rw [copyNPre_witness] at this
  revert this
  decide

theorem uniqueCopyFwd_out (pred : α → α → Bool) (P R S Dp W Ds : List α) (hroom : (Spec.unique pred R).length ≤ W.length) :
    Out.uniqueCopyFwd pred (P ++ R ++ S) P.length (P.length + R.length) (Dp ++ W ++ Ds) Dp.length (Dp.length + W.length)
      = .ok (Dp ++ (Spec.unique pred R ++ W.drop (Spec.unique pred R).length) ++ Ds, Dp.length + (Spec.unique pred R).length) := by
  rw [outUniqueCopyFwd_bridge _ _ _ _ _ _ _ _ (uniqueCopy_eq pred P R S)]
  exact writeAll_ctx Dp W Ds _ hroom
example : (Spec.unique (fun x y => x == y) [1, 1, 2]).length ≤ [0, 0].length := by decide

theorem uniqueCopyOut_out (pred : α → α → Bool) (P R S Dp W Ds : List α) (hroom : (Spec.unique pred R).length ≤ W.length) :
    Out.uniqueCopyOut pred (P ++ R ++ S) P.length (P.length + R.length) (Dp ++ W ++ Ds) Dp.length (Dp.length + W.length)
      = .ok (Dp ++ (Spec.unique pred R ++ W.drop (Spec.unique pred R).length) ++ Ds, Dp.length + (Spec.unique pred R).length) := by
  rw [outUniqueCopyOut_bridge _ _ _ _ _ _ _ _ (uniqueCopy_eq pred P R S)]
  exact writeAll_ctx Dp W Ds _ hroom
example : (Spec.unique (fun x y => x == y) [1, 1, 2]).length ≤ [0, 0].length := by decide

theorem reverseCopy_out (P R S Dp W Ds : List α) (hroom : R.length ≤ W.length) :
    Out.reverseCopy (P ++ R ++ S) P.length (P.length + R.length) (Dp ++ W ++ Ds) Dp.length (Dp.length + W.length)
      = .ok (Dp ++ (R.reverse ++ W.drop R.length) ++ Ds, Dp.length + R.length) := by
  rw [outReverseCopy_bridge _ _ _ _ _ _ _ (reverseCopy_eq P R S)]
  have := writeAll_ctx Dp W Ds R.reverse (by simpa using hroom)
  simpa using this
example : [1, 2].length ≤ [0, 0, 0].length := by decide

theorem rotateCopy_out (P R S Dp W Ds : List α) (k : Nat) (hk : k ≤ R.length) (hroom : R.length ≤ W.length) :
    Out.rotateCopy (P ++ R ++ S) P.length (P.length + k) (P.length + R.length) (Dp ++ W ++ Ds) Dp.length (Dp.length + W.length)
      = .ok (Dp ++ ((Spec.rotate R k).1 ++ W.drop R.length) ++ Ds, Dp.length + R.length) := by
  rw [outRotateCopy_bridge _ _ _ _ _ _ _ _ (rotateCopy_eq P R S k hk)]
  have hlen : (Spec.rotate R k).1.length = R.length := by simp [Spec.rotate]; omega
  have := writeAll_ctx Dp W Ds (Spec.rotate R k).1 (by omega)
  rw [hlen] at this
  exact this
example : (1 : Nat) ≤ [1, 2].length ∧ [1, 2].length ≤ [0, 0, 0].length := by decide

theorem transform1_out (op : α → α) (P R S Dp W Ds : List α) (hroom : R.length ≤ W.length) :
    Out.transform1 op (P ++ R ++ S) P.length (P.length + R.length) (Dp ++ W ++ Ds) Dp.length (Dp.length + W.length)
      = .ok (Dp ++ (R.map op ++ W.drop R.length) ++ Ds, Dp.length + R.length) := by
  rw [outTransform1_bridge _ _ _ _ _ _ _ _ (transform1_eq op P R S)]
  have := writeAll_ctx Dp W Ds (R.map op) (by simpa using hroom)
  simpa using this
example : [1, 2].length ≤ [0, 0, 0].length := by decide

theorem transform2_out (op : α → α → α) (P R S Q T U Dp W Ds : List α) (h : R.length ≤ T.length) (hroom : R.length ≤ W.length) :
    Out.transform2 op (P ++ R ++ S) P.length (P.length + R.length) (Q ++ T ++ U) Q.length (Q.length + T.length)
        (Dp ++ W ++ Ds) Dp.length (Dp.length + W.length)
      = .ok (Dp ++ ((R.zip T).map (fun xy => op xy.1 xy.2) ++ W.drop R.length) ++ Ds, Dp.length + R.length) := by
  rw [outTransform2_bridge _ _ _ _ _ _ _ _ _ _ _ (transform2_eq op P R S Q T U h)]
  have hlen : ((R.zip T).map (fun xy => op xy.1 xy.2)).length = R.length := by simp; omega
  have := writeAll_ctx Dp W Ds ((R.zip T).map (fun xy => op xy.1 xy.2)) (by omega)
  rw [hlen] at this
  exact this
example : [1, 2].length ≤ [1, 3, 4].length ∧ [1, 2].length ≤ [0, 0].length := by decide

theorem partitionCopy_out (p : α → Bool) (P R S D1p W1 D1s D2p W2 D2s : List α)
    (h1 : (R.filter p).length ≤ W1.length) (h2 : (R.filter (fun x => !p x)).length ≤ W2.length) :
    Out.partitionCopy p (P ++ R ++ S) P.length (P.length + R.length)
        (D1p ++ W1 ++ D1s) D1p.length (D1p.length + W1.length) (D2p ++ W2 ++ D2s) D2p.length (D2p.length + W2.length)
      = .ok ((D1p ++ (R.filter p ++ W1.drop (R.filter p).length) ++ D1s, D1p.length + (R.filter p).length),
             (D2p ++ (R.filter (fun x => !p x) ++ W2.drop (R.filter (fun x => !p x)).length) ++ D2s,
              D2p.length + (R.filter (fun x => !p x)).length)) :=
  outPartitionCopy_ctx p P R S D1p W1 D1s D2p W2 D2s h1 h2
example : ([1, 2, 3].filter (fun x => decide (x < 3))).length ≤ [0, 0].length ∧
    ([1, 2, 3].filter (fun x => !decide (x < 3))).length ≤ [0].length := by decide

theorem merge_out (lt : α → α → Bool) (P R S Q T U Dp W Ds : List α) (hroom : (Spec.merge lt R T).length ≤ W.length) :
    Out.merge lt (P ++ R ++ S) P.length (P.length + R.length) (Q ++ T ++ U) Q.length (Q.length + T.length)
        (Dp ++ W ++ Ds) Dp.length (Dp.length + W.length)
      = .ok (Dp ++ (Spec.merge lt R T ++ W.drop (Spec.merge lt R T).length) ++ Ds, Dp.length + (Spec.merge lt R T).length) := by
  rw [outMerge_bridge _ _ _ _ _ _ _ _ _ _ _ (merge_eq lt P R S Q T U)]
  exact writeAll_ctx Dp W Ds _ hroom
example : (Spec.merge (fun x y : Nat => decide (x < y)) [1, 3] [2]).length ≤ [0, 0, 0].length := by simp [Spec.merge]

theorem setDifference_out (lt : α → α → Bool) (hlt : StrictWeak lt) (P R S Q T U Dp W Ds : List α)
    (hR : Sorted lt R) (hT : Sorted lt T) (hroom : (Spec.setDifference lt R T).length ≤ W.length) :
    Out.setDifference lt (P ++ R ++ S) P.length (P.length + R.length) (Q ++ T ++ U) Q.length (Q.length + T.length)
        (Dp ++ W ++ Ds) Dp.length (Dp.length + W.length)
      = .ok (Dp ++ (Spec.setDifference lt R T ++ W.drop (Spec.setDifference lt R T).length) ++ Ds,
             Dp.length + (Spec.setDifference lt R T).length) := by
  rw [outSetDifference_bridge _ _ _ _ _ _ _ _ _ _ _ (setDifference_eq lt hlt P R S Q T U hR hT)]
  exact writeAll_ctx Dp W Ds _ hroom
example : StrictWeak (fun x y : Nat => decide (x < y)) ∧ Sorted (fun x y : Nat => decide (x < y)) [1, 2, 2] ∧
    Sorted (fun x y : Nat => decide (x < y)) [2, 3] ∧
    (Spec.setDifference (fun x y : Nat => decide (x < y)) [1, 2, 2] [2, 3]).length ≤ [0, 0].length :=
  ⟨strictWeak_nat, by simp [Sorted], by simp [Sorted], by decide⟩

theorem setIntersection_out (lt : α → α → Bool) (hlt : StrictWeak lt) (P R S Q T U Dp W Ds : List α)
    (hR : Sorted lt R) (hT : Sorted lt T) (hroom : (Spec.setIntersection lt R T).length ≤ W.length) :
    Out.setIntersection lt (P ++ R ++ S) P.length (P.length + R.length) (Q ++ T ++ U) Q.length (Q.length + T.length)
        (Dp ++ W ++ Ds) Dp.length (Dp.length + W.length)
      = .ok (Dp ++ (Spec.setIntersection lt R T ++ W.drop (Spec.setIntersection lt R T).length) ++ Ds,
             Dp.length + (Spec.setIntersection lt R T).length) := by
  rw [outSetIntersection_bridge _ _ _ _ _ _ _ _ _ _ _ (setIntersection_eq lt hlt P R S Q T U hR hT)]
  exact writeAll_ctx Dp W Ds _ hroom
example : StrictWeak (fun x y : Nat => decide (x < y)) ∧ Sorted (fun x y : Nat => decide (x < y)) [1, 2, 2] ∧
    Sorted (fun x y : Nat => decide (x < y)) [2, 3] ∧
    (Spec.setIntersection (fun x y : Nat => decide (x < y)) [1, 2, 2] [2, 3]).length ≤ [0].length :=
  ⟨strictWeak_nat, by simp [Sorted], by simp [Sorted], by decide⟩

theorem setSymmetricDifference_out (lt : α → α → Bool) (hlt : StrictWeak lt) (P R S Q T U Dp W Ds : List α)
    (hR : Sorted lt R) (hT : Sorted lt T) (hroom : (Spec.setSymmetricDifference lt R T).length ≤ W.length) :
    Out.setSymmetricDifference lt (P ++ R ++ S) P.length (P.length + R.length) (Q ++ T ++ U) Q.length (Q.length + T.length)
        (Dp ++ W ++ Ds) Dp.length (Dp.length + W.length)
      = .ok (Dp ++ (Spec.setSymmetricDifference lt R T ++ W.drop (Spec.setSymmetricDifference lt R T).length) ++ Ds,
             Dp.length + (Spec.setSymmetricDifference lt R T).length) := by
  rw [outSetSymmetricDifference_bridge _ _ _ _ _ _ _ _ _ _ _ (setSymmetricDifference_eq lt hlt P R S Q T U hR hT)]
  exact writeAll_ctx Dp W Ds _ hroom
example : StrictWeak (fun x y : Nat => decide (x < y)) ∧ Sorted (fun x y : Nat => decide (x < y)) [1, 2, 2] ∧
    Sorted (fun x y : Nat => decide (x < y)) [2, 3] ∧
    (Spec.setSymmetricDifference (fun x y : Nat => decide (x < y)) [1, 2, 2] [2, 3]).length ≤ [0, 0, 0].length :=
  ⟨strictWeak_nat, by simp [Sorted], by simp [Sorted], by simp [Spec.setSymmetricDifference, Spec.merge, Spec.setDifference, Spec.selectByRank, Spec.equiv, List.range,
    List.range.loop]⟩

theorem setUnion_out (lt : α → α → Bool) (hlt : StrictWeak lt) (P R S Q T U Dp W Ds : List α)
    (hR : Sorted lt R) (hT : Sorted lt T) (hroom : (Spec.setUnion lt R T).length ≤ W.length) :
    Out.setUnion lt (P ++ R ++ S) P.length (P.length + R.length) (Q ++ T ++ U) Q.length (Q.length + T.length)
        (Dp ++ W ++ Ds) Dp.length (Dp.length + W.length)
      = .ok (Dp ++ (Spec.setUnion lt R T ++ W.drop (Spec.setUnion lt R T).length) ++ Ds,
             Dp.length + (Spec.setUnion lt R T).length) := by
  rw [outSetUnion_bridge _ _ _ _ _ _ _ _ _ _ _ (setUnion_eq lt hlt P R S Q T U hR hT)]
  exact writeAll_ctx Dp W Ds _ hroom
example : StrictWeak (fun x y : Nat => decide (x < y)) ∧ Sorted (fun x y : Nat => decide (x < y)) [1, 2, 2] ∧
    Sorted (fun x y : Nat => decide (x < y)) [2, 3] ∧
    (Spec.setUnion (fun x y : Nat => decide (x < y)) [1, 2, 2] [2, 3]).length ≤ [0, 0, 0, 0].length :=
  ⟨strictWeak_nat, by simp [Sorted], by simp [Sorted], by simp [Spec.setUnion, Spec.merge, Spec.setDifference, Spec.selectByRank, Spec.equiv, List.range, List.range.loop]⟩

theorem partialSum_out (op : α → α → α) (P R S Dp W Ds : List α) (hroom : (Spec.partialSum op R).length ≤ W.length) :
    Out.partialSum op (P ++ R ++ S) P.length (P.length + R.length) (Dp ++ W ++ Ds) Dp.length (Dp.length + W.length)
      = .ok (Dp ++ (Spec.partialSum op R ++ W.drop (Spec.partialSum op R).length) ++ Ds, Dp.length + (Spec.partialSum op R).length) := by
  rw [outPartialSum_bridge _ _ _ _ _ _ _ _ (partialSum_eq op P R S)]
  exact writeAll_ctx Dp W Ds _ hroom
example : (Spec.partialSum (fun x y : Nat => x + y) [1, 2, 3]).length ≤ [0, 0, 0].length := by decide

theorem adjacentDifference_out (op : α → α → α) (P R S Dp W Ds : List α)
    (hroom : (Spec.adjacentDifference op R).length ≤ W.length) :
    Out.adjacentDifference op (P ++ R ++ S) P.length (P.length + R.length) (Dp ++ W ++ Ds) Dp.length (Dp.length + W.length)
      = .ok (Dp ++ (Spec.adjacentDifference op R ++ W.drop (Spec.adjacentDifference op R).length) ++ Ds,
             Dp.length + (Spec.adjacentDifference op R).length) := by
  rw [outAdjacentDifference_bridge _ _ _ _ _ _ _ _ (adjacentDifference_eq op P R S)]
  exact writeAll_ctx Dp W Ds _ hroom
example : (Spec.adjacentDifference (fun x y : Nat => x - y) [1, 2, 3]).length ≤ [0, 0, 0].length := by decide

/-! ## exchange_sort: the code before `fix: exchange_sort returns early …` decrements `last = first` on EVERY empty range
    (`exchangeSort_eq` above is about the repaired code, whose `prev(last)` is checked and never leaves the range) -/
theorem exchangeSort_unguarded_empty_oob (lt : α → α → Bool) (a : List α) (f : Nat) :
    exchangeSortUnguarded lt a f f = .error .oob := exchangeSortUnguarded_empty lt a f


/-! ## single-pass input iterators ([input.iterators])

`SP.XS` (Model/SinglePass.lean) is the loop of `X` executed on a stream whose position is shared by all copies of the
iterator: dereferencing or incrementing a stale copy is `.error (.pre "multipass")`.  The theorems say that the
algorithms declared for input iterators — find family, count, for_each(_n), is_partitioned, mismatch, equal (3 and 4
iterators, the non-random-access branch), lexicographical_compare, includes, accumulate / reduce, inner_product —
return `.ok` of the specified result under that discipline: each position is visited in ONE forward pass, no copy of
an iterator is used after the stream has moved on.  The seeded "compare `distance(first,last)` of both ranges first
for every category" version of the 4-iterator `equal` violates it on every pair of non-empty ranges of equal length
(`equal4_distanceFirst_not_singlePass`).  The other input-iterator algorithms (copy / move / copy_if / copy_n /
remove_copy(_if) / unique_copy / transform / partition_copy / merge / set_* / partial_sum / adjacent_difference,
find_first_of's first range) have no single-pass model: the harness runs them on the single-pass iterator (observed). -/

theorem find_singlePass (eq : α → α → Bool) (v : α) (P R S : List α) :
    SP.findS eq v (P ++ R ++ S) P.length (P.length + R.length) = .ok (P.length + Spec.findIdx (fun x => eq x v) R) := by
  rw [SP.findS_eq]; exact find_eq eq v P R S
theorem findIf_singlePass (p : α → Bool) (P R S : List α) :
    SP.findIfS p (P ++ R ++ S) P.length (P.length + R.length) = .ok (P.length + Spec.findIdx p R) := by
  rw [SP.findIfS_eq]; exact findIf_eq p P R S
theorem findIfNot_singlePass (p : α → Bool) (P R S : List α) :
    SP.findIfNotS p (P ++ R ++ S) P.length (P.length + R.length) = .ok (P.length + Spec.findIdx (fun x => !p x) R) := by
  rw [SP.findIfNotS_eq]; exact findIfNot_eq p P R S
theorem allOf_singlePass (p : α → Bool) (P R S : List α) :
    SP.allOfS p (P ++ R ++ S) P.length (P.length + R.length) = .ok (R.all p) := by
  rw [SP.allOfS_eq]; exact allOf_eq p P R S
theorem anyOf_singlePass (p : α → Bool) (P R S : List α) :
    SP.anyOfS p (P ++ R ++ S) P.length (P.length + R.length) = .ok (R.any p) := by
  rw [SP.anyOfS_eq]; exact anyOf_eq p P R S
theorem noneOf_singlePass (p : α → Bool) (P R S : List α) :
    SP.noneOfS p (P ++ R ++ S) P.length (P.length + R.length) = .ok (!R.any p) := by
  rw [SP.noneOfS_eq]; exact noneOf_eq p P R S
theorem isPartitioned_singlePass (p : α → Bool) (P R S : List α) :
    SP.isPartitionedS p (P ++ R ++ S) P.length (P.length + R.length) = .ok (Spec.isPartitioned p R) := by
  rw [SP.isPartitionedS_eq]; exact isPartitioned_eq p P R S
theorem count_singlePass (eq : α → α → Bool) (v : α) (P R S : List α) :
    SP.countS eq v (P ++ R ++ S) P.length (P.length + R.length) = .ok (Spec.count (fun x => eq x v) R) := by
  rw [SP.countS_eq]; exact count_eq eq v P R S
theorem countIf_singlePass (p : α → Bool) (P R S : List α) :
    SP.countIfS p (P ++ R ++ S) P.length (P.length + R.length) = .ok (Spec.count p R) := by
  rw [SP.countIfS_eq]; exact countIf_eq p P R S
theorem forEach_singlePass (P R S : List α) :
    SP.forEachS (P ++ R ++ S) P.length (P.length + R.length) = .ok R := by
  rw [SP.forEachS_eq]; exact forEach_eq P R S
theorem forEachN_singlePass (P R S : List α) (n : Int) (hn : n.toNat ≤ R.length) :
    SP.forEachNS (P ++ R ++ S) P.length (P.length + R.length) n = .ok (P.length + n.toNat, R.take n.toNat) := by
  rw [SP.forEachNS_eq]; exact forEachN_eq P R S n hn
example : (2 : Int).toNat ≤ [1, 2, 3].length := by decide
theorem accumulate_singlePass {β : Type} (op : β → α → β) (init : β) (P R S : List α) :
    SP.accumulateS op init (P ++ R ++ S) P.length (P.length + R.length) = .ok (Spec.accumulate op init R) := by
  rw [SP.accumulateS_eq]; exact accumulate_eq op init P R S
theorem mismatch3_singlePass (pred : α → α → Bool) (P R S Q T U : List α) (h : R.length ≤ T.length) :
    SP.mismatch3S pred (P ++ R ++ S) P.length (P.length + R.length) (Q ++ T ++ U) Q.length (Q.length + T.length)
      = .ok (P.length + Spec.mismatch pred R T, Q.length + Spec.mismatch pred R T) := by
  rw [SP.mismatch3S_eq]; exact mismatch3_eq pred P R S Q T U h
example : [1, 2].length ≤ [1, 2, 3].length := by decide
theorem mismatch4_singlePass (pred : α → α → Bool) (P R S Q T U : List α) :
    SP.mismatch4S pred (P ++ R ++ S) P.length (P.length + R.length) (Q ++ T ++ U) Q.length (Q.length + T.length)
      = .ok (P.length + Spec.mismatch pred R T, Q.length + Spec.mismatch pred R T) := by
  rw [SP.mismatch4S_eq]; exact mismatch4_eq pred P R S Q T U
theorem equal3_singlePass (pred : α → α → Bool) (P R S Q T U : List α) (h : R.length ≤ T.length) :
    SP.equal3S pred (P ++ R ++ S) P.length (P.length + R.length) (Q ++ T ++ U) Q.length (Q.length + T.length)
      = .ok ((R.zip T).all (fun xy => pred xy.1 xy.2)) := by
  rw [SP.equal3S_eq]; exact equal3_eq pred P R S Q T U h
example : [1, 2].length ≤ [1, 2, 3].length := by decide
/-- 4-iterator `equal` on input iterators: one pass over both ranges -/
theorem equal4_singlePass (pred : α → α → Bool) (P R S Q T U : List α) :
    SP.equal4S pred (P ++ R ++ S) P.length (P.length + R.length) (Q ++ T ++ U) Q.length (Q.length + T.length)
      = .ok (Spec.equal pred R T) := by
  rw [SP.equal4S_eq]; exact equal4Fwd_eq pred P R S Q T U
/-- … which the distance-first code (seeded/C06-r3-equal-length-every-category) is not: on EVERY pair of non-empty
    ranges of equal length (in any context) it dereferences a copy the stream has left behind -/
theorem equal4_distanceFirst_not_singlePass (pred : α → α → Bool) (P R S Q T U : List α)
    (hne : R ≠ []) (hlen : R.length = T.length) :
    SP.equal4DistFirstS pred (P ++ R ++ S) P.length (P.length + R.length) (Q ++ T ++ U) Q.length (Q.length + T.length)
      = .error (.pre "multipass") := by
  have hl : 0 < R.length := List.length_pos_of_ne_nil hne
  exact SP.equal4DistFirstS_multipass pred _ _ _ _ _ _ (by omega) (by omega)
example : ([0, 0] : List Nat) ≠ [] ∧ [0, 0].length = [0, 1].length := by decide
theorem lexicographicalCompare_singlePass (lt : α → α → Bool) (P R S Q T U : List α) :
    SP.lexicographicalCompareS lt (P ++ R ++ S) P.length (P.length + R.length) (Q ++ T ++ U) Q.length (Q.length + T.length)
      = .ok (Spec.lexLt lt R T) := by
  rw [SP.lexicographicalCompareS_eq]; exact lexicographicalCompare_eq lt P R S Q T U
theorem includes_singlePass (lt : α → α → Bool) (hlt : StrictWeak lt) (P R S Q T U : List α)
    (hR : Sorted lt R) (hT : Sorted lt T) :
    SP.includesS lt (P ++ R ++ S) P.length (P.length + R.length) (Q ++ T ++ U) Q.length (Q.length + T.length)
      = .ok (Spec.includes lt R T) := by
  rw [SP.includesS_eq]; exact includes_eq lt hlt P R S Q T U hR hT
theorem innerProduct_singlePass {β : Type} (op1 : β → β → β) (op2 : α → α → β) (init : β) (P R S Q T U : List α)
    (h : R.length ≤ T.length) :
    SP.innerProductS op1 op2 init (P ++ R ++ S) P.length (P.length + R.length) (Q ++ T ++ U) Q.length (Q.length + T.length)
      = .ok (Spec.innerProduct op1 op2 init R T) := by
  rw [SP.innerProductS_eq]; exact innerProduct_eq op1 op2 init P R S Q T U h
example : [1, 2].length ≤ [1, 2, 3].length := by decide

/-! ## reverse_iterator: relations, and `reverse` over reverse iterators -/

/-- the relations of `reverse_iterator` (bases `i`, `j` in a storage of `n` elements) order the positions
    `n - i`, `n - j` that the iterators designate in the reversed sequence; `y - x` is the distance between them -/
theorem reverseIterator_relations (n i j : Nat) (hi : i ≤ n) (hj : j ≤ n) :
    RevIt.eq i j = (RevIt.pos n i == RevIt.pos n j) ∧ RevIt.ne i j = (RevIt.pos n i != RevIt.pos n j)
      ∧ RevIt.lt i j = decide (RevIt.pos n i < RevIt.pos n j) ∧ RevIt.le i j = decide (RevIt.pos n i ≤ RevIt.pos n j)
      ∧ RevIt.gt i j = decide (RevIt.pos n i > RevIt.pos n j) ∧ RevIt.ge i j = decide (RevIt.pos n i ≥ RevIt.pos n j)
      ∧ RevIt.diff i j = (RevIt.pos n j : Int) - (RevIt.pos n i : Int) := by
  unfold RevIt.eq RevIt.ne RevIt.lt RevIt.le RevIt.gt RevIt.ge RevIt.diff RevIt.pos
  refine ⟨?_, ?_, ?_, ?_, ?_, ?_, ?_⟩
  · rw [Bool.eq_iff_iff]; simp; omega
  · rw [Bool.eq_iff_iff]; simp; omega
  · rw [Bool.eq_iff_iff]; simp; omega
  · rw [Bool.eq_iff_iff]; simp; omega
  · rw [Bool.eq_iff_iff]; simp; omega
  · rw [Bool.eq_iff_iff]; simp; omega
  · omega
example : (1 : Nat) ≤ 3 ∧ (3 : Nat) ≤ 3 := by decide
/-- the relations as they were before `fix: reverse_iterator's <, <=, >, >= compare the base iterators the other way
    round` (`x.base() < y.base()`) contradict the statement above: bases 1 and 0 in a storage of one element -/
theorem reverseIterator_relations_excludes_unreversed :
    decide ((1 : Nat) < 0) ≠ decide (RevIt.pos 1 1 < RevIt.pos 1 0) := by decide

/-- `etl::reverse(make_reverse_iterator(last), make_reverse_iterator(first))` reverses `[first,last)` and leaves the
    context alone (the random-access loop `first < last` on reverse iterators) -/
theorem reverseRev_eq (P R S : List α) :
    RevIt.reverseRev (P ++ R ++ S) P.length (P.length + R.length) = .ok (P ++ R.reverse ++ S) := by
  unfold RevIt.reverseRev
  have h := reverseRA_eq S.reverse R.reverse P.reverse
  have e1 : (P ++ R ++ S).reverse = S.reverse ++ R.reverse ++ P.reverse := by simp
  have e2 : (P ++ R ++ S).length - (P.length + R.length) = S.reverse.length := by simp; omega
  have e3 : (P ++ R ++ S).length - P.length = S.reverse.length + R.reverse.length := by simp; omega
  rw [e1, e2, e3, h]
  simp [Except.map]

end Tetl.C06.Props
