/-
C06 — property theorems.  Every theorem is about the range `R` in an arbitrary context
`P ++ R ++ S` (first = |P|, last = |P|+|R|) and says: the model returns `.ok` (it never
dereferences anything outside `[first,last)`) of exactly the value the declarative spec
prescribes, with `P` and `S` unchanged.
-/
import TetlProofs.C06.Lemmas
namespace Tetl.C06.Props
open Tetl Tetl.C06
variable {α : Type}

/-! ## find / find_if / find_if_not and the folds built on them -/

theorem findLoop_spec (q : α → Bool) (P R S : List α) : ∀ (n i : Nat), i + n = R.length →
    findLoop q (P ++ R ++ S) P.length (P.length + R.length) n (P.length + i)
      = .ok (P.length + i + Spec.findIdx q (R.drop i)) := by
  intro n
  induction n with
  | zero =>
    intro i h
    have : R.drop i = [] := List.drop_eq_nil_of_le (by omega)
    simp [findLoop, Spec.findIdx, this]
  | succ n ih =>
    intro i h
    have hi : i < R.length := by omega
    simp only [findLoop, rdR_ctx P R S i hi, ok_bind, drop_eq_cons hi, Spec.findIdx, List.findIdx_cons]
    by_cases hq : q R[i]
    · simp [hq]
    · rw [show P.length + i + 1 = P.length + (i + 1) from by omega, ih (i + 1) (by omega)]
      simp [hq, Spec.findIdx]
      omega

/-- `find_if` returns the first position satisfying `p` (or `last`) and reads only inside the range -/
theorem findIf_eq (p : α → Bool) (P R S : List α) :
    findIf p (P ++ R ++ S) P.length (P.length + R.length) = .ok (P.length + Spec.findIdx p R) := by
  have := findLoop_spec p P R S R.length 0 (by simp)
  simpa [findIf] using this

end Tetl.C06.Props
