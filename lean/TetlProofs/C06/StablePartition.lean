/-
C06 — stable_partition.hpp: divide, partition both halves, rotate the middle.
-/
import TetlProofs.C06.Rotate
namespace Tetl.C06
open Tetl
variable {α : Type}

theorem rotate_ctx (P A B S : List α) :
    rotate (P ++ A ++ B ++ S) P.length (P.length + A.length) (P.length + A.length + B.length)
      = .ok (P ++ B ++ A ++ S, P.length + B.length) := by
  unfold rotate
  exact rotateF_spec _ P A B S (by omega)

theorem filter_len (p : α → Bool) : ∀ X : List α, (X.filter p).length + (X.filter (fun x => !p x)).length = X.length
  | [] => by simp
  | x :: xs => by
    have := filter_len p xs
    by_cases hp : p x <;> simp [List.filter_cons, hp] <;> omega

theorem stablePartitionF_spec (p : α → Bool) : ∀ (fuel : Nat) (R P S : List α), R.length < fuel →
    stablePartitionF p fuel (P ++ R ++ S) P.length (P.length + R.length)
      = .ok (P ++ (R.filter p ++ R.filter (fun x => !p x)) ++ S, P.length + (R.filter p).length) := by
  intro fuel
  induction fuel with
  | zero => intro R P S h; omega
  | succ fuel ih =>
    intro R P S hf
    unfold stablePartitionF
    simp only [Nat.add_sub_cancel_left]
    match R, hf with
    | [], _ => simp
    | [x], _ =>
      have hrd : rdR (P ++ [x] ++ S) P.length (P.length + [x].length) P.length = .ok x := by
        have := rdR_ctx P [x] S 0 (by simp)
        simpa using this
      simp only [List.length_cons, List.length_nil, Nat.zero_add] at hrd ⊢
      rw [hrd]
      by_cases hp : p x <;> simp [hp, List.filter_cons]
    | x :: y :: R0, hf =>
      generalize hR : x :: y :: R0 = R at hf ⊢
      have hn : 2 ≤ R.length := by rw [← hR]; simp
      have h0 : (R.length == 0) = false := by rw [beq_eq_false_iff_ne]; omega
      have h1 : (R.length == 1) = false := by rw [beq_eq_false_iff_ne]; omega
      simp only [h0, h1, Bool.false_eq_true, if_false]
      -- the two halves
      have hl1 : (R.take (R.length / 2)).length = R.length / 2 := by simp; omega
      have hl2 : (R.drop (R.length / 2)).length = R.length - R.length / 2 := by simp
      have hsplit : R.take (R.length / 2) ++ R.drop (R.length / 2) = R := List.take_append_drop _ _
      generalize hR1 : R.take (R.length / 2) = R1 at hl1 hsplit
      generalize hR2 : R.drop (R.length / 2) = R2 at hl2 hsplit
      have hlen : R.length = R1.length + R2.length := by rw [← hsplit]; simp
      -- left half
      have hleft := ih R1 P (R2 ++ S) (by omega)
      have e1 : P ++ R1 ++ (R2 ++ S) = P ++ R ++ S := by rw [← hsplit]; simp
      rw [e1, hl1] at hleft
      rw [hleft, ok_bind]
      -- right half
      have hF1 : (R1.filter p ++ R1.filter (fun x => !p x)).length = R1.length := by
        simp [filter_len p R1]
      have hright := ih R2 (P ++ (R1.filter p ++ R1.filter (fun x => !p x))) S (by omega)
      have e2 : P ++ (R1.filter p ++ R1.filter (fun x => !p x)) ++ (R2 ++ S)
          = (P ++ (R1.filter p ++ R1.filter (fun x => !p x))) ++ R2 ++ S := by simp
      have e3 : (P ++ (R1.filter p ++ R1.filter (fun x => !p x))).length = P.length + R.length / 2 := by
        rw [List.length_append, hF1, hl1]
      have e4 : P.length + R.length / 2 + R2.length = P.length + R.length := by omega
      rw [e3, e4] at hright
      simp only []
      rw [e2, hright, ok_bind]
      -- rotate the middle
      have hrot := rotate_ctx (P ++ R1.filter p) (R1.filter (fun x => !p x)) (R2.filter p)
        (R2.filter (fun x => !p x) ++ S)
      have e5 : P ++ R1.filter p ++ R1.filter (fun x => !p x) ++ R2.filter p ++ (R2.filter (fun x => !p x) ++ S)
          = (P ++ (R1.filter p ++ R1.filter (fun x => !p x))) ++ (R2.filter p ++ R2.filter (fun x => !p x)) ++ S := by
        simp
      have e6 : (P ++ R1.filter p).length = P.length + (R1.filter p).length := by simp
      have e7 : P.length + (R1.filter p).length + (R1.filter (fun x => !p x)).length = P.length + R.length / 2 := by
        have := filter_len p R1; omega
      rw [e5, e6, e7] at hrot
      rw [hrot]
      rw [← hsplit]
      simp [List.filter_append, List.append_assoc]
      omega

end Tetl.C06
