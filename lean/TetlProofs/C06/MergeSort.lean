/-
C06 — inplace_merge.hpp / merge_sort.hpp.  `inplace_merge` walks `left` over the first run; whenever the head `r`
of the second run is smaller than `*left` it shifts the rest of the first run one slot to the right
(`copy_backward`) and writes `r` at `left` (without advancing `left`: the next iteration compares the new right
head with `r` and, the second run being sorted, steps over it).  Result: the stable merge.  `merge_sort` sorts
the halves recursively and merges them in place: the stable sorted permutation (`List.mergeSort`).
-/
import TetlProofs.C06.Remove
import TetlProofs.C06.Order
namespace Tetl.C06
open Tetl
variable {α : Type}

/-! ### the shift: `copy_backward(left, mid, mid + 1)` -/

/-- `copy_backward` of the segment `A` one slot to the right, over the element `c` behind it; the first slot of
    the segment keeps a stale value `g` -/
theorem mergeSort_shift (X : List α) (f0 l0 : Nat) (hf : f0 ≤ X.length) : ∀ (A : List α) (c : α) (Y : List α),
    X.length + A.length + 1 ≤ l0 →
    ∃ g, copyBackwardLoop f0 l0 f0 l0 A.length (X ++ A ++ c :: Y) (X.length + A.length) (X.length + A.length + 1)
          = .ok (X ++ g :: A ++ Y, X.length + 1) := by
  intro A
  induction A using List.reverseRecOn with
  | nil =>
    intro c Y _
    exact ⟨c, by simp [copyBackwardLoop]⟩
  | append_singleton A x ih =>
    intro c Y hl
    have hlen : (A ++ [x]).length = A.length + 1 := by simp
    rw [hlen] at hl ⊢
    obtain ⟨g, hg⟩ := ih x (x :: Y) (by omega)
    refine ⟨g, ?_⟩
    unfold copyBackwardLoop
    rw [if_neg (by simp)]
    have e1 : X ++ (A ++ [x]) ++ c :: Y = (X ++ A) ++ x :: (c :: Y) := by simp
    have i1 : X.length + (A.length + 1) - 1 = (X ++ A).length := by simp
    rw [e1, i1, rdR_mid _ _ x f0 l0 (by simp; omega) (by simp; omega), ok_bind]
    have e2 : (X ++ A) ++ x :: (c :: Y) = (X ++ A ++ [x]) ++ c :: Y := by simp
    have i2 : X.length + (A.length + 1) + 1 - 1 = (X ++ A ++ [x]).length := by simp
    rw [e2, i2, wrR_mid _ _ c x f0 l0 (by simp; omega) (by simp; omega), ok_bind]
    have e3 : (X ++ A ++ [x]) ++ x :: Y = X ++ A ++ x :: (x :: Y) := by simp
    have i3 : (X ++ A).length = X.length + A.length := by simp
    have i4 : (X ++ A ++ [x]).length = X.length + A.length + 1 := by simp; omega
    rw [e3, i3, i4, hg]
    simp

/-! ### the loop of inplace_merge -/

/-- the iteration after an insertion: `left` still points at the element `r` just inserted; the head of the
    second run is not smaller (the run is sorted), so `left` steps over `r` -/
theorem mergeSort_skip (lt : α → α → Bool) (S : List α) (f0 l0 fuel : Nat) (X : List α) (r : α) (A B : List α)
    (hf : f0 ≤ X.length) (hl : X.length + 1 + A.length + B.length = l0) (hr : ∀ b ∈ B, lt b r = false) :
    inplaceMergeLoop lt f0 l0 (fuel + 1) (X ++ r :: A ++ B ++ S) X.length (X.length + 1 + A.length)
      = inplaceMergeLoop lt f0 l0 fuel (X ++ r :: A ++ B ++ S) (X.length + 1) (X.length + 1 + A.length) := by
  cases B with
  | nil =>
    have hm : X.length + 1 + A.length = l0 := by simpa using hl
    rw [hm]
    cases fuel <;> simp [inplaceMergeLoop]
  | cons b B1 =>
    have hBl : (b :: B1).length = B1.length + 1 := rfl
    rw [hBl] at hl
    rw [inplaceMergeLoop]
    rw [if_pos (by rw [Bool.and_eq_true, bne_iff_ne, bne_iff_ne]; constructor <;> omega)]
    have hrd : rdR (X ++ r :: A ++ b :: B1 ++ S) f0 l0 (X.length + 1 + A.length) = .ok b := by
      have e : X ++ r :: A ++ b :: B1 ++ S = (X ++ r :: A) ++ b :: (B1 ++ S) := by simp
      have i : X.length + 1 + A.length = (X ++ r :: A).length := by simp; omega
      rw [e, i]
      exact rdR_mid _ _ b f0 l0 (by simp; omega) (by simp; omega)
    have hrx : rdR (X ++ r :: A ++ b :: B1 ++ S) f0 l0 X.length = .ok r := by
      have e : X ++ r :: A ++ b :: B1 ++ S = X ++ r :: (A ++ b :: (B1 ++ S)) := by simp
      rw [e]
      exact rdR_mid _ _ r f0 l0 hf (by omega)
    rw [hrd, ok_bind, hrx, ok_bind, if_neg (by simp [hr b List.mem_cons_self])]

/-- the loop, from a state `X ++ A ++ B ++ S` (`X`: output so far, `A`, `B`: the rests of the two runs) -/
theorem mergeSort_loop (lt : α → α → Bool) (S : List α) (f0 l0 : Nat) : ∀ (fuel : Nat) (X A B : List α),
    f0 ≤ X.length → X.length + A.length + B.length = l0 → Sorted lt B → A.length + 2 * B.length < fuel →
    inplaceMergeLoop lt f0 l0 fuel (X ++ A ++ B ++ S) X.length (X.length + A.length)
      = .ok (X ++ Spec.merge lt A B ++ S) := by
  intro fuel
  induction fuel using Nat.strongRecOn with
  | ind fuel ih =>
    intro X A B hf hl hB hm
    cases fuel with
    | zero => omega
    | succ fuel =>
      cases A with
      | nil =>
        unfold inplaceMergeLoop
        simp [Spec.merge]
      | cons x A1 =>
        cases B with
        | nil =>
          have hm' : X.length + (x :: A1).length = l0 := by simpa using hl
          unfold inplaceMergeLoop
          rw [hm']
          simp [Spec.merge]
        | cons r B1 =>
          have hAl : (x :: A1).length = A1.length + 1 := rfl
          have hBl : (r :: B1).length = B1.length + 1 := rfl
          have hB' := List.pairwise_cons.mp hB
          rw [hBl] at hl hm
          unfold inplaceMergeLoop
          rw [if_pos (by rw [Bool.and_eq_true, bne_iff_ne, bne_iff_ne]; constructor <;> omega)]
          have hrd : rdR (X ++ x :: A1 ++ r :: B1 ++ S) f0 l0 (X.length + (x :: A1).length) = .ok r := by
            have e : X ++ x :: A1 ++ r :: B1 ++ S = (X ++ x :: A1) ++ r :: (B1 ++ S) := by simp
            have i : X.length + (x :: A1).length = (X ++ x :: A1).length := by simp
            rw [e, i]
            exact rdR_mid _ _ r f0 l0 (by simp; omega) (by simp; omega)
          have hrx : rdR (X ++ x :: A1 ++ r :: B1 ++ S) f0 l0 X.length = .ok x := by
            have e : X ++ x :: A1 ++ r :: B1 ++ S = X ++ x :: (A1 ++ r :: (B1 ++ S)) := by simp
            rw [e]
            exact rdR_mid _ _ x f0 l0 hf (by omega)
          rw [hrd, ok_bind, hrx, ok_bind]
          by_cases hc : lt r x = true
          · rw [if_pos hc]
            obtain ⟨g, hg⟩ := mergeSort_shift X f0 l0 hf (x :: A1) r (B1 ++ S) (by omega)
            have hshift : copyBackwardLoop f0 l0 f0 l0 (X.length + (x :: A1).length - X.length)
                (X ++ x :: A1 ++ r :: B1 ++ S) (X.length + (x :: A1).length) (X.length + (x :: A1).length + 1)
                = .ok (X ++ g :: (x :: A1) ++ (B1 ++ S), X.length + 1) := by
              have e : X ++ x :: A1 ++ r :: B1 ++ S = X ++ x :: A1 ++ r :: (B1 ++ S) := by simp
              rw [Nat.add_sub_cancel_left, e]
              exact hg
            have hw : wrR (X ++ g :: (x :: A1) ++ (B1 ++ S)) f0 l0 X.length r
                = .ok (X ++ r :: (x :: A1) ++ B1 ++ S) := by
              have e : X ++ g :: (x :: A1) ++ (B1 ++ S) = X ++ g :: ((x :: A1) ++ (B1 ++ S)) := by simp
              rw [e, wrR_mid _ _ g r f0 l0 hf (by omega)]
              simp
            rw [hshift, ok_bind]
            simp only []
            rw [hw, ok_bind]
            obtain ⟨fuel', rfl⟩ : ∃ k, fuel = k + 1 := ⟨fuel - 1, by omega⟩
            rw [show X.length + (x :: A1).length + 1 = X.length + 1 + (x :: A1).length from by omega,
              mergeSort_skip lt S f0 l0 fuel' X r (x :: A1) B1 hf (by omega) hB'.1]
            have e5 : X ++ r :: (x :: A1) ++ B1 ++ S = (X ++ [r]) ++ (x :: A1) ++ B1 ++ S := by simp
            have i5 : X.length + 1 = (X ++ [r]).length := by simp
            rw [e5, i5, ih fuel' (by omega) (X ++ [r]) (x :: A1) B1 (by simp; omega) (by simp; omega) hB'.2 (by omega)]
            unfold Spec.merge
            rw [List.cons_merge_cons, if_neg (by simp [hc])]
            simp
          · rw [if_neg hc]
            have e6 : X ++ x :: A1 ++ r :: B1 ++ S = (X ++ [x]) ++ A1 ++ r :: B1 ++ S := by simp
            have i6 : X.length + (x :: A1).length = (X ++ [x]).length + A1.length := by simp; omega
            have i5 : X.length + 1 = (X ++ [x]).length := by simp
            rw [e6, i6, i5, ih fuel (by omega) (X ++ [x]) A1 (r :: B1) (by simp; omega) (by simp; omega) hB (by simp; omega)]
            unfold Spec.merge
            rw [List.cons_merge_cons, if_pos (by simpa using hc)]
            simp

/-- inplace_merge on `[first, middle) = A`, `[middle, last) = B`, both sorted (the standard's precondition):
    the stable merge, context untouched, terminates within the model's fuel -/
theorem inplaceMerge_spec (lt : α → α → Bool) (hlt : StrictWeak lt) (P A B S : List α)
    (hA : Sorted lt A) (hB : Sorted lt B) :
    inplaceMerge lt (P ++ (A ++ B) ++ S) P.length (P.length + A.length) (P.length + (A ++ B).length)
      = .ok (P ++ Spec.merge lt A B ++ S) := by
  have _ := hlt
  have _ := hA
  unfold inplaceMerge
  have e : P ++ (A ++ B) ++ S = P ++ A ++ B ++ S := by simp
  rw [e, Nat.add_sub_cancel_left]
  exact mergeSort_loop lt S P.length (P.length + (A ++ B).length) _ P A B (Nat.le_refl _)
    (by simp only [List.length_append]; omega) hB (by simp only [List.length_append]; omega)

example : StrictWeak (fun x y : Nat => decide (x < y)) := strictWeak_nat
example : Sorted (fun x y : Nat => decide (x < y)) [1, 2, 2] := by unfold Sorted; decide
example : inplaceMerge (fun x y : Nat => decide (x < y)) ([9] ++ ([1, 3, 3] ++ [2, 3]) ++ [0]) 1 4 6
    = .ok [9, 1, 2, 3, 3, 3, 0] := by decide

/-! ### merging two stably sorted halves gives the stable sort of the whole -/

/-- the stable merge of two sorted lists keeps every class of equivalent elements in order: those of the first
    list, then those of the second -/
theorem mergeSort_merge_filter (lt : α → α → Bool) (hlt : StrictWeak lt) (z : α) : ∀ (L M : List α),
    Sorted lt L → Sorted lt M →
    (List.merge L M (fun x y => !lt y x)).filter (Spec.equiv lt z)
      = L.filter (Spec.equiv lt z) ++ M.filter (Spec.equiv lt z) := by
  intro L
  induction L with
  | nil => intro M _ _; simp
  | cons x L ihL =>
    intro M
    induction M with
    | nil => intro _ _; simp [List.merge_right]
    | cons y M ihM =>
      intro hL hM
      have hL' := List.pairwise_cons.mp hL
      have hM' := List.pairwise_cons.mp hM
      rw [List.cons_merge_cons]
      by_cases hc : lt y x = true
      · rw [if_neg (by simp [hc])]
        have ih := ihM hL hM'.2
        by_cases hzy : Spec.equiv lt z y = true
        · have hnil : (x :: L).filter (Spec.equiv lt z) = [] := by
            rw [List.filter_eq_nil_iff]
            intro a ha hza
            have hax : lt a x = false := by
              rcases List.mem_cons.mp ha with h | h
              · rw [h]; exact hlt.irrefl x
              · exact hL'.1 a h
            have hya : lt y a = true := hlt.lt_of_lt_of_le hc hax
            have heq := hlt.equiv_trans (hlt.equiv_symm hzy) hza
            simp only [Spec.equiv, Bool.and_eq_true, Bool.not_eq_true'] at heq
            rw [heq.1] at hya
            cases hya
          rw [List.filter_cons_of_pos hzy, ih, hnil, List.filter_cons_of_pos hzy]
          rfl
        · rw [List.filter_cons_of_neg hzy, ih, List.filter_cons_of_neg hzy]
      · rw [if_pos (by simpa using hc)]
        have ih := ihL (y :: M) hL'.2 hM
        by_cases hzx : Spec.equiv lt z x = true
        · rw [List.filter_cons_of_pos hzx, ih, List.filter_cons_of_pos hzx]
          rfl
        · rw [List.filter_cons_of_neg hzx, ih, List.filter_cons_of_neg hzx]

theorem mergeSort_merge_sorted (lt : α → α → Bool) (hlt : StrictWeak lt) (L M : List α)
    (hL : Sorted lt L) (hM : Sorted lt M) : Sorted lt (Spec.merge lt L M) := by
  unfold Sorted at *
  have h := List.pairwise_merge (le := fun x y => !lt y x) hlt.le_trans' hlt.le_total' L M
    (hL.imp (by intro a b h; simpa using h)) (hM.imp (by intro a b h; simpa using h))
  exact h.imp (by intro a b h; simpa using h)

/-- merging the stable sorts of the halves is the stable sort of the whole -/
theorem mergeSort_merge_stableSort (lt : α → α → Bool) (hlt : StrictWeak lt) (A B : List α) :
    Spec.merge lt (Spec.stableSort lt A) (Spec.stableSort lt B) = Spec.stableSort lt (A ++ B) := by
  refine stableSort_unique hlt _ _ ?_ ?_ ?_
  · exact (List.merge_perm_append _).trans ((stableSort_perm lt A).append (stableSort_perm lt B))
  · exact mergeSort_merge_sorted lt hlt _ _ (stableSort_sorted hlt A) (stableSort_sorted hlt B)
  · intro z
    unfold Spec.merge
    rw [mergeSort_merge_filter lt hlt z _ _ (stableSort_sorted hlt A) (stableSort_sorted hlt B),
      stableSort_filter hlt A z, stableSort_filter hlt B z, List.filter_append]

theorem mergeSort_short (lt : α → α → Bool) (R : List α) (h : ¬ R.length > 1) : Spec.stableSort lt R = R := by
  unfold Spec.stableSort
  match R, h with
  | [], _ => exact List.mergeSort_nil
  | [x], _ => exact List.mergeSort_singleton x
  | _ :: _ :: _, h => simp at h

/-! ### merge_sort -/

theorem mergeSortF_spec (lt : α → α → Bool) (hlt : StrictWeak lt) : ∀ (fuel : Nat) (P R S : List α),
    R.length < fuel →
    mergeSortF lt fuel (P ++ R ++ S) P.length (P.length + R.length) = .ok (P ++ Spec.stableSort lt R ++ S) := by
  intro fuel
  induction fuel with
  | zero => intro P R S h; omega
  | succ fuel ih =>
    intro P R S h
    unfold mergeSortF
    rw [Nat.add_sub_cancel_left]
    by_cases h1 : R.length > 1
    · rw [if_pos h1]
      obtain ⟨A, B, rfl, hk⟩ : ∃ A B, R = A ++ B ∧ A.length = R.length / 2 :=
        ⟨R.take (R.length / 2), R.drop (R.length / 2), (List.take_append_drop _ _).symm, by simp; omega⟩
      simp only []
      rw [← hk]
      have hAB : (A ++ B).length = A.length + B.length := List.length_append
      rw [hAB] at h h1 hk
      have e1 : P ++ (A ++ B) ++ S = P ++ A ++ (B ++ S) := by simp
      rw [e1, ih P A (B ++ S) (by omega), ok_bind]
      have hsA : (Spec.stableSort lt A).length = A.length := List.length_mergeSort A
      have hsB : (Spec.stableSort lt B).length = B.length := List.length_mergeSort B
      have e2 : P ++ Spec.stableSort lt A ++ (B ++ S) = (P ++ Spec.stableSort lt A) ++ B ++ S := by simp
      have i2 : P.length + A.length = (P ++ Spec.stableSort lt A).length := by simp [hsA]
      have i3 : P.length + (A ++ B).length = (P ++ Spec.stableSort lt A).length + B.length := by
        simp [hsA]; omega
      rw [e2, i3, i2, ih (P ++ Spec.stableSort lt A) B S (by omega), ok_bind]
      have e4 : (P ++ Spec.stableSort lt A) ++ Spec.stableSort lt B ++ S
          = P ++ (Spec.stableSort lt A ++ Spec.stableSort lt B) ++ S := by simp
      have i4 : (P ++ Spec.stableSort lt A).length = P.length + (Spec.stableSort lt A).length := by simp
      have i5 : P.length + (Spec.stableSort lt A).length + B.length
          = P.length + (Spec.stableSort lt A ++ Spec.stableSort lt B).length := by simp [hsB]; omega
      rw [e4, i4, i5, inplaceMerge_spec lt hlt P _ _ S (stableSort_sorted hlt A) (stableSort_sorted hlt B),
        mergeSort_merge_stableSort lt hlt A B]
    · rw [if_neg h1, mergeSort_short lt R h1]

/-- merge_sort (recursive halves + inplace_merge): the stable sorted permutation (= List.mergeSort) -/
theorem mergeSort_spec (lt : α → α → Bool) (hlt : StrictWeak lt) (P R S : List α) :
    mergeSort lt (P ++ R ++ S) P.length (P.length + R.length) = .ok (P ++ Spec.stableSort lt R ++ S) := by
  unfold mergeSort
  rw [Nat.add_sub_cancel_left]
  exact mergeSortF_spec lt hlt _ P R S (by omega)

example : StrictWeak (fun x y : Nat => decide (x < y)) := strictWeak_nat
example : mergeSort (fun x y : Nat => decide (x < y)) ([9] ++ [5, 3, 1, 4, 1] ++ [0]) 1 6
    = .ok [9, 1, 1, 3, 4, 5, 0] := by decide

/-- stability is observable: equivalent elements (equal first components) keep their original order -/
example : mergeSort (fun x y : Nat × Nat => decide (x.1 < y.1)) ([(9, 0)] ++ [(2, 0), (1, 0), (2, 1), (1, 1)] ++ [(0, 0)]) 1 5
    = .ok [(9, 0), (1, 0), (1, 1), (2, 0), (2, 1), (0, 0)] := by decide

end Tetl.C06
