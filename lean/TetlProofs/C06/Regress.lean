/-
C06 — the defects that were found by the correspondence run / sanitizer only, as models: each is the model of the
code BEFORE its `fix:` commit, and each is proved to FALSIFY the property theorem that the repaired model satisfies
(Props.lean: `copyN_out`, `removeCopyIf_out`, `exchangeSort_eq`).  They show that the theorems constrain the
returned output iterator, the write positions and the iterator arithmetic — not only the values written.
-/
import TetlProofs.C06.OutBase
namespace Tetl.C06
open Tetl
variable {α : Type}

/-! ### copy_n before `fix: copy_n returns the iterator past the last element copied`:
    `if (count > 0) { *result = *first; for (Size i = 1; i < count; ++i) *(++result) = *(++first); } return result;` -/
def copyNPreLoop (a : List α) (f l dlo dhi : Nat) : Nat → Nat → List α → Nat → Except Err (List α × Nat)
  | 0, _, d, o => .ok (d, o)
  | n + 1, first, d, o => do
    let first := first + 1
    let x ← rdR a f l first
    let d ← wrR d dlo dhi (o + 1) x
    copyNPreLoop a f l dlo dhi n first d (o + 1)

def copyNPre (a : List α) (f l : Nat) (count : Int) (d : List α) (dlo dhi : Nat) : Except Err (List α × Nat) :=
  if count > 0 then do
    let x ← rdR a f l f
    let d ← wrR d dlo dhi dlo x
    copyNPreLoop a f l dlo dhi (count.toNat - 1) f d dlo
  else .ok (d, dlo)

/-- witness `copy_n a=[0] f=0 l=1 n=1`: the element is written but the returned iterator is `result + 0` -/
theorem copyNPre_witness : copyNPre [5] 0 1 1 [0] 0 1 = .ok ([5], 0) := by decide

/-! ### remove_copy_if before `fix: remove_copy_if advances the destination only for copied elements`:
    `for (; first != last; ++first, ++destination) if (not p(*first)) *destination = *first;` -/
def removeCopyIfPreLoop (p : α → Bool) (a : List α) (f l dlo dhi : Nat) : Nat → Nat → List α → Nat → Except Err (List α × Nat)
  | 0, _, d, o => .ok (d, o)
  | n + 1, i, d, o => do
    let x ← rdR a f l i
    if !p x then
      let d ← wrR d dlo dhi o x
      removeCopyIfPreLoop p a f l dlo dhi n (i + 1) d (o + 1)
    else removeCopyIfPreLoop p a f l dlo dhi n (i + 1) d (o + 1)

def removeCopyIfPre (p : α → Bool) (a : List α) (f l : Nat) (d : List α) (dlo dhi : Nat) :=
  removeCopyIfPreLoop p a f l dlo dhi (l - f) f d dlo

/-- witness `remove_copy_if a=[1,2] p=(·=1)` into an exact-fit destination: the kept element is written one position
    too far — outside the destination the standard requires (`oob`; ASan: heap-buffer-overflow) -/
theorem removeCopyIfPre_witness_exact : removeCopyIfPre (fun x => x == 1) [1, 2] 0 2 [0] 0 1 = .error .oob := by decide
/-- … and with room to spare: a hole at the first position, the returned iterator one too far -/
theorem removeCopyIfPre_witness_room :
    removeCopyIfPre (fun x => x == 1) [1, 2] 0 2 [8, 9] 0 2 = .ok ([8, 2], 2) := by decide

/-! ### exchange_sort before `fix: exchange_sort returns early on an empty range …`: no `first == last` test in front of
    `for (auto i = first; i < etl::prev(last); ++i)` -/
def exchangeSortUnguarded (lt : α → α → Bool) (a : List α) (f l : Nat) : Except Err (List α) := do
  let pl ← prevR f l l
  exchangeOuter lt f l (pl - f) a f

/-- on EVERY empty range the unguarded code decrements `last = first` -/
theorem exchangeSortUnguarded_empty (lt : α → α → Bool) (a : List α) (f : Nat) :
    exchangeSortUnguarded lt a f f = .error .oob := by
  unfold exchangeSortUnguarded prevR
  rw [if_neg (by omega)]
  rfl

end Tetl.C06
