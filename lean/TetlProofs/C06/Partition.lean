/-
C06 — partition (forward swap loop), binary_search, transform (binary) and partial_sum meet the
standard's postconditions for every input in context `P ++ R ++ S`.

partition invariant: the storage is `P ++ A ++ B ++ T ++ S` with `first = |P|+|A|`, `i = |P|+|A|+|B|`,
every element of `A` satisfies `p`, no element of `B` does, `B ≠ []`, and `A ++ B ++ T` is a
permutation of the original range.
-/
import TetlProofs.C06.Fill
import TetlProofs.C06.Bound
import TetlProofs.C06.Reverse
namespace Tetl.C06
open Tetl
variable {α : Type}

/-! ## partition -/

/-- `iter_swap(i, first)` with `first < i`: heads of two segments, later one named first -/
theorem partition_swapR (X Y W : List α) (b t : α) (f0 l0 : Nat) (hf : f0 ≤ X.length)
    (hl : X.length + Y.length + 1 < l0) :
    swapR (X ++ b :: Y ++ t :: W) f0 l0 (X.length + Y.length + 1) X.length
      = .ok (X ++ t :: Y ++ b :: W) := by
  have h1 : (X ++ b :: Y ++ t :: W)[X.length]? = some b := by
    simp [List.append_assoc]
  have h2 : (X ++ b :: Y ++ t :: W)[X.length + Y.length + 1]? = some t := by
    rw [List.getElem?_append_right (by simp; omega)]
    have : X.length + Y.length + 1 - (X ++ b :: Y).length = 0 := by simp; omega
    rw [this]
    rfl
  have e1 : (X ++ b :: Y ++ t :: W).set (X.length + Y.length + 1) b = X ++ b :: Y ++ b :: W := by
    rw [List.set_append_right _ _ (by simp; omega)]
    have : X.length + Y.length + 1 - (X ++ b :: Y).length = 0 := by simp; omega
    rw [this]
    simp
  have e2 : (X ++ b :: Y ++ b :: W).set X.length t = X ++ t :: Y ++ b :: W := by
    simp [List.append_assoc, List.set_append_right]
  unfold swapR
  rw [rdR_at (by omega) hl h2, ok_bind, rdR_at hf (by omega) h1, ok_bind,
    wrR_at b (by omega) hl (by simp; omega), ok_bind, e1,
    wrR_at t hf (by omega) (by simp), e2]

theorem partitionLoop_spec (p : α → Bool) (P S : List α) (f0 l0 : Nat) (hf : f0 ≤ P.length) :
    ∀ (T A B : List α), B ≠ [] → P.length + A.length + B.length + T.length ≤ l0 →
      (∀ x ∈ A, p x = true) → (∀ x ∈ B, p x = false) →
    ∃ A' B', partitionLoop p f0 l0 T.length (P ++ A ++ B ++ T ++ S) (P.length + A.length)
                (P.length + A.length + B.length)
              = .ok (P ++ (A' ++ B') ++ S, P.length + A'.length)
          ∧ (A' ++ B').Perm (A ++ B ++ T) ∧ (∀ x ∈ A', p x = true) ∧ (∀ x ∈ B', p x = false) := by
  intro T
  induction T with
  | nil =>
    intro A B _ _ hA hB
    refine ⟨A, B, ?_, by simp, hA, hB⟩
    simp [partitionLoop, List.append_assoc]
  | cons t T ih =>
    intro A B hBne hlen hA hB
    simp only [List.length_cons] at hlen
    have hrd : rdR (P ++ A ++ B ++ t :: T ++ S) f0 l0 (P.length + A.length + B.length) = .ok t := by
      have := rdR_mid (P ++ A ++ B) (T ++ S) t f0 l0 (by simp; omega) (by simp; omega)
      simpa [List.append_assoc, Nat.add_assoc] using this
    simp only [List.length_cons, partitionLoop]
    rw [hrd, ok_bind]
    by_cases hpt : p t = true
    · rw [if_pos hpt]
      obtain ⟨b, B', rfl⟩ := List.exists_cons_of_ne_nil hBne
      simp only [List.length_cons] at hlen
      have hsw := partition_swapR (P ++ A) B' (T ++ S) b t f0 l0 (by simp; omega) (by simp; omega)
      have e0 : P ++ A ++ b :: B' ++ t :: T ++ S = P ++ A ++ b :: B' ++ t :: (T ++ S) := by
        simp [List.append_assoc]
      have e1 : P.length + A.length + (b :: B').length = (P ++ A).length + B'.length + 1 := by
        simp; omega
      have e2 : P.length + A.length = (P ++ A).length := by simp
      rw [e0, e1, e2, hsw, ok_bind]
      have e3 : P ++ A ++ t :: B' ++ b :: (T ++ S) = P ++ (A ++ [t]) ++ (B' ++ [b]) ++ T ++ S := by
        simp [List.append_assoc]
      have e4 : (P ++ A).length + 1 = P.length + (A ++ [t]).length := by simp; omega
      have e5 : (P ++ A).length + B'.length + 1 + 1 = P.length + (A ++ [t]).length + (B' ++ [b]).length := by
        simp; omega
      rw [e3, e4, e5]
      obtain ⟨A', B'', heq, hperm, hA', hB'⟩ := ih (A ++ [t]) (B' ++ [b]) (by simp) (by simp; omega)
        (by
          intro x hx
          rcases List.mem_append.1 hx with h | h
          · exact hA x h
          · simp at h; subst h; exact hpt)
        (by
          intro x hx
          apply hB
          rcases List.mem_append.1 hx with h | h
          · exact List.mem_cons_of_mem _ h
          · simp at h; subst h; exact List.mem_cons_self)
      refine ⟨A', B'', heq, hperm.trans ?_, hA', hB'⟩
      -- (A ++ [t]) ++ (B' ++ [b]) ++ T  ~  A ++ (b :: B') ++ (t :: T)
      have h1 : (A ++ [t] ++ (B' ++ [b]) ++ T) = A ++ (t :: (B' ++ [b])) ++ T := by simp [List.append_assoc]
      have h2 : A ++ b :: B' ++ t :: T = A ++ ((b :: B') ++ [t]) ++ T := by simp [List.append_assoc]
      rw [h1, h2]
      refine List.Perm.append_right _ (List.Perm.append_left _ ?_)
      have h3 : (t :: (B' ++ [b])).Perm (t :: b :: B') :=
        List.Perm.cons _ (List.perm_append_comm (l₁ := B') (l₂ := [b]))
      have h4 : (b :: B' ++ [t]).Perm (t :: b :: B') :=
        List.perm_append_comm (l₁ := b :: B') (l₂ := [t])
      exact h3.trans h4.symm
    · rw [if_neg hpt]
      have hpt' : p t = false := by simpa using hpt
      have e3 : P ++ A ++ B ++ t :: T ++ S = P ++ A ++ (B ++ [t]) ++ T ++ S := by
        simp [List.append_assoc]
      have e5 : P.length + A.length + B.length + 1 = P.length + A.length + (B ++ [t]).length := by
        simp; omega
      rw [e3, e5]
      obtain ⟨A', B'', heq, hperm, hA', hB'⟩ := ih A (B ++ [t]) (by simp) (by simp; omega) hA
        (by
          intro x hx
          rcases List.mem_append.1 hx with h | h
          · exact hB x h
          · simp at h; subst h; exact hpt')
      refine ⟨A', B'', heq, ?_, hA', hB'⟩
      have : A ++ B ++ t :: T = A ++ (B ++ [t]) ++ T := by simp [List.append_assoc]
      rw [this]
      exact hperm

/-- split a range at the first element that does not satisfy `p` -/
theorem partition_split (p : α → Bool) : ∀ R : List α,
    (R.findIdx (fun x => !p x) = R.length ∧ ∀ x ∈ R, p x = true) ∨
    ∃ A r T, R = A ++ r :: T ∧ R.findIdx (fun x => !p x) = A.length ∧ (∀ x ∈ A, p x = true) ∧ p r = false
  | [] => by simp
  | x :: xs => by
    by_cases hq : p x = true
    · rcases partition_split p xs with ⟨h1, h2⟩ | ⟨A, r, T, h1, h2, h3, h4⟩
      · left
        refine ⟨by simp [List.findIdx_cons, hq, h1], ?_⟩
        intro y hy
        rcases List.mem_cons.1 hy with h | h
        · subst h; exact hq
        · exact h2 y h
      · right
        refine ⟨x :: A, r, T, by simp [h1], by simp [List.findIdx_cons, hq, h2], ?_, h4⟩
        intro y hy
        rcases List.mem_cons.1 hy with h | h
        · subst h; exact hq
        · exact h3 y h
    · right
      have hq' : p x = false := by simpa using hq
      exact ⟨[], x, xs, by simp, by simp [List.findIdx_cons, hq'], by simp, hq'⟩

/-- [alg.partitions] partition: a permutation of the range with every element satisfying `p` before every element
    that does not; returns the partition point; context untouched -/
theorem partition_spec (p : α → Bool) (P R S : List α) :
    ∃ R', partition p (P ++ R ++ S) P.length (P.length + R.length) = .ok (P ++ R' ++ S, P.length + R.countP p)
        ∧ R'.Perm R ∧ (∀ x ∈ R'.take (R.countP p), p x = true) ∧ (∀ x ∈ R'.drop (R.countP p), p x = false) := by
  have hfind : findIfNot p (P ++ R ++ S) P.length (P.length + R.length)
      = .ok (P.length + R.findIdx (fun x => !p x)) := by
    have := findLoop_spec (fun x => !p x) P R S R.length 0 (by simp)
    simpa [findIfNot, Spec.findIdx] using this
  unfold partition
  rw [hfind, ok_bind]
  rcases partition_split p R with ⟨h1, h2⟩ | ⟨A, r, T, h1, h2, h3, h4⟩
  · have hc : R.countP p = R.length := List.countP_eq_length.2 h2
    refine ⟨R, ?_, List.Perm.refl _, ?_, ?_⟩
    · rw [h1, hc]; simp
    · rw [hc]; simpa using h2
    · rw [hc]; simp
  · obtain ⟨A', B', heq, hperm, hA', hB'⟩ := partitionLoop_spec p P S P.length (P.length + R.length)
      (Nat.le_refl _) T A [r] (by simp) (by rw [h1]; simp; omega) h3
      (by intro x hx; simp at hx; subst hx; exact h4)
    have hpermR : (A' ++ B').Perm R := by
      rw [h1]
      have : A ++ [r] ++ T = A ++ r :: T := by simp [List.append_assoc]
      rw [← this]; exact hperm
    have hc : R.countP p = A'.length := by
      rw [← hpermR.countP_eq p, List.countP_append, List.countP_eq_length.2 hA',
        List.countP_eq_zero.2 (by intro x hx; simp [hB' x hx])]
      rfl
    have hne : (P.length + R.findIdx (fun x => !p x) == P.length + R.length) = false := by
      rw [beq_eq_false_iff_ne, h2, h1]; simp
    have hn : P.length + R.length - (P.length + R.findIdx (fun x => !p x)) - 1 = T.length := by
      rw [h2, h1]; simp; omega
    have hst : P ++ R ++ S = P ++ A ++ [r] ++ T ++ S := by rw [h1]; simp [List.append_assoc]
    have hi : P.length + R.findIdx (fun x => !p x) + 1 = P.length + A.length + [r].length := by
      rw [h2]; simp
    refine ⟨A' ++ B', ?_, hpermR, ?_, ?_⟩
    · rw [hne, hn, hi, h2, hc]
      simp only [Bool.false_eq_true, if_false]
      rw [hst]
      exact heq
    · rw [hc]; simpa using hA'
    · rw [hc]; simpa using hB'

/-! ## transform (binary) -/

theorem transform2Loop_spec (op : α → α → α) (P R S Q T U : List α) (h : R.length ≤ T.length) :
    ∀ (n i : Nat), i + n = R.length →
    transform2Loop op (P ++ R ++ S) P.length (P.length + R.length) (Q ++ T ++ U) Q.length (Q.length + T.length)
        n (P.length + i) (Q.length + i)
      = .ok (((R.drop i).zip (T.drop i)).map (fun xy => op xy.1 xy.2)) := by
  intro n
  induction n with
  | zero =>
    intro i hi
    have : R.drop i = [] := List.drop_eq_nil_of_le (by omega)
    simp [transform2Loop, this]
  | succ n ih =>
    intro i hi
    have hiR : i < R.length := by omega
    have hiT : i < T.length := by omega
    simp only [transform2Loop, rdR_ctx P R S i hiR, rdR_ctx Q T U i hiT, ok_bind, drop_eq_cons hiR, drop_eq_cons hiT,
      List.zip_cons_cons, List.map_cons]
    rw [show P.length + i + 1 = P.length + (i + 1) from by omega,
      show Q.length + i + 1 = Q.length + (i + 1) from by omega, ih (i + 1) (by omega)]
    rfl

/-- precondition of transform (binary): the second range has at least `last1 - first1` elements -/
theorem transform2_spec (op : α → α → α) (P R S Q T U : List α) (h : R.length ≤ T.length) :
    transform2 op (P ++ R ++ S) P.length (P.length + R.length) (Q ++ T ++ U) Q.length (Q.length + T.length)
      = .ok ((R.zip T).map (fun xy => op xy.1 xy.2)) := by
  have := transform2Loop_spec op P R S Q T U h R.length 0 (by simp)
  unfold transform2
  rw [Nat.add_sub_cancel_left]
  simpa using this

/-! ## binary_search -/

theorem partition_takeWhile_all (q : α → Bool) : ∀ R : List α, (R.takeWhile q).length = R.length →
    ∀ x ∈ R, q x = true
  | [], _ => by simp
  | y :: ys, h => by
    by_cases hq : q y = true
    · simp only [List.takeWhile_cons, hq, if_true, List.length_cons, Nat.add_right_cancel_iff] at h
      intro x hx
      rcases List.mem_cons.1 hx with hx | hx
      · subst hx; exact hq
      · exact partition_takeWhile_all q ys h x hx
    · simp [hq] at h

/-- [binary.search] precondition: the range is partitioned w.r.t. `e < v` and `!(v < e)` -/
theorem binarySearch_spec (lt : α → α → Bool) (v : α) (P R S : List α)
    (hp1 : Spec.isPartitioned (fun x => lt x v) R = true) (hp2 : Spec.isPartitioned (fun x => !lt v x) R = true) :
    binarySearch lt v (P ++ R ++ S) P.length (P.length + R.length) = .ok (Spec.binarySearch lt v R) := by
  have hlb : lowerBound lt v (P ++ R ++ S) P.length (P.length + R.length)
      = .ok (P.length + (R.takeWhile (fun x => lt x v)).length) := by
    have := boundLoop_spec (fun x => lt x v) P R S hp1 R.length 0 R.length (by omega) (Nat.zero_le _)
      (by simpa using length_takeWhile_le' _ R) (Nat.le_refl _)
    unfold lowerBound
    rw [Nat.add_sub_cancel_left]
    simpa using this
  have hle := length_takeWhile_le' (fun x => lt x v) R
  unfold binarySearch
  rw [hlb, ok_bind]
  generalize hk : (R.takeWhile (fun x => lt x v)).length = k at hle
  have g1 := partitioned_getElem (fun x => lt x v) R hp1
  have g2 := partitioned_getElem (fun x => !lt v x) R hp2
  rw [hk] at g1
  simp only [Spec.binarySearch]
  by_cases hkR : k = R.length
  · have hall := partition_takeWhile_all (fun x => lt x v) R (by rw [hk, hkR])
    have hne : (P.length + k != P.length + R.length) = false := by simp [hkR]
    rw [hne]
    simp only [Bool.false_eq_true, if_false]
    congr 1
    symm
    rw [List.any_eq_false]
    intro x hx
    have := hall x hx
    simp [this]
  · have hklt : k < R.length := by omega
    have hne : (P.length + k != P.length + R.length) = true := by
      rw [bne_iff_ne]; omega
    rw [hne]
    simp only [if_true]
    rw [rdR_ctx P R S k hklt, ok_bind]
    congr 1
    have hk1 : lt R[k] v = false := by
      have := g1 k hklt
      simpa using this
    cases hvk : lt v R[k]
    · -- witness
      symm
      simp only [Bool.not_false]
      rw [List.any_eq_true]
      exact ⟨R[k], List.getElem_mem hklt, by simp [hk1, hvk]⟩
    · symm
      simp only [Bool.not_true]
      rw [List.any_eq_false]
      intro x hx
      obtain ⟨i, hi, rfl⟩ := List.getElem_of_mem hx
      have a1 := g1 i hi
      have a2 := g2 i hi
      have a3 := g2 k hklt
      simp only [hvk, Bool.not_true] at a3
      have hk2 : ¬ k < (R.takeWhile (fun x => !lt v x)).length := by simpa using a3.symm
      by_cases hik : i < k
      · simp [a1, hik]
      · have : ¬ i < (R.takeWhile (fun x => !lt v x)).length := by omega
        simp only [this, decide_false] at a2
        simp [a2]

/-! ## partial_sum -/

/-- running fold: `scan op acc [x1, x2, …] = [acc·x1, acc·x1·x2, …]` -/
def partialSum_scan (op : α → α → α) : α → List α → List α
  | _, [] => []
  | acc, x :: t => op acc x :: partialSum_scan op (op acc x) t

theorem partialSum_map_range (op : α → α → α) : ∀ (t : List α) (acc : α),
    (List.range t.length).map (fun i => (t.take (i + 1)).foldl op acc) = partialSum_scan op acc t
  | [], _ => by simp [partialSum_scan]
  | y :: t, acc => by
    rw [List.length_cons, List.range_succ_eq_map, List.map_cons, List.map_map, partialSum_scan,
      ← partialSum_map_range op t (op acc y)]
    simp only [List.take_succ_cons, List.take_zero, List.foldl_cons, List.foldl_nil]
    congr 1

theorem partialSum_cons (op : α → α → α) (x : α) (t : List α) :
    Spec.partialSum op (x :: t) = x :: partialSum_scan op x t := by
  unfold Spec.partialSum
  rw [List.length_cons, List.range_succ_eq_map, List.filterMap_cons]
  simp only [List.take_succ_cons, List.take_zero, List.foldl_nil, List.filterMap_map]
  congr 1
  rw [← partialSum_map_range op t x]
  have : ((fun i => some (List.foldl op x (List.take i t))) ∘ Nat.succ)
      = (some ∘ fun i => (t.take (i + 1)).foldl op x) := by
    funext i
    rfl
  rw [this, List.filterMap_eq_map]

theorem partialSumLoop_spec (op : α → α → α) (P R S : List α) : ∀ (n i : Nat) (sum : α), i + n = R.length →
    partialSumLoop op (P ++ R ++ S) P.length (P.length + R.length) n (P.length + i) sum
      = .ok (partialSum_scan op sum (R.drop i)) := by
  intro n
  induction n with
  | zero =>
    intro i sum hi
    have : R.drop i = [] := List.drop_eq_nil_of_le (by omega)
    simp [partialSumLoop, partialSum_scan, this]
  | succ n ih =>
    intro i sum hi
    have hiR : i < R.length := by omega
    simp only [partialSumLoop, rdR_ctx P R S i hiR, ok_bind, drop_eq_cons hiR, partialSum_scan]
    rw [show P.length + i + 1 = P.length + (i + 1) from by omega, ih (i + 1) _ (by omega)]
    rfl

theorem partialSum_spec (op : α → α → α) (P R S : List α) :
    partialSum op (P ++ R ++ S) P.length (P.length + R.length) = .ok (Spec.partialSum op R) := by
  unfold partialSum
  match R with
  | [] => simp [Spec.partialSum]
  | x :: t =>
    have hne : (P.length == P.length + (x :: t).length) = false := by
      rw [beq_eq_false_iff_ne]; simp
    rw [hne]
    simp only [Bool.false_eq_true, if_false]
    have hrd := rdR_ctx P (x :: t) S 0 (by simp)
    simp only [Nat.add_zero, List.getElem_cons_zero] at hrd
    rw [hrd, ok_bind]
    have hl := partialSumLoop_spec op P (x :: t) S t.length 1 x (by simp; omega)
    have hn : P.length + (x :: t).length - P.length - 1 = t.length := by simp
    rw [hn, hl, ok_bind, partialSum_cons]
    rfl

end Tetl.C06
