/-
C06 — `search`, `find_end`, `search_n` return exactly the declarative result for every input
(any needle, any count), never read outside the range and never run out of fuel.
-/
import TetlProofs.C06.Fold
namespace Tetl.C06
open Tetl
variable {α : Type}

/-! ### one inner run of `search` -/

/-- pure classification of one inner run: needle `s` against the remaining range `T` -/
def search_cls (pred : α → α → Bool) : List α → List α → Inner
  | [], _ => .matched
  | _ :: _, [] => .hitEnd
  | c :: cs, x :: xs => if !pred x c then .mismatch else search_cls pred cs xs

theorem search_inner_eq (pred : α → α → Bool) (P R S s : List α) : ∀ (i : Nat), i ≤ R.length →
    searchInner pred (P ++ R ++ S) P.length (P.length + R.length) s (P.length + i)
      = .ok (search_cls pred s (R.drop i)) := by
  induction s with
  | nil => intro i _; simp [searchInner, search_cls]
  | cons c cs ih =>
    intro i hi
    by_cases he : i = R.length
    · subst he
      simp [searchInner, search_cls]
    · have hlt : i < R.length := by omega
      have hb : (P.length + i == P.length + R.length) = false := by simp; omega
      rw [drop_eq_cons hlt]
      simp only [searchInner, hb, Bool.false_eq_true, if_false, rdR_ctx P R S i hlt, ok_bind, search_cls]
      split
      · rfl
      · rw [show P.length + i + 1 = P.length + (i + 1) from by omega]
        exact ih (i + 1) (by omega)

theorem search_cls_matched_iff (pred : α → α → Bool) (s T : List α) :
    search_cls pred s T = .matched ↔ Spec.prefixBy pred T s = true := by
  induction s generalizing T with
  | nil => cases T <;> simp [search_cls, Spec.prefixBy]
  | cons c cs ih =>
    cases T with
    | nil => simp [search_cls, Spec.prefixBy]
    | cons x xs =>
      simp only [search_cls, Spec.prefixBy, Bool.and_eq_true]
      by_cases hx : pred x c
      · simp [hx, ih]
      · simp [hx]

theorem search_cls_hitEnd_short (pred : α → α → Bool) (s T : List α) (hh : search_cls pred s T = .hitEnd) :
    T.length < s.length := by
  induction s generalizing T with
  | nil => simp [search_cls] at hh
  | cons c cs ih =>
    cases T with
    | nil => simp
    | cons x xs =>
      simp only [search_cls] at hh
      split at hh
      · cases hh
      · have := ih xs hh; simp; omega

theorem search_cls_mismatch_ne (pred : α → α → Bool) (s T : List α) (hh : search_cls pred s T = .mismatch) :
    T ≠ [] := by
  cases s with
  | nil => simp [search_cls] at hh
  | cons c cs => cases T with
    | nil => simp [search_cls] at hh
    | cons x xs => simp

theorem search_prefixBy_length (pred : α → α → Bool) (T s : List α) (h : Spec.prefixBy pred T s = true) :
    s.length ≤ T.length := by
  induction s generalizing T with
  | nil => simp
  | cons c cs ih =>
    cases T with
    | nil => simp [Spec.prefixBy] at h
    | cons x xs =>
      simp only [Spec.prefixBy, Bool.and_eq_true] at h
      have := ih xs h.2
      simp; omega

/-- occurrence predicate: `s` matches at offset `k` of `R` -/
def search_M (pred : α → α → Bool) (R s : List α) (k : Nat) : Bool := Spec.prefixBy pred (R.drop k) s

theorem search_M_false_of_short (pred : α → α → Bool) (R s : List α) (k : Nat) (hs : R.length - k < s.length) :
    search_M pred R s k = false := by
  cases hp : search_M pred R s k with
  | false => rfl
  | true =>
    have := search_prefixBy_length pred _ _ hp
    simp at this
    omega

/-! ### the outer loop of `search` -/

theorem search_loop_eq (pred : α → α → Bool) (P R S s : List α) : ∀ (fuel i : Nat), i ≤ R.length →
    R.length + 1 - i ≤ fuel →
    searchLoop pred (P ++ R ++ S) P.length (P.length + R.length) s fuel (P.length + i)
      = .ok (P.length + ((List.range' i (R.length + 1 - i)).find? (search_M pred R s)).getD R.length) := by
  intro fuel
  induction fuel with
  | zero => intro i hi hf; omega
  | succ f ih =>
    intro i hi hf
    have hr : R.length + 1 - i = (R.length - i) + 1 := by omega
    simp only [searchLoop, search_inner_eq pred P R S s i hi, ok_bind, hr, List.range'_succ, List.find?_cons]
    cases hc : search_cls pred s (R.drop i) with
    | matched =>
      have : search_M pred R s i = true := (search_cls_matched_iff _ _ _).mp hc
      simp [this]
    | hitEnd =>
      have hshort := search_cls_hitEnd_short _ _ _ hc
      simp at hshort
      have h0 : search_M pred R s i = false := search_M_false_of_short pred R s i (by omega)
      have hnone : (List.range' (i + 1) (R.length - i)).find? (search_M pred R s) = none := by
        rw [List.find?_eq_none]
        intro k hk
        simp only [List.mem_range'_1] at hk
        simp [search_M_false_of_short pred R s k (by omega)]
      simp [h0, hnone]
    | mismatch =>
      have hne := search_cls_mismatch_ne _ _ _ hc
      have hlt : i < R.length := by
        apply Classical.byContradiction; intro hge
        apply hne; apply List.drop_eq_nil_of_le; omega
      have h0 : search_M pred R s i = false := by
        cases hm : search_M pred R s i with
        | false => rfl
        | true => have := (search_cls_matched_iff _ _ _).mpr hm; rw [hc] at this; cases this
      simp only [h0]
      have := ih (i + 1) (by omega) (by omega)
      have e : R.length + 1 - (i + 1) = R.length - i := by omega
      rw [e] at this
      rw [show P.length + i + 1 = P.length + (i + 1) from by omega]
      exact this

theorem search_from_eq (pred : α → α → Bool) (P R S s : List α) (i : Nat) (hi : i ≤ R.length) :
    searchFrom pred (P ++ R ++ S) P.length (P.length + R.length) s (P.length + i)
      = .ok (P.length + ((List.range' i (R.length + 1 - i)).find? (search_M pred R s)).getD R.length) := by
  unfold searchFrom
  exact search_loop_eq pred P R S s _ i hi (by omega)

theorem search_spec (pred : α → α → Bool) (P R S s : List α) :
    search pred (P ++ R ++ S) P.length (P.length + R.length) s = .ok (P.length + Spec.search pred R s) := by
  have := search_from_eq pred P R S s 0 (by omega)
  unfold search
  rw [Nat.add_zero] at this
  rw [this, Spec.search, List.range_eq_range']
  rfl

/-! ### find_end -/

/-- last `j` with `first ≤ j < k` and `M j` -/
def search_lastIn (M : Nat → Bool) (first : Nat) : Nat → Option Nat
  | 0 => none
  | k + 1 => if first ≤ k ∧ M k = true then some k else search_lastIn M first k

theorem search_lastIn_none_of_forall (M : Nat → Bool) (first k : Nat)
    (hn : ∀ j, first ≤ j → j < k → M j = false) : search_lastIn M first k = none := by
  induction k with
  | zero => rfl
  | succ k ih =>
    simp only [search_lastIn]
    have : ¬ (first ≤ k ∧ M k = true) := by
      intro ⟨h1, h2⟩; have := hn k h1 (by omega); simp [this] at h2
    simp only [this, if_false]
    exact ih (fun j h1 h2 => hn j h1 (by omega))

theorem search_lastIn_shift (M : Nat → Bool) (first first' k : Nat) (hle : first ≤ first')
    (hn : ∀ j, first ≤ j → j < first' → M j = false) : search_lastIn M first k = search_lastIn M first' k := by
  induction k with
  | zero => rfl
  | succ k ih =>
    simp only [search_lastIn]
    by_cases hk : first' ≤ k
    · have : first ≤ k := by omega
      simp [hk, this, ih]
    · by_cases hk2 : first ≤ k
      · have := hn k hk2 (by omega)
        simp [this, hk, ih]
      · simp [hk, hk2, ih]

theorem search_lastIn_step (M : Nat → Bool) (i k : Nat) (hi : i < k) (hm : M i = true) :
    search_lastIn M i k = some ((search_lastIn M (i + 1) k).getD i) := by
  induction k with
  | zero => omega
  | succ k ih =>
    simp only [search_lastIn]
    by_cases hk : i + 1 ≤ k
    · have h1 : i ≤ k := by omega
      by_cases hmk : M k = true
      · simp [hk, h1, hmk]
      · simp only [hk, h1, hmk]
        exact ih (by omega)
    · have hik : i = k := by omega
      subst hik
      have : search_lastIn M (i + 1) i = none := search_lastIn_none_of_forall M _ _ (fun j h1 h2 => by omega)
      have hk' : ¬ (i + 1 ≤ i) := by omega
      simp [hm, this, hk']

theorem search_find?_range'_some (M : Nat → Bool) (first n i : Nat) (hf : (List.range' first n).find? M = some i) :
    first ≤ i ∧ i < first + n ∧ M i = true ∧ ∀ j, first ≤ j → j < i → M j = false := by
  induction n generalizing first with
  | zero => simp at hf
  | succ n ih =>
    simp only [List.range'_succ, List.find?_cons] at hf
    cases hm : M first with
    | true => simp [hm] at hf; subst hf; exact ⟨by omega, by omega, hm, fun j h1 h2 => by omega⟩
    | false =>
      simp only [hm] at hf
      obtain ⟨a, b, c, d⟩ := ih (first + 1) hf
      refine ⟨by omega, by omega, c, fun j h1 h2 => ?_⟩
      by_cases hj : j = first
      · subst hj; exact hm
      · exact d j (by omega) h2

theorem search_find?_range'_none (M : Nat → Bool) (first n : Nat) (hf : (List.range' first n).find? M = none) :
    ∀ j, first ≤ j → j < first + n → M j = false := by
  intro j h1 h2
  rw [List.find?_eq_none] at hf
  have := hf j (by simp [List.mem_range'_1]; omega)
  simpa using this

theorem search_reverse_range_find (M : Nat → Bool) (k : Nat) :
    (List.range k).reverse.find? M = search_lastIn M 0 k := by
  induction k with
  | zero => rfl
  | succ k ih =>
    rw [List.range_succ, List.reverse_append, List.reverse_singleton, List.singleton_append, List.find?_cons]
    simp only [search_lastIn, Nat.zero_le, true_and]
    cases M k <;> simp [ih]

/-- the `while (true)` loop of `find_end`: the last occurrence at or after `i`, else `result` -/
theorem search_findEndLoop_eq (pred : α → α → Bool) (P R S s : List α) (hs : s ≠ []) :
    ∀ (fuel i result : Nat), i ≤ R.length → R.length + 1 - i ≤ fuel →
    findEndLoop pred (P ++ R ++ S) P.length (P.length + R.length) s fuel (P.length + i) result
      = .ok (((search_lastIn (search_M pred R s) i (R.length + 1)).map (P.length + ·)).getD result) := by
  intro fuel
  induction fuel with
  | zero => intro i result hi hf; omega
  | succ f ih =>
    intro i result hi hf
    simp only [findEndLoop, search_from_eq pred P R S s i hi, ok_bind]
    cases hfind : (List.range' i (R.length + 1 - i)).find? (search_M pred R s) with
    | none =>
      have hn := search_find?_range'_none _ _ _ hfind
      have : search_lastIn (search_M pred R s) i (R.length + 1) = none :=
        search_lastIn_none_of_forall _ _ _ (fun j h1 h2 => hn j h1 (by omega))
      simp [this]
    | some k =>
      obtain ⟨h1, h2, h3, h4⟩ := search_find?_range'_some _ _ _ _ hfind
      have hkl : k < R.length := by
        have hshort : ¬ (R.length - k < s.length) := by
          intro hsh; rw [search_M_false_of_short pred R s k hsh] at h3; cases h3
        have : 0 < s.length := List.length_pos_iff.mpr hs
        omega
      have hne : (P.length + k == P.length + R.length) = false := by simp; omega
      simp only [Option.getD_some, hne, Bool.false_eq_true, if_false]
      rw [show P.length + k + 1 = P.length + (k + 1) from by omega, ih (k + 1) _ (by omega) (by omega)]
      rw [search_lastIn_shift (search_M pred R s) i k (R.length + 1) h1 h4,
        search_lastIn_step _ k (R.length + 1) (by omega) h3]
      cases search_lastIn (search_M pred R s) (k + 1) (R.length + 1) <;> simp

theorem findEnd_spec (pred : α → α → Bool) (P R S s : List α) :
    findEnd pred (P ++ R ++ S) P.length (P.length + R.length) s = .ok (P.length + Spec.findEnd pred R s) := by
  unfold findEnd Spec.findEnd
  cases hs : s.isEmpty with
  | true => simp
  | false =>
    have hne : s ≠ [] := by intro h; subst h; simp at hs
    have := search_findEndLoop_eq pred P R S s hne (P.length + R.length - P.length + 1) 0 (P.length + R.length)
      (by omega) (by omega)
    rw [show P.length + 0 = P.length from rfl] at this
    simp only [Bool.false_eq_true, if_false]
    rw [this, search_reverse_range_find]
    show _ = Except.ok (P.length + (search_lastIn (search_M pred R s) 0 (R.length + 1)).getD R.length)
    cases search_lastIn (search_M pred R s) 0 (R.length + 1) <;> simp

/-! ### search_n -/

/-- window predicate of the spec: `c` consecutive elements from offset `k` satisfy `pred · v` -/
def search_W (pred : α → α → Bool) (R : List α) (c : Nat) (v : α) (k : Nat) : Bool :=
  k + c ≤ R.length && ((R.drop k).take c).all (fun x => pred x v)

theorem search_win_true (q : α → Bool) (R : List α) (k c : Nat)
    (hall : ∀ t (ht : t < R.length), k ≤ t → t < k + c → q R[t] = true) :
    ((R.drop k).take c).all q = true := by
  rw [List.all_eq_true]
  intro x hx
  obtain ⟨t, ht, rfl⟩ := List.mem_iff_getElem.mp hx
  simp only [List.length_take, List.length_drop] at ht
  rw [List.getElem_take, List.getElem_drop]
  exact hall (k + t) (by omega) (by omega) (by omega)

theorem search_win_false (q : α → Bool) (R : List α) (k c i : Nat) (hi : i < R.length) (hk : k ≤ i)
    (hc : i < k + c) (hq : q R[i] = false) : ((R.drop k).take c).all q = false := by
  cases h : ((R.drop k).take c).all q with
  | false => rfl
  | true =>
    rw [List.all_eq_true] at h
    have hm : R[i] ∈ (R.drop k).take c := by
      rw [List.mem_iff_getElem]
      refine ⟨i - k, by simp only [List.length_take, List.length_drop]; omega, ?_⟩
      rw [List.getElem_take, List.getElem_drop]
      congr 1; omega
    rw [h _ hm] at hq; cases hq

theorem search_find?_range'_skip (M : Nat → Bool) (m : Nat) : ∀ (d j j' : Nat), j' = j + d → j' ≤ m →
    (∀ k, j ≤ k → k < j' → M k = false) →
    (List.range' j (m - j)).find? M = (List.range' j' (m - j')).find? M := by
  intro d
  induction d with
  | zero => intro j j' h _ _; subst h; rfl
  | succ d ih =>
    intro j j' h hm hn
    have e : m - j = (m - (j + 1)) + 1 := by omega
    rw [e, List.range'_succ, List.find?_cons, hn j (by omega) (by omega)]
    exact ih (j + 1) j' (by omega) hm (fun k h1 h2 => hn k (by omega) h2)

theorem search_nLoop_eq (pred : α → α → Bool) (v : α) (c : Nat) (P R S : List α) :
    ∀ (n i j found : Nat), i + n = R.length → j ≤ i → i - j < c →
    (j < i → found = P.length + j) →
    (∀ t (ht : t < R.length), j ≤ t → t < i → pred R[t] v = true) →
    searchNLoop pred v c (P ++ R ++ S) P.length (P.length + R.length) n (P.length + i) found (i - j)
      = .ok (P.length + ((List.range' j (R.length + 1 - j)).find? (search_W pred R c v)).getD R.length) := by
  intro n
  induction n with
  | zero =>
    intro i j found hn hj hc hfound hall
    have hnone : (List.range' j (R.length + 1 - j)).find? (search_W pred R c v) = none := by
      rw [List.find?_eq_none]
      intro k hk
      simp only [List.mem_range'_1] at hk
      have : ¬ (k + c ≤ R.length) := by omega
      simp [search_W, this]
    simp [searchNLoop, hnone]
  | succ n ih =>
    intro i j found hn hj hc hfound hall
    have hi : i < R.length := by omega
    simp only [searchNLoop, rdR_ctx P R S i hi, ok_bind]
    cases hq : pred R[i] v with
    | true =>
      simp only [if_true]
      have hf' : (if (i - j == 0) = true then P.length + i else found) = P.length + j := by
        by_cases hji : j = i
        · subst hji; simp
        · have : (i - j == 0) = false := by simp; omega
          simp only [this, Bool.false_eq_true, if_false]
          exact hfound (by omega)
      rw [hf']
      have hall' : ∀ t (ht : t < R.length), j ≤ t → t < i + 1 → pred R[t] v = true := by
        intro t ht h1 h2
        by_cases hti : t = i
        · subst hti; exact hq
        · exact hall t ht h1 (by omega)
      by_cases hcc : i - j + 1 = c
      · have hb : (i - j + 1 == c) = true := by simp [hcc]
        simp only [hb, if_true]
        have e : R.length + 1 - j = (R.length - j) + 1 := by omega
        have hW : search_W pred R c v j = true := by
          unfold search_W
          have h1 : j + c ≤ R.length := by omega
          simp only [h1, decide_true, Bool.true_and]
          exact search_win_true _ R j c (fun t ht h1 h2 => hall' t ht h1 (by omega))
        rw [e, List.range'_succ, List.find?_cons, hW]
        rfl
      · have hb : (i - j + 1 == c) = false := by simp [hcc]
        simp only [hb, Bool.false_eq_true, if_false]
        have := ih (i + 1) j (P.length + j) (by omega) (by omega) (by omega) (fun _ => rfl) hall'
        rw [show i + 1 - j = i - j + 1 from by omega] at this
        rw [show P.length + i + 1 = P.length + (i + 1) from by omega]
        exact this
    | false =>
      simp only [Bool.false_eq_true, if_false]
      have := ih (i + 1) (i + 1) found (by omega) (by omega) (by omega) (fun h => by omega)
        (fun t ht h1 h2 => by omega)
      rw [Nat.sub_self] at this
      rw [show P.length + i + 1 = P.length + (i + 1) from by omega, this]
      rw [search_find?_range'_skip (search_W pred R c v) (R.length + 1) (i + 1 - j) j (i + 1) (by omega) (by omega)]
      intro k h1 h2
      unfold search_W
      rw [search_win_false _ R k c i hi (by omega) (by omega) hq, Bool.and_false]

theorem searchN_spec (pred : α → α → Bool) (P R S : List α) (count : Int) (v : α) :
    searchN pred (P ++ R ++ S) P.length (P.length + R.length) count v
      = .ok (P.length + Spec.searchN pred R count v) := by
  unfold searchN Spec.searchN
  by_cases hc : count ≤ 0
  · simp [hc]
  · simp only [hc, if_false]
    have := search_nLoop_eq pred v count.toNat P R S R.length 0 0 P.length (by omega) (by omega) (by omega)
      (fun h => by omega) (fun t ht h1 h2 => by omega)
    rw [show P.length + 0 = P.length from rfl, Nat.sub_self] at this
    rw [Nat.add_sub_cancel_left, this, List.range_eq_range']
    rfl

end Tetl.C06
