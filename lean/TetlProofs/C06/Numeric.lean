/-
C06 — numeric.hpp loops over two cursors: inner_product / transform_reduce (binary), adjacent_difference.
-/
import TetlProofs.C06.Fold
namespace Tetl.C06
open Tetl
variable {α β : Type}

theorem innerLoop_spec (op1 : β → β → β) (op2 : α → α → β) (P R S Q T U : List α) : ∀ (n k : Nat) (acc : β),
    k + n = R.length → R.length ≤ T.length →
    innerLoop op1 op2 (P ++ R ++ S) P.length (P.length + R.length) (Q ++ T ++ U) Q.length (Q.length + T.length)
        n (P.length + k) (Q.length + k) acc
      = .ok ((((R.drop k).zip (T.drop k)).map (fun xy => op2 xy.1 xy.2)).foldl op1 acc) := by
  intro n
  induction n with
  | zero =>
    intro k acc h _
    have : R.drop k = [] := List.drop_eq_nil_of_le (by omega)
    simp [innerLoop, this]
  | succ n ih =>
    intro k acc h hl
    have hr : k < R.length := by omega
    have ht : k < T.length := by omega
    simp only [innerLoop, rdR_ctx P R S k hr, rdR_ctx Q T U k ht, ok_bind, drop_eq_cons hr, drop_eq_cons ht,
      List.zip_cons_cons, List.map_cons, List.foldl_cons]
    rw [show P.length + k + 1 = P.length + (k + 1) from by omega,
      show Q.length + k + 1 = Q.length + (k + 1) from by omega, ih (k + 1) _ (by omega) hl]

theorem adjDiffLoop_spec (op : α → α → α) (P R S : List α) : ∀ (n i : Nat) (hi : i < R.length),
    i + 1 + n = R.length →
    adjDiffLoop op (P ++ R ++ S) P.length (P.length + R.length) n (P.length + (i + 1)) R[i]
      = .ok (((R.drop (i + 1)).zip (R.drop i)).map (fun cp => op cp.1 cp.2)) := by
  intro n
  induction n with
  | zero =>
    intro i hi h
    have : R.drop (i + 1) = [] := List.drop_eq_nil_of_le (by omega)
    simp [adjDiffLoop, this]
  | succ n ih =>
    intro i hi h
    have hi1 : i + 1 < R.length := by omega
    simp only [adjDiffLoop, rdR_ctx P R S (i + 1) hi1, ok_bind]
    rw [show P.length + (i + 1) + 1 = P.length + (i + 1 + 1) from by omega, ih (i + 1) hi1 (by omega), ok_bind]
    conv => rhs; rw [drop_eq_cons hi1, drop_eq_cons hi]
    simp only [List.zip_cons_cons, List.map_cons]

end Tetl.C06
