/-
C06 — remove_if.hpp: `find_if`, then the compaction loop.  Invariant: the storage is
`P ++ K ++ Z ++ T ++ S` with `K` the elements kept so far, `Z ≠ []` the hole (unspecified
values), `T` the part not yet visited.
-/
import TetlProofs.C06.Fold
import TetlProofs.C06.Rotate
namespace Tetl.C06
open Tetl
variable {α : Type}

theorem rdR_mid (A B : List α) (x : α) (f0 l0 : Nat) (hf : f0 ≤ A.length) (hl : A.length < l0) :
    rdR (A ++ x :: B) f0 l0 A.length = .ok x :=
  rdR_at hf hl (by simp)

theorem wrR_mid (A B : List α) (x y : α) (f0 l0 : Nat) (hf : f0 ≤ A.length) (hl : A.length < l0) :
    wrR (A ++ x :: B) f0 l0 A.length y = .ok (A ++ y :: B) := by
  rw [wrR_at y hf hl (by simp)]
  simp

theorem removeLoop_spec (p : α → Bool) (P S : List α) (f0 l0 : Nat) (hf : f0 ≤ P.length) :
    ∀ (T K Z : List α), Z ≠ [] → P.length + K.length + Z.length + T.length ≤ l0 →
    ∃ Z', removeLoop p f0 l0 T.length (P ++ K ++ Z ++ T ++ S) (P.length + K.length) (P.length + K.length + Z.length - 1)
            = .ok (P ++ (K ++ T.filter (fun x => !p x)) ++ Z' ++ S, P.length + K.length + (T.filter (fun x => !p x)).length)
          ∧ Z'.length + (T.filter (fun x => !p x)).length = Z.length + T.length := by
  intro T
  induction T with
  | nil =>
    intro K Z _ _
    exact ⟨Z, by simp [removeLoop], by simp⟩
  | cons t T ih =>
    intro K Z hZ hl
    obtain ⟨z, Z0, rfl⟩ := List.exists_cons_of_ne_nil hZ
    simp only [List.length_cons] at hl ⊢
    have hi : P.length + K.length + (Z0.length + 1) - 1 + 1 = (P ++ K ++ (z :: Z0)).length := by
      simp; omega
    unfold removeLoop
    simp only []
    rw [hi, show P ++ K ++ (z :: Z0) ++ (t :: T) ++ S = (P ++ K ++ (z :: Z0)) ++ t :: (T ++ S) from by simp,
      rdR_mid _ _ t f0 l0 (by simp; omega) (by simp; omega), ok_bind]
    by_cases hp : p t
    · -- removed: the hole grows
      simp only [hp, Bool.not_true, Bool.false_eq_true, if_false]
      obtain ⟨Z', h1, h2⟩ := ih K ((z :: Z0) ++ [t]) (by simp) (by simp; omega)
      refine ⟨Z', ?_, ?_⟩
      · have e : (P ++ K ++ (z :: Z0)) ++ t :: (T ++ S) = P ++ K ++ ((z :: Z0) ++ [t]) ++ T ++ S := by simp
        have e2 : (P ++ K ++ (z :: Z0)).length = P.length + K.length + ((z :: Z0) ++ [t]).length - 1 := by
          simp; omega
        rw [e, e2, h1]
        simp [List.filter_cons, hp]
      · simp only [List.filter_cons, hp, Bool.not_true, Bool.false_eq_true, if_false]
        simp only [List.length_append, List.length_cons, List.length_nil] at h2
        omega
    · -- kept: written to the front of the hole
      simp only [hp, Bool.not_false, if_true]
      have ew : (P ++ K ++ (z :: Z0)) ++ t :: (T ++ S) = (P ++ K) ++ z :: (Z0 ++ t :: (T ++ S)) := by simp
      rw [ew, show P.length + K.length = (P ++ K).length from by simp,
        wrR_mid _ _ z t f0 l0 (by simp; omega) (by simp; omega), ok_bind]
      obtain ⟨Z', h1, h2⟩ := ih (K ++ [t]) (Z0 ++ [t]) (by simp) (by simp; omega)
      refine ⟨Z', ?_, ?_⟩
      · have e : (P ++ K) ++ t :: (Z0 ++ t :: (T ++ S)) = P ++ (K ++ [t]) ++ (Z0 ++ [t]) ++ T ++ S := by simp
        have e1 : (P ++ K).length + 1 = P.length + (K ++ [t]).length := by simp; omega
        have e2 : (P ++ K ++ z :: Z0).length = P.length + (K ++ [t]).length + (Z0 ++ [t]).length - 1 := by
          simp; omega
        rw [e, e1, e2, h1]
        simp [List.filter_cons, hp]
        omega
      · simp only [List.filter_cons, hp, Bool.not_false, if_true, List.length_cons]
        simp only [List.length_append, List.length_cons, List.length_nil] at h2
        omega

theorem filter_take_findIdx (p : α → Bool) : ∀ R : List α,
    (R.take (R.findIdx p)).filter (fun x => !p x) = R.take (R.findIdx p)
  | [] => by simp
  | x :: xs => by
    simp only [List.findIdx_cons]
    by_cases hp : p x
    · simp [hp]
    · simp [hp, filter_take_findIdx p xs]

theorem getElem_findIdx (p : α → Bool) : ∀ (R : List α) (h : R.findIdx p < R.length), p R[R.findIdx p] = true
  | [], h => by simp at h
  | x :: xs, h => by
    by_cases hp : p x
    · simp [List.findIdx_cons, hp]
    · have h' : xs.findIdx p < xs.length := by simpa [List.findIdx_cons, hp] using h
      simpa [List.findIdx_cons, hp] using getElem_findIdx p xs h'


/-- `remove_if`: the kept elements, in order, at the front; returns the new end; the positions behind it
    hold unspecified values (`Z`); nothing outside the range is read or written -/
theorem removeIf_spec (p : α → Bool) (P R S : List α) :
    ∃ Z, removeIf p (P ++ R ++ S) P.length (P.length + R.length)
          = .ok (P ++ (Spec.remove p R ++ Z) ++ S, P.length + (Spec.remove p R).length)
        ∧ (Spec.remove p R ++ Z).length = R.length := by
  have hfind := findLoop_spec p P R S R.length 0 (by simp)
  simp only [Nat.add_zero, List.drop_zero, Spec.findIdx] at hfind
  unfold removeIf findIf
  rw [Nat.add_sub_cancel_left, hfind, ok_bind]
  have hk : R.findIdx p ≤ R.length := List.findIdx_le_length
  by_cases hend : R.findIdx p = R.length
  · -- nothing to remove
    have hall : ∀ x ∈ R, p x = false := (findIdx_eq_length_iff p R).1 hend
    have hfil : Spec.remove p R = R := by
      unfold Spec.remove
      rw [List.filter_eq_self]
      intro x hx; simp [hall x hx]
    refine ⟨[], ?_, by simp [hfil]⟩
    rw [hend, if_neg (by simp), hfil]
    simp
  · have hlt : R.findIdx p < R.length := by omega
    rw [if_pos (by rw [bne_iff_ne]; omega)]
    have hsplit : R = R.take (R.findIdx p) ++ R[R.findIdx p] :: R.drop (R.findIdx p + 1) := by
      rw [← drop_eq_cons hlt, List.take_append_drop]
    have hlenK : (R.take (R.findIdx p)).length = R.findIdx p := by simp; omega
    obtain ⟨Z', h1, h2⟩ := removeLoop_spec p P S P.length (P.length + R.length) (Nat.le_refl _)
      (R.drop (R.findIdx p + 1)) (R.take (R.findIdx p)) [R[R.findIdx p]] (by simp)
      (by simp only [hlenK, List.length_drop, List.length_cons, List.length_nil]; omega)
    have e1 : P ++ R.take (R.findIdx p) ++ [R[R.findIdx p]] ++ R.drop (R.findIdx p + 1) ++ S = P ++ R ++ S := by
      conv => rhs; rw [hsplit]
      simp
    have e2 : (R.drop (R.findIdx p + 1)).length = P.length + R.length - (P.length + R.findIdx p) - 1 := by
      simp; omega
    have e3 : P.length + (R.take (R.findIdx p)).length + [R[R.findIdx p]].length - 1 = P.length + R.findIdx p := by
      simp only [hlenK, List.length_cons, List.length_nil]; omega
    rw [e1, e2, hlenK] at h1
    rw [hlenK] at e3
    rw [e3] at h1
    have hfil : Spec.remove p R
        = R.take (R.findIdx p) ++ (R.drop (R.findIdx p + 1)).filter (fun x => !p x) := by
      unfold Spec.remove
      conv => lhs; rw [hsplit]
      rw [List.filter_append, filter_take_findIdx, List.filter_cons]
      simp [getElem_findIdx p R hlt]
    refine ⟨Z', ?_, ?_⟩
    · rw [h1, hfil]
      simp [hlenK, List.append_assoc]
      omega
    · rw [hfil]
      simp only [List.length_append, hlenK, List.length_drop, List.length_cons, List.length_nil] at h2 ⊢
      omega

end Tetl.C06
