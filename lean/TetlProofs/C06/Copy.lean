/-
C06 — copy / move, copy_backward / move_backward, shift_left, shift_right inside one storage,
including the overlapping cases the standard allows.  The loops are characterised index-wise
relative to the storage they started from; the result is then identified with `splice`/`slice`.
-/
import TetlProofs.C06.Fill
namespace Tetl.C06
open Tetl
variable {α : Type}

/-! ### index-wise view of `slice` / `splice` -/

theorem copy_slice_getElem? (a : List α) (f l j : Nat) :
    (slice a f l)[j]? = if j < l - f then a[f + j]? else none := by
  unfold slice
  rw [List.getElem?_take, List.getElem?_drop]

theorem copy_slice_length (a : List α) (f l : Nat) (hfl : f ≤ l) (hl : l ≤ a.length) :
    (slice a f l).length = l - f := by
  unfold slice
  simp only [List.length_take, List.length_drop]
  omega

theorem copy_splice_getElem? (a r : List α) (d e k : Nat) (hd : d ≤ a.length) :
    (splice a d e r)[k]? =
      if k < d then a[k]? else if k < d + r.length then r[k - d]? else a[e + (k - d - r.length)]? := by
  unfold splice
  have hlen : (a.take d).length = d := by simp only [List.length_take]; omega
  rw [List.getElem?_append, List.getElem?_append]
  simp only [List.length_append, hlen, List.getElem?_take, List.getElem?_drop]
  by_cases h1 : k < d
  · rw [if_pos (by omega), if_pos h1, if_pos h1, if_pos h1]
  · rw [if_neg h1]
    by_cases h2 : k < d + r.length
    · rw [if_pos h2, if_pos h2, if_neg h1]
    · rw [if_neg h2, if_neg h2, if_neg h1]
      congr 1
      omega

/-- a storage whose elements are those of `b` except for the window `[d, d+n)` that holds
    `b[i, i+n)` is `splice b d (d+n) (slice b i (i+n))` -/
theorem copy_eq_splice (b b' : List α) (i d n : Nat) (hi : i + n ≤ b.length) (hd : d + n ≤ b.length)
    (hlen : b'.length = b.length)
    (h : ∀ k, b'[k]? = if d ≤ k ∧ k < d + n then b[i + (k - d)]? else b[k]?) :
    b' = splice b d (d + n) (slice b i (i + n)) := by
  apply List.ext_getElem?
  intro k
  have hsl : (slice b i (i + n)).length = n := by
    rw [copy_slice_length b i (i + n) (by omega) hi]; omega
  rw [h k, copy_splice_getElem? b _ d (d + n) k (by omega), hsl, copy_slice_getElem?]
  by_cases h1 : k < d
  · rw [if_neg (by omega), if_pos h1]
  · rw [if_neg h1]
    by_cases h2 : k < d + n
    · rw [if_pos ⟨by omega, h2⟩, if_pos h2, if_pos (by omega)]
    · rw [if_neg (by omega), if_neg h2]
      congr 1
      omega

/-! ### the forward loop -/

/-- `n` steps of the forward copy loop reading from `i` and writing to `d`, where either `d ≤ i`
    (a write never clobbers an element still to be read) or the windows are disjoint -/
theorem copy_loop_fwd (f l dlo dhi : Nat) : ∀ (n : Nat) (b : List α) (i d : Nat),
    f ≤ i → i + n ≤ l → l ≤ b.length → dlo ≤ d → d + n ≤ dhi → d + n ≤ b.length →
    (d ≤ i ∨ i + n ≤ d) →
    ∃ b', copyLoop f l dlo dhi n b i d = .ok (b', d + n) ∧ b'.length = b.length ∧
      ∀ k, b'[k]? = if d ≤ k ∧ k < d + n then b[i + (k - d)]? else b[k]? := by
  intro n
  induction n with
  | zero =>
    intro b i d _ _ _ _ _ _ _
    refine ⟨b, by simp [copyLoop], rfl, ?_⟩
    intro k
    rw [if_neg (by omega)]
  | succ n ih =>
    intro b i d hfi hil hlb hdlo hdhi hdb hov
    have hi : i < b.length := by omega
    unfold copyLoop
    rw [rdR_at hfi (by omega) (List.getElem?_eq_getElem hi), ok_bind,
      wrR_at _ hdlo (by omega) (by omega), ok_bind]
    obtain ⟨b', h1, h2, h3⟩ := ih (b.set d b[i]) (i + 1) (d + 1) (by omega) (by omega)
      (by simpa using hlb) (by omega) (by omega) (by simp; omega) (by omega)
    refine ⟨b', ?_, ?_, ?_⟩
    · rw [h1, show d + 1 + n = d + (n + 1) from by omega]
    · simpa using h2
    · intro k
      rw [h3 k]
      by_cases hk : d + 1 ≤ k ∧ k < d + 1 + n
      · rw [if_pos hk, if_pos (by omega), List.getElem?_set_ne (by omega)]
        congr 1
        omega
      · rw [if_neg hk]
        by_cases hkd : k = d
        · subst hkd
          rw [if_pos (by omega), List.getElem?_set_self (by omega), Nat.sub_self, Nat.add_zero,
            List.getElem?_eq_getElem hi]
        · rw [if_neg (by omega), List.getElem?_set_ne (by omega)]

theorem copy_loop_fwd_splice (f l dlo dhi n : Nat) (b : List α) (i d : Nat)
    (hfi : f ≤ i) (hil : i + n ≤ l) (hlb : l ≤ b.length) (hdlo : dlo ≤ d) (hdhi : d + n ≤ dhi)
    (hdb : d + n ≤ b.length) (hov : d ≤ i ∨ i + n ≤ d) :
    copyLoop f l dlo dhi n b i d = .ok (splice b d (d + n) (slice b i (i + n)), d + n) := by
  obtain ⟨b', h1, h2, h3⟩ := copy_loop_fwd f l dlo dhi n b i d hfi hil hlb hdlo hdhi hdb hov
  rw [h1, copy_eq_splice b b' i d n (by omega) hdb h2 h3]

/-- copy / move inside one storage; [alg.copy] precondition: `d ∉ [f,l)` (here even `d = f` is allowed) -/
theorem copy_spec (a : List α) (f l d : Nat) (hfl : f ≤ l) (hl : l ≤ a.length) (hd : d + (l - f) ≤ a.length)
    (hov : d ≤ f ∨ l ≤ d) :
    copy a f l d = .ok (splice a d (d + (l - f)) (slice a f l), d + (l - f)) := by
  unfold copy
  rw [copy_loop_fwd_splice f l d (d + (l - f)) (l - f) a f d (Nat.le_refl _) (by omega) hl (Nat.le_refl _)
    (Nat.le_refl _) hd (by omega), show f + (l - f) = l from by omega]

/-! ### the backward loop -/

theorem copy_loop_bwd (f l dlo dhi : Nat) : ∀ (n : Nat) (b : List α) (last d : Nat),
    f + n ≤ last → last ≤ l → l ≤ b.length → dlo + n ≤ d → d ≤ dhi → d ≤ b.length →
    (last ≤ d ∨ d + n ≤ last) →
    ∃ b', copyBackwardLoop f l dlo dhi n b last d = .ok (b', d - n) ∧ b'.length = b.length ∧
      ∀ k, b'[k]? = if d - n ≤ k ∧ k < d then b[last - (d - k)]? else b[k]? := by
  intro n
  induction n with
  | zero =>
    intro b last d _ _ _ _ _ _ _
    refine ⟨b, by simp [copyBackwardLoop], rfl, ?_⟩
    intro k
    rw [if_neg (by omega)]
  | succ n ih =>
    intro b last d hfl hll hlb hdlo hdhi hdb hov
    have hi : last - 1 < b.length := by omega
    have hc : (last == 0 || d == 0) = false := by
      have h1 : last ≠ 0 := by omega
      have h2 : d ≠ 0 := by omega
      simp [h1, h2]
    unfold copyBackwardLoop
    rw [hc]
    simp only [Bool.false_eq_true, if_false]
    rw [rdR_at (by omega) (by omega) (List.getElem?_eq_getElem hi), ok_bind,
      wrR_at _ (by omega) (by omega) (by omega), ok_bind]
    obtain ⟨b', h1, h2, h3⟩ := ih (b.set (d - 1) b[last - 1]) (last - 1) (d - 1) (by omega) (by omega)
      (by simpa using hlb) (by omega) (by omega) (by simp; omega) (by omega)
    refine ⟨b', ?_, ?_, ?_⟩
    · rw [h1, show d - 1 - n = d - (n + 1) from by omega]
    · simpa using h2
    · intro k
      rw [h3 k]
      by_cases hk : d - 1 - n ≤ k ∧ k < d - 1
      · rw [if_pos hk, if_pos (by omega), List.getElem?_set_ne (by omega)]
        congr 1
        omega
      · rw [if_neg hk]
        by_cases hkd : k = d - 1
        · subst hkd
          rw [if_pos (by omega), List.getElem?_set_self (by omega),
            show last - (d - (d - 1)) = last - 1 from by omega, List.getElem?_eq_getElem hi]
        · rw [if_neg (by omega), List.getElem?_set_ne (by omega)]

theorem copy_loop_bwd_splice (f l dlo dhi n : Nat) (b : List α) (last d : Nat)
    (hfl : f + n ≤ last) (hll : last ≤ l) (hlb : l ≤ b.length) (hdlo : dlo + n ≤ d) (hdhi : d ≤ dhi)
    (hdb : d ≤ b.length) (hov : last ≤ d ∨ d + n ≤ last) :
    copyBackwardLoop f l dlo dhi n b last d
      = .ok (splice b (d - n) d (slice b (last - n) last), d - n) := by
  obtain ⟨b', h1, h2, h3⟩ := copy_loop_bwd f l dlo dhi n b last d hfl hll hlb hdlo hdhi hdb hov
  rw [h1]
  have := copy_eq_splice b b' (last - n) (d - n) n (by omega) (by omega) h2 (by
    intro k
    rw [h3 k]
    by_cases hk : d - n ≤ k ∧ k < d
    · rw [if_pos hk, if_pos (by omega)]
      congr 1
      omega
    · rw [if_neg hk, if_neg (by omega)])
  rw [this, show d - n + n = d from by omega, show last - n + n = last from by omega]

/-- copy_backward / move_backward; precondition `dLast ∉ (f,l]` (here even `dLast = l` is allowed) -/
theorem copyBackward_spec (a : List α) (f l dLast : Nat) (hfl : f ≤ l) (hl : l ≤ a.length) (hk : l - f ≤ dLast)
    (hd : dLast ≤ a.length) (hov : dLast ≤ f ∨ l ≤ dLast) :
    copyBackward a f l dLast = .ok (splice a (dLast - (l - f)) dLast (slice a f l), dLast - (l - f)) := by
  unfold copyBackward
  rw [copy_loop_bwd_splice f l (dLast - (l - f)) dLast (l - f) a l dLast (by omega) (Nat.le_refl _) hl
    (by omega) (Nat.le_refl _) hd (by omega), show l - (l - f) = f from by omega]



/-! ### a range in its context -/

theorem copy_take_ctx (P R S : List α) (i : Nat) (hi : i ≤ R.length) :
    (P ++ R ++ S).take (P.length + i) = P ++ R.take i := by
  rw [List.append_assoc, List.take_append, List.take_of_length_le (by omega),
    Nat.add_sub_cancel_left, List.take_append_of_le_length hi]

theorem copy_drop_ctx (P R S : List α) (i : Nat) (hi : i ≤ R.length) :
    (P ++ R ++ S).drop (P.length + i) = R.drop i ++ S := by
  rw [List.append_assoc, List.drop_append, List.drop_of_length_le (by omega),
    Nat.add_sub_cancel_left, List.drop_append_of_le_length hi, List.nil_append]

theorem copy_slice_ctx (P R S : List α) (i j : Nat) (hi : i ≤ j) (hj : j ≤ R.length) :
    slice (P ++ R ++ S) (P.length + i) (P.length + j) = (R.drop i).take (j - i) := by
  unfold slice
  rw [copy_drop_ctx P R S i (by omega), Nat.add_sub_add_left, List.take_append_of_le_length (by simp; omega)]

theorem copy_splice_ctx (P R S r : List α) (i j : Nat) (hi : i ≤ R.length) (hj : j ≤ R.length) :
    splice (P ++ R ++ S) (P.length + i) (P.length + j) r = P ++ (R.take i ++ r ++ R.drop j) ++ S := by
  unfold splice
  rw [copy_take_ctx P R S i hi, copy_drop_ctx P R S j hj]
  simp only [List.append_assoc]

/-! ### shift_left -/

theorem copy_shiftLeft_core (P R S : List α) (m : Nat) (hm : m ≤ R.length) :
    copyLoop (P.length + m) (P.length + R.length) P.length
        (P.length + (P.length + R.length - (P.length + m))) (P.length + R.length - (P.length + m))
        (P ++ R ++ S) (P.length + m) P.length
      = .ok (P ++ (R.drop m ++ R.drop (R.length - m)) ++ S, P.length + (R.length - m)) := by
  rw [Nat.add_sub_add_left]
  rw [copy_loop_fwd_splice _ _ _ _ _ _ _ _ (Nat.le_refl _) (by omega) (by simp) (Nat.le_refl _) (Nat.le_refl _)
    (by simp; omega) (by omega)]
  have h1 := copy_slice_ctx P R S m (m + (R.length - m)) (by omega) (by omega)
  rw [Nat.add_sub_cancel_left, ← Nat.add_assoc, List.take_of_length_le (by simp)] at h1
  have h2 := copy_splice_ctx P R S (R.drop m) 0 (R.length - m) (by omega) (by omega)
  rw [Nat.add_zero, List.take_zero, List.nil_append] at h2
  rw [h1, h2]

theorem shiftLeftRA_spec (P R S : List α) (n : Int) :
    ∃ Z, shiftLeftRA (P ++ R ++ S) P.length (P.length + R.length) n
          = .ok (P ++ ((Spec.shiftLeft R n).1 ++ Z) ++ S, P.length + (Spec.shiftLeft R n).2)
        ∧ ((Spec.shiftLeft R n).1 ++ Z).length = R.length := by
  unfold shiftLeftRA Spec.shiftLeft
  rw [Nat.add_sub_cancel_left]
  by_cases h0 : n ≤ 0
  · rw [if_pos h0, if_pos h0]
    exact ⟨[], by simp, by simp⟩
  · rw [if_neg h0, if_neg h0]
    by_cases h1 : n ≥ (R.length : Int)
    · rw [if_pos h1, if_pos (by omega)]
      exact ⟨[], by simp, by simp⟩
    · rw [if_neg h1, if_neg (by omega)]
      refine ⟨R.drop (R.length - n.toNat), ?_, ?_⟩
      · rw [copy_shiftLeft_core P R S n.toNat (by omega)]
      · simp only [List.length_append, List.length_drop]
        omega

theorem copy_shiftLeftAdvance (l : Nat) : ∀ (n start : Nat), start ≤ l →
    shiftLeftAdvance l n start = if start + n ≤ l then some (start + n) else none := by
  intro n
  induction n with
  | zero => intro start h; simp [shiftLeftAdvance, h]
  | succ n ih =>
    intro start h
    unfold shiftLeftAdvance
    by_cases hs : start = l
    · subst hs
      simp
    · have : (start == l) = false := by simp [hs]
      rw [this]
      simp only [Bool.false_eq_true, if_false]
      rw [ih (start + 1) (by omega)]
      by_cases h2 : start + 1 + n ≤ l
      · rw [if_pos h2, if_pos (by omega)]; congr 1; omega
      · rw [if_neg h2, if_neg (by omega)]

theorem shiftLeftFwd_spec (P R S : List α) (n : Int) :
    ∃ Z, shiftLeftFwd (P ++ R ++ S) P.length (P.length + R.length) n
          = .ok (P ++ ((Spec.shiftLeft R n).1 ++ Z) ++ S, P.length + (Spec.shiftLeft R n).2)
        ∧ ((Spec.shiftLeft R n).1 ++ Z).length = R.length := by
  unfold shiftLeftFwd Spec.shiftLeft
  by_cases h0 : n ≤ 0
  · rw [if_pos h0, if_pos h0]
    exact ⟨[], by simp, by simp⟩
  · rw [if_neg h0, if_neg h0, copy_shiftLeftAdvance _ _ _ (by omega)]
    by_cases h1 : n.toNat ≤ R.length
    · rw [if_pos (by omega)]
      simp only []
      rw [copy_shiftLeft_core P R S n.toNat h1]
      by_cases h2 : n.toNat = R.length
      · rw [if_pos (by omega)]
        refine ⟨[], ?_, by simp⟩
        rw [h2]
        simp
      · rw [if_neg (by omega)]
        refine ⟨R.drop (R.length - n.toNat), rfl, ?_⟩
        simp only [List.length_append, List.length_drop]
        omega
    · rw [if_neg (by omega), if_pos (by omega)]
      exact ⟨[], by simp, by simp⟩

/-! ### shift_right -/

theorem copy_shiftRight_core (P R S : List α) (m : Nat) (hm : m ≤ R.length) :
    copyBackwardLoop P.length (P.length + R.length - m) (P.length + m) (P.length + R.length)
        (P.length + R.length - P.length - m) (P ++ R ++ S) (P.length + R.length - m) (P.length + R.length)
      = .ok (P ++ (R.take m ++ R.take (R.length - m)) ++ S, P.length + m) := by
  rw [Nat.add_sub_cancel_left, show P.length + R.length - m = P.length + (R.length - m) from by omega,
    copy_loop_bwd_splice _ _ _ _ _ _ _ _ (Nat.le_refl _) (Nat.le_refl _) (by simp; omega) (by omega) (Nat.le_refl _)
      (by simp) (by omega),
    show P.length + R.length - (R.length - m) = P.length + m from by omega,
    Nat.add_sub_cancel]
  have h1 := copy_slice_ctx P R S 0 (R.length - m) (by omega) (by omega)
  rw [Nat.add_zero, List.drop_zero, Nat.sub_zero] at h1
  have h2 := copy_splice_ctx P R S (R.take (R.length - m)) m R.length hm (Nat.le_refl _)
  rw [List.drop_length, List.append_nil] at h2
  rw [h1, h2]

theorem shiftRight_spec (dflt : α) (P R S : List α) (n : Int) :
    ∃ Z, shiftRight dflt (P ++ R ++ S) P.length (P.length + R.length) n
          = .ok (P ++ (Z ++ (Spec.shiftRight R n).1) ++ S, P.length + (Spec.shiftRight R n).2)
        ∧ Z.length = (Spec.shiftRight R n).2
        ∧ ((n ≤ 0 ∨ n ≥ (R.length : Int)) → Z ++ (Spec.shiftRight R n).1 = R) := by
  unfold shiftRight Spec.shiftRight
  by_cases h0 : n ≤ 0
  · rw [if_pos h0, if_pos h0]
    exact ⟨[], by simp, by simp, by simp⟩
  · rw [if_neg h0, if_neg h0]
    by_cases h1 : n ≥ ((P.length + R.length - P.length : Nat) : Int)
    · rw [if_pos h1, if_pos (by omega)]
      exact ⟨R, by simp, by simp, by simp⟩
    · rw [if_neg h1, if_neg (by omega)]
      rw [copy_shiftRight_core P R S n.toNat (by omega), ok_bind]
      simp only []
      have hm : n.toNat ≤ R.length := by omega
      have hf := fillLoop_spec dflt P (R.take (R.length - n.toNat) ++ S) P.length (P.length + n.toNat)
        (Nat.le_refl _) (R.take n.toNat) [] (by simp only [List.length_take, List.length_nil]; omega)
      simp only [List.length_take, List.append_nil, List.length_nil, Nat.add_zero, Nat.min_eq_left hm] at hf
      rw [Nat.add_sub_cancel_left,
        show P ++ (R.take n.toNat ++ R.take (R.length - n.toNat)) ++ S
          = P ++ R.take n.toNat ++ (R.take (R.length - n.toNat) ++ S) from by simp only [List.append_assoc],
        hf, ok_bind]
      refine ⟨List.replicate n.toNat dflt, ?_, by simp, ?_⟩
      · simp only [List.append_assoc]
      · intro h
        omega
theorem shiftRightNoFill_spec (P R S : List α) (n : Int) :
    ∃ Z, shiftRightNoFill (P ++ R ++ S) P.length (P.length + R.length) n
          = .ok (P ++ (Z ++ (Spec.shiftRight R n).1) ++ S, P.length + (Spec.shiftRight R n).2)
        ∧ Z.length = (Spec.shiftRight R n).2
        ∧ ((n ≤ 0 ∨ n ≥ (R.length : Int)) → Z ++ (Spec.shiftRight R n).1 = R) := by
  unfold shiftRightNoFill Spec.shiftRight
  by_cases h0 : n ≤ 0
  · rw [if_pos h0, if_pos h0]
    exact ⟨[], by simp, by simp, by simp⟩
  · rw [if_neg h0, if_neg h0]
    by_cases h1 : n ≥ ((P.length + R.length - P.length : Nat) : Int)
    · rw [if_pos h1, if_pos (by omega)]
      exact ⟨R, by simp, by simp, by simp⟩
    · rw [if_neg h1, if_neg (by omega)]
      rw [copy_shiftRight_core P R S n.toNat (by omega), ok_bind]
      simp only []
      have hm : n.toNat ≤ R.length := by omega
      refine ⟨R.take n.toNat, rfl, by simp [Nat.min_eq_left hm], ?_⟩
      intro h
      omega
end Tetl.C06
