/-
C06 — the range-needle models (Model/Needle.lean: needle = range `[g,h)` of a storage `b` read through checked
`rdR`) agree with the list-needle models (Model/Seq.lean) when the needle is `T` inside `Q ++ T ++ U`.
No assumption on the haystack storage `a f l`.
-/
import TetlProofs.C06.Lemmas
namespace Tetl.C06
open Tetl
variable {α : Type}

theorem needle_split (T0 T1 : List α) (c : α) : T0 ++ [c] ++ T1 = T0 ++ c :: T1 := by
  rw [List.append_assoc]; rfl

theorem needle_getElem (T0 T1 : List α) (c : α) (h : T0.length < (T0 ++ c :: T1).length) :
    (T0 ++ c :: T1)[T0.length] = c := by
  simp

theorem needle_rd (Q U T0 T1 : List α) (c : α) :
    rdR (Q ++ (T0 ++ c :: T1) ++ U) Q.length (Q.length + (T0 ++ c :: T1).length) (Q.length + T0.length) = .ok c := by
  have h : T0.length < (T0 ++ c :: T1).length := by
    simp only [List.length_append, List.length_cons]; omega
  rw [rdR_ctx Q (T0 ++ c :: T1) U T0.length h, needle_getElem T0 T1 c h]

theorem needle_searchInnerB (pred : α → α → Bool) (a : List α) (f l : Nat) (Q U : List α) :
    ∀ (T1 T0 : List α) (it : Nat),
      searchInnerB pred a f l (Q ++ (T0 ++ T1) ++ U) Q.length (Q.length + (T0 ++ T1).length) T1.length
        (Q.length + T0.length) it = searchInner pred a f l T1 it := by
  intro T1
  induction T1 with
  | nil => intro T0 it; rfl
  | cons c T1 ih =>
    intro T0 it
    have e2 : Q.length + (T0 ++ [c]).length = Q.length + T0.length + 1 := by
      simp only [List.length_append, List.length_singleton]; omega
    have ih' := ih (T0 ++ [c]) (it + 1)
    rw [needle_split T0 T1 c, e2] at ih'
    rw [List.length_cons, searchInnerB, searchInner]
    by_cases hit : (it == l) = true
    · rw [if_pos hit, if_pos hit]
    · rw [if_neg hit, if_neg hit]
      cases hx : rdR a f l it with
      | error e => rfl
      | ok x =>
        simp only [ok_bind]
        rw [needle_rd Q U T0 T1 c, ok_bind, ih']

theorem needle_searchLoopB (pred : α → α → Bool) (a : List α) (f l : Nat) (Q T U : List α) :
    ∀ (fuel first : Nat),
      searchLoopB pred a f l (Q ++ T ++ U) Q.length (Q.length + T.length) fuel first
        = searchLoop pred a f l T fuel first := by
  intro fuel
  induction fuel with
  | zero => intro first; rfl
  | succ fuel ih =>
    intro first
    have hin := needle_searchInnerB pred a f l Q U T [] first
    rw [List.nil_append, List.length_nil, Nat.add_zero] at hin
    rw [searchLoopB, searchLoop, Nat.add_sub_cancel_left, hin]
    cases searchInner pred a f l T first with
    | error e => rfl
    | ok r =>
      simp only [ok_bind]
      cases r with
      | matched => rfl
      | hitEnd => rfl
      | mismatch => exact ih (first + 1)

theorem needle_searchFromB (pred : α → α → Bool) (a : List α) (f l : Nat) (Q T U : List α) (first : Nat) :
    searchFromB pred a f l (Q ++ T ++ U) Q.length (Q.length + T.length) first = searchFrom pred a f l T first := by
  unfold searchFromB searchFrom
  exact needle_searchLoopB pred a f l Q T U _ _

theorem searchB_eq_search (pred : α → α → Bool) (a : List α) (f l : Nat) (Q T U : List α) :
    searchB pred a f l (Q ++ T ++ U) Q.length (Q.length + T.length) = search pred a f l T := by
  unfold searchB search
  exact needle_searchFromB pred a f l Q T U f

theorem needle_findEndLoopB (pred : α → α → Bool) (a : List α) (f l : Nat) (Q T U : List α) :
    ∀ (fuel first result : Nat),
      findEndLoopB pred a f l (Q ++ T ++ U) Q.length (Q.length + T.length) fuel first result
        = findEndLoop pred a f l T fuel first result := by
  intro fuel
  induction fuel with
  | zero => intro first result; rfl
  | succ fuel ih =>
    intro first result
    rw [findEndLoopB, findEndLoop, needle_searchFromB]
    cases searchFrom pred a f l T first with
    | error e => rfl
    | ok nr =>
      simp only [ok_bind]
      rw [ih]

theorem findEndB_eq_findEnd (pred : α → α → Bool) (a : List α) (f l : Nat) (Q T U : List α) :
    findEndB pred a f l (Q ++ T ++ U) Q.length (Q.length + T.length) = findEnd pred a f l T := by
  unfold findEndB findEnd
  rw [needle_findEndLoopB]
  cases T with
  | nil => simp
  | cons c T =>
    have h1 : (Q.length == Q.length + (c :: T).length) = false := by
      simp
    rw [h1]; rfl

theorem needle_anyOfNeedle (pred : α → α → Bool) (x : α) (Q U : List α) :
    ∀ (T1 T0 : List α),
      anyOfNeedle pred x (Q ++ (T0 ++ T1) ++ U) Q.length (Q.length + (T0 ++ T1).length) T1.length
        (Q.length + T0.length) = .ok (T1.any (fun y => pred x y)) := by
  intro T1
  induction T1 with
  | nil => intro T0; rfl
  | cons c T1 ih =>
    intro T0
    have e2 : Q.length + (T0 ++ [c]).length = Q.length + T0.length + 1 := by
      simp only [List.length_append, List.length_singleton]; omega
    have ih' := ih (T0 ++ [c])
    rw [needle_split T0 T1 c, e2] at ih'
    rw [List.length_cons, anyOfNeedle, needle_rd Q U T0 T1 c, ok_bind]
    simp only [List.any_cons]
    cases hp : pred x c with
    | true => first | rfl | simp
    | false =>
      first
        | (rw [if_neg Bool.false_ne_true, ih', Bool.false_or])
        | (rw [if_neg Bool.false_ne_true, ih']; simp)
        | (simp only [Bool.false_eq_true, if_false, Bool.false_or]; exact ih')

theorem needle_findFirstOfLoopB (pred : α → α → Bool) (a : List α) (f l : Nat) (Q T U : List α) :
    ∀ (n i : Nat),
      findFirstOfLoopB pred a f l (Q ++ T ++ U) Q.length (Q.length + T.length) n i
        = findLoop (fun x => T.any (fun y => pred x y)) a f l n i := by
  intro n
  induction n with
  | zero => intro i; rfl
  | succ n ih =>
    intro i
    rw [findFirstOfLoopB, findLoop]
    cases rdR a f l i with
    | error e => rfl
    | ok x =>
      simp only [ok_bind]
      have han := needle_anyOfNeedle pred x Q U T []
      rw [List.nil_append, List.length_nil, Nat.add_zero] at han
      rw [Nat.add_sub_cancel_left, han, ok_bind, ih]

theorem findFirstOfB_eq_findFirstOf (pred : α → α → Bool) (a : List α) (f l : Nat) (Q T U : List α) :
    findFirstOfB pred a f l (Q ++ T ++ U) Q.length (Q.length + T.length) = findFirstOf pred a f l T := by
  unfold findFirstOfB findFirstOf
  exact needle_findFirstOfLoopB pred a f l Q T U _ _

end Tetl.C06
