/-
C06 — the halving loop shared by lower_bound / upper_bound on a range partitioned by `q`.
-/
import TetlProofs.C06.Lemmas
namespace Tetl.C06
open Tetl
variable {α : Type}

theorem length_takeWhile_le' (q : α → Bool) : ∀ R : List α, (R.takeWhile q).length ≤ R.length
  | [] => by simp
  | x :: xs => by
    have := length_takeWhile_le' q xs
    simp only [List.takeWhile_cons]
    split <;> simp <;> omega

/-- in a range partitioned by `q`, exactly the positions before the partition point satisfy `q` -/
theorem partitioned_getElem (q : α → Bool) : ∀ (R : List α), Spec.isPartitioned q R = true →
    ∀ (i : Nat) (hi : i < R.length), q R[i] = decide (i < (R.takeWhile q).length)
  | [], _, i, hi => by simp at hi
  | x :: xs, hp, i, hi => by
    by_cases hq : q x
    · have hp' : Spec.isPartitioned q xs = true := by
        simpa [Spec.isPartitioned, List.dropWhile_cons, hq] using hp
      cases i with
      | zero => simp [hq, List.takeWhile_cons]
      | succ j =>
        have := partitioned_getElem q xs hp' j (by simpa using hi)
        simp [List.takeWhile_cons, hq, this]
    · have hall : ∀ y ∈ x :: xs, q y = false := by
        simpa [Spec.isPartitioned, List.dropWhile_cons, hq] using hp
      have : q (x :: xs)[i] = false := hall _ (List.getElem_mem hi)
      simp [List.takeWhile_cons, hq, this]

theorem boundLoop_spec (q : α → Bool) (P R S : List α) (hp : Spec.isPartitioned q R = true) :
    ∀ (fuel lo c : Nat), lo + c ≤ R.length → lo ≤ (R.takeWhile q).length → (R.takeWhile q).length ≤ lo + c →
      c ≤ fuel →
      boundLoop q (P ++ R ++ S) P.length (P.length + R.length) fuel (P.length + lo) c
        = .ok (P.length + (R.takeWhile q).length) := by
  intro fuel
  induction fuel with
  | zero =>
    intro lo c _ h2 h3 h4
    have hc : c = 0 := by omega
    subst hc
    have : lo = (R.takeWhile q).length := by omega
    simp [boundLoop, this]
  | succ fuel ih =>
    intro lo c h1 h2 h3 h4
    unfold boundLoop
    by_cases hc : c > 0
    · rw [if_pos hc]
      have hit : lo + c / 2 < R.length := by omega
      have hrd := rdR_ctx P R S (lo + c / 2) hit
      simp only []
      rw [show P.length + lo + c / 2 = P.length + (lo + c / 2) from by omega, hrd, ok_bind,
        partitioned_getElem q R hp _ hit]
      by_cases hlt : lo + c / 2 < (R.takeWhile q).length
      · rw [if_pos (by simpa using hlt)]
        rw [show P.length + (lo + c / 2) + 1 = P.length + (lo + c / 2 + 1) from by omega]
        exact ih (lo + c / 2 + 1) (c - (c / 2 + 1)) (by omega) (by omega) (by omega) (by omega)
      · rw [if_neg (by simpa using hlt)]
        exact ih lo (c / 2) (by omega) h2 (by omega) (by omega)
    · rw [if_neg hc]
      have : lo = (R.takeWhile q).length := by omega
      rw [this]

end Tetl.C06
