/-
C06 — loops that walk two ranges in lock step (mismatch / equal / lexicographical_compare).
`a = P ++ R ++ S` with range `[|P|, |P|+|R|)`, `b = Q ++ T ++ U` with range `[|Q|, |Q|+|T|)`.
-/
import TetlProofs.C06.Lemmas
namespace Tetl.C06
open Tetl
variable {α : Type}

theorem mismatchLoop_spec (pred : α → α → Bool) (P R S Q T U : List α) : ∀ (n k : Nat),
    n = min (R.length - k) (T.length - k) → k ≤ R.length → k ≤ T.length →
    mismatch3Loop pred (P ++ R ++ S) P.length (P.length + R.length) (Q ++ T ++ U) Q.length (Q.length + T.length)
        n (P.length + k) (Q.length + k)
      = .ok (P.length + k + Spec.mismatch pred (R.drop k) (T.drop k),
             Q.length + k + Spec.mismatch pred (R.drop k) (T.drop k)) := by
  intro n
  induction n with
  | zero =>
    intro k hn h1 h2
    have : R.drop k = [] ∨ T.drop k = [] := by
      rcases Nat.lt_or_ge k R.length with h | h
      · right; exact List.drop_eq_nil_of_le (by omega)
      · left; exact List.drop_eq_nil_of_le h
    rcases this with h | h <;> simp [mismatch3Loop, Spec.mismatch, h]
  | succ n ih =>
    intro k hn h1 h2
    have hr : k < R.length := by omega
    have ht : k < T.length := by omega
    simp only [mismatch3Loop, rdR_ctx P R S k hr, rdR_ctx Q T U k ht, ok_bind, drop_eq_cons hr, drop_eq_cons ht,
      Spec.mismatch, List.zip_cons_cons, List.takeWhile_cons]
    by_cases hq : pred R[k] T[k]
    · rw [show P.length + k + 1 = P.length + (k + 1) from by omega,
        show Q.length + k + 1 = Q.length + (k + 1) from by omega, ih (k + 1) (by omega) (by omega) (by omega)]
      simp [hq, Spec.mismatch]
      omega
    · simp [hq]

theorem equalLoop_spec (pred : α → α → Bool) (P R S Q T U : List α) : ∀ (n k : Nat),
    n = min (R.length - k) (T.length - k) → k ≤ R.length → k ≤ T.length →
    equal3Loop pred (P ++ R ++ S) P.length (P.length + R.length) (Q ++ T ++ U) Q.length (Q.length + T.length)
        n (P.length + k) (Q.length + k)
      = .ok (((R.drop k).zip (T.drop k)).all (fun xy => pred xy.1 xy.2)) := by
  intro n
  induction n with
  | zero =>
    intro k hn h1 h2
    have : R.drop k = [] ∨ T.drop k = [] := by
      rcases Nat.lt_or_ge k R.length with h | h
      · right; exact List.drop_eq_nil_of_le (by omega)
      · left; exact List.drop_eq_nil_of_le h
    rcases this with h | h <;> simp [equal3Loop, h]
  | succ n ih =>
    intro k hn h1 h2
    have hr : k < R.length := by omega
    have ht : k < T.length := by omega
    simp only [equal3Loop, rdR_ctx P R S k hr, rdR_ctx Q T U k ht, ok_bind, drop_eq_cons hr, drop_eq_cons ht,
      List.zip_cons_cons, List.all_cons]
    by_cases hq : pred R[k] T[k]
    · rw [show P.length + k + 1 = P.length + (k + 1) from by omega,
        show Q.length + k + 1 = Q.length + (k + 1) from by omega, ih (k + 1) (by omega) (by omega) (by omega)]
      simp [hq]
    · simp [hq]

theorem lexLoop_spec (lt : α → α → Bool) (P R S Q T U : List α) : ∀ (n k : Nat),
    n = min (R.length - k) (T.length - k) → k ≤ R.length → k ≤ T.length →
    lexLoop lt (P ++ R ++ S) P.length (P.length + R.length) (Q ++ T ++ U) Q.length (Q.length + T.length)
        n (P.length + k) (Q.length + k)
      = .ok (Spec.lexLt lt (R.drop k) (T.drop k)) := by
  intro n
  induction n with
  | zero =>
    intro k hn h1 h2
    rcases Nat.lt_or_ge k R.length with hr | hr
    · have ht : T.drop k = [] := List.drop_eq_nil_of_le (by omega)
      have hk : k = T.length := by omega
      rw [drop_eq_cons hr, ht]
      have e1 : (P.length + k == P.length + R.length) = false := by rw [beq_eq_false_iff_ne]; omega
      simp [lexLoop, Spec.lexLt, e1]
    · have hR : R.drop k = [] := List.drop_eq_nil_of_le hr
      have hk : k = R.length := by omega
      rcases Nat.lt_or_ge k T.length with ht | ht
      · rw [hR, drop_eq_cons ht]
        have e2 : (Q.length + k != Q.length + T.length) = true := by rw [bne_iff_ne]; omega
        simp [lexLoop, Spec.lexLt, hk, e2]
        omega
      · have hT : T.drop k = [] := List.drop_eq_nil_of_le ht
        have hk2 : k = T.length := by omega
        rw [hR, hT]
        have e2 : (Q.length + k != Q.length + T.length) = false := by rw [hk2]; simp
        simp [lexLoop, Spec.lexLt, e2]
  | succ n ih =>
    intro k hn h1 h2
    have hr : k < R.length := by omega
    have ht : k < T.length := by omega
    simp only [lexLoop, rdR_ctx P R S k hr, rdR_ctx Q T U k ht, ok_bind, drop_eq_cons hr, drop_eq_cons ht, Spec.lexLt]
    by_cases h1' : lt R[k] T[k]
    · simp [h1']
    · by_cases h2' : lt T[k] R[k]
      · simp [h1', h2']
      · rw [show P.length + k + 1 = P.length + (k + 1) from by omega,
          show Q.length + k + 1 = Q.length + (k + 1) from by omega, ih (k + 1) (by omega) (by omega) (by omega)]
        simp [h1', h2']

end Tetl.C06
