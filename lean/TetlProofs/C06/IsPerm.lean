/-
C06 — is_permutation: the 3- and 4-iterator models (`mismatch`, then for every first occurrence of a class in the
rest of the first range `count` in both rests) return exactly `Spec.isPermutation` for every equivalence relation
`eq` and all inputs (ranges in their contexts `P ++ R ++ S`, `Q ++ T ++ U`), and `Spec.isPermutation` with a lawful
`==` is `List.Perm`.
-/
import TetlProofs.C06.Fold
import TetlProofs.C06.TwoRange
import TetlProofs.C06.Order
namespace Tetl.C06
open Tetl
variable {α : Type}

/-! ### pure facts about counting under an equivalence relation -/

/-- equivalent elements define the same class predicate -/
theorem isperm_class_congr {eq : α → α → Bool} (heq : EquivB eq) {x z : α} (hxz : eq x z = true) (y : α) :
    eq y x = eq y z := by
  cases h1 : eq y x with
  | true => exact (heq.trans y x z h1 hxz).symm
  | false =>
    cases h2 : eq y z with
    | false => rfl
    | true => have := heq.trans y z x h2 (heq.symm x z hxz); rw [h1] at this; cases this

theorem isperm_countP_class {eq : α → α → Bool} (heq : EquivB eq) {x z : α} (hxz : eq x z = true) (L : List α) :
    L.countP (fun y => eq y x) = L.countP (fun y => eq y z) := by
  have : (fun y => eq y x) = (fun y => eq y z) := funext (isperm_class_congr heq hxz)
  rw [this]

/-- (a) the common prefix found by `mismatch` contributes the same count to both ranges -/
theorem isperm_prefix_count {eq : α → α → Bool} (heq : EquivB eq) (x : α) : ∀ (R T : List α),
    (R.take (Spec.mismatch eq R T)).countP (fun y => eq y x) = (T.take (Spec.mismatch eq R T)).countP (fun y => eq y x) := by
  intro R
  induction R with
  | nil => intro T; simp [Spec.mismatch]
  | cons r R ih =>
    intro T
    cases T with
    | nil => simp [Spec.mismatch]
    | cons t T =>
      by_cases hq : eq r t = true
      · have hm : Spec.mismatch eq (r :: R) (t :: T) = Spec.mismatch eq R T + 1 := by
          simp [Spec.mismatch, hq]
        have hrt : eq r x = eq t x := by
          cases h1 : eq r x with
          | true => exact (heq.trans t r x (heq.symm r t hq) h1).symm
          | false =>
            cases h2 : eq t x with
            | false => rfl
            | true => have := heq.trans r t x hq h2; rw [h1] at this; cases this
        rw [hm, List.take_succ_cons, List.take_succ_cons, List.countP_cons, List.countP_cons, ih T, hrt]
      · have hm : Spec.mismatch eq (r :: R) (t :: T) = 0 := by
          simp [Spec.mismatch, hq]
        rw [hm]; simp

theorem isperm_mismatch_le (eq : α → α → Bool) (R T : List α) : Spec.mismatch eq R T ≤ R.length := by
  unfold Spec.mismatch
  refine Nat.le_trans (List.takeWhile_sublist _).length_le ?_
  simp [List.length_zip]
  omega

/-- (d) equal lengths and equal class sizes for the classes present in `A` give equal class sizes for all classes -/
theorem isperm_sameCounts {eq : α → α → Bool} (heq : EquivB eq) : ∀ (n : Nat) (A B : List α), A.length = n →
    A.length = B.length → (∀ x ∈ A, A.countP (fun y => eq y x) = B.countP (fun y => eq y x)) →
    ∀ x, A.countP (fun y => eq y x) = B.countP (fun y => eq y x) := by
  intro n
  induction n using Nat.strongRecOn with
  | _ n ih =>
    intro A B hn hlen hc x
    cases A with
    | nil =>
      have : B = [] := List.length_eq_zero_iff.mp hlen.symm
      simp [this]
    | cons a A' =>
      -- remove the class of `a` from both lists
      have hfilt : ∀ (L : List α) (z : α), eq z a = false →
          (L.filter (fun y => !eq y a)).countP (fun y => eq y z) = L.countP (fun y => eq y z) := by
        intro L z hz
        rw [List.countP_filter]
        apply List.countP_congr
        intro y _
        cases h1 : eq y z with
        | false => simp
        | true =>
          cases h2 : eq y a with
          | false => simp
          | true => have := heq.trans z y a (heq.symm y z h1) h2; rw [hz] at this; cases this
      have hlenf : ∀ (L : List α), (L.filter (fun y => !eq y a)).length + L.countP (fun y => eq y a) = L.length := by
        intro L
        have h1 := List.length_eq_countP_add_countP (fun y => eq y a) (l := L)
        have h2 : L.countP (fun y => decide ¬(eq y a = true)) = (L.filter (fun y => !eq y a)).length := by
          rw [← List.countP_eq_length_filter]
          apply List.countP_congr
          intro y _
          cases eq y a <;> simp
        omega
      have hca := hc a List.mem_cons_self
      have hpos : 0 < (a :: A').countP (fun y => eq y a) := by
        rw [List.countP_cons, heq.refl a]; simp
      have hA := hlenf (a :: A')
      have hB := hlenf B
      have hrec := ih ((a :: A').filter (fun y => !eq y a)).length (by omega)
        ((a :: A').filter (fun y => !eq y a)) (B.filter (fun y => !eq y a)) rfl (by omega) (by
          intro z hz
          have hz' := List.mem_filter.mp hz
          have hza : eq z a = false := by simpa using hz'.2
          rw [hfilt _ z hza, hfilt _ z hza]
          exact hc z hz'.1)
      cases hxa : eq x a with
      | true => rw [isperm_countP_class heq hxa, isperm_countP_class heq hxa]; exact hca
      | false =>
        have := hrec x
        rw [hfilt _ x hxa, hfilt _ x hxa] at this
        exact this

/-- at a first occurrence of a class in `L`, the count from there on is the count in `L`; so equal counts at first
    occurrences give equal counts for every element of `L` -/
theorem isperm_first_occ {eq : α → α → Bool} (heq : EquivB eq) (L M : List α)
    (h : ∀ (A B : List α) (z : α), L = A ++ z :: B → (∀ y ∈ A, eq y z = false) →
      (z :: B).countP (fun y => eq y z) = M.countP (fun y => eq y z)) :
    ∀ x ∈ L, L.countP (fun y => eq y x) = M.countP (fun y => eq y x) := by
  intro x hx
  cases hf : L.find? (fun y => eq y x) with
  | none =>
    have := List.find?_eq_none.mp hf x hx
    rw [heq.refl] at this; exact absurd rfl this
  | some z =>
    obtain ⟨hzx, A, B, hL, hA⟩ := List.find?_eq_some_iff_append.mp hf
    have hA' : ∀ y ∈ A, eq y z = false := by
      intro y hy
      have := hA y hy
      rw [isperm_class_congr heq (heq.symm z x hzx) y] at this
      simpa using this
    have h1 := h A B z hL hA'
    rw [isperm_countP_class heq (heq.symm z x hzx) L, isperm_countP_class heq (heq.symm z x hzx) M, ← h1, hL,
      List.countP_append]
    have : A.countP (fun y => eq y z) = 0 := by
      rw [List.countP_eq_zero]; intro y hy; simp [hA' y hy]
    omega
/-! ### the sub-range loops: `find` / `count` over `[k, k+n)` inside the range -/

theorem isperm_findLoop (q : α → Bool) (P R S : List α) : ∀ (n k : Nat), k + n ≤ R.length →
    findLoop q (P ++ R ++ S) P.length (P.length + R.length) n (P.length + k)
      = .ok (P.length + k + ((R.drop k).take n).findIdx q) := by
  intro n
  induction n with
  | zero => intro k _; simp [findLoop]
  | succ n ih =>
    intro k h
    have hk : k < R.length := by omega
    simp only [findLoop, rdR_ctx P R S k hk, ok_bind, drop_eq_cons hk, List.take_succ_cons, List.findIdx_cons]
    by_cases hq : q R[k]
    · simp [hq]
    · rw [show P.length + k + 1 = P.length + (k + 1) from by omega, ih (k + 1) (by omega)]
      simp [hq]
      omega

theorem isperm_countLoop (q : α → Bool) (P R S : List α) : ∀ (n k r : Nat), k + n ≤ R.length →
    countLoop q (P ++ R ++ S) P.length (P.length + R.length) n (P.length + k) r
      = .ok (r + ((R.drop k).take n).countP q) := by
  intro n
  induction n with
  | zero => intro k r _; simp [countLoop]
  | succ n ih =>
    intro k r h
    have hk : k < R.length := by omega
    simp only [countLoop, rdR_ctx P R S k hk, ok_bind, drop_eq_cons hk, List.take_succ_cons, List.countP_cons]
    rw [show P.length + k + 1 = P.length + (k + 1) from by omega, ih (k + 1) _ (by omega)]
    by_cases hq : q R[k] <;> simp [hq] <;> omega

/-! ### the main loop -/

theorem isperm_loop (eq : α → α → Bool) (heq : EquivB eq) (P R S Q T U : List α) (d l2 : Nat) (hd : d ≤ R.length)
    (hRT : R.length ≤ T.length) (hl2 : l2 - (Q.length + d) = R.length - d) : ∀ (n k : Nat), d ≤ k → k + n = R.length →
    ∃ b, isPermLoop eq (P ++ R ++ S) P.length (P.length + R.length) (Q ++ T ++ U) Q.length (Q.length + T.length)
        (P.length + d) (Q.length + d) l2 n (P.length + k) = .ok b ∧
      (b = true ↔ ∀ (i : Nat) (hi : i < R.length), k ≤ i →
        (∀ y ∈ (R.drop d).take (i - d), eq y R[i] = false) →
        (R.drop i).countP (fun y => eq y R[i]) = ((T.drop d).take (R.length - d)).countP (fun y => eq y R[i])) := by
  intro n
  induction n with
  | zero =>
    intro k _ hk
    refine ⟨true, by simp [isPermLoop], ?_⟩
    simp only [true_iff]
    intro i hi hki; omega
  | succ n ih =>
    intro k hdk hk
    have hkR : k < R.length := by omega
    obtain ⟨b', hb', hiff'⟩ := ih (k + 1) (by omega) (by omega)
    have hfind := isperm_findLoop (fun y => eq y R[k]) P R S (k - d) d (by omega)
    have hcm := isperm_countLoop (fun y => eq y R[k]) Q T U (R.length - d) d 0 (by omega)
    have hcc := countLoop_spec (fun y => eq y R[k]) P R S (R.length - k) k 0 (by omega)
    have e1 : P.length + k - (P.length + d) = k - d := by omega
    have e2 : P.length + R.length - (P.length + k) = R.length - k := by omega
    have e3 : P.length + k + 1 = P.length + (k + 1) := by omega
    unfold isPermLoop
    rw [rdR_ctx P R S k hkR, ok_bind, e1, hfind, ok_bind, hl2, hcm, e2, hcc, e3, hb']
    simp only [ok_bind, Nat.zero_add, Spec.count]
    have hFlen : ((R.drop d).take (k - d)).length = k - d := by
      rw [List.length_take, List.length_drop]; omega
    have hF := findIdx_eq_length_iff (fun y => eq y R[k]) ((R.drop d).take (k - d))
    rw [hFlen] at hF
    have hle := findIdx_le_length' (fun y => eq y R[k]) ((R.drop d).take (k - d))
    rw [hFlen] at hle
    -- the step of the characterisation
    have hstep : ∀ (g : Prop), (g ↔ ((∀ y ∈ (R.drop d).take (k - d), eq y R[k] = false) →
        (R.drop k).countP (fun y => eq y R[k]) = ((T.drop d).take (R.length - d)).countP (fun y => eq y R[k]))) →
        ((g ∧ b' = true) ↔ ∀ (i : Nat) (hi : i < R.length), k ≤ i →
          (∀ y ∈ (R.drop d).take (i - d), eq y R[i] = false) →
          (R.drop i).countP (fun y => eq y R[i]) = ((T.drop d).take (R.length - d)).countP (fun y => eq y R[i])) := by
      intro g hg
      constructor
      · rintro ⟨h1, h2⟩ i hi hki
        rcases Nat.eq_or_lt_of_le hki with h | h
        · subst h; exact hg.mp h1
        · exact hiff'.mp h2 i hi h
      · intro h
        exact ⟨hg.mpr (h k hkR (Nat.le_refl _)), hiff'.mpr (fun i hi hki => h i hi (by omega))⟩
    have hcpos : 0 < (R.drop k).countP (fun y => eq y R[k]) := by
      rw [drop_eq_cons hkR, List.countP_cons, heq.refl]; simp
    by_cases hfirst : ∀ y ∈ (R.drop d).take (k - d), eq y R[k] = false
    · have hbne : (P.length + k != P.length + d + ((R.drop d).take (k - d)).findIdx (fun y => eq y R[k])) = false := by
        rw [hF.mpr hfirst]; simp; omega
      rw [hbne]
      simp only [Bool.false_eq_true, if_false]
      by_cases hc : (R.drop k).countP (fun y => eq y R[k]) = ((T.drop d).take (R.length - d)).countP (fun y => eq y R[k])
      · have hcond : ((((T.drop d).take (R.length - d)).countP (fun y => eq y R[k]) == 0) ||
            ((R.drop k).countP (fun y => eq y R[k]) != ((T.drop d).take (R.length - d)).countP (fun y => eq y R[k]))) = false := by
          rw [← hc, Bool.or_eq_false_iff, beq_eq_false_iff_ne, bne_eq_false_iff_eq]
          exact ⟨by omega, rfl⟩
        rw [hcond]
        refine ⟨b', rfl, ?_⟩
        have := hstep True (by simp [hc])
        simpa using this
      · have hcond : ((((T.drop d).take (R.length - d)).countP (fun y => eq y R[k]) == 0) ||
            ((R.drop k).countP (fun y => eq y R[k]) != ((T.drop d).take (R.length - d)).countP (fun y => eq y R[k]))) = true := by
          simp [hc]
        rw [hcond]
        refine ⟨false, rfl, ?_⟩
        have := hstep False (by simp; exact ⟨hfirst, hc⟩)
        simpa using this
    · have hbne : (P.length + k != P.length + d + ((R.drop d).take (k - d)).findIdx (fun y => eq y R[k])) = true := by
        have : ((R.drop d).take (k - d)).findIdx (fun y => eq y R[k]) ≠ k - d := fun h => hfirst (hF.mp h)
        rw [bne_iff_ne]; omega
      rw [hbne]
      simp only [if_true]
      refine ⟨b', rfl, ?_⟩
      have := hstep True (by simp; intro h; exact absurd h hfirst)
      simpa using this
/-- the loop's per-first-occurrence test is the declarative "every element of `R` occurs equally often" -/
theorem isperm_pure {eq : α → α → Bool} (heq : EquivB eq) (R T' : List α) (hlen : R.length = T'.length) (d : Nat)
    (hd : d ≤ R.length)
    (hpre : ∀ x, (R.take d).countP (fun y => eq y x) = (T'.take d).countP (fun y => eq y x)) :
    (∀ (i : Nat) (hi : i < R.length), d ≤ i → (∀ y ∈ (R.drop d).take (i - d), eq y R[i] = false) →
        (R.drop i).countP (fun y => eq y R[i]) = (T'.drop d).countP (fun y => eq y R[i])) ↔
      ∀ x ∈ R, R.countP (fun y => eq y x) = T'.countP (fun y => eq y x) := by
  have hsplit : ∀ (L : List α) (x : α), L.countP (fun y => eq y x) =
      (L.take d).countP (fun y => eq y x) + (L.drop d).countP (fun y => eq y x) := by
    intro L x
    rw [← List.countP_append, List.take_append_drop]
  constructor
  · intro h
    have h1 : ∀ x ∈ R.drop d, (R.drop d).countP (fun y => eq y x) = (T'.drop d).countP (fun y => eq y x) := by
      apply isperm_first_occ heq
      intro A B z hL hA
      have hlenL : (R.drop d).length = A.length + (B.length + 1) := by rw [hL]; simp
      rw [List.length_drop] at hlenL
      have hi : d + A.length < R.length := by omega
      have hdrop : R.drop (d + A.length) = z :: B := by
        rw [← List.drop_drop, hL, List.drop_left]
      have hz : R[d + A.length] = z := by
        have := drop_eq_cons hi
        rw [hdrop] at this
        exact (List.cons.inj this).1.symm
      have htake : (R.drop d).take (d + A.length - d) = A := by
        rw [Nat.add_sub_cancel_left, hL, List.take_left]
      have := h (d + A.length) hi (Nat.le_add_right _ _) (by rw [htake, hz]; exact hA)
      rw [hdrop, hz] at this
      exact this
    have h2 := isperm_sameCounts heq (R.drop d).length (R.drop d) (T'.drop d) rfl
      (by rw [List.length_drop, List.length_drop, hlen]) h1
    intro x _
    rw [hsplit R x, hsplit T' x, hpre x, h2 x]
  · intro h i hi hdi hfirst
    have h1 := h R[i] (List.getElem_mem hi)
    rw [hsplit R, hsplit T', hpre] at h1
    have h2 : (R.drop d).countP (fun y => eq y R[i]) = (R.drop i).countP (fun y => eq y R[i]) := by
      have : R.drop d = (R.drop d).take (i - d) ++ R.drop i := by
        rw [show R.drop i = (R.drop d).drop (i - d) from by rw [List.drop_drop]; congr 1; omega, List.take_append_drop]
      rw [this, List.countP_append]
      have : ((R.drop d).take (i - d)).countP (fun y => eq y R[i]) = 0 := by
        rw [List.countP_eq_zero]; intro y hy; simp [hfirst y hy]
      omega
    omega

/-- 3-iterator `is_permutation` against the first `|R|` elements of the second range -/
theorem isperm3_take (eq : α → α → Bool) (heq : EquivB eq) (P R S Q T U : List α) (h : R.length ≤ T.length) :
    isPermutation3 eq (P ++ R ++ S) P.length (P.length + R.length) (Q ++ T ++ U) Q.length (Q.length + T.length)
      = .ok (R.all (fun x => R.countP (fun y => eq y x) == (T.take R.length).countP (fun y => eq y x))) := by
  have hm : mismatch3 eq (P ++ R ++ S) P.length (P.length + R.length) (Q ++ T ++ U) Q.length (Q.length + T.length)
      = .ok (P.length + Spec.mismatch eq R T, Q.length + Spec.mismatch eq R T) := by
    have := mismatchLoop_spec eq P R S Q T U R.length 0 (by simp; omega) (Nat.zero_le _) (Nat.zero_le _)
    unfold mismatch3
    rw [Nat.add_sub_cancel_left]
    simpa using this
  have hd := isperm_mismatch_le eq R T
  have hpre : ∀ x, (R.take (Spec.mismatch eq R T)).countP (fun y => eq y x)
      = ((T.take R.length).take (Spec.mismatch eq R T)).countP (fun y => eq y x) := by
    intro x
    rw [List.take_take, Nat.min_eq_left hd]
    exact isperm_prefix_count heq x R T
  have hlen : R.length = (T.take R.length).length := by rw [List.length_take]; omega
  unfold isPermutation3
  rw [hm]
  simp only [ok_bind]
  by_cases hdl : Spec.mismatch eq R T = R.length
  · have : (P.length + Spec.mismatch eq R T != P.length + R.length) = false := by rw [hdl]; simp
    rw [this]
    simp only [Bool.false_eq_true, if_false]
    congr 1
    symm
    rw [List.all_eq_true]
    intro x _
    have := hpre x
    rw [hdl, List.take_of_length_le (Nat.le_refl _), List.take_of_length_le (by omega)] at this
    simp [this]
  · have : (P.length + Spec.mismatch eq R T != P.length + R.length) = true := by rw [bne_iff_ne]; omega
    rw [this]
    simp only [if_true]
    obtain ⟨b, hb, hiff⟩ := isperm_loop eq heq P R S Q T U (Spec.mismatch eq R T)
      (Q.length + Spec.mismatch eq R T + (P.length + R.length - (P.length + Spec.mismatch eq R T))) hd h (by omega)
      (P.length + R.length - (P.length + Spec.mismatch eq R T)) (Spec.mismatch eq R T) (Nat.le_refl _) (by omega)
    rw [hb]
    congr 1
    rw [Bool.eq_iff_iff, hiff, ← List.drop_take, isperm_pure heq R (T.take R.length) hlen _ hd hpre, List.all_eq_true]
    simp only [beq_iff_eq]
/-! ### the theorems -/

/-- 3-iterator overload: the second range is taken to have the length of the first (precondition: it has at least that many) -/
theorem isPermutation3_spec (eq : α → α → Bool) (heq : EquivB eq) (P R S Q T U : List α) (h : R.length ≤ T.length) :
    isPermutation3 eq (P ++ R ++ S) P.length (P.length + R.length) (Q ++ T ++ U) Q.length (Q.length + T.length)
      = .ok (Spec.isPermutation eq R (T.take R.length)) := by
  rw [isperm3_take eq heq P R S Q T U h]
  have : (R.length == (T.take R.length).length) = true := by rw [List.length_take, beq_iff_eq]; omega
  unfold Spec.isPermutation
  rw [this, Bool.true_and]
example : EquivB (fun x y : Nat => x == y) := equivB_nat
example : [1, 2].length ≤ [2, 1, 4].length := by decide

theorem isPermutation4_spec (eq : α → α → Bool) (heq : EquivB eq) (P R S Q T U : List α) :
    isPermutation4 eq (P ++ R ++ S) P.length (P.length + R.length) (Q ++ T ++ U) Q.length (Q.length + T.length)
      = .ok (Spec.isPermutation eq R T) := by
  unfold isPermutation4
  rw [Nat.add_sub_cancel_left, Nat.add_sub_cancel_left]
  by_cases hl : R.length = T.length
  · have : (R.length != T.length) = false := by rw [bne_eq_false_iff_eq]; exact hl
    rw [this]
    simp only [Bool.false_eq_true, if_false]
    rw [isPermutation3_spec eq heq P R S Q T U (by omega), hl, List.take_of_length_le (Nat.le_refl _)]
  · have : (R.length != T.length) = true := by rw [bne_iff_ne]; exact hl
    rw [this]
    simp only [if_true]
    have : (R.length == T.length) = false := by rw [beq_eq_false_iff_ne]; exact hl
    unfold Spec.isPermutation
    rw [this, Bool.false_and]
example : EquivB (fun x y : Nat => x == y) := equivB_nat

theorem isperm_equivB_beq [BEq α] [LawfulBEq α] : EquivB (fun x y : α => x == y) where
  refl := by intro x; simp
  symm := by intro x y h; have := eq_of_beq h; subst this; simp
  trans := by intro x y z h1 h2; have := eq_of_beq h1; subst this; exact h2

/-- for `==` on a type with lawful equality the spec is `List.Perm` -/
theorem isPermutation_iff_perm [BEq α] [LawfulBEq α] (R T : List α) :
    Spec.isPermutation (fun x y => x == y) R T = true ↔ R.Perm T := by
  unfold Spec.isPermutation
  rw [Bool.and_eq_true, beq_iff_eq, List.all_eq_true]
  constructor
  · rintro ⟨hlen, hc⟩
    rw [List.perm_iff_count]
    intro a
    rw [List.count_eq_countP, List.count_eq_countP]
    exact isperm_sameCounts isperm_equivB_beq R.length R T rfl hlen (fun x hx => by simpa using hc x hx) a
  · intro hp
    exact ⟨hp.length_eq, fun x _ => by rw [beq_iff_eq]; exact hp.countP_eq _⟩
example : Spec.isPermutation (fun x y : Nat => x == y) [1, 2, 2, 3] [2, 3, 1, 2] = true := by decide
example : Spec.isPermutation (fun x y : Nat => x == y) [1, 2, 2, 3] [2, 3, 1, 1] = false := by decide

end Tetl.C06
