/-
C06 — the two-cursor loops of set_difference / set_intersection / set_symmetric_difference / set_union /
includes compute the recursive two-list functions of SetDefs.lean on the remaining parts of both ranges
(for all inputs: no sortedness needed, never out of bounds, never out of fuel).
-/
import TetlProofs.C06.Fold
import TetlProofs.C06.SetDefs
namespace Tetl.C06
open Tetl
variable {α : Type}

theorem setLoops_take_drop (R : List α) (i : Nat) : List.take (R.length - i) (R.drop i) = R.drop i := by
  rw [show R.length - i = (R.drop i).length from by simp]; exact List.take_length

theorem setLoops_diffL_nil_right (lt : α → α → Bool) (xs : List α) : diffL lt xs [] = xs := by
  cases xs <;> simp [diffL]

theorem setLoops_interL_nil_right (lt : α → α → Bool) (xs : List α) : interL lt xs [] = [] := by
  cases xs <;> simp [interL]

theorem setLoops_symL_nil_right (lt : α → α → Bool) (xs : List α) : symL lt xs [] = xs := by
  cases xs <;> simp [symL]

theorem setLoops_unionL_nil_right (lt : α → α → Bool) (xs : List α) : unionL lt xs [] = xs := by
  cases xs <;> simp [unionL]

theorem setLoops_inclL_nil_right (lt : α → α → Bool) (xs : List α) : inclL lt xs [] = true := by
  cases xs <;> simp [inclL]

/-! ### set_difference -/
theorem setDifferenceLoop_spec (lt : α → α → Bool) (P R S Q T U : List α) : ∀ (fuel i j : Nat),
    i ≤ R.length → j ≤ T.length → (R.length - i) + (T.length - j) < fuel →
    setDifferenceLoop lt (P ++ R ++ S) P.length (P.length + R.length) (Q ++ T ++ U) Q.length
        (Q.length + T.length) fuel (P.length + i) (Q.length + j)
      = .ok (diffL lt (R.drop i) (T.drop j)) := by
  intro fuel
  induction fuel with
  | zero => intro i j _ _ h; omega
  | succ fuel ih =>
    intro i j hi hj hf
    unfold setDifferenceLoop
    rcases Nat.lt_or_ge i R.length with hi' | hi'
    · rw [if_pos (by rw [bne_iff_ne]; omega)]
      rcases Nat.lt_or_ge j T.length with hj' | hj'
      · rw [if_neg (by rw [beq_iff_eq]; omega), rdR_ctx P R S i hi', ok_bind, rdR_ctx Q T U j hj', ok_bind,
          drop_eq_cons hi', drop_eq_cons hj']
        rw [diffL]
        by_cases hxy : lt R[i] T[j]
        · rw [if_pos hxy, if_pos hxy, show P.length + i + 1 = P.length + (i + 1) from by omega,
            ih (i + 1) j (by omega) hj (by omega), ok_bind, ← drop_eq_cons hj']
        · rw [if_neg hxy, if_neg hxy]
          by_cases hyx : (!lt T[j] R[i]) = true
          · rw [if_pos hyx, if_pos hyx, show P.length + i + 1 = P.length + (i + 1) from by omega,
              show Q.length + j + 1 = Q.length + (j + 1) from by omega,
              ih (i + 1) (j + 1) (by omega) (by omega) (by omega)]
          · rw [if_neg hyx, if_neg hyx, show Q.length + j + 1 = Q.length + (j + 1) from by omega,
              ih i (j + 1) hi (by omega) (by omega), ← drop_eq_cons hi']
      · have hT : T.drop j = [] := List.drop_eq_nil_of_le hj'
        rw [if_pos (by rw [beq_iff_eq]; omega),
          show P.length + R.length - (P.length + i) = R.length - i from by omega,
          visitLoop_spec P R S (R.length - i) i (by omega), hT, setLoops_take_drop, setLoops_diffL_nil_right]
    · have hR : R.drop i = [] := List.drop_eq_nil_of_le hi'
      rw [if_neg (by rw [bne_iff_ne]; omega), hR]
      simp [diffL]

theorem setDifference_loop (lt : α → α → Bool) (P R S Q T U : List α) :
    setDifference lt (P ++ R ++ S) P.length (P.length + R.length) (Q ++ T ++ U) Q.length (Q.length + T.length)
      = .ok (diffL lt R T) := by
  unfold setDifference
  have := setDifferenceLoop_spec lt P R S Q T U
    (P.length + R.length - P.length + (Q.length + T.length - Q.length) + 1) 0 0 (by omega) (by omega) (by omega)
  simpa using this

/-! ### set_intersection -/
theorem setIntersectionLoop_spec (lt : α → α → Bool) (P R S Q T U : List α) : ∀ (fuel i j : Nat),
    i ≤ R.length → j ≤ T.length → (R.length - i) + (T.length - j) < fuel →
    setIntersectionLoop lt (P ++ R ++ S) P.length (P.length + R.length) (Q ++ T ++ U) Q.length
        (Q.length + T.length) fuel (P.length + i) (Q.length + j)
      = .ok (interL lt (R.drop i) (T.drop j)) := by
  intro fuel
  induction fuel with
  | zero => intro i j _ _ h; omega
  | succ fuel ih =>
    intro i j hi hj hf
    unfold setIntersectionLoop
    rcases Nat.lt_or_ge i R.length with hi' | hi'
    · rcases Nat.lt_or_ge j T.length with hj' | hj'
      · rw [if_pos (by rw [Bool.and_eq_true, bne_iff_ne, bne_iff_ne]; omega), rdR_ctx P R S i hi', ok_bind,
          rdR_ctx Q T U j hj', ok_bind, drop_eq_cons hi', drop_eq_cons hj']
        rw [interL]
        by_cases hxy : lt R[i] T[j]
        · rw [if_pos hxy, if_pos hxy, show P.length + i + 1 = P.length + (i + 1) from by omega,
            ih (i + 1) j (by omega) hj (by omega), ← drop_eq_cons hj']
        · rw [if_neg hxy, if_neg hxy]
          by_cases hyx : (!lt T[j] R[i]) = true
          · rw [if_pos hyx, if_pos hyx, show P.length + i + 1 = P.length + (i + 1) from by omega,
              show Q.length + j + 1 = Q.length + (j + 1) from by omega,
              ih (i + 1) (j + 1) (by omega) (by omega) (by omega), ok_bind]
          · rw [if_neg hyx, if_neg hyx, show Q.length + j + 1 = Q.length + (j + 1) from by omega,
              ih i (j + 1) hi (by omega) (by omega), ← drop_eq_cons hi']
      · have hT : T.drop j = [] := List.drop_eq_nil_of_le hj'
        rw [if_neg (by rw [Bool.and_eq_true, bne_iff_ne, bne_iff_ne]; omega), hT, setLoops_interL_nil_right]
    · have hR : R.drop i = [] := List.drop_eq_nil_of_le hi'
      rw [if_neg (by rw [Bool.and_eq_true, bne_iff_ne, bne_iff_ne]; omega), hR]
      simp [interL]

theorem setIntersection_loop (lt : α → α → Bool) (P R S Q T U : List α) :
    setIntersection lt (P ++ R ++ S) P.length (P.length + R.length) (Q ++ T ++ U) Q.length (Q.length + T.length)
      = .ok (interL lt R T) := by
  unfold setIntersection
  have := setIntersectionLoop_spec lt P R S Q T U
    (P.length + R.length - P.length + (Q.length + T.length - Q.length) + 1) 0 0 (by omega) (by omega) (by omega)
  simpa using this

/-! ### set_symmetric_difference -/
theorem setSymDiffLoop_spec (lt : α → α → Bool) (P R S Q T U : List α) : ∀ (fuel i j : Nat),
    i ≤ R.length → j ≤ T.length → (R.length - i) + (T.length - j) < fuel →
    setSymDiffLoop lt (P ++ R ++ S) P.length (P.length + R.length) (Q ++ T ++ U) Q.length
        (Q.length + T.length) fuel (P.length + i) (Q.length + j)
      = .ok (symL lt (R.drop i) (T.drop j)) := by
  intro fuel
  induction fuel with
  | zero => intro i j _ _ h; omega
  | succ fuel ih =>
    intro i j hi hj hf
    unfold setSymDiffLoop
    rcases Nat.lt_or_ge i R.length with hi' | hi'
    · rw [if_pos (by rw [bne_iff_ne]; omega)]
      rcases Nat.lt_or_ge j T.length with hj' | hj'
      · rw [if_neg (by rw [beq_iff_eq]; omega), rdR_ctx P R S i hi', ok_bind, rdR_ctx Q T U j hj', ok_bind,
          drop_eq_cons hi', drop_eq_cons hj']
        rw [symL]
        by_cases hxy : lt R[i] T[j]
        · rw [if_pos hxy, if_pos hxy, show P.length + i + 1 = P.length + (i + 1) from by omega,
            ih (i + 1) j (by omega) hj (by omega), ok_bind, ← drop_eq_cons hj']
        · rw [if_neg hxy, if_neg hxy]
          by_cases hyx : lt T[j] R[i]
          · rw [if_pos hyx, if_pos hyx, show Q.length + j + 1 = Q.length + (j + 1) from by omega,
              ih i (j + 1) hi (by omega) (by omega), ok_bind, ← drop_eq_cons hi']
          · rw [if_neg hyx, if_neg hyx, show P.length + i + 1 = P.length + (i + 1) from by omega,
              show Q.length + j + 1 = Q.length + (j + 1) from by omega,
              ih (i + 1) (j + 1) (by omega) (by omega) (by omega)]
      · have hT : T.drop j = [] := List.drop_eq_nil_of_le hj'
        rw [if_pos (by rw [beq_iff_eq]; omega),
          show P.length + R.length - (P.length + i) = R.length - i from by omega,
          visitLoop_spec P R S (R.length - i) i (by omega), hT, setLoops_take_drop, setLoops_symL_nil_right]
    · have hR : R.drop i = [] := List.drop_eq_nil_of_le hi'
      rw [if_neg (by rw [bne_iff_ne]; omega),
        show Q.length + T.length - (Q.length + j) = T.length - j from by omega,
        visitLoop_spec Q T U (T.length - j) j (by omega), hR, setLoops_take_drop]
      simp [symL]

theorem setSymmetricDifference_loop (lt : α → α → Bool) (P R S Q T U : List α) :
    setSymmetricDifference lt (P ++ R ++ S) P.length (P.length + R.length) (Q ++ T ++ U) Q.length (Q.length + T.length)
      = .ok (symL lt R T) := by
  unfold setSymmetricDifference
  have := setSymDiffLoop_spec lt P R S Q T U
    (P.length + R.length - P.length + (Q.length + T.length - Q.length) + 1) 0 0 (by omega) (by omega) (by omega)
  simpa using this

/-! ### set_union -/
theorem setUnionLoop_spec (lt : α → α → Bool) (P R S Q T U : List α) : ∀ (fuel i j : Nat),
    i ≤ R.length → j ≤ T.length → (R.length - i) + (T.length - j) < fuel →
    setUnionLoop lt (P ++ R ++ S) P.length (P.length + R.length) (Q ++ T ++ U) Q.length
        (Q.length + T.length) fuel (P.length + i) (Q.length + j)
      = .ok (unionL lt (R.drop i) (T.drop j)) := by
  intro fuel
  induction fuel with
  | zero => intro i j _ _ h; omega
  | succ fuel ih =>
    intro i j hi hj hf
    unfold setUnionLoop
    rcases Nat.lt_or_ge i R.length with hi' | hi'
    · rw [if_pos (by rw [bne_iff_ne]; omega)]
      rcases Nat.lt_or_ge j T.length with hj' | hj'
      · rw [if_neg (by rw [beq_iff_eq]; omega), rdR_ctx Q T U j hj', ok_bind, rdR_ctx P R S i hi', ok_bind,
          drop_eq_cons hi', drop_eq_cons hj']
        rw [unionL]
        by_cases hyx : lt T[j] R[i]
        · rw [if_pos hyx, if_pos hyx, show Q.length + j + 1 = Q.length + (j + 1) from by omega,
            ih i (j + 1) hi (by omega) (by omega), ok_bind, ← drop_eq_cons hi']
        · rw [if_neg hyx, if_neg hyx]
          by_cases hxy : (!lt R[i] T[j]) = true
          · simp only [if_pos hxy]
            rw [show P.length + i + 1 = P.length + (i + 1) from by omega,
              show Q.length + j + 1 = Q.length + (j + 1) from by omega,
              ih (i + 1) (j + 1) (by omega) (by omega) (by omega), ok_bind]
          · simp only [if_neg hxy]
            rw [show P.length + i + 1 = P.length + (i + 1) from by omega,
              ih (i + 1) j (by omega) hj (by omega), ok_bind, ← drop_eq_cons hj']
      · have hT : T.drop j = [] := List.drop_eq_nil_of_le hj'
        rw [if_pos (by rw [beq_iff_eq]; omega),
          show P.length + R.length - (P.length + i) = R.length - i from by omega,
          visitLoop_spec P R S (R.length - i) i (by omega), hT, setLoops_take_drop, setLoops_unionL_nil_right]
    · have hR : R.drop i = [] := List.drop_eq_nil_of_le hi'
      rw [if_neg (by rw [bne_iff_ne]; omega),
        show Q.length + T.length - (Q.length + j) = T.length - j from by omega,
        visitLoop_spec Q T U (T.length - j) j (by omega), hR, setLoops_take_drop]
      simp [unionL]

theorem setUnion_loop (lt : α → α → Bool) (P R S Q T U : List α) :
    setUnion lt (P ++ R ++ S) P.length (P.length + R.length) (Q ++ T ++ U) Q.length (Q.length + T.length)
      = .ok (unionL lt R T) := by
  unfold setUnion
  have := setUnionLoop_spec lt P R S Q T U
    (P.length + R.length - P.length + (Q.length + T.length - Q.length) + 1) 0 0 (by omega) (by omega) (by omega)
  simpa using this

/-! ### includes -/
theorem includesLoop_spec (lt : α → α → Bool) (P R S Q T U : List α) : ∀ (fuel i j : Nat),
    i ≤ R.length → j ≤ T.length → R.length - i < fuel →
    includesLoop lt (P ++ R ++ S) P.length (P.length + R.length) (Q ++ T ++ U) Q.length
        (Q.length + T.length) fuel (P.length + i) (Q.length + j)
      = .ok (inclL lt (R.drop i) (T.drop j)) := by
  intro fuel
  induction fuel with
  | zero => intro i j _ _ h; omega
  | succ fuel ih =>
    intro i j hi hj hf
    unfold includesLoop
    rcases Nat.lt_or_ge j T.length with hj' | hj'
    · rw [if_pos (by rw [bne_iff_ne]; omega)]
      rcases Nat.lt_or_ge i R.length with hi' | hi'
      · rw [if_neg (by rw [beq_iff_eq]; omega), rdR_ctx Q T U j hj', ok_bind, rdR_ctx P R S i hi', ok_bind,
          drop_eq_cons hi', drop_eq_cons hj']
        rw [inclL]
        by_cases hyx : lt T[j] R[i]
        · rw [if_pos hyx, if_pos hyx]
        · rw [if_neg hyx, if_neg hyx]
          by_cases hxy : (!lt R[i] T[j]) = true
          · rw [if_pos hxy, if_pos hxy, show P.length + i + 1 = P.length + (i + 1) from by omega,
              show Q.length + j + 1 = Q.length + (j + 1) from by omega,
              ih (i + 1) (j + 1) (by omega) (by omega) (by omega)]
          · rw [if_neg hxy, if_neg hxy, show P.length + i + 1 = P.length + (i + 1) from by omega,
              ih (i + 1) j (by omega) hj (by omega), ← drop_eq_cons hj']
      · have hR : R.drop i = [] := List.drop_eq_nil_of_le hi'
        rw [if_pos (by rw [beq_iff_eq]; omega), hR, drop_eq_cons hj', inclL]
    · have hT : T.drop j = [] := List.drop_eq_nil_of_le hj'
      rw [if_neg (by rw [bne_iff_ne]; omega), hT, setLoops_inclL_nil_right]

theorem includes_loop (lt : α → α → Bool) (P R S Q T U : List α) :
    includes lt (P ++ R ++ S) P.length (P.length + R.length) (Q ++ T ++ U) Q.length (Q.length + T.length)
      = .ok (inclL lt R T) := by
  unfold includes
  have := includesLoop_spec lt P R S Q T U
    (P.length + R.length - P.length + 1) 0 0 (by omega) (by omega) (by omega)
  simpa using this

end Tetl.C06
