/-
C06 — output-iterator algorithms, bridges for unique_copy (both branches), partial_sum, adjacent_difference
(`Out.X = writeAll (stream X)`), and partition_copy (two destinations, each in its own context).
-/
import TetlProofs.C06.OutBase
namespace Tetl.C06
open Tetl
variable {α : Type}

/-! ### unique_copy, output-iterator branch (local copy of the last written value) -/
theorem outMisc_uniqueCopyOutLoop (pred : α → α → Bool) (a : List α) (f l dlo dhi : Nat) :
    ∀ (n i : Nat) (cur : α) (ws d : List α) (o : Nat), uniqueCopyLoop pred a f l n (i + 1) cur = .ok ws →
      Out.uniqueCopyOutLoop pred a f l dlo dhi n i cur d o = writeAll dlo dhi ws d o := by
  intro n
  induction n with
  | zero => intro i cur ws d o h; simp [uniqueCopyLoop] at h; subst h; rfl
  | succ n ih =>
    intro i cur ws d o h
    unfold uniqueCopyLoop at h
    cases hx : rdR a f l (i + 1) with
    | error e => rw [hx] at h; simp at h
    | ok x =>
      rw [hx, ok_bind] at h
      cases hp : pred cur x with
      | true =>
        simp only [hp, Bool.not_true, Bool.false_eq_true, if_false] at h
        simp only [Out.uniqueCopyOutLoop, hx, ok_bind, hp, Bool.not_true, Bool.false_eq_true, if_false]
        exact ih (i + 1) cur ws d o h
      | false =>
        simp only [hp, Bool.not_false, if_true] at h
        cases hr : uniqueCopyLoop pred a f l n (i + 1 + 1) x with
        | error e => rw [hr] at h; simp at h
        | ok r =>
          rw [hr, ok_bind] at h
          injection h with h
          subst h
          simp only [Out.uniqueCopyOutLoop, hx, ok_bind, hp, Bool.not_false, if_true]
          rw [writeAll_cons]
          cases hw : wrR d dlo dhi o x with
          | error e => rfl
          | ok d' => simp only [ok_bind]; exact ih (i + 1) x r d' (o + 1) hr

theorem outUniqueCopyOut_bridge (pred : α → α → Bool) (a : List α) (f l : Nat) (d : List α) (dlo dhi : Nat) (ws : List α)
    (h : uniqueCopy pred a f l = .ok ws) : Out.uniqueCopyOut pred a f l d dlo dhi = writeAll dlo dhi ws d dlo := by
  unfold uniqueCopy at h
  unfold Out.uniqueCopyOut
  by_cases hfl : (f != l) = true
  · rw [if_pos hfl] at h
    rw [if_pos hfl]
    cases hx : rdR a f l f with
    | error e => rw [hx] at h; simp at h
    | ok x =>
      rw [hx, ok_bind] at h
      cases hr : uniqueCopyLoop pred a f l (l - f - 1) (f + 1) x with
      | error e => rw [hr] at h; simp at h
      | ok r =>
        rw [hr, ok_bind] at h
        injection h with h
        subst h
        rw [ok_bind, writeAll_cons]
        cases hw : wrR d dlo dhi dlo x with
        | error e => rfl
        | ok d' => simp only [ok_bind]; exact outMisc_uniqueCopyOutLoop pred a f l dlo dhi _ f x r d' (dlo + 1) hr
  · rw [if_neg hfl] at h
    rw [if_neg hfl]
    injection h with h
    subst h
    rfl

/-! ### unique_copy, forward-iterator branch (last written value read back through the destination) -/
theorem outMisc_wrR_ok {d d' : List α} {lo hi o : Nat} {x : α} (h : wrR d lo hi o x = .ok d') :
    lo ≤ o ∧ o < hi ∧ d'[o]? = some x := by
  unfold wrR at h
  by_cases hc : lo ≤ o ∧ o < hi ∧ o < d.length
  · rw [if_pos hc] at h
    injection h with h
    subst h
    refine ⟨hc.1, hc.2.1, ?_⟩
    rw [List.getElem?_set_self hc.2.2]
  · rw [if_neg hc] at h
    cases h

theorem outMisc_uniqueCopyFwdLoop (pred : α → α → Bool) (a : List α) (f l dlo dhi : Nat) :
    ∀ (n i : Nat) (cur : α) (ws d : List α) (o : Nat), uniqueCopyLoop pred a f l n (i + 1) cur = .ok ws →
      dlo ≤ o → o < dhi → d[o]? = some cur →
      Out.uniqueCopyFwdLoop pred a f l dlo dhi n i d o = writeAll dlo dhi ws d (o + 1) := by
  intro n
  induction n with
  | zero => intro i cur ws d o h _ _ _; simp [uniqueCopyLoop] at h; subst h; rfl
  | succ n ih =>
    intro i cur ws d o h h1 h2 h3
    have hc : rdR d dlo dhi o = .ok cur := rdR_at h1 h2 h3
    unfold uniqueCopyLoop at h
    cases hx : rdR a f l (i + 1) with
    | error e => rw [hx] at h; simp at h
    | ok x =>
      rw [hx, ok_bind] at h
      cases hp : pred cur x with
      | true =>
        simp only [hp, Bool.not_true, Bool.false_eq_true, if_false] at h
        simp only [Out.uniqueCopyFwdLoop, hc, hx, ok_bind, hp, Bool.not_true, Bool.false_eq_true, if_false]
        exact ih (i + 1) cur ws d o h h1 h2 h3
      | false =>
        simp only [hp, Bool.not_false, if_true] at h
        cases hr : uniqueCopyLoop pred a f l n (i + 1 + 1) x with
        | error e => rw [hr] at h; simp at h
        | ok r =>
          rw [hr, ok_bind] at h
          injection h with h
          subst h
          simp only [Out.uniqueCopyFwdLoop, hc, hx, ok_bind, hp, Bool.not_false, if_true]
          rw [writeAll_cons]
          cases hw : wrR d dlo dhi (o + 1) x with
          | error e => rfl
          | ok d' =>
            simp only [ok_bind]
            obtain ⟨w1, w2, w3⟩ := outMisc_wrR_ok hw
            exact ih (i + 1) x r d' (o + 1) hr w1 w2 w3

theorem outUniqueCopyFwd_bridge (pred : α → α → Bool) (a : List α) (f l : Nat) (d : List α) (dlo dhi : Nat) (ws : List α)
    (h : uniqueCopy pred a f l = .ok ws) : Out.uniqueCopyFwd pred a f l d dlo dhi = writeAll dlo dhi ws d dlo := by
  unfold uniqueCopy at h
  unfold Out.uniqueCopyFwd
  by_cases hfl : (f != l) = true
  · rw [if_pos hfl] at h
    rw [if_pos hfl]
    cases hx : rdR a f l f with
    | error e => rw [hx] at h; simp at h
    | ok x =>
      rw [hx, ok_bind] at h
      cases hr : uniqueCopyLoop pred a f l (l - f - 1) (f + 1) x with
      | error e => rw [hr] at h; simp at h
      | ok r =>
        rw [hr, ok_bind] at h
        injection h with h
        subst h
        rw [ok_bind, writeAll_cons]
        cases hw : wrR d dlo dhi dlo x with
        | error e => rfl
        | ok d' =>
          simp only [ok_bind]
          obtain ⟨w1, w2, w3⟩ := outMisc_wrR_ok hw
          exact outMisc_uniqueCopyFwdLoop pred a f l dlo dhi _ f x r d' dlo hr w1 w2 w3
  · rw [if_neg hfl] at h
    rw [if_neg hfl]
    injection h with h
    subst h
    rfl

/-! ### partial_sum -/
theorem outMisc_partialSumLoop (op : α → α → α) (a : List α) (f l dlo dhi : Nat) :
    ∀ (n i : Nat) (sum : α) (ws d : List α) (o : Nat), partialSumLoop op a f l n (i + 1) sum = .ok ws →
      Out.partialSumLoop op a f l dlo dhi n i sum d o = writeAll dlo dhi ws d (o + 1) := by
  intro n
  induction n with
  | zero => intro i sum ws d o h; simp [partialSumLoop] at h; subst h; rfl
  | succ n ih =>
    intro i sum ws d o h
    unfold partialSumLoop at h
    cases hx : rdR a f l (i + 1) with
    | error e => rw [hx] at h; simp at h
    | ok x =>
      rw [hx, ok_bind] at h
      cases hr : partialSumLoop op a f l n (i + 1 + 1) (op sum x) with
      | error e => simp only [hr] at h; simp at h
      | ok r =>
        simp only [hr, ok_bind] at h
        injection h with h
        subst h
        simp only [Out.partialSumLoop, hx, ok_bind]
        rw [writeAll_cons]
        cases hw : wrR d dlo dhi (o + 1) (op sum x) with
        | error e => rfl
        | ok d' => simp only [ok_bind]; exact ih (i + 1) (op sum x) r d' (o + 1) hr

theorem outPartialSum_bridge (op : α → α → α) (a : List α) (f l : Nat) (d : List α) (dlo dhi : Nat) (ws : List α)
    (h : partialSum op a f l = .ok ws) : Out.partialSum op a f l d dlo dhi = writeAll dlo dhi ws d dlo := by
  unfold partialSum at h
  unfold Out.partialSum
  by_cases hfl : (f == l) = true
  · rw [if_pos hfl] at h
    rw [if_pos hfl]
    injection h with h
    subst h
    rfl
  · rw [if_neg hfl] at h
    rw [if_neg hfl]
    cases hx : rdR a f l f with
    | error e => rw [hx] at h; simp at h
    | ok x =>
      rw [hx, ok_bind] at h
      cases hr : partialSumLoop op a f l (l - f - 1) (f + 1) x with
      | error e => rw [hr] at h; simp at h
      | ok r =>
        rw [hr, ok_bind] at h
        injection h with h
        subst h
        rw [ok_bind, writeAll_cons]
        cases hw : wrR d dlo dhi dlo x with
        | error e => rfl
        | ok d' => simp only [ok_bind]; exact outMisc_partialSumLoop op a f l dlo dhi _ f x r d' dlo hr

/-! ### adjacent_difference -/
theorem outMisc_adjDiffLoop (op : α → α → α) (a : List α) (f l dlo dhi : Nat) :
    ∀ (n i : Nat) (acc : α) (ws d : List α) (o : Nat), adjDiffLoop op a f l n (i + 1) acc = .ok ws →
      Out.adjDiffLoop op a f l dlo dhi n i acc d o = writeAll dlo dhi ws d (o + 1) := by
  intro n
  induction n with
  | zero => intro i acc ws d o h; simp [adjDiffLoop] at h; subst h; rfl
  | succ n ih =>
    intro i acc ws d o h
    unfold adjDiffLoop at h
    cases hx : rdR a f l (i + 1) with
    | error e => rw [hx] at h; simp at h
    | ok x =>
      rw [hx, ok_bind] at h
      cases hr : adjDiffLoop op a f l n (i + 1 + 1) x with
      | error e => rw [hr] at h; simp at h
      | ok r =>
        rw [hr, ok_bind] at h
        injection h with h
        subst h
        simp only [Out.adjDiffLoop, hx, ok_bind]
        rw [writeAll_cons]
        cases hw : wrR d dlo dhi (o + 1) (op x acc) with
        | error e => rfl
        | ok d' => simp only [ok_bind]; exact ih (i + 1) x r d' (o + 1) hr

theorem outAdjacentDifference_bridge (op : α → α → α) (a : List α) (f l : Nat) (d : List α) (dlo dhi : Nat) (ws : List α)
    (h : adjacentDifference op a f l = .ok ws) : Out.adjacentDifference op a f l d dlo dhi = writeAll dlo dhi ws d dlo := by
  unfold adjacentDifference at h
  unfold Out.adjacentDifference
  by_cases hfl : (f == l) = true
  · rw [if_pos hfl] at h
    rw [if_pos hfl]
    injection h with h
    subst h
    rfl
  · rw [if_neg hfl] at h
    rw [if_neg hfl]
    cases hx : rdR a f l f with
    | error e => rw [hx] at h; simp at h
    | ok x =>
      rw [hx, ok_bind] at h
      cases hr : adjDiffLoop op a f l (l - f - 1) (f + 1) x with
      | error e => rw [hr] at h; simp at h
      | ok r =>
        rw [hr, ok_bind] at h
        injection h with h
        subst h
        rw [ok_bind, writeAll_cons]
        cases hw : wrR d dlo dhi dlo x with
        | error e => rfl
        | ok d' => simp only [ok_bind]; exact outMisc_adjDiffLoop op a f l dlo dhi _ f x r d' dlo hr

/-! ### partition_copy -/
/-- when both streams fit (both `writeAll` succeed), the two-destination loop is the two `writeAll`s -/
theorem outMisc_partitionCopyLoop (p : α → Bool) (a : List α) (f l lo1 hi1 lo2 hi2 : Nat) :
    ∀ (n i : Nat) (t e d1 : List α) (o1 : Nat) (d2 : List α) (o2 : Nat) (r1 r2 : List α × Nat),
      partitionCopyLoop p a f l n i = .ok (t, e) →
      writeAll lo1 hi1 t d1 o1 = .ok r1 → writeAll lo2 hi2 e d2 o2 = .ok r2 →
      Out.partitionCopyLoop p a f l lo1 hi1 lo2 hi2 n i d1 o1 d2 o2 = .ok (r1, r2) := by
  intro n
  induction n with
  | zero =>
    intro i t e d1 o1 d2 o2 r1 r2 h w1 w2
    simp [partitionCopyLoop] at h
    obtain ⟨ht, he⟩ := h
    subst ht; subst he
    simp only [writeAll_nil] at w1 w2
    injection w1 with w1
    injection w2 with w2
    subst w1; subst w2
    rfl
  | succ n ih =>
    intro i t e d1 o1 d2 o2 r1 r2 h w1 w2
    unfold partitionCopyLoop at h
    cases hx : rdR a f l i with
    | error err => rw [hx] at h; simp at h
    | ok x =>
      rw [hx, ok_bind] at h
      cases hr : partitionCopyLoop p a f l n (i + 1) with
      | error err => rw [hr] at h; simp at h
      | ok r =>
        obtain ⟨t', e'⟩ := r
        rw [hr, ok_bind] at h
        simp only [] at h
        injection h with h
        cases hp : p x with
        | true =>
          simp only [hp, if_true] at h
          injection h with ht he
          subst ht; subst he
          rw [writeAll_cons] at w1
          cases hw : wrR d1 lo1 hi1 o1 x with
          | error err => rw [hw] at w1; simp at w1
          | ok d1' =>
            rw [hw, ok_bind] at w1
            simp only [Out.partitionCopyLoop, hx, ok_bind, hp, if_true, hw]
            exact ih (i + 1) t' e' d1' (o1 + 1) d2 o2 r1 r2 hr w1 w2
        | false =>
          simp only [hp, Bool.false_eq_true, if_false] at h
          injection h with ht he
          subst ht; subst he
          rw [writeAll_cons] at w2
          cases hw : wrR d2 lo2 hi2 o2 x with
          | error err => rw [hw] at w2; simp at w2
          | ok d2' =>
            rw [hw, ok_bind] at w2
            simp only [Out.partitionCopyLoop, hx, ok_bind, hp, Bool.false_eq_true, if_false, hw]
            exact ih (i + 1) t' e' d1 o1 d2' (o2 + 1) r1 r2 hr w1 w2

/-- partition_copy: two destinations, each in its own context -/
theorem outPartitionCopy_ctx (p : α → Bool) (P R S D1p W1 D1s D2p W2 D2s : List α)
    (h1 : (R.filter p).length ≤ W1.length) (h2 : (R.filter (fun x => !p x)).length ≤ W2.length) :
    Out.partitionCopy p (P ++ R ++ S) P.length (P.length + R.length)
        (D1p ++ W1 ++ D1s) D1p.length (D1p.length + W1.length) (D2p ++ W2 ++ D2s) D2p.length (D2p.length + W2.length)
      = .ok ((D1p ++ (R.filter p ++ W1.drop (R.filter p).length) ++ D1s, D1p.length + (R.filter p).length),
             (D2p ++ (R.filter (fun x => !p x) ++ W2.drop (R.filter (fun x => !p x)).length) ++ D2s,
              D2p.length + (R.filter (fun x => !p x)).length)) := by
  have hs := partitionCopyLoop_spec p P R S R.length 0 (by simp)
  rw [Nat.add_zero, List.drop_zero] at hs
  unfold Out.partitionCopy
  rw [Nat.add_sub_cancel_left]
  exact outMisc_partitionCopyLoop p _ _ _ _ _ _ _ R.length P.length _ _ _ _ _ _ _ _ hs
    (writeAll_ctx D1p W1 D1s _ h1) (writeAll_ctx D2p W2 D2s _ h2)

end Tetl.C06
