/-
C06 — merge.hpp: the two-cursor loop writes `List.merge` (ties from the first range first).
-/
import TetlProofs.C06.Fold
namespace Tetl.C06
open Tetl
variable {α : Type}

theorem mergeLoop_spec (lt : α → α → Bool) (P R S Q T U : List α) : ∀ (fuel i j : Nat),
    i ≤ R.length → j ≤ T.length → (R.length - i) + (T.length - j) < fuel →
    mergeLoop lt (P ++ R ++ S) P.length (P.length + R.length) (Q ++ T ++ U) Q.length (Q.length + T.length)
        fuel (P.length + i) (Q.length + j)
      = .ok (Spec.merge lt (R.drop i) (T.drop j)) := by
  intro fuel
  induction fuel with
  | zero => intro i j _ _ h; omega
  | succ fuel ih =>
    intro i j hi hj hf
    unfold mergeLoop
    rcases Nat.lt_or_ge i R.length with hi' | hi'
    · rw [if_pos (by rw [bne_iff_ne]; omega)]
      rcases Nat.lt_or_ge j T.length with hj' | hj'
      · rw [if_neg (by rw [beq_iff_eq]; omega), rdR_ctx Q T U j hj', ok_bind, rdR_ctx P R S i hi', ok_bind,
          drop_eq_cons hi', drop_eq_cons hj']
        unfold Spec.merge
        rw [List.merge]
        by_cases hlt : lt T[j] R[i]
        · rw [if_pos hlt, show Q.length + j + 1 = Q.length + (j + 1) from by omega,
            ih i (j + 1) hi (by omega) (by omega), ok_bind]
          rw [if_neg (by simp [hlt]), ← drop_eq_cons hi']
          rfl
        · rw [if_neg hlt, show P.length + i + 1 = P.length + (i + 1) from by omega,
            ih (i + 1) j (by omega) hj (by omega), ok_bind]
          rw [if_pos (by simp [hlt]), ← drop_eq_cons hj']
          rfl
      · have hT : T.drop j = [] := List.drop_eq_nil_of_le hj'
        have hj2 : j = T.length := by omega
        rw [if_pos (by rw [beq_iff_eq]; omega),
          show P.length + R.length - (P.length + i) = R.length - i from by omega,
          visitLoop_spec P R S (R.length - i) i (by omega), hT]
        have : List.take (R.length - i) (R.drop i) = R.drop i := by
          rw [show R.length - i = (R.drop i).length from by simp]; exact List.take_length
        simp [Spec.merge, this]
    · have hR : R.drop i = [] := List.drop_eq_nil_of_le hi'
      have hi2 : i = R.length := by omega
      rw [if_neg (by rw [bne_iff_ne]; omega),
        show Q.length + T.length - (Q.length + j) = T.length - j from by omega,
        visitLoop_spec Q T U (T.length - j) j (by omega), hR]
      have : List.take (T.length - j) (T.drop j) = T.drop j := by
        rw [show T.length - j = (T.drop j).length from by simp]; exact List.take_length
      simp [Spec.merge, this]

end Tetl.C06
