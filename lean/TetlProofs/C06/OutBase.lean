/-
C06 — output-iterator algorithms: the bridge between a value stream and the destination storage.

`writeAll dlo dhi ws d o` writes the values `ws` to the consecutive positions `o, o+1, …` of the destination `d`
(each write checked against the window `[dlo,dhi)`) and returns the new storage and the position behind the last
write.  Every `Out.X` loop of Tetl/C06/Model/Out.lean is proved (OutCopy/OutMerge/OutMisc.lean) to equal
`writeAll` of the value stream `X` of the older model files, so the theorem "stream = spec" (already proved) lifts
to "destination = D_pre ++ spec ++ rest-of-window ++ D_post, returned iterator = dlo + |spec|" by `writeAll_ctx`.
-/
import TetlProofs.C06.Fill
namespace Tetl.C06
open Tetl
variable {α : Type}

def writeAll (dlo dhi : Nat) : List α → List α → Nat → Except Err (List α × Nat)
  | [], d, o => .ok (d, o)
  | x :: ws, d, o => do
    let d ← wrR d dlo dhi o x
    writeAll dlo dhi ws d (o + 1)

@[simp] theorem writeAll_nil (dlo dhi : Nat) (d : List α) (o : Nat) : writeAll dlo dhi [] d o = .ok (d, o) := rfl

theorem writeAll_cons (dlo dhi : Nat) (x : α) (ws d : List α) (o : Nat) :
    writeAll dlo dhi (x :: ws) d o = (wrR d dlo dhi o x >>= fun d => writeAll dlo dhi ws d (o + 1)) := rfl

theorem writeAll_append (dlo dhi : Nat) (xs ys : List α) :
    ∀ (d : List α) (o : Nat), writeAll dlo dhi (xs ++ ys) d o
      = (writeAll dlo dhi xs d o >>= fun r => writeAll dlo dhi ys r.1 r.2) := by
  induction xs with
  | nil => intro d o; rfl
  | cons x xs ih =>
    intro d o
    simp only [List.cons_append, writeAll_cons]
    cases h : wrR d dlo dhi o x with
    | error e => rfl
    | ok d' => simp only [ok_bind]; exact ih d' (o + 1)

/-- writing `ws` into the window `W` of `Dp ++ W ++ Ds`, starting `k` positions into the window -/
theorem writeAll_ctx_at (Dp Ds : List α) : ∀ (ws K W : List α), ws.length ≤ W.length →
    writeAll Dp.length (Dp.length + (K.length + W.length)) ws (Dp ++ (K ++ W) ++ Ds) (Dp.length + K.length)
      = .ok (Dp ++ (K ++ (ws ++ W.drop ws.length)) ++ Ds, Dp.length + K.length + ws.length) := by
  intro ws
  induction ws with
  | nil => intro K W _; simp
  | cons x ws ih =>
    intro K W h
    match W, h with
    | w :: W, h =>
      simp only [List.length_cons] at h
      rw [writeAll_cons,
        show Dp ++ (K ++ w :: W) ++ Ds = (Dp ++ K) ++ w :: (W ++ Ds) from by simp,
        show Dp.length + K.length = (Dp ++ K).length from by simp,
        wrR_mid _ _ w x _ _ (by simp) (by simp), ok_bind,
        show (Dp ++ K) ++ x :: (W ++ Ds) = Dp ++ ((K ++ [x]) ++ W) ++ Ds from by simp,
        show (Dp ++ K).length + 1 = Dp.length + (K ++ [x]).length from by simp; omega,
        show Dp.length + (K.length + (w :: W).length) = Dp.length + ((K ++ [x]).length + W.length) from by simp; omega,
        ih (K ++ [x]) W (by omega)]
      simp [List.append_assoc]
      omega

/-- the form used by the property theorems: the whole window, from its start -/
theorem writeAll_ctx (Dp W Ds ws : List α) (h : ws.length ≤ W.length) :
    writeAll Dp.length (Dp.length + W.length) ws (Dp ++ W ++ Ds) Dp.length
      = .ok (Dp ++ (ws ++ W.drop ws.length) ++ Ds, Dp.length + ws.length) := by
  have := writeAll_ctx_at Dp Ds ws [] W h
  simpa using this

/-- `Out.copyLoop` (etl::copy into another storage) writes the visited elements -/
theorem outCopyLoop_bridge (a : List α) (f l dlo dhi : Nat) :
    ∀ (n i : Nat) (ws d : List α) (o : Nat), visitLoop a f l n i = .ok ws →
      Out.copyLoop a f l dlo dhi n i d o = writeAll dlo dhi ws d o := by
  intro n
  induction n with
  | zero => intro i ws d o h; simp [visitLoop] at h; subst h; rfl
  | succ n ih =>
    intro i ws d o h
    unfold visitLoop at h
    cases hx : rdR a f l i with
    | error e => rw [hx] at h; simp at h
    | ok x =>
      rw [hx, ok_bind] at h
      cases hr : visitLoop a f l n (i + 1) with
      | error e => rw [hr] at h; simp at h
      | ok r =>
        rw [hr, ok_bind] at h
        injection h with h
        subst h
        unfold Out.copyLoop
        rw [hx, ok_bind, writeAll_cons]
        cases hw : wrR d dlo dhi o x with
        | error e => rfl
        | ok d' => simp only [ok_bind]; exact ih (i + 1) r d' (o + 1) hr

end Tetl.C06
