/-
C06 — helper lemmas: the Except monad, checked reads/writes of a range in its context
`P ++ R ++ S` (first = |P|, last = |P| + |R|).
-/
import Tetl.C06.Model
import Tetl.C06.Spec
namespace Tetl.C06
open Tetl
variable {α : Type}

@[simp] theorem ok_bind {ε α β} (a : α) (f : α → Except ε β) : (Except.ok a >>= f) = f a := rfl
@[simp] theorem error_bind {ε α β} (e : ε) (f : α → Except ε β) : (Except.error e >>= f) = Except.error e := rfl
@[simp] theorem pure_eq_ok {ε α} (a : α) : (pure a : Except ε α) = Except.ok a := rfl

theorem rd_ok {l : List α} {i : Nat} (h : i < l.length) : rd l i = .ok l[i] := by simp [rd, h]

theorem getElem?_ctx (P R S : List α) (i : Nat) (h : i < R.length) :
    (P ++ R ++ S)[P.length + i]? = some R[i] := by
  rw [List.append_assoc, List.getElem?_append_right (by omega)]
  simp [List.getElem?_append_left h]

/-- reading position `i` of the range `R` inside its context is in range and yields `R[i]` -/
theorem rdR_ctx (P R S : List α) (i : Nat) (h : i < R.length) :
    rdR (P ++ R ++ S) P.length (P.length + R.length) (P.length + i) = .ok R[i] := by
  unfold rdR
  have h1 : P.length ≤ P.length + i ∧ P.length + i < P.length + R.length := by omega
  rw [if_pos h1]
  unfold rd
  rw [getElem?_ctx P R S i h]

/-- writing position `i` of the range inside its context is in range and replaces `R[i]` -/
theorem wrR_ctx (P R S : List α) (i : Nat) (x : α) (h : i < R.length) :
    wrR (P ++ R ++ S) P.length (P.length + R.length) (P.length + i) x = .ok (P ++ R.set i x ++ S) := by
  unfold wrR
  have h1 : P.length ≤ P.length + i ∧ P.length + i < P.length + R.length ∧
      P.length + i < (P ++ R ++ S).length := by simp; omega
  rw [if_pos h1]
  congr 1
  rw [List.append_assoc, List.set_append_right _ _ (by omega), List.append_assoc]
  congr 1
  have : P.length + i - P.length = i := by omega
  rw [this, List.set_append_left _ _ h]

theorem drop_eq_cons {l : List α} {i : Nat} (h : i < l.length) : l.drop i = l[i] :: l.drop (i + 1) := by
  exact List.drop_eq_getElem_cons h

end Tetl.C06
