/-
C06 — the forward swap cycle of rotate.hpp.  Loop invariant (DESIGN §4 C06): after consuming `B`
the storage is `P ++ B ++ R ++ S` with `|R| = |M|`, `nextRead - write = k' < |M|` and
`R.rotate k' = M.rotate k`: the "unrotated middle" is invariant under a step.
-/
import Mathlib.Data.List.Rotate
import TetlProofs.C06.Lemmas
namespace Tetl.C06
open Tetl
variable {α : Type}

theorem rdR_at {a : List α} {f l i : Nat} {x : α} (h1 : f ≤ i) (h2 : i < l) (hx : a[i]? = some x) :
    rdR a f l i = .ok x := by
  unfold rdR rd
  rw [if_pos ⟨h1, h2⟩, hx]

theorem wrR_at {a : List α} {f l i : Nat} (x : α) (h1 : f ≤ i) (h2 : i < l) (h3 : i < a.length) :
    wrR a f l i x = .ok (a.set i x) := by
  unfold wrR
  rw [if_pos ⟨h1, h2, h3⟩]

/-- `iter_swap` of the heads of two segments, both inside `[f0,l0)` -/
theorem swapR_append (P M B S : List α) (m b : α) (f0 l0 : Nat) (hf : f0 ≤ P.length)
    (hl : P.length + M.length + 1 < l0) :
    swapR (P ++ (m :: M) ++ (b :: B) ++ S) f0 l0 P.length (P.length + M.length + 1)
      = .ok (P ++ (b :: M) ++ (m :: B) ++ S) := by
  have h1 : (P ++ (m :: M) ++ (b :: B) ++ S)[P.length]? = some m := by
    simp [List.append_assoc]
  have h2 : (P ++ (m :: M) ++ (b :: B) ++ S)[P.length + M.length + 1]? = some b := by
    have : P ++ (m :: M) ++ (b :: B) ++ S = (P ++ (m :: M)) ++ ((b :: B) ++ S) := by simp
    rw [this, List.getElem?_append_right (by simp; omega)]
    have : P.length + M.length + 1 - (P ++ m :: M).length = 0 := by simp; omega
    rw [this]
    rfl
  have e1 : (P ++ (m :: M) ++ (b :: B) ++ S).set P.length b = P ++ (b :: M) ++ (b :: B) ++ S := by
    simp [List.append_assoc, List.set_append_right]
  have e2 : (P ++ (b :: M) ++ (b :: B) ++ S).set (P.length + M.length + 1) m
      = P ++ (b :: M) ++ (m :: B) ++ S := by
    have : P ++ (b :: M) ++ (b :: B) ++ S = (P ++ (b :: M)) ++ ((b :: B) ++ S) := by simp
    rw [this, List.set_append_right _ _ (by simp; omega)]
    have : P.length + M.length + 1 - (P ++ b :: M).length = 0 := by simp; omega
    rw [this]
    simp
  unfold swapR
  rw [rdR_at hf (by omega) h1, ok_bind, rdR_at (by omega) hl h2, ok_bind,
    wrR_at b hf (by omega) (by simp), ok_bind, e1,
    wrR_at m (by omega) hl (by simp; omega), e2]

theorem rotLoop_spec (B : List α) : ∀ (P M S : List α) (k f0 : Nat), f0 ≤ P.length → M ≠ [] → k < M.length →
    ∃ R k', rotLoop f0 (P.length + M.length + B.length) B.length (P ++ M ++ B ++ S)
                P.length (P.length + M.length) (P.length + k)
            = .ok (P ++ B ++ R ++ S, P.length + B.length, P.length + B.length + k')
          ∧ R.length = M.length ∧ k' < M.length ∧ R.rotate k' = M.rotate k := by
  induction B with
  | nil =>
    intro P M S k f0 _ _ hk
    exact ⟨M, k, by simp [rotLoop], rfl, hk, rfl⟩
  | cons b B ih =>
    intro P M S k f0 hf hM hk
    obtain ⟨m, M', rfl⟩ := List.exists_cons_of_ne_nil hM
    simp only [List.length_cons, rotLoop]
    have hidx : P.length + (M'.length + 1) = P.length + M'.length + 1 := by omega
    rw [hidx, swapR_append P M' B S m b f0 _ hf (by omega), ok_bind]
    -- new segments
    have hl : P ++ (b :: M') ++ (m :: B) ++ S = (P ++ [b]) ++ (M' ++ [m]) ++ B ++ S := by
      simp [List.append_assoc]
    have hM1len : (M' ++ [m]).length = M'.length + 1 := by simp
    have hM1ne : M' ++ [m] ≠ [] := by simp
    -- new tracked offset
    have hk1lt : (if k = 0 then M'.length else k - 1) < (M' ++ [m]).length := by
      simp only [List.length_cons] at hk
      rw [hM1len]; split <;> omega
    have hnr : (if (P.length == P.length + k) = true then P.length + M'.length + 1 else P.length + k)
        = (P ++ [b]).length + (if k = 0 then M'.length else k - 1) := by
      simp only [List.length_append, List.length_cons, List.length_nil, beq_iff_eq]
      by_cases h0 : k = 0
      · simp [h0]; omega
      · have : ¬ P.length = P.length + k := by omega
        simp [this, h0]; omega
    rw [hnr, hl]
    have e1 : P.length + 1 = (P ++ [b]).length := by simp
    have e2 : P.length + M'.length + 1 + 1 = (P ++ [b]).length + (M' ++ [m]).length := by
      simp; omega
    have e3 : P.length + M'.length + 1 + (B.length + 1) = (P ++ [b]).length + (M' ++ [m]).length + B.length := by
      simp; omega
    rw [e1, e2, e3]
    obtain ⟨R, k', heq, hRlen, hk', hrot⟩ :=
      ih (P ++ [b]) (M' ++ [m]) S (if k = 0 then M'.length else k - 1) f0 (by simp; omega) hM1ne hk1lt
    refine ⟨R, k', ?_, by rw [hRlen, hM1len], by rw [hM1len] at hk'; simpa using hk', ?_⟩
    · rw [heq]
      simp [List.append_assoc]
      omega
    · rw [hrot]
      have hrot1 : M' ++ [m] = (m :: M').rotate 1 := by simp
      rw [hrot1, List.rotate_rotate]
      by_cases h0 : k = 0
      · simp only [h0, if_true]
        have : 1 + M'.length = (m :: M').length := by simp; omega
        rw [this, List.rotate_length, List.rotate_zero]
      · simp only [h0, if_false]
        have : 1 + (k - 1) = k := by omega
        rw [this]

theorem rotateF_spec : ∀ (fuel : Nat) (P A B S : List α), A.length + B.length < fuel →
    rotateF fuel (P ++ A ++ B ++ S) P.length (P.length + A.length) (P.length + A.length + B.length)
      = .ok (P ++ B ++ A ++ S, P.length + B.length) := by
  intro fuel
  induction fuel with
  | zero => intro P A B S h; omega
  | succ fuel ih =>
    intro P A B S hf
    unfold rotateF
    by_cases hA : A = []
    · subst hA; simp
    · have hAl : 0 < A.length := List.length_pos_of_ne_nil hA
      have h1 : (P.length == P.length + A.length) = false := by
        rw [beq_eq_false_iff_ne]; omega
      rw [h1]
      by_cases hB : B = []
      · subst hB; simp
      · have hBl : 0 < B.length := List.length_pos_of_ne_nil hB
        have h2 : (P.length + A.length == P.length + A.length + B.length) = false := by
          rw [beq_eq_false_iff_ne]; omega
        rw [h2]
        obtain ⟨R, k', heq, hRlen, hk', hrot⟩ := rotLoop_spec B P A S 0 P.length (Nat.le_refl _) hA hAl
        simp only [Nat.add_zero] at heq
        have hcnt : P.length + A.length + B.length - (P.length + A.length) = B.length := by omega
        simp only [Bool.false_eq_true, if_false, hcnt, heq, ok_bind]
        -- split R at k'
        obtain ⟨X, Y, hR, hX⟩ : ∃ X Y, R = X ++ Y ∧ X.length = k' :=
          ⟨R.take k', R.drop k', (List.take_append_drop k' R).symm, by simp; omega⟩
        subst hR
        have hYX : Y ++ X = A := by
          have := hrot
          rw [List.rotate_zero, ← hX, List.rotate_append_length_eq] at this
          exact this
        have hlen : X.length + Y.length = A.length := by simpa using hRlen
        have hcall := ih (P ++ B) X Y S (by omega)
        have e1 : P ++ B ++ (X ++ Y) ++ S = (P ++ B) ++ X ++ Y ++ S := by simp [List.append_assoc]
        have e2 : P.length + B.length = (P ++ B).length := by simp
        have e3 : P.length + A.length + B.length = (P ++ B).length + X.length + Y.length := by
          simp; omega
        rw [e1, e3, e2, ← hX, hcall]
        simp only [ok_bind, List.append_assoc]
        rw [← List.append_assoc Y, hYX]

end Tetl.C06
