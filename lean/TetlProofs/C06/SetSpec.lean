/-
C06 — on ranges sorted w.r.t. a strict weak order, the two-cursor set algorithms (`diffL`, `interL`, `inclL`,
`unionL`, `symL` of SetDefs.lean) equal the rank-based declarative specs of [set.difference],
[set.intersection], [includes], [set.union], [set.symmetric.difference] (Spec.lean).

Route: `Spec.selectByRank` is made recursive (`selGo`, with the list of already visited elements of `r`);
`selGo` only depends on the visited elements and on `s` through the counts of equivalents
(`setSpec_selGo_congr`); three spec-side lemmas mirror the three branches of the two-cursor loops
(`setSpec_selGo_lt`, `setSpec_selGo_gt`, `setSpec_selGo_equiv`).  Union and symmetric difference are
stable merges of set differences.
-/
import TetlProofs.C06.SetDefs
namespace Tetl.C06
open Tetl
variable {α : Type}

/-- `Spec.selectByRank` as a recursion over `r`, `seen` = the elements of `r` already visited -/
def selGo (lt : α → α → Bool) (keep : Nat → Nat → Bool) (s : List α) : List α → List α → List α
  | _, [] => []
  | seen, x :: t =>
    (if keep (seen.countP (Spec.equiv lt x)) (s.countP (Spec.equiv lt x)) then [x] else []) ++
      selGo lt keep s (seen ++ [x]) t

theorem setSpec_selGo_range (lt : α → α → Bool) (keep : Nat → Nat → Bool) (s : List α) :
    ∀ (t pre : List α),
      (List.range' pre.length t.length).filterMap (fun i =>
        match (pre ++ t)[i]? with
        | some x => if keep (((pre ++ t).take i).countP (Spec.equiv lt x)) (s.countP (Spec.equiv lt x)) then some x else none
        | none => none) = selGo lt keep s pre t := by
  intro t
  induction t with
  | nil => intro pre; simp [selGo]
  | cons x t ih =>
    intro pre
    have ih' := ih (pre ++ [x])
    simp only [List.length_append, List.length_cons, List.length_nil, Nat.zero_add, List.append_assoc,
      List.singleton_append] at ih'
    rw [List.length_cons, List.range'_succ, List.filterMap_cons, selGo, Nat.add_zero ]
    have h1 : (pre ++ x :: t)[pre.length]? = some x := by simp
    have h2 : (pre ++ x :: t).take pre.length = pre := by simp
    simp only [h1, h2]
    rw [ih']
    cases keep (pre.countP (Spec.equiv lt x)) (s.countP (Spec.equiv lt x)) <;> simp

theorem setSpec_selectByRank_eq (lt : α → α → Bool) (keep : Nat → Nat → Bool) (r s : List α) :
    Spec.selectByRank lt keep r s = selGo lt keep s [] r := by
  have := setSpec_selGo_range lt keep s r []
  simp only [List.length_nil, List.nil_append] at this
  unfold Spec.selectByRank
  rw [List.range_eq_range']
  exact this

/-- `selGo` depends on `seen` and `s` only through the decisions `keep (rank + k) count` -/
theorem setSpec_selGo_congr (lt : α → α → Bool) (keep : Nat → Nat → Bool) (s s' : List α) :
    ∀ (r seen seen' : List α),
      (∀ z ∈ r, ∀ k, keep (seen.countP (Spec.equiv lt z) + k) (s.countP (Spec.equiv lt z)) =
        keep (seen'.countP (Spec.equiv lt z) + k) (s'.countP (Spec.equiv lt z))) →
      selGo lt keep s seen r = selGo lt keep s' seen' r := by
  intro r
  induction r with
  | nil => intro _ _ _; rfl
  | cons x t ih =>
    intro seen seen' h
    have h0 := h x List.mem_cons_self 0
    simp only [Nat.add_zero] at h0
    simp only [selGo]
    rw [h0]
    congr 1
    apply ih
    intro z hz k
    have := h z (List.mem_cons_of_mem _ hz) ([x].countP (Spec.equiv lt z) + k)
    simp only [List.countP_append, Nat.add_assoc]
    exact this

theorem setSpec_selGo_nil (lt : α → α → Bool) (keep : Nat → Nat → Bool) (hk0 : ∀ a b, keep a 0 = keep b 0) :
    ∀ (r seen : List α), selGo lt keep [] seen r = if keep 0 0 then r else [] := by
  intro r
  induction r with
  | nil => intro _; simp [selGo]
  | cons x t ih =>
    intro seen
    have h0 := hk0 (seen.countP (Spec.equiv lt x)) 0
    simp only [selGo, List.countP_nil, h0, ih]
    split <;> simp

/-! ### order facts -/

theorem setSpec_head_le {lt : α → α → Bool} (hlt : StrictWeak lt) {y : α} {ys : List α} (hs : Sorted lt (y :: ys)) :
    ∀ w ∈ y :: ys, lt w y = false := by
  intro w hw
  rcases List.mem_cons.mp hw with h | h
  · rw [h]; exact hlt.irrefl y
  · exact (List.pairwise_cons.mp hs).1 w h

theorem setSpec_sorted_tail {lt : α → α → Bool} {y : α} {ys : List α} (hs : Sorted lt (y :: ys)) : Sorted lt ys :=
  (List.pairwise_cons.mp hs).2

/-- `x < y = head s`, `z ~ x`: nothing in `s` is equivalent to `z` -/
theorem setSpec_count_lt {lt : α → α → Bool} (hlt : StrictWeak lt) {x y z : α} {ys : List α}
    (hxy : lt x y = true) (hs : Sorted lt (y :: ys)) (hzx : Spec.equiv lt z x = true) :
    (y :: ys).countP (Spec.equiv lt z) = 0 := by
  rw [List.countP_eq_zero]
  intro w hw hzw
  have h1 : lt x w = true := hlt.lt_of_lt_of_le hxy (setSpec_head_le hlt hs w hw)
  have h2 := hlt.equiv_trans (hlt.equiv_symm hzx) hzw
  simp only [Spec.equiv, Bool.and_eq_true, Bool.not_eq_true'] at h2
  rw [h2.1] at h1; cases h1

/-- `y < x = head r`: `y` is equivalent to nothing in `r` -/
theorem setSpec_equiv_gt {lt : α → α → Bool} (hlt : StrictWeak lt) {x y : α} {xs : List α}
    (hyx : lt y x = true) (hr : Sorted lt (x :: xs)) : ∀ z ∈ x :: xs, Spec.equiv lt z y = false := by
  intro z hz
  have h1 : lt y z = true := hlt.lt_of_lt_of_le hyx (setSpec_head_le hlt hr z hz)
  simp [Spec.equiv, h1]

theorem setSpec_equiv_congr {lt : α → α → Bool} (hlt : StrictWeak lt) {x y : α} (hxy : Spec.equiv lt x y = true) (z : α) :
    Spec.equiv lt z x = Spec.equiv lt z y := by
  rw [Bool.eq_iff_iff]
  constructor
  · intro h; exact hlt.equiv_trans h hxy
  · intro h; exact hlt.equiv_trans h (hlt.equiv_symm hxy)

/-! ### the three spec-side steps -/

theorem setSpec_selGo_lt {lt : α → α → Bool} (hlt : StrictWeak lt) (keep : Nat → Nat → Bool)
    (hk0 : ∀ a b, keep a 0 = keep b 0) {x y : α} (xs ys : List α)
    (hxy : lt x y = true) (hs : Sorted lt (y :: ys)) :
    selGo lt keep (y :: ys) [] (x :: xs) = (if keep 0 0 then [x] else []) ++ selGo lt keep (y :: ys) [] xs := by
  rw [selGo, setSpec_count_lt hlt hxy hs (hlt.equiv_refl x), List.countP_nil, List.nil_append]
  congr 1
  apply setSpec_selGo_congr
  intro z _ k
  cases hzx : Spec.equiv lt z x with
  | true => rw [setSpec_count_lt hlt hxy hs hzx]; exact hk0 _ _
  | false => simp [List.countP_cons, hzx]

theorem setSpec_selGo_gt {lt : α → α → Bool} (hlt : StrictWeak lt) (keep : Nat → Nat → Bool)
    {x y : α} (xs ys : List α) (hyx : lt y x = true) (hr : Sorted lt (x :: xs)) :
    selGo lt keep (y :: ys) [] (x :: xs) = selGo lt keep ys [] (x :: xs) := by
  apply setSpec_selGo_congr
  intro z hz k
  have := setSpec_equiv_gt hlt hyx hr z hz
  simp [this]

theorem setSpec_selGo_equiv {lt : α → α → Bool} (hlt : StrictWeak lt) (keep : Nat → Nat → Bool)
    (hks : ∀ a b, keep (a + 1) (b + 1) = keep a b) {x y : α} (xs ys : List α)
    (hxy : Spec.equiv lt x y = true) :
    selGo lt keep (y :: ys) [] (x :: xs) =
      (if keep 0 (ys.countP (Spec.equiv lt x) + 1) then [x] else []) ++ selGo lt keep ys [] xs := by
  rw [selGo, List.countP_nil, List.nil_append, List.countP_cons, if_pos hxy]
  congr 1
  apply setSpec_selGo_congr
  intro z _ k
  have he := setSpec_equiv_congr hlt hxy z
  cases hzx : Spec.equiv lt z x with
  | true =>
    have hzy : Spec.equiv lt z y = true := by rw [← he]; exact hzx
    simp only [List.countP_cons, List.countP_nil, hzx, hzy, if_true, Nat.zero_add]
    rw [Nat.add_comm 1 k]
    exact hks _ _
  | false =>
    have hzy : Spec.equiv lt z y = false := by rw [← he]; exact hzx
    simp [hzx, hzy]

/-- the case split of the two-cursor loops in terms of `Spec.equiv` -/
theorem setSpec_equiv_of_not {lt : α → α → Bool} {x y : α} (h1 : ¬lt x y = true) (h2 : (!lt y x) = true) :
    Spec.equiv lt x y = true := by
  simp only [Bool.not_eq_true, Bool.not_eq_true'] at h1 h2
  simp [Spec.equiv, h1, h2]

/-! ### set_difference, set_intersection, includes -/

theorem setSpec_diffL_selGo {lt : α → α → Bool} (hlt : StrictWeak lt) : ∀ (r s : List α), Sorted lt r → Sorted lt s →
    diffL lt r s = selGo lt (fun rank n => decide (rank ≥ n)) s [] r := by
  have hk0 : ∀ a b : Nat, (fun rank n => decide (rank ≥ n)) a 0 = (fun rank n => decide (rank ≥ n)) b 0 := by
    intro a b; simp
  have hks : ∀ a b : Nat, (fun rank n => decide (rank ≥ n)) (a + 1) (b + 1) = (fun rank n => decide (rank ≥ n)) a b := by
    intro a b; simp
  intro r s
  induction r, s using diffL.induct lt with
  | case1 s => intro _ _; rw [diffL]; rfl
  | case2 x xs =>
    intro _ _
    rw [diffL, setSpec_selGo_nil lt _ hk0]
    simp
  | case3 x xs y ys hxy ih =>
    intro hr hs
    rw [diffL.eq_3, if_pos hxy, setSpec_selGo_lt hlt _ hk0 xs ys hxy hs, ih (setSpec_sorted_tail hr) hs]
    simp
  | case4 x xs y ys h1 h2 ih =>
    intro hr hs
    rw [diffL.eq_3, if_neg h1, if_pos h2, setSpec_selGo_equiv hlt _ hks xs ys (setSpec_equiv_of_not h1 h2),
      ih (setSpec_sorted_tail hr) (setSpec_sorted_tail hs)]
    simp
  | case5 x xs y ys h1 h2 ih =>
    intro hr hs
    have hyx : lt y x = true := by simpa using h2
    rw [diffL.eq_3, if_neg h1, if_neg h2, setSpec_selGo_gt hlt _ xs ys hyx hr, ih hr (setSpec_sorted_tail hs)]

theorem diffL_eq (lt : α → α → Bool) (hlt : StrictWeak lt) (r s : List α) (hr : Sorted lt r) (hs : Sorted lt s) :
    diffL lt r s = Spec.setDifference lt r s := by
  rw [setSpec_diffL_selGo hlt r s hr hs]
  unfold Spec.setDifference
  rw [setSpec_selectByRank_eq]

theorem setSpec_interL_selGo {lt : α → α → Bool} (hlt : StrictWeak lt) : ∀ (r s : List α), Sorted lt r → Sorted lt s →
    interL lt r s = selGo lt (fun rank n => decide (rank < n)) s [] r := by
  have hk0 : ∀ a b : Nat, (fun rank n => decide (rank < n)) a 0 = (fun rank n => decide (rank < n)) b 0 := by
    intro a b; simp
  have hks : ∀ a b : Nat, (fun rank n => decide (rank < n)) (a + 1) (b + 1) = (fun rank n => decide (rank < n)) a b := by
    intro a b; simp
  intro r s
  induction r, s using interL.induct lt with
  | case1 s => intro _ _; rw [interL]; rfl
  | case2 x xs =>
    intro _ _
    rw [interL, setSpec_selGo_nil lt _ hk0]
    simp
  | case3 x xs y ys hxy ih =>
    intro hr hs
    rw [interL.eq_3, if_pos hxy, setSpec_selGo_lt hlt _ hk0 xs ys hxy hs, ih (setSpec_sorted_tail hr) hs]
    simp
  | case4 x xs y ys h1 h2 ih =>
    intro hr hs
    rw [interL.eq_3, if_neg h1, if_pos h2, setSpec_selGo_equiv hlt _ hks xs ys (setSpec_equiv_of_not h1 h2),
      ih (setSpec_sorted_tail hr) (setSpec_sorted_tail hs)]
    simp
  | case5 x xs y ys h1 h2 ih =>
    intro hr hs
    have hyx : lt y x = true := by simpa using h2
    rw [interL.eq_3, if_neg h1, if_neg h2, setSpec_selGo_gt hlt _ xs ys hyx hr, ih hr (setSpec_sorted_tail hs)]

theorem interL_eq (lt : α → α → Bool) (hlt : StrictWeak lt) (r s : List α) (hr : Sorted lt r) (hs : Sorted lt s) :
    interL lt r s = Spec.setIntersection lt r s := by
  rw [setSpec_interL_selGo hlt r s hr hs]
  unfold Spec.setIntersection
  rw [setSpec_selectByRank_eq]

/-- `includes(r, s)` holds iff the two-cursor difference `s \ r` is empty (no sortedness needed) -/
theorem setSpec_inclL_diffL (lt : α → α → Bool) : ∀ (r s : List α), inclL lt r s = (diffL lt s r).isEmpty := by
  intro r s
  induction r, s using inclL.induct lt with
  | case1 r => rw [inclL, diffL]; rfl
  | case2 y ys => rw [inclL, diffL]; rfl
  | case3 x xs y ys hyx => rw [inclL.eq_3, if_pos hyx, diffL.eq_3, if_pos hyx]; rfl
  | case4 x xs y ys h1 h2 ih =>
    have h3 : ¬lt x y = true := by simpa using h2
    have h4 : (!lt x y) = true := h2
    rw [inclL.eq_3, if_neg h1, if_pos h2, diffL.eq_3, if_neg h1, if_pos h4, ih]
  | case5 x xs y ys h1 h2 ih =>
    rw [inclL.eq_3, if_neg h1, if_neg h2, diffL.eq_3, if_neg h1, if_neg h2, ih]

theorem inclL_eq (lt : α → α → Bool) (hlt : StrictWeak lt) (r s : List α) (hr : Sorted lt r) (hs : Sorted lt s) :
    inclL lt r s = Spec.includes lt r s := by
  unfold Spec.includes
  rw [setSpec_inclL_diffL, diffL_eq lt hlt s r hs hr]

/-! ### set_union, set_symmetric_difference: stable merges of two-cursor differences -/

theorem setSpec_diffL_nil (lt : α → α → Bool) (r : List α) : diffL lt r [] = r := by
  cases r <;> rw [diffL]

theorem setSpec_diffL_mem (lt : α → α → Bool) : ∀ (r s : List α), ∀ z ∈ diffL lt r s, z ∈ r := by
  intro r s
  induction r, s using diffL.induct lt with
  | case1 s => intro z hz; rw [diffL] at hz; exact hz
  | case2 x xs => intro z hz; rw [diffL] at hz; exact hz
  | case3 x xs y ys hxy ih =>
    intro z hz
    rw [diffL.eq_3, if_pos hxy] at hz
    rcases List.mem_cons.mp hz with h | h
    · rw [h]; exact List.mem_cons_self
    · exact List.mem_cons_of_mem _ (ih z h)
  | case4 x xs y ys h1 h2 ih =>
    intro z hz
    rw [diffL.eq_3, if_neg h1, if_pos h2] at hz
    exact List.mem_cons_of_mem _ (ih z hz)
  | case5 x xs y ys h1 h2 ih =>
    intro z hz
    rw [diffL.eq_3, if_neg h1, if_neg h2] at hz
    exact ih z hz

theorem setSpec_merge_cons_left (lt : α → α → Bool) (x : α) (xs D : List α) (h : ∀ d ∈ D, lt d x = false) :
    List.merge (x :: xs) D (fun a b => !lt b a) = x :: List.merge xs D (fun a b => !lt b a) := by
  cases D with
  | nil => simp [List.merge_right]
  | cons d D =>
    rw [List.cons_merge_cons]
    have := h d List.mem_cons_self
    simp [this]

theorem setSpec_merge_cons_right (lt : α → α → Bool) (y : α) (A B : List α) (h : ∀ a ∈ A, lt y a = true) :
    List.merge A (y :: B) (fun a b => !lt b a) = y :: List.merge A B (fun a b => !lt b a) := by
  cases A with
  | nil => simp [List.nil_merge]
  | cons a A =>
    rw [List.cons_merge_cons]
    have := h a List.mem_cons_self
    simp [this]

/-- `x < y = head s`: everything in `s` is `≥ x` -/
theorem setSpec_ge_of_lt {lt : α → α → Bool} (hlt : StrictWeak lt) {x y : α} {ys : List α}
    (hxy : lt x y = true) (hs : Sorted lt (y :: ys)) : ∀ d ∈ y :: ys, lt d x = false := by
  intro d hd
  exact hlt.asymm (hlt.lt_of_lt_of_le hxy (setSpec_head_le hlt hs d hd))

theorem setSpec_unionL_merge {lt : α → α → Bool} (hlt : StrictWeak lt) : ∀ (r s : List α), Sorted lt r → Sorted lt s →
    unionL lt r s = List.merge r (diffL lt s r) (fun a b => !lt b a) := by
  intro r s
  induction r, s using unionL.induct lt with
  | case1 ys => intro _ _; rw [unionL, setSpec_diffL_nil, List.nil_merge]
  | case2 x xs => intro _ _; rw [unionL, diffL, List.merge_right]
  | case3 x xs y ys hyx ih =>
    intro hr hs
    rw [unionL.eq_3, if_pos hyx, diffL.eq_3, if_pos hyx, List.cons_merge_cons, ih hr (setSpec_sorted_tail hs)]
    simp [hyx]
  | case4 x xs y ys h1 h2 ih =>
    intro hr hs
    have h3 : lt y x = false := by simpa using h1
    rw [unionL.eq_3, if_neg h1, if_pos h2, diffL.eq_3, if_neg h1, if_pos h2,
      ih (setSpec_sorted_tail hr) (setSpec_sorted_tail hs)]
    rw [setSpec_merge_cons_left]
    intro d hd
    have hd' : d ∈ y :: ys := List.mem_cons_of_mem _ (setSpec_diffL_mem lt ys xs d hd)
    exact hlt.le_trans h3 (setSpec_head_le hlt hs d hd')
  | case5 x xs y ys h1 h2 ih =>
    intro hr hs
    have hxy : lt x y = true := by simpa using h2
    rw [unionL.eq_3, if_neg h1, if_neg h2, diffL.eq_3, if_neg h1, if_neg h2, ih (setSpec_sorted_tail hr) hs]
    rw [setSpec_merge_cons_left]
    intro d hd
    exact setSpec_ge_of_lt hlt hxy hs d (setSpec_diffL_mem lt (y :: ys) xs d hd)

theorem unionL_eq (lt : α → α → Bool) (hlt : StrictWeak lt) (r s : List α) (hr : Sorted lt r) (hs : Sorted lt s) :
    unionL lt r s = Spec.setUnion lt r s := by
  unfold Spec.setUnion Spec.merge
  rw [setSpec_unionL_merge hlt r s hr hs, diffL_eq lt hlt s r hs hr]

theorem setSpec_symL_merge {lt : α → α → Bool} (hlt : StrictWeak lt) : ∀ (r s : List α), Sorted lt r → Sorted lt s →
    symL lt r s = List.merge (diffL lt r s) (diffL lt s r) (fun a b => !lt b a) := by
  intro r s
  induction r, s using symL.induct lt with
  | case1 ys => intro _ _; rw [symL, setSpec_diffL_nil, diffL, List.nil_merge]
  | case2 x xs => intro _ _; rw [symL, diffL, diffL, List.merge_right]
  | case3 x xs y ys hxy ih =>
    intro hr hs
    have hyx : ¬lt y x = true := by rw [hlt.asymm hxy]; simp
    have h2 : ¬(!lt x y) = true := by simp [hxy]
    rw [symL.eq_3, if_pos hxy, diffL.eq_3, if_pos hxy, diffL.eq_3, if_neg hyx, if_neg h2,
      ih (setSpec_sorted_tail hr) hs]
    rw [setSpec_merge_cons_left]
    intro d hd
    exact setSpec_ge_of_lt hlt hxy hs d (setSpec_diffL_mem lt (y :: ys) xs d hd)
  | case4 x xs y ys h1 hyx ih =>
    intro hr hs
    have h2 : ¬(!lt y x) = true := by simp [hyx]
    rw [symL.eq_3, if_neg h1, if_pos hyx, diffL.eq_3, if_neg h1, if_neg h2, diffL.eq_3, if_pos hyx,
      ih hr (setSpec_sorted_tail hs)]
    rw [setSpec_merge_cons_right]
    intro a ha
    have ha' := setSpec_diffL_mem lt (x :: xs) ys a ha
    exact hlt.lt_of_lt_of_le hyx (setSpec_head_le hlt hr a ha')
  | case5 x xs y ys h1 h2 ih =>
    intro hr hs
    have h3 : (!lt y x) = true := by simpa using h2
    have h4 : (!lt x y) = true := by simpa using h1
    rw [symL.eq_3, if_neg h1, if_neg h2, diffL.eq_3, if_neg h1, if_pos h3, diffL.eq_3, if_neg h2, if_pos h4,
      ih (setSpec_sorted_tail hr) (setSpec_sorted_tail hs)]

theorem symL_eq (lt : α → α → Bool) (hlt : StrictWeak lt) (r s : List α) (hr : Sorted lt r) (hs : Sorted lt s) :
    symL lt r s = Spec.setSymmetricDifference lt r s := by
  unfold Spec.setSymmetricDifference Spec.merge
  rw [setSpec_symL_merge hlt r s hr hs, diffL_eq lt hlt r s hr hs, diffL_eq lt hlt s r hs hr]

/-- the hypotheses are satisfiable -/
example : StrictWeak (fun x y : Nat => decide (x < y)) ∧ Sorted (fun x y : Nat => decide (x < y)) [1, 2, 2] :=
  ⟨strictWeak_nat, by unfold Sorted; decide⟩

end Tetl.C06
