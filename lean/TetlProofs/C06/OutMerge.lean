/-
C06 — output-iterator bridges for merge and the four set operations:
`Out.merge`, `Out.setDifference`, `Out.setIntersection`, `Out.setSymmetricDifference`, `Out.setUnion`
(Tetl/C06/Model/Out.lean) write the value stream of the stream model of the same name (Model/Sort.lean) to
consecutive positions of the destination, starting at `dlo`.
-/
import TetlProofs.C06.OutBase
namespace Tetl.C06
open Tetl
variable {α : Type}

/-- destructure `let r ← m; .ok (x :: r)` -/
theorem outMerge_bindCons {x : α} {m : Except Err (List α)} {ws : List α}
    (h : (m >>= fun r => Except.ok (x :: r)) = .ok ws) : ∃ r, m = .ok r ∧ ws = x :: r := by
  cases m with
  | error e => simp at h
  | ok r => simp only [ok_bind] at h; injection h with h; exact ⟨r, rfl, h.symm⟩

/-- one write followed by a continuation that writes the rest of the stream -/
theorem outMerge_step (dlo dhi : Nat) (x : α) (r d : List α) (o : Nat)
    (k : List α → Except Err (List α × Nat)) (hk : ∀ d', k d' = writeAll dlo dhi r d' (o + 1)) :
    (wrR d dlo dhi o x >>= k) = writeAll dlo dhi (x :: r) d o := by
  rw [writeAll_cons]
  cases hw : wrR d dlo dhi o x with
  | error e => rfl
  | ok d' => simp only [ok_bind]; exact hk d'

/-! ### merge -/
theorem outMerge_loop (lt : α → α → Bool) (a : List α) (f l : Nat) (b : List α) (g h dlo dhi : Nat) :
    ∀ (fuel i j : Nat) (ws d : List α) (o : Nat), mergeLoop lt a f l b g h fuel i j = .ok ws →
      Out.mergeLoop lt a f l b g h dlo dhi fuel i j d o = writeAll dlo dhi ws d o := by
  intro fuel
  induction fuel with
  | zero => intro i j ws d o hs; simp [mergeLoop] at hs
  | succ fuel ih =>
    intro i j ws d o hs
    unfold mergeLoop at hs
    unfold Out.mergeLoop
    by_cases hi : (i != l) = true
    · rw [if_pos hi] at hs ⊢
      by_cases hj : (j == h) = true
      · rw [if_pos hj] at hs ⊢
        exact outCopyLoop_bridge a f l dlo dhi _ _ ws d o hs
      · rw [if_neg hj] at hs ⊢
        cases hy : rdR b g h j with
        | error e => rw [hy] at hs; simp at hs
        | ok y =>
          rw [hy, ok_bind] at hs
          rw [ok_bind]
          cases hx : rdR a f l i with
          | error e => rw [hx] at hs; simp at hs
          | ok x =>
            rw [hx, ok_bind] at hs
            rw [ok_bind]
            by_cases hlt : lt y x = true
            · rw [if_pos hlt] at hs ⊢
              obtain ⟨r, hr, rfl⟩ := outMerge_bindCons hs
              exact outMerge_step dlo dhi y r d o _ (fun d' => ih i (j + 1) r d' (o + 1) hr)
            · rw [if_neg hlt] at hs ⊢
              obtain ⟨r, hr, rfl⟩ := outMerge_bindCons hs
              exact outMerge_step dlo dhi x r d o _ (fun d' => ih (i + 1) j r d' (o + 1) hr)
    · rw [if_neg hi] at hs ⊢
      exact outCopyLoop_bridge b g h dlo dhi _ _ ws d o hs

theorem outMerge_bridge (lt : α → α → Bool) (a : List α) (f l : Nat) (b : List α) (g h : Nat) (d : List α) (dlo dhi : Nat)
    (ws : List α) (hs : merge lt a f l b g h = .ok ws) : Out.merge lt a f l b g h d dlo dhi = writeAll dlo dhi ws d dlo :=
  outMerge_loop lt a f l b g h dlo dhi _ f g ws d dlo hs

/-! ### set_difference -/
theorem outMerge_setDifferenceLoop (lt : α → α → Bool) (a : List α) (f l : Nat) (b : List α) (g h dlo dhi : Nat) :
    ∀ (fuel i j : Nat) (ws d : List α) (o : Nat), setDifferenceLoop lt a f l b g h fuel i j = .ok ws →
      Out.setDifferenceLoop lt a f l b g h dlo dhi fuel i j d o = writeAll dlo dhi ws d o := by
  intro fuel
  induction fuel with
  | zero => intro i j ws d o hs; simp [setDifferenceLoop] at hs
  | succ fuel ih =>
    intro i j ws d o hs
    unfold setDifferenceLoop at hs
    unfold Out.setDifferenceLoop
    by_cases hi : (i != l) = true
    · rw [if_pos hi] at hs ⊢
      by_cases hj : (j == h) = true
      · rw [if_pos hj] at hs ⊢
        exact outCopyLoop_bridge a f l dlo dhi _ _ ws d o hs
      · rw [if_neg hj] at hs ⊢
        cases hx : rdR a f l i with
        | error e => rw [hx] at hs; simp at hs
        | ok x =>
          rw [hx, ok_bind] at hs
          rw [ok_bind]
          cases hy : rdR b g h j with
          | error e => rw [hy] at hs; simp at hs
          | ok y =>
            rw [hy, ok_bind] at hs
            rw [ok_bind]
            by_cases hlt : lt x y = true
            · rw [if_pos hlt] at hs ⊢
              obtain ⟨r, hr, rfl⟩ := outMerge_bindCons hs
              exact outMerge_step dlo dhi x r d o _ (fun d' => ih (i + 1) j r d' (o + 1) hr)
            · rw [if_neg hlt] at hs ⊢
              by_cases hyx : (!lt y x) = true
              · rw [if_pos hyx] at hs ⊢
                exact ih (i + 1) (j + 1) ws d o hs
              · rw [if_neg hyx] at hs ⊢
                exact ih i (j + 1) ws d o hs
    · rw [if_neg hi] at hs ⊢
      injection hs with hs
      subst hs
      rfl

theorem outSetDifference_bridge (lt : α → α → Bool) (a : List α) (f l : Nat) (b : List α) (g h : Nat) (d : List α) (dlo dhi : Nat)
    (ws : List α) (hs : setDifference lt a f l b g h = .ok ws) : Out.setDifference lt a f l b g h d dlo dhi = writeAll dlo dhi ws d dlo :=
  outMerge_setDifferenceLoop lt a f l b g h dlo dhi _ f g ws d dlo hs

/-! ### set_intersection -/
theorem outMerge_setIntersectionLoop (lt : α → α → Bool) (a : List α) (f l : Nat) (b : List α) (g h dlo dhi : Nat) :
    ∀ (fuel i j : Nat) (ws d : List α) (o : Nat), setIntersectionLoop lt a f l b g h fuel i j = .ok ws →
      Out.setIntersectionLoop lt a f l b g h dlo dhi fuel i j d o = writeAll dlo dhi ws d o := by
  intro fuel
  induction fuel with
  | zero => intro i j ws d o hs; simp [setIntersectionLoop] at hs
  | succ fuel ih =>
    intro i j ws d o hs
    unfold setIntersectionLoop at hs
    unfold Out.setIntersectionLoop
    by_cases hi : (i != l && j != h) = true
    · rw [if_pos hi] at hs ⊢
      cases hx : rdR a f l i with
      | error e => rw [hx] at hs; simp at hs
      | ok x =>
        rw [hx, ok_bind] at hs
        rw [ok_bind]
        cases hy : rdR b g h j with
        | error e => rw [hy] at hs; simp at hs
        | ok y =>
          rw [hy, ok_bind] at hs
          rw [ok_bind]
          by_cases hlt : lt x y = true
          · rw [if_pos hlt] at hs ⊢
            exact ih (i + 1) j ws d o hs
          · rw [if_neg hlt] at hs ⊢
            by_cases hyx : (!lt y x) = true
            · rw [if_pos hyx] at hs ⊢
              obtain ⟨r, hr, rfl⟩ := outMerge_bindCons hs
              exact outMerge_step dlo dhi x r d o _ (fun d' => ih (i + 1) (j + 1) r d' (o + 1) hr)
            · rw [if_neg hyx] at hs ⊢
              exact ih i (j + 1) ws d o hs
    · rw [if_neg hi] at hs ⊢
      injection hs with hs
      subst hs
      rfl

theorem outSetIntersection_bridge (lt : α → α → Bool) (a : List α) (f l : Nat) (b : List α) (g h : Nat) (d : List α) (dlo dhi : Nat)
    (ws : List α) (hs : setIntersection lt a f l b g h = .ok ws) : Out.setIntersection lt a f l b g h d dlo dhi = writeAll dlo dhi ws d dlo :=
  outMerge_setIntersectionLoop lt a f l b g h dlo dhi _ f g ws d dlo hs

/-! ### set_symmetric_difference -/
theorem outMerge_setSymDiffLoop (lt : α → α → Bool) (a : List α) (f l : Nat) (b : List α) (g h dlo dhi : Nat) :
    ∀ (fuel i j : Nat) (ws d : List α) (o : Nat), setSymDiffLoop lt a f l b g h fuel i j = .ok ws →
      Out.setSymDiffLoop lt a f l b g h dlo dhi fuel i j d o = writeAll dlo dhi ws d o := by
  intro fuel
  induction fuel with
  | zero => intro i j ws d o hs; simp [setSymDiffLoop] at hs
  | succ fuel ih =>
    intro i j ws d o hs
    unfold setSymDiffLoop at hs
    unfold Out.setSymDiffLoop
    by_cases hi : (i != l) = true
    · rw [if_pos hi] at hs ⊢
      by_cases hj : (j == h) = true
      · rw [if_pos hj] at hs ⊢
        exact outCopyLoop_bridge a f l dlo dhi _ _ ws d o hs
      · rw [if_neg hj] at hs ⊢
        cases hx : rdR a f l i with
        | error e => rw [hx] at hs; simp at hs
        | ok x =>
          rw [hx, ok_bind] at hs
          rw [ok_bind]
          cases hy : rdR b g h j with
          | error e => rw [hy] at hs; simp at hs
          | ok y =>
            rw [hy, ok_bind] at hs
            rw [ok_bind]
            by_cases hlt : lt x y = true
            · rw [if_pos hlt] at hs ⊢
              obtain ⟨r, hr, rfl⟩ := outMerge_bindCons hs
              exact outMerge_step dlo dhi x r d o _ (fun d' => ih (i + 1) j r d' (o + 1) hr)
            · rw [if_neg hlt] at hs ⊢
              by_cases hyx : lt y x = true
              · rw [if_pos hyx] at hs ⊢
                obtain ⟨r, hr, rfl⟩ := outMerge_bindCons hs
                exact outMerge_step dlo dhi y r d o _ (fun d' => ih i (j + 1) r d' (o + 1) hr)
              · rw [if_neg hyx] at hs ⊢
                exact ih (i + 1) (j + 1) ws d o hs
    · rw [if_neg hi] at hs ⊢
      exact outCopyLoop_bridge b g h dlo dhi _ _ ws d o hs

theorem outSetSymmetricDifference_bridge (lt : α → α → Bool) (a : List α) (f l : Nat) (b : List α) (g h : Nat) (d : List α) (dlo dhi : Nat)
    (ws : List α) (hs : setSymmetricDifference lt a f l b g h = .ok ws) :
    Out.setSymmetricDifference lt a f l b g h d dlo dhi = writeAll dlo dhi ws d dlo :=
  outMerge_setSymDiffLoop lt a f l b g h dlo dhi _ f g ws d dlo hs

/-! ### set_union -/
theorem outMerge_setUnionLoop (lt : α → α → Bool) (a : List α) (f l : Nat) (b : List α) (g h dlo dhi : Nat) :
    ∀ (fuel i j : Nat) (ws d : List α) (o : Nat), setUnionLoop lt a f l b g h fuel i j = .ok ws →
      Out.setUnionLoop lt a f l b g h dlo dhi fuel i j d o = writeAll dlo dhi ws d o := by
  intro fuel
  induction fuel with
  | zero => intro i j ws d o hs; simp [setUnionLoop] at hs
  | succ fuel ih =>
    intro i j ws d o hs
    unfold setUnionLoop at hs
    unfold Out.setUnionLoop
    by_cases hi : (i != l) = true
    · rw [if_pos hi] at hs ⊢
      by_cases hj : (j == h) = true
      · rw [if_pos hj] at hs ⊢
        exact outCopyLoop_bridge a f l dlo dhi _ _ ws d o hs
      · rw [if_neg hj] at hs ⊢
        cases hy : rdR b g h j with
        | error e => rw [hy] at hs; simp at hs
        | ok y =>
          rw [hy, ok_bind] at hs
          rw [ok_bind]
          cases hx : rdR a f l i with
          | error e => rw [hx] at hs; simp at hs
          | ok x =>
            rw [hx, ok_bind] at hs
            rw [ok_bind]
            by_cases hlt : lt y x = true
            · rw [if_pos hlt] at hs ⊢
              obtain ⟨r, hr, rfl⟩ := outMerge_bindCons hs
              exact outMerge_step dlo dhi y r d o _ (fun d' => ih i (j + 1) r d' (o + 1) hr)
            · rw [if_neg hlt] at hs ⊢
              obtain ⟨r, hr, rfl⟩ := outMerge_bindCons hs
              exact outMerge_step dlo dhi x r d o _
                (fun d' => ih (i + 1) (if (!lt x y) = true then j + 1 else j) r d' (o + 1) hr)
    · rw [if_neg hi] at hs ⊢
      exact outCopyLoop_bridge b g h dlo dhi _ _ ws d o hs

theorem outSetUnion_bridge (lt : α → α → Bool) (a : List α) (f l : Nat) (b : List α) (g h : Nat) (d : List α) (dlo dhi : Nat)
    (ws : List α) (hs : setUnion lt a f l b g h = .ok ws) : Out.setUnion lt a f l b g h d dlo dhi = writeAll dlo dhi ws d dlo :=
  outMerge_setUnionLoop lt a f l b g h dlo dhi _ f g ws d dlo hs

end Tetl.C06
