/-
C06 — insertion_sort.hpp (= stable_sort): the inner shifting loop inserts the key behind the last element
(seen from the back) that is not greater; the result is the unique stable sorted permutation, i.e. the spec
`Spec.stableSort` (= `List.mergeSort`).  Inner-loop invariant: the storage is `P ++ X ++ h :: Y` with `X`
the part of the sorted prefix not yet examined, `h` the hole, `Y` the already shifted elements (and the rest).
-/
import TetlProofs.C06.Remove
import TetlProofs.C06.Order
namespace Tetl.C06
open Tetl
variable {α : Type}

/-- insertion from the back, on the reversed sorted prefix -/
def insertionRev (lt : α → α → Bool) (key : α) : List α → List α
  | [] => [key]
  | y :: t => if lt key y then y :: insertionRev lt key t else key :: y :: t

/-- insertion of `key` into `A` from the back -/
def insertionIns (lt : α → α → Bool) (key : α) (A : List α) : List α := (insertionRev lt key A.reverse).reverse

/-! ### the loops -/

theorem insertion_inner (lt : α → α → Bool) (key : α) (P : List α) (l0 : Nat) :
    ∀ (Xr : List α) (n : Nat) (h : α) (Y : List α), Xr.length ≤ n → P.length + Xr.length + 1 ≤ l0 →
    ∃ a j, insertInner lt key P.length l0 n (P ++ Xr.reverse ++ h :: Y) (P.length + Xr.length) = .ok (a, j)
      ∧ wrR a P.length l0 j key = .ok (P ++ (insertionRev lt key Xr).reverse ++ Y) := by
  intro Xr
  induction Xr with
  | nil =>
    intro n h Y _ hl
    refine ⟨P ++ h :: Y, P.length, ?_, ?_⟩
    · cases n <;> simp [insertInner]
    · simp only [insertionRev, List.reverse_cons, List.reverse_nil, List.nil_append, List.append_assoc,
        List.singleton_append]
      exact wrR_mid P Y h key _ _ (Nat.le_refl _) (by simp at hl; omega)
  | cons y t ih =>
    intro n h Y hn hl
    cases n with
    | zero => simp at hn
    | succ n =>
      simp only [List.length_cons] at hn hl ⊢
      have hj : (P.length + (t.length + 1) != P.length) = true := by simp
      have e1 : P ++ (y :: t).reverse ++ h :: Y = (P ++ t.reverse) ++ y :: (h :: Y) := by simp
      have e2 : P.length + (t.length + 1) - 1 = (P ++ t.reverse).length := by simp
      have hrd : rdR ((P ++ t.reverse) ++ y :: (h :: Y)) P.length l0 (P ++ t.reverse).length = .ok y :=
        rdR_mid _ _ y _ _ (by simp) (by simp; omega)
      by_cases hk : lt key y = true
      · have e3 : (P ++ t.reverse) ++ y :: (h :: Y) = (P ++ t.reverse ++ [y]) ++ h :: Y := by simp
        have e4 : P.length + (t.length + 1) = (P ++ t.reverse ++ [y]).length := by simp
        have hwr : wrR ((P ++ t.reverse) ++ y :: (h :: Y)) P.length l0 (P.length + (t.length + 1)) y
            = .ok (P ++ t.reverse ++ y :: (y :: Y)) := by
          rw [e3, e4, wrR_mid _ _ h y _ _ (by simp) (by simp; omega)]
          simp
        obtain ⟨a, j, h1, h2⟩ := ih n y (y :: Y) (by omega) (by omega)
        refine ⟨a, j, ?_, ?_⟩
        · unfold insertInner
          rw [if_pos hj, e1, e2, hrd, ok_bind, if_pos hk, ← e2, hwr, ok_bind, e2]
          simp only [List.length_append, List.length_reverse]
          exact h1
        · rw [h2]; simp [insertionRev, hk]
      · refine ⟨P ++ (y :: t).reverse ++ h :: Y, P.length + (t.length + 1), ?_, ?_⟩
        · unfold insertInner
          rw [if_pos hj, e1, e2, hrd, ok_bind, if_neg hk]
        · have e5 : P.length + (t.length + 1) = (P ++ (y :: t).reverse).length := by simp
          rw [e5, wrR_mid _ _ h key _ _ (by simp) (by simp; omega)]
          simp [insertionRev, hk]

theorem insertionIns_length (lt : α → α → Bool) (key : α) (A : List α) :
    (insertionIns lt key A).length = A.length + 1 := by
  have : ∀ L : List α, (insertionRev lt key L).length = L.length + 1 := by
    intro L
    induction L with
    | nil => simp [insertionRev]
    | cons y t ih => unfold insertionRev; split <;> simp [ih]
  simp [insertionIns, this]

theorem insertion_loop (lt : α → α → Bool) (P S : List α) (l0 : Nat) :
    ∀ (T D : List α), P.length + D.length + T.length ≤ l0 →
    insertionLoop lt P.length l0 T.length (P ++ D ++ T ++ S) (P.length + D.length)
      = .ok (P ++ T.foldl (fun acc x => insertionIns lt x acc) D ++ S) := by
  intro T
  induction T with
  | nil => intro D _; simp [insertionLoop]
  | cons x T ih =>
    intro D hl
    simp only [List.length_cons] at hl ⊢
    unfold insertionLoop
    have e1 : P ++ D ++ (x :: T) ++ S = (P ++ D) ++ x :: (T ++ S) := by simp
    have e2 : P.length + D.length = (P ++ D).length := by simp
    obtain ⟨a, j, h1, h2⟩ := insertion_inner lt x P l0 D.reverse D.length x (T ++ S) (by simp) (by simp; omega)
    rw [List.reverse_reverse, List.length_reverse] at h1
    rw [e1, e2, rdR_mid _ _ x _ _ (by simp) (by simp; omega), ok_bind, ← e2, Nat.add_sub_cancel_left, h1, ok_bind]
    simp only []
    rw [h2, ok_bind]
    have := ih (insertionIns lt x D) (by rw [insertionIns_length]; omega)
    rw [insertionIns_length] at this
    simp only [List.foldl_cons]
    rw [← this]
    congr 1
    simp [insertionIns]

/-! ### the pure part: repeated insertion from the back is the stable sort -/

theorem insertionRev_perm (lt : α → α → Bool) (key : α) : ∀ L : List α, (insertionRev lt key L).Perm (key :: L)
  | [] => by simp [insertionRev]
  | y :: t => by
    unfold insertionRev
    split
    · exact ((insertionRev_perm lt key t).cons y).trans (List.Perm.swap key y t)
    · exact List.Perm.refl _

theorem insertionRev_sorted {lt : α → α → Bool} (hlt : StrictWeak lt) (key : α) : ∀ L : List α,
    L.Pairwise (fun x y => lt x y = false) → (insertionRev lt key L).Pairwise (fun x y => lt x y = false)
  | [], _ => by simp [insertionRev]
  | y :: t, hs => by
    have hs' := List.pairwise_cons.mp hs
    unfold insertionRev
    by_cases hk : lt key y = true
    · rw [if_pos hk]
      refine List.pairwise_cons.mpr ⟨?_, insertionRev_sorted hlt key t hs'.2⟩
      intro z hz
      rcases List.mem_cons.mp ((insertionRev_perm lt key t).subset hz) with rfl | hz
      · exact hlt.asymm hk
      · exact hs'.1 z hz
    · rw [if_neg hk]
      have hk' : lt key y = false := by simpa using hk
      refine List.pairwise_cons.mpr ⟨?_, hs⟩
      intro z hz
      rcases List.mem_cons.mp hz with rfl | hz
      · exact hk'
      · exact hlt.le_trans (hs'.1 z hz) hk'

theorem insertionRev_filter {lt : α → α → Bool} (hlt : StrictWeak lt) (key z : α) : ∀ L : List α,
    (insertionRev lt key L).filter (Spec.equiv lt z) = (key :: L).filter (Spec.equiv lt z)
  | [] => by simp [insertionRev]
  | y :: t => by
    unfold insertionRev
    by_cases hk : lt key y = true
    · rw [if_pos hk, List.filter_cons, insertionRev_filter hlt key z t]
      by_cases hy : Spec.equiv lt z y = true
      · have hkey : ¬ Spec.equiv lt z key = true := by
          intro hzk
          have := hlt.equiv_trans (hlt.equiv_symm hzk) hy
          simp [Spec.equiv, hk] at this
        simp [hy, hkey]
      · simp [List.filter_cons, hy]
    · rw [if_neg hk]

theorem insertionIns_perm (lt : α → α → Bool) (key : α) (A : List α) : (insertionIns lt key A).Perm (A ++ [key]) := by
  unfold insertionIns
  refine (List.reverse_perm _).trans ((insertionRev_perm lt key A.reverse).trans ?_)
  exact (List.Perm.cons key (List.reverse_perm A)).trans (List.perm_append_singleton key A).symm

theorem insertionIns_sorted {lt : α → α → Bool} (hlt : StrictWeak lt) (key : α) (A : List α) (hs : Sorted lt A) :
    Sorted lt (insertionIns lt key A) := by
  unfold Sorted insertionIns at *
  rw [List.pairwise_reverse]
  apply insertionRev_sorted hlt
  rw [List.pairwise_reverse]
  exact hs

theorem insertionIns_filter {lt : α → α → Bool} (hlt : StrictWeak lt) (key z : α) (A : List α) :
    (insertionIns lt key A).filter (Spec.equiv lt z) = (A ++ [key]).filter (Spec.equiv lt z) := by
  unfold insertionIns
  rw [List.filter_reverse, insertionRev_filter hlt, ← List.filter_reverse]
  simp

theorem insertion_fold {lt : α → α → Bool} (hlt : StrictWeak lt) : ∀ (T D : List α), Sorted lt D →
    (T.foldl (fun acc x => insertionIns lt x acc) D).Perm (D ++ T)
    ∧ Sorted lt (T.foldl (fun acc x => insertionIns lt x acc) D)
    ∧ ∀ z, (T.foldl (fun acc x => insertionIns lt x acc) D).filter (Spec.equiv lt z) = (D ++ T).filter (Spec.equiv lt z)
  | [], D, hs => by simp [hs]
  | x :: T, D, hs => by
    obtain ⟨h1, h2, h3⟩ := insertion_fold hlt T (insertionIns lt x D) (insertionIns_sorted hlt x D hs)
    simp only [List.foldl_cons]
    refine ⟨?_, h2, ?_⟩
    · refine h1.trans ?_
      have := (insertionIns_perm lt x D).append_right T
      simpa using this
    · intro z
      rw [h3 z, List.filter_append, insertionIns_filter hlt, ← List.filter_append]
      simp

/-- insertion_sort / stable_sort: the stable sorted permutation (= List.mergeSort), context untouched -/
theorem insertionSort_spec (lt : α → α → Bool) (hlt : StrictWeak lt) (P R S : List α) :
    insertionSort lt (P ++ R ++ S) P.length (P.length + R.length) = .ok (P ++ Spec.stableSort lt R ++ S) := by
  unfold insertionSort
  have h := insertion_loop lt P S (P.length + R.length) R [] (by simp)
  simp only [List.append_nil, List.length_nil, Nat.add_zero] at h
  rw [Nat.add_sub_cancel_left, h]
  obtain ⟨h1, h2, h3⟩ := insertion_fold hlt R [] (by simp [Sorted])
  rw [stableSort_unique hlt _ R (by simpa using h1) h2 (by simpa using h3)]

example : StrictWeak (fun x y : Nat => decide (x < y)) := strictWeak_nat

example : insertionSort (fun x y : Nat => decide (x / 10 < y / 10)) [99, 31, 12, 30, 11, 0] 1 5
    = .ok [99, 12, 11, 31, 30, 0] := by decide

end Tetl.C06
