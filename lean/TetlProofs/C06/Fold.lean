/-
C06 — loop lemmas for the read-only single-range loops (find / count / visit / copy_if / ...).
Each loop started at position `i` of the range with `n` iterations left (`i + n = |R|`) returns
`.ok` of the declarative result on the suffix `R.drop i`.
-/
import TetlProofs.C06.Lemmas
namespace Tetl.C06
open Tetl
variable {α : Type}

theorem findLoop_spec (q : α → Bool) (P R S : List α) : ∀ (n i : Nat), i + n = R.length →
    findLoop q (P ++ R ++ S) P.length (P.length + R.length) n (P.length + i)
      = .ok (P.length + i + Spec.findIdx q (R.drop i)) := by
  intro n
  induction n with
  | zero =>
    intro i h
    have : R.drop i = [] := List.drop_eq_nil_of_le (by omega)
    simp [findLoop, Spec.findIdx, this]
  | succ n ih =>
    intro i h
    have hi : i < R.length := by omega
    simp only [findLoop, rdR_ctx P R S i hi, ok_bind, drop_eq_cons hi, Spec.findIdx, List.findIdx_cons]
    by_cases hq : q R[i]
    · simp [hq]
    · rw [show P.length + i + 1 = P.length + (i + 1) from by omega, ih (i + 1) (by omega)]
      simp [hq, Spec.findIdx]
      omega

theorem countLoop_spec (q : α → Bool) (P R S : List α) : ∀ (n i r : Nat), i + n = R.length →
    countLoop q (P ++ R ++ S) P.length (P.length + R.length) n (P.length + i) r
      = .ok (r + Spec.count q (R.drop i)) := by
  intro n
  induction n with
  | zero =>
    intro i r h
    have : R.drop i = [] := List.drop_eq_nil_of_le (by omega)
    simp [countLoop, Spec.count, this]
  | succ n ih =>
    intro i r h
    have hi : i < R.length := by omega
    simp only [countLoop, rdR_ctx P R S i hi, ok_bind, drop_eq_cons hi, Spec.count, List.countP_cons]
    rw [show P.length + i + 1 = P.length + (i + 1) from by omega, ih (i + 1) _ (by omega)]
    by_cases hq : q R[i] <;> simp [hq, Spec.count] <;> omega

theorem visitLoop_spec (P R S : List α) : ∀ (n i : Nat), i + n ≤ R.length →
    visitLoop (P ++ R ++ S) P.length (P.length + R.length) n (P.length + i) = .ok ((R.drop i).take n) := by
  intro n
  induction n with
  | zero => intro i _; simp [visitLoop]
  | succ n ih =>
    intro i h
    have hi : i < R.length := by omega
    simp only [visitLoop, rdR_ctx P R S i hi, ok_bind, drop_eq_cons hi, List.take_succ_cons]
    rw [show P.length + i + 1 = P.length + (i + 1) from by omega, ih (i + 1) (by omega)]
    rfl

theorem copyIfLoop_spec (p : α → Bool) (P R S : List α) : ∀ (n i : Nat), i + n = R.length →
    copyIfLoop p (P ++ R ++ S) P.length (P.length + R.length) n (P.length + i) = .ok ((R.drop i).filter p) := by
  intro n
  induction n with
  | zero =>
    intro i h
    have : R.drop i = [] := List.drop_eq_nil_of_le (by omega)
    simp [copyIfLoop, this]
  | succ n ih =>
    intro i h
    have hi : i < R.length := by omega
    simp only [copyIfLoop, rdR_ctx P R S i hi, ok_bind, drop_eq_cons hi, List.filter_cons]
    rw [show P.length + i + 1 = P.length + (i + 1) from by omega, ih (i + 1) (by omega)]
    by_cases hq : p R[i] <;> simp [hq]

theorem partitionCopyLoop_spec (p : α → Bool) (P R S : List α) : ∀ (n i : Nat), i + n = R.length →
    partitionCopyLoop p (P ++ R ++ S) P.length (P.length + R.length) n (P.length + i)
      = .ok ((R.drop i).filter p, (R.drop i).filter (fun x => !p x)) := by
  intro n
  induction n with
  | zero =>
    intro i h
    have : R.drop i = [] := List.drop_eq_nil_of_le (by omega)
    simp [partitionCopyLoop, this]
  | succ n ih =>
    intro i h
    have hi : i < R.length := by omega
    simp only [partitionCopyLoop, rdR_ctx P R S i hi, ok_bind, drop_eq_cons hi, List.filter_cons]
    rw [show P.length + i + 1 = P.length + (i + 1) from by omega, ih (i + 1) (by omega)]
    by_cases hq : p R[i] <;> simp [hq]

theorem reverseCopyLoop_spec (P R S : List α) : ∀ (n : Nat), n ≤ R.length →
    reverseCopyLoop (P ++ R ++ S) P.length (P.length + R.length) n (P.length + n) = .ok ((R.take n).reverse) := by
  intro n
  induction n with
  | zero => intro _; simp [reverseCopyLoop]
  | succ n ih =>
    intro h
    have hi : n < R.length := by omega
    have h0 : (P.length + (n + 1) == 0) = false := by simp
    simp only [reverseCopyLoop, h0, Bool.false_eq_true, if_false,
      show P.length + (n + 1) - 1 = P.length + n from by omega, rdR_ctx P R S n hi, ok_bind, ih (by omega)]
    rw [List.take_succ_eq_append_getElem hi, List.reverse_append]
    rfl

theorem accLoop_spec {β : Type} (op : β → α → β) (P R S : List α) : ∀ (n i : Nat) (acc : β), i + n = R.length →
    accLoop op (P ++ R ++ S) P.length (P.length + R.length) n (P.length + i) acc = .ok ((R.drop i).foldl op acc) := by
  intro n
  induction n with
  | zero =>
    intro i acc h
    have : R.drop i = [] := List.drop_eq_nil_of_le (by omega)
    simp [accLoop, this]
  | succ n ih =>
    intro i acc h
    have hi : i < R.length := by omega
    simp only [accLoop, rdR_ctx P R S i hi, ok_bind, drop_eq_cons hi, List.foldl_cons]
    rw [show P.length + i + 1 = P.length + (i + 1) from by omega, ih (i + 1) _ (by omega)]

/-- `findIdx` reaches the end exactly when no element satisfies the predicate -/
theorem findIdx_eq_length_iff (q : α → Bool) (l : List α) : l.findIdx q = l.length ↔ ∀ x ∈ l, q x = false := by
  induction l with
  | nil => simp
  | cons x xs ih =>
    simp only [List.findIdx_cons, List.length_cons, List.mem_cons, forall_eq_or_imp]
    by_cases hq : q x
    · simp [hq]
    · simp [hq, ih]

theorem findIdx_le_length' (q : α → Bool) (l : List α) : l.findIdx q ≤ l.length := List.findIdx_le_length

theorem drop_findIdx_not (p : α → Bool) (l : List α) : l.drop (l.findIdx (fun x => !p x)) = l.dropWhile p := by
  induction l with
  | nil => simp
  | cons x xs ih =>
    simp only [List.findIdx_cons, List.dropWhile_cons]
    by_cases hq : p x <;> simp [hq, ih]

theorem findIdx_not_eq_takeWhile (p : α → Bool) (l : List α) : l.findIdx (fun x => !p x) = (l.takeWhile p).length := by
  induction l with
  | nil => simp
  | cons x xs ih =>
    simp only [List.findIdx_cons, List.takeWhile_cons]
    by_cases hq : p x <;> simp [hq, ih]

end Tetl.C06
