/-
C06 — unique_copy.hpp, unique.hpp, adjacent_find.hpp, is_sorted_until.hpp, is_sorted.hpp against the
declarative spec, for every input, the range in its context `P ++ R ++ S`.
`Spec.adjacentFind` / `Spec.isSortedUntil` (a `find?` over the indices) are first given their recursive
equations (`unique_adjacentFind_cons2`, `unique_isSortedUntil_cons2`); the loops are then proved against
these by induction on the trip count.  `unique` uses the invariant of Remove.lean: the storage is
`P ++ K0 ++ [k] ++ Z ++ T ++ S` with `K0 ++ [k]` the kept elements (`k = *result`), `Z` the hole (empty as
long as nothing was dropped: `++result != first` guards the self-move), `T` the part not yet visited.
-/
import TetlProofs.C06.Fill
namespace Tetl.C06
open Tetl
variable {α : Type}

/-! ### unique_copy -/
theorem unique_copyLoop_spec (pred : α → α → Bool) (P R S : List α) : ∀ (n i : Nat) (cur : α), i + n = R.length →
    uniqueCopyLoop pred (P ++ R ++ S) P.length (P.length + R.length) n (P.length + i) cur
      = .ok (Spec.uniqueAux pred cur (R.drop i)) := by
  intro n
  induction n with
  | zero =>
    intro i cur h
    have : R.drop i = [] := List.drop_eq_nil_of_le (by omega)
    simp [uniqueCopyLoop, Spec.uniqueAux, this]
  | succ n ih =>
    intro i cur h
    have hi : i < R.length := by omega
    simp only [uniqueCopyLoop, rdR_ctx P R S i hi, ok_bind, drop_eq_cons hi, Spec.uniqueAux]
    rw [show P.length + i + 1 = P.length + (i + 1) from by omega, ih (i + 1) _ (by omega), ih (i + 1) _ (by omega)]
    by_cases hq : pred cur R[i] <;> simp [hq]

theorem uniqueCopy_spec (pred : α → α → Bool) (P R S : List α) :
    uniqueCopy pred (P ++ R ++ S) P.length (P.length + R.length) = .ok (Spec.unique pred R) := by
  unfold uniqueCopy
  cases R with
  | nil => simp [Spec.unique]
  | cons x R' =>
    have hne : (P.length != P.length + (x :: R').length) = true := by
      rw [bne_iff_ne]; simp
    rw [if_pos hne]
    have h0 := rdR_ctx P (x :: R') S 0 (by simp)
    rw [Nat.add_zero] at h0
    simp only [List.getElem_cons_zero] at h0
    rw [h0, ok_bind]
    have h1 := unique_copyLoop_spec pred P (x :: R') S R'.length 1 x (by simp; omega)
    rw [show P.length + (x :: R').length - P.length - 1 = R'.length from by simp, h1]
    simp [Spec.unique]

/-! ### find? over `List.range` -/
theorem unique_find_range_succ (g : Nat → Bool) (n : Nat) :
    (List.range (n + 1)).find? g
      = if g 0 then some 0 else ((List.range n).find? (fun i => g (i + 1))).map (· + 1) := by
  rw [List.range_succ_eq_map, List.find?_cons]
  by_cases h : g 0
  · simp [h]
  · simp only [h, Bool.false_eq_true, if_false]
    rw [List.find?_map]
    rfl

theorem unique_adjacentFind_nil (pred : α → α → Bool) : Spec.adjacentFind pred [] = 0 := by
  simp [Spec.adjacentFind]

theorem unique_adjacentFind_single (pred : α → α → Bool) (x : α) : Spec.adjacentFind pred [x] = 1 := by
  simp [Spec.adjacentFind]

theorem unique_adjacentFind_cons2 (pred : α → α → Bool) (x y : α) (t : List α) :
    Spec.adjacentFind pred (x :: y :: t)
      = if pred x y then 0 else Spec.adjacentFind pred (y :: t) + 1 := by
  unfold Spec.adjacentFind
  simp only [List.length_cons, Nat.add_sub_cancel]
  rw [unique_find_range_succ]
  by_cases h : pred x y
  · simp [h]
  · simp only [List.getElem?_cons_zero, List.getElem?_cons_succ, Nat.zero_add, h, Bool.false_eq_true, if_false]
    generalize List.find? _ (List.range t.length) = o
    cases o <;> simp

theorem unique_isSortedUntil_nil (lt : α → α → Bool) : Spec.isSortedUntil lt [] = 0 := by
  simp [Spec.isSortedUntil]

theorem unique_isSortedUntil_single (lt : α → α → Bool) (x : α) : Spec.isSortedUntil lt [x] = 1 := by
  simp [Spec.isSortedUntil]

theorem unique_isSortedUntil_cons2 (lt : α → α → Bool) (x y : α) (t : List α) :
    Spec.isSortedUntil lt (x :: y :: t)
      = if lt y x then 1 else Spec.isSortedUntil lt (y :: t) + 1 := by
  unfold Spec.isSortedUntil
  simp only [List.length_cons, Nat.add_sub_cancel]
  rw [unique_find_range_succ]
  by_cases h : lt y x
  · simp [h]
  · simp only [List.getElem?_cons_zero, List.getElem?_cons_succ, Nat.zero_add, h, Bool.false_eq_true, if_false]
    generalize List.find? _ (List.range t.length) = o
    cases o <;> simp

/-! ### adjacent_find -/
theorem unique_adjFindLoop_spec (pred : α → α → Bool) (P R S : List α) : ∀ (n i : Nat), i + n + 1 = R.length →
    adjFindLoop pred (P ++ R ++ S) P.length (P.length + R.length) n (P.length + i)
      = .ok (P.length + i + Spec.adjacentFind pred (R.drop i)) := by
  intro n
  induction n with
  | zero =>
    intro i h
    have hi : i < R.length := by omega
    have : R.drop (i + 1) = [] := List.drop_eq_nil_of_le (by omega)
    rw [drop_eq_cons hi, this, unique_adjacentFind_single]
    simp only [adjFindLoop]
    congr 1; omega
  | succ n ih =>
    intro i h
    have hi : i < R.length := by omega
    have hi1 : i + 1 < R.length := by omega
    rw [drop_eq_cons hi, drop_eq_cons hi1, unique_adjacentFind_cons2, ← drop_eq_cons hi1]
    simp only [adjFindLoop]
    rw [rdR_ctx P R S i hi, ok_bind, show P.length + i + 1 = P.length + (i + 1) from by omega,
      rdR_ctx P R S (i + 1) hi1, ok_bind, ih (i + 1) (by omega)]
    by_cases hq : pred R[i] R[i + 1]
    · simp [hq]
    · simp only [hq, Bool.false_eq_true, if_false]
      congr 1; omega

theorem adjacentFind_spec (pred : α → α → Bool) (P R S : List α) :
    adjacentFind pred (P ++ R ++ S) P.length (P.length + R.length) = .ok (P.length + Spec.adjacentFind pred R) := by
  unfold adjacentFind
  cases R with
  | nil => simp [unique_adjacentFind_nil]
  | cons x R' =>
    have hne : ¬ ((P.length == P.length + (x :: R').length) = true) := by
      rw [beq_iff_eq]; simp
    rw [if_neg hne]
    have h1 := unique_adjFindLoop_spec pred P (x :: R') S R'.length 0 (by simp)
    rw [show P.length + (x :: R').length - P.length - 1 = R'.length from by simp]
    simpa using h1

/-! ### is_sorted_until / is_sorted -/
theorem unique_sortedUntilLoop_spec (lt : α → α → Bool) (P R S : List α) : ∀ (n i : Nat), i + n + 1 = R.length →
    sortedUntilLoop lt (P ++ R ++ S) P.length (P.length + R.length) n (P.length + i)
      = .ok (P.length + i + Spec.isSortedUntil lt (R.drop i)) := by
  intro n
  induction n with
  | zero =>
    intro i h
    have hi : i < R.length := by omega
    have : R.drop (i + 1) = [] := List.drop_eq_nil_of_le (by omega)
    rw [drop_eq_cons hi, this, unique_isSortedUntil_single]
    simp only [sortedUntilLoop]
    congr 1; omega
  | succ n ih =>
    intro i h
    have hi : i < R.length := by omega
    have hi1 : i + 1 < R.length := by omega
    rw [drop_eq_cons hi, drop_eq_cons hi1, unique_isSortedUntil_cons2, ← drop_eq_cons hi1]
    simp only [sortedUntilLoop]
    rw [show P.length + i + 1 = P.length + (i + 1) from by omega,
      rdR_ctx P R S (i + 1) hi1, ok_bind, rdR_ctx P R S i hi, ok_bind, ih (i + 1) (by omega)]
    by_cases hq : lt R[i + 1] R[i]
    · simp [hq]; omega
    · simp only [hq, Bool.false_eq_true, if_false]
      congr 1; omega

theorem isSortedUntil_spec (lt : α → α → Bool) (P R S : List α) :
    isSortedUntil lt (P ++ R ++ S) P.length (P.length + R.length) = .ok (P.length + Spec.isSortedUntil lt R) := by
  unfold isSortedUntil
  cases R with
  | nil => simp [unique_isSortedUntil_nil]
  | cons x R' =>
    have hne : (P.length != P.length + (x :: R').length) = true := by
      rw [bne_iff_ne]; simp
    rw [if_pos hne]
    have h1 := unique_sortedUntilLoop_spec lt P (x :: R') S R'.length 0 (by simp)
    rw [show P.length + (x :: R').length - P.length - 1 = R'.length from by simp]
    simpa using h1

theorem isSorted_spec (lt : α → α → Bool) (P R S : List α) :
    isSorted lt (P ++ R ++ S) P.length (P.length + R.length) = .ok (Spec.isSortedUntil lt R == R.length) := by
  unfold isSorted
  rw [isSortedUntil_spec]
  simp

/-- meaning of the is_sorted result: no adjacent pair is out of order -/
theorem isSortedUntil_eq_length_iff (lt : α → α → Bool) (R : List α) :
    Spec.isSortedUntil lt R = R.length ↔ ∀ i (h : i + 1 < R.length), lt R[i + 1] R[i] = false := by
  unfold Spec.isSortedUntil
  cases hf : (List.range (R.length - 1)).find? (fun i => match R[i]?, R[i+1]? with
      | some x, some y => lt y x | _, _ => false) with
  | none =>
    simp only [true_iff]
    intro i h
    rw [List.find?_eq_none] at hf
    have := hf i (by simp; omega)
    have e0 : R[i]? = some R[i] := List.getElem?_eq_getElem (by omega)
    have e1 : R[i + 1]? = some R[i + 1] := List.getElem?_eq_getElem h
    simpa [e0, e1] using this
  | some j =>
    have hj := List.find?_some hf
    have hm := List.mem_of_find?_eq_some hf
    simp only [List.mem_range] at hm
    have e0 : R[j]? = some R[j] := List.getElem?_eq_getElem (by omega)
    have e1 : R[j + 1]? = some R[j + 1] := List.getElem?_eq_getElem (by omega)
    simp only [e0, e1] at hj
    show j + 1 = R.length ↔ _
    constructor
    · intro h; exfalso; omega
    · intro h
      have := h j (by omega)
      rw [hj] at this
      cases this

/-! ### unique -/
/-- Invariant: storage `P ++ K0 ++ [k] ++ Z ++ T ++ S`; `K0 ++ [k]` kept so far (`k = *result`), `Z` the hole
    (possibly empty), `T` not yet visited. -/
theorem unique_loop_spec (pred : α → α → Bool) (P S : List α) (f0 l0 : Nat) (hf : f0 ≤ P.length) :
    ∀ (T K0 : List α) (k : α) (Z : List α), P.length + K0.length + 1 + Z.length + T.length ≤ l0 →
    ∃ Z', uniqueLoop pred f0 l0 T.length (P ++ K0 ++ (k :: Z) ++ T ++ S) (P.length + K0.length)
              (P.length + K0.length + Z.length)
            = .ok (P ++ (K0 ++ k :: Spec.uniqueAux pred k T) ++ Z' ++ S,
                   P.length + K0.length + 1 + (Spec.uniqueAux pred k T).length)
          ∧ Z'.length + (Spec.uniqueAux pred k T).length = Z.length + T.length := by
  intro T
  induction T with
  | nil =>
    intro K0 k Z _
    exact ⟨Z, by simp [uniqueLoop, Spec.uniqueAux], by simp [Spec.uniqueAux]⟩
  | cons t T ih =>
    intro K0 k Z hl
    simp only [List.length_cons] at hl ⊢
    unfold uniqueLoop
    simp only []
    -- read `*result`
    rw [show P ++ K0 ++ (k :: Z) ++ (t :: T) ++ S = (P ++ K0) ++ k :: (Z ++ t :: (T ++ S)) from by simp,
      show P.length + K0.length = (P ++ K0).length from by simp,
      rdR_mid _ _ k f0 l0 (by simp; omega) (by simp; omega), ok_bind]
    -- read `*first`
    rw [show (P ++ K0) ++ k :: (Z ++ t :: (T ++ S)) = (P ++ K0 ++ (k :: Z)) ++ t :: (T ++ S) from by simp,
      show (P ++ K0).length + Z.length + 1 = (P ++ K0 ++ (k :: Z)).length from by simp; omega,
      rdR_mid _ _ t f0 l0 (by simp; omega) (by simp; omega), ok_bind]
    by_cases hp : pred k t
    · -- equivalent to `*result`: skipped, the hole grows
      simp only [hp, Bool.not_true, Bool.false_eq_true, if_false, Spec.uniqueAux, if_true]
      obtain ⟨Z', h1, h2⟩ := ih K0 k (Z ++ [t]) (by simp; omega)
      refine ⟨Z', ?_, ?_⟩
      · have e : (P ++ K0 ++ (k :: Z)) ++ t :: (T ++ S) = P ++ K0 ++ (k :: (Z ++ [t])) ++ T ++ S := by simp
        have e1 : (P ++ K0).length = P.length + K0.length := by simp
        have e2 : (P ++ K0 ++ (k :: Z)).length = P.length + K0.length + (Z ++ [t]).length := by simp; omega
        rw [e, e1, e2, h1]
      · simp only [List.length_append, List.length_cons, List.length_nil] at h2
        omega
    · simp only [hp, Bool.not_false, if_true, Spec.uniqueAux, Bool.false_eq_true, if_false]
      cases Z with
      | nil =>
        -- `++result == first`: no move
        have hne : ¬ (((P ++ K0).length + 1 != (P ++ K0 ++ [k]).length) = true) := by
          simp; omega
        rw [if_neg hne]
        obtain ⟨Z', h1, h2⟩ := ih (K0 ++ [k]) t [] (by simp at hl ⊢; omega)
        refine ⟨Z', ?_, ?_⟩
        · have e : (P ++ K0 ++ [k]) ++ t :: (T ++ S) = P ++ (K0 ++ [k]) ++ [t] ++ T ++ S := by simp
          have e1 : (P ++ K0).length + 1 = P.length + (K0 ++ [k]).length := by simp; omega
          have e2 : (P ++ K0 ++ [k]).length = P.length + (K0 ++ [k]).length + ([] : List α).length := by simp
          rw [e, e1, e2, h1]
          simp [List.append_assoc]
          omega
        · simp only [List.length_cons, List.length_nil] at h2 ⊢
          omega
      | cons z Z0 =>
        have hne : (((P ++ K0).length + 1 != (P ++ K0 ++ (k :: z :: Z0)).length) = true) := by
          rw [bne_iff_ne]; simp; omega
        rw [if_pos hne]
        rw [show (P ++ K0 ++ (k :: z :: Z0)) ++ t :: (T ++ S) = (P ++ K0 ++ [k]) ++ z :: (Z0 ++ t :: (T ++ S)) from by simp,
          show (P ++ K0).length + 1 = (P ++ K0 ++ [k]).length from by simp; omega,
          wrR_mid _ _ z t f0 l0 (by simp; omega) (by simp at hl ⊢; omega), ok_bind]
        obtain ⟨Z', h1, h2⟩ := ih (K0 ++ [k]) t (Z0 ++ [t]) (by simp at hl ⊢; omega)
        refine ⟨Z', ?_, ?_⟩
        · have e : (P ++ K0 ++ [k]) ++ t :: (Z0 ++ t :: (T ++ S)) = P ++ (K0 ++ [k]) ++ (t :: (Z0 ++ [t])) ++ T ++ S := by simp
          have e1 : (P ++ K0 ++ [k]).length = P.length + (K0 ++ [k]).length := by simp
          have e2 : (P ++ K0 ++ (k :: z :: Z0)).length = P.length + (K0 ++ [k]).length + (Z0 ++ [t]).length := by
            simp; omega
          rw [e, e1, e2, h1]
          simp [List.append_assoc]
          omega
        · simp only [List.length_append, List.length_cons, List.length_nil] at h2 ⊢
          omega

/-- the tail behind the returned iterator is unspecified: `Z` -/
theorem unique_spec (pred : α → α → Bool) (P R S : List α) :
    ∃ Z, unique pred (P ++ R ++ S) P.length (P.length + R.length)
          = .ok (P ++ (Spec.unique pred R ++ Z) ++ S, P.length + (Spec.unique pred R).length)
        ∧ (Spec.unique pred R ++ Z).length = R.length := by
  unfold unique
  cases R with
  | nil => exact ⟨[], by simp [Spec.unique], by simp [Spec.unique]⟩
  | cons x R' =>
    have hne : ¬ ((P.length == P.length + (x :: R').length) = true) := by
      rw [beq_iff_eq]; simp
    rw [if_neg hne]
    obtain ⟨Z', h1, h2⟩ := unique_loop_spec pred P S P.length (P.length + (x :: R').length) (Nat.le_refl _)
      R' [] x [] (by simp; omega)
    refine ⟨Z', ?_, ?_⟩
    · rw [show P.length + (x :: R').length - P.length - 1 = R'.length from by simp]
      simp only [List.append_nil, List.length_nil, Nat.add_zero, List.nil_append] at h1
      rw [show P ++ x :: R' ++ S = P ++ [x] ++ R' ++ S from by simp, h1]
      simp [Spec.unique, List.append_assoc]
      omega
    · simp only [List.length_nil, Nat.zero_add] at h2
      simp only [Spec.unique, List.length_append, List.length_cons]
      omega

/-! ### the statements are not vacuous -/
example : unique (fun a b : Nat => a == b) [9,1,1,2,2,2,3,1,9] 1 8 = .ok ([9,1,2,3,1,2,3,1,9], 5) := by decide
example : Spec.unique (fun a b : Nat => a == b) [1,1,2,2,2,3,1] = [1,2,3,1] := by decide
example : Spec.adjacentFind (fun a b : Nat => a == b) [1,2,2,3] = 1 := by decide
example : Spec.isSortedUntil (fun a b : Nat => decide (a < b)) [1,2,2,1,5] = 3 := by decide

end Tetl.C06
