/-
C06 — output-iterator algorithms: bridges for copy / copy_if / remove_copy(_if) / copy_n / reverse_copy /
rotate_copy / transform.  Each `Out.X` (destination in the model) equals `writeAll` of the value stream `X`.
-/
import TetlProofs.C06.OutBase
namespace Tetl.C06
open Tetl
variable {α : Type}

/-! ### copy -/
theorem outCopy_bridge (a : List α) (f l : Nat) (d : List α) (dlo dhi : Nat) (ws : List α)
    (h : visitLoop a f l (l - f) f = .ok ws) : Out.copy a f l d dlo dhi = writeAll dlo dhi ws d dlo :=
  outCopyLoop_bridge a f l dlo dhi (l - f) f ws d dlo h

/-! ### copy_if -/
theorem outCopy_copyIfLoop (p : α → Bool) (a : List α) (f l dlo dhi : Nat) :
    ∀ (n i : Nat) (ws d : List α) (o : Nat), copyIfLoop p a f l n i = .ok ws →
      Out.copyIfLoop p a f l dlo dhi n i d o = writeAll dlo dhi ws d o := by
  intro n
  induction n with
  | zero => intro i ws d o h; simp [copyIfLoop] at h; subst h; rfl
  | succ n ih =>
    intro i ws d o h
    unfold copyIfLoop at h
    cases hx : rdR a f l i with
    | error e => rw [hx] at h; simp at h
    | ok x =>
      rw [hx, ok_bind] at h
      cases hr : copyIfLoop p a f l n (i + 1) with
      | error e => rw [hr] at h; simp at h
      | ok r =>
        rw [hr, ok_bind] at h
        injection h with h
        subst h
        unfold Out.copyIfLoop
        rw [hx, ok_bind]
        cases hp : p x with
        | false =>
          simp only [Bool.false_eq_true, if_false]
          exact ih (i + 1) r d o hr
        | true =>
          simp only [if_true, writeAll_cons]
          cases hw : wrR d dlo dhi o x with
          | error e => rfl
          | ok d' => simp only [ok_bind]; exact ih (i + 1) r d' (o + 1) hr

theorem outCopyIf_bridge (p : α → Bool) (a : List α) (f l : Nat) (d : List α) (dlo dhi : Nat) (ws : List α)
    (h : copyIf p a f l = .ok ws) : Out.copyIf p a f l d dlo dhi = writeAll dlo dhi ws d dlo :=
  outCopy_copyIfLoop p a f l dlo dhi (l - f) f ws d dlo h

/-! ### remove_copy_if / remove_copy -/
theorem outCopy_removeCopyIfLoop (p : α → Bool) (a : List α) (f l dlo dhi : Nat) :
    ∀ (n i : Nat) (ws d : List α) (o : Nat), copyIfLoop (fun x => !p x) a f l n i = .ok ws →
      Out.removeCopyIfLoop p a f l dlo dhi n i d o = writeAll dlo dhi ws d o := by
  intro n
  induction n with
  | zero => intro i ws d o h; simp [copyIfLoop] at h; subst h; rfl
  | succ n ih =>
    intro i ws d o h
    unfold copyIfLoop at h
    cases hx : rdR a f l i with
    | error e => rw [hx] at h; simp at h
    | ok x =>
      rw [hx, ok_bind] at h
      cases hr : copyIfLoop (fun x => !p x) a f l n (i + 1) with
      | error e => rw [hr] at h; simp at h
      | ok r =>
        rw [hr, ok_bind] at h
        injection h with h
        subst h
        unfold Out.removeCopyIfLoop
        rw [hx, ok_bind]
        cases hp : p x with
        | true =>
          simp only [Bool.not_true, Bool.false_eq_true, if_false]
          exact ih (i + 1) r d o hr
        | false =>
          simp only [Bool.not_false, if_true, writeAll_cons]
          cases hw : wrR d dlo dhi o x with
          | error e => rfl
          | ok d' => simp only [ok_bind]; exact ih (i + 1) r d' (o + 1) hr

theorem outRemoveCopyIf_bridge (p : α → Bool) (a : List α) (f l : Nat) (d : List α) (dlo dhi : Nat) (ws : List α)
    (h : removeCopyIf p a f l = .ok ws) : Out.removeCopyIf p a f l d dlo dhi = writeAll dlo dhi ws d dlo :=
  outCopy_removeCopyIfLoop p a f l dlo dhi (l - f) f ws d dlo h

theorem outRemoveCopy_bridge (eq : α → α → Bool) (v : α) (a : List α) (f l : Nat) (d : List α) (dlo dhi : Nat) (ws : List α)
    (h : removeCopy eq v a f l = .ok ws) : Out.removeCopy eq v a f l d dlo dhi = writeAll dlo dhi ws d dlo :=
  outRemoveCopyIf_bridge (fun x => eq x v) a f l d dlo dhi ws h

/-! ### copy_n -/
theorem outCopy_copyNLoop (a : List α) (f l dlo dhi : Nat) :
    ∀ (n i : Nat) (ws d : List α) (o : Nat), visitLoop a f l n (i + 1) = .ok ws →
      Out.copyNLoop a f l dlo dhi n i d o = writeAll dlo dhi ws d o := by
  intro n
  induction n with
  | zero => intro i ws d o h; simp [visitLoop] at h; subst h; rfl
  | succ n ih =>
    intro i ws d o h
    unfold visitLoop at h
    cases hx : rdR a f l (i + 1) with
    | error e => rw [hx] at h; simp at h
    | ok x =>
      rw [hx, ok_bind] at h
      cases hr : visitLoop a f l n (i + 1 + 1) with
      | error e => rw [hr] at h; simp at h
      | ok r =>
        rw [hr, ok_bind] at h
        injection h with h
        subst h
        unfold Out.copyNLoop
        simp only []
        rw [hx, ok_bind, writeAll_cons]
        cases hw : wrR d dlo dhi o x with
        | error e => rfl
        | ok d' => simp only [ok_bind]; exact ih (i + 1) r d' (o + 1) hr

theorem outCopyN_bridge (a : List α) (f l : Nat) (count : Int) (d : List α) (dlo dhi : Nat) (ws : List α)
    (h : copyN a f l count = .ok ws) : Out.copyN a f l count d dlo dhi = writeAll dlo dhi ws d dlo := by
  unfold copyN at h
  unfold Out.copyN
  by_cases hc : count > 0
  · rw [if_pos hc] at h
    rw [if_pos hc]
    obtain ⟨m, hm⟩ : ∃ m, count.toNat = m + 1 := ⟨count.toNat - 1, by omega⟩
    rw [hm] at h
    rw [show count.toNat - 1 = m from by omega]
    unfold visitLoop at h
    cases hx : rdR a f l f with
    | error e => rw [hx] at h; simp at h
    | ok x =>
      rw [hx, ok_bind] at h
      cases hr : visitLoop a f l m (f + 1) with
      | error e => rw [hr] at h; simp at h
      | ok r =>
        rw [hr, ok_bind] at h
        injection h with h
        subst h
        rw [ok_bind, writeAll_cons]
        cases hw : wrR d dlo dhi dlo x with
        | error e => rfl
        | ok d' => simp only [ok_bind]; exact outCopy_copyNLoop a f l dlo dhi m f r d' (dlo + 1) hr
  · rw [if_neg hc] at h
    rw [if_neg hc]
    injection h with h
    subst h
    rfl

/-! ### reverse_copy -/
theorem outCopy_reverseCopyLoop (a : List α) (f l dlo dhi : Nat) :
    ∀ (n last : Nat) (ws d : List α) (o : Nat), reverseCopyLoop a f l n last = .ok ws →
      Out.reverseCopyLoop a f l dlo dhi n last d o = writeAll dlo dhi ws d o := by
  intro n
  induction n with
  | zero => intro i ws d o h; simp [reverseCopyLoop] at h; subst h; rfl
  | succ n ih =>
    intro last ws d o h
    unfold reverseCopyLoop at h
    cases last with
    | zero => simp at h
    | succ k =>
      simp only [Nat.add_sub_cancel, Nat.add_one_ne_zero, beq_iff_eq, if_false] at h
      cases hx : rdR a f l k with
      | error e => rw [hx] at h; simp at h
      | ok x =>
        rw [hx, ok_bind] at h
        cases hr : reverseCopyLoop a f l n k with
        | error e => rw [hr] at h; simp at h
        | ok r =>
          rw [hr, ok_bind] at h
          injection h with h
          subst h
          unfold Out.reverseCopyLoop
          simp only [Nat.add_sub_cancel, Nat.add_one_ne_zero, beq_iff_eq, if_false]
          rw [hx, ok_bind, writeAll_cons]
          cases hw : wrR d dlo dhi o x with
          | error e => rfl
          | ok d' => simp only [ok_bind]; exact ih k r d' (o + 1) hr

theorem outReverseCopy_bridge (a : List α) (f l : Nat) (d : List α) (dlo dhi : Nat) (ws : List α)
    (h : reverseCopy a f l = .ok ws) : Out.reverseCopy a f l d dlo dhi = writeAll dlo dhi ws d dlo :=
  outCopy_reverseCopyLoop a f l dlo dhi (l - f) l ws d dlo h

/-! ### rotate_copy -/
theorem outRotateCopy_bridge (a : List α) (f m l : Nat) (d : List α) (dlo dhi : Nat) (ws : List α)
    (h : rotateCopy a f m l = .ok ws) : Out.rotateCopy a f m l d dlo dhi = writeAll dlo dhi ws d dlo := by
  unfold rotateCopy at h
  cases hx : visitLoop a m l (l - m) m with
  | error e => rw [hx] at h; simp at h
  | ok xs =>
    rw [hx, ok_bind] at h
    cases hy : visitLoop a f m (m - f) f with
    | error e => rw [hy] at h; simp at h
    | ok ys =>
      rw [hy, ok_bind] at h
      injection h with h
      subst h
      unfold Out.rotateCopy
      rw [outCopyLoop_bridge a m l dlo dhi (l - m) m xs d dlo hx, writeAll_append]
      cases hw : writeAll dlo dhi xs d dlo with
      | error e => rfl
      | ok r =>
        obtain ⟨d', o'⟩ := r
        simp only [ok_bind]
        exact outCopyLoop_bridge a f m dlo dhi (m - f) f ys d' o' hy

/-! ### transform (unary) -/
theorem outCopy_transform1Loop (op : α → α) (a : List α) (f l dlo dhi : Nat) :
    ∀ (n i : Nat) (vs d : List α) (o : Nat), visitLoop a f l n i = .ok vs →
      Out.transform1Loop op a f l dlo dhi n i d o = writeAll dlo dhi (vs.map op) d o := by
  intro n
  induction n with
  | zero => intro i ws d o h; simp [visitLoop] at h; subst h; rfl
  | succ n ih =>
    intro i ws d o h
    unfold visitLoop at h
    cases hx : rdR a f l i with
    | error e => rw [hx] at h; simp at h
    | ok x =>
      rw [hx, ok_bind] at h
      cases hr : visitLoop a f l n (i + 1) with
      | error e => rw [hr] at h; simp at h
      | ok r =>
        rw [hr, ok_bind] at h
        injection h with h
        subst h
        unfold Out.transform1Loop
        rw [hx, ok_bind, List.map_cons, writeAll_cons]
        cases hw : wrR d dlo dhi o (op x) with
        | error e => rfl
        | ok d' => simp only [ok_bind]; exact ih (i + 1) r d' (o + 1) hr

theorem outTransform1_bridge (op : α → α) (a : List α) (f l : Nat) (d : List α) (dlo dhi : Nat) (ws : List α)
    (h : transform1 op a f l = .ok ws) : Out.transform1 op a f l d dlo dhi = writeAll dlo dhi ws d dlo := by
  unfold transform1 at h
  cases hv : visitLoop a f l (l - f) f with
  | error e => rw [hv] at h; simp at h
  | ok vs =>
    rw [hv] at h
    simp only [ok_bind] at h
    injection h with h
    subst h
    exact outCopy_transform1Loop op a f l dlo dhi (l - f) f vs d dlo hv

/-! ### transform (binary) -/
theorem outCopy_transform2Loop (op : α → α → α) (a : List α) (f l : Nat) (b : List α) (g h dlo dhi : Nat) :
    ∀ (n i j : Nat) (ws d : List α) (o : Nat), transform2Loop op a f l b g h n i j = .ok ws →
      Out.transform2Loop op a f l b g h dlo dhi n i j d o = writeAll dlo dhi ws d o := by
  intro n
  induction n with
  | zero => intro i j ws d o hs; simp [transform2Loop] at hs; subst hs; rfl
  | succ n ih =>
    intro i j ws d o hs
    unfold transform2Loop at hs
    cases hx : rdR a f l i with
    | error e => rw [hx] at hs; simp at hs
    | ok x =>
      rw [hx, ok_bind] at hs
      cases hy : rdR b g h j with
      | error e => rw [hy] at hs; simp at hs
      | ok y =>
        rw [hy, ok_bind] at hs
        cases hr : transform2Loop op a f l b g h n (i + 1) (j + 1) with
        | error e => rw [hr] at hs; simp at hs
        | ok r =>
          rw [hr, ok_bind] at hs
          injection hs with hs
          subst hs
          unfold Out.transform2Loop
          rw [hx, ok_bind, hy, ok_bind, writeAll_cons]
          cases hw : wrR d dlo dhi o (op x y) with
          | error e => rfl
          | ok d' => simp only [ok_bind]; exact ih (i + 1) (j + 1) r d' (o + 1) hr

theorem outTransform2_bridge (op : α → α → α) (a : List α) (f l : Nat) (b : List α) (g h : Nat) (d : List α) (dlo dhi : Nat)
    (ws : List α) (hs : transform2 op a f l b g h = .ok ws) : Out.transform2 op a f l b g h d dlo dhi = writeAll dlo dhi ws d dlo :=
  outCopy_transform2Loop op a f l b g h dlo dhi (l - f) f g ws d dlo hs

end Tetl.C06
